(* Executable model of ninja's build PLAN (class Plan of src/build.cc, class Pool of src/state.cc) and of the
   main build LOOP (Builder::Build / StartEdge / FinishCommand / SetFailureCode) -- the scheduler
   bookkeeping only.  ONLY definitions (proofs: PlanProofs.v).

   What is a transliteration and what is abstracted
   ------------------------------------------------
   * Edges are [nat] ids (index in [g_edges]).  Per edge the model knows what the plan looks at:
       [ei_ins]   for every input NODE that has a producing edge, the id of that edge, one entry per
                  occurrence (leaf inputs omitted; explicit, implicit, order-only and loaded deps alike;
                  validations are NOT inputs) -- all that Edge::AllInputsReady reads;
       [ei_cons]  the edges Plan::NodeFinished visits when this edge finished: for each output in
                  order, that node's out_edges() in order (duplicates kept);
       [ei_pool], [ei_phony].
   * [p_want] is Plan::want_ (absent = [None]); [p_ready] is Plan::ready_ AS A SET: the priority order
     is not modelled; which ready edge FindWork pops is an input of the transition ([EvStart e]),
     checked for membership.  Likewise Pool::delayed_ is a set ([p_delayed], all pools together; the
     pool of an edge is static) and the order in which Pool::RetrieveReadyEdges takes edges out of
     it is an input of each transition: the [prio] list (earlier = taken first).  All theorems
     quantify over ALL [prio] lists at every step, so they hold for every priority heuristic.
   * Edge::weight() is the constant 1 in the code; the model uses 1.
   * C++ [int] counters that the code decrements are [nat] here; a decrement of 0 is [Forbidden]
     (never silently truncated).  Violated [assert]s are [Forbidden] too.
   * StartEdge/FinishCommand I/O failures and failing dyndep loads (parse error, cycle) are out of scope.
   * DYNDEP LOADS during the build (Builder::LoadDyndeps called from Plan::EdgeFinished, then
     Plan::DyndepsLoaded / RefreshDyndepDependents / UnmarkDependents) ARE modelled:
       - the graph update is static data: an [ei_ins]/[ei_cons] entry [(x, Some b)] exists only once the
         dyndep information of edge [b] has been loaded ([p_loaded]); [ei_ddprod b = Some e] says that b is
         bound to a dyndep file that is still pending when Build() starts and is produced by edge e;
         the load happens inside EdgeFinished(e), for every successful EdgeFinished (a command, a phony
         edge, an unwanted edge checked off by EdgeMaybeReady);
       - what the re-scan (DependencyScan::RecomputeDirty on the dependents) decides is an input taken
         from the trace, like the restat pruning decisions: [ld_dirty], [ld_ready], [ld_added], and so is
         the iteration order of dyndep_walk ([ld_walk]); every such fact the model can check is checked
         ([apply_load]: dependents, want_ values, readiness of inputs, closure of want_, no scheduled
         edge loses a ready input, every edge that became ready is visited);
       - the model itself does the bookkeeping: kWantNothing -> kWantToStart with EdgeWanted's counters,
         the new want_ entries, outputs_ready of the clean dependents, the EdgeMaybeReady loop.
     Dyndep files loaded by the dependency scan before Build() are part of the snapshot (plain entries).
   * The tree modelled is the one WITH the commits "fix: mark initially pool-delayed edges as scheduled
     in Plan::ScheduleInitialEdges" (see [sched_init_edge]; the old behaviour is [sched_init_edge_old])
     and "fix: keep an edge dirty when it is re-scanned after a dyndep load" (see [op_rescan]). *)
From NinjaV Require Import Base.Bytes.

(* ------------------------------------------------------------------ static data *)
Inductive want_t := WNothing | WToStart | WToFinish.

Definition want_eqb (a b : want_t) : bool :=
  match a, b with
  | WNothing, WNothing | WToStart, WToStart | WToFinish, WToFinish => true
  | _, _ => false
  end.

(* an entry [(x, None)] is always there; [(x, Some b)] once the dyndep information of edge b is loaded *)
Definition gated := (nat * option nat)%type.

Record edge_info := mkEdge {
  ei_ins : list gated;
  ei_cons : list gated;
  ei_pool : nat;
  ei_phony : bool;
  ei_ddprod : option nat;   (* bound to a dyndep file still pending at Build(), produced by that edge *)
  ei_ddouts : list nat }.   (* for the producer of pending dyndep files: those nodes' out_edges() *)

Definition plain (l : list nat) : list gated := map (fun x => (x, None)) l.

(* [g_depths]: depth of pool id p (0 = unlimited; pool ids beyond the list have depth 0). *)
Record graph := mkGraph { g_edges : list edge_info; g_depths : list nat }.

Definition dummy_edge : edge_info := mkEdge [] [] 0 false None [].
Definition einfo (g : graph) (e : nat) : edge_info := nth e (g_edges g) dummy_edge.
Definition n_edges (g : graph) : nat := length (g_edges g).
Definition ins_full (g : graph) (e : nat) : list nat := map fst (ei_ins (einfo g e)).
Definition ddprod (g : graph) (e : nat) : option nat := ei_ddprod (einfo g e).
Definition ddouts (g : graph) (e : nat) : list nat := ei_ddouts (einfo g e).
Definition pool (g : graph) (e : nat) : nat := ei_pool (einfo g e).
Definition phony (g : graph) (e : nat) : bool := ei_phony (einfo g e).
Definition depth (g : graph) (q : nat) : nat := nth q (g_depths g) 0.
Definition all_edges (g : graph) : list nat := seq 0 (n_edges g).

(* -j, -k (config_.failures_allowed; "-k 0" = INT_MAX is given as any number > #edges),
   jobserver: [None] = no jobserver client, [Some n] = implicit slot + n explicit tokens. *)
Record config := mkConfig { c_j : nat; c_k : nat; c_jobserver : option nat }.

(* ------------------------------------------------------------------ small list/function tools *)
Definition upd {A : Type} (f : nat -> A) (k : nat) (v : A) : nat -> A :=
  fun x => if Nat.eqb x k then v else f x.

Definition memb (x : nat) (l : list nat) : bool := existsb (Nat.eqb x) l.

Fixpoint rem (x : nat) (l : list nat) : list nat :=
  match l with
  | [] => []
  | y :: t => if Nat.eqb x y then rem x t else y :: rem x t
  end.

Inductive res (A : Type) : Type :=
| Ok (a : A)
| Forbidden          (* the implementation did something the model forbids (assert, negative counter) *)
| OutOfFuel.         (* recursion fuel exhausted: distinct, proved unreachable ([*_fuel_sufficient]) *)
Arguments Ok {A} a.
Arguments Forbidden {A}.
Arguments OutOfFuel {A}.

(* ------------------------------------------------------------------ the plan *)
Record plan := mkPlan {
  p_want : nat -> option want_t;     (* Plan::want_ *)
  p_ready : list nat;                (* Plan::ready_ (set) *)
  p_delayed : list nat;              (* union of Pool::delayed_ (set) *)
  p_use : nat -> nat;                (* Pool::current_use_ by pool id *)
  p_wanted : nat;                    (* Plan::wanted_edges_ *)
  p_commands : nat;                  (* Plan::command_edges_ *)
  p_oready : nat -> bool;            (* Edge::outputs_ready_ *)
  p_tokens : nat;                    (* jobserver slots currently held through Edge::job_slot_ *)
  p_loaded : nat -> bool }.          (* the dyndep information of this (bound) edge has been loaded *)

Definition set_want (p : plan) (w : nat -> option want_t) : plan :=
  mkPlan w (p_ready p) (p_delayed p) (p_use p) (p_wanted p) (p_commands p) (p_oready p) (p_tokens p) (p_loaded p).
Definition set_ready (p : plan) (r : list nat) : plan :=
  mkPlan (p_want p) r (p_delayed p) (p_use p) (p_wanted p) (p_commands p) (p_oready p) (p_tokens p) (p_loaded p).
Definition set_delayed (p : plan) (d : list nat) : plan :=
  mkPlan (p_want p) (p_ready p) d (p_use p) (p_wanted p) (p_commands p) (p_oready p) (p_tokens p) (p_loaded p).
Definition set_use (p : plan) (u : nat -> nat) : plan :=
  mkPlan (p_want p) (p_ready p) (p_delayed p) u (p_wanted p) (p_commands p) (p_oready p) (p_tokens p) (p_loaded p).
Definition set_wanted (p : plan) (n : nat) : plan :=
  mkPlan (p_want p) (p_ready p) (p_delayed p) (p_use p) n (p_commands p) (p_oready p) (p_tokens p) (p_loaded p).
Definition set_commands (p : plan) (n : nat) : plan :=
  mkPlan (p_want p) (p_ready p) (p_delayed p) (p_use p) (p_wanted p) n (p_oready p) (p_tokens p) (p_loaded p).
Definition set_oready (p : plan) (o : nat -> bool) : plan :=
  mkPlan (p_want p) (p_ready p) (p_delayed p) (p_use p) (p_wanted p) (p_commands p) o (p_tokens p) (p_loaded p).
Definition set_tokens (p : plan) (n : nat) : plan :=
  mkPlan (p_want p) (p_ready p) (p_delayed p) (p_use p) (p_wanted p) (p_commands p) (p_oready p) n (p_loaded p).
Definition set_loaded (p : plan) (l : nat -> bool) : plan :=
  mkPlan (p_want p) (p_ready p) (p_delayed p) (p_use p) (p_wanted p) (p_commands p) (p_oready p) (p_tokens p) l.

(* the graph as it is now *)
Definition active (p : plan) (x : gated) : bool :=
  match snd x with None => true | Some b => p_loaded p b end.
Definition ins_at (g : graph) (p : plan) (e : nat) : list nat :=
  map fst (filter (active p) (ei_ins (einfo g e))).
Definition cons_at (g : graph) (p : plan) (e : nat) : list nat :=
  map fst (filter (active p) (ei_cons (einfo g e))).

(* Edge::AllInputsReady *)
Definition all_inputs_ready (g : graph) (p : plan) (e : nat) : bool :=
  forallb (p_oready p) (ins_at g p e).

(* Plan::more_to_do *)
Definition more_to_do (p : plan) : bool := (0 <? p_wanted p) && (0 <? p_commands p).

(* delayed_ of pool q *)
Definition delayed_of (g : graph) (q : nat) (dl : list nat) : list nat :=
  filter (fun e => Nat.eqb (pool g e) q) dl.

(* first element of [prio] that is in [dl]; [dflt] when none is *)
Fixpoint pick (prio dl : list nat) (dflt : nat) : nat :=
  match prio with
  | [] => dflt
  | x :: t => if memb x dl then x else pick t dl dflt
  end.

(* Pool::RetrieveReadyEdges: while the first delayed edge fits (current_use_ + weight <= depth_)
   move it to ready_ and count it (Pool::EdgeScheduled).  The loop runs at most |delayed_| times. *)
Fixpoint retrieve_n (n : nat) (g : graph) (prio : list nat) (q : nat) (p : plan) : plan :=
  match n with
  | O => p
  | S n' =>
    match delayed_of g q (p_delayed p) with
    | [] => p
    | d0 :: dq =>
      if depth g q <? p_use p q + 1 then p
      else
        let x := pick prio (d0 :: dq) d0 in
        retrieve_n n' g prio q
          (set_use (set_ready (set_delayed p (rem x (p_delayed p))) (x :: p_ready p))
                   (upd (p_use p) q (p_use p q + 1)))
    end
  end.

Definition retrieve (g : graph) (prio : list nat) (q : nat) (p : plan) : plan :=
  retrieve_n (length (p_delayed p)) g prio q p.

(* Plan::ScheduleWork *)
Definition schedule_work (g : graph) (prio : list nat) (e : nat) (p : plan) : res plan :=
  match p_want p e with
  | Some WToFinish => Ok p                       (* already scheduled *)
  | Some WToStart =>
    let p1 := set_want p (upd (p_want p) e (Some WToFinish)) in
    if Nat.eqb (depth g (pool g e)) 0
    then Ok (set_ready p1 (e :: p_ready p1))     (* EdgeScheduled is a no-op for depth 0 *)
    else Ok (retrieve g prio (pool g e) (set_delayed p1 (e :: p_delayed p1)))
  | _ => Forbidden                               (* assert(want_e->second == kWantToStart) *)
  end.

Fixpoint fold_res (f : nat -> plan -> res plan) (l : list nat) (p : plan) : res plan :=
  match l with
  | [] => Ok p
  | d :: t => match f d p with
              | Ok p' => fold_res f t p'
              | r => r
              end
  end.

(* jobserver_->Release(std::move(edge->job_slot_)): a no-op for an invalid slot *)
Definition release_token (cfg : config) (holds_slot : bool) (p : plan) : option plan :=
  match c_jobserver cfg with
  | None => Some p
  | Some _ =>
    if holds_slot
    then (match p_tokens p with O => None | S t => Some (set_tokens p t) end)
    else Some p
  end.


(* ------------------------------------------------------------------ dyndep loads *)
Definition count_if (f : nat -> bool) (l : list nat) : nat := length (filter f l).

Definition is_wanted (w : nat -> option want_t) (e : nat) : bool :=
  match w e with Some WToStart | Some WToFinish => true | _ => false end.

(* number of wanted non-phony edges *)
Definition npwf (g : graph) (w : nat -> option want_t) : nat :=
  count_if (fun e => is_wanted w e && negb (phony g e)) (all_edges g).

Definition in_want (p : plan) (e : nat) : bool :=
  match p_want p e with None => false | Some _ => true end.

(* What the trace says about one call of Plan::DyndepsLoaded (the one made by EdgeFinished of the
   edge that produces the dyndep file): the decisions of the re-scan and the order of dyndep_walk. *)
Record load := mkLoad {
  ld_dirty : list nat;            (* dependents in want_ as kWantNothing that RecomputeDirty found dirty *)
  ld_ready : list nat;            (* edges outside want_ that the re-scan visited for the first time and
                                     found up to date with ready inputs: outputs_ready_ = true *)
  ld_added : list (nat * bool);   (* entries AddSubTarget / AddTarget inserted into want_, in order;
                                     true = the node is dirty: kWantToStart + EdgeWanted *)
  ld_walk : list nat }.           (* dyndep_walk, in iteration order *)

(* Plan::EdgeWanted (the Status call EdgeAddedToPlan is accounted for by the caller: total_edges_
   follows command_edges_) *)
Definition edge_wanted (g : graph) (e : nat) (p : plan) : plan :=
  let p1 := set_wanted p (S (p_wanted p)) in
  if phony g e then p1 else set_commands p1 (S (p_commands p1)).

Definition add_new (l acc : list nat) : list nat :=
  fold_left (fun a c => if memb c a then a else a ++ [c]) l acc.

(* Plan::UnmarkDependents from the dyndep nodes: the out-edges that are in want_, and transitively
   the out-edges in want_ of their outputs (every edge in want_ has been visited by the scan) *)
Definition dep_step (g : graph) (p : plan) (ds : list nat) : list nat :=
  add_new (filter (in_want p) (flat_map (cons_at g p) ds)) ds.
Definition dependents (g : graph) (p : plan) (e : nat) : list nat :=
  Nat.iter (n_edges g) (dep_step g p) (add_new (filter (in_want p) (ddouts g e)) []).

(* RefreshDyndepDependents: a dependent found dirty: kWantNothing -> kWantToStart, EdgeWanted *)
Definition op_dirty (g : graph) (deps : list nat) (x : nat) (p : plan) : option plan :=
  match p_want p x with
  | Some WNothing =>
    if (x <? n_edges g) && memb x deps && negb (p_oready p x)
    then Some (edge_wanted g x (set_want p (upd (p_want p) x (Some WToStart))))
    else None
  | _ => None
  end.

(* RecomputeDirty reaches an edge the scan had never visited and finds it up to date *)
Definition op_ready (g : graph) (x : nat) (p : plan) : option plan :=
  match p_want p x with
  | None =>
    if (x <? n_edges g) && negb (p_oready p x) && all_inputs_ready g p x
    then Some (set_oready p (upd (p_oready p) x true))
    else None
  | _ => None
  end.

(* RecomputeDirty is a depth-first walk: a never-visited edge is judged after its inputs, which may be
   re-scanned dependents (or other never-visited edges) that become ready in the same walk.  So the
   edges of [ld_ready] take part in the rounds of the re-scan: each is marked as soon as its inputs
   are ready; the load checks beforehand that they are fresh ([ready_pre]) and afterwards that every
   one of them was marked. *)
Definition op_ready_try (g : graph) (x : nat) (p : plan) : plan :=
  match op_ready g x p with Some p' => p' | None => p end.
Definition ready_pre (g : graph) (p : plan) (x : nat) : bool :=
  match p_want p x with
  | None => (x <? n_edges g) && negb (p_oready p x)
  | _ => false
  end.

(* RecomputeDirty on a dependent that is in want_ only for its dependents and is (still) clean: its
   outputs are ready as soon as all its inputs are.  Edges the plan wants stay dirty (with the fix
   "keep an edge dirty when it is re-scanned after a dyndep load"). *)
Definition op_rescan (g : graph) (x : nat) (p : plan) : plan :=
  match p_want p x with
  | Some WNothing =>
    if (x <? n_edges g) && negb (p_oready p x) && all_inputs_ready g p x
    then set_oready p (upd (p_oready p) x true) else p
  | _ => p
  end.

Definition rescan_round (g : graph) (deps rd : list nat) (p : plan) : plan :=
  fold_left (fun a x => op_rescan g x a) deps (fold_left (fun a x => op_ready_try g x a) rd p).

(* AddSubTarget inserts an edge that is not in want_ and whose outputs are not ready *)
Definition op_add (g : graph) (xw : nat * bool) (p : plan) : option plan :=
  let x := fst xw in
  match p_want p x with
  | None =>
    if (x <? n_edges g) && negb (p_oready p x)
    then Some (if snd xw then edge_wanted g x (set_want p (upd (p_want p) x (Some WToStart)))
               else set_want p (upd (p_want p) x (Some WNothing)))
    else None
  | _ => None
  end.

Fixpoint fold_opt {A : Type} (f : A -> plan -> option plan) (l : list A) (p : plan) : option plan :=
  match l with
  | [] => Some p
  | x :: t => match f x p with Some p' => fold_opt f t p' | None => None end
  end.

(* the checks on the state after the bookkeeping ([p0] = the state before the load) *)
Definition chk_closed (g : graph) (p : plan) : bool :=
  forallb (fun x => negb (in_want p x)
                    || forallb (fun i => p_oready p i || in_want p i) (ins_at g p x)) (all_edges g).
Definition chk_sched (g : graph) (p : plan) : bool :=
  forallb (fun x => match p_want p x with
                    | Some WToFinish => all_inputs_ready g p x
                    | _ => true
                    end) (all_edges g).
Definition chk_oclosed (g : graph) (p : plan) : bool :=
  forallb (fun x => negb (p_oready p x) || all_inputs_ready g p x) (all_edges g).
(* an edge that is wanted/in want_, not scheduled, and has all inputs ready after the load must be on
   its way to EdgeMaybeReady: in dyndep_walk, or already so before the load (then NodeFinished of an
   enclosing EdgeFinished visits it), or behind a clean dependent that is about to be checked off *)
Definition chk_walk (g : graph) (p0 p : plan) (walk : list nat) : bool :=
  forallb (fun x => match p_want p x with
                    | Some WToStart | Some WNothing =>
                      negb (all_inputs_ready g p x) || memb x walk
                      || (all_inputs_ready g p0 x && in_want p0 x)
                      || existsb (fun i => p_oready p i
                                           && match p_want p i with Some WNothing => true | _ => false end)
                                 (ins_at g p x)
                    | _ => true
                    end) (all_edges g).

(* consistency of the bookkeeping with the state [p0] before the load: how want_ and outputs_ready_
   may have changed, the counters *)
Definition is_nothing (w : option want_t) : bool := match w with Some WNothing => true | _ => false end.
Definition chk_evol (g : graph) (L : load) (p0 p : plan) : bool :=
  forallb (fun x =>
    (match p_want p0 x, p_want p x with
     | None, None => true
     | Some a, Some b => want_eqb a b || (want_eqb a WNothing && want_eqb b WToStart)
     | None, Some b => negb (want_eqb b WToFinish) && negb (p_oready p x)
                       && (want_eqb b WToStart || existsb (fun a => Nat.eqb (fst a) x && negb (snd a)) (ld_added L))
     | Some _, None => false
     end)
    && (negb (p_oready p x) || is_nothing (p_want p x) || negb (in_want p x))
    && (negb (p_oready p x) || p_oready p0 x || is_nothing (p_want p0 x) || memb x (ld_ready L)))
    (all_edges g)
  && Nat.eqb (p_wanted p) (count_if (is_wanted (p_want p)) (all_edges g))
  && Nat.eqb (p_commands p + npwf g (p_want p0)) (p_commands p0 + npwf g (p_want p))
  && (p_commands p0 <=? p_commands p).

(* the edges whose dyndep information EdgeFinished(e) loads *)
Definition bound (g : graph) (p : plan) (e : nat) : list nat :=
  filter (fun b => (match ddprod g b with Some e' => Nat.eqb e' e | None => false end)
                   && negb (p_loaded p b)) (all_edges g).

(* Builder::LoadDyndeps + Plan::DyndepsLoaded up to the EdgeMaybeReady loop; returns the new plan and
   the edges that loop visits *)
Definition apply_load_gen (strict : bool) (g : graph) (loads : nat -> option load) (e : nat) (p : plan)
  : res (plan * list nat) :=
  match bound g p e with
  | [] => Ok (p, [])                      (* no output of e is a pending dyndep file *)
  | bs =>
    match loads e with
    | None => Forbidden                   (* the trace must say what the re-scan decided *)
    | Some L =>
      let p1 := set_loaded p (fun b => memb b bs || p_loaded p b) in
      let deps := dependents g p1 e in
      match fold_opt (op_dirty g deps) (ld_dirty L) p1 with
      | None => Forbidden
      | Some p2 =>
        if forallb (ready_pre g p2) (ld_ready L) then
          let p4 := Nat.iter (n_edges g) (rescan_round g deps (ld_ready L)) p2 in
          if forallb (p_oready p4) (ld_ready L) then
            match fold_opt (op_add g) (ld_added L) p4 with
            | None => Forbidden
            | Some p5 =>
              if chk_evol g L p p5 && chk_closed g p5 && chk_sched g p5 && chk_oclosed g p5
                 && (negb strict || chk_walk g p p5 (ld_walk L))
              then Ok (p5, ld_walk L)
              else Forbidden
            end
          else Forbidden
        else Forbidden
      end
    end
  end.

Definition apply_load (g : graph) (loads : nat -> option load) (e : nat) (p : plan)
  : res (plan * list nat) := apply_load_gen true g loads e p.
(* OLD behaviour, before "fix: schedule validation targets discovered by a mid-build dyndep load": the
   validation targets the re-scan met were inserted by AddTarget and were NOT on dyndep_walk; nothing
   guaranteed that every edge that became ready was visited ([chk_walk] not enforced).  Kept for the
   refutation [C06_never_stuck_old_refuted]. *)
Definition apply_load_old := apply_load_gen false.

(* Plan::EdgeFinished, with NodeFinished and EdgeMaybeReady inlined as the fold.
   [success] = (result == kEdgeSucceeded); [holds_slot] = the edge went through FindWork.
   Between `outputs_ready_ = true` and the NodeFinished calls, Builder::LoadDyndeps loads the pending
   dyndep files among the outputs ([apply_load]); DyndepsLoaded's EdgeMaybeReady loop over dyndep_walk
   and NodeFinished's loop over the out-edges are the same operation, so they are one fold. *)
Fixpoint edge_finished (fuel : nat) (g : graph) (cfg : config) (prio : list nat)
         (loads : nat -> option load)
         (e : nat) (success holds_slot : bool) (p : plan) : res plan :=
  match fuel with
  | O => OutOfFuel
  | S fuel' =>
    match p_want p e with
    | None => Forbidden                           (* assert(e != want_.end()) *)
    | Some w =>
      let dw := negb (want_eqb w WNothing) in     (* directly_wanted *)
      let q := pool g e in
      let released :=                             (* if (directly_wanted) pool->EdgeFinished(edge) *)
        if dw && negb (Nat.eqb (depth g q) 0)
        then (match p_use p q with O => None | S u => Some (set_use p (upd (p_use p) q u)) end)
        else Some p in
      match released with
      | None => Forbidden
      | Some p1 =>
        let p2 := retrieve g prio q p1 in         (* pool->RetrieveReadyEdges(&ready_) *)
        match release_token cfg holds_slot p2 with
        | None => Forbidden
        | Some p3 =>
          if negb success then Ok p3
          else
            let wanted' := if dw then (match p_wanted p3 with O => None | S n => Some n end)
                           else Some (p_wanted p3) in
            match wanted' with
            | None => Forbidden
            | Some n =>
              let p4 := set_oready (set_want (set_wanted p3 n) (upd (p_want p3) e None))
                                   (upd (p_oready p3) e true) in
              match apply_load g loads e p4 with
              | Ok (p5, walk) =>
                (* NodeFinished for every output; EdgeMaybeReady for every wanted out-edge *)
                fold_res
                  (fun d pp =>
                     match p_want pp d with
                     | None => Ok pp
                     | Some wd =>
                       if all_inputs_ready g pp d then
                         if want_eqb wd WNothing
                         then edge_finished fuel' g cfg prio loads d true false pp
                         else schedule_work g prio d pp
                       else Ok pp
                     end)
                  (walk ++ cons_at g p5 e) p5
              | Forbidden => Forbidden
              | OutOfFuel => OutOfFuel
              end
            end
        end
      end
    end
  end.

(* the same with the old load ([apply_load_old]) *)
Fixpoint edge_finished_old (fuel : nat) (g : graph) (cfg : config) (prio : list nat)
         (loads : nat -> option load)
         (e : nat) (success holds_slot : bool) (p : plan) : res plan :=
  match fuel with
  | O => OutOfFuel
  | S fuel' =>
    match p_want p e with
    | None => Forbidden                           (* assert(e != want_.end()) *)
    | Some w =>
      let dw := negb (want_eqb w WNothing) in     (* directly_wanted *)
      let q := pool g e in
      let released :=                             (* if (directly_wanted) pool->EdgeFinished(edge) *)
        if dw && negb (Nat.eqb (depth g q) 0)
        then (match p_use p q with O => None | S u => Some (set_use p (upd (p_use p) q u)) end)
        else Some p in
      match released with
      | None => Forbidden
      | Some p1 =>
        let p2 := retrieve g prio q p1 in         (* pool->RetrieveReadyEdges(&ready_) *)
        match release_token cfg holds_slot p2 with
        | None => Forbidden
        | Some p3 =>
          if negb success then Ok p3
          else
            let wanted' := if dw then (match p_wanted p3 with O => None | S n => Some n end)
                           else Some (p_wanted p3) in
            match wanted' with
            | None => Forbidden
            | Some n =>
              let p4 := set_oready (set_want (set_wanted p3 n) (upd (p_want p3) e None))
                                   (upd (p_oready p3) e true) in
              match apply_load_old g loads e p4 with
              | Ok (p5, walk) =>
                (* NodeFinished for every output; EdgeMaybeReady for every wanted out-edge *)
                fold_res
                  (fun d pp =>
                     match p_want pp d with
                     | None => Ok pp
                     | Some wd =>
                       if all_inputs_ready g pp d then
                         if want_eqb wd WNothing
                         then edge_finished_old fuel' g cfg prio loads d true false pp
                         else schedule_work g prio d pp
                       else Ok pp
                     end)
                  (walk ++ cons_at g p5 e) p5
              | Forbidden => Forbidden
              | OutOfFuel => OutOfFuel
              end
            end
        end
      end
    end
  end.

Definition plan_fuel (g : graph) : nat := S (n_edges g).

(* Plan::ScheduleInitialEdges (with the fix "mark initially pool-delayed edges as scheduled": the
   pool branch sets kWantToFinish before DelayEdge, as ScheduleWork does).  The want_ map is iterated
   in pointer order in the code; the result does not depend on the order because pool edges are
   only collected and retrieved at the end. *)
Definition sched_init_edge (g : graph) (e : nat) (p : plan) : plan :=
  match p_want p e with
  | Some WToStart =>
    if all_inputs_ready g p e then
      if Nat.eqb (depth g (pool g e)) 0
      then set_ready (set_want p (upd (p_want p) e (Some WToFinish))) (e :: p_ready p)
      else set_delayed (set_want p (upd (p_want p) e (Some WToFinish))) (e :: p_delayed p)
    else p
  | _ => p
  end.

Definition schedule_initial_plan (g : graph) (prio : list nat) (p : plan) : plan :=
  let p1 := fold_left (fun pp e => sched_init_edge g e pp) (all_edges g) p in
  fold_left (fun pp q => retrieve g prio q pp) (seq 0 (length (g_depths g))) p1.

(* OLD behaviour, before the fix: DelayEdge only, want_ stays kWantToStart while the edge sits in
   delayed_/ready_ (kept for the refutation [C06_once_old_refuted]: a dyndep load re-schedules it) *)
Definition sched_init_edge_old (g : graph) (e : nat) (p : plan) : plan :=
  match p_want p e with
  | Some WToStart =>
    if all_inputs_ready g p e then
      if Nat.eqb (depth g (pool g e)) 0
      then set_ready (set_want p (upd (p_want p) e (Some WToFinish))) (e :: p_ready p)
      else set_delayed p (e :: p_delayed p)
    else p
  | _ => p
  end.

Definition schedule_initial_plan_old (g : graph) (prio : list nat) (p : plan) : plan :=
  let p1 := fold_left (fun pp e => sched_init_edge_old g e pp) (all_edges g) p in
  fold_left (fun pp q => retrieve g prio q pp) (seq 0 (length (g_depths g))) p1.

(* ------------------------------------------------------------------ the builder loop *)
Inductive phase := PhBuild | PhInterrupted | PhExited.

Record state := mkState {
  s_plan : plan;
  s_running : list nat;   (* the command runner's active edges *)
  s_pending : nat;        (* pending_commands *)
  s_fa : nat;             (* failures_allowed (the local of Build()) *)
  s_exit : nat;           (* Builder::exit_code_ *)
  s_total : nat;          (* Status: total_edges_ *)
  s_started : nat;        (* Status: started_edges_ *)
  s_finished : nat;       (* Status: finished_edges_ *)
  s_failed : list nat;    (* GHOST: edges whose command failed in this build *)
  s_waiting : bool;       (* between WaitForCommand's call and the handling of its result *)
  s_phase : phase }.

Definition set_plan (s : state) (p : plan) : state :=
  mkState p (s_running s) (s_pending s) (s_fa s) (s_exit s) (s_total s) (s_started s)
          (s_finished s) (s_failed s) (s_waiting s) (s_phase s).

Inductive exit_msg :=
| MSuccess              (* loop left normally: ExitSuccess, empty message *)
| MSubcommandFailed     (* "subcommand(s) failed" *)
| MCannotProgress       (* "cannot make progress due to previous errors" *)
| MStuck                (* "stuck [this is a bug]" *)
| MInterrupted.         (* "interrupted by user" *)

Definition exit_msg_eqb (a b : exit_msg) : bool :=
  match a, b with
  | MSuccess, MSuccess | MSubcommandFailed, MSubcommandFailed | MCannotProgress, MCannotProgress
  | MStuck, MStuck | MInterrupted, MInterrupted => true
  | _, _ => false
  end.

Inductive event :=
| EvStart (e : nat) (prio : list nat)             (* FindWork popped e; StartEdge *)
| EvWait                                          (* WaitForCommand called *)
| EvPrune (e : nat)                               (* CleanNode: e no longer wanted *)
| EvFinish (e : nat) (code : nat) (prio : list nat)   (* a command completed; FinishCommand *)
| EvInterrupt                                     (* WaitForCommand: interrupted / status 130 *)
| EvExit (code : nat) (m : exit_msg).             (* Build() returned *)

Definition exit_interrupted : nat := 130.

(* ScriptedRunner/RealCommandRunner::CanRunMore without load limit: -j minus active commands *)
Definition capacity (cfg : config) (s : state) : nat := c_j cfg - length (s_running s).

(* jobserver_->TryAcquire() succeeds (exclusive token pool: implicit slot + n tokens) *)
Definition token_ok (cfg : config) (p : plan) : bool :=
  match c_jobserver cfg with
  | None => true
  | Some n => p_tokens p <? S n
  end.

(* the inner loop of Build() would start something now *)
Definition can_start (cfg : config) (s : state) : bool :=
  (0 <? s_fa s) && (0 <? capacity cfg s)
  && (match p_ready (s_plan s) with [] => false | _ => true end)
  && token_ok cfg (s_plan s).

Definition in_build (s : state) : bool :=
  match s_phase s with PhBuild => true | _ => false end.

Definition scheduled (s : state) : list nat :=
  p_ready (s_plan s) ++ p_delayed (s_plan s) ++ s_running s ++ s_failed s.

Definition ef_type := nat -> graph -> config -> list nat -> (nat -> option load) -> nat -> bool -> bool -> plan -> res plan.

(* ExitFailure *)
Definition exit_failure : nat := 1.

(* [stuck_fixed]: the tree has "fix: exit with a failure status when the build loop is stuck" (the final
   branch of Build() also does SetFailureCode(ExitFailure)); false = the code before it, where the stuck
   exit returned exit_code_, which is ExitSuccess there *)
Definition step_res_gen (stuck_fixed : bool) (ef : ef_type) (g : graph) (cfg : config) (loads : nat -> option load) (s : state) (ev : event)
  : res state :=
  let p := s_plan s in
  match ev with
  | EvStart e prio =>
    (* while (more_to_do) { if (failures_allowed) { capacity = CanRunMore(); while (capacity > 0)
       { edge = FindWork(); if (!edge) break; StartEdge; if phony EdgeFinished else ++pending } } *)
    if in_build s && negb (s_waiting s) && more_to_do p && (0 <? s_fa s) && (0 <? capacity cfg s)
       && memb e (p_ready p) && token_ok cfg p
    then
      let p1 := set_ready p (rem e (p_ready p)) in
      let p2 := match c_jobserver cfg with None => p1 | Some _ => set_tokens p1 (S (p_tokens p1)) end in
      if phony g e then
        match ef (plan_fuel g) g cfg prio loads e true true p2 with
        | Ok p3 =>
          (* EdgeAddedToPlan calls made by a dyndep load inside EdgeFinished *)
          Ok (mkState p3 (s_running s) (s_pending s) (s_fa s) (s_exit s)
                      (s_total s + (p_commands p3 - p_commands p2)) (s_started s) (s_finished s)
                      (s_failed s) (s_waiting s) (s_phase s))
        | Forbidden => Forbidden
        | OutOfFuel => OutOfFuel
        end
      else
        Ok (mkState p2 (e :: s_running s) (S (s_pending s)) (s_fa s) (s_exit s) (s_total s)
                    (S (s_started s)) (s_finished s) (s_failed s) false (s_phase s))
    else Forbidden
  | EvWait =>
    (* reached only when the start loop ended: budget 0, capacity 0 or FindWork returned NULL *)
    if in_build s && negb (s_waiting s) && more_to_do p && (0 <? s_pending s)
       && negb (can_start cfg s)
    then Ok (mkState p (s_running s) (s_pending s) (s_fa s) (s_exit s) (s_total s) (s_started s)
                     (s_finished s) (s_failed s) true (s_phase s))
    else Forbidden
  | EvPrune e =>
    (* Plan::CleanNode reaches a wanted out-edge of a node whose producer is not yet outputs_ready
       (the finishing restat edge, or an edge it has just pruned); the code tests want != Nothing:
       with an input not ready the edge cannot be kWantToFinish ([pi_sched_f] in PlanProofs.v) *)
    if in_build s && s_waiting s
       && (match p_want p e with Some WToStart => true | _ => false end)
       && negb (all_inputs_ready g p e)
    then
      match p_wanted p with
      | O => Forbidden
      | S w =>
        let p1 := set_wanted (set_want p (upd (p_want p) e (Some WNothing))) w in
        if phony g e then Ok (set_plan s p1)
        else match p_commands p1, s_total s with
             | S c, S t =>
               Ok (mkState (set_commands p1 c) (s_running s) (s_pending s) (s_fa s) (s_exit s) t
                           (s_started s) (s_finished s) (s_failed s) (s_waiting s) (s_phase s))
             | _, _ => Forbidden
             end
      end
    else Forbidden
  | EvFinish e code prio =>
    if in_build s && s_waiting s && memb e (s_running s) && negb (Nat.eqb code exit_interrupted)
    then
      match s_pending s with
      | O => Forbidden
      | S pend =>
        let run' := rem e (s_running s) in
        let fin' := S (s_finished s) in              (* status_->BuildEdgeFinished *)
        if Nat.eqb code 0 then
          match ef (plan_fuel g) g cfg prio loads e true true p with
          | Ok p' => Ok (mkState p' run' pend (s_fa s) (s_exit s)
                                 (s_total s + (p_commands p' - p_commands p)) (s_started s) fin'
                                 (s_failed s) false (s_phase s))
          | Forbidden => Forbidden
          | OutOfFuel => OutOfFuel
          end
        else
          match ef (plan_fuel g) g cfg prio loads e false true p with
          | Ok p' =>
            (* SetFailureCode(code); if (failures_allowed) failures_allowed-- *)
            Ok (mkState p' run' pend (pred (s_fa s)) code (s_total s) (s_started s) fin'
                        (e :: s_failed s) false (s_phase s))
          | Forbidden => Forbidden
          | OutOfFuel => OutOfFuel
          end
      end
    else Forbidden
  | EvInterrupt =>
    (* Cleanup(): the command runner's abort method kills and forgets the active commands (and, in the real
       runner, returns their jobserver slots) *)
    if in_build s && s_waiting s then
      Ok (mkState (set_tokens p (p_tokens p - length (s_running s))) [] (s_pending s) (s_fa s)
                  (s_exit s) (s_total s) (s_started s) (s_finished s) (s_failed s) false PhInterrupted)
    else Forbidden
  | EvExit code m =>
    match s_phase s with
    | PhExited => Forbidden
    | PhInterrupted =>
      if Nat.eqb code exit_interrupted && exit_msg_eqb m MInterrupted
      then Ok (mkState p (s_running s) (s_pending s) (s_fa s) (s_exit s) (s_total s) (s_started s)
                       (s_finished s) (s_failed s) false PhExited)
      else Forbidden
    | PhBuild =>
      if s_waiting s then Forbidden
      else
        let expected : option (nat * exit_msg) :=
          if negb (more_to_do p) then Some (0, MSuccess)
          else if (Nat.eqb (s_pending s) 0) && negb (can_start cfg s) then
            Some (match (if Nat.eqb (s_fa s) 0 then MSubcommandFailed
                         else if s_fa s <? c_k cfg then MCannotProgress
                         else MStuck) with
                  | MStuck => if stuck_fixed then exit_failure else s_exit s
                  | _ => s_exit s
                  end,
                  if Nat.eqb (s_fa s) 0 then MSubcommandFailed
                  else if s_fa s <? c_k cfg then MCannotProgress
                  else MStuck)
          else None in
        match expected with
        | Some (c, m') =>
          if Nat.eqb c code && exit_msg_eqb m m'
          then Ok (mkState p (s_running s) (s_pending s) (s_fa s) (s_exit s) (s_total s)
                           (s_started s) (s_finished s) (s_failed s) false PhExited)
          else Forbidden
        | None => Forbidden
        end
    end
  end.

Definition step_res : graph -> config -> (nat -> option load) -> state -> event -> res state :=
  step_res_gen true edge_finished.
(* the tree before the fixes c925593 (validation targets on dyndep_walk) and 8da8185 (stuck exit status) *)
Definition step_res_old : graph -> config -> (nat -> option load) -> state -> event -> res state :=
  step_res_gen false edge_finished_old.

Definition step (g : graph) (cfg : config) (loads : nat -> option load) (s : state) (ev : event)
  : option state :=
  match step_res g cfg loads s ev with Ok s' => Some s' | _ => None end.

Fixpoint accepts (g : graph) (cfg : config) (loads : nat -> option load) (s : state) (evs : list event)
  : option state :=
  match evs with
  | [] => Some s
  | ev :: t => match step g cfg loads s ev with
               | Some s' => accepts g cfg loads s' t
               | None => None
               end
  end.

Fixpoint accepts_old (g : graph) (cfg : config) (loads : nat -> option load) (s : state) (evs : list event)
  : option state :=
  match evs with
  | [] => Some s
  | ev :: t => match step_res_old g cfg loads s ev with
               | Ok s' => accepts_old g cfg loads s' t
               | _ => None
               end
  end.

(* ------------------------------------------------------------------ initial state *)
(* The snapshot taken after the dependency scan and all Plan::AddTarget calls, before Build(). *)
Record snapshot := mkSnap {
  sn_want : nat -> option want_t;
  sn_oready : nat -> bool;
  sn_wanted : nat;
  sn_commands : nat }.

Definition snap_plan (sn : snapshot) : plan :=
  mkPlan (sn_want sn) [] [] (fun _ => 0) (sn_wanted sn) (sn_commands sn) (sn_oready sn) 0
         (fun _ => false).

(* Build() up to the loop: PrepareQueue -> ScheduleInitialEdges; locals initialised.
   Status total_edges_ = number of EdgeAddedToPlan calls so far = command_edges_. *)
Definition init_state (g : graph) (cfg : config) (prio : list nat) (sn : snapshot) : state :=
  mkState (schedule_initial_plan g prio (snap_plan sn)) [] 0 (c_k cfg) 0 (sn_commands sn) 0 0 []
          false PhBuild.

(* the same with the OLD ScheduleInitialEdges *)
Definition init_state_old (g : graph) (cfg : config) (prio : list nat) (sn : snapshot) : state :=
  mkState (schedule_initial_plan_old g prio (snap_plan sn)) [] 0 (c_k cfg) 0 (sn_commands sn) 0 0 []
          false PhBuild.

Definition run (g : graph) (cfg : config) (loads : nat -> option load) (prio : list nat)
           (sn : snapshot) (evs : list event) : option state :=
  accepts g cfg loads (init_state g cfg prio sn) evs.

(* ------------------------------------------------------------------ computable well-formedness *)
Definition gated_eqb (a b : gated) : bool :=
  Nat.eqb (fst a) (fst b)
  && match snd a, snd b with
     | None, None => true
     | Some x, Some y => Nat.eqb x y
     | _, _ => false
     end.
Definition memg (x : gated) (l : list gated) : bool := existsb (gated_eqb x) l.

(* inputs and out-edges mirror each other entry by entry, under the same condition; [rank] decreases
   along every (present or future) input: the graph with all dyndep information is acyclic *)
Definition wf_graph_b (g : graph) (rank : nat -> nat) : bool :=
  forallb (fun e =>
    forallb (fun i => (fst i <? n_edges g) && (rank (fst i) <? rank e)
                      && memg (e, snd i) (ei_cons (einfo g (fst i)))) (ei_ins (einfo g e))
    && forallb (fun d => (fst d <? n_edges g) && memg (e, snd d) (ei_ins (einfo g (fst d))))
               (ei_cons (einfo g e)))
    (all_edges g).

Definition wf_snap_b (g : graph) (sn : snapshot) : bool :=
  let ins := ins_at g (snap_plan sn) in
  forallb (fun e =>
    (if sn_oready sn e then forallb (sn_oready sn) (ins e) else true) &&
    match sn_want sn e with
    | None => true
    | Some w =>
      negb (sn_oready sn e)
      && negb (want_eqb w WToFinish)
      && forallb (fun i => sn_oready sn i || (match sn_want sn i with None => false | _ => true end))
                 (ins e)
      && (if want_eqb w WNothing then negb (forallb (sn_oready sn) (ins e)) else true)
    end) (all_edges g)
  && Nat.eqb (sn_wanted sn) (count_if (is_wanted (sn_want sn)) (all_edges g))
  && Nat.eqb (sn_commands sn)
             (count_if (fun e => is_wanted (sn_want sn) e && negb (phony g e)) (all_edges g)).

Definition wf_cfg_b (cfg : config) : bool := (0 <? c_j cfg) && (0 <? c_k cfg).

(* ------------------------------------------------------------------ trace completion helper *)
(* Starts of PHONY edges leave no event in the implementation's trace (StartEdge returns at once and
   the command runner is not involved).  The acceptance tool therefore searches the accepted
   completion: starting from [s], start ready phony edges that belong to [allowed] (the first such
   edge in the order of [allowed], so the caller controls the order), greedily, and return the
   [EvStart] events found.  (Soundness: [auto_phony_accepts] in PlanProofs.v.) *)
Fixpoint auto_phony (fuel : nat) (g : graph) (cfg : config) (loads : nat -> option load)
         (prio allowed : list nat) (s : state) : list event * state :=
  match fuel with
  | O => ([], s)
  | S fuel' =>
    match filter (fun e => phony g e && memb e (p_ready (s_plan s))) allowed with
    | [] => ([], s)
    | e :: _ =>
      match step g cfg loads s (EvStart e prio) with
      | None => ([], s)
      | Some s' => let '(evs, s'') := auto_phony fuel' g cfg loads prio allowed s' in
                   (EvStart e prio :: evs, s'')
      end
    end
  end.

(* ------------------------------------------------------------------ observation for the driver *)
Definition want_list (g : graph) (p : plan) : list (nat * option want_t) :=
  map (fun e => (e, p_want p e)) (all_edges g).
Definition use_list (g : graph) (p : plan) : list (nat * nat) :=
  map (fun q => (q, p_use p q)) (seq 0 (length (g_depths g))).

(* ------------------------------------------------------------------ a concrete example *)
(* Four edges: commands 0 and 1 (no producer inputs) share pool 1 of depth 1; command 2 consumes
   both; phony edge 3 consumes 2.  -j2 -k1.  Everything is dirty and wanted. *)
Definition is_some {A : Type} (o : option A) : bool := match o with Some _ => true | None => false end.

Definition ex_graph : graph :=
  mkGraph [ mkEdge [] (plain [2]) 1 false None []; mkEdge [] (plain [2]) 1 false None [];
            mkEdge (plain [0; 1]) (plain [3]) 0 false None []; mkEdge (plain [2]) [] 0 true None [] ] [0; 1].
Definition no_loads : nat -> option load := fun _ => None.
Definition ex_rank : nat -> nat := fun e => e.
Definition ex_cfg : config := mkConfig 2 1 None.
Definition ex_cfg_js : config := mkConfig 2 1 (Some 1).
Definition ex_snap : snapshot :=
  mkSnap (fun e => if e <? 4 then Some WToStart else None) (fun _ => false) 4 3.
Definition ex_prio : list nat := [0; 1; 2; 3].

(* the successful build; edge 1 waits in the pool's delayed set until 0 has finished *)
Definition ex_trace_ok : list event :=
  [ EvStart 0 ex_prio; EvWait; EvFinish 0 0 ex_prio; EvStart 1 ex_prio; EvWait; EvFinish 1 0 ex_prio;
    EvStart 2 ex_prio; EvWait; EvFinish 2 0 ex_prio; EvStart 3 ex_prio; EvExit 0 MSuccess ].
(* command 0 fails with status 7: nothing else is started, exit status 7 *)
Definition ex_trace_fail : list event :=
  [ EvStart 0 ex_prio; EvWait; EvFinish 0 7 ex_prio; EvExit 7 MSubcommandFailed ].
(* restat: while 0 completes, 2 and 3 are pruned; they are checked off when 1 has finished *)
Definition ex_trace_prune : list event :=
  [ EvStart 0 ex_prio; EvWait; EvPrune 2; EvPrune 3; EvFinish 0 0 ex_prio; EvStart 1 ex_prio; EvWait;
    EvFinish 1 0 ex_prio; EvExit 0 MSuccess ].
Definition ex_trace_interrupt : list event :=
  [ EvStart 0 ex_prio; EvWait; EvInterrupt; EvExit 130 MInterrupted ].

Example ex_wf : wf_graph_b ex_graph ex_rank && wf_snap_b ex_graph ex_snap && wf_cfg_b ex_cfg = true.
Proof. vm_compute. reflexivity. Qed.
Example ex_ok : is_some (run ex_graph ex_cfg no_loads ex_prio ex_snap ex_trace_ok) = true.
Proof. vm_compute. reflexivity. Qed.
Example ex_ok_js : is_some (run ex_graph ex_cfg_js no_loads ex_prio ex_snap ex_trace_ok) = true.
Proof. vm_compute. reflexivity. Qed.
Example ex_fail : is_some (run ex_graph ex_cfg no_loads ex_prio ex_snap ex_trace_fail) = true.
Proof. vm_compute. reflexivity. Qed.
Example ex_prune : is_some (run ex_graph ex_cfg no_loads ex_prio ex_snap ex_trace_prune) = true.
Proof. vm_compute. reflexivity. Qed.
Example ex_interrupt : is_some (run ex_graph ex_cfg no_loads ex_prio ex_snap ex_trace_interrupt) = true.
Proof. vm_compute. reflexivity. Qed.
(* rejected: starting 1 while 0 holds the pool; starting 2 before its producers finished; exiting
   with success while work remains; starting anything after the failure *)
Example ex_reject_pool :
  is_some (run ex_graph ex_cfg no_loads ex_prio ex_snap [EvStart 0 ex_prio; EvStart 1 ex_prio]) = false.
Proof. vm_compute. reflexivity. Qed.
Example ex_reject_early :
  is_some (run ex_graph ex_cfg no_loads ex_prio ex_snap [EvStart 0 ex_prio; EvWait; EvFinish 0 0 ex_prio; EvStart 2 ex_prio]) = false.
Proof. vm_compute. reflexivity. Qed.
Example ex_reject_exit :
  is_some (run ex_graph ex_cfg no_loads ex_prio ex_snap [EvStart 0 ex_prio; EvWait; EvFinish 0 0 ex_prio; EvExit 0 MSuccess]) = false.
Proof. vm_compute. reflexivity. Qed.
Example ex_reject_after_failure :
  is_some (run ex_graph ex_cfg no_loads ex_prio ex_snap [EvStart 0 ex_prio; EvWait; EvFinish 0 7 ex_prio; EvStart 1 ex_prio]) = false.
Proof. vm_compute. reflexivity. Qed.

(* ------------------------------------------------------------------ an example with a dyndep load *)
(* Command 0 produces a dyndep file; command 2 is bound to it (ddprod = 0) and has it as an input; the
   file says that 2 also needs an output of command 1 (pool 1, depth 2): the gated entries.  Command 3
   consumes 1 as well.  -j3. *)
Definition dd_graph : graph :=
  mkGraph [ mkEdge [] (plain [2]) 0 false None [2];
            mkEdge [] [(2, Some 2); (3, None)] 1 false None [];
            mkEdge [(0, None); (1, Some 2)] [] 0 false (Some 0) [];
            mkEdge (plain [1]) [] 0 false None [] ] [0; 2].
Definition dd_cfg : config := mkConfig 3 1 None.
Definition dd_snap : snapshot :=
  mkSnap (fun e => if e <? 4 then Some WToStart else None) (fun _ => false) 4 4.
(* what the trace says about the load made when 0 finishes: nothing newly dirty, nothing added,
   dyndep_walk = {1, 2} *)
Definition dd_loads : nat -> option load :=
  fun e => if Nat.eqb e 0 then Some (mkLoad [] [] [] [1; 2]) else None.
Definition dd_trace : list event :=
  [ EvStart 1 []; EvStart 0 []; EvWait; EvFinish 0 0 []; EvWait; EvFinish 1 0 []; EvStart 2 []; EvStart 3 [];
    EvWait; EvFinish 2 0 []; EvWait; EvFinish 3 0 []; EvExit 0 MSuccess ].

Example dd_wf : wf_graph_b dd_graph (fun e => e) && wf_snap_b dd_graph dd_snap && wf_cfg_b dd_cfg = true.
Proof. vm_compute. reflexivity. Qed.
Example dd_ok : is_some (run dd_graph dd_cfg dd_loads [] dd_snap dd_trace) = true.
Proof. vm_compute. reflexivity. Qed.
(* after the load 2 waits for 1: starting it right after 0 has finished is rejected, although without
   the dyndep information all its inputs would be ready *)
Example dd_reject_early :
  is_some (run dd_graph dd_cfg dd_loads [] dd_snap [EvStart 1 []; EvStart 0 []; EvWait; EvFinish 0 0 []; EvStart 2 []]) = false.
Proof. vm_compute. reflexivity. Qed.
(* the trace must say what the re-scan decided *)
Example dd_reject_no_payload :
  is_some (run dd_graph dd_cfg no_loads [] dd_snap [EvStart 1 []; EvStart 0 []; EvWait; EvFinish 0 0 []]) = false.
Proof. vm_compute. reflexivity. Qed.

(* only 0 and 2 are in the plan at first; the load discovers the input produced by 1: AddSubTarget puts
   1 into want_ (dirty: kWantToStart, EdgeWanted), and the walk schedules it *)
Definition dd_snap2 : snapshot :=
  mkSnap (fun e => if Nat.eqb e 0 || Nat.eqb e 2 then Some WToStart else None) (fun _ => false) 2 2.
Definition dd_loads2 : nat -> option load :=
  fun e => if Nat.eqb e 0 then Some (mkLoad [] [] [(1, true)] [1; 2]) else None.
Example dd_ok2 :
  is_some (run dd_graph dd_cfg dd_loads2 [] dd_snap2
             [ EvStart 0 []; EvWait; EvFinish 0 0 []; EvStart 1 []; EvWait; EvFinish 1 0 []; EvStart 2 [];
               EvWait; EvFinish 2 0 []; EvExit 0 MSuccess ]) = true.
Proof. vm_compute. reflexivity. Qed.
(* a payload that forgets the new want_ entry is refused: want_ would not be closed under producers *)
Example dd_reject_unclosed :
  is_some (run dd_graph dd_cfg dd_loads [] dd_snap2 [EvStart 0 []; EvWait; EvFinish 0 0 []]) = false.
Proof. vm_compute. reflexivity. Qed.

(* THE OLD BUG.  With the old ScheduleInitialEdges, command 1 (in a pool) sits in ready_ with want_ still
   kWantToStart; it is started; then 0 finishes, the load walks over 1 (AddSubTarget: want != kWantToFinish),
   EdgeMaybeReady schedules it AGAIN, and it is started a second time while it is still running. *)
Definition run_old (g : graph) (cfg : config) (loads : nat -> option load) (prio : list nat)
           (sn : snapshot) (evs : list event) : option state :=
  accepts g cfg loads (init_state_old g cfg prio sn) evs.
Definition dd_trace_twice : list event :=
  [ EvStart 1 []; EvStart 0 []; EvWait; EvFinish 0 0 []; EvStart 1 [] ].
Example dd_old_started_twice : is_some (run_old dd_graph dd_cfg dd_loads [] dd_snap dd_trace_twice) = true.
Proof. vm_compute. reflexivity. Qed.
Example dd_new_not_twice : is_some (run dd_graph dd_cfg dd_loads [] dd_snap dd_trace_twice) = false.
Proof. vm_compute. reflexivity. Qed.

(* The re-scan is a depth-first walk.  0 produces the dyndep file of 1 and 3; 1 is clean and in want_ only
   for 3 (kWantNothing); the file says that 3 also needs the output of 2, which consumes 1, is up to date
   and was never visited by the scan (not in want_).  When 0 finishes, the re-scan of 3 descends into 2
   and from there into 1: 1 becomes ready, then 2 ([ld_ready]), then 3 has all inputs ready. *)
Definition rd_graph : graph :=
  mkGraph [ mkEdge [] (plain [1; 3]) 0 false None [1; 3];
            mkEdge (plain [0]) (plain [2; 3]) 0 false (Some 0) [];
            mkEdge (plain [1]) [(3, Some 3)] 0 false None [];
            mkEdge [(0, None); (1, None); (2, Some 3)] [] 0 false (Some 0) [] ] [].
Definition rd_cfg : config := mkConfig 1 1 None.
Definition rd_snap : snapshot :=
  mkSnap (fun e => if Nat.eqb e 0 || Nat.eqb e 3 then Some WToStart
                   else if Nat.eqb e 1 then Some WNothing else None)
         (fun _ => false) 2 2.
Definition rd_loads : nat -> option load :=
  fun e => if Nat.eqb e 0 then Some (mkLoad [] [2] [] [1; 3]) else None.
Definition rd_trace : list event :=
  [ EvStart 0 []; EvWait; EvFinish 0 0 []; EvStart 3 []; EvWait; EvFinish 3 0 []; EvExit 0 MSuccess ].
Example rd_wf : wf_graph_b rd_graph (fun e => e) && wf_snap_b rd_graph rd_snap && wf_cfg_b rd_cfg = true.
Proof. vm_compute. reflexivity. Qed.
Example rd_ok : is_some (run rd_graph rd_cfg rd_loads [] rd_snap rd_trace) = true.
Proof. vm_compute. reflexivity. Qed.
(* a payload that does not name 2 is refused: 3 would wait for 2, which is neither ready nor in want_ *)
Example rd_reject_unmarked :
  is_some (run rd_graph rd_cfg (fun e => if Nat.eqb e 0 then Some (mkLoad [] [] [] [1; 3]) else None) []
             rd_snap [EvStart 0 []; EvWait; EvFinish 0 0 []]) = false.
Proof. vm_compute. reflexivity. Qed.

(* The stuck exit.  Not reachable from a well-formed graph ([never_stuck]); the real tree reaches it when
   a dependency cycle escapes the scan (C17 finding: a cycle closed by a dyndep-discovered implicit output
   of a node that was scanned as a plain source; replay findings/C17/dyndep-output-cycle-not-named.scn):
   0 = x consumes an output of 1 = out, out consumes x, 2 = phony all.  Nothing is ready, nothing runs,
   nothing failed: "stuck [this is a bug]", and since the fix the exit status is ExitFailure. *)
Definition cy_graph : graph :=
  mkGraph [ mkEdge (plain [1]) (plain [1; 2]) 0 false None [];
            mkEdge (plain [0]) (plain [0; 2]) 0 false None [];
            mkEdge (plain [0; 1]) [] 0 true None [] ] [].
Definition cy_cfg : config := mkConfig 1 1 None.
Definition cy_snap : snapshot := mkSnap (fun e => if e <? 3 then Some WToStart else None) (fun _ => false) 3 2.
Example cy_not_wf : wf_graph_b cy_graph (fun e => e) = false.
Proof. vm_compute. reflexivity. Qed.
Example cy_stuck_status_failure :
  is_some (run cy_graph cy_cfg no_loads [] cy_snap [EvExit exit_failure MStuck]) = true.
Proof. vm_compute. reflexivity. Qed.
Example cy_stuck_status_not_success :
  is_some (run cy_graph cy_cfg no_loads [] cy_snap [EvExit 0 MStuck]) = false.
Proof. vm_compute. reflexivity. Qed.
(* before the fix the status was ExitSuccess *)
Example cy_old_stuck_status_success :
  match step_res_old cy_graph cy_cfg no_loads (init_state cy_graph cy_cfg [] cy_snap) (EvExit 0 MStuck) with
  | Ok _ => true | _ => false end = true.
Proof. vm_compute. reflexivity. Qed.

(* THE OLD BUG 2 (before "fix: schedule validation targets discovered by a mid-build dyndep load").
   0 = v, a command without producer inputs, validation target of 1 = o1; 2 produces the dyndep file of
   3 = o5, which says that o5 needs o1.  Only 2 and 3 are planned.  The load inserts 1 (AddSubTarget, on the
   walk) and 0 (old: AddTarget, NOT on the walk): 0 is ready but nobody schedules it; when 1 and 3 are done
   the loop has nothing to start and nothing to wait for: "stuck [this is a bug]", exit status 0. *)
Definition vs_graph : graph :=
  mkGraph [ mkEdge [] [] 0 false None [];
            mkEdge [] [(3, Some 3)] 0 false None [];
            mkEdge [] (plain [3]) 0 false None [3];
            mkEdge [(2, None); (1, Some 3)] [] 0 false (Some 2) [] ] [].
Definition vs_cfg : config := mkConfig 1 1 None.
Definition vs_snap : snapshot :=
  mkSnap (fun e => if Nat.eqb e 2 || Nat.eqb e 3 then Some WToStart else None) (fun _ => false) 2 2.
Definition vs_loads_old : nat -> option load :=
  fun e => if Nat.eqb e 2 then Some (mkLoad [] [] [(1, true); (0, true)] [1; 3]) else None.
Definition vs_loads_new : nat -> option load :=
  fun e => if Nat.eqb e 2 then Some (mkLoad [] [] [(1, true); (0, true)] [0; 1; 3]) else None.
Definition vs_trace_old : list event :=
  [ EvStart 2 []; EvWait; EvFinish 2 0 []; EvStart 1 []; EvWait; EvFinish 1 0 []; EvStart 3 []; EvWait;
    EvFinish 3 0 [] ].

Example vs_wf : wf_graph_b vs_graph (fun e => e) && wf_snap_b vs_graph vs_snap && wf_cfg_b vs_cfg = true.
Proof. vm_compute. reflexivity. Qed.
(* old code: the trace is accepted and ends in a state from which the stuck exit (status 0) is accepted *)
Example vs_old_stuck :
  match accepts_old vs_graph vs_cfg vs_loads_old (init_state vs_graph vs_cfg [] vs_snap) vs_trace_old with
  | Some s => match step_res_old vs_graph vs_cfg vs_loads_old s (EvExit 0 MStuck) with Ok _ => true | _ => false end
  | None => false
  end = true.
Proof. vm_compute. reflexivity. Qed.
(* fixed code: that walk is refused (an edge that became ready is not visited) ... *)
Example vs_new_rejects_old_walk :
  is_some (run vs_graph vs_cfg vs_loads_old [] vs_snap [EvStart 2 []; EvWait; EvFinish 2 0 []]) = false.
Proof. vm_compute. reflexivity. Qed.
(* ... and with the validation target on the walk it is built and the build succeeds *)
Example vs_new_ok :
  is_some (run vs_graph vs_cfg vs_loads_new [] vs_snap
             [ EvStart 2 []; EvWait; EvFinish 2 0 []; EvStart 0 []; EvWait; EvFinish 0 0 []; EvStart 1 []; EvWait;
               EvFinish 1 0 []; EvStart 3 []; EvWait; EvFinish 3 0 []; EvExit 0 MSuccess ]) = true.
Proof. vm_compute. reflexivity. Qed.
