(* History-level model for property C11 (dyndep information behaves as if written in the manifest):
   HistDefs.v extended to the fragment "ABY" = fragment AB + dyndep bindings.
   ONLY definitions (conventions) and vm_compute Examples; theorems are in HistDyndepProofs.v.
   The FILE level (parser, loader, "loading = inlining on the graph") is Dyndep/DyndepDefs.v and
   Properties_C11.v; this file is the SCHEDULE / HISTORY level.

   Ground truth ([dyninfo]).  Besides the manifest graph [g] (ScanDefs.graph, WITHOUT any dyndep
   information: a bound statement just lists its dyndep file among its implicit or order-only
   inputs, as the manifest parser requires) there is, per statement [e]:
       y_bind e  = Some dd     Edge::dyndep_ (the dyndep FILE node)
       y_ins e, y_outs e, y_restat e
                               what the file says about [e]: implicit inputs, implicit outputs, restat
       y_prod n  = Some e      the statement that gets node [n] as a dyndep output (redundant with
                               [y_outs]; [wf_y] ties them)
   The file's CONTENT is a function of the ground truth (commands are deterministic) and is fixed per
   graph, like [hid] in HistDepsDefs: "the file exists with current content" is modelled as "the dd
   node is ready": a source dd is loaded when it is looked at, a produced dd when its producer is
   ready at scan time or has had its turn in the build.  Invalid files are out of scope (file level).

   [load_for g y L]: the graph ninja has in memory when the files in [L] have been loaded
   (DyndepLoader::UpdateEdge: implicit inputs spliced in before the order-only block, implicit
   outputs appended with in_edge set, restat bound).  [inline_y g y] = everything loaded = the
   manifest with the information written in directly (the dd node stays an input of the bound
   statement, and an input the file names although the manifest lists it order-only appears twice,
   exactly as after a load).

   One invocation ([ybuild]):
   (1) scan-time loads ([scan_loads]): DependencyScan::RecomputeNodeDirty visits the dd node of a
       bound statement first; a source, or a dd whose producer is ready (outputs_ready_), is loaded
       NOW and the statement is scanned with the extra inputs.  Decided with ScanDefs.scan on the
       graph loaded so far, target the dd node, over [y_dds] (which must list the files in
       dependency order).  A loaded file updates ALL statements bound to it at once, before any of
       them is scanned; with the freshness conditions of [frag_ABY] (a dyndep output is consumed
       only through dyndep inputs of statements bound to the SAME file) the interleaved scan of the
       C++ is the plain scan of the pre-loaded graph.
   (2) the loop in edge order, HistDefs.build style: statement [k] runs iff it is wanted, real and
       dirty on the current world for the graph loaded so far ([dirty_now]: Plan::CleanNode's effect
       by re-evaluation; exact without input-less phony statements, see README_hist.md).  When the
       producer of pending dd files has had its turn (ran, or was clean: Plan::EdgeFinished ->
       Builder::LoadDyndeps in both cases) the files are loaded, and Plan::DyndepsLoaded /
       RefreshDyndepDependents are modelled as a fresh scan of the CURRENT world on the new graph
       from the same targets, whose wants are ADDED to the plan (ninja never un-wants a statement
       there).  The pass is then restarted from statement 0 (statements that ran are skipped), so
       that statements below the loader that became needed through the new inputs run before their
       consumers.
       RecomputeNodeDirty's "revisit_dirty" (an edge visited a second time keeps the verdict of the
       first visit) matters in exactly one situation: information that makes a statement CLEANER.
       Extra inputs and outputs only make it dirtier; restat does not.  [yc_sticky]: a statement
       that gets restat ONLY from the file just loaded and is wanted and dirty (without restat) at
       that moment stays dirty -- until Plan::CleanNode looks at it again because one of its inputs
       was cleaned (then the full re-evaluation decides).  This is the listed finding
       dyndep-restat-known-late (Module ExLate).
   (3) Builder::FinishCommand reads restat AFTER the load: [run_edge] on the loaded graph.

   [ybuild_f] (end of the file) is the same invocation with HistFaithful's CleanNode machinery instead of
   [dirty_now]; the theorems are about [ybuild] (exact without input-less phony statements, like
   HistDefs.build).  Module ExReplay replays the real scenario of the listed finding build for build. *)
From NinjaV Require Import Engine.CrashDefs.
From NinjaV Require Import Base.Bytes Engine.ScanDefs Engine.ScanSpec Engine.HistDefs Engine.HistFaithful.
Local Open Scope Z_scope.

(* ------------------------------------------------------------------ ground truth *)
Record dyninfo := mkY {
  y_dds : list node;                 (* the dyndep file nodes, in dependency order *)
  y_bind : edge -> option node;      (* Edge::dyndep_ *)
  y_ins : edge -> list node;         (* implicit inputs the file gives the statement *)
  y_outs : edge -> list node;        (* implicit outputs *)
  y_restat : edge -> bool;           (* restat = 1 in the file *)
  y_prod : node -> option edge       (* the statement a node is a dyndep output of *)
}.

Definition no_dyndep : dyninfo :=
  mkY [] (fun _ => None) (fun _ => []) (fun _ => []) (fun _ => false) (fun _ => None).

(* the statement's file is among the loaded ones *)
Definition loaded (y : dyninfo) (L : list node) (e : edge) : bool :=
  match y_bind y e with Some dd => mem_node dd L | None => false end.

(* DyndepLoader::UpdateEdge *)
Definition load_edge (ei : edge_info) (xi xo : list node) (r : bool) : edge_info :=
  mkEdge (splice (ei_ins ei) (ei_noo ei) xi) (ei_nimp ei + length xi)%nat (ei_noo ei)
         (ei_outs ei ++ xo) (ei_vals ei) (ei_phony ei) (ei_restat ei || r) (ei_generator ei)
         (ei_deps ei) (ei_hash ei).

Definition load_for (g : graph) (y : dyninfo) (L : list node) : graph :=
  mkGraph (g_nedges g)
    (fun e => if loaded y L e then load_edge (g_edge g e) (y_ins y e) (y_outs y e) (y_restat y e)
              else g_edge g e)
    (fun n => match g_producer g n with
              | Some e => Some e
              | None => match y_prod y n with
                        | Some e => if loaded y L e then Some e else None
                        | None => None
                        end
              end)
    (g_byloader g).

(* the manifest with all dyndep information written in directly *)
Definition inline_y (g : graph) (y : dyninfo) : graph := load_for g y (y_dds y).

(* ------------------------------------------------------------------ the fragment (checkable) *)
Definition is_some {A : Type} (o : option A) : bool := match o with Some _ => true | None => false end.
Definition opt_eqb (a b : option node) : bool := opt_node_eqb a b.

(* fragment ABY: fragment AB for the manifest; a bound statement is real, lists its file among its
   inputs and the file is a known dyndep file whose producer (if any) is real; an unbound statement
   gets nothing; a dyndep output is a node no statement produces and no statement lists in the
   manifest, and it is no dyndep file; a dyndep input that is a dyndep output comes from a statement
   bound to the SAME file (loaded in one go) *)
Definition frag_ABY (g : graph) (y : dyninfo) : bool :=
  frag_AB g &&
  edges_all g (fun e =>
    let ei := g_edge g e in
    Nat.leb (ei_noo ei) (length (ei_ins ei)) &&
    match y_bind y e with
    | Some dd =>
      mem_node dd (y_dds y) && mem_node dd (ei_ins ei) && negb (ei_phony ei)
      && match g_producer g dd with Some p => negb (ei_phony (g_edge g p)) | None => true end
    | None => is_nil (y_ins y e) && is_nil (y_outs y e) && negb (y_restat y e)
    end
    && forallb (fun n =>
         negb (is_some (g_producer g n)) && negb (mem_node n (y_dds y))
         && edges_all g (fun e' => negb (mem_node n (ei_ins (g_edge g e'))))) (y_outs y e)
    && forallb (fun i =>
         match y_prod y i with
         | Some e' => opt_eqb (y_bind y e') (y_bind y e)
         | None => true
         end) (y_ins y e)).

(* [y_prod] and [y_outs] say the same (a Prop, like ScanSpec.wf_spec) *)
Definition wf_y (g : graph) (y : dyninfo) : Prop :=
  (forall e n, In n (y_outs y e) -> y_prod y n = Some e) /\
  (forall n e, y_prod y n = Some e -> In n (y_outs y e) /\ (e < g_nedges g)%nat).

(* the "order-only + dyndep" idiom: the producer of a dyndep input of a statement also produces a
   MANIFEST input (any kind) of that statement.  Then a load makes nothing newly needed. *)
Definition dd_ins_ordered (g : graph) (y : dyninfo) : bool :=
  edges_all g (fun e =>
    forallb (fun i =>
      match g_producer (inline_y g y) i with
      | Some x => existsb (fun i' => opt_eqb (g_producer g i') (Some x)) (ei_ins (g_edge g e))
      | None => true
      end) (y_ins y e)).

(* excludes the listed finding dyndep-restat-known-late: a statement gets restat ONLY from its
   dyndep file just when that file is a source (loaded at scan time, whenever it is looked at) *)
Definition no_late_restat (g : graph) (y : dyninfo) : bool :=
  edges_all g (fun e =>
    negb (y_restat y e) || ei_restat (g_edge g e)
    || match y_bind y e with
       | Some dd => negb (is_some (g_producer g dd))
       | None => true
       end).

(* every dyndep file is a source *)
Definition all_dd_sources (g : graph) (y : dyninfo) : bool :=
  forallb (fun dd => negb (is_some (g_producer g dd))) (y_dds y).

(* ------------------------------------------------------------------ one invocation *)
Inductive yres :=
| YRefused                   (* nothing was run: the scan refused, or a source dyndep file is missing *)
| YFailed (st : hstate)      (* a mid-build load made the re-scan fail (or the pass fuel ran out) *)
| YDone (st : hstate).

Record ycst := mkYC {
  yc_st : hstate;
  yc_L : list node;            (* dyndep files loaded so far *)
  yc_want : edge -> bool;      (* kWantToStart, from the scan and the re-scans *)
  yc_sticky : edge -> bool;    (* dirty verdict kept across the load (revisit_dirty) *)
  yc_ran : edge -> bool;       (* commands run in this invocation *)
  yc_stop : bool               (* a load happened: the rest of this pass is skipped *)
}.
Inductive yrun := YRun (c : ycst) | YFail (st : hstate).

Section ModelY.
Variable cmd : edge -> N -> snapshot -> node -> content.
Variable g : graph.
Variable y : dyninfo.

Definition gl (L : list node) : graph := load_for g y L.

(* ---- (1) scan-time loads *)
Definition dd_ready (st : hstate) (L : list node) (dd : node) : bool :=
  match g_producer g dd with
  | None => true
  | Some p =>
    match scan (graph_of (gl L) st) (world_of st) [dd] with
    | ScanOk s _ => es_ready (st_edge s p)
    | _ => false
    end
  end.

Definition scan_loads (st : hstate) : list node :=
  fold_left (fun L dd => if dd_ready st L dd then L ++ [dd] else L) (y_dds y) [].

(* DyndepLoader::LoadDyndepFile fails for a missing file: a source dd that is not on disk while a
   statement bound to it was visited by the scan *)
Definition dd_src_missing (st : hstate) (s : sstate) : bool :=
  existsb (fun e =>
    match y_bind y e with
    | Some dd =>
      negb (is_some (g_producer g dd)) && negb (is_some (h_disk st dd))
      && match es_mark (st_edge s e) with VisitDone => true | _ => false end
    | None => false
    end) (seq 0 (g_nedges g)).

(* ---- (2) the loop *)
Definition late_restat (e : edge) : bool := y_restat y e && negb (ei_restat (g_edge g e)).

(* the dyndep files statement [k] produces that are still pending *)
Definition pending_of (L : list node) (k : edge) : list node :=
  filter (fun dd => negb (mem_node dd L) && opt_eqb (g_producer g dd) (Some k)) (y_dds y).

(* the outputs of [k] that Plan::CleanNode cleans at [k]'s turn: [k] was wanted (its outputs carried
   the dirty flag) and was pruned, or ran as a restat command and left the output untouched *)
Definition cleaned_outs (G : graph) (before after : hstate) (wanted ran : bool) (k : edge) : list node :=
  if negb wanted then []
  else if ran then
    if ei_restat (g_edge G k)
    then filter (fun o => Z.eqb (mtime_of after o) (mtime_of before o)) (ei_outs (g_edge G k))
    else []
  else ei_outs (g_edge G k).

Definition ystep (T : list node) (r : yrun) (k : edge) : yrun :=
  match r with
  | YFail _ => r
  | YRun c =>
    if yc_stop c || yc_ran c k then r
    else
      let st := yc_st c in
      let L := yc_L c in
      let G := gl L in
      let dn := dirty_now G st k in
      let run := negb (ei_phony (g_edge G k)) && ((yc_want c k && dn) || yc_sticky c k) in
      let st1 := if run then run_edge cmd G st k else st in
      let cl := cleaned_outs G st st1 (yc_want c k || yc_sticky c k) run k in
      let sticky1 := fun e => yc_sticky c e && negb (Nat.eqb e k)
                              && negb (existsb (fun o => mem_node o (ei_ins (g_edge G e))) cl) in
      let ran1 := fun e => if Nat.eqb e k then run || yc_ran c e else yc_ran c e in
      match pending_of L k with
      | [] => YRun (mkYC st1 L (yc_want c) sticky1 ran1 false)
      | new =>
        let L' := L ++ new in
        match scan (graph_of (gl L') st1) (world_of st1) T with
        | ScanOk _ p' =>
          YRun (mkYC st1 L'
                  (fun e => yc_want c e || want_start p' e)
                  (fun e => sticky1 e
                            || (match y_bind y e with Some dd => mem_node dd new | None => false end
                                && late_restat e && negb (yc_ran c e) && negb (Nat.eqb e k)
                                && yc_want c e && dirty_now G st1 e))
                  ran1 true)
        | _ => YFail st1
        end
      end
  end.

Definition ypass (T : list node) (c : ycst) : yrun :=
  fold_left (ystep T) (seq 0 (g_nedges g))
            (YRun (mkYC (yc_st c) (yc_L c) (yc_want c) (yc_sticky c) (yc_ran c) false)).

Fixpoint ypasses (T : list node) (fuel : nat) (c : ycst) : yrun :=
  match fuel with
  | O => YRun c
  | S f =>
    match ypass T c with
    | YRun c' => if yc_stop c' then ypasses T f c' else YRun c'
    | r => r
    end
  end.

Definition pass_fuel : nat := S (length (y_dds y)).

Definition ybuild (st : hstate) (T : list node) : yres :=
  let L0 := scan_loads st in
  match scan (graph_of (gl L0) st) (world_of st) T with
  | ScanOk s p =>
    if dd_src_missing st s then YRefused
    else match ypasses T pass_fuel (mkYC st L0 (want_start p) (fun _ => false) (fun _ => false) false) with
         | YRun c => if yc_stop c then YFailed (yc_st c) else YDone (yc_st c)
         | YFail st' => YFailed st'
         end
  | _ => YRefused
  end.

(* ------------------------------------------------------------------ histories *)
Definition yapply_step (st : hstate) (x : hstep) : hstate :=
  match x with
  | Build T => match ybuild st T with YDone st' => st' | YFailed st' => st' | YRefused => st end
  | _ => apply_step cmd g st x
  end.

Definition yrun_hist (st : hstate) (h : list hstep) : hstate := fold_left yapply_step h st.

(* the commands executed by the last step (the trace is most recent first) *)
Definition ran_since (before after : hstate) : list edge :=
  firstn (length (h_trace after) - length (h_trace before)) (h_trace after).

Definition gi : graph := inline_y g y.

(* every source that some statement reads (manifest or dyndep input) exists *)
Definition srcs_present (st : hstate) : bool :=
  edges_all g (fun e =>
    forallb (fun i => is_some (g_producer gi i) || is_some (h_disk st i)) (ei_ins (g_edge gi e))).

(* the targets are outputs the MANIFEST declares (a dyndep output is no target: before the load ninja
   does not know a rule for it) *)
Definition targets_produced (T : list node) : bool := forallb (fun t => is_some (g_producer g t)) T.

Definition is_done (r : yres) : bool := match r with YDone _ => true | _ => false end.

(* side condition on a history: whenever a build is requested, every source some statement reads
   exists and the targets are outputs the manifest declares.  Under it BOTH variants accept every
   request (HistDyndepProofs.ybuild_equiv); it also keeps a source dyndep file in existence. *)
Fixpoint hist_present_y (st : hstate) (h : list hstep) : bool :=
  match h with
  | [] => true
  | x :: h' =>
    match x with
    | Build T => srcs_present st && targets_produced T
    | _ => true
    end
    && hist_present_y (yapply_step st x) h'
  end.

End ModelY.

(* ================================================================== a project with a produced dyndep file *)
(* nodes: 0 a.src  1 b.src  2 dd  3 x.h  4 tmp  5 tmp.imp  6 out  7 other
     e0  build dd  : mkdd a.src                 (produced = true;  otherwise  build other: mkdd a.src  and dd is a source)
     e1  build x.h : gen b.src
     e2  build tmp : cc b.src || x.h dd         dyndep = dd;  the file says: | x.h  and the implicit output tmp.imp
     e3  build out : link tmp || dd             dyndep = dd;  the file says: | tmp.imp                                *)
Module ExY.
Definition mk (produced : bool) : graph :=
  mkGraph 4
    (fun e => match e with
              | 0%nat => mkEdge [0%nat] 0 0 [if produced then 2%nat else 7%nat] [] false false false DepsNone 100
              | 1%nat => mkEdge [1%nat] 0 0 [3%nat] [] false false false DepsNone 101
              | 2%nat => mkEdge [1%nat; 3%nat; 2%nat] 0 2 [4%nat] [] false false false DepsNone 102
              | 3%nat => mkEdge [4%nat; 2%nat] 0 1 [6%nat] [] false false false DepsNone 103
              | _ => Ex.dummy
              end)
    (fun n => match n with
              | 2%nat => if produced then Some 0%nat else None
              | 7%nat => if produced then None else Some 0%nat
              | 3%nat => Some 1%nat | 4%nat => Some 2%nat | 6%nat => Some 3%nat
              | _ => None end)
    (fun _ => false).
Definition y : dyninfo :=
  mkY [2%nat]
      (fun e => match e with 2%nat | 3%nat => Some 2%nat | _ => None end)
      (fun e => match e with 2%nat => [3%nat] | 3%nat => [5%nat] | _ => [] end)
      (fun e => match e with 2%nat => [5%nat] | _ => [] end)
      (fun _ => false)
      (fun n => match n with 5%nat => Some 2%nat | _ => None end).
Definition g := mk true.
Definition gs := mk false.
Definition cmd := Ex.cmd.
Definition nodes := [0; 1; 2; 3; 4; 5; 6; 7]%nat.
Definition contents (st : hstate) : list (option content) := map (content_of st) nodes.

Example frag_ok :
  frag_ABY g y && frag_AB (inline_y g y) && topo_ordered (inline_y g y) && no_inputless_phony (inline_y g y)
  && dd_ins_ordered g y && no_late_restat g y = true /\ all_dd_sources g y = false /\
  frag_ABY gs y && frag_AB (inline_y gs y) && topo_ordered (inline_y gs y) && dd_ins_ordered gs y
  && no_late_restat gs y && all_dd_sources gs y = true.
Proof. vm_compute. repeat split; reflexivity. Qed.

(* clean tree: the scan loads nothing (dd's producer is dirty), e0 runs, dd is loaded, e2 gets x.h as an
   implicit input and tmp.imp as an output, e3 gets tmp.imp as an input; then b.src changes, then a.src *)
Definition hist : list hstep :=
  [Edit 0 10; Edit 1 20; Build [6%nat]; Build [6%nat]; Edit 1 21; Build [6%nat]; Edit 0 12; Build [6%nat]].

Example first_build_loads_mid_build :
  let st := run_hist cmd g (init_hstate g) [Edit 0 10; Edit 1 20] in
  scan_loads g y st = [] /\
  match ybuild cmd g y st [6%nat] with
  | YDone st' => h_trace st' = [3; 2; 1; 0]%nat /\
                 map fst (reads (inline_y g y) st' 2%nat) = [1; 3]%nat /\
                 content_of st' 5%nat <> None
  | _ => False
  end.
Proof. vm_compute. repeat split; try reflexivity. discriminate. Qed.

Example trace : h_trace (yrun_hist cmd g y (init_hstate g) hist) = [0; 3; 2; 1; 3; 2; 1; 0]%nat.
Proof. vm_compute. reflexivity. Qed.

(* the second build finds dd ready and loads it at scan time *)
Example second_build_loads_at_scan :
  scan_loads g y (yrun_hist cmd g y (init_hstate g) (firstn 3 hist)) = [2%nat].
Proof. vm_compute. reflexivity. Qed.

(* the inlined manifest does exactly the same *)
Example same_as_inlined_obs :
  let sy := yrun_hist cmd g y (init_hstate g) hist in
  let si := run_hist cmd (inline_y g y) (init_hstate g) hist in
  h_trace sy = h_trace si /\ contents sy = contents si /\ h_clock sy = h_clock si /\
  map (h_blog sy) nodes = map (h_blog si) nodes /\
  hist_ok (inline_y g y) hist = true /\
  hist_present_y cmd g y (init_hstate g) hist = true.
Proof. vm_compute. repeat split; reflexivity. Qed.

(* the same project with dd as a source that exists when the build starts: same contents of
   everything but dd itself / the stand-in output of e0 *)
Definition hist_s : list hstep := Edit 2 99 :: hist.
Example existing_vs_produced :
  let sp := yrun_hist cmd g y (init_hstate g) hist in
  let ss := yrun_hist cmd gs y (init_hstate gs) hist_s in
  map (content_of sp) [0; 1; 3; 4; 5; 6]%nat = map (content_of ss) [0; 1; 3; 4; 5; 6]%nat /\
  h_trace ss = [3; 2; 1; 3; 2; 1]%nat /\
  hist_present_y cmd gs y (init_hstate gs) hist_s = true.
Proof. vm_compute. repeat split; reflexivity. Qed.
End ExY.

(* ================================================================== finding: dyndep-restat-known-late *)
(* nodes: 0 s  1 a  2 dd  3 out
     e0  build dd  : mkdd a
     e1  build out : halve s || dd       dyndep = dd; the file says restat = 1 (the manifest does not)
   Build; s changes without changing out (11/2 = 10/2): dd is ready, loaded at scan time, e1 runs as a
   restat command and leaves out alone: out is OLDER than s, its log entry is NEWER.  Then the command
   line of e0 changes: dd is rebuilt in this run, so e1 is scanned WITHOUT restat, found dirty (out
   older than s) and stays so after the load; the inlined manifest knows restat at scan time, looks
   at the log entry and skips e1.  (/verif/findings/C11/dyndep-restat-known-late.scn) *)
Module ExLate.
Definition g : graph :=
  mkGraph 2
    (fun e => match e with
              | 0%nat => mkEdge [1%nat] 0 0 [2%nat] [] false false false DepsNone 100
              | 1%nat => mkEdge [0%nat; 2%nat] 0 1 [3%nat] [] false false false DepsNone 101
              | _ => Ex.dummy
              end)
    (fun n => match n with 2%nat => Some 0%nat | 3%nat => Some 1%nat | _ => None end)
    (fun _ => false).
Definition y : dyninfo :=
  mkY [2%nat] (fun e => match e with 1%nat => Some 2%nat | _ => None end)
      (fun _ => []) (fun _ => []) (fun e => match e with 1%nat => true | _ => false end) (fun _ => None).
Local Open Scope N_scope.
Definition cmd (e : edge) (h : N) (S : snapshot) (o : node) : content :=
  match e with
  | 1%nat => Ex.sum_snap S / 2
  | _ => 1 + h + 3 * Ex.sum_snap S + N.of_nat o
  end.
Local Close Scope N_scope.
Definition gin := inline_y g y.
Definition hist : list hstep :=
  [Edit 0 10; Edit 1 5; Build [3%nat]; Edit 0 11; Build [3%nat]; SetCmd 0 77; Build [3%nat]].
Definition sy_before := yrun_hist cmd g y (init_hstate g) (firstn 6 hist).
Definition si_before := run_hist cmd gin (init_hstate g) (firstn 6 hist).
Definition sy_end := yrun_hist cmd g y (init_hstate g) hist.
Definition si_end := run_hist cmd gin (init_hstate g) hist.

Example conditions :
  frag_ABY g y && frag_AB gin && topo_ordered gin && no_inputless_phony gin && dd_ins_ordered g y
  && hist_ok gin hist && hist_present_y cmd g y (init_hstate g) hist = true
  /\ no_late_restat g y = false.
Proof. vm_compute. split; reflexivity. Qed.

(* up to the last build the two variants are in the same state *)
Example same_before_obs :
  h_trace sy_before = [1; 1; 0]%nat /\ h_trace si_before = [1; 1; 0]%nat /\
  h_clock sy_before = h_clock si_before /\
  map (h_disk sy_before) [0; 1; 2; 3]%nat = map (h_disk si_before) [0; 1; 2; 3]%nat /\
  map (h_blog sy_before) [0; 1; 2; 3]%nat = map (h_blog si_before) [0; 1; 2; 3]%nat /\
  (* out is older than s, its log entry is newer *)
  (mtime_of sy_before 3%nat <? mtime_of sy_before 0%nat) = true /\
  match h_blog sy_before 3%nat with Some (_, m) => (mtime_of sy_before 0%nat <? m) | None => false end = true.
Proof. vm_compute. repeat split; reflexivity. Qed.

(* the last build: the dyndep variant runs e0 and e1, the inlined variant e0 only; same contents *)
Example late_restat :
  ybuild cmd g y sy_before [3%nat] = YDone sy_end /\
  build cmd gin si_before [3%nat] = Some si_end /\
  ran_since sy_before sy_end = [1; 0]%nat /\
  ran_since si_before si_end = [0%nat] /\
  map (content_of sy_end) [0; 1; 2; 3]%nat = map (content_of si_end) [0; 1; 2; 3]%nat.
Proof. vm_compute. repeat split; reflexivity. Qed.
End ExLate.

(* ================================================================== the real replay of the finding *)
(* /verif/findings/C11/dyndep-restat-known-late.scn (tools/showtrace), statement for statement:
     nodes: 0 s0  1 s1  2 s2  3 dd0  4 d0/o0  5 o1
     e0  build dd0   : r900 s2 s0
     e1  build d0/o0 : r0 s1 s0 | s2 || dd0     dyndep = dd0   (the file: restat = 1)
     e2  build o1    : r1 d0/o0 || s2 s1 dd0    dyndep = dd0   restat = 1 in the manifest (the file: nothing)
   steps: build dd0; edit s0; build; build; touch s0; build; the command of r900 changes; build; touch s0;
   build; build; build; build.  The engine's commands per build (dyndep variant):
     [dd0] [dd0 d0/o0 o1] [] [dd0 d0/o0] [dd0 d0/o0] [dd0 d0/o0] [] [] []
   and the inlined variant differs in the fifth build only, where it runs [dd0]. *)
Module ExReplay.
Definition g : graph :=
  mkGraph 3
    (fun e => match e with
              | 0%nat => mkEdge [2%nat; 0%nat] 0 0 [3%nat] [] false false false DepsNone 900
              | 1%nat => mkEdge [1%nat; 0%nat; 2%nat; 3%nat] 1 1 [4%nat] [] false false false DepsNone 100
              | 2%nat => mkEdge [4%nat; 2%nat; 1%nat; 3%nat] 0 3 [5%nat] [] false true false DepsNone 101
              | _ => Ex.dummy
              end)
    (fun n => match n with 3%nat => Some 0%nat | 4%nat => Some 1%nat | 5%nat => Some 2%nat | _ => None end)
    (fun _ => false).
Definition y : dyninfo :=
  mkY [3%nat] (fun e => match e with 1%nat | 2%nat => Some 3%nat | _ => None end)
      (fun _ => []) (fun _ => []) (fun e => match e with 1%nat => true | _ => false end) (fun _ => None).
Local Open Scope N_scope.
Definition cmd (e : edge) (h : N) (S : snapshot) (o : node) : content := 1 + h + 3 * Ex.sum_snap S + N.of_nat o.
Local Close Scope N_scope.
Definition gin := inline_y g y.
Definition hist : list hstep :=
  [Edit 0 7; Edit 1 7; Edit 2 20; Build [3%nat]; Edit 0 35; Build [5%nat]; Build [5%nat];
   Edit 0 35; Build [5%nat]; SetCmd 0 901; Build [5%nat]; Edit 0 35; Build [5%nat];
   Build [5%nat]; Build [5%nat]; Build [5%nat]].

(* the commands of every Build step, in order, each most recent first *)
Fixpoint runs (step : hstate -> hstep -> hstate) (st : hstate) (h : list hstep) : list (list edge) :=
  match h with
  | [] => []
  | x :: h' =>
    let st' := step st x in
    match x with
    | Build _ => ran_since st st' :: runs step st' h'
    | _ => runs step st' h'
    end
  end.

Example replay_dyndep :
  runs (yapply_step cmd g y) (init_hstate g) hist
  = [[0]; [2; 1; 0]; []; [1; 0]; [1; 0]; [1; 0]; []; []; []]%nat.
Proof. vm_compute. reflexivity. Qed.

Example replay_inlined :
  runs (apply_step cmd gin) (init_hstate g) hist
  = [[0]; [2; 1; 0]; []; [1; 0]; [0]; [1; 0]; []; []; []]%nat.
Proof. vm_compute. reflexivity. Qed.

Example replay_conditions :
  frag_ABY g y && frag_AB gin && topo_ordered gin && no_inputless_phony gin && dd_ins_ordered g y
  && hist_ok gin hist && hist_present_y cmd g y (init_hstate g) hist = true
  /\ no_late_restat g y = false /\
  map (content_of (yrun_hist cmd g y (init_hstate g) hist)) [0; 1; 2; 3; 4; 5]%nat
  = map (content_of (run_hist cmd gin (init_hstate g) hist)) [0; 1; 2; 3; 4; 5]%nat.
Proof. vm_compute. repeat split; reflexivity. Qed.
End ExReplay.

(* ================================================================== the CleanNode-faithful variant *)
(* The same invocation with HistFaithful's machinery instead of [dirty_now]: the scan's node flags and
   the want map are kept while the build runs, a restat command that leaves an output alone calls
   Plan::CleanNode ([restat_clean]), a statement runs iff it is still wanted at its turn.  A mid-build load
   re-scans the current world on the new graph and MERGES: every statement that is still wanted keeps its
   want and the dirty flag of its outputs (RecomputeNodeDirty's revisit_dirty, for every statement, not only
   for late restat), everything else takes the fresh verdict.  No theorems about this variant; on graphs
   without input-less phony statements it is meant to coincide with [ybuild] (Examples below); it is the
   entry point for a tie against the engine on graphs WITH them. *)
Record fcst := mkFC {
  fc_st : hstate;
  fc_L : list node;
  fc_x : cst;
  fc_ran : edge -> bool;
  fc_stop : bool
}.
Inductive frun := FRun (c : fcst) | FFail (st : hstate).

Definition merge_cst (G : graph) (old : cst) (s' : sstate) (p' : plan) : cst :=
  let keep := filter (c_want old) (seq 0 (g_nedges G)) in
  mkC (fold_left (fun s e => mark_outputs_dirty s (ei_outs (g_edge G e))) keep s')
      (fun e => c_want old e || want_start p' e).

Section ModelYF.
Variable cmd : edge -> N -> snapshot -> node -> content.
Variable g : graph.
Variable y : dyninfo.

Definition ystep_f (T : list node) (r : frun) (k : edge) : frun :=
  match r with
  | FFail _ => r
  | FRun c =>
    if fc_stop c || fc_ran c k then r
    else
      let st := fc_st c in
      let L := fc_L c in
      let G := gl g y L in
      let x := fc_x c in
      let run := c_want x k && negb (ei_phony (g_edge G k)) in
      let st1 := if run then run_edge cmd G st k else st in
      match (if run then restat_clean (graph_of G st1) (world_of st1) k (mkC (c_s x) (unwant (c_want x) k))
             else Some x) with
      | None => FFail st1
      | Some x1 =>
        let ran1 := fun e => if Nat.eqb e k then run || fc_ran c e else fc_ran c e in
        match pending_of g y L k with
        | [] => FRun (mkFC st1 L x1 ran1 false)
        | new =>
          let L' := L ++ new in
          match scan (graph_of (gl g y L') st1) (world_of st1) T with
          | ScanOk s' p' => FRun (mkFC st1 L' (merge_cst (gl g y L') x1 s' p') ran1 true)
          | _ => FFail st1
          end
        end
      end
  end.

Definition ypass_f (T : list node) (c : fcst) : frun :=
  fold_left (ystep_f T) (seq 0 (g_nedges g)) (FRun (mkFC (fc_st c) (fc_L c) (fc_x c) (fc_ran c) false)).

Fixpoint ypasses_f (T : list node) (fuel : nat) (c : fcst) : frun :=
  match fuel with
  | O => FRun c
  | S f =>
    match ypass_f T c with
    | FRun c' => if fc_stop c' then ypasses_f T f c' else FRun c'
    | r => r
    end
  end.

Definition ybuild_f (st : hstate) (T : list node) : yres :=
  let L0 := scan_loads g y st in
  match scan (graph_of (gl g y L0) st) (world_of st) T with
  | ScanOk s p =>
    if dd_src_missing g y st s then YRefused
    else match ypasses_f T (pass_fuel y) (mkFC st L0 (init_cst s p) (fun _ => false) false) with
         | FRun c => if fc_stop c then YFailed (fc_st c) else YDone (fc_st c)
         | FFail st' => YFailed st'
         end
  | _ => YRefused
  end.

Definition yapply_step_f (st : hstate) (x : hstep) : hstate :=
  match x with
  | Build T => match ybuild_f st T with YDone st' => st' | YFailed st' => st' | YRefused => st end
  | _ => apply_step cmd g st x
  end.

Definition yrun_hist_f (st : hstate) (h : list hstep) : hstate := fold_left yapply_step_f h st.
End ModelYF.

Module ExYF.
(* the faithful variant on the three projects: same commands per build, same final contents *)
Example replay_faithful :
  ExReplay.runs (yapply_step_f ExReplay.cmd ExReplay.g ExReplay.y) (init_hstate ExReplay.g) ExReplay.hist
  = [[0]; [2; 1; 0]; []; [1; 0]; [1; 0]; [1; 0]; []; []; []]%nat.
Proof. vm_compute. reflexivity. Qed.

Example exy_faithful :
  let sf := yrun_hist_f ExY.cmd ExY.g ExY.y (init_hstate ExY.g) ExY.hist in
  let sy := yrun_hist ExY.cmd ExY.g ExY.y (init_hstate ExY.g) ExY.hist in
  h_trace sf = h_trace sy /\ ExY.contents sf = ExY.contents sy /\ h_clock sf = h_clock sy /\
  map (h_blog sf) ExY.nodes = map (h_blog sy) ExY.nodes.
Proof. vm_compute. repeat split; reflexivity. Qed.

Example exlate_faithful :
  ExReplay.runs (yapply_step_f ExLate.cmd ExLate.g ExLate.y) (init_hstate ExLate.g) ExLate.hist
  = [[1; 0]; [1]; [1; 0]]%nat /\
  ExReplay.runs (yapply_step ExLate.cmd ExLate.g ExLate.y) (init_hstate ExLate.g) ExLate.hist
  = [[1; 0]; [1]; [1; 0]]%nat /\
  ExReplay.runs (apply_step ExLate.cmd ExLate.gin) (init_hstate ExLate.g) ExLate.hist
  = [[1; 0]; [1]; [0]]%nat.
Proof. vm_compute. repeat split; reflexivity. Qed.
End ExYF.
