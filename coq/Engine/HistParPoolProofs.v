(* Theorems about pooled parallel schedules (HistParPoolDefs.v), property C06 at history level.
   No axioms.
   (a) refinement: a pool-valid schedule is a valid schedule of HistParDefs, so Good / C01 / C02 /
       confluence / equality with the sequential build hold for every pool-respecting schedule;
   (b) invariants of every configuration a pool-valid schedule reaches ([SInv]): #running <= -j,
       #running of a pool <= its depth (depth <> 0), running and finished statements are pairwise
       distinct statements of the graph, a finished statement is not wanted any more; hence
       ([pool_sched_events]) in a valid schedule no statement is started twice, none is finished
       twice, a statement is finished only after it has started, and the schedule has at most
       2 * #statements events;
   (c) progress ([pool_progress]): in a reachable configuration that is not complete, every running
       command can finish, and if nothing runs some Start is enabled under the pool and -j
       conditions (-j >= 1; depth 0 = unlimited, so every pool admits at least one command);
       termination ([pool_always_finishes]): every pool-valid schedule extends to a complete one,
       within the 2 * #statements bound. *)
Require Import Coq.Sorting.Permutation.
From NinjaV Require Import Engine.CrashDefs.
From NinjaV Require Import Base.Bytes Engine.ScanDefs Engine.ScanSpec Engine.ScanProofs Engine.HistDefs Engine.HistProofs Engine.HistFaithful Engine.HistParDefs Engine.HistParProofs Engine.HistParPoolDefs.
Local Open Scope nat_scope.

(* ================================================================== generic list facts *)
Lemma forallb_false_ex {A : Type} (f : A -> bool) : forall l, forallb f l = false ->
  exists x, In x l /\ f x = false.
Proof.
  induction l as [|a l IH]; intros H; cbn [forallb] in H; [discriminate|].
  destruct (f a) eqn:Ea.
  - cbn [andb] in H. destruct (IH H) as [x [Hx Hf]]. exists x. split; [right; exact Hx|exact Hf].
  - exists a. split; [left; reflexivity|exact Ea].
Qed.

Lemma least_true (P : nat -> bool) : forall k,
  (forall e, e < k -> P e = false) \/
  (exists m, m < k /\ P m = true /\ forall e, e < m -> P e = false).
Proof.
  induction k as [|k IH]; [left; intros e He; lia|].
  destruct IH as [Hall|[m [Hm [HPm Hlt]]]].
  - destruct (P k) eqn:Ek.
    + right. exists k. split; [lia|]. split; [exact Ek|exact Hall].
    + left. intros e He. destruct (Nat.eq_dec e k) as [->|Hne]; [exact Ek|apply Hall; lia].
  - right. exists m. split; [lia|]. split; [exact HPm|exact Hlt].
Qed.

Lemma NoDup_app_both {A : Type} : forall l1 l2 : list A, NoDup (l1 ++ l2) -> NoDup l1 /\ NoDup l2.
Proof.
  induction l1 as [|a l1 IH]; intros l2 H; cbn [app] in H; [split; [constructor|exact H]|].
  inversion H as [|x l Hx Hl]; subst. destruct (IH l2 Hl) as [H1 H2]. split; [|exact H2].
  constructor; [|exact H1]. intros Hin. apply Hx. apply in_or_app. left. exact Hin.
Qed.

Lemma events_length : forall sched, length sched = length (starts_of sched) + length (finishes_of sched).
Proof.
  induction sched as [|ev sched IH]; [reflexivity|].
  destruct ev as [e|e]; cbn [starts_of finishes_of length]; rewrite IH; lia.
Qed.

Lemma take_run_perm e : forall R r R', take_run e R = Some (r, R') ->
  Permutation (map r_edge R) (e :: map r_edge R').
Proof.
  induction R as [|a R IH]; intros r R' H; cbn [take_run] in H; [discriminate|].
  destruct (Nat.eqb_spec (r_edge a) e) as [Ha|Ha].
  - inversion H; subst. cbn [map]. apply Permutation_refl.
  - destruct (take_run e R) as [[r1 R1]|] eqn:E; [|discriminate]. inversion H; subst. clear H.
    cbn [map]. eapply perm_trans; [apply perm_skip; apply (IH r R1 eq_refl)|apply perm_swap].
Qed.

Lemma take_run_some : forall R r, In r R -> exists r' R', take_run (r_edge r) R = Some (r', R').
Proof.
  induction R as [|a R IH]; intros r Hr; [destruct Hr|]. cbn [take_run].
  destruct (Nat.eqb_spec (r_edge a) (r_edge r)) as [Ha|Ha]; [exists a, R; reflexivity|].
  destruct Hr as [Hr|Hr]; [exfalso; apply Ha; rewrite Hr; reflexivity|].
  destruct (IH r Hr) as [r1 [R1 E]]. rewrite E. exists r1, (a :: R1). reflexivity.
Qed.

(* ================================================================== (a) refinement *)
Section Refine.
Variable cmd : edge -> N -> snapshot -> node -> content.
Variable g : graph.
Variable pool_of : edge -> option nat.
Variable depth : nat -> nat.

Notation pstep := (par_step_pool cmd g pool_of depth).
Notation pexec := (par_exec_pool cmd g pool_of depth).

Lemma par_step_pool_sound lim c ev c' : pstep lim c ev = POk c' -> par_step cmd g lim c ev = POk c'.
Proof.
  destruct ev as [e|e]; cbn [par_step_pool]; [|auto].
  destruct (pool_ok pool_of depth (p_run c) e); [auto|discriminate].
Qed.

Lemma par_exec_pool_sound lim : forall sched c c',
  pexec lim sched c = POk c' -> par_exec cmd g lim sched c = POk c'.
Proof.
  induction sched as [|ev sched IH]; intros c c' H; cbn [par_exec_pool par_exec] in *; [exact H|].
  destruct (pstep lim c ev) as [c1| |] eqn:E; try discriminate.
  rewrite (par_step_pool_sound lim c ev c1 E). apply (IH c1 c' H).
Qed.

Lemma par_exec_pool_app lim : forall s1 s2 c,
  pexec lim (s1 ++ s2) c = match pexec lim s1 c with POk c1 => pexec lim s2 c1 | err => err end.
Proof.
  induction s1 as [|ev s1 IH]; intros s2 c; cbn [app par_exec_pool]; [reflexivity|].
  destruct (pstep lim c ev) as [c1| |]; [apply IH|reflexivity|reflexivity].
Qed.

(* every prefix of a pool-valid schedule is a pool-valid schedule *)
Lemma par_exec_pool_prefix lim s1 s2 c c' : pexec lim (s1 ++ s2) c = POk c' ->
  exists c1, pexec lim s1 c = POk c1 /\ pexec lim s2 c1 = POk c'.
Proof.
  rewrite par_exec_pool_app. destruct (pexec lim s1 c) as [c1| |]; try discriminate.
  intros H. exists c1. split; [reflexivity|exact H].
Qed.

Theorem par_run_pool_sound lim st T sched c :
  par_run_pool cmd g pool_of depth lim st T sched = PDone c -> par_run cmd g lim st T sched = PDone c.
Proof.
  unfold par_run_pool, par_run.
  destruct (scan (graph_of g st) (world_of st) T) as [c0|m d|e0| |s p]; try discriminate.
  destruct (pexec lim sched (init_pcfg st s p)) as [c1| |] eqn:E; try discriminate.
  rewrite (par_exec_pool_sound lim sched _ c1 E). auto.
Qed.

Theorem par_build_pool_sound lim st T sched st' :
  par_build_pool cmd g pool_of depth lim st T sched = Some st' -> par_build_j cmd g lim st T sched = Some st'.
Proof.
  unfold par_build_pool, par_build_j.
  destruct (par_run_pool cmd g pool_of depth lim st T sched) as [c| | |c|] eqn:E; try discriminate.
  rewrite (par_run_pool_sound lim st T sched c E). auto.
Qed.

Lemma par_build_pool_inv lim st T sched st' : par_build_pool cmd g pool_of depth lim st T sched = Some st' ->
  exists s p c, scan (graph_of g st) (world_of st) T = ScanOk s p /\
                pexec lim sched (init_pcfg st s p) = POk c /\ complete g c = true /\ st' = p_st c.
Proof.
  unfold par_build_pool, par_run_pool. intros H.
  destruct (scan (graph_of g st) (world_of st) T) as [c0|m d|e0| |s p]; try discriminate.
  destruct (pexec lim sched (init_pcfg st s p)) as [c| |] eqn:E; try discriminate.
  destruct (complete g c) eqn:Hc; [|discriminate]. inversion H; subst.
  exists s, p, c. repeat split; assumption.
Qed.

(* ================================================================== (b) the invariants *)
Record SInv (lim : option nat) (c : pcfg) : Prop := mkSInv {
  si_jobs : forall n, lim = Some n -> length (p_run c) <= n;
  si_pool : forall p, depth p <> 0 -> pool_use pool_of (p_run c) p <= depth p;
  si_nodup : NoDup (map r_edge (p_run c) ++ p_done c);
  si_lt : forall e, In e (map r_edge (p_run c) ++ p_done c) -> e < g_nedges g;
  si_done : forall e, In e (p_done c) -> c_want (p_x c) e = false
}.

Lemma take_run_pool_use e : forall R r R', take_run e R = Some (r, R') ->
  forall p, pool_use pool_of R' p <= pool_use pool_of R p.
Proof.
  unfold pool_use. induction R as [|a R IH]; intros r R' H p; cbn [take_run] in H; [discriminate|].
  destruct (Nat.eqb (r_edge a) e).
  - inversion H; subst. cbn [filter]. destruct (in_pool pool_of p (r_edge r)); cbn [length]; lia.
  - destruct (take_run e R) as [[r1 R1]|] eqn:E; [|discriminate]. inversion H; subst. clear H.
    specialize (IH r R1 eq_refl p). cbn [filter].
    destruct (in_pool pool_of p (r_edge a)); cbn [length]; lia.
Qed.

Lemma sinv_init lim st s p : SInv lim (init_pcfg st s p).
Proof.
  constructor; cbn [init_pcfg p_run p_done p_x map app length].
  - intros n _. lia.
  - intros q _. unfold pool_use. cbn [filter length]. lia.
  - constructor.
  - intros e [].
  - intros e [].
Qed.

Lemma sinv_start lim c e : SInv lim c -> pool_ok pool_of depth (p_run c) e = true ->
  start_ok g lim c e = true -> SInv lim (do_start g c e).
Proof.
  intros HI Hpool Hok.
  destruct (start_ok_spec g lim c e Hok) as [Hlt [Hw [_ [Hnr [Hj _]]]]].
  constructor; cbn [do_start p_run p_done p_x map app length r_edge].
  - intros n Hn. subst lim. cbn [jobs_ok] in Hj. apply Nat.ltb_lt in Hj. lia.
  - intros p Hp. pose proof (si_pool lim c HI p Hp) as Hold. unfold pool_use in *. cbn [filter r_edge].
    destruct (in_pool pool_of p e) eqn:Hin; [|exact Hold]. cbn [length].
    unfold in_pool in Hin. unfold pool_ok in Hpool. destruct (pool_of e) as [q|]; [|discriminate].
    apply Nat.eqb_eq in Hin. subst q. apply orb_true_iff in Hpool. destruct Hpool as [Hz|Hl].
    + apply Nat.eqb_eq in Hz. contradiction.
    + apply Nat.ltb_lt in Hl. unfold pool_use in Hl. lia.
  - constructor; [|apply (si_nodup lim c HI)]. intros Hin. apply in_app_or in Hin. destruct Hin as [Hin|Hin].
    + apply in_map_iff in Hin. destruct Hin as [r [Hr Hi]].
      assert (Hrun : running (p_run c) e = true) by (apply running_In; exists r; split; assumption).
      rewrite Hrun in Hnr. discriminate.
    + rewrite (si_done lim c HI e Hin) in Hw. discriminate.
  - intros e' [<-|Hin]; [exact Hlt|apply (si_lt lim c HI e' Hin)].
  - apply (si_done lim c HI).
Qed.

Lemma do_finish_inv c e c' : do_finish cmd g c e = POk c' ->
  exists r R', take_run e (p_run c) = Some (r, R') /\ p_run c' = R' /\ p_done c' = e :: p_done c /\
               forall e', c_want (p_x c') e' = true -> e' <> e /\ c_want (p_x c) e' = true.
Proof.
  unfold do_finish. destruct (take_run e (p_run c)) as [[r R']|] eqn:Etk; [|discriminate].
  destruct (restat_clean _ _ e _) as [x'|] eqn:Erc; [|discriminate].
  intros H. inversion H; subst c'. clear H. exists r, R'. cbn [p_run p_done p_x].
  split; [reflexivity|]. split; [reflexivity|]. split; [reflexivity|].
  intros e' He'. pose proof (restat_clean_want_le _ _ e _ x' Erc e' He') as Hu. cbn [c_want] in Hu.
  unfold unwant in Hu. destruct (Nat.eqb_spec e' e) as [Heq|Hne]; [discriminate|]. split; [exact Hne|exact Hu].
Qed.

Lemma finish_perm c e c' : do_finish cmd g c e = POk c' ->
  Permutation (map r_edge (p_run c) ++ p_done c) (map r_edge (p_run c') ++ p_done c').
Proof.
  intros H. destruct (do_finish_inv c e c' H) as [r [R' [Etk [HR [HD _]]]]]. rewrite HR, HD.
  eapply perm_trans; [apply Permutation_app_tail; apply (take_run_perm e _ r R' Etk)|].
  cbn [app]. apply Permutation_middle.
Qed.

Lemma sinv_finish lim c e c' : SInv lim c -> do_finish cmd g c e = POk c' -> SInv lim c'.
Proof.
  intros HI H. pose proof (finish_perm c e c' H) as HP.
  destruct (do_finish_inv c e c' H) as [r [R' [Etk [HR [HD Hw]]]]].
  destruct (take_run_spec e _ r R' Etk) as [_ [_ [_ [_ [_ Hlen]]]]].
  constructor.
  - intros n Hn. pose proof (si_jobs lim c HI n Hn). rewrite HR. lia.
  - intros p Hp. pose proof (si_pool lim c HI p Hp). pose proof (take_run_pool_use e _ r R' Etk p). rewrite HR. lia.
  - apply (Permutation_NoDup HP). apply (si_nodup lim c HI).
  - intros e' He'. apply (si_lt lim c HI). apply (Permutation_in e' (Permutation_sym HP) He').
  - intros e' He'. rewrite HD in He'. destruct (c_want (p_x c') e') eqn:E; [|reflexivity]. exfalso.
    destruct (Hw e' E) as [Hne Hold]. destruct He' as [Heq|Hin]; [apply Hne; symmetry; exact Heq|].
    rewrite (si_done lim c HI e' Hin) in Hold. discriminate.
Qed.

Lemma sinv_step lim c ev c' : SInv lim c -> pstep lim c ev = POk c' -> SInv lim c'.
Proof.
  intros HI. destruct ev as [e|e]; cbn [par_step_pool par_step].
  - destruct (pool_ok pool_of depth (p_run c) e) eqn:Hp; [|discriminate].
    destruct (start_ok g lim c e) eqn:Hok; [|discriminate].
    intros H; inversion H; subst. apply (sinv_start lim c e HI Hp Hok).
  - apply (sinv_finish lim c e c' HI).
Qed.

Lemma sinv_exec lim : forall sched c c', SInv lim c -> pexec lim sched c = POk c' -> SInv lim c'.
Proof.
  induction sched as [|ev sched IH]; intros c c' HI H; cbn [par_exec_pool] in H.
  - inversion H; subst. exact HI.
  - destruct (pstep lim c ev) as [c1| |] eqn:E; try discriminate.
    apply (IH c1 c' (sinv_step lim c ev c1 HI E) H).
Qed.

(* the events of a schedule against the configurations it connects *)
Lemma exec_events lim : forall sched c c', pexec lim sched c = POk c' ->
  Permutation (starts_of sched ++ map r_edge (p_run c) ++ p_done c) (map r_edge (p_run c') ++ p_done c') /\
  p_done c' = rev (finishes_of sched) ++ p_done c.
Proof.
  induction sched as [|ev sched IH]; intros c c' H; cbn [par_exec_pool] in H.
  - inversion H; subst. cbn [starts_of finishes_of rev app]. split; [apply Permutation_refl|reflexivity].
  - destruct (pstep lim c ev) as [c1| |] eqn:E; try discriminate.
    destruct (IH c1 c' H) as [HP HD]. destruct ev as [e|e]; cbn [par_step_pool par_step] in E.
    + destruct (pool_ok pool_of depth (p_run c) e); [|discriminate].
      destruct (start_ok g lim c e); [|discriminate]. inversion E; subst c1. clear E.
      cbn [do_start p_run p_done map r_edge] in HP, HD. cbn [starts_of finishes_of].
      split; [|exact HD]. eapply perm_trans; [|exact HP]. cbn [app]. apply Permutation_middle.
    + cbn [starts_of finishes_of]. split.
      * eapply perm_trans; [|exact HP]. apply Permutation_app_head. apply (finish_perm c e c1 E).
      * destruct (do_finish_inv c e c1 E) as [r [R' [_ [_ [HD1 _]]]]]. rewrite HD, HD1.
        cbn [rev]. rewrite <- app_assoc. reflexivity.
Qed.

(* C06: every configuration a pool-valid schedule reaches -- hence every configuration along
   every prefix of it ([par_exec_pool_prefix]) -- respects -j and the pool depths *)
Theorem pool_sched_limits lim st s p sched c :
  pexec lim sched (init_pcfg st s p) = POk c ->
  (forall n, lim = Some n -> length (p_run c) <= n) /\
  (forall q, depth q <> 0 -> pool_use pool_of (p_run c) q <= depth q) /\
  NoDup (map r_edge (p_run c)).
Proof.
  intros H. pose proof (sinv_exec lim sched _ c (sinv_init lim st s p) H) as HI.
  split; [apply (si_jobs lim c HI)|]. split; [apply (si_pool lim c HI)|].
  apply (proj1 (NoDup_app_both _ _ (si_nodup lim c HI))).
Qed.

(* C06: in a pool-valid schedule no statement is started twice, none is finished twice, what is
   finished was started, the started ones are the running ones plus the finished ones, and there
   are at most 2 * #statements events *)
Theorem pool_sched_events lim st s p sched c :
  pexec lim sched (init_pcfg st s p) = POk c ->
  NoDup (starts_of sched) /\ NoDup (finishes_of sched) /\
  incl (finishes_of sched) (starts_of sched) /\
  (forall e, In e (starts_of sched) -> e < g_nedges g) /\
  Permutation (starts_of sched) (map r_edge (p_run c) ++ rev (finishes_of sched)) /\
  p_done c = rev (finishes_of sched) /\
  length sched <= 2 * g_nedges g.
Proof.
  intros H. pose proof (sinv_exec lim sched _ c (sinv_init lim st s p) H) as HI.
  destruct (exec_events lim sched _ c H) as [HP HD].
  cbn [init_pcfg p_run p_done map app] in HP, HD. rewrite !app_nil_r in *.
  assert (Hnd : NoDup (starts_of sched)) by (apply (Permutation_NoDup (Permutation_sym HP)); apply (si_nodup lim c HI)).
  assert (Hndf : NoDup (finishes_of sched)).
  { rewrite <- (rev_involutive (finishes_of sched)). apply NoDup_rev. rewrite <- HD.
    apply (proj2 (NoDup_app_both _ _ (si_nodup lim c HI))). }
  assert (Hlt : forall e, In e (starts_of sched) -> e < g_nedges g).
  { intros e He. apply (si_lt lim c HI). apply (Permutation_in e HP He). }
  assert (Hincl : incl (finishes_of sched) (starts_of sched)).
  { intros e He. apply (Permutation_in e (Permutation_sym HP)). apply in_or_app. right. rewrite HD.
    apply in_rev in He. exact He. }
  split; [exact Hnd|]. split; [exact Hndf|]. split; [exact Hincl|]. split; [exact Hlt|].
  split; [rewrite <- HD; exact HP|]. split; [exact HD|].
  rewrite events_length.
  assert (Hs : length (starts_of sched) <= g_nedges g).
  { rewrite <- (seq_length (g_nedges g) 0). apply NoDup_incl_length; [exact Hnd|].
    intros e He. apply in_seq. specialize (Hlt e He). lia. }
  pose proof (NoDup_incl_length Hndf Hincl). lia.
Qed.

End Refine.

(* ================================================================== (c) progress and termination *)
Section Progress.
Variable cmd : edge -> N -> snapshot -> node -> content.
Variable g : graph.
Variable pool_of : edge -> option nat.
Variable depth : nat -> nat.
Hypothesis Hwf : wf_spec g.
Hypothesis Hwg : wf_graph g.
Hypothesis Hfrag : frag_AB g = true.
Hypothesis Htopo : topo_ordered g = true.

Notation pstep := (par_step_pool cmd g pool_of depth).
Notation pexec := (par_exec_pool cmd g pool_of depth).

(* nothing runs and the configuration is not complete: the LEAST wanted real statement can start
   (everything below it that is still blocked is a wanted phony statement, which is transparent),
   whatever the pools: an empty pool admits one command (depth 0 = unlimited, depth >= 1) *)
Lemma idle_start_enabled lim c : jobs_pos lim -> p_run c = [] -> complete g c = false ->
  exists e, start_enabled g pool_of depth lim c e = true.
Proof.
  intros Hj HR Hc. unfold complete in Hc. rewrite HR in Hc. cbn [is_nil andb] in Hc.
  destruct (forallb_false_ex _ _ Hc) as [e0 [He0 Hf0]]. apply in_seq in He0.
  set (P := fun e => c_want (p_x c) e && negb (ei_phony (g_edge g e))).
  assert (HP0 : P e0 = true).
  { unfold P. apply orb_false_iff in Hf0. destruct Hf0 as [Ha Hb]. apply negb_false_iff in Ha.
    rewrite Ha, Hb. reflexivity. }
  destruct (least_true P (S e0)) as [Hall|[e [He [HPe Hmin]]]].
  { rewrite (Hall e0 (Nat.lt_succ_diag_r e0)) in HP0. discriminate. }
  exists e. unfold P in HPe. apply andb_true_iff in HPe. destruct HPe as [Hw Hph].
  assert (Hlt : e < g_nedges g) by lia.
  unfold start_enabled. apply andb_true_iff. split.
  - unfold pool_ok. rewrite HR. destruct (pool_of e) as [q|]; [|reflexivity].
    unfold pool_use. cbn [filter length]. destruct (depth q) as [|d]; reflexivity.
  - unfold start_ok. rewrite HR. apply Nat.ltb_lt in Hlt. rewrite Hlt, Hw, Hph. cbn [running existsb negb andb].
    assert (Hjob : jobs_ok lim [] = true).
    { destruct lim as [[|n]|]; [destruct Hj|reflexivity|reflexivity]. }
    rewrite Hjob. cbn [andb]. unfold inputs_ready. apply forallb_forall. intros i Hi.
    apply Nat.ltb_lt in Hlt.
    apply (node_ready_complete g (blocked c) Htopo e); [lia| | |].
    + intros e' He' Hb. unfold blocked in Hb. rewrite HR in Hb. cbn [running existsb] in Hb.
      rewrite orb_false_r in Hb. specialize (Hmin e' He'). unfold P in Hmin. rewrite Hb in Hmin.
      cbn [andb] in Hmin. apply negb_false_iff in Hmin. exact Hmin.
    + unfold ready_fuel. apply (below_mono g e (S (g_nedges g)) i); [lia|]. apply (in_below g Htopo e i Hlt Hi).
    + apply (in_below g Htopo e i Hlt Hi).
Qed.

Lemma start_enabled_step lim c e : start_enabled g pool_of depth lim c e = true ->
  pstep lim c (Start e) = POk (do_start g c e).
Proof.
  unfold start_enabled. intros H. apply andb_true_iff in H. destruct H as [Hp Hs].
  cbn [par_step_pool par_step]. rewrite Hp, Hs. reflexivity.
Qed.

Section Build.
Variables (st0 : hstate) (T : list node) (s0 : sstate) (p0 : plan).
Hypothesis HG0 : Good cmd g st0.
Hypothesis Hscan : scan (graph_of g st0) (world_of st0) T = ScanOk s0 p0.

Notation PInv0 := (PInv cmd g st0 T s0 p0).
Notation init := (init_pcfg st0 s0 p0).

Lemma reach_pinv lim sched c : pexec lim sched init = POk c -> PInv0 c.
Proof.
  intros H. apply (pinv_exec cmd g Hwf Hwg Hfrag Htopo st0 T s0 p0 HG0 Hscan lim sched init c).
  - apply (pinv_init cmd g Hwf Hwg Hfrag st0 T s0 p0 HG0 Hscan).
  - apply (par_exec_pool_sound cmd g pool_of depth lim sched init c H).
Qed.

(* every running command can finish *)
Lemma running_can_finish lim c r : PInv0 c -> In r (p_run c) ->
  exists c', pstep lim c (Finish (r_edge r)) = POk c'.
Proof.
  intros HI Hr. cbn [par_step_pool par_step].
  destruct (do_finish cmd g c (r_edge r)) as [c'| |] eqn:E.
  - exists c'. reflexivity.
  - exfalso. unfold do_finish in E. destruct (take_run_some (p_run c) r Hr) as [r1 [R1 Etk]]. rewrite Etk in E.
    destruct (restat_clean _ _ (r_edge r) _); discriminate.
  - exfalso. apply (par_step_no_fuel cmd g Hwf Hwg Hfrag Htopo st0 T s0 p0 HG0 Hscan lim c (Finish (r_edge r)) HI).
    cbn [par_step]. exact E.
Qed.

(* C06 PROGRESS: a reachable configuration that is not complete is not stuck: every running command
   can finish, and when nothing runs some statement can start within -j and its pool's depth *)
Theorem pool_progress lim sched c : jobs_pos lim ->
  pexec lim sched init = POk c -> complete g c = false ->
  (forall r, In r (p_run c) -> exists c', pstep lim c (Finish (r_edge r)) = POk c') /\
  (p_run c = [] -> exists e, start_enabled g pool_of depth lim c e = true /\
                              pstep lim c (Start e) = POk (do_start g c e)) /\
  (exists ev c', pstep lim c ev = POk c').
Proof.
  intros Hj H Hc. pose proof (reach_pinv lim sched c H) as HI.
  split; [intros r Hr; apply (running_can_finish lim c r HI Hr)|]. split.
  - intros HR. destruct (idle_start_enabled lim c Hj HR Hc) as [e He]. exists e.
    split; [exact He|apply (start_enabled_step lim c e He)].
  - destruct (p_run c) as [|r R] eqn:HR.
    + destruct (idle_start_enabled lim c Hj HR Hc) as [e He]. exists (Start e), (do_start g c e).
      apply (start_enabled_step lim c e He).
    + destruct (running_can_finish lim c r HI) as [c' Hc']; [rewrite HR; left; reflexivity|].
      exists (Finish (r_edge r)), c'. exact Hc'.
Qed.

(* C06 TERMINATION: every pool-valid schedule is a prefix of a pool-valid COMPLETE schedule (of at
   most 2 * #statements events, as every pool-valid schedule): whatever the scheduler has done so
   far within the limits, the build can be finished within the limits, and it cannot go on forever *)
Lemma pool_extends lim : jobs_pos lim -> forall k sched c,
  pexec lim sched init = POk c -> 2 * g_nedges g - length sched <= k ->
  exists ext c', pexec lim (sched ++ ext) init = POk c' /\ complete g c' = true.
Proof.
  intros Hj. induction k as [|k IH]; intros sched c H Hk.
  - destruct (complete g c) eqn:Hc; [exists [], c; rewrite app_nil_r; split; assumption|]. exfalso.
    destruct (pool_progress lim sched c Hj H Hc) as [_ [_ [ev [c1 Hst]]]].
    assert (H1 : pexec lim (sched ++ [ev]) init = POk c1).
    { rewrite par_exec_pool_app, H. cbn [par_exec_pool]. rewrite Hst. reflexivity. }
    destruct (pool_sched_events cmd g pool_of depth lim st0 s0 p0 _ c1 H1) as [_ [_ [_ [_ [_ [_ Hlen]]]]]].
    rewrite app_length in Hlen. cbn [length] in Hlen. lia.
  - destruct (complete g c) eqn:Hc; [exists [], c; rewrite app_nil_r; split; assumption|].
    destruct (pool_progress lim sched c Hj H Hc) as [_ [_ [ev [c1 Hst]]]].
    assert (H1 : pexec lim (sched ++ [ev]) init = POk c1).
    { rewrite par_exec_pool_app, H. cbn [par_exec_pool]. rewrite Hst. reflexivity. }
    destruct (IH (sched ++ [ev]) c1 H1) as [ext [c' [He Hc']]].
    { rewrite app_length. cbn [length]. lia. }
    exists (ev :: ext), c'. rewrite <- app_assoc in He. cbn [app] in He. split; assumption.
Qed.

Theorem pool_always_finishes lim sched c : jobs_pos lim ->
  pexec lim sched init = POk c ->
  exists ext c', par_run_pool cmd g pool_of depth lim st0 T (sched ++ ext) = PDone c' /\
                 length (sched ++ ext) <= 2 * g_nedges g.
Proof.
  intros Hj H. destruct (pool_extends lim Hj (2 * g_nedges g) sched c H) as [ext [c' [He Hc']]]; [lia|].
  exists ext, c'. split.
  - unfold par_run_pool. rewrite Hscan, He, Hc'. reflexivity.
  - destruct (pool_sched_events cmd g pool_of depth lim st0 s0 p0 _ c' He) as [_ [_ [_ [_ [_ [_ Hlen]]]]]]. exact Hlen.
Qed.

End Build.

(* in particular a complete pool-respecting schedule exists for every accepted request, for every
   pool assignment, depths and -j >= 1 *)
Theorem pool_schedule_exists lim st T s p : jobs_pos lim ->
  Good cmd g st -> scan (graph_of g st) (world_of st) T = ScanOk s p ->
  exists sched st', par_build_pool cmd g pool_of depth lim st T sched = Some st'.
Proof.
  intros Hj HG Hs. destruct (pool_always_finishes st T s p HG Hs lim [] (init_pcfg st s p) Hj eq_refl) as [ext [c' [Hr _]]].
  exists ([] ++ ext), (p_st c'). unfold par_build_pool. rewrite Hr. reflexivity.
Qed.

(* ================================================================== (a') what the refinement gives *)
Notation Hgen_t := (forall e h h' S o, ei_generator (g_edge g e) = true -> cmd e h S o = cmd e h' S o).

Theorem pool_good lim st T sched st' :
  Good cmd g st -> par_build_pool cmd g pool_of depth lim st T sched = Some st' -> Good cmd g st'.
Proof.
  intros HG H. apply (par_good_j cmd g Hwf Htopo lim st T sched st' HG).
  apply (par_build_pool_sound cmd g pool_of depth lim st T sched st' H).
Qed.

Theorem C01_pool lim st T sched st' :
  Hgen_t -> Good cmd g st -> par_build_pool cmd g pool_of depth lim st T sched = Some st' ->
  forall n, reach g T n -> content_of st' n = clean_of cmd g st' n.
Proof.
  intros Hgen HG H. apply (C01_par_j cmd g Hwf Hwg Hfrag Htopo lim st T sched st' Hgen HG).
  apply (par_build_pool_sound cmd g pool_of depth lim st T sched st' H).
Qed.

Theorem C02_pool lim st T sched st' :
  Good cmd g st -> no_inputless_phony g = true ->
  par_build_pool cmd g pool_of depth lim st T sched = Some st' ->
  exists s p, scan (graph_of g st') (world_of st') T = ScanOk s p /\
              (forall e, p_want p e <> Some WantToStart).
Proof.
  intros HG Hnip H. apply (C02_par_j cmd g Hwf Hwg Hfrag Htopo lim st T sched st' HG Hnip).
  apply (par_build_pool_sound cmd g pool_of depth lim st T sched st' H).
Qed.

(* two pool-respecting schedules -- for any two pool assignments, depths and job limits -- run the
   same statements and end with the same contents *)
Theorem pool_confluent (pool_of2 : edge -> option nat) (depth2 : nat -> nat) lim1 lim2 st T sched1 sched2 st1 st2 :
  Hgen_t -> Good cmd g st ->
  par_build_pool cmd g pool_of depth lim1 st T sched1 = Some st1 ->
  par_build_pool cmd g pool_of2 depth2 lim2 st T sched2 = Some st2 ->
  (exists l1 l2, h_trace st1 = l1 ++ h_trace st /\ h_trace st2 = l2 ++ h_trace st /\ Permutation l1 l2) /\
  (forall n, content_of st1 n = content_of st2 n).
Proof.
  intros Hgen HG H1 H2.
  apply (par_confluent_j cmd g Hwf Hwg Hfrag Htopo lim1 lim2 st T sched1 sched2 st1 st2 Hgen HG).
  - apply (par_build_pool_sound cmd g pool_of depth lim1 st T sched1 st1 H1).
  - apply (par_build_pool_sound cmd g pool_of2 depth2 lim2 st T sched2 st2 H2).
Qed.

(* ... those of the sequential build *)
Theorem pool_same_as_sequential lim st T sched stp stf :
  Hgen_t -> Good cmd g st ->
  par_build_pool cmd g pool_of depth lim st T sched = Some stp ->
  build_f cmd g st T = Some stf ->
  (exists lp lf, h_trace stp = lp ++ h_trace st /\ h_trace stf = lf ++ h_trace st /\ Permutation lp lf) /\
  (forall n, content_of stp n = content_of stf n).
Proof.
  intros Hgen HG H Hf.
  apply (par_same_commands cmd g Hwf Hwg Hfrag Htopo st T sched stp stf Hgen HG); [|exact Hf].
  apply (par_build_j_sound cmd g lim st T sched stp).
  apply (par_build_pool_sound cmd g pool_of depth lim st T sched stp H).
Qed.

End Progress.

(* without pools the pooled semantics IS the plain one *)
Lemma par_exec_nopool cmd g depth lim : forall sched c,
  par_exec_pool cmd g (fun _ => None) depth lim sched c = par_exec cmd g lim sched c.
Proof.
  induction sched as [|ev sched IH]; intros c; cbn [par_exec_pool par_exec]; [reflexivity|].
  assert (E : par_step_pool cmd g (fun _ => None) depth lim c ev = par_step cmd g lim c ev)
    by (destruct ev as [e|e]; reflexivity).
  rewrite E. destruct (par_step cmd g lim c ev) as [c1| |]; [apply IH|reflexivity|reflexivity].
Qed.

Theorem par_run_nopool cmd g depth lim st T sched :
  par_run_pool cmd g (fun _ => None) depth lim st T sched = par_run cmd g lim st T sched.
Proof.
  unfold par_run_pool, par_run. destruct (scan (graph_of g st) (world_of st) T) as [c0|m d|e0| |s p]; try reflexivity.
  rewrite par_exec_nopool. reflexivity.
Qed.

(* ================================================================== non-vacuity: ExP with two pools *)
Example ExPool_nonvacuous :
  wf_spec ExP.g /\ wf_graph ExP.g /\ frag_AB ExP.g = true /\ topo_ordered ExP.g = true /\
  no_inputless_phony ExP.g = true /\ Good ExP.cmd ExP.g ExP.st1 /\ jobs_pos (Some 2) /\
  ExPool.depth 0 = 1 /\ ExPool.depth 1 = 2 /\
  (exists st', par_build_pool ExP.cmd ExP.g ExPool.pool_of ExPool.depth (Some 2) ExP.st1 [5] ExPool.one_by_one = Some st') /\
  par_run_pool ExP.cmd ExP.g ExPool.pool_of ExPool.depth (Some 2) ExP.st1 [5] ExP.inter = PInvalid /\
  (exists st', par_build_j ExP.cmd ExP.g (Some 2) ExP.st1 [5] ExP.inter = Some st').
Proof.
  destruct ExP_interleaved_is_schedule as [A [B [C [D [E [F G]]]]]].
  split; [exact A|]. split; [exact B|]. split; [exact C|]. split; [exact D|]. split; [exact E|].
  split; [exact F|]. split; [exact I|]. split; [reflexivity|]. split; [reflexivity|].
  split; [|split; [vm_compute; reflexivity|exact G]].
  destruct (par_build_pool ExP.cmd ExP.g ExPool.pool_of ExPool.depth (Some 2) ExP.st1 [5] ExPool.one_by_one) as [st'|] eqn:Eb.
  - exists st'. reflexivity.
  - exfalso. vm_compute in Eb. discriminate Eb.
Qed.

Definition par_step_pool_sound_proof := par_step_pool_sound.
Definition par_run_pool_sound_proof := par_run_pool_sound.
Definition par_build_pool_sound_proof := par_build_pool_sound.
Definition par_exec_pool_prefix_proof := par_exec_pool_prefix.
Definition pool_sched_limits_proof := pool_sched_limits.
Definition pool_sched_events_proof := pool_sched_events.
Definition pool_progress_proof := pool_progress.
Definition pool_always_finishes_proof := pool_always_finishes.
Definition pool_schedule_exists_proof := pool_schedule_exists.
Definition pool_good_proof := pool_good.
Definition C01_pool_proof := C01_pool.
Definition C02_pool_proof := C02_pool.
Definition pool_confluent_proof := pool_confluent.
Definition pool_same_as_sequential_proof := pool_same_as_sequential.
Definition par_run_nopool_proof := par_run_nopool.
Definition ExPool_nonvacuous_proof := ExPool_nonvacuous.
