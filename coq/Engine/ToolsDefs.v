(* Executable model of the graph walks behind ninja's read-only listing tools:
     PrintCommands (src/ninja.cc, `-t commands` and `-t commands -s`),
     CommandCollector::CollectFrom (src/command_collector.h, `-t compdb-targets`),
     InputsCollector::VisitNode (src/graph.cc, `-t inputs` / `-t multi-inputs`).
   Faithful transliterations over ScanDefs' manifest graph: the walks follow Edge::inputs_ (explicit ++
   implicit ++ order-only; validations are NOT followed) and Node::in_edge(), remember what they have seen
   in a set, and emit in post-order.  None of them diagnoses cycles: the seen-set ends the recursion.
   The C++ recursion is unbounded; here it runs on explicit fuel and fuel exhaustion is the distinct
   value [None] (ToolsProofs.v: it never happens with fuel = number of edges + 1 on a well-formed graph).
   ONLY definitions (conventions); proofs in ToolsProofs.v. *)
From NinjaV Require Import Base.Bytes Engine.ScanDefs.

Definition mem_nat (x : nat) (l : list nat) : bool := existsb (Nat.eqb x) l.

(* in_edge() of every input of [e], in the order of Edge::inputs_ ; sources contribute nothing *)
Definition dep_edges (g : graph) (e : edge) : list edge :=
  flat_map (fun n => match g_producer g n with Some p => [p] | None => [] end) (ei_ins (g_edge g e)).

(* ------------------------------------------------------------------ PrintCommands, mode PCM_All *)
(* state: (seen, done): [seen] = EdgeSet, [done] = every edge whose puts() point has been reached,
   phony ones included, oldest first.  What is printed is [printed done]. *)
Definition wstate := (list edge * list edge)%type.

Fixpoint pc_visit (g : graph) (fuel : nat) (e : edge) (s : wstate) : option wstate :=
  match fuel with
  | O => None
  | S f =>
      if mem_nat e (fst s) then Some s                       (* !seen->insert(edge).second *)
      else
        let fix over (l : list edge) (s : wstate) : option wstate :=
          match l with
          | [] => Some s
          | d :: l' => match pc_visit g f d s with Some s' => over l' s' | None => None end
          end in
        match over (dep_edges g e) (e :: fst s, snd s) with
        | Some (seen', done') => Some (seen', done' ++ [e])
        | None => None
        end
  end.

Fixpoint pc_over (g : graph) (fuel : nat) (l : list edge) (s : wstate) : option wstate :=
  match l with
  | [] => Some s
  | d :: l' => match pc_visit g fuel d s with Some s' => pc_over g fuel l' s' | None => None end
  end.

Definition target_edges (g : graph) (targets : list node) : list edge :=
  flat_map (fun n => match g_producer g n with Some p => [p] | None => [] end) targets.

Definition printed (g : graph) (done : list edge) : list edge :=
  filter (fun e => negb (ei_phony (g_edge g e))) done.

Definition tool_fuel (g : graph) : nat := S (g_nedges g).

(* `ninja -t commands <targets>`: the statements whose commands are printed, in print order *)
Definition tool_commands (g : graph) (targets : list node) : option (list edge) :=
  match pc_over g (tool_fuel g) (target_edges g targets) ([], []) with
  | Some (_, done) => Some (printed g done)
  | None => None
  end.

(* `ninja -t commands -s <targets>` (PCM_Single): no recursion, only the seen test *)
Fixpoint tool_commands_single_go (g : graph) (l : list edge) (seen : list edge) : list edge :=
  match l with
  | [] => []
  | e :: l' => if mem_nat e seen then tool_commands_single_go g l' seen
               else (if ei_phony (g_edge g e) then [] else [e]) ++ tool_commands_single_go g l' (e :: seen)
  end.
Definition tool_commands_single (g : graph) (targets : list node) : list edge :=
  tool_commands_single_go g (target_edges g targets) [].

(* ------------------------------------------------------------------ CommandCollector::CollectFrom *)
Record cstate := mkC { c_vnodes : list node; c_vedges : list edge; c_done : list edge }.

Fixpoint cc_from (g : graph) (fuel : nat) (n : node) (s : cstate) : option cstate :=
  match fuel with
  | O => None
  | S f =>
      if mem_nat n (c_vnodes s) then Some s
      else
        let s1 := mkC (n :: c_vnodes s) (c_vedges s) (c_done s) in
        match g_producer g n with
        | None => Some s1
        | Some e =>
            if mem_nat e (c_vedges s1) then Some s1
            else
              let fix over (l : list node) (s : cstate) : option cstate :=
                match l with
                | [] => Some s
                | i :: l' => match cc_from g f i s with Some s' => over l' s' | None => None end
                end in
              match over (ei_ins (g_edge g e)) (mkC (c_vnodes s1) (e :: c_vedges s1) (c_done s1)) with
              | Some s2 => Some (mkC (c_vnodes s2) (c_vedges s2) (c_done s2 ++ [e]))
              | None => None
              end
        end
  end.

Fixpoint cc_over (g : graph) (fuel : nat) (l : list node) (s : cstate) : option cstate :=
  match l with
  | [] => Some s
  | n :: l' => match cc_from g fuel n s with Some s' => cc_over g fuel l' s' | None => None end
  end.

(* fuel: one level per unseen NODE on the path is not bounded by the number of edges alone (a node level
   and an edge level alternate), but every level marks a new edge except the last: edges + 1 suffices *)
Definition tool_compdb_targets (g : graph) (targets : list node) : option (list edge) :=
  match cc_over g (tool_fuel g) targets (mkC [] [] []) with
  | Some s => Some (printed g (c_done s))
  | None => None
  end.

(* What `-t compdb-targets` prints of the collected statements (PrintCompdb in src/ninja.cc): one JSON object per
   input, so a statement WITHOUT inputs is not listed, and neither is a "validation-only" statement
   (IsValidationOnlyEdge: it has outputs, every output is a validation of some statement and an input of none) --
   even when it is the requested target itself. *)
Definition used_as_input (g : graph) (n : node) : bool :=
  existsb (fun e => mem_nat n (ei_ins (g_edge g e))) (seq 0 (g_nedges g)).
Definition used_as_validation (g : graph) (n : node) : bool :=
  existsb (fun e => mem_nat n (ei_vals (g_edge g e))) (seq 0 (g_nedges g)).
Definition validation_only_edge (g : graph) (e : edge) : bool :=
  match ei_outs (g_edge g e) with
  | [] => false
  | outs => forallb (fun o => used_as_validation g o && negb (used_as_input g o)) outs
  end.
Definition compdb_listed (g : graph) (e : edge) : bool :=
  match ei_ins (g_edge g e) with [] => false | _ => negb (validation_only_edge g e) end.
Definition tool_compdb_objects (g : graph) (targets : list node) : option (list edge) :=
  option_map (filter (compdb_listed g)) (tool_compdb_targets g targets).

(* ------------------------------------------------------------------ InputsCollector::VisitNode *)
(* state: (visited_nodes_, inputs_) ; inputs_ oldest first *)
Definition istate := (list node * list node)%type.

Definition phony_output (g : graph) (n : node) : bool :=
  match g_producer g n with Some p => ei_phony (g_edge g p) | None => false end.

Fixpoint ic_visit (g : graph) (fuel : nat) (n : node) (s : istate) : option istate :=
  match fuel with
  | O => None
  | S f =>
      match g_producer g n with
      | None => Some s
      | Some e =>
          let fix over (l : list node) (s : istate) : option istate :=
            match l with
            | [] => Some s
            | i :: l' =>
                if mem_nat i (fst s) then over l' s
                else match ic_visit g f i (i :: fst s, snd s) with
                     | Some (vn, ins) => over l' (vn, if phony_output g i then ins else ins ++ [i])
                     | None => None
                     end
            end in
          over (ei_ins (g_edge g e)) s
      end
  end.

Fixpoint ic_over (g : graph) (fuel : nat) (l : list node) (s : istate) : option istate :=
  match l with
  | [] => Some s
  | n :: l' => match ic_visit g fuel n s with Some s' => ic_over g fuel l' s' | None => None end
  end.

(* `ninja -t inputs -d <targets>` (dependency order, before escaping).  Fuel: every level but the first marks
   a new node; the number of distinct nodes is not part of [graph], so the caller passes a bound. *)
Definition tool_inputs (g : graph) (nnodes : nat) (targets : list node) : option (list node) :=
  match ic_over g (S (S nnodes)) targets ([], []) with
  | Some (_, ins) => Some ins
  | None => None
  end.

(* ------------------------------------------------------------------ a small example *)
Module ToolsEx.
  (* nodes 0,1 sources; e0: 2 <- 0 ; e1 (phony): 3 <- 2 1 ; e2: 4 <- 3 2 ; e3: 5 <- 4 || 2 *)
  Definition ed (ins outs : list node) (ph : bool) := mkEdge ins 0 0 outs [] ph false false DepsNone 0.
  Definition g : graph :=
    mkGraph 4
      (fun e => match e with 0 => ed [0] [2] false | 1 => ed [2; 1] [3] true | 2 => ed [3; 2] [4] false
                        | _ => ed [4; 2] [5] false end)%nat
      (fun n => match n with 2 => Some 0 | 3 => Some 1 | 4 => Some 2 | 5 => Some 3 | _ => None end)%nat
      (fun _ => false).
  Example commands_ex : tool_commands g [5; 4]%nat = Some [0; 2; 3]%nat.
  Proof. vm_compute. reflexivity. Qed.
  Example single_ex : tool_commands_single g [5; 3; 5]%nat = [3]%nat.
  Proof. vm_compute. reflexivity. Qed.
  Example compdb_ex : tool_compdb_targets g [5; 4]%nat = Some [0; 2; 3]%nat.
  Proof. vm_compute. reflexivity. Qed.
  Example inputs_ex : tool_inputs g 6 [5]%nat = Some [0; 2; 1; 4]%nat.
  Proof. vm_compute. reflexivity. Qed.
End ToolsEx.
