(* The history-level model of HistDefs.v (fragment AB) extended with FAILING commands: the history
   clauses of C05 ("failures are contained, reported, and never recorded as success") and what a
   failure does to C01.  ONLY definitions and vm_compute Examples; proofs are in HistFailProofs.v.

   What the code does (build.cc): Builder::Build starts no new command once failures_allowed has
   dropped to 0 (with -k 1: after the first failure), reaps what is running (with -j 1: nothing)
   and returns a non-zero exit code ("subcommand failed").  Builder::FinishCommand returns right
   after  plan_.EdgeFinished(edge, Plan::kEdgeFailed)  for a failed command: no restat, no deps
   record, NO BuildLog::RecordCommand.  Nothing deletes the outputs of a failed command
   (Builder::Cleanup only removes outputs of commands that were still RUNNING when ninja was
   interrupted), and nothing removes an OLD log entry of an earlier successful run.  So after a
   failure the outputs are in whatever state the command left them and the log is as before.

   Model.  A new step  BuildF targets faults : a fault assigns to a statement the way its command
   fails WHEN IT IS STARTED in that invocation:
       FailUntouched        the outputs are left alone
       FailDeleted          the outputs are removed
       FailWrote f          every output is (re)written with content [f o], fresh ticks
   [fail_edge] = StartEdge (lock tick) + the fault; it writes NO log entry and no ghost snapshot;
   FailWrote moreover FORGETS the ghost snapshot of the outputs (h_ghost := None): the file on disk
   is no longer the product of the run the log entry describes.  "On disk and no ghost snapshot"
   is the (ghost) TAINT mark [tainted]; a successful run of the statement sets the snapshot again.
   [buildF] is ninja -j1 -k1 in the edge order: the statements before the failing one are run as
   [build] runs them, the failing one is started, nothing is started afterwards, the exit flag of
   the invocation is "failed".  [buildF st T []] is [build st T] ([buildF_nofault] in the proofs).
   Everything is computable. *)
From NinjaV Require Import Engine.CrashDefs.
From NinjaV Require Import Base.Bytes Engine.ScanDefs Engine.ScanSpec Engine.HistDefs.
Local Open Scope Z_scope.

(* ------------------------------------------------------------------ faults *)
Inductive fail_kind :=
| FailUntouched                       (* exits non-zero, outputs as they were *)
| FailDeleted                         (* exits non-zero, outputs removed *)
| FailWrote (f : node -> content).    (* exits non-zero after (re)writing every output *)

Definition faults := list (edge * fail_kind).

Fixpoint fault_of (fs : faults) (e : edge) : option fail_kind :=
  match fs with
  | [] => None
  | (e', k) :: fs' => if Nat.eqb e' e then Some k else fault_of fs' e
  end.

Inductive fstep :=
| Plain (s : hstep)                               (* Edit | Delete | SetCmd | Build of HistDefs *)
| BuildF (targets : list node) (fs : faults).     (* an invocation in which commands may fail *)

(* no fault of the invocation / of the step rewrites outputs *)
Definition no_wrote_faults (fs : faults) : bool :=
  forallb (fun x => match snd x with FailWrote _ => false | _ => true end) fs.
Definition no_wrote (s : fstep) : bool :=
  match s with
  | BuildF _ fs => no_wrote_faults fs
  | Plain _ => true
  end.

Definition is_some {A : Type} (o : option A) : bool := match o with Some _ => true | None => false end.

Section ModelF.
Variable cmd : edge -> N -> snapshot -> node -> content.
Variable g : graph.

(* ------------------------------------------------------------------ one failing command *)
Definition delete_outs (os : list node) (st : hstate) : hstate := fold_left delete_file os st.

(* GHOST: the snapshot of the last successful run no longer describes these files *)
Definition forget_ghost (st : hstate) (os : list node) : hstate :=
  mkH (h_disk st) (h_clock st) (h_blog st) (h_hash st)
      (fun n => if mem_node n os then None else h_ghost st n) (h_trace st).

(* GHOST: the command was started *)
Definition push_trace (st : hstate) (e : edge) : hstate :=
  mkH (h_disk st) (h_clock st) (h_blog st) (h_hash st) (h_ghost st) (e :: h_trace st).

(* StartEdge (lock tick), the command does what the fault says and exits non-zero; FinishCommand
   returns after EdgeFinished(kEdgeFailed): no log entry *)
Definition fail_edge (st : hstate) (e : edge) (k : fail_kind) : hstate :=
  let os := ei_outs (g_edge g e) in
  let st1 := tick st in
  push_trace
    match k with
    | FailUntouched => st1
    | FailDeleted => delete_outs os st1
    | FailWrote f => forget_ghost (write_outs false f os st1) os
    end e.

(* ------------------------------------------------------------------ one invocation, -j1 -k1 *)
(* the loop state: the state, and once a command has failed: which one, how, and (GHOST, for the
   theorems) the state it was started in *)
Definition facc := (hstate * option (edge * fail_kind * hstate))%type.

Definition build_stepF (fs : faults) (p : plan) (acc : facc) (e : edge) : facc :=
  match acc with
  | (_, Some _) => acc                        (* failures_allowed = 0: nothing is started *)
  | (st, None) =>
    if want_start p e && negb (ei_phony (g_edge g e)) && dirty_now g st e
    then match fault_of fs e with
         | Some k => (fail_edge st e k, Some (e, k, st))
         | None => (run_edge cmd g st e, None)
         end
    else acc
  end.

Definition build_uptoF (fs : faults) (p : plan) (k : nat) (st : hstate) : facc :=
  fold_left (build_stepF fs p) (seq 0 k) (st, None).

(* None: ninja refuses (missing source, cycle): nothing is run *)
Definition buildF_full (st : hstate) (targets : list node) (fs : faults) : option facc :=
  match scan (graph_of g st) (world_of st) targets with
  | ScanOk _ p => Some (build_uptoF fs p (g_nedges g) st)
  | _ => None
  end.

(* the new state and ninja's exit flag: true = "subcommand failed", exit status non-zero *)
Definition buildF (st : hstate) (targets : list node) (fs : faults) : option (hstate * bool) :=
  match buildF_full st targets fs with
  | Some (st', r) => Some (st', is_some r)
  | None => None
  end.

(* ------------------------------------------------------------------ histories with failures *)
Definition fstep_ok (s : fstep) : bool :=
  match s with Plain s => step_ok g s | BuildF _ _ => true end.
Definition fhist_ok (h : list fstep) : bool := forallb fstep_ok h.

Definition apply_fstep (st : hstate) (s : fstep) : hstate :=
  match s with
  | Plain s => apply_step cmd g st s
  | BuildF targets fs => match buildF st targets fs with Some (st', _) => st' | None => st end
  end.

Definition run_fhist (st : hstate) (h : list fstep) : hstate := fold_left apply_fstep h st.

(* the commands started between [st] and [st'] (the ghost trace is newest first) *)
Definition trace_delta (st st' : hstate) : list edge :=
  firstn (length (h_trace st') - length (h_trace st)) (h_trace st').

(* [d] depends on an output of [e], transitively, through inputs of every kind *)
Inductive depends_on (e : edge) : edge -> Prop :=
| dep_direct d i : In i (ei_ins (g_edge g d)) -> g_producer g i = Some e -> depends_on e d
| dep_trans d i e' :
    In i (ei_ins (g_edge g d)) -> g_producer g i = Some e' -> depends_on e e' -> depends_on e d.

(* ------------------------------------------------------------------ the invariant with failures *)
(* an output file that is not the product of a successful run: written by a failed command since
   the last successful run of its statement *)
Definition tainted (st : hstate) (o : node) : bool :=
  match h_disk st o, h_ghost st o with
  | Some _, None => true
  | _, _ => false
  end.

(* LogSound of HistDefs, for the outputs that still have their ghost snapshot *)
Definition LogSoundF (st : hstate) : Prop :=
  forall e o h m mo c S,
    ei_phony (g_edge g e) = false -> In o (ei_outs (g_edge g e)) ->
    h_blog st o = Some (h, m) -> h_disk st o = Some (mo, c) -> h_ghost st o = Some S ->
    map fst S = nonoo_ins g e /\ c = cmd e h S o /\ snap_fresh g st m S.

(* StateOk of HistDefs; "an output on disk has a log entry" only for untainted outputs *)
Definition StateOkF (st : hstate) : Prop :=
  0 <= h_clock st /\
  (forall n m c, h_disk st n = Some (m, c) -> 0 < m <= h_clock st) /\
  (forall n h m, h_blog st n = Some (h, m) -> m <= h_clock st) /\
  (forall n e, g_producer g n = Some e -> ei_phony (g_edge g e) = true -> h_disk st n = None) /\
  (forall n e, g_producer g n = Some e -> ei_phony (g_edge g e) = false ->
               h_disk st n <> None -> h_ghost st n <> None -> h_blog st n <> None).

Definition GoodF (st : hstate) : Prop := StateOkF st /\ LogSoundF st.

(* ---- when does the log NOT validate a tainted output *)
(* input [i] is not "on disk with mtime <= m": newer than [m], or missing (it will have to be
   remade, with a fresh tick), looking through phony statements.  This is the form of "the log
   entry is older than an input" that survives every later step. *)
Inductive late (st : hstate) (m : Z) : node -> Prop :=
| late_file i mi c : h_disk st i = Some (mi, c) -> m < mi -> late st m i
| late_missing i :
    h_disk st i = None ->
    (forall e', g_producer g i = Some e' -> ei_phony (g_edge g e') = false) -> late st m i
| late_phony i e' i' :
    h_disk st i = None -> g_producer g i = Some e' -> ei_phony (g_edge g e') = true ->
    In i' (nonoo_ins g e') -> late st m i' -> late st m i.

(* fuel exhaustion answers "not late": the conservative side (the hypotheses built from it get
   harder to satisfy, never easier); S (g_nedges g) is enough for a topologically ordered graph *)
Fixpoint lateb (fuel : nat) (st : hstate) (m : Z) (i : node) : bool :=
  match fuel with
  | O => false
  | S f =>
    match h_disk st i with
    | Some (mi, _) => Z.ltb m mi
    | None =>
      match g_producer g i with
      | Some e' => if ei_phony (g_edge g e') then existsb (lateb f st m) (nonoo_ins g e') else true
      | None => true
      end
    end
  end.

(* the log gives statement [e] a reason of its own to remake [o], whatever [o]'s mtime is: no entry
   (not for generator rules), [wh]: another command hash (not for generator rules), an entry older
   than an input.  The hash clause does not survive a later SetCmd (the command line can be changed
   back), hence the switch. *)
Definition StaleEntry (wh : bool) (st : hstate) (e : edge) (o : node) : Prop :=
  match h_blog st o with
  | None => ei_generator (g_edge g e) = false
  | Some (h, m) =>
    (wh = true /\ ei_generator (g_edge g e) = false /\ h <> h_hash st e) \/
    exists i, In i (nonoo_ins g e) /\ late st m i
  end.

Definition stale_entryb (wh : bool) (st : hstate) (e : edge) (o : node) : bool :=
  match h_blog st o with
  | None => negb (ei_generator (g_edge g e))
  | Some (h, m) =>
    (wh && negb (ei_generator (g_edge g e)) && negb (N.eqb h (h_hash st e)))
    || existsb (lateb (S (g_nedges g)) st m) (nonoo_ins g e)
  end.

(* no tainted output is validated by an old log entry *)
Definition TaintOk (wh : bool) (st : hstate) : Prop :=
  forall e o, ei_phony (g_edge g e) = false -> In o (ei_outs (g_edge g e)) ->
              tainted st o = true -> StaleEntry wh st e o.

Definition taint_okb (wh : bool) (st : hstate) : bool :=
  edges_all g (fun e =>
    ei_phony (g_edge g e)
    || forallb (fun o => negb (tainted st o) || stale_entryb wh st e o) (ei_outs (g_edge g e))).

(* THE hypothesis of C01 with failures, a boolean on the state in which ninja is started *)
Definition taint_safe (st : hstate) : bool := taint_okb true st.
(* the form that is an invariant of histories whose failures are all benign *)
Definition taint_robust (st : hstate) : bool := taint_okb false st.

(* ---- benign failures: FailUntouched, FailDeleted, and FailWrote on a statement none of whose
   outputs has a log entry that could validate the garbage later (no entry at all, or an entry that
   is older than an input) -- judged in the state in which the command is started *)
Definition fault_benign (st : hstate) (e : edge) (k : fail_kind) : bool :=
  match k with
  | FailWrote _ => forallb (stale_entryb false st e) (ei_outs (g_edge g e))
  | _ => true
  end.

Definition benign_step (st : hstate) (s : fstep) : bool :=
  match s with
  | BuildF targets fs =>
    match buildF_full st targets fs with
    | Some (_, Some (e, k, stk)) => fault_benign stk e k
    | _ => true
    end
  | Plain _ => true
  end.

Fixpoint fhist_benign (st : hstate) (h : list fstep) : bool :=
  match h with
  | [] => true
  | s :: h' => benign_step st s && fhist_benign (apply_fstep st s) h'
  end.

(* ---- C05 "so the next invocation runs it again": what makes the failed statement dirty again.
   [stk] is the state in which the command was started.  FailDeleted: nothing (the outputs are
   missing now).  FailUntouched: it was dirty (the validated specification of the dirty flags).
   FailWrote: the LOG gives a reason (the rewritten outputs are newer than every input, so missing
   or old outputs are no reason any more). *)
Definition rerun_reason (stk : hstate) (e : edge) (k : fail_kind) : Prop :=
  match k with
  | FailUntouched =>
    exists o, In o (ei_outs (g_edge g e)) /\ must_dirty (graph_of g stk) (world_of stk) o
  | FailDeleted => True
  | FailWrote _ => exists o, In o (ei_outs (g_edge g e)) /\ StaleEntry true stk e o
  end.

End ModelF.

(* ================================================================== the listed finding *)
(*   build out : cc src        nodes: 0 src, 1 out          id = failed-cmd-rewrote-output      *)
Module ExFail.
Definition mk (generator : bool) : graph :=
  mkGraph 1 (fun e => match e with
                      | 0%nat => mkEdge [0%nat] 0 0 [1%nat] [] false false generator DepsNone 7
                      | _ => Ex.dummy end)
    (fun n => match n with 1%nat => Some 0%nat | _ => None end)
    (fun _ => false).
Definition g : graph := mk false.
Definition garbage : node -> content := fun _ => 999%N.

Definition show (g : graph) (st : hstate) :=
  (content_of st 1%nat, clean_of Ex.cmd g st 1%nat, h_blog st 1%nat, h_trace st).

(* src appears, a successful build, out is deleted, the command is run again, REWRITES out and
   FAILS; then ninja is run once more *)
Definition hist4 : list fstep :=
  [Plain (Edit 0 5); Plain (Build [1%nat]); Plain (Delete 1);
   BuildF [1%nat] [(0%nat, FailWrote garbage)]].
Definition hist5 : list fstep := hist4 ++ [Plain (Build [1%nat])].

Definition st3 := run_fhist Ex.cmd g (init_hstate g) (firstn 3 hist4).
Definition st4 := run_fhist Ex.cmd g (init_hstate g) hist4.
Definition st5 := run_fhist Ex.cmd g (init_hstate g) hist5.

Example frag_ok : frag_AB g && topo_ordered g && no_inputless_phony g && fhist_ok g hist5 = true.
Proof. vm_compute. reflexivity. Qed.

(* the failing invocation: exit flag "failed"; the log entry (7, 2) of the first run is still there,
   no new one; out holds the garbage with a fresh mtime; the hypothesis of C01 is FALSE *)
Example failing_invocation :
  (match buildF Ex.cmd g st3 [1%nat] [(0%nat, FailWrote garbage)] with
   | Some (st', failed) => failed = true /\ st' = st4
   | None => False end) /\
  h_blog st4 1%nat = h_blog st3 1%nat /\ h_blog st4 1%nat = Some (7%N, 2) /\
  h_disk st4 1%nat = Some (5, 999%N) /\ h_trace st4 = [0; 0]%nat /\
  tainted st4 1%nat = true /\ taint_safe g st4 = false.
Proof. vm_compute. repeat split; reflexivity. Qed.

(* the next invocation: accepted, runs NOTHING, changes nothing: "no work to do", exit status 0,
   with the garbage in out: C05 "so the next invocation runs it again" and C01 both fail *)
Example next_invocation_idle :
  build Ex.cmd g st4 [1%nat] = Some st4 /\ st5 = st4 /\
  trace_delta st4 st5 = [] /\
  content_of st5 1%nat = Some 999%N /\ clean_of Ex.cmd g st5 1%nat = Some 2%N.
Proof. vm_compute. repeat split; reflexivity. Qed.

(* the same with FailUntouched / FailDeleted: the next invocation runs the command again and the
   result is the clean one *)
Definition hist_with (k : fail_kind) : list fstep :=
  [Plain (Edit 0 5); Plain (Build [1%nat]); Plain (Delete 1);
   BuildF [1%nat] [(0%nat, k)]; Plain (Build [1%nat])].
Example untouched_deleted_recover :
  let a := run_fhist Ex.cmd g (init_hstate g) (hist_with FailUntouched) in
  let b := run_fhist Ex.cmd g (init_hstate g) (hist_with FailDeleted) in
  h_trace a = [0; 0; 0]%nat /\ content_of a 1%nat = clean_of Ex.cmd g a 1%nat /\
  h_trace b = [0; 0; 0]%nat /\ content_of b 1%nat = clean_of Ex.cmd g b 1%nat /\
  fhist_benign Ex.cmd g (init_hstate g) (hist_with FailUntouched) = true /\
  fhist_benign Ex.cmd g (init_hstate g) (hist_with FailDeleted) = true /\
  fhist_benign Ex.cmd g (init_hstate g) hist5 = false.
Proof. vm_compute. repeat split; reflexivity. Qed.

(* FailWrote when the command was dirty for a reason the log keeps: src was edited, the entry is
   older than src: the garbage is not validated, the next invocation repairs it *)
Definition hist_edit : list fstep :=
  [Plain (Edit 0 5); Plain (Build [1%nat]); Plain (Edit 0 6);
   BuildF [1%nat] [(0%nat, FailWrote garbage)]; Plain (Build [1%nat])].
Example wrote_after_edit_recovers :
  let a := run_fhist Ex.cmd g (init_hstate g) (firstn 4 hist_edit) in
  let b := run_fhist Ex.cmd g (init_hstate g) hist_edit in
  tainted a 1%nat = true /\ taint_safe g a = true /\ taint_robust g a = true /\
  fhist_benign Ex.cmd g (init_hstate g) hist_edit = true /\
  h_trace b = [0; 0; 0]%nat /\ content_of b 1%nat = clean_of Ex.cmd g b 1%nat.
Proof. vm_compute. repeat split; reflexivity. Qed.

(* variant 2 of the finding: the command line is changed, the new command rewrites out and fails,
   the change is taken back: the OLD entry has the right hash again *)
Definition hist_setcmd : list fstep :=
  [Plain (Edit 0 5); Plain (Build [1%nat]); Plain (SetCmd 0 8);
   BuildF [1%nat] [(0%nat, FailWrote garbage)]; Plain (SetCmd 0 7); Plain (Build [1%nat])].
Example setcmd_variant :
  let a := run_fhist Ex.cmd g (init_hstate g) (firstn 4 hist_setcmd) in
  let b := run_fhist Ex.cmd g (init_hstate g) hist_setcmd in
  taint_safe g a = true /\ taint_robust g a = false /\
  h_trace b = [0; 0]%nat /\ content_of b 1%nat = Some 999%N /\ clean_of Ex.cmd g b 1%nat = Some 2%N.
Proof. vm_compute. repeat split; reflexivity. Qed.

(* variant 3: a GENERATOR rule needs no log entry to be clean: its very first run rewrites out and
   fails, the next invocation accepts the garbage (3 steps, no successful run at all) *)
Definition hist_gen : list fstep :=
  [Plain (Edit 0 5); BuildF [1%nat] [(0%nat, FailWrote garbage)]; Plain (Build [1%nat])].
Example generator_variant :
  let b := run_fhist Ex.cmd (mk true) (init_hstate (mk true)) hist_gen in
  h_trace b = [0%nat] /\ h_blog b 1%nat = None /\
  content_of b 1%nat = Some 999%N /\ clean_of Ex.cmd (mk true) b 1%nat = Some 2%N.
Proof. vm_compute. repeat split; reflexivity. Qed.
End ExFail.

(* ================================================================== the project of HistDefs.Ex *)
(* a non-trivial reachable state with a tainted output in which the hypothesis of C01 holds:
   b.src is edited, the compile of x.o rewrites x.o and fails (e2, the link, is not started);
   then a plain build repairs everything *)
Module ExF.
Definition hist7 : list fstep :=
  map Plain Ex.hist5 ++ [Plain (Edit 1 21); BuildF [5%nat] [(1%nat, FailWrote ExFail.garbage)]].
Definition st7 := run_fhist Ex.cmd Ex.g Ex.st0 hist7.
Definition st8 := apply_fstep Ex.cmd Ex.g st7 (Plain (Build [5%nat])).

Example tainted_but_safe :
  fhist_ok Ex.g hist7 = true /\
  tainted st7 3%nat = true /\ content_of st7 3%nat = Some 999%N /\
  taint_safe Ex.g st7 = true /\ taint_robust Ex.g st7 = true /\
  fhist_benign Ex.cmd Ex.g Ex.st0 hist7 = true /\
  h_trace st7 = [1; 0; 2; 1; 0]%nat.
Proof. vm_compute. repeat split; reflexivity. Qed.

Example repaired :
  h_trace st8 = [2; 1; 1; 0; 2; 1; 0]%nat /\ Ex.contents st8 = Ex.cleans st8 /\
  tainted st8 3%nat = false.
Proof. vm_compute. repeat split; reflexivity. Qed.

(* two faults: the first statement that is started with a fault ends the invocation; e0 is clean
   here (a.src unchanged), so it is e1 that fails and the fault of e2 never fires *)
Example first_failure_stops :
  match buildF Ex.cmd Ex.g (run_fhist Ex.cmd Ex.g Ex.st0 (map Plain Ex.hist5 ++ [Plain (Edit 1 21)]))
               [5%nat] [(2%nat, FailDeleted); (1%nat, FailUntouched)] with
  | Some (st', failed) => failed = true /\ h_trace st' = [1; 0; 2; 1; 0]%nat /\
                          content_of st' 4%nat <> None
  | None => False
  end.
Proof. vm_compute. repeat split; try reflexivity. discriminate. Qed.
End ExF.
