(* The history-level model of HistDefs.v / HistFailDefs.v (fragment AB) extended with KILLED and
   INTERRUPTED invocations: property C07 "interrupts and kills never poison the next build" at
   history level.  ONLY definitions and vm_compute Examples; proofs are in HistCrashProofs.v.

   What the code does.
   * Builder::StartEdge (build.cc): writes the lock file and stats it (command_start_time_), then
     spawns the command.  Builder::FinishCommand: for a successful command the restat re-stat
     (record_mtime), [deps log records: outside the fragment], then BuildLog::RecordCommand, which
     (build_log.cc) loops over the outputs of the statement and writes AND FLUSHES one entry per
     output: a kill between two iterations leaves the first outputs with the new entry and the
     others with whatever entry they had.
   * SIGKILL / power loss: nothing more happens.  A command that is killed with ninja leaves its
     outputs in an arbitrary state (half written).
   * SIGINT/SIGTERM/SIGHUP (subprocess-posix.cc): the three signals are BLOCKED except inside
     ppoll/pselect in SubprocessSet::DoWork, i.e. ninja notices an interrupt only while it waits for
     a running command; DoWork answers Interrupted, RealCommandRunner::WaitForCommand turns that
     into BuildResult::Interrupted, Builder::Build calls Cleanup() and returns; ninja.cc maps the
     error text "interrupted by user" to ExitInterrupted = 130.  Builder::Cleanup: the running
     commands get the signal (SubprocessSet::Clear), and for every ACTIVE edge every output whose
     mtime on disk now differs from Node::mtime() (what the scan of this invocation saw) is
     removed [with a depfile: always, and the depfile too -- outside the fragment]; no log entry.

   Model.  Two new steps on top of HistFailDefs.fstep:
     BuildK targets cp   an invocation killed at crash point cp = (position e in the sequential
                         edge order, point inside statement e):
        KBefore      nothing of statement e has happened
        KLocked      after the lock tick of StartEdge
        KWrote k f   the command has written the first k of its outputs; the written files have the
                     ARBITRARY content f o (half written) and fresh ticks
        KLogged j    the command has finished, all outputs are written as in a successful run, and
                     the first j log entries of RecordCommand are on disk (KWritten := KLogged 0;
                     j >= number of outputs: the statement is complete)
       Everything before the crash point happened as in [build] ([build_upto p e]); nothing after
       it.  When statement e is not started by this invocation (not wanted, phony, or clean when its
       turn comes) the kill falls between two statements: the state is [build_upto p e]; a position
       >= g_nedges is a kill after the last statement.
     BuildI targets ip   an invocation interrupted while statement e = ip_pos ip runs, after
                         ip_k ip of its output writes (contents ip_f ip): the kill state of
                         KWrote, then Builder::Cleanup; exit status 130.  When statement e is not
                         started by this invocation nobody waits in ppoll at that position: the
                         interrupt is not noticed there and the invocation is the plain [build]
                         (exit status 0); the interrupt is then noticed while a LATER statement
                         runs, which is another interrupt point.
   GHOST bookkeeping (never read by the algorithm): a file written by a killed command with
   arbitrary content loses its ghost snapshot (it is "tainted", HistFailDefs.tainted).  An output
   that was written COMPLETELY but did not get its log entry (KLogged) holds [cmd e h S o] for the
   snapshot S the killed run read; its ghost becomes S when the OLD log entry it still has carries
   the same command hash h (that entry then describes the file correctly whenever it is fresh
   enough to be believed); otherwise the ghost is forgotten (tainted).
   Everything is computable. *)
From NinjaV Require Import Engine.CrashDefs.
From NinjaV Require Import Base.Bytes Engine.ScanDefs Engine.ScanSpec Engine.HistDefs Engine.HistFailDefs.
Local Open Scope Z_scope.

(* ------------------------------------------------------------------ crash and interrupt points *)
Inductive crash_at :=
| KBefore                                 (* nothing of the statement happened *)
| KLocked                                 (* StartEdge wrote the lock file *)
| KWrote (k : nat) (f : node -> content)  (* k output writes, contents f (half-written files) *)
| KLogged (j : nat).                      (* command done, j entries of RecordCommand written *)
Definition KWritten : crash_at := KLogged 0.   (* all writes, no log entry *)

Record crash_point := mkCP { cp_pos : nat; cp_at : crash_at }.
Record intr_point := mkIP { ip_pos : nat; ip_k : nat; ip_f : node -> content }.

Inductive kstep :=
| KStep (s : fstep)                                  (* Edit | Delete | SetCmd | Build | BuildF *)
| BuildK (targets : list node) (cp : crash_point)    (* an invocation killed at cp *)
| BuildI (targets : list node) (ip : intr_point).    (* an invocation interrupted at ip *)

(* ninja's exit status *)
Definition exit_success : N := 0%N.
Definition exit_interrupted : N := 130%N.     (* exit_status.h: ExitInterrupted *)

Section ModelK.
Variable cmd : edge -> N -> snapshot -> node -> content.
Variable g : graph.

(* ------------------------------------------------------------------ one killed command *)
(* the outputs that have / have not got the new log entry after j iterations of RecordCommand *)
Definition logged_outs (e : edge) (j : nat) : list node := firstn j (ei_outs (g_edge g e)).
Definition unlogged_outs (e : edge) (j : nat) : list node :=
  filter (fun o => negb (mem_node o (logged_outs e j))) (ei_outs (g_edge g e)).

(* the old log entry of [o] carries the command hash [h] *)
Definition same_hash_entry (st : hstate) (h : N) (o : node) : bool :=
  match h_blog st o with Some (h', _) => N.eqb h' h | None => false end.

(* StartEdge (lock tick), the command writes the first k outputs with contents f and is killed *)
Definition kill_wrote (st : hstate) (e : edge) (k : nat) (f : node -> content) : hstate :=
  let ws := firstn k (ei_outs (g_edge g e)) in
  push_trace (forget_ghost (write_outs false f ws (tick st)) ws) e.

(* j iterations of the loop of BuildLog::RecordCommand; GHOST: see the header *)
Definition record_partial (st : hstate) (e : edge) (outs lg : list node) (h : N) (m : Z) (S : snapshot) : hstate :=
  mkH (h_disk st) (h_clock st)
      (fun n => if mem_node n lg then Some (h, m) else h_blog st n)
      (h_hash st)
      (fun n => if mem_node n lg then Some S
                else if mem_node n outs then (if same_hash_entry st h n then Some S else None)
                else h_ghost st n)
      (e :: h_trace st).

(* the command ran to its end exactly as in [run_edge] (HistDefs.finish_run: same writes, same
   record_mtime), FinishCommand got as far as j entries of RecordCommand *)
Definition kill_logged (st : hstate) (e : edge) (j : nat) : hstate :=
  let ei := g_edge g e in
  let h := h_hash st e in
  let S := reads g st e in
  let st1 := tick st in
  let st2 := write_outs (ei_restat ei) (cmd e h S) (ei_outs ei) st1 in
  let m := CrashDefs.record_mtime (crash_cfg ei h) (h_clock st1)
             (map (orec_of st) (ei_outs ei)) (map (orec_of st2) (ei_outs ei)) in
  record_partial st2 e (ei_outs ei) (logged_outs e j) h m S.

Definition kill_edge (st : hstate) (e : edge) (a : crash_at) : hstate :=
  match a with
  | KBefore => st
  | KLocked => tick st
  | KWrote k f => kill_wrote st e k f
  | KLogged j => if Nat.leb (length (ei_outs (g_edge g e))) j then run_edge cmd g st e
                 else kill_logged st e j
  end.

(* ------------------------------------------------------------------ one killed invocation *)
(* statement e is started when its turn comes (the test of HistDefs.build_step) *)
Definition starts (p : plan) (stk : hstate) (e : edge) : bool :=
  want_start p e && negb (ei_phony (g_edge g e)) && dirty_now g stk e.

(* the state, and when the kill hit a started statement: which, where, and (GHOST, for the
   theorems) the state it was started in *)
Definition kacc := (hstate * option (edge * crash_at * hstate))%type.

Definition buildK_at (p : plan) (st : hstate) (cp : crash_point) : kacc :=
  let e := cp_pos cp in
  if Nat.ltb e (g_nedges g) then
    let stk := build_upto cmd g p e st in
    if starts p stk e then (kill_edge stk e (cp_at cp), Some (e, cp_at cp, stk)) else (stk, None)
  else (build_upto cmd g p (g_nedges g) st, None).

(* None: ninja refuses (missing source, cycle): nothing is run *)
Definition buildK_full (st : hstate) (targets : list node) (cp : crash_point) : option kacc :=
  match scan (graph_of g st) (world_of st) targets with
  | ScanOk _ p => Some (buildK_at p st cp)
  | _ => None
  end.

Definition buildK (st : hstate) (targets : list node) (cp : crash_point) : option hstate :=
  match buildK_full st targets cp with Some (st', _) => Some st' | None => None end.

(* ------------------------------------------------------------------ one interrupted invocation *)
(* Builder::Cleanup for one active edge: every output whose mtime now differs from the mtime the
   scan recorded ([sc] = the state the invocation was started in) is removed *)
Definition cleanup_out (sc st : hstate) (o : node) : hstate :=
  if Z.eqb (mtime_of sc o) (mtime_of st o) then st else delete_file st o.
Definition cleanup_outs (sc : hstate) (os : list node) (st : hstate) : hstate :=
  fold_left (cleanup_out sc) os st.

Definition intr_edge (sc stk : hstate) (e : edge) (k : nat) (f : node -> content) : hstate :=
  cleanup_outs sc (ei_outs (g_edge g e)) (kill_wrote stk e k f).

Definition iacc := (hstate * option (edge * hstate))%type.

Definition buildI_at (p : plan) (st : hstate) (ip : intr_point) : iacc :=
  let e := ip_pos ip in
  if Nat.ltb e (g_nedges g) then
    let stk := build_upto cmd g p e st in
    if starts p stk e then (intr_edge st stk e (ip_k ip) (ip_f ip), Some (e, stk))
    else (build_upto cmd g p (g_nedges g) st, None)
  else (build_upto cmd g p (g_nedges g) st, None).

Definition buildI_full (st : hstate) (targets : list node) (ip : intr_point) : option iacc :=
  match scan (graph_of g st) (world_of st) targets with
  | ScanOk _ p => Some (buildI_at p st ip)
  | _ => None
  end.

(* the new state and ninja's exit status *)
Definition buildI (st : hstate) (targets : list node) (ip : intr_point) : option (hstate * N) :=
  match buildI_full st targets ip with
  | Some (st', Some _) => Some (st', exit_interrupted)
  | Some (st', None) => Some (st', exit_success)
  | None => None
  end.

(* ------------------------------------------------------------------ histories *)
Definition kstep_ok (s : kstep) : bool :=
  match s with KStep s => fstep_ok g s | _ => true end.
Definition khist_ok (h : list kstep) : bool := forallb kstep_ok h.

Definition apply_kstep (st : hstate) (s : kstep) : hstate :=
  match s with
  | KStep s => apply_fstep cmd g st s
  | BuildK targets cp => match buildK st targets cp with Some st' => st' | None => st end
  | BuildI targets ip => match buildI st targets ip with Some (st', _) => st' | None => st end
  end.

Definition run_khist (st : hstate) (h : list kstep) : hstate := fold_left apply_kstep h st.

(* the invariant of all histories with failures, kills and interrupts is HistFailDefs.GoodF *)
Definition GoodK : hstate -> Prop := GoodF cmd g.

(* ------------------------------------------------------------------ benign kills *)
(* the outputs a kill leaves without a fresh log entry although the command touched them; judged in
   the state [stk] in which the command was started *)
Definition kill_benign (stk : hstate) (e : edge) (a : crash_at) : bool :=
  match a with
  | KBefore | KLocked => true
  | KWrote k _ => forallb (stale_entryb g false stk e) (firstn k (ei_outs (g_edge g e)))
  | KLogged j =>
    forallb (fun o => same_hash_entry stk (h_hash stk e) o || stale_entryb g false stk e o)
            (unlogged_outs e j)
  end.

Definition benign_kstep (st : hstate) (s : kstep) : bool :=
  match s with
  | KStep s => benign_step cmd g st s
  | BuildK targets cp =>
    match buildK_full st targets cp with
    | Some (_, Some (e, a, stk)) => kill_benign stk e a
    | _ => true
    end
  | BuildI _ _ => true                 (* Cleanup removes what the interrupted command modified *)
  end.

Fixpoint khist_benign (st : hstate) (h : list kstep) : bool :=
  match h with
  | [] => true
  | s :: h' => benign_kstep st s && khist_benign (apply_kstep st s) h'
  end.

(* histories in which no command leaves a written file behind without recording it: no kills, no
   FailWrote (interrupts, FailUntouched, FailDeleted are allowed) *)
Definition clean_stop (s : kstep) : bool :=
  match s with
  | KStep s => no_wrote s
  | BuildK _ _ => false
  | BuildI _ _ => true
  end.

(* ------------------------------------------------------------------ the weakest hypothesis *)
(* ninja's dirty test is per STATEMENT: a statement runs as soon as ONE of its outputs is dirty, and
   then rewrites all of them.  So a half-written output is taken for up to date only if NO output of
   its statement gives a reason to run that lasts until the statement's turn comes: a stale log entry
   (HistFailDefs.StaleEntry), or -- [wh], for the invocation that starts in this state -- an output
   that is missing. *)
Definition StmtReason (wh : bool) (st : hstate) (e : edge) : Prop :=
  exists o, In o (ei_outs (g_edge g e)) /\
            (StaleEntry g wh st e o \/ (wh = true /\ h_disk st o = None)).

Definition stmt_reasonb (wh : bool) (st : hstate) (e : edge) : bool :=
  existsb (fun o => stale_entryb g wh st e o || (wh && negb (is_some (h_disk st o))))
          (ei_outs (g_edge g e)).

Definition TaintOkS (wh : bool) (st : hstate) : Prop :=
  forall e o, ei_phony (g_edge g e) = false -> In o (ei_outs (g_edge g e)) ->
              tainted st o = true -> StmtReason wh st e.

Definition taint_okSb (wh : bool) (st : hstate) : bool :=
  edges_all g (fun e =>
    ei_phony (g_edge g e)
    || negb (existsb (tainted st) (ei_outs (g_edge g e)))
    || stmt_reasonb wh st e).

(* THE hypothesis of recovery, a boolean on the state in which ninja is started; implied by
   HistFailDefs.taint_safe (which asks a stale entry of every tainted output itself) *)
Definition taint_safe_stmt (st : hstate) : bool := taint_okSb true st.

(* the outputs of the killed statement that did not get a new log entry *)
Definition unrecorded_outs (e : edge) (a : crash_at) : list node :=
  match a with
  | KLogged j => unlogged_outs e j
  | _ => ei_outs (g_edge g e)
  end.

End ModelK.

(* ================================================================== a project with a two-output
   statement and a restat statement *)
(* nodes: 0 a.src  1 b.src  2 gen.h  3 x.o  4 x.map  5 app  6 all
     e0  build gen.h      : halve a.src          restat = 1
     e1  build x.o x.map  : cc b.src | gen.h     (two outputs)
     e2  build app        : link x.o x.map
     e3  build all        : phony app                                                    *)
Module ExK.
Definition e0 := mkEdge [0%nat] 0 0 [2%nat] [] false true false DepsNone 100.
Definition e1 := mkEdge [1%nat; 2%nat] 1 0 [3%nat; 4%nat] [] false false false DepsNone 101.
Definition e2 := mkEdge [3%nat; 4%nat] 0 0 [5%nat] [] false false false DepsNone 102.
Definition e3 := mkEdge [5%nat] 0 0 [6%nat] [] true false false DepsNone 0.

Definition g : graph :=
  mkGraph 4
    (fun e => match e with 0%nat => e0 | 1%nat => e1 | 2%nat => e2 | 3%nat => e3 | _ => Ex.dummy end)
    (fun n => match n with 2%nat => Some 0%nat | 3%nat => Some 1%nat | 4%nat => Some 1%nat
                         | 5%nat => Some 2%nat | 6%nat => Some 3%nat | _ => None end)
    (fun _ => false).

Definition cmd := Ex.cmd.           (* gen.h = a.src / 2; the others hash everything they read *)
Definition st0 := init_hstate g.
Definition T : list node := [6%nat].
Definition garbage : node -> content := fun o => (900 + N.of_nat o)%N.

Definition contents (st : hstate) : list (option content) :=
  map (content_of st) [0; 1; 2; 3; 4; 5; 6]%nat.
Definition cleans (st : hstate) : list (option content) :=
  map (clean_of cmd g st) [0; 1; 2; 3; 4; 5; 6]%nat.
Definition blogs (st : hstate) : list (option (N * Z)) := map (h_blog st) [2; 3; 4; 5]%nat.
Definition taints (st : hstate) : list bool := map (tainted st) [2; 3; 4; 5]%nat.

Example frag_ok : frag_AB g && topo_ordered g && no_inputless_phony g = true.
Proof. vm_compute. reflexivity. Qed.

(* a full build, then b.src is edited: e1 and e2 have to run again *)
Definition pre : list kstep :=
  map (fun s => KStep (Plain s)) [Edit 0 10; Edit 1 20; Build T; Edit 1 21].
Definition st4 := run_khist cmd g st0 pre.

Example pre_ok : khist_ok g pre = true /\ h_trace st4 = [2; 1; 0]%nat /\ contents st4 <> cleans st4.
Proof. vm_compute. repeat split; try reflexivity. discriminate. Qed.

(* ---- kill 1: while the compile runs, x.o half written, x.map not yet touched *)
Definition cp1 := mkCP 1 (KWrote 1 garbage).
Definition k1 := apply_kstep cmd g st4 (BuildK T cp1).
Definition r1 := apply_kstep cmd g k1 (KStep (Plain (Build T))).
Example kill1 :
  content_of k1 3%nat = Some 903%N /\ content_of k1 4%nat = content_of st4 4%nat /\
  blogs k1 = blogs st4 /\ taints k1 = [false; true; false; false] /\
  h_trace k1 = [1; 2; 1; 0]%nat /\
  benign_kstep cmd g st4 (BuildK T cp1) = true /\ taint_safe g k1 = true /\
  h_trace r1 = [2; 1; 1; 2; 1; 0]%nat /\ contents r1 = cleans r1 /\ taints r1 = [false; false; false; false] /\
  apply_kstep cmd g r1 (KStep (Plain (Build T))) = r1.
Proof. vm_compute. repeat split; reflexivity. Qed.

(* ---- kill 2: the compile has finished, RecordCommand has written the entry of x.o, not that of
        x.map: x.o has the new entry, x.map the old one (older than b.src); the next build runs
        the compile again although x.o looks clean *)
Definition cp2 := mkCP 1 (KLogged 1).
Definition k2 := apply_kstep cmd g st4 (BuildK T cp2).
Definition r2 := apply_kstep cmd g k2 (KStep (Plain (Build T))).
Example kill2 :
  h_blog st4 3%nat = Some (101%N, 5) /\ h_blog st4 4%nat = Some (101%N, 5) /\
  h_blog k2 3%nat = Some (101%N, 11) /\ h_blog k2 4%nat = Some (101%N, 5) /\
  content_of k2 3%nat = clean_of cmd g k2 3%nat /\ content_of k2 4%nat = clean_of cmd g k2 4%nat /\
  taints k2 = [false; false; false; false] /\
  benign_kstep cmd g st4 (BuildK T cp2) = true /\
  h_trace r2 = [2; 1; 1; 2; 1; 0]%nat /\ contents r2 = cleans r2.
Proof. vm_compute. repeat split; reflexivity. Qed.

(* ---- kill 2 again: the re-run of the compile is killed when BOTH outputs are half written.  x.o
        holds garbage under its NEW, valid entry: the per-output hypothesis [taint_safe] fails, but
        x.map's entry is still older than b.src, the statement has a reason to run
        ([taint_safe_stmt]), and the next build repairs both *)
Definition k2b := apply_kstep cmd g k2 (BuildK T (mkCP 1 (KWrote 2 garbage))).
Definition r2b := apply_kstep cmd g k2b (KStep (Plain (Build T))).
Example kill2_again :
  content_of k2b 3%nat = Some 903%N /\ content_of k2b 4%nat = Some 904%N /\
  taints k2b = [false; true; true; false] /\
  taint_safe g k2b = false /\ taint_safe_stmt g k2b = true /\
  contents r2b = cleans r2b /\ taints r2b = [false; false; false; false].
Proof. vm_compute. repeat split; reflexivity. Qed.

(* ---- kill 3: a.src is edited so that gen.h does NOT change; the restat command is killed after
        it finished and before its log entry: gen.h is untouched, its old entry is older than
        a.src; the next build runs it again, prunes the rest *)
Definition st5 := apply_kstep cmd g r1 (KStep (Plain (Edit 0 11))).
Definition cp3 := mkCP 0 KWritten.
Definition k3 := apply_kstep cmd g st5 (BuildK T cp3).
Definition r3 := apply_kstep cmd g k3 (KStep (Plain (Build T))).
Example kill3 :
  h_disk k3 2%nat = h_disk st5 2%nat /\ blogs k3 = blogs st5 /\
  h_trace k3 = 0%nat :: h_trace st5 /\ taints k3 = [false; false; false; false] /\
  h_trace r3 = 0%nat :: h_trace k3 /\ contents r3 = cleans r3.
Proof. vm_compute. repeat split; reflexivity. Qed.

(* ---- kills between statements and before the command is spawned *)
Example kill_between :
  apply_kstep cmd g st4 (BuildK T (mkCP 0 (KWrote 1 garbage))) = st4 /\     (* e0 is clean: not started *)
  apply_kstep cmd g st4 (BuildK T (mkCP 1 KBefore)) = st4 /\
  h_trace (apply_kstep cmd g st4 (BuildK T (mkCP 2 KBefore))) = [1; 2; 1; 0]%nat /\
  h_clock (apply_kstep cmd g st4 (BuildK T (mkCP 1 KLocked))) = h_clock st4 + 1 /\
  apply_kstep cmd g st4 (BuildK T (mkCP 1 (KLogged 2))) = apply_kstep cmd g st4 (BuildK T (mkCP 2 KBefore)) /\
  apply_kstep cmd g st4 (BuildK T (mkCP 4 KBefore)) = apply_kstep cmd g st4 (KStep (Plain (Build T))).
Proof. vm_compute. repeat split; reflexivity. Qed.

(* ---- interrupt: the compile has rewritten x.o and is interrupted: Cleanup removes x.o (modified)
        and keeps x.map (not modified); exit status 130; no log entry; the next build repairs *)
Definition ip1 := mkIP 1 1 garbage.
Definition i1 := apply_kstep cmd g st4 (BuildI T ip1).
Definition ri1 := apply_kstep cmd g i1 (KStep (Plain (Build T))).
Example interrupt1 :
  (match buildI cmd g st4 T ip1 with Some (st', code) => st' = i1 /\ code = 130%N | None => False end) /\
  content_of i1 3%nat = None /\ h_disk i1 4%nat = h_disk st4 4%nat /\ blogs i1 = blogs st4 /\
  taints i1 = [false; false; false; false] /\ h_trace i1 = [1; 2; 1; 0]%nat /\
  h_trace ri1 = [2; 1; 1; 2; 1; 0]%nat /\ contents ri1 = cleans ri1.
Proof. vm_compute. repeat split; reflexivity. Qed.

(* an interrupt point at a statement that is not started: not noticed there, the invocation is [build] *)
Example interrupt_not_noticed :
  buildI cmd g st4 T (mkIP 0 1 garbage) =
  match build cmd g st4 T with Some st' => Some (st', 0%N) | None => None end.
Proof. vm_compute. reflexivity. Qed.
End ExK.

(* ================================================================== the kill variant of the listed
   finding failed-cmd-rewrote-output:   build out : cc src      (HistFailDefs.ExFail.g)   *)
Module ExKill.
Definition g := ExFail.g.
Definition garbage := ExFail.garbage.

(* src appears, a successful build, out is deleted, the command is run again and ninja is KILLED
   when out is half written; then ninja is run once more *)
Definition hist4 : list kstep :=
  [KStep (Plain (Edit 0 5)); KStep (Plain (Build [1%nat])); KStep (Plain (Delete 1));
   BuildK [1%nat] (mkCP 0 (KWrote 1 garbage))].
Definition st3 := run_khist Ex.cmd g (init_hstate g) (firstn 3 hist4).
Definition st4 := run_khist Ex.cmd g (init_hstate g) hist4.

(* the old entry (7, 2) is still there and still validates: src (mtime 1) is not newer *)
Example killed_invocation :
  khist_ok g hist4 = true /\
  h_blog st4 1%nat = Some (7%N, 2) /\ h_disk st4 1%nat = Some (5, 999%N) /\
  tainted st4 1%nat = true /\ taint_safe g st4 = false /\
  khist_benign Ex.cmd g (init_hstate g) hist4 = false.
Proof. vm_compute. repeat split; reflexivity. Qed.

(* the next invocation: accepted, runs nothing, "no work to do", with the half-written file *)
Example next_invocation_idle :
  build Ex.cmd g st4 [1%nat] = Some st4 /\
  content_of st4 1%nat = Some 999%N /\ clean_of Ex.cmd g st4 1%nat = Some 2%N.
Proof. vm_compute. repeat split; reflexivity. Qed.

(* the same kill AFTER the command finished (before the log entry): the file is complete, the old
   entry describes it correctly: not tainted, the idle next invocation is right *)
Definition hist4w : list kstep := firstn 3 hist4 ++ [BuildK [1%nat] (mkCP 0 KWritten)].
Example killed_after_write_is_harmless :
  let st := run_khist Ex.cmd g (init_hstate g) hist4w in
  tainted st 1%nat = false /\ taint_safe g st = true /\ khist_benign Ex.cmd g (init_hstate g) hist4w = true /\
  build Ex.cmd g st [1%nat] = Some st /\ content_of st 1%nat = clean_of Ex.cmd g st 1%nat.
Proof. vm_compute. repeat split; reflexivity. Qed.

(* the same with an INTERRUPT instead of the kill: Cleanup removes out, the next invocation
   rebuilds it *)
Definition hist4i : list kstep := firstn 3 hist4 ++ [BuildI [1%nat] (mkIP 0 1 garbage)].
Example interrupted_is_repaired :
  let st := run_khist Ex.cmd g (init_hstate g) hist4i in
  let st' := apply_kstep Ex.cmd g st (KStep (Plain (Build [1%nat]))) in
  h_disk st 1%nat = None /\ h_trace st' = [0; 0; 0]%nat /\
  content_of st' 1%nat = clean_of Ex.cmd g st' 1%nat.
Proof. vm_compute. repeat split; reflexivity. Qed.

(* the kill when the command was dirty because src was EDITED: the old entry is older than src,
   the half-written file is not validated, the next invocation repairs it *)
Definition hist_edit : list kstep :=
  [KStep (Plain (Edit 0 5)); KStep (Plain (Build [1%nat])); KStep (Plain (Edit 0 6));
   BuildK [1%nat] (mkCP 0 (KWrote 1 garbage)); KStep (Plain (Build [1%nat]))].
Example killed_after_edit_recovers :
  let a := run_khist Ex.cmd g (init_hstate g) (firstn 4 hist_edit) in
  let b := run_khist Ex.cmd g (init_hstate g) hist_edit in
  tainted a 1%nat = true /\ taint_safe g a = true /\
  khist_benign Ex.cmd g (init_hstate g) hist_edit = true /\
  h_trace b = [0; 0; 0]%nat /\ content_of b 1%nat = clean_of Ex.cmd g b 1%nat.
Proof. vm_compute. repeat split; reflexivity. Qed.
(* variant 2: the command line is changed, the new command is killed when out is half written, the
   change is taken back: the OLD entry has the right hash again.  Right after the kill the state is
   [taint_safe] (the hash differs) but not [taint_robust] *)
Definition hist_setcmd : list kstep :=
  [KStep (Plain (Edit 0 5)); KStep (Plain (Build [1%nat])); KStep (Plain (SetCmd 0 8));
   BuildK [1%nat] (mkCP 0 (KWrote 1 garbage)); KStep (Plain (SetCmd 0 7)); KStep (Plain (Build [1%nat]))].
Example setcmd_variant :
  let a := run_khist Ex.cmd g (init_hstate g) (firstn 4 hist_setcmd) in
  let b := run_khist Ex.cmd g (init_hstate g) hist_setcmd in
  taint_safe g a = true /\ taint_robust g a = false /\
  khist_benign Ex.cmd g (init_hstate g) hist_setcmd = false /\
  h_trace b = [0; 0]%nat /\ content_of b 1%nat = Some 999%N /\ clean_of Ex.cmd g b 1%nat = Some 2%N.
Proof. vm_compute. repeat split; reflexivity. Qed.

(* a first build (no log entry yet) can be killed anywhere: always benign for a non-generator rule *)
Definition hist_first : list kstep :=
  [KStep (Plain (Edit 0 5)); BuildK [1%nat] (mkCP 0 (KWrote 1 garbage)); KStep (Plain (Build [1%nat]))].
Example first_build_killed_recovers :
  let b := run_khist Ex.cmd g (init_hstate g) hist_first in
  khist_benign Ex.cmd g (init_hstate g) hist_first = true /\
  h_trace b = [0; 0]%nat /\ content_of b 1%nat = clean_of Ex.cmd g b 1%nat.
Proof. vm_compute. repeat split; reflexivity. Qed.
End ExKill.
