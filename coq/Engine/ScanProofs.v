(* Proofs about the scan model (ScanDefs.v).  No axioms.
   Part 1: frame facts of the local steps and of successful visits ([ext]).
   Part 2: C17 soundness (a reported cycle is a closed walk).
   Part 3: fuel sufficiency / termination.
   Part 4: C17 completeness (ranking of the Done edges) and absence of false positives.
   Part 5: the declarative specification of the dirty flags (ScanSpec.v) and the C03/C10 facts. *)
From NinjaV Require Import Base.Bytes Engine.ScanDefs Engine.ScanSpec.
Local Open Scope nat_scope.

(* ------------------------------------------------------------------ generic: visit_all *)
Definition is_err {A : Type} (r : sres A) : Prop := match r with SOk _ => False | _ => True end.

(* a failing run fails in the visit of one element, started in a state satisfying the invariant *)
Lemma visit_all_err {A : Type} (P : A -> Prop) (visit : node -> A -> sres A) :
  forall (l : list node) (a : A) (r : sres A),
    (forall i a0 a1, In i l -> P a0 -> visit i a0 = SOk a1 -> P a1) ->
    P a -> visit_all visit l a = r -> is_err r ->
    exists i a0, In i l /\ P a0 /\ visit i a0 = r.
Proof.
  induction l as [|x l IH]; intros a r Hstep Ha Hv Hr; cbn [visit_all] in Hv.
  - subst r. destruct Hr.
  - destruct (visit x a) as [a1|p|e|] eqn:Hx.
    + destruct (IH a1 r) as [i [a0 [Hi [Pa0 Hvi]]]].
      * intros i a0 a2 Hi. apply Hstep. right; exact Hi.
      * apply (Hstep x a a1); [left; reflexivity|exact Ha|exact Hx].
      * exact Hv.
      * exact Hr.
      * exists i, a0. split; [right; exact Hi|]. split; assumption.
    + exists x, a. split; [left; reflexivity|]. split; [exact Ha|]. rewrite Hx; exact Hv.
    + exists x, a. split; [left; reflexivity|]. split; [exact Ha|]. rewrite Hx; exact Hv.
    + exists x, a. split; [left; reflexivity|]. split; [exact Ha|]. rewrite Hx; exact Hv.
Qed.

(* successful run: relation [R] between the states, postcondition [Q i] for every visited [i] *)
Lemma visit_all_rel {A : Type} (P : A -> Prop) (R : A -> A -> Prop) (Q : node -> A -> Prop)
      (visit : node -> A -> sres A) :
  (forall a, R a a) -> (forall a b c, R a b -> R b c -> R a c) ->
  (forall i a0 a1, R a0 a1 -> Q i a0 -> Q i a1) ->
  forall (l : list node),
    (forall i a0 a1, In i l -> P a0 -> visit i a0 = SOk a1 -> P a1 /\ R a0 a1 /\ Q i a1) ->
    forall a a', P a -> visit_all visit l a = SOk a' ->
                 P a' /\ R a a' /\ forall i, In i l -> Q i a'.
Proof.
  intros Rrefl Rtrans Qstable.
  induction l as [|x l IH]; intros Hstep a a' Ha Hv; cbn [visit_all] in Hv.
  - inversion Hv; subst. split; [exact Ha|]. split; [apply Rrefl|]. intros i [].
  - destruct (visit x a) as [a1|p|e|] eqn:Hx; try discriminate.
    destruct (Hstep x a a1 (or_introl eq_refl) Ha Hx) as [Pa1 [Raa1 Qx]].
    destruct (IH (fun i a0 a2 Hi => Hstep i a0 a2 (or_intror Hi)) a1 a' Pa1 Hv)
      as [Pa' [Ra1a' Qrest]].
    split; [exact Pa'|]. split; [apply (Rtrans a a1 a'); assumption|].
    intros i [<-|Hi]; [|apply Qrest; exact Hi].
    apply (Qstable x a1 a'); assumption.
Qed.

(* ================================================================== Part 1: frames *)
Section Proofs.
Variable g : graph.
Variable w : world.

Notation mark_of s e := (es_mark (st_edge s e)).
Notation ins_of s e := (es_ins (st_edge s e)).
Notation rnd := (recompute_node_dirty g w).

(* ---- node-only steps leave the edge map alone *)
Lemma st_edge_stat_if_necessary s n : st_edge (stat_if_necessary w s n) = st_edge s.
Proof. unfold stat_if_necessary. destruct (n_known (st_node s n)); reflexivity. Qed.

Lemma st_edge_update_phony_mtime s n m : st_edge (update_phony_mtime s n m) = st_edge s.
Proof. unfold update_phony_mtime. destruct (n_exists (st_node s n)); reflexivity. Qed.

Lemma st_edge_set_dirty s n d : st_edge (set_dirty s n d) = st_edge s.
Proof. reflexivity. Qed.

Lemma st_edge_mark_outputs_dirty outs : forall s, st_edge (mark_outputs_dirty s outs) = st_edge s.
Proof.
  unfold mark_outputs_dirty. induction outs as [|o outs IH]; intros s; cbn [fold_left].
  - reflexivity.
  - rewrite IH. reflexivity.
Qed.

Lemma st_edge_stat_outputs outs : forall s, st_edge (stat_outputs w s outs) = st_edge s.
Proof.
  unfold stat_outputs. induction outs as [|o outs IH]; intros s; cbn [fold_left].
  - reflexivity.
  - rewrite IH. apply st_edge_stat_if_necessary.
Qed.

Lemma st_edge_phony_output_dirty e o mri s :
  st_edge (snd (phony_output_dirty g e o mri s)) = st_edge s.
Proof.
  unfold phony_output_dirty.
  destruct (_ && _ && _); cbn [snd]; [reflexivity|].
  destruct mri as [m|]; cbn [snd]; [apply st_edge_update_phony_mtime|reflexivity].
Qed.

Lemma st_edge_outputs_dirty_all e mri outs : forall s,
  st_edge (snd (outputs_dirty_all g w e outs mri s)) = st_edge s.
Proof.
  induction outs as [|o outs IH]; intros s; cbn [outputs_dirty_all].
  - reflexivity.
  - destruct (ei_phony (g_edge g e)).
    + pose proof (st_edge_phony_output_dirty e o mri s) as Hp.
      destruct (phony_output_dirty g e o mri s) as [d s1]; cbn [snd] in Hp.
      destruct d; cbn [snd]; [exact Hp|]. rewrite IH. exact Hp.
    + destruct (output_dirty_first g w e o (mri_mtime s mri) s); cbn [snd]; [reflexivity|apply IH].
Qed.

(* ---- edge updates *)
Lemma upd_edge_same s e v : st_edge (upd_edge s e v) e = v.
Proof. cbn [upd_edge st_edge]. rewrite Nat.eqb_refl. reflexivity. Qed.

Lemma upd_edge_other s e v e' : e' <> e -> st_edge (upd_edge s e v) e' = st_edge s e'.
Proof.
  intros Hne. cbn [upd_edge st_edge].
  destruct (Nat.eqb_spec e' e) as [->|_]; [contradiction|reflexivity].
Qed.

(* a local step of the frame of [e]: other edges untouched, mark and inputs of [e] kept *)
Definition local (e : edge) (s s' : sstate) : Prop :=
  (forall e', e' <> e -> st_edge s' e' = st_edge s e') /\
  mark_of s' e = mark_of s e /\ ins_of s' e = ins_of s e.

Lemma local_refl e s : local e s s.
Proof. split; [reflexivity|]. split; reflexivity. Qed.

Lemma local_trans e a b c : local e a b -> local e b c -> local e a c.
Proof.
  intros [H1 [H2 H3]] [K1 [K2 K3]]. split; [|split].
  - intros e' Hne. rewrite (K1 e' Hne). apply H1; exact Hne.
  - rewrite K2; exact H2.
  - rewrite K3; exact H3.
Qed.

Lemma local_of_edge_eq e s s' : st_edge s' = st_edge s -> local e s s'.
Proof. intros H. unfold local. rewrite H. split; [reflexivity|]. split; reflexivity. Qed.

Lemma local_set_ready e s r : local e s (set_ready s e r).
Proof.
  unfold set_ready. split; [|split].
  - intros e' Hne. apply upd_edge_other; exact Hne.
  - rewrite upd_edge_same. reflexivity.
  - rewrite upd_edge_same. reflexivity.
Qed.

Lemma local_set_deps_missing e s b : local e s (set_deps_missing s e b).
Proof.
  unfold set_deps_missing. split; [|split].
  - intros e' Hne. apply upd_edge_other; exact Hne.
  - rewrite upd_edge_same. reflexivity.
  - rewrite upd_edge_same. reflexivity.
Qed.

Lemma local_eval_inputs e l : forall idx s mri d s' mri' d',
  eval_inputs g e l idx s mri d = (s', mri', d') -> local e s s'.
Proof.
  induction l as [|i l IH]; intros idx s mri d s' mri' d' H; cbn [eval_inputs] in H.
  - inversion H; subst. apply local_refl.
  - set (s1 := match g_producer g i with
               | Some ie => if es_ready (st_edge s ie) then s else set_ready s e false
               | None => s end) in *.
    assert (L1 : local e s s1).
    { subst s1. destruct (g_producer g i) as [ie|]; [|apply local_refl].
      destruct (es_ready (st_edge s ie)); [apply local_refl|apply local_set_ready]. }
    destruct (is_order_only _ _ _).
    + apply (local_trans e s s1 s' L1). eapply IH; exact H.
    + destruct (ns_dirty (st_node s1 i)); apply (local_trans e s s1 s' L1); eapply IH; exact H.
Qed.

Lemma st_node_eval_inputs e l : forall idx s mri d s' mri' d',
  eval_inputs g e l idx s mri d = (s', mri', d') -> st_node s' = st_node s.
Proof.
  induction l as [|i l IH]; intros idx s mri d s' mri' d' H; cbn [eval_inputs] in H.
  - inversion H; subst. reflexivity.
  - set (s1 := match g_producer g i with
               | Some ie => if es_ready (st_edge s ie) then s else set_ready s e false
               | None => s end) in *.
    assert (L1 : st_node s1 = st_node s).
    { subst s1. destruct (g_producer g i) as [ie|]; [|reflexivity].
      destruct (es_ready (st_edge s ie)); reflexivity. }
    destruct (is_order_only _ _ _).
    + rewrite <- L1. eapply IH; exact H.
    + destruct (ns_dirty (st_node s1 i)); rewrite <- L1; eapply IH; exact H.
Qed.

Lemma enter_edge_props e s :
  (forall e', e' <> e -> st_edge (enter_edge s e) e' = st_edge s e') /\
  mark_of (enter_edge s e) e = VisitInStack /\ ins_of (enter_edge s e) e = ins_of s e.
Proof.
  unfold enter_edge. split; [|split].
  - intros e' Hne. apply upd_edge_other; exact Hne.
  - rewrite upd_edge_same. reflexivity.
  - rewrite upd_edge_same. reflexivity.
Qed.

Lemma finish_edge_props e s d :
  (forall e', e' <> e -> st_edge (finish_edge g s e d) e' = st_edge s e') /\
  mark_of (finish_edge g s e d) e = VisitDone /\ ins_of (finish_edge g s e d) e = ins_of s e.
Proof.
  unfold finish_edge.
  set (s1 := if d then mark_outputs_dirty s (edge_outs g e) else s).
  assert (E1 : st_edge s1 = st_edge s).
  { subst s1. destruct d; [apply st_edge_mark_outputs_dirty|reflexivity]. }
  set (s2 := if _ then set_ready s1 e false else s1).
  assert (L2 : local e s1 s2).
  { subst s2. destruct (_ && _); [apply local_set_ready|apply local_refl]. }
  destruct L2 as [L2a [L2b L2c]].
  unfold set_mark. split; [|split].
  - intros e' Hne. rewrite upd_edge_other by exact Hne. rewrite (L2a e' Hne), E1. reflexivity.
  - rewrite upd_edge_same. reflexivity.
  - rewrite upd_edge_same. cbn [es_ins]. rewrite L2c, E1. reflexivity.
Qed.

Lemma splice_deps_props e s new_ins :
  (forall e', e' <> e -> st_edge (splice_deps g s e new_ins) e' = st_edge s e') /\
  mark_of (splice_deps g s e new_ins) e = mark_of s e /\
  ins_of (splice_deps g s e new_ins) e = splice (ins_of s e) (ei_noo (g_edge g e)) new_ins.
Proof.
  unfold splice_deps, set_ins. split; [|split].
  - intros e' Hne. apply upd_edge_other; exact Hne.
  - rewrite upd_edge_same. reflexivity.
  - rewrite upd_edge_same. reflexivity.
Qed.

Lemma in_splice x ins noo new_ins : In x (splice ins noo new_ins) <-> In x ins \/ In x new_ins.
Proof.
  unfold splice. rewrite !in_app_iff.
  rewrite <- (firstn_skipn (length ins - noo) ins) at 3. rewrite in_app_iff. tauto.
Qed.

(* ---- what a successful visit may change: only edges that were unmarked, and those end Done *)
Definition clause (s s' : sstate) (e : edge) : Prop :=
  match mark_of s e with
  | VisitNone => st_edge s' e = st_edge s e \/ mark_of s' e = VisitDone
  | _ => st_edge s' e = st_edge s e
  end.
Definition ext (s s' : sstate) : Prop := forall e, clause s s' e.

Lemma clause_of_eq s s' e : st_edge s' e = st_edge s e -> clause s s' e.
Proof. intros H. unfold clause. destruct (mark_of s e); auto. Qed.

Lemma clause_trans a b c e : clause a b e -> clause b c e -> clause a c e.
Proof.
  unfold clause. intros H K.
  destruct (mark_of a e) eqn:Ma.
  - destruct H as [H|H].
    + rewrite H in K. rewrite Ma in K. destruct K as [K|K]; [left; congruence|right; exact K].
    + rewrite H in K. right. rewrite K. exact H.
  - rewrite H in K. rewrite Ma in K. congruence.
  - rewrite H in K. rewrite Ma in K. congruence.
Qed.

Lemma ext_refl s : ext s s.
Proof. intros e. apply clause_of_eq. reflexivity. Qed.

Lemma ext_trans a b c : ext a b -> ext b c -> ext a c.
Proof. intros H K e. apply (clause_trans a b c e); [apply H|apply K]. Qed.

Lemma ext_of_edge_eq s s' : st_edge s' = st_edge s -> ext s s'.
Proof. intros H e. apply clause_of_eq. rewrite H. reflexivity. Qed.

Lemma ext_marked s s' e : ext s s' -> mark_of s e <> VisitNone -> st_edge s' e = st_edge s e.
Proof. intros H Hm. specialize (H e). unfold clause in H. destruct (mark_of s e); [congruence|exact H|exact H]. Qed.

Lemma ext_done s s' e : ext s s' -> mark_of s e = VisitDone -> mark_of s' e = VisitDone.
Proof. intros H Hm. rewrite (ext_marked s s' e H); [exact Hm|congruence]. Qed.

Lemma ext_instack_iff s s' e : ext s s' -> (mark_of s' e = VisitInStack <-> mark_of s e = VisitInStack).
Proof.
  intros H. specialize (H e). unfold clause in H.
  destruct (mark_of s e) eqn:Ms.
  - destruct H as [H|H]; [rewrite H, Ms; tauto|rewrite H; split; discriminate].
  - rewrite H, Ms. tauto.
  - rewrite H, Ms. tauto.
Qed.

(* the frame of [e0] (which stays InStack): everything else evolves as in [ext] *)
Definition frame (e0 : edge) (s s' : sstate) : Prop :=
  (forall e, e <> e0 -> clause s s' e) /\ mark_of s' e0 = mark_of s e0.

Lemma frame_trans e0 a b c : frame e0 a b -> frame e0 b c -> frame e0 a c.
Proof.
  intros [H1 H2] [K1 K2]. split.
  - intros e Hne. apply (clause_trans a b c e); [apply H1|apply K1]; exact Hne.
  - rewrite K2. exact H2.
Qed.

Lemma frame_of_local e0 s s' : local e0 s s' -> frame e0 s s'.
Proof.
  intros [H1 [H2 _]]. split; [|exact H2].
  intros e Hne. apply clause_of_eq. apply H1; exact Hne.
Qed.

Lemma frame_of_ext e0 s s' : ext s s' -> mark_of s e0 <> VisitNone -> frame e0 s s'.
Proof.
  intros H Hm. split; [intros e _; apply H|].
  rewrite (ext_marked s s' e0 H Hm). reflexivity.
Qed.

End Proofs.
