(* Proofs about the scan model (ScanDefs.v).  No axioms.
   Part 1: frame facts of the local steps and of successful visits ([ext]).
   Part 2: C17 soundness (a reported cycle is a closed walk).
   Part 3: fuel sufficiency / termination.
   Part 4: C17 completeness (ranking of the Done edges) and absence of false positives.
   Part 5: the declarative specification of the dirty flags (ScanSpec.v) and the C03/C10 facts. *)
From NinjaV Require Import Base.Bytes Engine.ScanDefs Engine.ScanSpec.
Local Open Scope nat_scope.

(* ------------------------------------------------------------------ generic: visit_all *)
Definition is_err {A : Type} (r : sres A) : Prop := match r with SOk _ => False | _ => True end.

(* a failing run fails in the visit of one element, started in a state satisfying the invariant *)
Lemma visit_all_err {A : Type} (P : A -> Prop) (visit : node -> A -> sres A) :
  forall (l : list node) (a : A) (r : sres A),
    (forall i a0 a1, In i l -> P a0 -> visit i a0 = SOk a1 -> P a1) ->
    P a -> visit_all visit l a = r -> is_err r ->
    exists i a0, In i l /\ P a0 /\ visit i a0 = r.
Proof.
  induction l as [|x l IH]; intros a r Hstep Ha Hv Hr; cbn [visit_all] in Hv.
  - subst r. destruct Hr.
  - destruct (visit x a) as [a1|p|e|] eqn:Hx.
    + destruct (IH a1 r) as [i [a0 [Hi [Pa0 Hvi]]]].
      * intros i a0 a2 Hi. apply Hstep. right; exact Hi.
      * apply (Hstep x a a1); [left; reflexivity|exact Ha|exact Hx].
      * exact Hv.
      * exact Hr.
      * exists i, a0. split; [right; exact Hi|]. split; assumption.
    + exists x, a. split; [left; reflexivity|]. split; [exact Ha|]. rewrite Hx; exact Hv.
    + exists x, a. split; [left; reflexivity|]. split; [exact Ha|]. rewrite Hx; exact Hv.
    + exists x, a. split; [left; reflexivity|]. split; [exact Ha|]. rewrite Hx; exact Hv.
Qed.

(* successful run: relation [R] between the states, postcondition [Q i] for every visited [i] *)
Lemma visit_all_rel {A : Type} (P : A -> Prop) (R : A -> A -> Prop) (Q : node -> A -> Prop)
      (visit : node -> A -> sres A) :
  (forall a, R a a) -> (forall a b c, R a b -> R b c -> R a c) ->
  (forall i a0 a1, R a0 a1 -> Q i a0 -> Q i a1) ->
  forall (l : list node),
    (forall i a0 a1, In i l -> P a0 -> visit i a0 = SOk a1 -> P a1 /\ R a0 a1 /\ Q i a1) ->
    forall a a', P a -> visit_all visit l a = SOk a' ->
                 P a' /\ R a a' /\ forall i, In i l -> Q i a'.
Proof.
  intros Rrefl Rtrans Qstable.
  induction l as [|x l IH]; intros Hstep a a' Ha Hv; cbn [visit_all] in Hv.
  - inversion Hv; subst. split; [exact Ha|]. split; [apply Rrefl|]. intros i [].
  - destruct (visit x a) as [a1|p|e|] eqn:Hx; try discriminate.
    destruct (Hstep x a a1 (or_introl eq_refl) Ha Hx) as [Pa1 [Raa1 Qx]].
    destruct (IH (fun i a0 a2 Hi => Hstep i a0 a2 (or_intror Hi)) a1 a' Pa1 Hv)
      as [Pa' [Ra1a' Qrest]].
    split; [exact Pa'|]. split; [apply (Rtrans a a1 a'); assumption|].
    intros i [<-|Hi]; [|apply Qrest; exact Hi].
    apply (Qstable x a1 a'); assumption.
Qed.

(* ================================================================== Part 1: frames *)
Section Proofs.
Variable g : graph.
Variable w : world.

Notation mark_of s e := (es_mark (st_edge s e)).
Notation ins_of s e := (es_ins (st_edge s e)).
Notation rnd := (recompute_node_dirty g w).

(* ---- node-only steps leave the edge map alone *)
Lemma st_edge_stat_if_necessary s n : st_edge (stat_if_necessary w s n) = st_edge s.
Proof. unfold stat_if_necessary. destruct (n_known (st_node s n)); reflexivity. Qed.

Lemma st_edge_update_phony_mtime s n m : st_edge (update_phony_mtime s n m) = st_edge s.
Proof. unfold update_phony_mtime. destruct (n_exists (st_node s n)); reflexivity. Qed.

Lemma st_edge_set_dirty s n d : st_edge (set_dirty s n d) = st_edge s.
Proof. reflexivity. Qed.

Lemma st_edge_mark_outputs_dirty outs : forall s, st_edge (mark_outputs_dirty s outs) = st_edge s.
Proof.
  unfold mark_outputs_dirty. induction outs as [|o outs IH]; intros s; cbn [fold_left].
  - reflexivity.
  - rewrite IH. reflexivity.
Qed.

Lemma st_edge_stat_outputs outs : forall s, st_edge (stat_outputs w s outs) = st_edge s.
Proof.
  unfold stat_outputs. induction outs as [|o outs IH]; intros s; cbn [fold_left].
  - reflexivity.
  - rewrite IH. apply st_edge_stat_if_necessary.
Qed.

Lemma st_edge_phony_output_dirty e o mri s :
  st_edge (snd (phony_output_dirty g e o mri s)) = st_edge s.
Proof.
  unfold phony_output_dirty.
  destruct (_ && _ && _); cbn [snd]; [reflexivity|].
  destruct mri as [m|]; cbn [snd]; [apply st_edge_update_phony_mtime|reflexivity].
Qed.

Lemma st_edge_outputs_dirty_all e mri outs : forall s,
  st_edge (snd (outputs_dirty_all g w e outs mri s)) = st_edge s.
Proof.
  induction outs as [|o outs IH]; intros s; cbn [outputs_dirty_all].
  - reflexivity.
  - destruct (ei_phony (g_edge g e)).
    + pose proof (st_edge_phony_output_dirty e o mri s) as Hp.
      destruct (phony_output_dirty g e o mri s) as [d s1]; cbn [snd] in Hp.
      destruct d; cbn [snd]; [exact Hp|]. rewrite IH. exact Hp.
    + destruct (output_dirty_first g w e o (mri_mtime s mri) s); cbn [snd]; [reflexivity|apply IH].
Qed.

(* ---- edge updates *)
Lemma upd_edge_same s e v : st_edge (upd_edge s e v) e = v.
Proof. cbn [upd_edge st_edge]. rewrite Nat.eqb_refl. reflexivity. Qed.

Lemma upd_edge_other s e v e' : e' <> e -> st_edge (upd_edge s e v) e' = st_edge s e'.
Proof.
  intros Hne. cbn [upd_edge st_edge].
  destruct (Nat.eqb_spec e' e) as [->|_]; [contradiction|reflexivity].
Qed.

(* a local step of the frame of [e]: other edges untouched, mark and inputs of [e] kept *)
Definition local (e : edge) (s s' : sstate) : Prop :=
  (forall e', e' <> e -> st_edge s' e' = st_edge s e') /\
  mark_of s' e = mark_of s e /\ ins_of s' e = ins_of s e.

Lemma local_refl e s : local e s s.
Proof. split; [reflexivity|]. split; reflexivity. Qed.

Lemma local_trans e a b c : local e a b -> local e b c -> local e a c.
Proof.
  intros [H1 [H2 H3]] [K1 [K2 K3]]. split; [|split].
  - intros e' Hne. rewrite (K1 e' Hne). apply H1; exact Hne.
  - rewrite K2; exact H2.
  - rewrite K3; exact H3.
Qed.

Lemma local_of_edge_eq e s s' : st_edge s' = st_edge s -> local e s s'.
Proof. intros H. unfold local. rewrite H. split; [reflexivity|]. split; reflexivity. Qed.

Lemma local_set_ready e s r : local e s (set_ready s e r).
Proof.
  unfold set_ready. split; [|split].
  - intros e' Hne. apply upd_edge_other; exact Hne.
  - rewrite upd_edge_same. reflexivity.
  - rewrite upd_edge_same. reflexivity.
Qed.

Lemma local_set_deps_missing e s b : local e s (set_deps_missing s e b).
Proof.
  unfold set_deps_missing. split; [|split].
  - intros e' Hne. apply upd_edge_other; exact Hne.
  - rewrite upd_edge_same. reflexivity.
  - rewrite upd_edge_same. reflexivity.
Qed.

Lemma local_eval_inputs e l : forall idx s mri d s' mri' d',
  eval_inputs g e l idx s mri d = (s', mri', d') -> local e s s'.
Proof.
  induction l as [|i l IH]; intros idx s mri d s' mri' d' H; cbn [eval_inputs] in H.
  - inversion H; subst. apply local_refl.
  - set (s1 := match g_producer g i with
               | Some ie => if es_ready (st_edge s ie) then s else set_ready s e false
               | None => s end) in *.
    assert (L1 : local e s s1).
    { subst s1. destruct (g_producer g i) as [ie|]; [|apply local_refl].
      destruct (es_ready (st_edge s ie)); [apply local_refl|apply local_set_ready]. }
    destruct (is_order_only _ _ _).
    + apply (local_trans e s s1 s' L1). eapply IH; exact H.
    + destruct (ns_dirty (st_node s1 i)); apply (local_trans e s s1 s' L1); eapply IH; exact H.
Qed.

Lemma st_node_eval_inputs e l : forall idx s mri d s' mri' d',
  eval_inputs g e l idx s mri d = (s', mri', d') -> st_node s' = st_node s.
Proof.
  induction l as [|i l IH]; intros idx s mri d s' mri' d' H; cbn [eval_inputs] in H.
  - inversion H; subst. reflexivity.
  - set (s1 := match g_producer g i with
               | Some ie => if es_ready (st_edge s ie) then s else set_ready s e false
               | None => s end) in *.
    assert (L1 : st_node s1 = st_node s).
    { subst s1. destruct (g_producer g i) as [ie|]; [|reflexivity].
      destruct (es_ready (st_edge s ie)); reflexivity. }
    destruct (is_order_only _ _ _).
    + rewrite <- L1. eapply IH; exact H.
    + destruct (ns_dirty (st_node s1 i)); rewrite <- L1; eapply IH; exact H.
Qed.

Lemma enter_edge_props e s :
  (forall e', e' <> e -> st_edge (enter_edge s e) e' = st_edge s e') /\
  mark_of (enter_edge s e) e = VisitInStack /\ ins_of (enter_edge s e) e = ins_of s e.
Proof.
  unfold enter_edge. split; [|split].
  - intros e' Hne. apply upd_edge_other; exact Hne.
  - rewrite upd_edge_same. reflexivity.
  - rewrite upd_edge_same. reflexivity.
Qed.

Lemma finish_edge_props e s d :
  (forall e', e' <> e -> st_edge (finish_edge g s e d) e' = st_edge s e') /\
  mark_of (finish_edge g s e d) e = VisitDone /\ ins_of (finish_edge g s e d) e = ins_of s e.
Proof.
  assert (Hm : forall s0, (forall e', e' <> e -> st_edge (set_mark s0 e VisitDone) e' = st_edge s0 e') /\
                          mark_of (set_mark s0 e VisitDone) e = VisitDone /\
                          ins_of (set_mark s0 e VisitDone) e = ins_of s0 e).
  { intros s0. unfold set_mark. split; [|split].
    - intros e' Hne. apply upd_edge_other; exact Hne.
    - rewrite upd_edge_same. reflexivity.
    - rewrite upd_edge_same. reflexivity. }
  unfold finish_edge. destruct d; cbn [andb].
  - pose proof (st_edge_mark_outputs_dirty (edge_outs g e) s) as E1.
    set (s1 := mark_outputs_dirty s (edge_outs g e)) in *.
    destruct (negb _).
    + destruct (Hm (set_ready s1 e false)) as [A [B C]].
      destruct (local_set_ready e s1 false) as [L1 [L2 L3]].
      split; [|split].
      * intros e' Hne. rewrite (A e' Hne), (L1 e' Hne), E1. reflexivity.
      * exact B.
      * rewrite C, L3, E1. reflexivity.
    + destruct (Hm s1) as [A [B C]]. split; [|split].
      * intros e' Hne. rewrite (A e' Hne), E1. reflexivity.
      * exact B.
      * rewrite C, E1. reflexivity.
  - apply Hm.
Qed.

Lemma splice_deps_props e s new_ins :
  (forall e', e' <> e -> st_edge (splice_deps g s e new_ins) e' = st_edge s e') /\
  mark_of (splice_deps g s e new_ins) e = mark_of s e /\
  ins_of (splice_deps g s e new_ins) e = splice (ins_of s e) (ei_noo (g_edge g e)) new_ins.
Proof.
  unfold splice_deps, set_ins. split; [|split].
  - intros e' Hne. apply upd_edge_other; exact Hne.
  - rewrite upd_edge_same. reflexivity.
  - rewrite upd_edge_same. reflexivity.
Qed.

Lemma in_splice x ins noo new_ins : In x (splice ins noo new_ins) <-> In x ins \/ In x new_ins.
Proof.
  unfold splice. rewrite !in_app_iff.
  assert (H : In x ins <-> In x (firstn (length ins - noo) ins) \/ In x (skipn (length ins - noo) ins)).
  { rewrite <- in_app_iff. rewrite firstn_skipn. tauto. }
  tauto.
Qed.

(* ---- what a successful visit may change: only edges that were unmarked, and those end Done *)
Definition clause (s s' : sstate) (e : edge) : Prop :=
  match mark_of s e with
  | VisitNone => st_edge s' e = st_edge s e \/ mark_of s' e = VisitDone
  | _ => st_edge s' e = st_edge s e
  end.
Definition ext (s s' : sstate) : Prop := forall e, clause s s' e.

Lemma clause_of_eq s s' e : st_edge s' e = st_edge s e -> clause s s' e.
Proof. intros H. unfold clause. destruct (mark_of s e); auto. Qed.

Lemma clause_trans a b c e : clause a b e -> clause b c e -> clause a c e.
Proof.
  unfold clause. intros H K.
  destruct (mark_of a e) eqn:Ma.
  - destruct H as [H|H].
    + rewrite H in K. rewrite Ma in K. destruct K as [K|K]; [left; congruence|right; exact K].
    + rewrite H in K. right. rewrite K. exact H.
  - rewrite H in K. rewrite Ma in K. congruence.
  - rewrite H in K. rewrite Ma in K. congruence.
Qed.

Lemma ext_refl s : ext s s.
Proof. intros e. apply clause_of_eq. reflexivity. Qed.

Lemma ext_trans a b c : ext a b -> ext b c -> ext a c.
Proof. intros H K e. apply (clause_trans a b c e); [apply H|apply K]. Qed.

Lemma ext_of_edge_eq s s' : st_edge s' = st_edge s -> ext s s'.
Proof. intros H e. apply clause_of_eq. rewrite H. reflexivity. Qed.

Lemma ext_marked s s' e : ext s s' -> mark_of s e <> VisitNone -> st_edge s' e = st_edge s e.
Proof. intros H Hm. specialize (H e). unfold clause in H. destruct (mark_of s e); [congruence|exact H|exact H]. Qed.

Lemma ext_done s s' e : ext s s' -> mark_of s e = VisitDone -> mark_of s' e = VisitDone.
Proof. intros H Hm. rewrite (ext_marked s s' e H); [exact Hm|congruence]. Qed.

Lemma ext_instack_iff s s' e : ext s s' -> (mark_of s' e = VisitInStack <-> mark_of s e = VisitInStack).
Proof.
  intros H. specialize (H e). unfold clause in H.
  destruct (mark_of s e) eqn:Ms.
  - destruct H as [H|H]; [rewrite H, Ms; tauto|rewrite H; split; discriminate].
  - rewrite H, Ms. tauto.
  - rewrite H, Ms. tauto.
Qed.

(* the frame of [e0] (which stays InStack): everything else evolves as in [ext] *)
Definition frame (e0 : edge) (s s' : sstate) : Prop :=
  (forall e, e <> e0 -> clause s s' e) /\ mark_of s' e0 = mark_of s e0.

Lemma frame_trans e0 a b c : frame e0 a b -> frame e0 b c -> frame e0 a c.
Proof.
  intros [H1 H2] [K1 K2]. split.
  - intros e Hne. apply (clause_trans a b c e); [apply H1|apply K1]; exact Hne.
  - rewrite K2. exact H2.
Qed.

Lemma frame_of_local e0 s s' : local e0 s s' -> frame e0 s s'.
Proof.
  intros [H1 [H2 _]]. split; [|exact H2].
  intros e Hne. apply clause_of_eq. apply H1; exact Hne.
Qed.

Lemma frame_of_ext e0 s s' : ext s s' -> mark_of s e0 <> VisitNone -> frame e0 s s'.
Proof.
  intros H Hm. split; [intros e _; apply H|].
  rewrite (ext_marked s s' e0 H Hm). reflexivity.
Qed.

(* ---- structure of one frame of RecomputeNodeDirty (the case analysis is done once, here) *)
Lemma load_deps_recorded s e new_ins :
  load_deps g w s e = LdOk new_ins -> incl new_ins (recorded_deps g w e).
Proof.
  unfold load_deps, recorded_deps, edge_outs.
  destruct (ei_deps (g_edge g e)).
  - intros H; inversion H; subst. apply incl_nil_l.
  - destruct (ei_outs (g_edge g e)) as [|o0 outs]; [discriminate|].
    destruct (w_depfile w e) as [| | |douts dins]; try discriminate.
    destruct douts as [|p douts]; [discriminate|].
    destruct (negb (Nat.eqb p o0)); [discriminate|].
    destruct (forallb _ _); [|discriminate].
    intros H; inversion H; subst. apply incl_refl.
  - destruct (ei_outs (g_edge g e)) as [|o0 outs]; [discriminate|].
    destruct (w_dlog w o0) as [[dm nodes]|]; [|discriminate].
    destruct (Z.gtb _ _); [discriminate|].
    intros H; inversion H; subst. apply incl_refl.
Qed.

Definition deps_step (e : edge) (s5 s6 : sstate) (new_ins : list node) : Prop :=
  (forall e', e' <> e -> st_edge s6 e' = st_edge s5 e') /\ mark_of s6 e = mark_of s5 e /\
  (forall x, In x (ins_of s6 e) <-> In x (ins_of s5 e) \/ In x new_ins) /\
  incl new_ins (recorded_deps g w e).

Lemma deps_step_nil e s : deps_step e s s [].
Proof.
  split; [reflexivity|]. split; [reflexivity|]. split; [|apply incl_nil_l].
  intros x. cbn [In]. tauto.
Qed.

Lemma deps_step_splice e s new_ins :
  incl new_ins (recorded_deps g w e) -> deps_step e s (splice_deps g s e new_ins) new_ins.
Proof.
  intros Hinc. destruct (splice_deps_props e s new_ins) as [A [B C]].
  split; [exact A|]. split; [exact B|]. split; [|exact Hinc].
  intros x. rewrite C. apply in_splice.
Qed.

Lemma local_mid e s3 ins0 :
  forall s4 mri dirty, eval_inputs g e ins0 0 s3 None false = (s4, mri, dirty) ->
  forall dirty1 s5, (if dirty then (true, s4) else outputs_dirty_all g w e (edge_outs g e) mri s4) = (dirty1, s5) ->
  local e s3 s5.
Proof.
  intros s4 mri dirty He dirty1 s5 Ho.
  apply (local_trans e s3 s4 s5); [eapply local_eval_inputs; exact He|].
  destruct dirty.
  - inversion Ho; subst. apply local_refl.
  - apply local_of_edge_eq.
    pose proof (st_edge_outputs_dirty_all e mri (edge_outs g e) s4) as H. rewrite Ho in H. exact H.
Qed.

Section Frame.
Variables (f : nat) (stack : list node) (n : node) (e : edge) (s : sstate) (vs : list node).
Hypothesis Hprod : g_producer g n = Some e.
Hypothesis Hnone : mark_of s e = VisitNone.
Let visit := rnd f (stack ++ [n]).
Let s2 := stat_outputs w (enter_edge s e) (edge_outs g e).
Let vs1 := vs ++ ei_vals (g_edge g e).

Lemma rnd_none_unfold :
  rnd (S f) stack n (s, vs) =
  match visit_all visit (ins_of s2 e) (s2, vs1) with
  | SOk (s3, vs3) =>
    after_inputs g w visit e (es_deps_loaded (st_edge s e))
                 (es_deps_loaded (st_edge s e) && es_deps_missing (st_edge s e))
                 (es_deps_loaded (st_edge s e) && existsb (fun o => ns_dirty (st_node s o)) (edge_outs g e))
                 s3 vs3
  | err => err
  end.
Proof.
  cbn [recompute_node_dirty]. rewrite Hprod, Hnone. reflexivity.
Qed.

Lemma after_inputs_ok was_loaded rm rd s3 vs3 s' vs' :
  after_inputs g w visit e was_loaded rm rd s3 vs3 = SOk (s', vs') ->
  exists s5 new_ins s6 s7 s8 d,
    local e s3 s5 /\ deps_step e s5 s6 new_ins /\
    visit_all visit new_ins (s6, vs3) = SOk (s7, vs') /\
    local e s7 s8 /\ s' = finish_edge g s8 e d.
Proof.
  unfold after_inputs.
  destruct (eval_inputs g e (ins_of s3 e) 0 s3 None false) as [[s4 mri] dirty] eqn:He.
  destruct (if dirty then (true, s4) else outputs_dirty_all g w e (edge_outs g e) mri s4)
    as [dirty1 s5] eqn:Ho.
  pose proof (local_mid e s3 _ s4 mri dirty He dirty1 s5 Ho) as L35.
  assert (Simple : forall sX d, local e s5 sX ->
            exists s5' new_ins s6 s7 s8 d',
              local e s3 s5' /\ deps_step e s5' s6 new_ins /\
              visit_all visit new_ins (s6, vs3) = SOk (s7, vs3) /\
              local e s7 s8 /\ finish_edge g sX e d = finish_edge g s8 e d').
  { intros sX d LX. exists sX, [], sX, sX, sX, d.
    split; [apply (local_trans e s3 s5 sX); assumption|].
    split; [apply deps_step_nil|]. split; [reflexivity|]. split; [apply local_refl|reflexivity]. }
  destruct was_loaded.
  - intros H; inversion H; subst. apply Simple.
    destruct rm; [apply local_set_deps_missing|apply local_refl].
  - destruct dirty1.
    + destruct (load_deps_try g w s5 e); intros H; inversion H; subst.
      * apply Simple. apply local_refl.
      * apply Simple. apply local_set_deps_missing.
    + destruct (load_deps g w s5 e) as [| |new_ins] eqn:Hl.
      * intros H; inversion H; subst. apply Simple. apply local_set_deps_missing.
      * discriminate.
      * destruct (visit_all visit new_ins (splice_deps g s5 e new_ins, vs3)) as [[s7 vs7]|p|e'|] eqn:Hv;
          try discriminate.
        destruct (eval_inputs g e new_ins _ s7 mri false) as [[s8 mri2] dirty2] eqn:He2.
        intros H; inversion H; subst.
        exists s5, new_ins, (splice_deps g s5 e new_ins), s7, s8.
        eexists. split; [exact L35|].
        split; [apply deps_step_splice; eapply load_deps_recorded; exact Hl|].
        split; [exact Hv|]. split; [eapply local_eval_inputs; exact He2|reflexivity].
Qed.

Lemma after_inputs_err was_loaded rm rd s3 vs3 r :
  after_inputs g w visit e was_loaded rm rd s3 vs3 = r -> is_err r ->
  (exists s5 new_ins s6, local e s3 s5 /\ deps_step e s5 s6 new_ins /\
                         visit_all visit new_ins (s6, vs3) = r) \/
  r = SLoadErr e.
Proof.
  unfold after_inputs.
  destruct (eval_inputs g e (ins_of s3 e) 0 s3 None false) as [[s4 mri] dirty] eqn:He.
  destruct (if dirty then (true, s4) else outputs_dirty_all g w e (edge_outs g e) mri s4)
    as [dirty1 s5] eqn:Ho.
  pose proof (local_mid e s3 _ s4 mri dirty He dirty1 s5 Ho) as L35.
  destruct was_loaded.
  - intros H Hr; subst r. destruct Hr.
  - destruct dirty1.
    + destruct (load_deps_try g w s5 e); intros H Hr; subst r; destruct Hr.
    + destruct (load_deps g w s5 e) as [| |new_ins] eqn:Hl.
      * intros H Hr; subst r; destruct Hr.
      * intros H _. right. symmetry; exact H.
      * destruct (visit_all visit new_ins (splice_deps g s5 e new_ins, vs3)) as [[s7 vs7]|p|e'|] eqn:Hv.
        -- destruct (eval_inputs g e new_ins _ s7 mri false) as [[s8 mri2] dirty2].
           intros H Hr; subst r; destruct Hr.
        -- intros H _. left. exists s5, new_ins, (splice_deps g s5 e new_ins).
           split; [exact L35|]. split; [apply deps_step_splice; eapply load_deps_recorded; exact Hl|].
           rewrite Hv. exact H.
        -- intros H _. left. exists s5, new_ins, (splice_deps g s5 e new_ins).
           split; [exact L35|]. split; [apply deps_step_splice; eapply load_deps_recorded; exact Hl|].
           rewrite Hv. exact H.
        -- intros H _. left. exists s5, new_ins, (splice_deps g s5 e new_ins).
           split; [exact L35|]. split; [apply deps_step_splice; eapply load_deps_recorded; exact Hl|].
           rewrite Hv. exact H.
Qed.

Lemma rnd_none_ok s' vs' :
  rnd (S f) stack n (s, vs) = SOk (s', vs') ->
  exists s3 vs3 s5 new_ins s6 s7 s8 d,
    visit_all visit (ins_of s2 e) (s2, vs1) = SOk (s3, vs3) /\
    local e s3 s5 /\ deps_step e s5 s6 new_ins /\
    visit_all visit new_ins (s6, vs3) = SOk (s7, vs') /\
    local e s7 s8 /\ s' = finish_edge g s8 e d.
Proof.
  rewrite rnd_none_unfold.
  destruct (visit_all visit (ins_of s2 e) (s2, vs1)) as [[s3 vs3]|p|e'|] eqn:Hv; try discriminate.
  intros H. destruct (after_inputs_ok _ _ _ s3 vs3 s' vs' H) as [s5 [new_ins [s6 [s7 [s8 [d Hd]]]]]].
  exists s3, vs3, s5, new_ins, s6, s7, s8, d. split; [reflexivity|exact Hd].
Qed.

Lemma rnd_none_err r :
  rnd (S f) stack n (s, vs) = r -> is_err r ->
  visit_all visit (ins_of s2 e) (s2, vs1) = r \/
  (exists s3 vs3 s5 new_ins s6,
      visit_all visit (ins_of s2 e) (s2, vs1) = SOk (s3, vs3) /\
      local e s3 s5 /\ deps_step e s5 s6 new_ins /\ visit_all visit new_ins (s6, vs3) = r) \/
  r = SLoadErr e.
Proof.
  rewrite rnd_none_unfold.
  destruct (visit_all visit (ins_of s2 e) (s2, vs1)) as [[s3 vs3]|p|e'|] eqn:Hv.
  - intros H Hr. destruct (after_inputs_err _ _ _ s3 vs3 r H Hr) as [[s5 [new_ins [s6 Hd]]]|Hd].
    + right; left. exists s3, vs3, s5, new_ins, s6. split; [reflexivity|exact Hd].
    + right; right. exact Hd.
  - intros H _. left. exact H.
  - intros H _. left. exact H.
  - intros H _. left. exact H.
Qed.

(* the state in which the inputs are visited *)
Lemma s2_props :
  (forall e', e' <> e -> st_edge s2 e' = st_edge s e') /\
  mark_of s2 e = VisitInStack /\ ins_of s2 e = ins_of s e.
Proof.
  subst s2. rewrite st_edge_stat_outputs. apply enter_edge_props.
Qed.

End Frame.

(* inputs only grow, and only by recorded deps *)
Definition grow (s s' : sstate) : Prop :=
  forall e, incl (ins_of s' e) (ins_of s e ++ recorded_deps g w e).

Lemma grow_of_ins_eq a b : (forall e, ins_of b e = ins_of a e) -> grow a b.
Proof. intros H e. rewrite H. apply incl_appl, incl_refl. Qed.

Lemma grow_refl a : grow a a.
Proof. apply grow_of_ins_eq. reflexivity. Qed.

Lemma grow_trans a b c : grow a b -> grow b c -> grow a c.
Proof.
  intros H K e x Hx. apply K in Hx. apply in_app_or in Hx. destruct Hx as [Hx|Hx].
  - apply H. exact Hx.
  - apply in_or_app. right. exact Hx.
Qed.

Lemma ins_eq_of_local e a b : local e a b -> forall e', ins_of b e' = ins_of a e'.
Proof.
  intros [H1 [_ H3]] e'. destruct (Nat.eq_dec e' e) as [->|Hne]; [exact H3|].
  rewrite (H1 e' Hne). reflexivity.
Qed.

Lemma grow_of_deps_step e a b new_ins : deps_step e a b new_ins -> grow a b.
Proof.
  intros [H1 [_ [H3 H4]]] e' x Hx. destruct (Nat.eq_dec e' e) as [->|Hne].
  - apply H3 in Hx. apply in_or_app. destruct Hx as [Hx|Hx]; [left; exact Hx|right; apply H4; exact Hx].
  - rewrite (H1 e' Hne) in Hx. apply in_or_app. left; exact Hx.
Qed.

Lemma frame_of_deps_step e a b new_ins : deps_step e a b new_ins -> frame e a b.
Proof.
  intros [H1 [H2 _]]. split; [|exact H2]. intros e' Hne. apply clause_of_eq. apply H1; exact Hne.
Qed.

Definition done_of (i : node) (s : sstate) : Prop :=
  forall e, g_producer g i = Some e -> mark_of s e = VisitDone.

(* (A) what a successful visit guarantees *)
Lemma rnd_ok : forall f stack n s vs s' vs',
  rnd f stack n (s, vs) = SOk (s', vs') ->
  ext s s' /\ grow s s' /\ done_of n s'.
Proof.
  induction f as [|f IH]; intros stack n s vs s' vs' H; [discriminate|].
  destruct (g_producer g n) as [e|] eqn:Hp.
  2:{ cbn [recompute_node_dirty] in H. rewrite Hp in H.
      assert (E : st_edge s' = st_edge s).
      { destruct (n_known (st_node s n)); inversion H; subst; [reflexivity|].
        cbn [set_dirty upd_node st_edge]. apply st_edge_stat_if_necessary. }
      split; [apply ext_of_edge_eq; exact E|]. split.
      - apply grow_of_ins_eq. intros e. rewrite E. reflexivity.
      - intros e He. rewrite Hp in He. discriminate. }
  destruct (mark_of s e) eqn:Hm.
  - (* unmarked: the real work *)
    destruct (rnd_none_ok f stack n e s vs Hp Hm s' vs' H)
      as [s3 [vs3 [s5 [new_ins [s6 [s7 [s8 [d [V1 [L35 [D56 [V2 [L78 Hs']]]]]]]]]]]]].
    destruct (s2_props e s) as [A2 [M2 I2]].
    set (s2 := stat_outputs w (enter_edge s e) (edge_outs g e)) in *.
    set (R := fun a b : sv => ext (fst a) (fst b) /\ grow (fst a) (fst b)).
    set (Q := fun (i : node) (a : sv) => done_of i (fst a)).
    assert (Rrefl : forall a, R a a) by (intros a; split; [apply ext_refl|apply grow_refl]).
    assert (Rtrans : forall a b c, R a b -> R b c -> R a c).
    { intros a b c [H1 H2] [K1 K2]. split; [eapply ext_trans; eassumption|eapply grow_trans; eassumption]. }
    assert (Qst : forall i a0 a1, R a0 a1 -> Q i a0 -> Q i a1).
    { intros i a0 a1 [H1 _] HQ e' He'. apply (ext_done (fst a0) (fst a1) e' H1). apply HQ; exact He'. }
    assert (Hstep : forall l i (a0 a1 : sv), In i l -> True -> rnd f (stack ++ [n]) i a0 = SOk a1 ->
                                     True /\ R a0 a1 /\ Q i a1).
    { intros l i [sa va] [sb vb] _ _ Hv. destruct (IH _ _ _ _ _ _ Hv) as [E [G D]].
      split; [exact I|]. split; [split; assumption|exact D]. }
    destruct (visit_all_rel (fun _ => True) R Q _ Rrefl Rtrans Qst _ (Hstep _) _ _ I V1) as [_ [[E23 G23] _]].
    destruct (visit_all_rel (fun _ => True) R Q _ Rrefl Rtrans Qst _ (Hstep _) _ _ I V2) as [_ [[E67 G67] _]].
    cbn [fst] in E23, G23, E67, G67.
    assert (F23 : frame e s2 s3) by (apply frame_of_ext; [exact E23|rewrite M2; discriminate]).
    assert (F26 : frame e s2 s6).
    { eapply frame_trans; [exact F23|]. eapply frame_trans; [apply frame_of_local; exact L35|].
      eapply frame_of_deps_step; exact D56. }
    assert (M6 : mark_of s6 e = VisitInStack) by (rewrite (proj2 F26); exact M2).
    assert (F28 : frame e s2 s8).
    { eapply frame_trans; [exact F26|]. eapply frame_trans; [apply frame_of_ext; [exact E67|rewrite M6; discriminate]|].
      apply frame_of_local; exact L78. }
    destruct (finish_edge_props e s8 d) as [A9 [M9 I9]]. rewrite <- Hs' in A9, M9, I9.
    split; [|split].
    + intros e'. destruct (Nat.eq_dec e' e) as [->|Hne].
      * unfold clause. rewrite Hm. right. exact M9.
      * apply (clause_trans s s2 s' e'); [apply clause_of_eq; apply A2; exact Hne|].
        apply (clause_trans s2 s8 s' e'); [apply (proj1 F28); exact Hne|].
        apply clause_of_eq. apply A9; exact Hne.
    + apply (grow_trans s s2 s').
      { apply grow_of_ins_eq. intros e'. destruct (Nat.eq_dec e' e) as [->|Hne]; [exact I2|].
        rewrite (A2 e' Hne). reflexivity. }
      apply (grow_trans s2 s3 s' G23).
      apply (grow_trans s3 s5 s'); [apply grow_of_ins_eq, (ins_eq_of_local e); exact L35|].
      apply (grow_trans s5 s6 s'); [eapply grow_of_deps_step; exact D56|].
      apply (grow_trans s6 s7 s' G67).
      apply (grow_trans s7 s8 s'); [apply grow_of_ins_eq, (ins_eq_of_local e); exact L78|].
      apply grow_of_ins_eq. intros e'. destruct (Nat.eq_dec e' e) as [->|Hne]; [exact I9|].
      rewrite (A9 e' Hne). reflexivity.
    + intros e' He'. rewrite Hp in He'. inversion He'; subst e'. exact M9.
  - cbn [recompute_node_dirty] in H. rewrite Hp, Hm in H. discriminate.
  - cbn [recompute_node_dirty] in H. rewrite Hp, Hm in H. inversion H; subst.
    split; [apply ext_refl|]. split; [apply grow_refl|].
    intros e' He'. rewrite Hp in He'. inversion He'; subst e'. exact Hm.
Qed.

(* ================================================================== Part 2: C17 soundness *)
Notation pot := (pot_ins g w).
Notation step := (step_via g pot).
Notation walk := (walk_via g pot).

Lemma recorded_in_pot e : incl (recorded_deps g w e) (pot e).
Proof. unfold pot_ins. apply incl_appr, incl_refl. Qed.

(* marks InStack unchanged, inputs grown by recorded deps *)
Definition mg (a b : sstate) : Prop :=
  (forall e, mark_of b e = VisitInStack <-> mark_of a e = VisitInStack) /\ grow a b.

Lemma mg_trans a b c : mg a b -> mg b c -> mg a c.
Proof.
  intros [H1 H2] [K1 K2]. split; [|eapply grow_trans; eassumption].
  intros e. rewrite K1. apply H1.
Qed.

Lemma mg_of_ext a b : ext a b -> grow a b -> mg a b.
Proof. intros H G. split; [|exact G]. intros e. apply ext_instack_iff; exact H. Qed.

Lemma marks_eq_of_local e a b : local e a b -> forall e', mark_of b e' = mark_of a e'.
Proof.
  intros [H1 [H2 _]] e'. destruct (Nat.eq_dec e' e) as [->|Hne]; [exact H2|].
  rewrite (H1 e' Hne). reflexivity.
Qed.

Lemma mg_of_local e a b : local e a b -> mg a b.
Proof.
  intros L. split.
  - intros e'. rewrite (marks_eq_of_local e a b L). tauto.
  - apply grow_of_ins_eq, (ins_eq_of_local e); exact L.
Qed.

Lemma mg_of_deps_step e a b new_ins : deps_step e a b new_ins -> mg a b.
Proof.
  intros D. split; [|eapply grow_of_deps_step; exact D].
  destruct D as [H1 [H2 _]]. intros e'. destruct (Nat.eq_dec e' e) as [->|Hne].
  - rewrite H2. tauto.
  - rewrite (H1 e' Hne). tauto.
Qed.

Definition Inv (stack : list node) (s : sstate) : Prop :=
  (forall e, mark_of s e = VisitInStack -> exists x, In x stack /\ g_producer g x = Some e) /\
  (forall e, incl (ins_of s e) (pot e)).

Lemma Inv_mg stack a b : Inv stack a -> mg a b -> Inv stack b.
Proof.
  intros [I1 I2] [M G]. split.
  - intros e He. apply I1. apply M. exact He.
  - intros e x Hx. apply G in Hx. apply in_app_or in Hx. destruct Hx as [Hx|Hx].
    + apply I2; exact Hx.
    + apply recorded_in_pot; exact Hx.
Qed.

(* ---- walks *)
Lemma walk_tail x y l : walk (x :: y :: l) -> walk (y :: l).
Proof. intros H. inversion H; subst. assumption. Qed.

Lemma walk_app_r pre : forall l, l <> [] -> walk (pre ++ l) -> walk l.
Proof.
  induction pre as [|x pre IH]; intros l Hl H; [exact H|].
  cbn [app] in H. destruct (pre ++ l) as [|y r] eqn:E.
  - destruct pre; [cbn [app] in E; subst; contradiction|discriminate].
  - apply IH; [exact Hl|]. rewrite E. apply (walk_tail _ _ _ H).
Qed.

Lemma walk_snoc : forall l n, walk l -> step (last l 0) n -> walk (l ++ [n]).
Proof.
  induction l as [|x l IH]; intros n Hw Hs; [inversion Hw|].
  destruct l as [|y l].
  - cbn [app last] in *. apply walk_cons; [exact Hs|apply walk_one].
  - inversion Hw as [|x0 y0 l0 Hxy Hrest]; subst.
    cbn [app]. apply walk_cons; [exact Hxy|]. apply (IH n Hrest).
    exact Hs.
Qed.

Lemma walk_replace_head x n y l :
  g_producer g x = g_producer g n -> walk (x :: y :: l) -> walk (n :: y :: l).
Proof.
  intros Heq Hw. inversion Hw as [|x0 y0 l0 [e [He Hin]] Hrest]; subst.
  apply walk_cons; [|exact Hrest]. exists e. rewrite <- Heq. split; assumption.
Qed.

Lemma drop_until_edge_spec e : forall stack,
  (exists x, In x stack /\ g_producer g x = Some e) ->
  exists pre x' rest, stack = pre ++ x' :: rest /\ g_producer g x' = Some e /\
                      drop_until_edge g e stack = x' :: rest.
Proof.
  induction stack as [|y stack IH]; intros [x [Hin Hx]]; [destruct Hin|].
  cbn [drop_until_edge].
  destruct (g_producer g y) as [e'|] eqn:Hy.
  - destruct (Nat.eqb_spec e' e) as [->|Hne].
    + exists [], y, stack. split; [reflexivity|]. split; [exact Hy|reflexivity].
    + destruct Hin as [->|Hin]; [congruence|].
      destruct (IH (ex_intro _ x (conj Hin Hx))) as [pre [x' [rest [E1 [E2 E3]]]]].
      exists (y :: pre), x', rest. split; [rewrite E1; reflexivity|]. split; assumption.
  - destruct Hin as [->|Hin]; [congruence|].
    destruct (IH (ex_intro _ x (conj Hin Hx))) as [pre [x' [rest [E1 [E2 E3]]]]].
    exists (y :: pre), x', rest. split; [rewrite E1; reflexivity|]. split; assumption.
Qed.

Lemma last_app_cons (pre : list node) x rest d : last (pre ++ x :: rest) d = last (x :: rest) d.
Proof.
  induction pre as [|y pre IH]; [reflexivity|].
  cbn [app]. rewrite <- IH. destruct (pre ++ x :: rest) eqn:E.
  - destruct pre; discriminate.
  - reflexivity.
Qed.

Lemma cycle_path_closed stack n e :
  g_producer g n = Some e ->
  (exists x, In x stack /\ g_producer g x = Some e) ->
  walk stack -> step (last stack 0) n ->
  closed_walk g w (cycle_path g stack n e).
Proof.
  intros Hn Hex Hw Hs.
  destruct (drop_until_edge_spec e stack Hex) as [pre [x' [rest [E1 [E2 E3]]]]].
  unfold cycle_path. rewrite E3.
  assert (Hw' : walk (x' :: rest)).
  { apply (walk_app_r pre); [discriminate|]. rewrite <- E1. exact Hw. }
  assert (Hs' : step (last (x' :: rest) 0) n).
  { rewrite <- (last_app_cons pre), <- E1. exact Hs. }
  pose proof (walk_snoc _ n Hw' Hs') as Hw2. cbn [app] in Hw2.
  split; [|split].
  - destruct (rest ++ [n]) as [|y l] eqn:El; [destruct rest; discriminate|].
    apply (walk_replace_head x'); [congruence|]. exact Hw2.
  - cbn [length]. rewrite app_length. cbn [length]. lia.
  - cbn [hd_error]. f_equal. change (n :: rest ++ [n]) with ((n :: rest) ++ [n]).
    symmetry. apply last_last.
Qed.

Lemma Inv_enter stack n e s :
  g_producer g n = Some e -> Inv stack s ->
  Inv (stack ++ [n]) (stat_outputs w (enter_edge s e) (edge_outs g e)).
Proof.
  intros Hp [I1 I2]. destruct (s2_props e s) as [A2 [M2 J2]].
  set (s2 := stat_outputs w (enter_edge s e) (edge_outs g e)) in *.
  split.
  - intros e' He'. destruct (Nat.eq_dec e' e) as [->|Hne].
    + exists n. split; [apply in_or_app; right; left; reflexivity|exact Hp].
    + rewrite (A2 e' Hne) in He'. destruct (I1 e' He') as [x [Hx Hpx]].
      exists x. split; [apply in_or_app; left; exact Hx|exact Hpx].
  - intros e'. destruct (Nat.eq_dec e' e) as [->|Hne]; [rewrite J2; apply I2|].
    rewrite (A2 e' Hne). apply I2.
Qed.

(* Inv is kept by the successful visits of a frame *)
Lemma visit_all_Inv f st l a a' :
  Inv st (fst a) -> visit_all (rnd f st) l a = SOk a' -> mg (fst a) (fst a').
Proof.
  intros _ V.
  set (R := fun a b : sv => mg (fst a) (fst b)).
  assert (Rrefl : forall a, R a a).
  { intros x. split; [tauto|apply grow_refl]. }
  assert (Rtrans : forall a b c, R a b -> R b c -> R a c) by (intros x y z; apply mg_trans).
  destruct (visit_all_rel (fun _ => True) R (fun _ _ => True) (rnd f st) Rrefl Rtrans
                          (fun _ _ _ _ _ => I) l) with (a := a) (a' := a') as [_ [HR _]]; [|exact I|exact V|exact HR].
  intros i [sa va] [sb vb] _ _ Hv. destruct (rnd_ok _ _ _ _ _ _ _ Hv) as [E [G _]].
  split; [exact I|]. split; [|exact I]. apply mg_of_ext; assumption.
Qed.

Lemma rnd_cycle : forall f stack n s vs p,
  rnd f stack n (s, vs) = SCycle p ->
  Inv stack s -> (stack = [] \/ (walk stack /\ step (last stack 0) n)) ->
  closed_walk g w p.
Proof.
  induction f as [|f IH]; intros stack n s vs p H HI Hst; [discriminate|].
  destruct (g_producer g n) as [e|] eqn:Hp.
  2:{ cbn [recompute_node_dirty] in H. rewrite Hp in H.
      destruct (n_known (st_node s n)); discriminate. }
  destruct (mark_of s e) eqn:Hm.
  - (* unmarked *)
    assert (Hw1 : walk (stack ++ [n])).
    { destruct Hst as [->|[Hw Hs]]; [apply walk_one|apply walk_snoc; assumption]. }
    assert (Hlast : last (stack ++ [n]) 0 = n) by apply last_last.
    pose proof (Inv_enter stack n e s Hp HI) as HI2.
    destruct (s2_props e s) as [A2 [M2 J2]].
    set (s2 := stat_outputs w (enter_edge s e) (edge_outs g e)) in *.
    assert (Hsub : forall i a0, (In i (ins_of s e) \/ In i (recorded_deps g w e)) ->
                                Inv (stack ++ [n]) (fst a0) ->
                                rnd f (stack ++ [n]) i a0 = SCycle p -> closed_walk g w p).
    { intros i [sa va] Hi HIa Hv. apply (IH (stack ++ [n]) i sa va p Hv HIa).
      right. split; [exact Hw1|]. rewrite Hlast. exists e. split; [exact Hp|].
      destruct Hi as [Hi|Hi]; [apply (proj2 HI); exact Hi|apply recorded_in_pot; exact Hi]. }
    assert (Pstep : forall l i (a0 a1 : sv), In i l -> Inv (stack ++ [n]) (fst a0) ->
                      rnd f (stack ++ [n]) i a0 = SOk a1 -> Inv (stack ++ [n]) (fst a1)).
    { intros l i [sa va] [sb vb] _ HIa Hv. destruct (rnd_ok _ _ _ _ _ _ _ Hv) as [E [G _]].
      apply (Inv_mg _ sa sb HIa). apply mg_of_ext; assumption. }
    destruct (rnd_none_err f stack n e s vs Hp Hm (SCycle p) H I) as [V1|[V2|V3]].
    + destruct (visit_all_err (fun a : sv => Inv (stack ++ [n]) (fst a)) (rnd f (stack ++ [n])) _
                              (s2, vs ++ ei_vals (g_edge g e)) _ (Pstep _) HI2 V1 I)
        as [i [a0 [Hi [HIa Hv]]]].
      apply (Hsub i a0); [left; rewrite <- J2; exact Hi|exact HIa|exact Hv].
    + destruct V2 as [s3 [vs3 [s5 [new_ins [s6 [V1 [L35 [D56 V2]]]]]]]].
      assert (HI6 : Inv (stack ++ [n]) s6).
      { apply (Inv_mg _ s2 s6 HI2).
        eapply mg_trans; [apply (visit_all_Inv f _ _ (s2, vs ++ ei_vals (g_edge g e)) (s3, vs3) HI2 V1)|]. cbn [fst].
        eapply mg_trans; [eapply mg_of_local; exact L35|eapply mg_of_deps_step; exact D56]. }
      destruct (visit_all_err (fun a : sv => Inv (stack ++ [n]) (fst a)) (rnd f (stack ++ [n])) _
                              (s6, vs3) _ (Pstep _) HI6 V2 I)
        as [i [a0 [Hi [HIa Hv]]]].
      apply (Hsub i a0); [right; apply (proj2 (proj2 (proj2 D56))); exact Hi|exact HIa|exact Hv].
    + discriminate.
  - (* in the stack: the cycle is reported here *)
    cbn [recompute_node_dirty] in H. rewrite Hp, Hm in H. inversion H; subst p.
    destruct (proj1 HI e Hm) as [x [Hx Hpx]].
    destruct Hst as [->|[Hw Hs]]; [destruct Hx|].
    apply cycle_path_closed; [exact Hp|exists x; split; assumption|exact Hw|exact Hs].
  - cbn [recompute_node_dirty] in H. rewrite Hp, Hm in H. discriminate.
Qed.

(* ---- lifting to RecomputeDirty / Builder::AddTarget / the loop over the targets *)
Lemma rnd_top_Inv f n s vs s' vs' :
  rnd f [] n (s, vs) = SOk (s', vs') -> Inv [] s -> Inv [] s'.
Proof.
  intros H HI. destruct (rnd_ok _ _ _ _ _ _ _ H) as [E [G _]].
  apply (Inv_mg [] s s' HI). apply mg_of_ext; assumption.
Qed.

Lemma loop_Inv : forall qf queue s found s' vs',
  recompute_dirty_loop g w qf queue s found = SOk (s', vs') -> Inv [] s -> Inv [] s'.
Proof.
  induction qf as [|qf IH]; intros queue s found s' vs' H HI; destruct queue as [|n queue];
    cbn [recompute_dirty_loop] in H; try discriminate.
  - inversion H; subst; exact HI.
  - inversion H; subst; exact HI.
  - destruct (rnd (scan_fuel g) [] n (s, [])) as [[s1 newv]|c|e|] eqn:Hv; try discriminate.
    apply (IH _ _ _ _ _ H). apply (rnd_top_Inv _ _ _ _ _ _ Hv HI).
Qed.

Lemma loop_cycle : forall qf queue s found c,
  recompute_dirty_loop g w qf queue s found = SCycle c -> Inv [] s -> closed_walk g w c.
Proof.
  induction qf as [|qf IH]; intros queue s found c H HI; destruct queue as [|n queue];
    cbn [recompute_dirty_loop] in H; try discriminate.
  destruct (rnd (scan_fuel g) [] n (s, [])) as [[s1 newv]|c'|e|] eqn:Hv; try discriminate.
  - apply (IH _ _ _ _ H). apply (rnd_top_Inv _ _ _ _ _ _ Hv HI).
  - inversion H; subst c'. apply (rnd_cycle _ _ _ _ _ _ Hv HI). left; reflexivity.
Qed.

Lemma avt_result : forall vnodes s p,
  match add_validation_targets g s vnodes p with
  | ScanOk s' _ => s' = s
  | ScanCycle _ | ScanLoadErr _ => False
  | _ => True
  end.
Proof.
  induction vnodes as [|v vnodes IH]; intros s p; cbn [add_validation_targets]; [reflexivity|].
  destruct (g_producer g v) as [ve|]; [|apply IH].
  destruct (es_ready (st_edge s ve)); [apply IH|].
  destruct (plan_add_target g s v p) as [[[r err] p']|]; [|exact I].
  destruct r; [apply IH|]. destruct err as [[m d]|]; [exact I|reflexivity].
Qed.

(* Builder::AddTarget: a cycle comes from the dirty scan; a success returns the scanned state *)
Lemma bat_result s p t :
  match builder_add_target g w s p t with
  | ScanCycle c => recompute_dirty g w s t = SCycle c
  | ScanLoadErr e => recompute_dirty g w s t = SLoadErr e
  | ScanOk s' _ => exists vn, recompute_dirty g w s t = SOk (s', vn)
  | _ => True
  end.
Proof.
  unfold builder_add_target.
  destruct (recompute_dirty g w s t) as [[s1 vn]|c|e|]; [|reflexivity|reflexivity|exact I].
  assert (HA : forall p0, match add_validation_targets g s1 vn p0 with
                          | ScanCycle c => SOk (s1, vn) = SCycle c
                          | ScanLoadErr e => @SOk sv (s1, vn) = SLoadErr e
                          | ScanOk s' _ => exists vn0, @SOk sv (s1, vn) = SOk (s', vn0)
                          | _ => True end).
  { intros p0. pose proof (avt_result vn s1 p0) as Hr.
    destruct (add_validation_targets g s1 vn p0); try exact I; try contradiction.
    subst. exists vn; reflexivity. }
  destruct (match g_producer g t with Some e => negb (es_ready (st_edge s1 e)) | None => true end).
  - destruct (plan_add_target g s1 t p) as [[[r err] p']|]; [|exact I].
    destruct r; [apply HA|]. destruct err as [[m d]|]; [exact I|]. exists vn; reflexivity.
  - apply HA.
Qed.

Lemma add_targets_sound : forall targets s p c,
  add_targets g w s p targets = ScanCycle c -> Inv [] s -> closed_walk g w c.
Proof.
  induction targets as [|t targets IH]; intros s p c H HI; cbn [add_targets] in H; [discriminate|].
  pose proof (bat_result s p t) as Hb.
  destruct (builder_add_target g w s p t) as [c'|m d|e| |s1 p1]; try discriminate.
  - inversion H; subst c'. apply (loop_cycle _ _ _ _ _ Hb HI).
  - destruct Hb as [vn Hb]. apply (IH _ _ _ H). apply (loop_Inv _ _ _ _ _ _ Hb HI).
Qed.

Lemma Inv_init : Inv [] (init_state g).
Proof.
  split.
  - intros e He. cbn in He. discriminate.
  - intros e. cbn. unfold pot_ins. apply incl_appl, incl_refl.
Qed.

(* C17, soundness: the reported path is a closed walk of the dependency relation *)
Theorem C17_sound targets c :
  scan g w targets = ScanCycle c -> closed_walk g w c.
Proof. intros H. apply (add_targets_sound _ _ _ _ H Inv_init). Qed.

(* no false positive: an acyclic relation is never rejected as cyclic *)
Theorem C17_no_false_positive targets :
  acyclic g w -> forall c, scan g w targets <> ScanCycle c.
Proof. intros Hac c H. apply (Hac c). apply (C17_sound targets c H). Qed.

(* a ranking is a witness of acyclicity *)
Lemma walk_cons_inv ins x y l :
  walk_via g ins (x :: y :: l) -> step_via g ins x y /\ walk_via g ins (y :: l).
Proof. intros H. inversion H; subst. split; assumption. Qed.

Lemma ranked_walk ins rank : ranked_via g ins rank ->
  forall l x e, walk_via g ins (x :: l) -> g_producer g x = Some e ->
  forall e', g_producer g (last (x :: l) 0) = Some e' -> rank e' + length l <= rank e.
Proof.
  intros Hr. induction l as [|y l IHl]; intros x e Hwx Hx e' Hl.
  - cbn [last] in Hl. rewrite Hx in Hl. inversion Hl; subst. cbn [length]. lia.
  - destruct (walk_cons_inv ins x y l Hwx) as [[ex [Hex Hin]] Hrest].
    rewrite Hx in Hex. inversion Hex; subst ex.
    change (last (x :: y :: l) 0) with (last (y :: l) 0) in Hl.
    destruct (g_producer g y) as [ey|] eqn:Hy.
    + pose proof (Hr e y ey Hin Hy) as Hlt.
      pose proof (IHl y ey Hrest Hy e' Hl) as Hle. cbn [length]. lia.
    + destruct l as [|z l].
      * cbn [last] in Hl. congruence.
      * destruct (walk_cons_inv ins y z l Hrest) as [[ey [Hey _]] _]. congruence.
Qed.

Lemma ranked_acyclic ins rank : ranked_via g ins rank -> acyclic_via g ins.
Proof.
  intros Hr p [Hw [Hlen Hhd]].
  destruct p as [|x l]; [cbn in Hlen; lia|].
  destruct l as [|y l]; [cbn in Hlen; lia|].
  destruct (walk_cons_inv ins x y l Hw) as [[e [He Hin]] Hrest].
  assert (Hl : g_producer g (last (x :: y :: l) 0) = Some e).
  { assert (Hx : x = last (x :: y :: l) 0) by (unfold hd_error in Hhd; congruence).
    rewrite <- Hx. exact He. }
  pose proof (ranked_walk ins rank Hr (y :: l) x e Hw He e Hl) as Hle. cbn [length] in Hle. lia.
Qed.

(* ================================================================== Part 3: fuel / termination *)
(* weighted count of the unmarked edges below [k] *)
Fixpoint wsum (wt : edge -> nat) (s : sstate) (k : nat) : nat :=
  match k with
  | O => O
  | S k' => wsum wt s k' + match mark_of s k' with VisitNone => wt k' | _ => O end
  end.

Definition nonone (a b : sstate) : Prop := forall e, mark_of b e = VisitNone -> mark_of a e = VisitNone.

Lemma nonone_refl a : nonone a a.
Proof. intros e H; exact H. Qed.
Lemma nonone_trans a b c : nonone a b -> nonone b c -> nonone a c.
Proof. intros H K e He. apply H, K, He. Qed.

Lemma nonone_of_ext a b : ext a b -> nonone a b.
Proof.
  intros H e He. specialize (H e). unfold clause in H.
  destruct (mark_of a e) eqn:Ma; [reflexivity| |]; rewrite H in He; congruence.
Qed.
Lemma nonone_of_marks_eq a b : (forall e, mark_of b e = mark_of a e) -> nonone a b.
Proof. intros H e He. rewrite <- H. exact He. Qed.
Lemma nonone_of_local e a b : local e a b -> nonone a b.
Proof. intros L. apply nonone_of_marks_eq, (marks_eq_of_local e); exact L. Qed.
Lemma nonone_of_deps_step e a b l : deps_step e a b l -> nonone a b.
Proof.
  intros [H1 [H2 _]]. apply nonone_of_marks_eq. intros e'.
  destruct (Nat.eq_dec e' e) as [->|Hne]; [exact H2|]. rewrite (H1 e' Hne). reflexivity.
Qed.

Lemma wsum_mono wt a b : nonone a b -> forall k, wsum wt b k <= wsum wt a k.
Proof.
  intros H. induction k as [|k IH]; cbn [wsum]; [lia|].
  destruct (mark_of b k) eqn:Mb.
  - rewrite (H k Mb). lia.
  - destruct (mark_of a k); lia.
  - destruct (mark_of a k); lia.
Qed.

Lemma wsum_flip wt a b e :
  mark_of a e = VisitNone -> mark_of b e <> VisitNone ->
  (forall e', e' <> e -> mark_of b e' = mark_of a e') ->
  forall k, e < k -> wsum wt b k + wt e = wsum wt a k.
Proof.
  intros Ha Hb Hoth. induction k as [|k IH]; intros Hlt; [lia|].
  cbn [wsum]. destruct (Nat.eq_dec k e) as [->|Hne].
  - rewrite Ha. destruct (mark_of b e) eqn:Mb; [congruence| |].
    + assert (E : wsum wt b e = wsum wt a e).
      { clear IH Hlt. assert (G : forall j, j <= e -> wsum wt b j = wsum wt a j).
        { induction j as [|j IHj]; intros Hj; [reflexivity|]. cbn [wsum].
          rewrite IHj by lia. rewrite (Hoth j) by lia. reflexivity. }
        apply G; lia. }
      lia.
    + assert (E : wsum wt b e = wsum wt a e).
      { clear IH Hlt. assert (G : forall j, j <= e -> wsum wt b j = wsum wt a j).
        { induction j as [|j IHj]; intros Hj; [reflexivity|]. cbn [wsum].
          rewrite IHj by lia. rewrite (Hoth j) by lia. reflexivity. }
        apply G; lia. }
      lia.
  - rewrite (Hoth k Hne). assert (e < k) by lia. specialize (IH H). lia.
Qed.

Lemma wsum_one_le s k : wsum (fun _ => 1) s k <= k.
Proof. induction k as [|k IH]; cbn [wsum]; [lia|]. destruct (mark_of s k); lia. Qed.

Lemma wsum_vals_le s k : wsum (fun e => length (ei_vals (g_edge g e))) s k <= total_vals g k.
Proof. induction k as [|k IH]; cbn [wsum total_vals]; [lia|]. destruct (mark_of s k); lia. Qed.

Section Fuel.
Hypothesis Hwf : wf_graph g.
Notation N := (g_nedges g).
Notation cnt s := (wsum (fun _ => 1) s N).
Notation pend s := (wsum (fun e => length (ei_vals (g_edge g e))) s N).

Lemma enter_flip wt n e s :
  g_producer g n = Some e -> mark_of s e = VisitNone ->
  wsum wt (stat_outputs w (enter_edge s e) (edge_outs g e)) N + wt e = wsum wt s N.
Proof.
  intros Hp Hm. destruct (s2_props e s) as [A2 [M2 _]].
  apply wsum_flip; [exact Hm|rewrite M2; discriminate| |apply (Hwf n e Hp)].
  intros e' Hne. rewrite (A2 e' Hne). reflexivity.
Qed.

Lemma rnd_fuel : forall f stack n s vs, cnt s < f -> rnd f stack n (s, vs) <> SOutOfFuel.
Proof.
  induction f as [|f IH]; intros stack n s vs Hc; [lia|].
  destruct (g_producer g n) as [e|] eqn:Hp.
  2:{ cbn [recompute_node_dirty]. rewrite Hp. destruct (n_known (st_node s n)); discriminate. }
  destruct (mark_of s e) eqn:Hm.
  2:{ cbn [recompute_node_dirty]. rewrite Hp, Hm. discriminate. }
  2:{ cbn [recompute_node_dirty]. rewrite Hp, Hm. discriminate. }
  intros H.
  pose proof (enter_flip (fun _ => 1) n e s Hp Hm) as Hflip. cbn beta in Hflip.
  set (s2 := stat_outputs w (enter_edge s e) (edge_outs g e)) in *.
  assert (Pstep : forall l i (a0 a1 : sv), In i l -> cnt (fst a0) < f ->
                    rnd f (stack ++ [n]) i a0 = SOk a1 -> cnt (fst a1) < f).
  { intros l i [sa va] [sb vb] _ Ha Hv. destruct (rnd_ok _ _ _ _ _ _ _ Hv) as [E _].
    cbn [fst] in *. pose proof (wsum_mono (fun _ => 1) sa sb (nonone_of_ext _ _ E) N). lia. }
  destruct (rnd_none_err f stack n e s vs Hp Hm SOutOfFuel H I) as [V1|[V2|V3]].
  - assert (Hlt : cnt s2 < f) by lia.
    destruct (visit_all_err (fun a : sv => cnt (fst a) < f) (rnd f (stack ++ [n])) _
                            (s2, vs ++ ei_vals (g_edge g e)) SOutOfFuel (Pstep _) Hlt V1 I)
      as [i [[sa va] [_ [Ha Hv]]]].
    apply (IH _ _ _ _ Ha Hv).
  - destruct V2 as [s3 [vs3 [s5 [new_ins [s6 [V1 [L35 [D56 V2]]]]]]]].
    assert (H23 : cnt s3 <= cnt s2).
    { apply wsum_mono.
      set (R := fun a b : sv => nonone (fst a) (fst b)).
      destruct (visit_all_rel (fun _ => True) R (fun _ _ => True) (rnd f (stack ++ [n]))
                              (fun a => nonone_refl (fst a))
                              (fun a b c => nonone_trans (fst a) (fst b) (fst c))
                              (fun _ _ _ _ _ => I) (ins_of s2 e)) with (a := (s2, vs ++ ei_vals (g_edge g e))) (a' := (s3, vs3))
        as [_ [HR _]]; [|exact I|exact V1|exact HR].
      intros i [sa va] [sb vb] _ _ Hv. destruct (rnd_ok _ _ _ _ _ _ _ Hv) as [E _].
      split; [exact I|]. split; [apply nonone_of_ext; exact E|exact I]. }
    assert (H36 : cnt s6 <= cnt s3).
    { apply wsum_mono. eapply nonone_trans; [eapply nonone_of_local; exact L35|eapply nonone_of_deps_step; exact D56]. }
    assert (Hlt : cnt s6 < f) by lia.
    destruct (visit_all_err (fun a : sv => cnt (fst a) < f) (rnd f (stack ++ [n])) _
                            (s6, vs3) SOutOfFuel (Pstep _) Hlt V2 I)
      as [i [[sa va] [_ [Ha Hv]]]].
    apply (IH _ _ _ _ Ha Hv).
  - discriminate.
Qed.

(* accounting of the validation nodes: what a visit appends was pending before *)
Lemma rnd_vals : forall f stack n s vs s' vs',
  rnd f stack n (s, vs) = SOk (s', vs') -> length vs' + pend s' <= length vs + pend s.
Proof.
  induction f as [|f IH]; intros stack n s vs s' vs' H; [discriminate|].
  destruct (g_producer g n) as [e|] eqn:Hp.
  2:{ cbn [recompute_node_dirty] in H. rewrite Hp in H.
      assert (E : st_edge s' = st_edge s /\ vs' = vs).
      { destruct (n_known (st_node s n)); inversion H; subst; [split; reflexivity|].
        split; [|reflexivity]. cbn [set_dirty upd_node st_edge]. apply st_edge_stat_if_necessary. }
      destruct E as [E ->].
      pose proof (wsum_mono (fun e => length (ei_vals (g_edge g e))) s s'
                            (nonone_of_marks_eq s s' (fun e => f_equal (fun m => es_mark (m e)) E)) N). lia. }
  destruct (mark_of s e) eqn:Hm.
  2:{ cbn [recompute_node_dirty] in H. rewrite Hp, Hm in H. discriminate. }
  2:{ cbn [recompute_node_dirty] in H. rewrite Hp, Hm in H. inversion H; subst. lia. }
  destruct (rnd_none_ok f stack n e s vs Hp Hm s' vs' H)
    as [s3 [vs3 [s5 [new_ins [s6 [s7 [s8 [d [V1 [L35 [D56 [V2 [L78 Hs']]]]]]]]]]]]].
  pose proof (enter_flip (fun e => length (ei_vals (g_edge g e))) n e s Hp Hm) as Hflip. cbn beta in Hflip.
  set (s2 := stat_outputs w (enter_edge s e) (edge_outs g e)) in *.
  set (R := fun a b : sv => length (snd b) + pend (fst b) <= length (snd a) + pend (fst a)).
  assert (Hstep : forall l i (a0 a1 : sv), In i l -> True -> rnd f (stack ++ [n]) i a0 = SOk a1 ->
                                   True /\ R a0 a1 /\ True).
  { intros l i [sa va] [sb vb] _ _ Hv. split; [exact I|]. split; [|exact I]. apply (IH _ _ _ _ _ _ Hv). }
  assert (Rrefl : forall a, R a a) by (intros a; unfold R; lia).
  assert (Rtrans : forall a b c, R a b -> R b c -> R a c) by (intros a b c; unfold R; lia).
  destruct (visit_all_rel (fun _ => True) R (fun _ _ => True) _ Rrefl Rtrans (fun _ _ _ _ _ => I) _ (Hstep _)
                          (s2, vs ++ ei_vals (g_edge g e)) (s3, vs3) I V1) as [_ [R1 _]].
  destruct (visit_all_rel (fun _ => True) R (fun _ _ => True) _ Rrefl Rtrans (fun _ _ _ _ _ => I) _ (Hstep _)
                          (s6, vs3) (s7, vs') I V2) as [_ [R2 _]].
  unfold R in R1, R2. cbn [fst snd] in R1, R2. rewrite app_length in R1.
  assert (H36 : pend s6 <= pend s3).
  { apply wsum_mono. eapply nonone_trans; [eapply nonone_of_local; exact L35|eapply nonone_of_deps_step; exact D56]. }
  assert (H79 : pend s' <= pend s7).
  { apply wsum_mono. eapply nonone_trans; [eapply nonone_of_local; exact L78|].
    destruct (finish_edge_props e s8 d) as [A9 [M9 _]]. rewrite <- Hs' in A9, M9.
    intros e' He'. destruct (Nat.eq_dec e' e) as [->|Hne]; [congruence|].
    rewrite (A9 e' Hne) in He'. exact He'. }
  lia.
Qed.

Lemma loop_fuel : forall qf queue s found,
  length queue + pend s <= qf -> recompute_dirty_loop g w qf queue s found <> SOutOfFuel.
Proof.
  induction qf as [|qf IH]; intros queue s found Hq; destruct queue as [|n queue];
    cbn [recompute_dirty_loop]; try discriminate.
  - cbn [length] in Hq. lia.
  - destruct (rnd (scan_fuel g) [] n (s, [])) as [[s1 newv]|c|e|] eqn:Hv; try discriminate.
    + apply IH. pose proof (rnd_vals _ _ _ _ _ _ _ Hv) as Hr. cbn [length] in Hr, Hq.
      rewrite app_length. lia.
    + exfalso. revert Hv. apply rnd_fuel. unfold scan_fuel.
      pose proof (wsum_one_le s N). lia.
Qed.

Lemma recompute_dirty_fuel s t : recompute_dirty g w s t <> SOutOfFuel.
Proof.
  unfold recompute_dirty. apply loop_fuel. unfold queue_fuel. cbn [length].
  pose proof (wsum_vals_le s N). lia.
Qed.

(* ---- the plan *)
Fixpoint pcount (p : plan) (k : nat) : nat :=
  match k with
  | O => O
  | S k' => pcount p k' + match p_want p k' with None => 1 | Some _ => O end
  end.

Definition pmono (a b : plan) : Prop := forall e, p_want b e = None -> p_want a e = None.

Lemma pcount_mono a b : pmono a b -> forall k, pcount b k <= pcount a k.
Proof.
  intros H. induction k as [|k IH]; cbn [pcount]; [lia|].
  destruct (p_want b k) eqn:Wb; [destruct (p_want a k); lia|]. rewrite (H k Wb). lia.
Qed.

Lemma pcount_le p k : pcount p k <= k.
Proof. induction k as [|k IH]; cbn [pcount]; [lia|]. destruct (p_want p k); lia. Qed.

Lemma pcount_flip a b e :
  p_want a e = None -> p_want b e <> None -> pmono a b ->
  forall k, e < k -> pcount b k < pcount a k.
Proof.
  intros Ha Hb Hm. induction k as [|k IH]; intros Hlt; [lia|].
  cbn [pcount]. destruct (Nat.eq_dec k e) as [->|Hne].
  - rewrite Ha. destruct (p_want b e); [|congruence]. pose proof (pcount_mono a b Hm e). lia.
  - assert (e < k) by lia. specialize (IH H).
    destruct (p_want b k) eqn:Wb; [destruct (p_want a k); lia|]. rewrite (Hm k Wb). lia.
Qed.

Lemma ast_loop_ok (P : plan -> Prop) visit : forall ins p r err p',
  (forall i p0 r0 e0 p1, P p0 -> visit i p0 = Some (r0, e0, p1) -> P p1) ->
  P p -> ast_loop visit ins p = Some (r, err, p') -> P p'.
Proof.
  induction ins as [|i ins IH]; intros p r err p' Hstep Hp H; cbn [ast_loop] in H.
  - inversion H; subst; exact Hp.
  - destruct (visit i p) as [[[r0 e0] p1]|] eqn:Hv; [|discriminate].
    pose proof (Hstep i p r0 e0 p1 Hp Hv) as Hp1.
    destruct r0.
    + apply (IH p1 r err p' Hstep Hp1 H).
    + destruct e0 as [m|].
      * inversion H; subst; exact Hp1.
      * apply (IH p1 r err p' Hstep Hp1 H).
Qed.

Lemma ast_loop_none (P : plan -> Prop) visit : forall ins p,
  (forall i p0 r0 e0 p1, P p0 -> visit i p0 = Some (r0, e0, p1) -> P p1) ->
  P p -> ast_loop visit ins p = None -> exists i p0, P p0 /\ visit i p0 = None.
Proof.
  induction ins as [|i ins IH]; intros p Hstep Hp H; cbn [ast_loop] in H; [discriminate|].
  destruct (visit i p) as [[[r0 e0] p1]|] eqn:Hv; [|exists i, p; split; assumption].
  pose proof (Hstep i p r0 e0 p1 Hp Hv) as Hp1.
  destruct r0; [apply (IH p1 Hstep Hp1 H)|].
  destruct e0 as [m|]; [discriminate|apply (IH p1 Hstep Hp1 H)].
Qed.

Lemma pmono_refl a : pmono a a.
Proof. intros e H; exact H. Qed.
Lemma pmono_trans a b c : pmono a b -> pmono b c -> pmono a c.
Proof. intros H K e He. apply H, K, He. Qed.

Lemma pmono_set_want p e v : pmono p (set_want p e v).
Proof.
  intros e' H. cbn [set_want p_want] in H. destruct (Nat.eqb e' e); [discriminate|exact H].
Qed.
Lemma pmono_edge_wanted p e : pmono p (edge_wanted g p e).
Proof. intros e' H. exact H. Qed.

Lemma ast_mono : forall f s dep n p r err p',
  add_sub_target g f s dep n p = Some (r, err, p') -> pmono p p'.
Proof.
  induction f as [|f IH]; intros s dep n p r err p' H; [discriminate|].
  cbn [add_sub_target] in H.
  destruct (g_producer g n) as [e|].
  2:{ destruct (_ && _); inversion H; subst; apply pmono_refl. }
  destruct (es_ready (st_edge s e)); [inversion H; subst; apply pmono_refl|].
  set (w0 := match p_want p e with None => WantNothing | Some v => v end) in *.
  set (p1 := set_want p e w0) in *.
  set (p2 := if (ns_dirty (st_node s n) && match w0 with WantNothing => true | _ => false end)%bool
             then edge_wanted g (set_want p1 e WantToStart) e else p1) in *.
  assert (M2 : pmono p p2).
  { subst p2. destruct (_ && _).
    - eapply pmono_trans; [apply pmono_set_want|]. eapply pmono_trans; [apply pmono_set_want|apply pmono_edge_wanted].
    - apply pmono_set_want. }
  destruct (negb _); [inversion H; subst; exact M2|].
  apply (pmono_trans p p2 p' M2).
  apply (ast_loop_ok (fun q => pmono p2 q) _ _ _ _ _ _ (fun i p0 r0 e0 p1' Hq Hv => pmono_trans _ _ _ Hq (IH _ _ _ _ _ _ _ Hv))
                     (pmono_refl p2) H).
Qed.

Lemma ast_fuel : forall f s dep n p, pcount p N < f -> add_sub_target g f s dep n p <> None.
Proof.
  induction f as [|f IH]; intros s dep n p Hc; [lia|].
  cbn [add_sub_target].
  destruct (g_producer g n) as [e|] eqn:Hp.
  2:{ destruct (_ && _); discriminate. }
  destruct (es_ready (st_edge s e)); [discriminate|].
  set (w0 := match p_want p e with None => WantNothing | Some v => v end) in *.
  set (p1 := set_want p e w0) in *.
  set (p2 := if (ns_dirty (st_node s n) && match w0 with WantNothing => true | _ => false end)%bool
             then edge_wanted g (set_want p1 e WantToStart) e else p1) in *.
  destruct (p_want p e) as [v|] eqn:Wp; cbn [negb]; [discriminate|].
  assert (M2 : pmono p p2).
  { subst p2. destruct (_ && _).
    - eapply pmono_trans; [apply pmono_set_want|]. eapply pmono_trans; [apply pmono_set_want|apply pmono_edge_wanted].
    - apply pmono_set_want. }
  assert (W2 : p_want p2 e <> None).
  { subst p2 p1. destruct (_ && _); cbn [edge_wanted set_want p_want]; rewrite Nat.eqb_refl; discriminate. }
  pose proof (pcount_flip p p2 e Wp W2 M2 N (Hwf n e Hp)) as Hlt.
  intros H.
  assert (Hq2 : pcount p2 N < f) by lia.
  destruct (ast_loop_none (fun q => pcount q N < f) _ _ p2
              (fun i p0 r0 e0 p1' Hq Hv => Nat.le_lt_trans _ _ _ (pcount_mono _ _ (ast_mono _ _ _ _ _ _ _ _ Hv) N) Hq)
              Hq2 H) as [i [p0 [Hq Hv]]].
  apply (IH _ _ _ _ Hq Hv).
Qed.

Lemma plan_add_target_fuel s n p : plan_add_target g s n p <> None.
Proof. apply ast_fuel. unfold plan_fuel. pose proof (pcount_le p N). lia. Qed.

Lemma avt_fuel : forall vnodes s p, add_validation_targets g s vnodes p <> ScanOutOfFuel.
Proof.
  induction vnodes as [|v vnodes IH]; intros s p; cbn [add_validation_targets]; [discriminate|].
  destruct (g_producer g v) as [ve|]; [|apply IH].
  destruct (es_ready (st_edge s ve)); [apply IH|].
  pose proof (plan_add_target_fuel s v p) as Hf.
  destruct (plan_add_target g s v p) as [[[r err] p']|]; [|congruence].
  destruct r; [apply IH|]. destruct err as [[m d]|]; discriminate.
Qed.

Lemma bat_fuel s p t : builder_add_target g w s p t <> ScanOutOfFuel.
Proof.
  unfold builder_add_target. pose proof (recompute_dirty_fuel s t) as Hr.
  destruct (recompute_dirty g w s t) as [[s1 vn]|c|e|]; try discriminate; [|congruence].
  destruct (match g_producer g t with Some e => negb (es_ready (st_edge s1 e)) | None => true end).
  - pose proof (plan_add_target_fuel s1 t p) as Hf.
    destruct (plan_add_target g s1 t p) as [[[r err] p']|]; [|congruence].
    destruct r; [apply avt_fuel|]. destruct err as [[m d]|]; discriminate.
  - apply avt_fuel.
Qed.

(* the fuel is never the reason for a result: the recursion depth is bounded by the number of
   statements (each nested frame holds a different statement InStack), the queue of validation
   nodes by their total number *)
Theorem scan_fuel_sufficient targets : scan g w targets <> ScanOutOfFuel.
Proof.
  unfold scan. generalize (init_state g) init_plan.
  induction targets as [|t targets IH]; intros s p; cbn [add_targets]; [discriminate|].
  pose proof (bat_fuel s p t) as Hb.
  destruct (builder_add_target g w s p t); try discriminate; [congruence|apply IH].
Qed.

End Fuel.

(* ================================================================== Part 4: C17 completeness *)
(* inputs are never removed *)
Definition keeps (a b : sstate) : Prop := forall e, incl (ins_of a e) (ins_of b e).

Lemma keeps_refl a : keeps a a.
Proof. intros e. apply incl_refl. Qed.
Lemma keeps_trans a b c : keeps a b -> keeps b c -> keeps a c.
Proof. intros H K e. eapply incl_tran; [apply H|apply K]. Qed.
Lemma keeps_of_ins_eq a b : (forall e, ins_of b e = ins_of a e) -> keeps a b.
Proof. intros H e. rewrite H. apply incl_refl. Qed.
Lemma keeps_of_deps_step e a b l : deps_step e a b l -> keeps a b.
Proof.
  intros [H1 [_ [H3 _]]] e' x Hx. destruct (Nat.eq_dec e' e) as [->|Hne].
  - apply H3. left; exact Hx.
  - rewrite (H1 e' Hne). exact Hx.
Qed.

Lemma visit_all_simple (R : sstate -> sstate -> Prop) f st :
  (forall a, R a a) -> (forall a b c, R a b -> R b c -> R a c) ->
  (forall i s vs s' vs', rnd f st i (s, vs) = SOk (s', vs') -> R s s') ->
  forall l s vs s' vs', visit_all (rnd f st) l (s, vs) = SOk (s', vs') -> R s s'.
Proof.
  intros Rrefl Rtrans Hone l s vs s' vs' V.
  destruct (visit_all_rel (fun _ => True) (fun a b : sv => R (fst a) (fst b)) (fun _ _ => True) (rnd f st)
                          (fun a => Rrefl (fst a)) (fun a b c => Rtrans (fst a) (fst b) (fst c))
                          (fun _ _ _ _ _ => I) l) with (a := (s, vs)) (a' := (s', vs')) as [_ [HR _]];
    [|exact I|exact V|exact HR].
  intros i [sa va] [sb vb] _ _ Hv. split; [exact I|]. split; [|exact I]. apply (Hone _ _ _ _ _ Hv).
Qed.

Lemma rnd_keeps : forall f stack n s vs s' vs',
  rnd f stack n (s, vs) = SOk (s', vs') -> keeps s s'.
Proof.
  induction f as [|f IH]; intros stack n s vs s' vs' H; [discriminate|].
  destruct (g_producer g n) as [e|] eqn:Hp.
  2:{ cbn [recompute_node_dirty] in H. rewrite Hp in H. apply keeps_of_ins_eq.
      assert (E : st_edge s' = st_edge s).
      { destruct (n_known (st_node s n)); inversion H; subst; [reflexivity|].
        cbn [set_dirty upd_node st_edge]. apply st_edge_stat_if_necessary. }
      intros e. rewrite E. reflexivity. }
  destruct (mark_of s e) eqn:Hm.
  2:{ cbn [recompute_node_dirty] in H. rewrite Hp, Hm in H. discriminate. }
  2:{ cbn [recompute_node_dirty] in H. rewrite Hp, Hm in H. inversion H; subst. apply keeps_refl. }
  destruct (rnd_none_ok f stack n e s vs Hp Hm s' vs' H)
    as [s3 [vs3 [s5 [new_ins [s6 [s7 [s8 [d [V1 [L35 [D56 [V2 [L78 Hs']]]]]]]]]]]]].
  destruct (s2_props e s) as [A2 [M2 I2]].
  set (s2 := stat_outputs w (enter_edge s e) (edge_outs g e)) in *.
  pose proof (visit_all_simple keeps f (stack ++ [n]) keeps_refl keeps_trans (IH (stack ++ [n])) _ _ _ _ _ V1) as K23.
  pose proof (visit_all_simple keeps f (stack ++ [n]) keeps_refl keeps_trans (IH (stack ++ [n])) _ _ _ _ _ V2) as K67.
  destruct (finish_edge_props e s8 d) as [A9 [M9 I9]]. rewrite <- Hs' in A9, M9, I9.
  apply (keeps_trans s s2 s').
  { apply keeps_of_ins_eq. intros e'. destruct (Nat.eq_dec e' e) as [->|Hne]; [exact I2|].
    rewrite (A2 e' Hne). reflexivity. }
  apply (keeps_trans s2 s3 s' K23).
  apply (keeps_trans s3 s5 s'); [apply keeps_of_ins_eq, (ins_eq_of_local e); exact L35|].
  apply (keeps_trans s5 s6 s'); [eapply keeps_of_deps_step; exact D56|].
  apply (keeps_trans s6 s7 s' K67).
  apply (keeps_trans s7 s8 s'); [apply keeps_of_ins_eq, (ins_eq_of_local e); exact L78|].
  apply keeps_of_ins_eq. intros e'. destruct (Nat.eq_dec e' e) as [->|Hne]; [exact I9|].
  rewrite (A9 e' Hne). reflexivity.
Qed.

(* Appendix D.2 (a): the Done edges are closed under the relation and ranked by finish order *)
Definition ranked_by (rank : edge -> nat) (K : nat) (s : sstate) : Prop :=
  forall e, mark_of s e = VisitDone ->
    rank e < K /\
    forall i e', In i (ins_of s e) -> g_producer g i = Some e' ->
                 mark_of s e' = VisitDone /\ rank e' < rank e.
Definition Ranked (s : sstate) : Prop := exists rank K, ranked_by rank K s.

(* the Done part of the state is the same *)
Definition same_done (a b : sstate) : Prop :=
  forall e, (mark_of b e = VisitDone <-> mark_of a e = VisitDone) /\
            (mark_of a e = VisitDone -> ins_of b e = ins_of a e).

Lemma ranked_same_done rank K a b : same_done a b -> ranked_by rank K a -> ranked_by rank K b.
Proof.
  intros H HR e He. destruct (H e) as [Hiff Hins]. apply Hiff in He.
  destruct (HR e He) as [HK Hsucc]. split; [exact HK|].
  intros i e' Hi Hp. rewrite (Hins He) in Hi. destruct (Hsucc i e' Hi Hp) as [Hd Hlt].
  split; [apply (proj1 (H e')); exact Hd|exact Hlt].
Qed.

Lemma same_done_of_local e a b : local e a b -> same_done a b.
Proof.
  intros L e'. rewrite (marks_eq_of_local e a b L e'), (ins_eq_of_local e a b L e'). tauto.
Qed.

Lemma same_done_of_others e a b :
  (forall e', e' <> e -> st_edge b e' = st_edge a e') ->
  mark_of a e <> VisitDone -> mark_of b e <> VisitDone -> same_done a b.
Proof.
  intros H Ha Hb e'. destruct (Nat.eq_dec e' e) as [->|Hne]; [tauto|].
  rewrite (H e' Hne). tauto.
Qed.

Lemma rnd_ranked : forall f stack n s vs s' vs',
  rnd f stack n (s, vs) = SOk (s', vs') -> Ranked s -> Ranked s'.
Proof.
  induction f as [|f IH]; intros stack n s vs s' vs' H HR; [discriminate|].
  destruct (g_producer g n) as [e|] eqn:Hp.
  2:{ cbn [recompute_node_dirty] in H. rewrite Hp in H.
      assert (E : st_edge s' = st_edge s).
      { destruct (n_known (st_node s n)); inversion H; subst; [reflexivity|].
        cbn [set_dirty upd_node st_edge]. apply st_edge_stat_if_necessary. }
      destruct HR as [rank [K HR]]. exists rank, K. apply (ranked_same_done rank K s s'); [|exact HR].
      intros e. rewrite E. tauto. }
  destruct (mark_of s e) eqn:Hm.
  2:{ cbn [recompute_node_dirty] in H. rewrite Hp, Hm in H. discriminate. }
  2:{ cbn [recompute_node_dirty] in H. rewrite Hp, Hm in H. inversion H; subst. exact HR. }
  destruct (rnd_none_ok f stack n e s vs Hp Hm s' vs' H)
    as [s3 [vs3 [s5 [new_ins [s6 [s7 [s8 [d [V1 [L35 [D56 [V2 [L78 Hs']]]]]]]]]]]]].
  destruct (s2_props e s) as [A2 [M2 I2]].
  set (s2 := stat_outputs w (enter_edge s e) (edge_outs g e)) in *.
  (* the two runs of visits: Ranked kept, ext, every visited input Done afterwards *)
  set (R := fun a b : sv => ext (fst a) (fst b)).
  set (Q := fun (i : node) (a : sv) => done_of i (fst a)).
  assert (Rrefl : forall a, R a a) by (intros a; apply ext_refl).
  assert (Rtrans : forall a b c, R a b -> R b c -> R a c) by (intros a b c; apply ext_trans).
  assert (Qst : forall i a0 a1, R a0 a1 -> Q i a0 -> Q i a1).
  { intros i a0 a1 H1 HQ e' He'. apply (ext_done (fst a0) (fst a1) e' H1). apply HQ; exact He'. }
  assert (Hstep : forall l i (a0 a1 : sv), In i l -> Ranked (fst a0) -> rnd f (stack ++ [n]) i a0 = SOk a1 ->
                                   Ranked (fst a1) /\ R a0 a1 /\ Q i a1).
  { intros l i [sa va] [sb vb] _ Ha Hv. destruct (rnd_ok _ _ _ _ _ _ _ Hv) as [E [_ D]].
    split; [apply (IH _ _ _ _ _ _ Hv Ha)|]. split; [exact E|exact D]. }
  assert (HR2 : Ranked s2).
  { destruct HR as [rank [K HR]]. exists rank, K. apply (ranked_same_done rank K s s2); [|exact HR].
    apply (same_done_of_others e); [exact A2|rewrite Hm; discriminate|rewrite M2; discriminate]. }
  destruct (visit_all_rel (fun a : sv => Ranked (fst a)) R Q _ Rrefl Rtrans Qst _ (Hstep _)
                          (s2, vs ++ ei_vals (g_edge g e)) (s3, vs3) HR2 V1) as [HR3 [E23 Q3]].
  cbn [fst] in HR3, E23.
  assert (M3 : mark_of s3 e = VisitInStack).
  { rewrite (ext_marked s2 s3 e E23); [exact M2|rewrite M2; discriminate]. }
  assert (I3 : ins_of s3 e = ins_of s2 e).
  { rewrite (ext_marked s2 s3 e E23); [reflexivity|rewrite M2; discriminate]. }
  assert (M5 : mark_of s5 e = VisitInStack) by (rewrite (proj1 (proj2 L35)); exact M3).
  assert (M6 : mark_of s6 e = VisitInStack) by (rewrite (proj1 (proj2 D56)); exact M5).
  assert (HR6 : Ranked s6).
  { destruct HR3 as [rank [K HR3]]. exists rank, K.
    apply (ranked_same_done rank K s5 s6).
    - apply (same_done_of_others e); [exact (proj1 D56)|rewrite M5; discriminate|rewrite M6; discriminate].
    - apply (ranked_same_done rank K s3 s5); [eapply same_done_of_local; exact L35|exact HR3]. }
  destruct (visit_all_rel (fun a : sv => Ranked (fst a)) R Q _ Rrefl Rtrans Qst _ (Hstep _)
                          (s6, vs3) (s7, vs') HR6 V2) as [HR7 [E67 Q7]].
  cbn [fst] in HR7, E67.
  assert (M7 : mark_of s7 e = VisitInStack).
  { rewrite (ext_marked s6 s7 e E67); [exact M6|rewrite M6; discriminate]. }
  assert (I7 : ins_of s7 e = ins_of s6 e).
  { rewrite (ext_marked s6 s7 e E67); [reflexivity|rewrite M6; discriminate]. }
  assert (M8 : mark_of s8 e = VisitInStack) by (rewrite (proj1 (proj2 L78)); exact M7).
  (* every input of e at the end was visited, and is Done in s8 *)
  assert (D8 : forall i, In i (ins_of s8 e) -> done_of i s8).
  { intros i Hi. rewrite (proj2 (proj2 L78)), I7 in Hi.
    apply (proj1 (proj2 (proj2 D56))) in Hi.
    assert (D7 : done_of i s7).
    { destruct Hi as [Hi|Hi].
      - rewrite (proj2 (proj2 L35)), I3 in Hi.
        pose proof (Q3 i Hi) as D3. unfold Q in D3. cbn [fst] in D3.
        intros e' He'. apply (ext_done s6 s7 e' E67).
        destruct (Nat.eq_dec e' e) as [->|Hne].
        + specialize (D3 e He'). congruence.
        + rewrite (proj1 D56 e' Hne). rewrite (marks_eq_of_local e s3 s5 L35 e'). apply D3; exact He'.
      - apply (Q7 i Hi). }
    intros e' He'. rewrite (marks_eq_of_local e s7 s8 L78 e'). apply D7; exact He'. }
  destruct HR7 as [rank [K HR7]].
  assert (HR8 : ranked_by rank K s8).
  { apply (ranked_same_done rank K s7 s8); [eapply same_done_of_local; exact L78|exact HR7]. }
  destruct (finish_edge_props e s8 d) as [A9 [M9 I9]]. rewrite <- Hs' in A9, M9, I9.
  exists (fun x => if Nat.eqb x e then K else rank x), (S K).
  intros x Hx. destruct (Nat.eqb_spec x e) as [->|Hne].
  - split; [lia|]. intros i e' Hi He'. rewrite I9 in Hi.
    pose proof (D8 i Hi e' He') as Hd.
    assert (Hne : e' <> e) by (intros ->; congruence).
    split; [rewrite (A9 e' Hne); exact Hd|].
    destruct (Nat.eqb_spec e' e) as [->|_]; [contradiction|].
    apply (proj1 (HR8 e' Hd)).
  - rewrite (A9 x Hne) in Hx. destruct (HR8 x Hx) as [HK Hsucc]. split; [lia|].
    intros i e' Hi He'. rewrite (A9 x Hne) in Hi. destruct (Hsucc i e' Hi He') as [Hd Hlt].
    assert (Hne' : e' <> e) by (intros ->; congruence).
    split; [rewrite (A9 e' Hne'); exact Hd|].
    destruct (Nat.eqb_spec e' e) as [->|_]; [contradiction|exact Hlt].
Qed.

(* ---- top level *)
Definition topstep (s s' : sstate) : Prop := ext s s' /\ keeps s s' /\ (Ranked s -> Ranked s').

Lemma topstep_refl s : topstep s s.
Proof. split; [apply ext_refl|]. split; [apply keeps_refl|tauto]. Qed.
Lemma topstep_trans a b c : topstep a b -> topstep b c -> topstep a c.
Proof.
  intros [E1 [K1 R1]] [E2 [K2 R2]]. split; [eapply ext_trans; eassumption|].
  split; [eapply keeps_trans; eassumption|tauto].
Qed.

Lemma done_of_ext i a b : ext a b -> done_of i a -> done_of i b.
Proof. intros E D e He. apply (ext_done a b e E). apply D; exact He. Qed.

Lemma rnd_top f st n s vs s' vs' :
  rnd f st n (s, vs) = SOk (s', vs') -> topstep s s' /\ done_of n s'.
Proof.
  intros H. destruct (rnd_ok _ _ _ _ _ _ _ H) as [E [_ D]].
  split; [|exact D]. split; [exact E|]. split; [apply (rnd_keeps _ _ _ _ _ _ _ H)|apply (rnd_ranked _ _ _ _ _ _ _ H)].
Qed.

Lemma loop_top : forall qf queue s found s' vs',
  recompute_dirty_loop g w qf queue s found = SOk (s', vs') ->
  topstep s s' /\ forall n, In n queue -> done_of n s'.
Proof.
  induction qf as [|qf IH]; intros queue s found s' vs' H; destruct queue as [|n queue];
    cbn [recompute_dirty_loop] in H; try discriminate.
  - inversion H; subst. split; [apply topstep_refl|intros n []].
  - inversion H; subst. split; [apply topstep_refl|intros n []].
  - destruct (rnd (scan_fuel g) [] n (s, [])) as [[s1 newv]|c|e|] eqn:Hv; try discriminate.
    destruct (rnd_top _ _ _ _ _ _ _ Hv) as [T1 D1].
    destruct (IH _ _ _ _ _ H) as [T2 D2].
    split; [eapply topstep_trans; eassumption|].
    intros m [<-|Hm].
    + apply (done_of_ext n s1 s' (proj1 T2) D1).
    + apply D2. apply in_or_app. left; exact Hm.
Qed.

Lemma bat_ok s p t s' p' :
  builder_add_target g w s p t = ScanOk s' p' -> topstep s s' /\ done_of t s'.
Proof.
  intros H. pose proof (bat_result s p t) as Hb. rewrite H in Hb. destruct Hb as [vn Hb].
  destruct (loop_top _ _ _ _ _ _ Hb) as [T D]. split; [exact T|apply D; left; reflexivity].
Qed.

Lemma bat_missing s p t m d :
  builder_add_target g w s p t = ScanMissing m d ->
  exists s' vn, recompute_dirty g w s t = SOk (s', vn).
Proof.
  unfold builder_add_target.
  destruct (recompute_dirty g w s t) as [[s1 vn]|c|e|]; try discriminate.
  intros _. exists s1, vn. reflexivity.
Qed.

Lemma add_targets_ok : forall targets s p s' p',
  add_targets g w s p targets = ScanOk s' p' ->
  topstep s s' /\ forall t, In t targets -> done_of t s'.
Proof.
  induction targets as [|t targets IH]; intros s p s' p' H; cbn [add_targets] in H.
  - inversion H; subst. split; [apply topstep_refl|intros t []].
  - destruct (builder_add_target g w s p t) as [c|m d|e| |s1 p1] eqn:Hb; try discriminate.
    destruct (bat_ok _ _ _ _ _ Hb) as [T1 D1]. destruct (IH _ _ _ _ H) as [T2 D2].
    split; [eapply topstep_trans; eassumption|].
    intros x [<-|Hx]; [apply (done_of_ext t s1 s' (proj1 T2) D1)|apply D2; exact Hx].
Qed.

Lemma Ranked_init : Ranked (init_state g).
Proof. exists (fun _ => 0), 0. intros e He. cbn in He. discriminate. Qed.

(* what an accepted scan established: the Done statements are closed under "is an input of",
   ranked by finish order (hence acyclic), contain the producers of the targets, and no manifest
   input was dropped *)
Theorem C17_complete_final targets s p :
  scan g w targets = ScanOk s p ->
  (exists rank K, ranked_by rank K s) /\
  (forall t, In t targets -> done_of t s) /\
  (forall e, incl (ei_ins (g_edge g e)) (ins_of s e)).
Proof.
  intros H. destruct (add_targets_ok _ _ _ _ _ H) as [[_ [K R]] D].
  split; [apply R, Ranked_init|]. split; [exact D|]. intros e. apply (K e).
Qed.

(* a state like that cannot coexist with a cycle of the manifest relation inside a set of nodes
   that is closed under "input of" and whose producers are all Done *)
Lemma accepted_no_cycle_gen (P : node -> Prop) s rank K c :
  ranked_by rank K s ->
  (forall x, P x -> done_of x s) ->
  (forall x y, P x -> step_via g (manifest_ins g) x y -> P y) ->
  (forall e, incl (ei_ins (g_edge g e)) (ins_of s e)) ->
  closed_walk_via g (manifest_ins g) c ->
  (forall x, hd_error c = Some x -> P x) ->
  False.
Proof.
  intros HR Hdone Hclosed HK Hc Hreach.
  set (insD := fun e => match mark_of s e with VisitDone => ins_of s e | _ => [] end).
  assert (Hrk : ranked_via g insD rank).
  { intros e i e' Hi He'. unfold insD in Hi. destruct (mark_of s e) eqn:Me; try destruct Hi.
    apply (proj2 (HR e Me) i e' Hi He'). }
  assert (Hwalk : forall l x, P x -> walk_via g (manifest_ins g) (x :: l) -> walk_via g insD (x :: l)).
  { induction l as [|y l IHl]; intros x Hx Hw; [apply walk_one|].
    destruct (walk_cons_inv _ x y l Hw) as [[ex [Hex Hin]] Hrest].
    apply walk_cons.
    - exists ex. split; [exact Hex|]. unfold insD. rewrite (Hdone x Hx ex Hex). apply HK; exact Hin.
    - apply IHl; [|exact Hrest]. apply (Hclosed x y Hx). exists ex. split; assumption. }
  destruct Hc as [Hw [Hlen Hhd]].
  destruct c as [|x l]; [cbn in Hlen; lia|].
  apply (ranked_acyclic insD rank Hrk (x :: l)).
  split; [apply Hwalk; [apply Hreach; reflexivity|exact Hw]|]. split; assumption.
Qed.

Lemma accepted_no_cycle targets s rank K c :
  ranked_by rank K s ->
  (forall t, In t targets -> done_of t s) ->
  (forall e, incl (ei_ins (g_edge g e)) (ins_of s e)) ->
  closed_walk_via g (manifest_ins g) c ->
  (forall x, hd_error c = Some x -> reach_via g (manifest_ins g) targets x) ->
  False.
Proof.
  intros HR HD HK Hc Hreach.
  apply (accepted_no_cycle_gen (reach_via g (manifest_ins g) targets) s rank K c HR); try assumption.
  - intros x Hx. induction Hx as [t Ht|x y Hx IHx [ex [Hex Hin]]].
    + apply HD; exact Ht.
    + intros ey Hey. pose proof (IHx ex Hex) as Dex.
      apply (proj2 (HR ex Dex) y ey); [apply HK; exact Hin|exact Hey].
  - intros x y Hx Hs. apply (reach_step _ _ _ x y Hx Hs).
Qed.

(* C17, completeness: a cycle of the manifest relation among what the targets need (not through
   validations) is never accepted *)
Theorem C17_complete targets c :
  closed_walk_via g (manifest_ins g) c ->
  (forall x, hd_error c = Some x -> reach_via g (manifest_ins g) targets x) ->
  forall s p, scan g w targets <> ScanOk s p.
Proof.
  intros Hc Hreach s p H.
  destruct (C17_complete_final targets s p H) as [[rank [K HR]] [HD HK]].
  apply (accepted_no_cycle targets s rank K c HR HD HK Hc Hreach).
Qed.

(* ... and with one target the answer is the cycle diagnosis itself (or a broken depfile met
   before the cycle was closed) *)
Theorem C17_complete_single t c :
  wf_graph g ->
  closed_walk_via g (manifest_ins g) c ->
  (forall x, hd_error c = Some x -> reach_via g (manifest_ins g) [t] x) ->
  (exists c', scan g w [t] = ScanCycle c') \/ (exists e, scan g w [t] = ScanLoadErr e).
Proof.
  intros Hwf Hc Hreach.
  pose proof (scan_fuel_sufficient Hwf [t]) as Hfuel.
  pose proof (C17_complete [t] c Hc Hreach) as Hno.
  unfold scan in *. cbn [add_targets] in *.
  destruct (builder_add_target g w (init_state g) init_plan t) as [c'|m d|e| |s1 p1] eqn:Hb.
  - left. exists c'. reflexivity.
  - exfalso. destruct (bat_missing _ _ _ _ _ Hb) as [s' [vn Hr]].
    destruct (loop_top _ _ _ _ _ _ Hr) as [[_ [K R]] D].
    destruct (R Ranked_init) as [rank [K0 HR]].
    apply (accepted_no_cycle [t] s' rank K0 c HR); [|intros e; apply (K e)|exact Hc|exact Hreach].
    intros x [<-|[]]. apply D. left; reflexivity.
  - right. exists e. reflexivity.
  - congruence.
  - exfalso. apply (Hno s1 p1). reflexivity.
Qed.

(* for any list of targets the result is one of the three diagnoses *)
Theorem C17_complete_kinds targets c :
  wf_graph g ->
  closed_walk_via g (manifest_ins g) c ->
  (forall x, hd_error c = Some x -> reach_via g (manifest_ins g) targets x) ->
  match scan g w targets with
  | ScanCycle _ | ScanLoadErr _ | ScanMissing _ _ => True
  | _ => False
  end.
Proof.
  intros Hwf Hc Hreach.
  pose proof (scan_fuel_sufficient Hwf targets) as Hfuel.
  pose proof (C17_complete targets c Hc Hreach) as Hno.
  destruct (scan g w targets) as [c'|m d|e| |s1 p1]; try exact I; [congruence|].
  apply (Hno s1 p1). reflexivity.
Qed.

(* ---- validations: every validation target of a visited statement is scanned too *)
Definition vcover (a b : sv) : Prop :=
  ext (fst a) (fst b) /\ incl (snd a) (snd b) /\
  forall e, mark_of (fst a) e = VisitNone -> mark_of (fst b) e = VisitDone ->
            incl (ei_vals (g_edge g e)) (snd b).

Lemma vcover_refl a : vcover a a.
Proof.
  split; [apply ext_refl|]. split; [apply incl_refl|]. intros e H1 H2. congruence.
Qed.

Lemma vcover_trans a b c : vcover a b -> vcover b c -> vcover a c.
Proof.
  intros [E1 [I1 C1]] [E2 [I2 C2]]. split; [eapply ext_trans; eassumption|].
  split; [eapply incl_tran; eassumption|].
  intros e Ha Hc. pose proof (E1 e) as Cl. unfold clause in Cl. rewrite Ha in Cl.
  destruct Cl as [Heq|Hd].
  - apply C2; [rewrite Heq; exact Ha|exact Hc].
  - eapply incl_tran; [apply (C1 e Ha Hd)|exact I2].
Qed.

Lemma rnd_vcover : forall f stack n s vs s' vs',
  rnd f stack n (s, vs) = SOk (s', vs') -> vcover (s, vs) (s', vs').
Proof.
  induction f as [|f IH]; intros stack n s vs s' vs' H; [discriminate|].
  destruct (rnd_ok _ _ _ _ _ _ _ H) as [Eext _].
  destruct (g_producer g n) as [e|] eqn:Hp.
  2:{ cbn [recompute_node_dirty] in H. rewrite Hp in H.
      assert (E : st_edge s' = st_edge s /\ vs' = vs).
      { destruct (n_known (st_node s n)); inversion H; subst; [split; reflexivity|].
        split; [|reflexivity]. cbn [set_dirty upd_node st_edge]. apply st_edge_stat_if_necessary. }
      destruct E as [E ->]. split; [exact Eext|]. split; [apply incl_refl|].
      intros e0 H1 H2. cbn [fst] in *. rewrite E in H2. congruence. }
  destruct (mark_of s e) eqn:Hm.
  2:{ cbn [recompute_node_dirty] in H. rewrite Hp, Hm in H. discriminate. }
  2:{ cbn [recompute_node_dirty] in H. rewrite Hp, Hm in H. inversion H; subst. apply vcover_refl. }
  destruct (rnd_none_ok f stack n e s vs Hp Hm s' vs' H)
    as [s3 [vs3 [s5 [new_ins [s6 [s7 [s8 [d [V1 [L35 [D56 [V2 [L78 Hs']]]]]]]]]]]]].
  destruct (s2_props e s) as [A2 [M2 I2]].
  set (s2 := stat_outputs w (enter_edge s e) (edge_outs g e)) in *.
  assert (Hstep : forall l i (a0 a1 : sv), In i l -> True -> rnd f (stack ++ [n]) i a0 = SOk a1 ->
                                   True /\ vcover a0 a1 /\ True).
  { intros l i [sa va] [sb vb] _ _ Hv. split; [exact I|]. split; [apply (IH _ _ _ _ _ _ Hv)|exact I]. }
  destruct (visit_all_rel (fun _ => True) vcover (fun _ _ => True) _ vcover_refl vcover_trans
                          (fun _ _ _ _ _ => I) _ (Hstep _) (s2, vs ++ ei_vals (g_edge g e)) (s3, vs3) I V1)
    as [_ [[E23 [I23 C23]] _]].
  destruct (visit_all_rel (fun _ => True) vcover (fun _ _ => True) _ vcover_refl vcover_trans
                          (fun _ _ _ _ _ => I) _ (Hstep _) (s6, vs3) (s7, vs') I V2)
    as [_ [[E67 [I67 C67]] _]].
  cbn [fst snd] in *.
  destruct (finish_edge_props e s8 d) as [A9 [M9 _]]. rewrite <- Hs' in A9, M9.
  split; [exact Eext|]. split.
  - intros x Hx. apply I67, I23. apply in_or_app. left; exact Hx.
  - intros e0 H0 Hd. cbn [fst snd] in *. destruct (Nat.eq_dec e0 e) as [->|Hne].
    + intros x Hx. apply I67, I23. apply in_or_app. right; exact Hx.
    + rewrite (A9 e0 Hne) in Hd. rewrite (marks_eq_of_local e s7 s8 L78 e0) in Hd.
      assert (H2 : mark_of s2 e0 = VisitNone) by (rewrite (A2 e0 Hne); exact H0).
      pose proof (E23 e0) as Cl. unfold clause in Cl. rewrite H2 in Cl. destruct Cl as [Heq|Hd3].
      * apply (C67 e0); [|exact Hd].
        rewrite (proj1 D56 e0 Hne), (marks_eq_of_local e s3 s5 L35 e0), Heq. exact H2.
      * eapply incl_tran; [apply (C23 e0 H2 Hd3)|exact I67].
Qed.

(* the validation targets of every Done statement are Done or still queued *)
Definition VQ (queue : list node) (s : sstate) : Prop :=
  forall e, mark_of s e = VisitDone -> forall v, In v (ei_vals (g_edge g e)) -> done_of v s \/ In v queue.

Lemma loop_VQ : forall qf queue s found s' vs',
  recompute_dirty_loop g w qf queue s found = SOk (s', vs') ->
  Inv [] s -> VQ queue s -> VQ [] s'.
Proof.
  induction qf as [|qf IH]; intros queue s found s' vs' H HI HV; destruct queue as [|n queue];
    cbn [recompute_dirty_loop] in H; try discriminate.
  - inversion H; subst; exact HV.
  - inversion H; subst; exact HV.
  - destruct (rnd (scan_fuel g) [] n (s, [])) as [[s1 newv]|c|e|] eqn:Hv; try discriminate.
    apply (IH _ _ _ _ _ H); [apply (rnd_top_Inv _ _ _ _ _ _ Hv HI)|].
    destruct (rnd_vcover _ _ _ _ _ _ _ Hv) as [E [_ C]]. cbn [fst snd] in *.
    destruct (rnd_ok _ _ _ _ _ _ _ Hv) as [_ [_ Dn]].
    intros e He v Hin. destruct (mark_of s e) eqn:Ms.
    + right. apply in_or_app. right. apply (C e Ms He). exact Hin.
    + destruct (proj1 HI e Ms) as [x [[] _]].
    + destruct (HV e Ms v Hin) as [Hd|[<-|Hq]].
      * left. intros e' He'. apply (ext_done s s1 e' E). apply Hd; exact He'.
      * left. exact Dn.
      * right. apply in_or_app. left; exact Hq.
Qed.

Lemma VQ_weaken q s : VQ [] s -> VQ q s.
Proof. intros H e He v Hv. destruct (H e He v Hv) as [Hd|[]]. left; exact Hd. Qed.

Lemma add_targets_VQ : forall targets s p s' p',
  add_targets g w s p targets = ScanOk s' p' -> Inv [] s -> VQ [] s -> VQ [] s'.
Proof.
  induction targets as [|t targets IH]; intros s p s' p' H HI HV; cbn [add_targets] in H.
  - inversion H; subst; exact HV.
  - pose proof (bat_result s p t) as Hb.
    destruct (builder_add_target g w s p t) as [c|m d|e| |s1 p1]; try discriminate.
    destruct Hb as [vn Hb]. apply (IH _ _ _ _ H).
    + apply (loop_Inv _ _ _ _ _ _ Hb HI).
    + apply (loop_VQ _ _ _ _ _ _ Hb HI). apply VQ_weaken; exact HV.
Qed.

(* C17, completeness including the validation targets: a manifest cycle among what the targets
   need, counting what their validation targets need, is never accepted *)
Theorem C17_complete_validations targets c :
  closed_walk_via g (manifest_ins g) c ->
  (forall x, hd_error c = Some x -> reach_val g targets x) ->
  forall s p, scan g w targets <> ScanOk s p.
Proof.
  intros Hc Hreach s p H.
  destruct (C17_complete_final targets s p H) as [[rank [K HR]] [HD HK]].
  assert (HV : VQ [] s).
  { apply (add_targets_VQ _ _ _ _ _ H Inv_init). intros e He. cbn in He. discriminate. }
  apply (accepted_no_cycle_gen (reach_val g targets) s rank K c HR); try assumption.
  - intros x Hx. induction Hx as [t Ht|x y Hx IHx [ex [Hex Hin]]|x e v Hx IHx Hp Hv].
    + apply HD; exact Ht.
    + intros ey Hey. pose proof (IHx ex Hex) as Dex.
      apply (proj2 (HR ex Dex) y ey); [apply HK; exact Hin|exact Hey].
    + destruct (HV e (IHx e Hp) v Hv) as [Hd|[]]. exact Hd.
  - intros x y Hx Hs. apply (rv_input g targets x y Hx Hs).
Qed.

End Proofs.

(* ================================================================== concrete graphs *)
(* a validation target that depends on the statement requesting it is NOT a cycle:
     build a: r s |@ v        (nodes: a = 0, v = 1, s = 2)
     build v: r a                                                                  *)
Module ValidationExample.
  Definition e0 := mkEdge [2] 0 0 [0] [1] false false false DepsNone 7%N.
  Definition e1 := mkEdge [0] 0 0 [1] [] false false false DepsNone 8%N.
  Definition dummy := mkEdge [] 0 0 [] [] false false false DepsNone 0%N.
  Definition g := mkGraph 2 (fun e => match e with 0 => e0 | 1 => e1 | _ => dummy end)
                          (fun n => match n with 0 => Some 0 | 1 => Some 1 | _ => None end)
                          (fun _ => false).
  Definition w := mkWorld (fun n => match n with 2 => 5%Z | _ => 0%Z end)
                          (fun _ => None) (fun _ => None) (fun _ => DfMissing).

  Lemma wf : wf_graph g.
  Proof. intros n e H. destruct n as [|[|n]]; cbn in H; inversion H; subst; cbn; lia. Qed.

  Lemma acyc : acyclic g w.
  Proof.
    apply (ranked_acyclic g (pot_ins g w) (fun e => e)).
    intros e i e' Hi Hp. destruct e as [|[|e]]; cbn in Hi.
    - destruct Hi as [<-|[]]. cbn in Hp. discriminate.
    - destruct Hi as [<-|[]]. cbn in Hp. inversion Hp; subst. lia.
    - destruct Hi.
  Qed.

  (* both statements are scanned and wanted: a as the target, v as a validation *)
  Lemma accepted :
    match scan g w [0] with
    | ScanOk s p =>
      es_mark (st_edge s 0) = VisitDone /\ es_mark (st_edge s 1) = VisitDone /\
      p_want p 0 = Some WantToStart /\ p_want p 1 = Some WantToStart /\ p_wanted p = 2
    | _ => False
    end.
  Proof. vm_compute. repeat split; reflexivity. Qed.
End ValidationExample.

(* a real cycle written in the manifest:  build a: r b ; build b: r a   (a = 0, b = 1) *)
Module CycleExample.
  Definition e0 := mkEdge [1] 0 0 [0] [] false false false DepsNone 7%N.
  Definition e1 := mkEdge [0] 0 0 [1] [] false false false DepsNone 8%N.
  Definition dummy := mkEdge [] 0 0 [] [] false false false DepsNone 0%N.
  Definition g := mkGraph 2 (fun e => match e with 0 => e0 | 1 => e1 | _ => dummy end)
                          (fun n => match n with 0 => Some 0 | 1 => Some 1 | _ => None end)
                          (fun _ => false).
  Definition w := mkWorld (fun _ => 0%Z) (fun _ => None) (fun _ => None) (fun _ => DfMissing).

  Lemma wf : wf_graph g.
  Proof. intros n e H. destruct n as [|[|n]]; cbn in H; inversion H; subst; cbn; lia. Qed.

  Lemma cyc : closed_walk_via g (manifest_ins g) [0; 1; 0].
  Proof.
    split; [|split; [cbn; lia|reflexivity]].
    apply walk_cons; [exists 0; split; [reflexivity|left; reflexivity]|].
    apply walk_cons; [exists 1; split; [reflexivity|left; reflexivity]|apply walk_one].
  Qed.

  Lemma reported : scan g w [0] = ScanCycle [0; 1; 0].
  Proof. vm_compute. reflexivity. Qed.
End CycleExample.

(* a cycle inside the closure of a validation target:
     build a: r s |@ v ; build v: r x ; build x: r v      (a = 0, v = 1, x = 2, s = 3) *)
Module ValidationCycleExample.
  Definition e0 := mkEdge [3] 0 0 [0] [1] false false false DepsNone 7%N.
  Definition e1 := mkEdge [2] 0 0 [1] [] false false false DepsNone 8%N.
  Definition e2 := mkEdge [1] 0 0 [2] [] false false false DepsNone 9%N.
  Definition dummy := mkEdge [] 0 0 [] [] false false false DepsNone 0%N.
  Definition g := mkGraph 3 (fun e => match e with 0 => e0 | 1 => e1 | 2 => e2 | _ => dummy end)
                          (fun n => match n with 0 => Some 0 | 1 => Some 1 | 2 => Some 2 | _ => None end)
                          (fun _ => false).
  Definition w := mkWorld (fun n => match n with 3 => 5%Z | _ => 0%Z end)
                          (fun _ => None) (fun _ => None) (fun _ => DfMissing).
  Lemma cyc : closed_walk_via g (manifest_ins g) [1; 2; 1].
  Proof.
    split; [|split; [cbn; lia|reflexivity]].
    apply walk_cons; [exists 1; split; [reflexivity|left; reflexivity]|].
    apply walk_cons; [exists 2; split; [reflexivity|left; reflexivity]|apply walk_one].
  Qed.
  Lemma reach : reach_val g [0] 1.
  Proof. apply (rv_validation g [0] 0 0 1); [apply rv_target; left; reflexivity|reflexivity|left; reflexivity]. Qed.
  Lemma reported : scan g w [0] = ScanCycle [1; 2; 1].
  Proof. vm_compute. reflexivity. Qed.
End ValidationCycleExample.

(* The caveat.  A cycle closed only by a deps-log record of a statement that is ALREADY DIRTY:
     build o: cc s   (deps = gcc; the deps log says: o read x)      (o = 0, x = 1, s = 2)
     build x: gen o
   s is newer than o, so o is dirty before its deps are looked at; LoadDepsTry only probes the
   record, x is never spliced into o's inputs, and the scan accepts the graph. *)
Module DirtyDepsCycle.
  Definition e0 := mkEdge [2] 0 0 [0] [] false false false DepsLog 7%N.
  Definition e1 := mkEdge [0] 0 0 [1] [] false false false DepsNone 8%N.
  Definition dummy := mkEdge [] 0 0 [] [] false false false DepsNone 0%N.
  Definition g := mkGraph 2 (fun e => match e with 0 => e0 | 1 => e1 | _ => dummy end)
                          (fun n => match n with 0 => Some 0 | 1 => Some 1 | _ => None end)
                          (fun _ => false).
  Definition w := mkWorld (fun n => match n with 0 => 5%Z | 1 => 6%Z | 2 => 10%Z | _ => 0%Z end)
                          (fun n => match n with 0 => Some (7%N, 5%Z) | 1 => Some (8%N, 6%Z) | _ => None end)
                          (fun n => match n with 0 => Some (5%Z, [1]) | _ => None end)
                          (fun _ => DfMissing).

  Lemma wf : wf_graph g.
  Proof. intros n e H. destruct n as [|[|n]]; cbn in H; inversion H; subst; cbn; lia. Qed.

  (* o -> x (recorded), x -> o (manifest) *)
  Lemma cyc : closed_walk g w [0; 1; 0].
  Proof.
    split; [|split; [cbn; lia|reflexivity]].
    apply walk_cons; [exists 0; split; [reflexivity|right; left; reflexivity]|].
    apply walk_cons; [exists 1; split; [reflexivity|left; reflexivity]|apply walk_one].
  Qed.

  Lemma accepted :
    match scan g w [1] with
    | ScanOk s p => p_want p 0 = Some WantToStart /\ p_want p 1 = Some WantToStart /\
                    es_ins (st_edge s 0) = [2]
    | _ => False
    end.
  Proof. vm_compute. repeat split; reflexivity. Qed.

  (* the same record IS seen when o is clean (s older than o): the cycle is diagnosed *)
  Definition w_clean := mkWorld (fun n => match n with 0 => 5%Z | 1 => 6%Z | 2 => 3%Z | _ => 0%Z end)
                                (w_blog w) (w_dlog w) (w_depfile w).
  Lemma diagnosed_when_clean : scan g w_clean [1] = ScanCycle [1; 0; 1].
  Proof. vm_compute. reflexivity. Qed.
End DirtyDepsCycle.

(* the full statement over recorded deps is FALSE of the faithful model *)
Definition C17_complete_recorded_full : Prop :=
  forall g w targets c,
    closed_walk g w c ->
    (forall x, hd_error c = Some x -> reach_via g (pot_ins g w) targets x) ->
    forall s p, scan g w targets <> ScanOk s p.

Theorem C17_dirty_edge_deps_cycle_refuted : ~ C17_complete_recorded_full.
Proof.
  intros H.
  pose proof (H DirtyDepsCycle.g DirtyDepsCycle.w [1] [0; 1; 0] DirtyDepsCycle.cyc) as H1.
  pose proof DirtyDepsCycle.accepted as Ha.
  destruct (scan DirtyDepsCycle.g DirtyDepsCycle.w [1]) as [c|m d|e| |s p] eqn:Hs; try contradiction.
  apply (H1) with (s := s) (p := p); [|reflexivity].
  intros x Hx. inversion Hx; subst x.
  apply (reach_step _ _ _ 1 0); [apply reach_target; left; reflexivity|].
  exists 1. split; [reflexivity|left; reflexivity].
Qed.

(* ================================================================== Part 5: the dirty flags *)
Section SpecProofs.
Variable g : graph.
Variable w : world.
Local Open Scope Z_scope.

Notation mark_of s e := (es_mark (st_edge s e)).
Notation ins_of s e := (es_ins (st_edge s e)).
Notation rnd := (recompute_node_dirty g w).
Notation nd s n := (st_node s n).

(* ---- node updates *)
Lemma upd_node_same s n v : nd (upd_node s n v) n = v.
Proof. cbn [upd_node st_node]. rewrite Nat.eqb_refl. reflexivity. Qed.
Lemma upd_node_other s n v n' : n' <> n -> nd (upd_node s n v) n' = nd s n'.
Proof. intros H. cbn [upd_node st_node]. destruct (Nat.eqb_spec n' n); [contradiction|reflexivity]. Qed.

(* the state of a node right after Node::Stat, not dirty *)
Definition statted (s : sstate) (o : node) : Prop :=
  ns_mtime (nd s o) = w_mtime w o /\
  ns_exists (nd s o) = (if Z.eqb (w_mtime w o) 0 then ExMissing else ExExists) /\
  ns_dirty (nd s o) = false.

Lemma stat_other s n n' : n' <> n -> nd (stat_if_necessary w s n) n' = nd s n'.
Proof.
  intros H. unfold stat_if_necessary. destruct (n_known (nd s n)); [reflexivity|].
  apply upd_node_other; exact H.
Qed.

Lemma stat_known s n : n_known (nd s n) = true -> stat_if_necessary w s n = s.
Proof. intros H. unfold stat_if_necessary. rewrite H. reflexivity. Qed.

Lemma statted_known s o : statted s o -> n_known (nd s o) = true.
Proof. intros [_ [H _]]. unfold n_known. rewrite H. destruct (Z.eqb _ _); reflexivity. Qed.

Lemma stat_keeps_statted s n o : statted s o -> statted (stat_if_necessary w s n) o.
Proof.
  intros H. destruct (Nat.eq_dec o n) as [->|Hne].
  - rewrite (stat_known s n (statted_known s n H)). exact H.
  - unfold statted. rewrite (stat_other s n o Hne). exact H.
Qed.

Lemma stat_init s n : nd s n = init_nstate -> statted (stat_if_necessary w s n) n.
Proof.
  intros H. unfold stat_if_necessary. rewrite H. cbn [n_known init_nstate ns_exists].
  unfold statted. rewrite upd_node_same. cbn [ns_mtime ns_exists ns_dirty]. auto.
Qed.

Lemma stat_outputs_other outs : forall s n, ~ In n outs -> nd (stat_outputs w s outs) n = nd s n.
Proof.
  unfold stat_outputs. induction outs as [|o outs IH]; intros s n Hn; cbn [fold_left]; [reflexivity|].
  rewrite IH by (intros H; apply Hn; right; exact H).
  apply stat_other. intros ->. apply Hn. left; reflexivity.
Qed.

Lemma stat_outputs_keeps outs : forall s o, statted s o -> statted (stat_outputs w s outs) o.
Proof.
  unfold stat_outputs. induction outs as [|a outs IH]; intros s o H; cbn [fold_left]; [exact H|].
  apply IH. apply stat_keeps_statted. exact H.
Qed.

Lemma stat_outputs_statted outs : forall s o,
  In o outs -> (forall o', In o' outs -> nd s o' = init_nstate \/ statted s o') ->
  statted (stat_outputs w s outs) o.
Proof.
  induction outs as [|a outs IH]; intros s o Ho Hall; [destruct Ho|].
  change (stat_outputs w s (a :: outs)) with (stat_outputs w (stat_if_necessary w s a) outs).
  assert (Ha : statted (stat_if_necessary w s a) a).
  { destruct (Hall a (or_introl eq_refl)) as [Hi|Hs]; [apply stat_init; exact Hi|apply stat_keeps_statted; exact Hs]. }
  destruct (Nat.eq_dec o a) as [->|Hne].
  - apply stat_outputs_keeps. exact Ha.
  - destruct Ho as [->|Ho]; [contradiction|]. apply IH; [exact Ho|].
    intros o' Ho'. destruct (Nat.eq_dec o' a) as [->|Hne']; [right; exact Ha|].
    destruct (Hall o' (or_intror Ho')) as [Hi|Hs].
    + left. rewrite stat_other by exact Hne'. exact Hi.
    + right. apply stat_keeps_statted. exact Hs.
Qed.

Lemma mark_outputs_dirty_props outs : forall s,
  (forall n, ns_mtime (nd (mark_outputs_dirty s outs) n) = ns_mtime (nd s n) /\
             ns_exists (nd (mark_outputs_dirty s outs) n) = ns_exists (nd s n)) /\
  (forall n, ~ In n outs -> nd (mark_outputs_dirty s outs) n = nd s n) /\
  (forall o, In o outs \/ ns_dirty (nd s o) = true -> ns_dirty (nd (mark_outputs_dirty s outs) o) = true).
Proof.
  unfold mark_outputs_dirty. induction outs as [|a outs IH]; intros s; cbn [fold_left].
  - split; [intros n; split; reflexivity|]. split; [reflexivity|]. intros o [[]|H]; exact H.
  - destruct (IH (set_dirty s a true)) as [A [B C]].
    assert (Hset : forall n, ns_mtime (nd (set_dirty s a true) n) = ns_mtime (nd s n) /\
                             ns_exists (nd (set_dirty s a true) n) = ns_exists (nd s n)).
    { intros n. unfold set_dirty. destruct (Nat.eq_dec n a) as [->|Hne].
      - rewrite upd_node_same. split; reflexivity.
      - rewrite upd_node_other by exact Hne. split; reflexivity. }
    split; [|split].
    + intros n. destruct (A n) as [A1 A2]. destruct (Hset n) as [H1 H2]. split; congruence.
    + intros n Hn. rewrite B by (intros H; apply Hn; right; exact H).
      unfold set_dirty. apply upd_node_other. intros ->. apply Hn. left; reflexivity.
    + intros o Ho. apply C. destruct (Nat.eq_dec o a) as [->|Hne].
      * right. unfold set_dirty. rewrite upd_node_same. reflexivity.
      * destruct Ho as [[->|Ho]|Ho]; [contradiction|left; exact Ho|].
        right. unfold set_dirty. rewrite upd_node_other by exact Hne. exact Ho.
Qed.

Lemma st_node_finish_edge e s d :
  (forall n, ns_mtime (nd (finish_edge g s e d) n) = ns_mtime (nd s n) /\
             ns_exists (nd (finish_edge g s e d) n) = ns_exists (nd s n)) /\
  (forall n, ~ In n (edge_outs g e) -> nd (finish_edge g s e d) n = nd s n) /\
  (d = false -> forall n, nd (finish_edge g s e d) n = nd s n) /\
  (d = true -> forall o, In o (edge_outs g e) -> ns_dirty (nd (finish_edge g s e d) o) = true).
Proof.
  unfold finish_edge. destruct d; cbn [andb].
  - destruct (mark_outputs_dirty_props (edge_outs g e) s) as [A [B C]].
    set (s1 := mark_outputs_dirty s (edge_outs g e)) in *.
    assert (E : st_node (set_mark (if negb (ei_phony (g_edge g e) && match ins_of s1 e with [] => true | _ => false end)
                                   then set_ready s1 e false else s1) e VisitDone) = st_node s1).
    { destruct (negb _); reflexivity. }
    rewrite E. split; [exact A|]. split; [exact B|]. split; [discriminate|].
    intros _ o Ho. apply C. left; exact Ho.
  - split; [intros n; split; reflexivity|]. split; [reflexivity|]. split; [reflexivity|discriminate].
Qed.

(* ---- which inputs of a range count (are not order-only) *)
Fixpoint sel (len noo : nat) (idx : nat) (l : list node) : list node :=
  match l with
  | [] => []
  | i :: l' => if is_order_only len noo idx then sel len noo (S idx) l' else i :: sel len noo (S idx) l'
  end.

Lemma sel_suffix len noo : forall l idx, (idx + length l = len)%nat ->
  sel len noo idx l = if Nat.ltb len noo then l else firstn (len - noo - idx) l.
Proof.
  induction l as [|i l IH]; intros idx Hlen; cbn [sel].
  - destruct (Nat.ltb len noo); [reflexivity|]. rewrite firstn_nil. reflexivity.
  - cbn [length] in Hlen. rewrite IH by lia. unfold is_order_only.
    destruct (Nat.ltb_spec len noo) as [Hlt|Hge]; [reflexivity|].
    destruct (Nat.leb_spec (len - noo) idx) as [Hle|Hgt].
    + replace (len - noo - S idx)%nat with 0%nat by lia. replace (len - noo - idx)%nat with 0%nat by lia.
      reflexivity.
    + replace (len - noo - idx)%nat with (S (len - noo - S idx)) by lia. reflexivity.
Qed.

Lemma sel_all len noo : forall l idx, (noo <= len)%nat -> (idx + length l <= len - noo)%nat ->
  sel len noo idx l = l.
Proof.
  induction l as [|i l IH]; intros idx Hn Hlen; cbn [sel]; [reflexivity|].
  cbn [length] in Hlen. unfold is_order_only.
  destruct (Nat.ltb_spec len noo) as [Hlt|Hge]; [lia|].
  destruct (Nat.leb_spec (len - noo) idx) as [Hle|Hgt]; [lia|].
  rewrite IH by lia. reflexivity.
Qed.

(* ---- the second loop of RecomputeEdgesInputsDirty *)
Definition lt_mri (s : sstate) (x : Z) (mri : option node) : Prop :=
  match mri with None => False | Some m => x < ns_mtime (nd s m) end.

Lemma eval_inputs_spec e : forall l idx s mri d s' mri' d',
  eval_inputs g e l idx s mri d = (s', mri', d') ->
  let picked := sel (length (ins_of s e)) (ei_noo (g_edge g e)) idx l in
  (d' = true <-> d = true \/ exists i, In i picked /\ ns_dirty (nd s i) = true) /\
  (forall x, lt_mri s x mri' <->
             lt_mri s x mri \/ exists i, In i picked /\ ns_dirty (nd s i) = false /\ x < ns_mtime (nd s i)) /\
  (forall m, mri' = Some m -> mri = Some m \/ (In m picked /\ ns_dirty (nd s m) = false)).
Proof.
  induction l as [|i l IH]; intros idx s mri d s' mri' d' H; cbn [eval_inputs] in H.
  - inversion H; subst. cbn [sel]. split; [|split].
    + split; [intros ->; left; reflexivity|intros [->|[i [[] _]]]; reflexivity].
    + intros x. split; [intros Hx; left; exact Hx|intros [Hx|[i [[] _]]]; exact Hx].
    + intros m Hm. left; exact Hm.
  - set (s1 := match g_producer g i with
               | Some ie => if es_ready (st_edge s ie) then s else set_ready s e false
               | None => s end) in *.
    assert (L1 : local e s s1).
    { subst s1. destruct (g_producer g i) as [ie|]; [|apply local_refl].
      destruct (es_ready (st_edge s ie)); [apply local_refl|apply local_set_ready]. }
    assert (N1 : st_node s1 = st_node s).
    { subst s1. destruct (g_producer g i) as [ie|]; [|reflexivity].
      destruct (es_ready (st_edge s ie)); reflexivity. }
    assert (I1 : ins_of s1 e = ins_of s e) by (apply (proj2 (proj2 L1))).
    cbn [sel]. rewrite I1 in H.
    destruct (is_order_only (length (ins_of s e)) (ei_noo (g_edge g e)) idx).
    + specialize (IH _ _ _ _ _ _ _ H). rewrite I1, N1 in IH. unfold lt_mri in *. rewrite N1 in IH. exact IH.
    + destruct (ns_dirty (nd s1 i)) eqn:Di; rewrite N1 in Di.
      * specialize (IH _ _ _ _ _ _ _ H). rewrite I1, N1 in IH. unfold lt_mri in *. rewrite N1 in IH.
        destruct IH as [A [B C]]. split; [|split].
        -- rewrite A. split.
           ++ intros [_|[j [Hj Dj]]]; right; [exists i; split; [left; reflexivity|exact Di]|exists j; split; [right; exact Hj|exact Dj]].
           ++ intros _. left; reflexivity.
        -- intros x. rewrite B. split.
           ++ intros [Hx|[j [Hj Hr]]]; [left; exact Hx|right; exists j; split; [right; exact Hj|exact Hr]].
           ++ intros [Hx|[j [[<-|Hj] [Dj Hr]]]]; [left; exact Hx|congruence|right; exists j; split; [exact Hj|split; assumption]].
        -- intros m Hm. destruct (C m Hm) as [Hc|[Hc Dc]]; [left; exact Hc|right; split; [right; exact Hc|exact Dc]].
      * specialize (IH _ _ _ _ _ _ _ H). rewrite I1, N1 in IH. unfold lt_mri in *. rewrite N1 in IH.
        destruct IH as [A [B C]].
        assert (Hnew : forall x, match ScanDefs.newer s1 i mri with None => False | Some m => x < ns_mtime (nd s m) end <->
                                 (match mri with None => False | Some m => x < ns_mtime (nd s m) end \/ x < ns_mtime (nd s i))).
        { intros x. unfold ScanDefs.newer. rewrite N1. destruct mri as [m|]; [|tauto].
          destruct (Z.gtb_spec (ns_mtime (nd s i)) (ns_mtime (nd s m))); lia. }
        split; [|split].
        -- rewrite A. split.
           ++ intros [Hd|[j [Hj Dj]]]; [left; exact Hd|right; exists j; split; [right; exact Hj|exact Dj]].
           ++ intros [Hd|[j [[<-|Hj] Dj]]]; [left; exact Hd|congruence|right; exists j; split; assumption].
        -- intros x. rewrite B, Hnew. split.
           ++ intros [[Hx|Hx]|[j [Hj Hr]]];
                [left; exact Hx|right; exists i; split; [left; reflexivity|split; assumption]
                 |right; exists j; split; [right; exact Hj|exact Hr]].
           ++ intros [Hx|[j [[<-|Hj] [Dj Hr]]]];
                [left; left; exact Hx|left; right; exact Hr|right; exists j; split; [exact Hj|split; assumption]].
        -- intros m Hm. destruct (C m Hm) as [Hc|[Hc Dc]].
           ++ unfold ScanDefs.newer in Hc. destruct mri as [m0|].
              ** destruct (Z.gtb _ _); inversion Hc; subst; [right; split; [left; reflexivity|exact Di]|left; reflexivity].
              ** inversion Hc; subst. right; split; [left; reflexivity|exact Di].
           ++ right; split; [right; exact Hc|exact Dc].
Qed.

(* ---- the output checks *)
Definition lt_opt (x : Z) (mz : option Z) : Prop := match mz with Some m => x < m | None => False end.

Lemma ltb_opt x mz : (match mz with Some m => Z.ltb x m | None => false end) = true <-> lt_opt x mz.
Proof. destruct mz as [m|]; cbn [lt_opt]; [apply Z.ltb_lt|split; [discriminate|intros []]]. Qed.

Lemma lt_opt_mri s x mri : lt_opt x (mri_mtime s mri) <-> lt_mri s x mri.
Proof. destruct mri; cbn [mri_mtime lt_opt lt_mri]; tauto. Qed.

Lemma time_check e o mz (mt : Z) :
  ((negb (used_restat g w e o) && match mz with Some m => Z.ltb mt m | None => false end)%bool = true <->
   used_restat g w e o = false /\ lt_opt mt mz).
Proof. rewrite Bool.andb_true_iff, Bool.negb_true_iff, ltb_opt. tauto. Qed.

Lemma odf_spec e o mz s :
  ns_mtime (nd s o) = w_mtime w o ->
  ns_exists (nd s o) = (if Z.eqb (w_mtime w o) 0 then ExMissing else ExExists) ->
  (output_dirty_first g w e o mz s = true <->
   base_reason g w e o \/ time_reason g w (fun x => lt_opt x mz) e o).
Proof.
  intros Hm Hex. unfold output_dirty_first, n_exists. rewrite Hex, Hm.
  unfold base_reason, time_reason.
  destruct (Z.eqb_spec (w_mtime w o) 0) as [Hz|Hnz]; cbn [negb].
  - split; [intros _; left; left; exact Hz|reflexivity].
  - change (ei_restat (g_edge g e) && match w_blog w o with Some _ => true | None => false end)%bool
      with (used_restat g w e o).
    pose proof (time_check e o mz (w_mtime w o)) as T1.
    destruct (negb (used_restat g w e o) && match mz with Some m => Z.ltb (w_mtime w o) m | None => false end)%bool.
    + split; [intros _; right; left; apply T1; reflexivity|reflexivity].
    + assert (NT1 : ~ (used_restat g w e o = false /\ lt_opt (w_mtime w o) mz)) by (rewrite <- T1; discriminate).
      destruct (w_blog w o) as [[h lm]|].
      * destruct (ei_generator (g_edge g e)); cbn [negb andb].
        -- rewrite ltb_opt. split; [intros H; right; right; exact H|].
           intros [[H|[H _]]|[H|H]]; [contradiction|discriminate|contradiction|exact H].
        -- destruct (N.eqb_spec (ei_hash (g_edge g e)) h) as [Heq|Hne]; cbn [negb].
           ++ rewrite ltb_opt. split; [intros H; right; right; exact H|].
              intros [[H|[_ H]]|[H|H]]; [contradiction|congruence|contradiction|exact H].
           ++ split; [intros _; left; right; split; [reflexivity|congruence]|reflexivity].
      * destruct (ei_generator (g_edge g e)); cbn [negb].
        -- split; [discriminate|]. intros [[H|H]|[H|[]]]; [contradiction|discriminate|contradiction].
        -- split; [intros _; left; right; reflexivity|reflexivity].
Qed.

Lemma oda_again_spec e o mz s :
  ns_mtime (nd s o) = w_mtime w o ->
  (output_dirty_again g w e o mz s = true <-> time_reason g w (fun x => lt_opt x mz) e o).
Proof.
  intros Hm. unfold output_dirty_again, time_reason. rewrite Hm.
  change (ei_restat (g_edge g e) && match w_blog w o with Some _ => true | None => false end)%bool
    with (used_restat g w e o).
  pose proof (time_check e o mz (w_mtime w o)) as T1.
  destruct (negb (used_restat g w e o) && match mz with Some m => Z.ltb (w_mtime w o) m | None => false end)%bool.
  - split; [intros _; left; apply T1; reflexivity|reflexivity].
  - assert (NT1 : ~ (used_restat g w e o = false /\ lt_opt (w_mtime w o) mz)) by (rewrite <- T1; discriminate).
    destruct (w_blog w o) as [[h lm]|].
    + rewrite ltb_opt. tauto.
    + split; [discriminate|tauto].
Qed.

Lemma oda_nonphony e mri : ei_phony (g_edge g e) = false -> forall outs s,
  outputs_dirty_all g w e outs mri s =
  (existsb (fun o => output_dirty_first g w e o (mri_mtime s mri) s) outs, s).
Proof.
  intros Hp. induction outs as [|o outs IH]; intros s; cbn [outputs_dirty_all existsb]; [reflexivity|].
  rewrite Hp. destruct (output_dirty_first g w e o (mri_mtime s mri) s); cbn [orb]; [reflexivity|apply IH].
Qed.

Definition phony_mtime (s : sstate) (mri : option node) (o : node) : Z :=
  if n_exists (nd s o) then ns_mtime (nd s o)
  else match mri with
       | Some m => Z.max (ns_mtime (nd s o)) (ns_mtime (nd s m))
       | None => ns_mtime (nd s o)
       end.

Lemma phony_output_dirty_props e o mri s d s' :
  phony_output_dirty g e o mri s = (d, s') ->
  st_edge s' = st_edge s /\
  (forall n, n <> o -> nd s' n = nd s n) /\
  ns_dirty (nd s' o) = ns_dirty (nd s o) /\ ns_exists (nd s' o) = ns_exists (nd s o) /\
  (d = true <-> ins_of s e = [] /\ ei_vals (g_edge g e) = [] /\ n_exists (nd s o) = false) /\
  (d = false -> ns_mtime (nd s' o) = phony_mtime s mri o).
Proof.
  unfold phony_output_dirty.
  set (c := (match ins_of s e with [] => true | _ => false end
             && match ei_vals (g_edge g e) with [] => true | _ => false end
             && negb (n_exists (nd s o)))%bool).
  assert (Hc : c = true <-> ins_of s e = [] /\ ei_vals (g_edge g e) = [] /\ n_exists (nd s o) = false).
  { subst c. destruct (ins_of s e); destruct (ei_vals (g_edge g e)); destruct (n_exists (nd s o));
      cbn [andb negb]; split; try discriminate; try (intros [A [B C]]; discriminate); auto. }
  destruct c.
  - intros H; injection H as Hd1 Hs1; subst d s'.
    split; [reflexivity|]. split; [reflexivity|]. split; [reflexivity|]. split; [reflexivity|].
    split; [split; [intros _; apply Hc; reflexivity|reflexivity]|discriminate].
  - assert (Hd : false = true <-> ins_of s e = [] /\ ei_vals (g_edge g e) = [] /\ n_exists (nd s o) = false) by exact Hc.
    destruct mri as [m|]; intros H; injection H as Hd1 Hs1; subst d s'.
    + unfold update_phony_mtime, phony_mtime. destruct (n_exists (nd s o)) eqn:Hx.
      * split; [reflexivity|]. split; [reflexivity|]. split; [reflexivity|]. split; [reflexivity|].
        split; [exact Hd|reflexivity].
      * split; [reflexivity|]. split; [intros n Hn; apply upd_node_other; exact Hn|].
        rewrite upd_node_same. cbn [ns_dirty ns_exists ns_mtime].
        split; [reflexivity|]. split; [reflexivity|]. split; [exact Hd|reflexivity].
    + unfold phony_mtime.
      split; [reflexivity|]. split; [reflexivity|]. split; [reflexivity|]. split; [reflexivity|].
      split; [exact Hd|]. intros _. destruct (n_exists (nd s o)); reflexivity.
Qed.

Lemma oda_phony e mri : ei_phony (g_edge g e) = true -> forall outs,
  (forall m, mri = Some m -> ~ In m outs) -> forall s d s',
  outputs_dirty_all g w e outs mri s = (d, s') ->
  st_edge s' = st_edge s /\
  (forall n, ~ In n outs -> nd s' n = nd s n) /\
  (forall n, ns_dirty (nd s' n) = ns_dirty (nd s n) /\ ns_exists (nd s' n) = ns_exists (nd s n)) /\
  (d = true <-> ins_of s e = [] /\ ei_vals (g_edge g e) = [] /\
                exists o, In o outs /\ n_exists (nd s o) = false) /\
  (d = false -> forall o, In o outs -> ns_mtime (nd s' o) = phony_mtime s mri o).
Proof.
  intros Hp. induction outs as [|a outs IH]; intros Hmri s d s' H; cbn [outputs_dirty_all] in H.
  - injection H as Hd Hs; subst d s'.
    split; [reflexivity|]. split; [reflexivity|]. split; [intros n; split; reflexivity|].
    split; [split; [discriminate|intros [_ [_ [o [[] _]]]]]|intros _ o []].
  - rewrite Hp in H. destruct (phony_output_dirty g e a mri s) as [d1 s1] eqn:H1.
    destruct (phony_output_dirty_props e a mri s d1 s1 H1) as [E1 [O1 [D1 [X1 [C1 M1]]]]].
    assert (DX1 : forall n, ns_dirty (nd s1 n) = ns_dirty (nd s n) /\ ns_exists (nd s1 n) = ns_exists (nd s n)).
    { intros n. destruct (Nat.eq_dec n a) as [->|Hne]; [split; assumption|]. rewrite (O1 n Hne). split; reflexivity. }
    destruct d1.
    + injection H as Hd Hs; subst d s'.
      split; [exact E1|]. split; [intros n Hn; apply O1; intros ->; apply Hn; left; reflexivity|].
      split; [exact DX1|]. split; [|discriminate].
      split; [intros _|reflexivity].
      destruct (proj1 C1 eq_refl) as [A [B C]]. split; [exact A|]. split; [exact B|].
      exists a. split; [left; reflexivity|exact C].
    + assert (Hmri' : forall m, mri = Some m -> ~ In m outs).
      { intros m Hm Hin. apply (Hmri m Hm). right; exact Hin. }
      destruct (IH Hmri' s1 d s' H) as [E2 [O2 [DX2 [C2 M2]]]].
      assert (Hex : forall o, n_exists (nd s1 o) = n_exists (nd s o)).
      { intros o. unfold n_exists. rewrite (proj2 (DX1 o)). reflexivity. }
      split; [rewrite E2; exact E1|].
      split.
      { intros n Hn. rewrite O2 by (intros Hin; apply Hn; right; exact Hin).
        apply O1. intros ->. apply Hn. left; reflexivity. }
      split.
      { intros n. destruct (DX2 n) as [A B]. destruct (DX1 n) as [A' B']. split; congruence. }
      split.
      { rewrite C2. rewrite E1. split.
        - intros [A [B [o [Ho Hx]]]]. split; [exact A|]. split; [exact B|].
          exists o. split; [right; exact Ho|rewrite <- Hex; exact Hx].
        - intros [A [B [o [[<-|Ho] Hx]]]].
          + exfalso. assert (false = true) by (apply C1; split; [exact A|split; [exact B|exact Hx]]). discriminate.
          + split; [exact A|]. split; [exact B|]. exists o. split; [exact Ho|rewrite Hex; exact Hx]. }
      intros Hd o Ho.
      assert (Hm1 : forall m, mri = Some m -> ns_mtime (nd s1 m) = ns_mtime (nd s m)).
      { intros m Hm. rewrite O1; [reflexivity|]. intros ->. apply (Hmri a Hm). left; reflexivity. }
      destruct (in_dec Nat.eq_dec o outs) as [Hin|Hnin].
      * rewrite (M2 Hd o Hin). unfold phony_mtime. rewrite Hex.
        destruct (Nat.eq_dec o a) as [->|Hne].
        -- rewrite (M1 eq_refl). unfold phony_mtime.
           destruct (n_exists (nd s a)); [reflexivity|].
           destruct mri as [m|]; [|reflexivity]. rewrite (Hm1 m eq_refl). lia.
        -- rewrite (O1 o Hne). destruct (n_exists (nd s o)); [reflexivity|].
           destruct mri as [m|]; [|reflexivity]. rewrite (Hm1 m eq_refl). reflexivity.
      * destruct Ho as [<-|Ho]; [|contradiction].
        rewrite (O2 a Hnin). apply M1. reflexivity.
Qed.

(* ---- the invariant of the scan about node states *)
Hypothesis Hwf : wf_spec g.

Lemma wf_out_prod e o : In o (edge_outs g e) -> g_producer g o = Some e.
Proof. apply (proj1 Hwf). Qed.
Lemma wf_prod_out n e : g_producer g n = Some e -> In n (edge_outs g e).
Proof. apply (proj1 (proj2 Hwf)). Qed.

Definition node_final (s : sstate) (n : node) : Prop :=
  match g_producer g n with
  | None => n_known (nd s n) = true
  | Some e => mark_of s e = VisitDone
  end.

Definition node_ok (s : sstate) (n : node) : Prop :=
  (ns_dirty (nd s n) = true <-> must_dirty g w n) /\
  (ns_dirty (nd s n) = false -> forall x, x < ns_mtime (nd s n) <-> newer_than g w x n).

Definition SInv (s : sstate) : Prop :=
  (forall n, node_final s n -> node_ok s n) /\
  (forall n e, g_producer g n = Some e -> mark_of s e = VisitNone -> nd s n = init_nstate) /\
  (forall e, mark_of s e = VisitNone ->
             es_deps_loaded (st_edge s e) = false /\ ins_of s e = ei_ins (g_edge g e)) /\
  (forall e, mark_of s e = VisitDone ->
             own_dirty g w e \/ incl (valid_deps g w e) (ins_of s e)).

Definition settled (s : sstate) (n : node) : Prop :=
  match g_producer g n with
  | None => n_known (nd s n) = true
  | Some e => mark_of s e <> VisitNone
  end.

(* what a successful visit does to the rest: [ext] on the edges, settled nodes untouched *)
Definition nfr (a b : sstate) : Prop := forall n, settled a n -> nd b n = nd a n.
Definition vrel (a b : sstate) : Prop := ext a b /\ nfr a b.

Lemma node_ok_eq a b n : nd b n = nd a n -> node_ok a n -> node_ok b n.
Proof. intros E H. unfold node_ok. rewrite E. exact H. Qed.

Lemma settled_vrel a b n : vrel a b -> settled a n -> settled b n.
Proof.
  intros [E F] H. pose proof (F n H) as Hn. unfold settled in *.
  destruct (g_producer g n) as [e|].
  - rewrite (ext_marked a b e E H). exact H.
  - rewrite Hn. exact H.
Qed.

Lemma vrel_refl a : vrel a a.
Proof. split; [apply ext_refl|intros n _; reflexivity]. Qed.

Lemma vrel_trans a b c : vrel a b -> vrel b c -> vrel a c.
Proof.
  intros H K. split; [apply (ext_trans a b c); [apply H|apply K]|].
  intros n Hn. rewrite (proj2 K n (settled_vrel a b n H Hn)). apply (proj2 H n Hn).
Qed.

Lemma final_settled s n : node_final s n -> settled s n.
Proof.
  unfold node_final, settled. destruct (g_producer g n); [|tauto]. intros ->. discriminate.
Qed.

Lemma final_vrel a b n : vrel a b -> node_final a n -> node_final b n /\ nd b n = nd a n.
Proof.
  intros V H. pose proof (proj2 V n (final_settled a n H)) as Hn. split; [|exact Hn].
  unfold node_final in *. destruct (g_producer g n) as [e|].
  - apply (ext_done a b e (proj1 V) H).
  - rewrite Hn. exact H.
Qed.

(* a local step in the frame of [e]: the other edges and the nodes outside outs(e) are kept *)
Definition lstep (e : edge) (a b : sstate) : Prop :=
  (forall e', e' <> e -> st_edge b e' = st_edge a e') /\
  (forall n, ~ In n (edge_outs g e) -> nd b n = nd a n).

Lemma lstep_refl e a : lstep e a a.
Proof. split; reflexivity. Qed.
Lemma lstep_trans e a b c : lstep e a b -> lstep e b c -> lstep e a c.
Proof.
  intros [H1 H2] [K1 K2]. split.
  - intros e' Hne. rewrite (K1 e' Hne). apply H1; exact Hne.
  - intros n Hn. rewrite (K2 n Hn). apply H2; exact Hn.
Qed.
Lemma lstep_of_local e a b : local e a b -> st_node b = st_node a -> lstep e a b.
Proof. intros [H _] E. split; [exact H|]. intros n _. rewrite E. reflexivity. Qed.

(* final nodes are not outputs of an edge that is in the stack *)
Lemma final_not_out s e n : mark_of s e = VisitInStack -> node_final s n -> ~ In n (edge_outs g e).
Proof.
  intros Hm Hf Hin. unfold node_final in Hf. rewrite (wf_out_prod e n Hin) in Hf. congruence.
Qed.

Lemma lstep_final e a b n :
  lstep e a b -> mark_of a e = VisitInStack -> mark_of b e = VisitInStack ->
  (node_final a n <-> node_final b n) /\ (node_final a n -> nd b n = nd a n).
Proof.
  intros [L1 L2] Ma Mb.
  assert (Hn : forall s, mark_of s e = VisitInStack -> node_final s n -> ~ In n (edge_outs g e))
    by (intros s0 Hs Hf; apply (final_not_out s0 e n Hs Hf)).
  split.
  - unfold node_final. destruct (g_producer g n) as [e'|] eqn:Hp.
    + destruct (Nat.eq_dec e' e) as [->|Hne]; [rewrite Ma, Mb; tauto|]. rewrite (L1 e' Hne). tauto.
    + assert (~ In n (edge_outs g e)) by (intros Hin; rewrite (wf_out_prod e n Hin) in Hp; discriminate).
      rewrite (L2 n H). tauto.
  - intros Hf. apply L2. apply (Hn a Ma Hf).
Qed.

Lemma SInv_lstep e a b :
  SInv a -> lstep e a b -> mark_of a e <> VisitDone -> mark_of b e = VisitInStack -> SInv b.
Proof.
  intros [S1 [S2 [S3 S4]]] [L1 L2] Ma Mb. split; [|split; [|split]].
  4:{ intros e' Hm. assert (Hne : e' <> e) by (intros ->; congruence).
      rewrite (L1 e' Hne) in *. apply S4. exact Hm. }
  - intros n Hf. unfold node_final in Hf. destruct (g_producer g n) as [e'|] eqn:Hp.
    + assert (Hne : e' <> e) by (intros ->; congruence).
      assert (Hno : ~ In n (edge_outs g e)) by (intros Hin; rewrite (wf_out_prod e n Hin) in Hp; congruence).
      apply (node_ok_eq a b n (L2 n Hno)). apply S1. unfold node_final. rewrite Hp, <- (L1 e' Hne). exact Hf.
    + assert (Hno : ~ In n (edge_outs g e)) by (intros Hin; rewrite (wf_out_prod e n Hin) in Hp; discriminate).
      apply (node_ok_eq a b n (L2 n Hno)). apply S1. unfold node_final. rewrite Hp, <- (L2 n Hno). exact Hf.
  - intros n e' Hp Hm. assert (Hne : e' <> e) by (intros ->; congruence).
    assert (Hno : ~ In n (edge_outs g e)) by (intros Hin; rewrite (wf_out_prod e n Hin) in Hp; congruence).
    rewrite (L2 n Hno). apply (S2 n e' Hp). rewrite <- (L1 e' Hne). exact Hm.
  - intros e' Hm. assert (Hne : e' <> e) by (intros ->; congruence).
    rewrite (L1 e' Hne) in *. apply S3. exact Hm.
Qed.

(* closing the frame: all that is left to show is that the outputs of [e] are right *)
Lemma SInv_finish e a d :
  SInv a -> mark_of a e = VisitInStack ->
  (forall o, In o (edge_outs g e) -> node_ok (finish_edge g a e d) o) ->
  (own_dirty g w e \/ incl (valid_deps g w e) (ins_of a e)) ->
  SInv (finish_edge g a e d).
Proof.
  intros [S1 [S2 [S3 S4]]] Ma Hout Hown.
  destruct (finish_edge_props g e a d) as [A9 [M9 I9]].
  destruct (st_node_finish_edge e a d) as [_ [N9 _]].
  set (b := finish_edge g a e d) in *.
  split; [|split; [|split]].
  4:{ intros e' Hm. destruct (Nat.eq_dec e' e) as [->|Hne]; [rewrite I9; exact Hown|].
      rewrite (A9 e' Hne) in *. apply S4. exact Hm. }
  - intros n Hf. unfold node_final in Hf. destruct (g_producer g n) as [e'|] eqn:Hp.
    + destruct (Nat.eq_dec e' e) as [->|Hne]; [apply Hout; apply wf_prod_out; exact Hp|].
      assert (Hno : ~ In n (edge_outs g e)) by (intros Hin; rewrite (wf_out_prod e n Hin) in Hp; congruence).
      apply (node_ok_eq a b n (N9 n Hno)). apply S1. unfold node_final. rewrite Hp, <- (A9 e' Hne). exact Hf.
    + assert (Hno : ~ In n (edge_outs g e)) by (intros Hin; rewrite (wf_out_prod e n Hin) in Hp; discriminate).
      apply (node_ok_eq a b n (N9 n Hno)). apply S1. unfold node_final. rewrite Hp, <- (N9 n Hno). exact Hf.
  - intros n e' Hp Hm. assert (Hne : e' <> e) by (intros ->; congruence).
    assert (Hno : ~ In n (edge_outs g e)) by (intros Hin; rewrite (wf_out_prod e n Hin) in Hp; congruence).
    rewrite (N9 n Hno). apply (S2 n e' Hp). rewrite <- (A9 e' Hne). exact Hm.
  - intros e' Hm. assert (Hne : e' <> e) by (intros ->; congruence).
    rewrite (A9 e' Hne) in *. apply S3. exact Hm.
Qed.

(* ---- inversion of the specification at an output / at a node *)
Lemma must_dirty_out_inv o e :
  must_dirty g w o -> g_producer g o = Some e ->
  (exists i, In i (spec_ins g w e) /\ must_dirty g w i) \/
  (ei_phony (g_edge g e) = true /\ ei_ins (g_edge g e) = [] /\ ei_vals (g_edge g e) = [] /\
   exists o', In o' (ei_outs (g_edge g e)) /\ w_mtime w o' = 0) \/
  (ei_phony (g_edge g e) = false /\
   exists o', In o' (ei_outs (g_edge g e)) /\
              out_reason g w (fun x => exists i, In i (spec_ins g w e) /\ newer_than g w x i) e o') \/
  spec_load g w e = LdFail.
Proof.
  intros H Hp. inversion H as [n Hn Hz|n e0 i Hn Hi Hd|n e0 o' Hn Hph Hin Hv Ho Hz|n e0 o' Hn Hph Ho Hr|n e0 Hn Hl]; subst.
  - congruence.
  - rewrite Hp in Hn. inversion Hn; subst e0. left. exists i. split; assumption.
  - rewrite Hp in Hn. inversion Hn; subst e0. right; left.
    split; [exact Hph|]. split; [exact Hin|]. split; [exact Hv|]. exists o'. split; assumption.
  - rewrite Hp in Hn. inversion Hn; subst e0. right; right; left. split; [exact Hph|]. exists o'. split; assumption.
  - rewrite Hp in Hn. inversion Hn; subst e0. right; right; right. exact Hl.
Qed.

Lemma must_dirty_leaf_inv n : must_dirty g w n -> g_producer g n = None -> w_mtime w n = 0.
Proof. intros H Hp. inversion H; subst; congruence. Qed.

Lemma newer_file x n : w_mtime w n <> 0 -> (newer_than g w x n <-> x < w_mtime w n).
Proof.
  intros Hnz. split.
  - intros H. inversion H; subst; [assumption|contradiction|contradiction].
  - intros H. apply nt_file; assumption.
Qed.

Lemma newer_missing_phony x n e :
  w_mtime w n = 0 -> g_producer g n = Some e -> ei_phony (g_edge g e) = true ->
  (newer_than g w x n <-> x < 0 \/ exists i, In i (nonoo_ins g e) /\ newer_than g w x i).
Proof.
  intros Hz Hp Hph. split.
  - intros H. inversion H as [n0 Hnz _|n0 _ Hx|n0 e0 i _ Hp0 _ Hi Hn]; subst.
    + contradiction.
    + left; exact Hx.
    + rewrite Hp in Hp0. inversion Hp0; subst e0. right. exists i. split; assumption.
  - intros [Hx|[i [Hi Hn]]]; [apply nt_missing; assumption|].
    apply (nt_phony g w x n e i); assumption.
Qed.

Lemma time_reason_iff (N N' : Z -> Prop) e o :
  (forall x, N x <-> N' x) -> (time_reason g w N e o <-> time_reason g w N' e o).
Proof.
  intros H. unfold time_reason. rewrite (H (w_mtime w o)).
  destruct (w_blog w o) as [[h m]|]; [rewrite (H m)|]; tauto.
Qed.

Lemma time_reason_mono (N N' : Z -> Prop) e o :
  (forall x, N x -> N' x) -> time_reason g w N e o -> time_reason g w N' e o.
Proof.
  intros H. unfold time_reason. intros [[A B]|B]; [left; split; [exact A|apply H; exact B]|].
  right. destruct (w_blog w o) as [[h m]|]; [apply H; exact B|exact B].
Qed.

Lemma time_reason_or (N N' : Z -> Prop) e o :
  time_reason g w (fun x => N x \/ N' x) e o <-> time_reason g w N e o \/ time_reason g w N' e o.
Proof.
  unfold time_reason. destruct (w_blog w o) as [[h m]|]; tauto.
Qed.

Lemma nonoo_incl e : incl (nonoo_ins g e) (ei_ins (g_edge g e)).
Proof.
  unfold nonoo_ins. destruct (Nat.ltb _ _); [apply incl_refl|].
  intros x Hx. rewrite <- (firstn_skipn (length (ei_ins (g_edge g e)) - ei_noo (g_edge g e)) (ei_ins (g_edge g e))).
  apply in_or_app. left; exact Hx.
Qed.

Lemma sel_nonoo e :
  sel (length (ei_ins (g_edge g e))) (ei_noo (g_edge g e)) 0 (ei_ins (g_edge g e)) = nonoo_ins g e.
Proof.
  rewrite sel_suffix by reflexivity. unfold nonoo_ins. rewrite Nat.sub_0_r. reflexivity.
Qed.

Section Heart.
Variable visit : node -> sv -> sres sv.
Hypothesis Hvisit : forall i sa va sb vb,
  visit i (sa, va) = SOk (sb, vb) -> SInv sa -> SInv sb /\ vrel sa sb /\ node_final sb i.
Variable e : edge.

Lemma visit_all_spec l sa va sb vb :
  visit_all visit l (sa, va) = SOk (sb, vb) -> SInv sa ->
  SInv sb /\ vrel sa sb /\ forall i, In i l -> node_final sb i.
Proof.
  intros V HS.
  destruct (visit_all_rel (fun a : sv => SInv (fst a)) (fun a b : sv => vrel (fst a) (fst b))
                          (fun (i : node) (a : sv) => node_final (fst a) i) visit
                          (fun a => vrel_refl (fst a))
                          (fun a b c => vrel_trans (fst a) (fst b) (fst c))
                          (fun i a0 a1 HR HQ => proj1 (final_vrel (fst a0) (fst a1) i HR HQ)) l)
    with (a := (sa, va)) (a' := (sb, vb)) as [A [B C]]; [|exact HS|exact V|].
  - intros i [s0 v0] [s1 v1] _ H0 Hv. cbn [fst] in *. apply (Hvisit i s0 v0 s1 v1 Hv H0).
  - cbn [fst] in *. split; [exact A|]. split; [exact B|exact C].
Qed.

(* nodes that are settled and not outputs of [e] are kept along the frame *)
Definition krel (a b : sstate) : Prop :=
  forall n, settled a n -> ~ In n (edge_outs g e) -> nd b n = nd a n /\ settled b n.

Lemma krel_refl a : krel a a.
Proof. intros n H _. split; [reflexivity|exact H]. Qed.
Lemma krel_trans a b c : krel a b -> krel b c -> krel a c.
Proof.
  intros H K n Hs Hn. destruct (H n Hs Hn) as [E1 S1]. destruct (K n S1 Hn) as [E2 S2].
  split; [congruence|exact S2].
Qed.
Lemma krel_lstep a b : lstep e a b -> krel a b.
Proof.
  intros [L1 L2] n Hs Hn. split; [apply L2; exact Hn|].
  unfold settled in *. destruct (g_producer g n) as [e'|] eqn:Hp.
  - assert (Hne : e' <> e) by (intros ->; apply Hn; apply wf_prod_out; exact Hp).
    rewrite (L1 e' Hne). exact Hs.
  - rewrite (L2 n Hn). exact Hs.
Qed.
Lemma krel_vrel a b : vrel a b -> krel a b.
Proof. intros V n Hs _. split; [apply (proj2 V n Hs)|apply (settled_vrel a b n V Hs)]. Qed.

Lemma lstep_finish a d : lstep e a (finish_edge g a e d).
Proof.
  destruct (finish_edge_props g e a d) as [A9 _]. destruct (st_node_finish_edge e a d) as [_ [N9 _]].
  split; assumption.
Qed.

Lemma exit_dirty a :
  SInv a -> mark_of a e = VisitInStack ->
  (forall o, In o (edge_outs g e) -> must_dirty g w o) ->
  (own_dirty g w e \/ incl (valid_deps g w e) (ins_of a e)) ->
  SInv (finish_edge g a e true).
Proof.
  intros HS Ma Hmd Hown. apply (SInv_finish e a true HS Ma); [|exact Hown].
  intros o Ho. destruct (st_node_finish_edge e a true) as [_ [_ [_ D]]].
  pose proof (D eq_refl o Ho) as Hd. split.
  - split; [intros _; apply Hmd; exact Ho|intros _; exact Hd].
  - rewrite Hd. discriminate.
Qed.

Lemma exit_clean a :
  SInv a -> mark_of a e = VisitInStack ->
  (forall o, In o (edge_outs g e) ->
             ns_dirty (nd a o) = false /\ ~ must_dirty g w o /\
             forall x, x < ns_mtime (nd a o) <-> newer_than g w x o) ->
  (own_dirty g w e \/ incl (valid_deps g w e) (ins_of a e)) ->
  SInv (finish_edge g a e false).
Proof.
  intros HS Ma Hout Hown. apply (SInv_finish e a false HS Ma); [|exact Hown].
  intros o Ho. destruct (st_node_finish_edge e a false) as [_ [_ [C _]]].
  unfold node_ok. rewrite (C eq_refl o). destruct (Hout o Ho) as [Hd [Hn Hx]]. split.
  - rewrite Hd. split; [discriminate|intros H; contradiction].
  - intros _. exact Hx.
Qed.

(* a spliced range is entirely "not order-only" *)
Lemma sel_deps s5 new_ins :
  ins_of s5 e = ei_ins (g_edge g e) ->
  (new_ins = [] \/ (ei_noo (g_edge g e) <= length (ei_ins (g_edge g e)))%nat) ->
  sel (length (splice (ins_of s5 e) (ei_noo (g_edge g e)) new_ins)) (ei_noo (g_edge g e))
      (length (ins_of s5 e) - ei_noo (g_edge g e)) new_ins = new_ins.
Proof.
  intros I5 [->|Hn]; [reflexivity|].
  rewrite I5. apply sel_all.
  - unfold splice. rewrite !app_length, firstn_length, skipn_length. lia.
  - unfold splice. rewrite !app_length, firstn_length, skipn_length. lia.
Qed.

Lemma load_deps_spec_load s o0 outs :
  edge_outs g e = o0 :: outs -> ns_mtime (nd s o0) = w_mtime w o0 ->
  load_deps g w s e = spec_load g w e.
Proof.
  intros Ho Hm. unfold load_deps, spec_load, edge_outs in *. rewrite Ho, Hm. reflexivity.
Qed.

Lemma load_deps_none s : ei_deps (g_edge g e) = DepsNone -> load_deps g w s e = LdOk [].
Proof. intros H. unfold load_deps. rewrite H. reflexivity. Qed.

Lemma spec_load_none : ei_deps (g_edge g e) = DepsNone -> spec_load g w e = LdOk [].
Proof. intros H. unfold spec_load. rewrite H. reflexivity. Qed.

Lemma load_deps_eq s :
  (forall o, In o (edge_outs g e) -> ns_mtime (nd s o) = w_mtime w o) ->
  load_deps g w s e = spec_load g w e.
Proof.
  intros H. unfold load_deps, spec_load, edge_outs in *.
  destruct (ei_outs (g_edge g e)) as [|o0 outs]; [reflexivity|].
  rewrite (H o0 (or_introl eq_refl)). reflexivity.
Qed.

Lemma opt_node_eqb_refl a : opt_node_eqb a a = true.
Proof. destruct a; cbn [opt_node_eqb]; [apply Nat.eqb_refl|reflexivity]. Qed.
Lemma opt_node_eqb_eq a b : opt_node_eqb a b = true -> a = b.
Proof.
  destruct a, b; cbn [opt_node_eqb]; try discriminate; [|reflexivity].
  intros H. apply Nat.eqb_eq in H. congruence.
Qed.

Lemma finish_dirty s3 a :
  SInv a -> krel s3 a -> mark_of a e = VisitInStack ->
  (forall o, In o (edge_outs g e) -> must_dirty g w o) ->
  (own_dirty g w e \/ incl (valid_deps g w e) (ins_of a e)) ->
  SInv (finish_edge g a e true) /\ krel s3 (finish_edge g a e true).
Proof.
  intros HS K Ma Hmd Hown. split; [apply exit_dirty; assumption|].
  apply (krel_trans s3 a); [exact K|]. apply krel_lstep, lstep_finish.
Qed.

Lemma finish_clean s3 a :
  SInv a -> krel s3 a -> mark_of a e = VisitInStack ->
  (forall o, In o (edge_outs g e) ->
             ns_dirty (nd a o) = false /\ ~ must_dirty g w o /\
             forall x, x < ns_mtime (nd a o) <-> newer_than g w x o) ->
  (own_dirty g w e \/ incl (valid_deps g w e) (ins_of a e)) ->
  SInv (finish_edge g a e false) /\ krel s3 (finish_edge g a e false).
Proof.
  intros HS K Ma Hout Hown. split; [apply exit_clean; assumption|].
  apply (krel_trans s3 a); [exact K|]. apply krel_lstep, lstep_finish.
Qed.

Lemma statted_missing s o : statted s o -> (n_exists (nd s o) = false <-> w_mtime w o = 0).
Proof.
  intros [_ [H _]]. unfold n_exists. rewrite H. destruct (Z.eqb_spec (w_mtime w o) 0); split; congruence.
Qed.

Lemma after_inputs_spec rm rd s3 vs3 s' vs' :
  after_inputs g w visit e false rm rd s3 vs3 = SOk (s', vs') ->
  SInv s3 -> mark_of s3 e = VisitInStack -> ins_of s3 e = ei_ins (g_edge g e) ->
  (forall i, In i (ei_ins (g_edge g e)) -> node_final s3 i) ->
  (forall o, In o (edge_outs g e) -> statted s3 o) ->
  SInv s' /\ krel s3 s'.
Proof.
  intros H HS3 M3 I3 F3 T3.
  unfold after_inputs in H.
  destruct (eval_inputs g e (ins_of s3 e) 0 s3 None false) as [[s4 mri] D0] eqn:He.
  pose proof (eval_inputs_spec e _ _ _ _ _ _ _ _ He) as Hev. cbn zeta in Hev.
  rewrite I3, sel_nonoo in Hev. destruct Hev as [ED [EL EM]].
  pose proof (st_node_eval_inputs g e _ _ _ _ _ _ _ _ He) as N4.
  pose proof (local_eval_inputs g e _ _ _ _ _ _ _ _ He) as L34.
  assert (LS34 : lstep e s3 s4) by (apply lstep_of_local; assumption).
  assert (M4 : mark_of s4 e = VisitInStack) by (rewrite (proj1 (proj2 L34)); exact M3).
  assert (I4 : ins_of s4 e = ei_ins (g_edge g e)) by (rewrite (proj2 (proj2 L34)); exact I3).
  assert (HS4 : SInv s4) by (apply (SInv_lstep e s3 s4 HS3 LS34); [rewrite M3; discriminate|exact M4]).
  assert (K34 : krel s3 s4) by (apply krel_lstep; exact LS34).
  assert (OKi : forall i, In i (nonoo_ins g e) -> node_ok s3 i).
  { intros i Hi. apply (proj1 HS3). apply F3. apply nonoo_incl. exact Hi. }
  assert (HD0 : D0 = true <-> exists i, In i (nonoo_ins g e) /\ must_dirty g w i).
  { rewrite ED. split.
    - intros [Hf|[i [Hi Hd]]]; [discriminate|]. exists i. split; [exact Hi|]. apply (proj1 (OKi i Hi)). exact Hd.
    - intros [i [Hi Hd]]. right. exists i. split; [exact Hi|]. apply (proj1 (OKi i Hi)). exact Hd. }
  assert (HN0 : D0 = false -> forall x, lt_mri s3 x mri <-> exists i, In i (nonoo_ins g e) /\ newer_than g w x i).
  { intros HD x.
    assert (Hclean : forall i, In i (nonoo_ins g e) -> ns_dirty (nd s3 i) = false).
    { intros i Hi. destruct (ns_dirty (nd s3 i)) eqn:Di; [|reflexivity].
      assert (D0 = true) by (apply ED; right; exists i; split; assumption). congruence. }
    rewrite EL. cbn [lt_mri]. split.
    - intros [[]|[i [Hi [Di Hx]]]]. exists i. split; [exact Hi|]. apply (proj2 (OKi i Hi) Di x). exact Hx.
    - intros [i [Hi Hx]]. right. exists i. split; [exact Hi|]. split; [apply Hclean; exact Hi|].
      apply (proj2 (OKi i Hi) (Hclean i Hi) x). exact Hx. }
  assert (HMf : forall m, mri = Some m -> node_final s3 m).
  { intros m Hm. destruct (EM m Hm) as [Hc|[Hc _]]; [discriminate|]. apply F3. apply nonoo_incl. exact Hc. }
  assert (T4 : forall o, In o (edge_outs g e) -> statted s4 o).
  { intros o Ho. unfold statted. rewrite N4. apply T3; exact Ho. }
  assert (Hnonoo_spec : forall i, In i (nonoo_ins g e) -> In i (spec_ins g w e)).
  { intros i Hi. unfold spec_ins. apply in_or_app. left; exact Hi. }
  destruct D0.
  - (* a manifest input is dirty *)
    assert (Hmd : forall o, In o (edge_outs g e) -> must_dirty g w o).
    { intros o Ho. destruct (proj1 HD0 eq_refl) as [i [Hi Hd]].
      apply (md_input g w o e i); [apply wf_out_prod; exact Ho|apply Hnonoo_spec; exact Hi|exact Hd]. }
    assert (Hown : forall a, own_dirty g w e \/ incl (valid_deps g w e) (ins_of a e)).
    { intros a. left. left. apply HD0. reflexivity. }
    cbv iota in H. destruct (load_deps_try g w s4 e); inversion H; subst s' vs'.
    + apply finish_dirty; [assumption|assumption|assumption|assumption|apply Hown].
    + pose proof (local_set_deps_missing e s4 true) as Lm.
      assert (LSm : lstep e s4 (set_deps_missing s4 e true)) by (apply lstep_of_local; [exact Lm|reflexivity]).
      assert (Mm : mark_of (set_deps_missing s4 e true) e = VisitInStack) by (rewrite (proj1 (proj2 Lm)); exact M4).
      apply finish_dirty; [apply (SInv_lstep e s4 _ HS4 LSm); [rewrite M4; discriminate|exact Mm]| |exact Mm|exact Hmd|apply Hown].
      apply (krel_trans s3 s4); [exact K34|apply krel_lstep; exact LSm].
  - (* all manifest inputs are clean *)
    specialize (HN0 eq_refl). cbv iota in H.
    assert (HnD0 : ~ exists i, In i (nonoo_ins g e) /\ must_dirty g w i).
    { intros Hx. apply HD0 in Hx. discriminate. }
    destruct (ei_phony (g_edge g e)) eqn:Hph.
    + (* ---------------- phony *)
      assert (Hdk : ei_deps (g_edge g e) = DepsNone).
      { destruct (ei_deps (g_edge g e)) eqn:Hdk; [reflexivity| |];
          (assert (Hne : ei_deps (g_edge g e) <> DepsNone) by (rewrite Hdk; discriminate);
           destruct (proj2 (proj2 Hwf) e Hne) as [Hc _]; congruence). }
      assert (Hmri_out : forall m, mri = Some m -> ~ In m (edge_outs g e)).
      { intros m Hm. apply (final_not_out s3 e m M3). apply HMf; exact Hm. }
      destruct (outputs_dirty_all g w e (edge_outs g e) mri s4) as [d1 s5] eqn:Ho.
      destruct (oda_phony e mri Hph (edge_outs g e) Hmri_out s4 d1 s5 Ho) as [E5 [O5 [DX5 [C5 M5']]]].
      assert (LS45 : lstep e s4 s5) by (split; [intros e' _; rewrite E5; reflexivity|exact O5]).
      assert (M5 : mark_of s5 e = VisitInStack) by (rewrite E5; exact M4).
      assert (HS5 : SInv s5) by (apply (SInv_lstep e s4 s5 HS4 LS45); [rewrite M4; discriminate|exact M5]).
      assert (K35 : krel s3 s5) by (apply (krel_trans s3 s4 s5 K34); apply krel_lstep; exact LS45).
      assert (Hsl : spec_load g w e = LdOk []) by (apply spec_load_none; exact Hdk).
      destruct d1.
      * (* an input-less phony statement whose output does not exist *)
        destruct (proj1 C5 eq_refl) as [Hi0 [Hv0 [o' [Ho' Hx']]]]. rewrite I4 in Hi0.
        assert (Hmd : forall o, In o (edge_outs g e) -> must_dirty g w o).
        { intros o Hoo. apply (md_phony g w o e o'); [apply wf_out_prod; exact Hoo|exact Hph|exact Hi0|exact Hv0|exact Ho'|].
          apply (statted_missing s4 o' (T4 o' Ho')). exact Hx'. }
        assert (Hown : forall a, own_dirty g w e \/ incl (valid_deps g w e) (ins_of a e)).
        { intros a. left. right. left. split; [exact Hph|]. split; [exact Hi0|]. split; [exact Hv0|].
          exists o'. split; [exact Ho'|]. apply (statted_missing s4 o' (T4 o' Ho')). exact Hx'. }
        destruct (load_deps_try g w s5 e); inversion H; subst s' vs'.
        -- apply finish_dirty; [assumption|assumption|assumption|assumption|apply Hown].
        -- pose proof (local_set_deps_missing e s5 true) as Lm.
           assert (LSm : lstep e s5 (set_deps_missing s5 e true)) by (apply lstep_of_local; [exact Lm|reflexivity]).
           assert (Mm : mark_of (set_deps_missing s5 e true) e = VisitInStack) by (rewrite (proj1 (proj2 Lm)); exact M5).
           apply finish_dirty; [apply (SInv_lstep e s5 _ HS5 LSm); [rewrite M5; discriminate|exact Mm]| |exact Mm|exact Hmd|apply Hown].
           apply (krel_trans s3 s5); [exact K35|apply krel_lstep; exact LSm].
      * (* clean: missing outputs take the time of the newest input *)
        rewrite (load_deps_none s5 Hdk) in H. cbn [visit_all eval_inputs] in H.
        rewrite opt_node_eqb_refl in H. cbn [negb andb] in H. inversion H; subst s' vs'. clear H.
        destruct (splice_deps_props g e s5 []) as [A6 [Mk6 _]].
        set (s6 := splice_deps g s5 e []) in *.
        assert (LS56 : lstep e s5 s6) by (split; [exact A6|intros n _; reflexivity]).
        assert (M6 : mark_of s6 e = VisitInStack) by (rewrite Mk6; exact M5).
        assert (HS6 : SInv s6) by (apply (SInv_lstep e s5 s6 HS5 LS56); [rewrite M5; discriminate|exact M6]).
        apply finish_clean; [exact HS6|apply (krel_trans s3 s5 s6 K35); apply krel_lstep; exact LS56|exact M6| |right; unfold valid_deps; rewrite Hsl; apply incl_nil_l].
        intros o Hoo. change (nd s6 o) with (nd s5 o).
        destruct (T4 o Hoo) as [Tm [Te Td]].
        split; [rewrite (proj1 (DX5 o)); exact Td|]. split.
        -- intros Hmd.
           destruct (must_dirty_out_inv o e Hmd (wf_out_prod e o Hoo))
             as [[i [Hi Hd]]|[[_ [Hi0 [Hv0 [o' [Ho' Hz]]]]]|[[Hp _]|Hl]]].
           ++ unfold spec_ins, valid_deps in Hi. rewrite Hsl, app_nil_r in Hi.
              apply HnD0. exists i. split; assumption.
           ++ assert (false = true); [|discriminate]. apply C5. split; [rewrite I4; exact Hi0|]. split; [exact Hv0|].
              exists o'. split; [exact Ho'|]. apply (statted_missing s4 o' (T4 o' Ho')). exact Hz.
           ++ congruence.
           ++ congruence.
        -- intros x. rewrite (M5' eq_refl o Hoo). unfold phony_mtime.
           destruct (n_exists (nd s4 o)) eqn:Hex.
           ++ assert (Hnz : w_mtime w o <> 0).
              { intros Hz. apply (statted_missing s4 o (T4 o Hoo)) in Hz. congruence. }
              rewrite Tm. symmetry. apply newer_file. exact Hnz.
           ++ assert (Hz : w_mtime w o = 0) by (apply (statted_missing s4 o (T4 o Hoo)); exact Hex).
              rewrite (newer_missing_phony x o e Hz (wf_out_prod e o Hoo) Hph).
              rewrite Tm, Hz. rewrite <- HN0. unfold lt_mri.
              destruct mri as [m|]; [rewrite N4; lia|tauto].
    + (* ---------------- a real command *)
      rewrite (oda_nonphony e mri Hph) in H.
      remember (existsb (fun o => output_dirty_first g w e o (mri_mtime s4 mri) s4) (edge_outs g e)) as d1 eqn:Ed1.
      set (Nman := fun x => exists i, In i (nonoo_ins g e) /\ newer_than g w x i) in *.
      set (N := fun x => exists i, In i (spec_ins g w e) /\ newer_than g w x i).
      assert (Hodf : forall o, In o (edge_outs g e) ->
                (output_dirty_first g w e o (mri_mtime s4 mri) s4 = true <-> out_reason g w Nman e o)).
      { intros o Ho. rewrite (odf_spec e o _ s4 (proj1 (T4 o Ho)) (proj1 (proj2 (T4 o Ho)))).
        unfold out_reason. apply or_iff_compat_l. apply time_reason_iff.
        intros x. rewrite lt_opt_mri. unfold lt_mri. rewrite N4. apply HN0. }
      assert (Hd1 : d1 = true <-> exists o, In o (edge_outs g e) /\ out_reason g w Nman e o).
      { rewrite Ed1, existsb_exists. split; intros [o [Ho Hr]]; exists o; (split; [exact Ho|]); apply (Hodf o Ho); exact Hr. }
      assert (HN0N : forall x, Nman x -> N x).
      { intros x [i [Hi Hx]]. exists i. split; [apply Hnonoo_spec; exact Hi|exact Hx]. }
      assert (Hload : load_deps g w s4 e = spec_load g w e).
      { apply load_deps_eq. intros o Ho. apply (proj1 (T4 o Ho)). }
      destruct d1.
      * (* an output check fails before the deps are looked at *)
        assert (Hmd : forall o, In o (edge_outs g e) -> must_dirty g w o).
        { intros o Ho. destruct (proj1 Hd1 eq_refl) as [o' [Ho' Hr]].
          apply (md_self g w o e o'); [apply wf_out_prod; exact Ho|exact Hph|exact Ho'|].
          destruct Hr as [Hb|Ht]; [left; exact Hb|right]. revert Ht. apply time_reason_mono. exact HN0N. }
        assert (Hown : forall a, own_dirty g w e \/ incl (valid_deps g w e) (ins_of a e)).
        { intros a. left. right. right. split; [exact Hph|]. apply (proj1 Hd1 eq_refl). }
        destruct (load_deps_try g w s4 e); inversion H; subst s' vs'.
        -- apply finish_dirty; [assumption|assumption|assumption|assumption|apply Hown].
        -- pose proof (local_set_deps_missing e s4 true) as Lm.
           assert (LSm : lstep e s4 (set_deps_missing s4 e true)) by (apply lstep_of_local; [exact Lm|reflexivity]).
           assert (Mm : mark_of (set_deps_missing s4 e true) e = VisitInStack) by (rewrite (proj1 (proj2 Lm)); exact M4).
           apply finish_dirty; [apply (SInv_lstep e s4 _ HS4 LSm); [rewrite M4; discriminate|exact Mm]| |exact Mm|exact Hmd|apply Hown].
           apply (krel_trans s3 s4); [exact K34|apply krel_lstep; exact LSm].
      * (* clean so far: the deps decide *)
        assert (Hnd1 : forall o, In o (edge_outs g e) -> ~ out_reason g w Nman e o).
        { intros o Ho Hr. assert (false = true) by (apply Hd1; exists o; split; assumption). discriminate. }
        rewrite Hload in H. destruct (spec_load g w e) as [| |new_ins] eqn:Hsl.
        -- (* deps missing or out of date *)
           inversion H; subst s' vs'.
           pose proof (local_set_deps_missing e s4 true) as Lm.
           assert (LSm : lstep e s4 (set_deps_missing s4 e true)) by (apply lstep_of_local; [exact Lm|reflexivity]).
           assert (Mm : mark_of (set_deps_missing s4 e true) e = VisitInStack) by (rewrite (proj1 (proj2 Lm)); exact M4).
           apply finish_dirty; [apply (SInv_lstep e s4 _ HS4 LSm); [rewrite M4; discriminate|exact Mm]| |exact Mm| |right; unfold valid_deps; rewrite Hsl; apply incl_nil_l].
           ++ apply (krel_trans s3 s4); [exact K34|apply krel_lstep; exact LSm].
           ++ intros o Ho. apply (md_deps g w o e); [apply wf_out_prod; exact Ho|exact Hsl].
        -- discriminate.
        -- (* deps usable: splice, visit, re-check *)
           assert (Hcond : new_ins = [] \/ (ei_noo (g_edge g e) <= length (ei_ins (g_edge g e)))%nat).
           { destruct (ei_deps (g_edge g e)) eqn:Hdk.
             - left. rewrite (spec_load_none Hdk) in Hsl. inversion Hsl; reflexivity.
             - right. apply (proj2 (proj2 Hwf) e). rewrite Hdk; discriminate.
             - right. apply (proj2 (proj2 Hwf) e). rewrite Hdk; discriminate. }
           assert (Hvd : valid_deps g w e = new_ins) by (unfold valid_deps; rewrite Hsl; reflexivity).
           destruct (splice_deps_props g e s4 new_ins) as [A6 [Mk6 Ik6]].
           set (s6 := splice_deps g s4 e new_ins) in *.
           assert (LS46 : lstep e s4 s6) by (split; [exact A6|intros n _; reflexivity]).
           assert (M6 : mark_of s6 e = VisitInStack) by (rewrite Mk6; exact M4).
           assert (HS6 : SInv s6) by (apply (SInv_lstep e s4 s6 HS4 LS46); [rewrite M4; discriminate|exact M6]).
           destruct (visit_all visit new_ins (s6, vs3)) as [[s7 vs7]|c|e'|] eqn:V2; try discriminate.
           destruct (visit_all_spec _ _ _ _ _ V2 HS6) as [HS7 [V67 F7]].
           assert (E67 : st_edge s7 e = st_edge s6 e) by (apply (ext_marked s6 s7 e (proj1 V67)); rewrite M6; discriminate).
           assert (M7 : mark_of s7 e = VisitInStack) by (rewrite E67; exact M6).
           destruct (eval_inputs g e new_ins (length (ins_of s4 e) - ei_noo (g_edge g e)) s7 mri false)
             as [[s8 mri2] D2] eqn:He2.
           pose proof (eval_inputs_spec e _ _ _ _ _ _ _ _ He2) as Hev2. cbn zeta in Hev2.
           rewrite E67, Ik6, (sel_deps s4 new_ins I4 Hcond) in Hev2. destruct Hev2 as [ED2 [EL2 EM2]].
           pose proof (st_node_eval_inputs g e _ _ _ _ _ _ _ _ He2) as N8.
           pose proof (local_eval_inputs g e _ _ _ _ _ _ _ _ He2) as L78.
           assert (LS78 : lstep e s7 s8) by (apply lstep_of_local; assumption).
           assert (M8 : mark_of s8 e = VisitInStack) by (rewrite (proj1 (proj2 L78)); exact M7).
           assert (HS8 : SInv s8) by (apply (SInv_lstep e s7 s8 HS7 LS78); [rewrite M7; discriminate|exact M8]).
           assert (K38 : krel s3 s8).
           { apply (krel_trans s3 s4 s8 K34). apply (krel_trans s4 s6 s8); [apply krel_lstep; exact LS46|].
             apply (krel_trans s6 s7 s8); [apply krel_vrel; exact V67|apply krel_lstep; exact LS78]. }
           assert (Hkeep : forall i, node_final s3 i -> nd s7 i = nd s3 i).
           { intros i Hf.
             assert (LS36 : lstep e s3 s6) by (apply (lstep_trans e s3 s4 s6); assumption).
             destruct (lstep_final e s3 s6 i LS36 M3 M6) as [Hiff Heq].
             destruct (final_vrel s6 s7 i V67 (proj1 Hiff Hf)) as [_ E]. rewrite E. apply Heq; exact Hf. }
           assert (OK7 : forall i, In i new_ins -> node_ok s7 i).
           { intros i Hi. apply (proj1 HS7). apply F7. exact Hi. }
           assert (HD2 : D2 = true <-> exists i, In i new_ins /\ must_dirty g w i).
           { rewrite ED2. split.
             - intros [Hf|[i [Hi Hd]]]; [discriminate|]. exists i. split; [exact Hi|]. apply (proj1 (OK7 i Hi)). exact Hd.
             - intros [i [Hi Hd]]. right. exists i. split; [exact Hi|]. apply (proj1 (OK7 i Hi)). exact Hd. }
           assert (Hmri7 : forall x, lt_mri s7 x mri <-> Nman x).
           { intros x. unfold Nman. rewrite <- HN0. unfold lt_mri. destruct mri as [m|]; [|tauto].
             rewrite (Hkeep m (HMf m eq_refl)). tauto. }
           assert (HN2 : D2 = false -> forall x, lt_mri s7 x mri2 <-> N x).
           { intros HD x.
             assert (Hcl : forall i, In i new_ins -> ns_dirty (nd s7 i) = false).
             { intros i Hi. destruct (ns_dirty (nd s7 i)) eqn:Di; [|reflexivity].
               assert (D2 = true) by (apply ED2; right; exists i; split; assumption). congruence. }
             rewrite EL2, Hmri7. unfold N, Nman, spec_ins. rewrite Hvd. split.
             - intros [[i [Hi Hx]]|[i [Hi [Di Hx]]]].
               + exists i. split; [apply in_or_app; left; exact Hi|exact Hx].
               + exists i. split; [apply in_or_app; right; exact Hi|]. apply (proj2 (OK7 i Hi) Di x). exact Hx.
             - intros [i [Hi Hx]]. apply in_app_or in Hi. destruct Hi as [Hi|Hi].
               + left. exists i. split; assumption.
               + right. exists i. split; [exact Hi|]. split; [apply Hcl; exact Hi|].
                 apply (proj2 (OK7 i Hi) (Hcl i Hi) x). exact Hx. }
           assert (T8 : forall o, In o (edge_outs g e) -> statted s8 o).
           { intros o Ho. unfold statted. rewrite N8.
             assert (Hst : settled s6 o).
             { unfold settled. rewrite (wf_out_prod e o Ho), M6. discriminate. }
             rewrite (proj2 V67 o Hst). apply (T4 o Ho). }
           assert (Hcleanout : (forall o', In o' (edge_outs g e) -> ~ time_reason g w N e o') -> D2 = false ->
                     forall o, In o (edge_outs g e) ->
                               ns_dirty (nd s8 o) = false /\ ~ must_dirty g w o /\
                               forall x, x < ns_mtime (nd s8 o) <-> newer_than g w x o).
           { intros Hnt HD2f o Ho. destruct (T8 o Ho) as [Tm [Te Td]].
             assert (Hnz : w_mtime w o <> 0).
             { intros Hz. apply (Hnd1 o Ho). left. left. exact Hz. }
             split; [exact Td|]. split.
             - intros Hmd.
               destruct (must_dirty_out_inv o e Hmd (wf_out_prod e o Ho))
                 as [[i [Hi Hd]]|[[Hp _]|[[_ [o' [Ho' Hr]]]|Hl]]].
               + unfold spec_ins in Hi. rewrite Hvd in Hi. apply in_app_or in Hi. destruct Hi as [Hi|Hi].
                 * apply HnD0. exists i. split; assumption.
                 * assert (D2 = true) by (apply HD2; exists i; split; assumption). congruence.
               + congruence.
               + destruct Hr as [Hb|Ht]; [apply (Hnd1 o' Ho'); left; exact Hb|apply (Hnt o' Ho'); exact Ht].
               + congruence.
             - intros x. rewrite Tm. symmetry. apply newer_file. exact Hnz. }
           assert (Hpw8 : D2 = false -> forall x, lt_opt x (mri_mtime s8 mri2) <-> N x).
           { intros HD x. rewrite lt_opt_mri. unfold lt_mri. rewrite N8. apply (HN2 HD x). }
           assert (Hown8 : own_dirty g w e \/ incl (valid_deps g w e) (ins_of s8 e)).
           { right. rewrite Hvd, (proj2 (proj2 L78)), E67, Ik6. intros x Hx. apply in_splice. right; exact Hx. }
           inversion H; subst s' vs'. clear H.
           destruct D2; cbn [negb andb].
           ++ (* a recorded dep is dirty *)
              apply finish_dirty; [exact HS8|exact K38|exact M8| |exact Hown8].
              intros o Ho. destruct (proj1 HD2 eq_refl) as [i [Hi Hd]].
              apply (md_input g w o e i); [apply wf_out_prod; exact Ho| |exact Hd].
              unfold spec_ins. rewrite Hvd. apply in_or_app. right; exact Hi.
           ++ destruct (opt_node_eqb mri mri2) eqn:Heq; cbn [negb].
              ** (* the newest input is still the same *)
                 apply finish_clean; [exact HS8|exact K38|exact M8| |exact Hown8]. apply Hcleanout; [|reflexivity].
                 intros o' Ho' Ht. apply (Hnd1 o' Ho'). right. revert Ht. apply time_reason_iff.
                 intros x. rewrite <- (HN2 eq_refl x), <- (opt_node_eqb_eq _ _ Heq). symmetry. apply Hmri7.
              ** destruct (outputs_dirty_depfile g w e mri2 s8) eqn:Hdf.
                 --- apply finish_dirty; [exact HS8|exact K38|exact M8| |exact Hown8].
                     intros o Ho. unfold outputs_dirty_depfile in Hdf. apply existsb_exists in Hdf.
                     destruct Hdf as [o' [Ho' Ha]].
                     apply (oda_again_spec e o' _ s8 (proj1 (T8 o' Ho'))) in Ha.
                     apply (md_self g w o e o'); [apply wf_out_prod; exact Ho|exact Hph|exact Ho'|].
                     right. apply (proj1 (time_reason_iff (fun x => lt_opt x (mri_mtime s8 mri2)) N e o' (Hpw8 eq_refl)) Ha).
                 --- apply finish_clean; [exact HS8|exact K38|exact M8| |exact Hown8]. apply Hcleanout; [|reflexivity].
                     intros o' Ho' Ht.
                     assert (Hx : outputs_dirty_depfile g w e mri2 s8 = true); [|congruence].
                     unfold outputs_dirty_depfile. apply existsb_exists. exists o'. split; [exact Ho'|].
                     apply (oda_again_spec e o' _ s8 (proj1 (T8 o' Ho'))).
                     apply (proj2 (time_reason_iff (fun x => lt_opt x (mri_mtime s8 mri2)) N e o' (Hpw8 eq_refl)) Ht).
Qed.

End Heart.

Lemma SInv_leaf s n :
  g_producer g n = None -> n_known (nd s n) = false -> SInv s ->
  let s1 := stat_if_necessary w s n in
  let s' := set_dirty s1 n (negb (n_exists (nd s1 n))) in
  SInv s' /\ vrel s s' /\ node_final s' n.
Proof.
  intros Hp Hk [S1 [S2 [S3 S4]]] s1 s'.
  assert (E : st_edge s' = st_edge s) by (subst s' s1; cbn [set_dirty upd_node st_edge]; apply st_edge_stat_if_necessary).
  assert (O : forall n', n' <> n -> nd s' n' = nd s n').
  { intros n' Hne. subst s' s1. unfold set_dirty. rewrite upd_node_other by exact Hne. apply stat_other; exact Hne. }
  assert (Hn : nd s' n = mkN (Z.eqb (w_mtime w n) 0) (w_mtime w n)
                            (if Z.eqb (w_mtime w n) 0 then ExMissing else ExExists)).
  { subst s' s1. unfold set_dirty. rewrite upd_node_same. unfold stat_if_necessary. rewrite Hk.
    rewrite upd_node_same. cbn [ns_mtime ns_exists n_exists]. destruct (Z.eqb (w_mtime w n) 0); reflexivity. }
  split; [|split].
  - split; [|split; [|split]].
    4:{ intros e Hm. rewrite E in *. apply S4. exact Hm. }
    + intros n' Hf. destruct (Nat.eq_dec n' n) as [->|Hne].
      * unfold node_ok. rewrite Hn. cbn [ns_dirty ns_mtime]. split.
        -- rewrite Z.eqb_eq. split; [intros Hz; apply md_leaf; assumption|intros Hmd; apply must_dirty_leaf_inv; assumption].
        -- intros Hd x. apply Z.eqb_neq in Hd. symmetry. apply newer_file. exact Hd.
      * apply (node_ok_eq s s' n' (O n' Hne)). apply S1. unfold node_final in *. rewrite E in Hf. rewrite <- (O n' Hne). exact Hf.
    + intros n' e Hpe Hm. assert (Hne : n' <> n) by (intros ->; congruence).
      rewrite (O n' Hne). apply (S2 n' e Hpe). rewrite <- E. exact Hm.
    + intros e Hm. rewrite E in *. apply S3. exact Hm.
  - split; [apply ext_of_edge_eq; exact E|]. intros n' Hs. apply O. intros ->.
    unfold settled in Hs. rewrite Hp in Hs. congruence.
  - unfold node_final. rewrite Hp, Hn. unfold n_known. cbn [ns_exists]. destruct (Z.eqb _ _); reflexivity.
Qed.

Lemma rnd_spec : forall f stack n s vs s' vs',
  rnd f stack n (s, vs) = SOk (s', vs') -> SInv s -> SInv s' /\ vrel s s' /\ node_final s' n.
Proof.
  induction f as [|f IH]; intros stack n s vs s' vs' H HS; [discriminate|].
  destruct (g_producer g n) as [e|] eqn:Hp.
  2:{ cbn [recompute_node_dirty] in H. rewrite Hp in H.
      destruct (n_known (nd s n)) eqn:Hk; inversion H; subst s' vs'.
      - split; [exact HS|]. split; [apply vrel_refl|]. unfold node_final. rewrite Hp. exact Hk.
      - apply (SInv_leaf s n Hp Hk HS). }
  destruct (mark_of s e) eqn:Hm.
  2:{ cbn [recompute_node_dirty] in H. rewrite Hp, Hm in H. discriminate. }
  2:{ cbn [recompute_node_dirty] in H. rewrite Hp, Hm in H. inversion H; subst s' vs'.
      split; [exact HS|]. split; [apply vrel_refl|]. unfold node_final. rewrite Hp. exact Hm. }
  destruct (rnd_ok g w _ _ _ _ _ _ _ H) as [Eext [_ Ddone]].
  rewrite (rnd_none_unfold g w f stack n e s vs Hp Hm) in H.
  destruct HS as [S1 [S2 [S3 S4]]]. destruct (S3 e Hm) as [Hdl Hins]. rewrite Hdl in H.
  destruct (s2_props g w e s) as [A2 [M2 I2]].
  set (s2 := stat_outputs w (enter_edge s e) (edge_outs g e)) in *.
  assert (LS2 : lstep e s s2).
  { split; [exact A2|]. intros n' Hn'. subst s2. rewrite stat_outputs_other by exact Hn'. reflexivity. }
  assert (HS2 : SInv s2).
  { apply (SInv_lstep e s s2 (conj S1 (conj S2 (conj S3 S4))) LS2); [rewrite Hm; discriminate|exact M2]. }
  assert (T2 : forall o, In o (edge_outs g e) -> statted s2 o).
  { intros o Ho. subst s2. apply stat_outputs_statted; [exact Ho|].
    intros o' Ho'. left. change (nd (enter_edge s e) o') with (nd s o').
    apply (S2 o' e (wf_out_prod e o' Ho') Hm). }
  set (visit := rnd f (stack ++ [n])) in *.
  assert (Hvisit : forall i sa va sb vb, visit i (sa, va) = SOk (sb, vb) -> SInv sa ->
                                        SInv sb /\ vrel sa sb /\ node_final sb i).
  { intros i sa va sb vb Hv Ha. apply (IH _ _ _ _ _ _ Hv Ha). }
  destruct (visit_all visit (ins_of s2 e) (s2, vs ++ ei_vals (g_edge g e))) as [[s3 vs3]|c|e'|] eqn:V1;
    try discriminate.
  destruct (visit_all_spec visit Hvisit _ _ _ _ _ V1 HS2) as [HS3 [V23 F3]].
  assert (E23 : st_edge s3 e = st_edge s2 e) by (apply (ext_marked s2 s3 e (proj1 V23)); rewrite M2; discriminate).
  assert (M3 : mark_of s3 e = VisitInStack) by (rewrite E23; exact M2).
  assert (I3 : ins_of s3 e = ei_ins (g_edge g e)) by (rewrite E23, I2; exact Hins).
  assert (T3 : forall o, In o (edge_outs g e) -> statted s3 o).
  { intros o Ho. unfold statted. rewrite (proj2 V23 o); [apply T2; exact Ho|].
    unfold settled. rewrite (wf_out_prod e o Ho), M2. discriminate. }
  rewrite I2, Hins in F3.
  destruct (after_inputs_spec visit Hvisit e _ _ s3 vs3 s' vs' H HS3 M3 I3 F3 T3) as [HS' K3'].
  split; [exact HS'|]. split.
  - split; [exact Eext|]. intros n' Hs.
    assert (Hno : ~ In n' (edge_outs g e)).
    { intros Hin. unfold settled in Hs. rewrite (wf_out_prod e n' Hin) in Hs. congruence. }
    destruct (krel_lstep e s s2 LS2 n' Hs Hno) as [E2 St2].
    pose proof (proj2 V23 n' St2) as E3. pose proof (settled_vrel s2 s3 n' V23 St2) as St3.
    destruct (K3' n' St3 Hno) as [E4 _]. congruence.
  - unfold node_final. rewrite Hp. apply (Ddone e Hp).
Qed.

(* ---- top level *)
Lemma loop_spec : forall qf queue s found s' vs',
  recompute_dirty_loop g w qf queue s found = SOk (s', vs') -> SInv s -> SInv s'.
Proof.
  induction qf as [|qf IH]; intros queue s found s' vs' H HS; destruct queue as [|n queue];
    cbn [recompute_dirty_loop] in H; try discriminate.
  - inversion H; subst; exact HS.
  - inversion H; subst; exact HS.
  - destruct (rnd (scan_fuel g) [] n (s, [])) as [[s1 newv]|c|e|] eqn:Hv; try discriminate.
    apply (IH _ _ _ _ _ H). apply (rnd_spec _ _ _ _ _ _ _ Hv HS).
Qed.

Lemma add_targets_spec : forall targets s p s' p',
  add_targets g w s p targets = ScanOk s' p' -> SInv s -> Inv g w [] s -> SInv s' /\ Inv g w [] s'.
Proof.
  induction targets as [|t targets IH]; intros s p s' p' H HS HI; cbn [add_targets] in H.
  - inversion H; subst. split; assumption.
  - pose proof (bat_result g w s p t) as Hb.
    destruct (builder_add_target g w s p t) as [c|m d|e| |s1 p1]; try discriminate.
    destruct Hb as [vn Hb]. apply (IH _ _ _ _ H).
    + apply (loop_spec _ _ _ _ _ _ Hb HS).
    + apply (loop_Inv g w _ _ _ _ _ _ Hb HI).
Qed.

Lemma SInv_init : SInv (init_state g).
Proof.
  split; [|split; [|split]].
  - intros n Hf. unfold node_final in Hf. destruct (g_producer g n); cbn in Hf; discriminate.
  - intros n e _ _. reflexivity.
  - intros e _. split; reflexivity.
  - intros e He. cbn in He. discriminate.
Qed.

(* scan_dirty_spec: after an accepted scan, for every node the scan has looked at (a source
   that was stat'ed, an output of a statement that was visited) the dirty flag is exactly the
   declarative [must_dirty], and a clean node's mtime is exactly what [newer_than] says *)
Theorem scan_dirty_spec targets s p :
  scan g w targets = ScanOk s p ->
  forall n, n_known (nd s n) = true ->
    (ns_dirty (nd s n) = true <-> must_dirty g w n) /\
    (ns_dirty (nd s n) = false -> forall x, x < ns_mtime (nd s n) <-> newer_than g w x n).
Proof.
  intros H n Hk.
  destruct (add_targets_spec _ _ _ _ _ H SInv_init (Inv_init g w)) as [[S1 [S2 [S3 S4]]] [I1 _]].
  apply S1. unfold node_final. destruct (g_producer g n) as [e|] eqn:Hp; [|exact Hk].
  destruct (mark_of s e) eqn:Hm; [| |reflexivity].
  - rewrite (S2 n e Hp Hm) in Hk. discriminate.
  - destruct (I1 e Hm) as [x [[] _]].
Qed.

(* Under [deps_safe] nothing the targets need is skipped: every needed statement is visited,
   so the flags of ALL its outputs are the specified ones. *)
Theorem scan_visits_needed targets s p :
  deps_safe g w -> scan g w targets = ScanOk s p ->
  forall e, needed g w targets e -> mark_of s e = VisitDone.
Proof.
  intros Hsafe H e Hn.
  destruct (add_targets_spec _ _ _ _ _ H SInv_init (Inv_init g w)) as [[S1 [S2 [S3 S4]]] _].
  destruct (C17_complete_final g w targets s p H) as [[rank [K HR]] [HD HK]].
  induction Hn as [t e Ht Hp|e i e' Hn IH Hi Hp].
  - apply (HD t Ht e Hp).
  - assert (Hin : In i (ins_of s e)).
    { unfold need_ins in Hi. apply in_app_or in Hi. destruct Hi as [Hi|Hi]; [apply HK; exact Hi|].
      destruct (S4 e IH) as [Hown|Hincl]; [|apply Hincl; exact Hi].
      apply HK. apply (Hsafe e i e' Hown Hi Hp). }
    apply (proj2 (HR e IH) i e' Hin Hp).
Qed.

Theorem scan_dirty_spec_needed targets s p :
  deps_safe g w -> scan g w targets = ScanOk s p ->
  forall e o, needed g w targets e -> g_producer g o = Some e ->
    (ns_dirty (nd s o) = true <-> must_dirty g w o) /\
    (ns_dirty (nd s o) = false -> forall x, x < ns_mtime (nd s o) <-> newer_than g w x o).
Proof.
  intros Hsafe H e o Hn Hp.
  destruct (add_targets_spec _ _ _ _ _ H SInv_init (Inv_init g w)) as [[S1 _] _].
  apply S1. unfold node_final. rewrite Hp. apply (scan_visits_needed targets s p Hsafe H e Hn).
Qed.

End SpecProofs.

(* ================================================================== Part 6: C03 / C10 facts *)
Local Open Scope Z_scope.

(* ---- (a) only the mtimes of order-only sources change *)
Definition worlds_agree_except (X : node -> Prop) (w w' : world) : Prop :=
  (forall n, ~ X n -> w_mtime w n = w_mtime w' n) /\
  (forall n, w_blog w n = w_blog w' n) /\
  (forall n, w_dlog w n = w_dlog w' n) /\
  (forall e, w_depfile w e = w_depfile w' e).

(* X: sources (no producer) that exist and are neither a non-order-only manifest input nor a
   usable recorded dep of any statement *)
Definition order_only_sources (g : graph) (w : world) (X : node -> Prop) : Prop :=
  forall x, X x -> g_producer g x = None /\ w_mtime w x <> 0 /\ forall e, ~ In x (spec_ins g w e).

Section OrderOnly.
Variables (g : graph) (w w' : world) (X : node -> Prop).
Hypothesis Hout : forall e o, In o (ei_outs (g_edge g e)) -> g_producer g o = Some e.
Hypothesis Hag : worlds_agree_except X w w'.
Hypothesis HX : order_only_sources g w X.
Hypothesis HX' : order_only_sources g w' X.

Lemma out_not_X e o : In o (ei_outs (g_edge g e)) -> ~ X o.
Proof. intros Ho Hx. destruct (HX o Hx) as [Hp _]. rewrite (Hout e o Ho) in Hp. discriminate. Qed.

Lemma spec_load_agree e : spec_load g w e = spec_load g w' e.
Proof.
  destruct Hag as [Hm [_ [Hd Hf]]]. unfold spec_load.
  destruct (ei_deps (g_edge g e)); [reflexivity| |].
  - destruct (ei_outs (g_edge g e)) as [|o0 outs]; [reflexivity|]. rewrite (Hf e). reflexivity.
  - destruct (ei_outs (g_edge g e)) as [|o0 outs] eqn:Ho; [reflexivity|].
    rewrite (Hd o0). rewrite (Hm o0); [reflexivity|].
    apply (out_not_X e). rewrite Ho. left; reflexivity.
Qed.

Lemma spec_ins_agree e : spec_ins g w e = spec_ins g w' e.
Proof. unfold spec_ins, valid_deps. rewrite spec_load_agree. reflexivity. Qed.

Lemma newer_transfer x n : newer_than g w x n -> ~ X n -> newer_than g w' x n.
Proof.
  destruct Hag as [Hm _].
  induction 1 as [n Hnz Hlt|n Hz Hlt|n e i Hz Hp Hph Hi Hn IH]; intros HnX.
  - apply nt_file; rewrite <- (Hm n HnX); assumption.
  - apply nt_missing; [rewrite <- (Hm n HnX)|]; assumption.
  - apply (nt_phony g w' x n e i); [rewrite <- (Hm n HnX); exact Hz|exact Hp|exact Hph|exact Hi|].
    apply IH. intros Hx. destruct (HX i Hx) as [_ [_ Hno]]. apply (Hno e).
    unfold spec_ins. apply in_or_app. left; exact Hi.
Qed.

Lemma must_dirty_transfer n : must_dirty g w n -> must_dirty g w' n.
Proof.
  destruct Hag as [Hm [Hb _]].
  induction 1 as [n Hp Hz|n e i Hp Hi Hd IH|n e o Hp Hph Hi0 Hv0 Ho Hz|n e o Hp Hph Ho Hr|n e Hp Hl].
  - apply md_leaf; [exact Hp|]. rewrite <- (Hm n); [exact Hz|].
    intros Hx. destruct (HX n Hx) as [_ [Hnz _]]. contradiction.
  - apply (md_input g w' n e i); [exact Hp|rewrite <- spec_ins_agree; exact Hi|exact IH].
  - apply (md_phony g w' n e o); try assumption. rewrite <- (Hm o (out_not_X e o Ho)). exact Hz.
  - apply (md_self g w' n e o); try assumption.
    pose proof (Hm o (out_not_X e o Ho)) as Hmo.
    assert (HN : forall x, (exists i, In i (spec_ins g w e) /\ newer_than g w x i) ->
                           (exists i, In i (spec_ins g w' e) /\ newer_than g w' x i)).
    { intros x [i [Hi Hn]]. exists i. split; [rewrite <- spec_ins_agree; exact Hi|].
      apply (newer_transfer x i Hn). intros Hx. destruct (HX i Hx) as [_ [_ Hno]]. apply (Hno e Hi). }
    destruct Hr as [Hbase|Htime].
    + left. unfold base_reason in *. rewrite <- Hmo, <- (Hb o). exact Hbase.
    + right. unfold time_reason, used_restat in *. rewrite <- Hmo, <- (Hb o).
      destruct Htime as [[A B]|B]; [left; split; [exact A|apply HN; exact B]|right].
      destruct (w_blog w o) as [[h m]|]; [apply HN; exact B|exact B].
  - apply (md_deps g w' n e); [exact Hp|rewrite <- spec_load_agree; exact Hl].
Qed.
End OrderOnly.

Lemma worlds_agree_sym X w w' : worlds_agree_except X w w' -> worlds_agree_except X w' w.
Proof.
  intros [A [B [C D]]]. split; [intros n Hn; symmetry; apply A; exact Hn|].
  split; [intros n; symmetry; apply B|]. split; [intros n; symmetry; apply C|intros e; symmetry; apply D].
Qed.

(* changing only mtimes of order-only sources changes no must_dirty verdict ... *)
Theorem must_dirty_order_only_indep g w w' X :
  (forall e o, In o (ei_outs (g_edge g e)) -> g_producer g o = Some e) ->
  worlds_agree_except X w w' -> order_only_sources g w X -> order_only_sources g w' X ->
  forall n, must_dirty g w n <-> must_dirty g w' n.
Proof.
  intros Hout Hag HX HX' n. split.
  - apply (must_dirty_transfer g w w' X Hout Hag HX).
  - apply (must_dirty_transfer g w' w X Hout (worlds_agree_sym X w w' Hag) HX').
Qed.

(* ... hence no dirty flag computed by the scan *)
Theorem C03_order_only_alone_no_dirty g w w' X targets s p s' p' :
  wf_spec g ->
  worlds_agree_except X w w' -> order_only_sources g w X -> order_only_sources g w' X ->
  scan g w targets = ScanOk s p -> scan g w' targets = ScanOk s' p' ->
  forall n, n_known (st_node s n) = true -> n_known (st_node s' n) = true ->
            ns_dirty (st_node s n) = ns_dirty (st_node s' n).
Proof.
  intros Hwf Hag HX HX' H H' n Hk Hk'.
  destruct (scan_dirty_spec g w Hwf targets s p H n Hk) as [A _].
  destruct (scan_dirty_spec g w' Hwf targets s' p' H' n Hk') as [A' _].
  pose proof (must_dirty_order_only_indep g w w' X (proj1 Hwf) Hag HX HX' n) as Hiff.
  destruct (ns_dirty (st_node s n)), (ns_dirty (st_node s' n)); try reflexivity.
  - assert (false = true) by (apply A'; apply Hiff; apply A; reflexivity). congruence.
  - assert (false = true) by (apply A; apply Hiff; apply A'; reflexivity). congruence.
Qed.

(* ---- (b) only the command line of generator rules changes *)
Definition same_but_generator_hash (g g' : graph) : Prop :=
  (forall n, g_producer g n = g_producer g' n) /\
  (forall e, ei_ins (g_edge g e) = ei_ins (g_edge g' e) /\
             ei_noo (g_edge g e) = ei_noo (g_edge g' e) /\
             ei_outs (g_edge g e) = ei_outs (g_edge g' e) /\
             ei_vals (g_edge g e) = ei_vals (g_edge g' e) /\
             ei_phony (g_edge g e) = ei_phony (g_edge g' e) /\
             ei_restat (g_edge g e) = ei_restat (g_edge g' e) /\
             ei_generator (g_edge g e) = ei_generator (g_edge g' e) /\
             ei_deps (g_edge g e) = ei_deps (g_edge g' e) /\
             (ei_generator (g_edge g e) = false -> ei_hash (g_edge g e) = ei_hash (g_edge g' e))).

Section GeneratorHash.
Variables (g g' : graph) (w : world).
Hypothesis Hs : same_but_generator_hash g g'.

Lemma sbg_nonoo e : nonoo_ins g e = nonoo_ins g' e.
Proof.
  destruct (proj2 Hs e) as [A [B _]]. unfold nonoo_ins. rewrite A, B. reflexivity.
Qed.
Lemma sbg_spec_load e : spec_load g w e = spec_load g' w e.
Proof.
  destruct (proj2 Hs e) as [_ [_ [C [_ [_ [_ [_ [D _]]]]]]]]. unfold spec_load. rewrite C, D. reflexivity.
Qed.
Lemma sbg_spec_ins e : spec_ins g w e = spec_ins g' w e.
Proof. unfold spec_ins, valid_deps. rewrite sbg_nonoo, sbg_spec_load. reflexivity. Qed.

Lemma sbg_newer x n : newer_than g w x n -> newer_than g' w x n.
Proof.
  induction 1 as [n Hnz Hlt|n Hz Hlt|n e i Hz Hp Hph Hi Hn IH].
  - apply nt_file; assumption.
  - apply nt_missing; assumption.
  - apply (nt_phony g' w x n e i); [exact Hz|rewrite <- (proj1 Hs n); exact Hp| | |exact IH].
    + destruct (proj2 Hs e) as [_ [_ [_ [_ [P _]]]]]. rewrite <- P. exact Hph.
    + rewrite <- sbg_nonoo. exact Hi.
Qed.

Lemma sbg_must_dirty n : must_dirty g w n -> must_dirty g' w n.
Proof.
  induction 1 as [n Hp Hz|n e i Hp Hi Hd IH|n e o Hp Hph Hi0 Hv0 Ho Hz|n e o Hp Hph Ho Hr|n e Hp Hl].
  - apply md_leaf; [rewrite <- (proj1 Hs n); exact Hp|exact Hz].
  - destruct (proj2 Hs e) as [A [B [C [D [P [R [G [K HH]]]]]]]].
    apply (md_input g' w n e i); [rewrite <- (proj1 Hs n); exact Hp|rewrite <- sbg_spec_ins; exact Hi|exact IH].
  - destruct (proj2 Hs e) as [A [B [C [D [P [R [G [K HH]]]]]]]].
    apply (md_phony g' w n e o); [rewrite <- (proj1 Hs n); exact Hp|rewrite <- P; exact Hph|rewrite <- A; exact Hi0
                                 |rewrite <- D; exact Hv0|rewrite <- C; exact Ho|exact Hz].
  - destruct (proj2 Hs e) as [A [B [C [D [P [R [G [K HH]]]]]]]].
    apply (md_self g' w n e o); [rewrite <- (proj1 Hs n); exact Hp|rewrite <- P; exact Hph|rewrite <- C; exact Ho|].
    destruct Hr as [Hbase|Htime].
    + left. unfold base_reason in *. rewrite <- G. destruct Hbase as [Hz|Hb]; [left; exact Hz|right].
      destruct (w_blog w o) as [[h m]|]; [|exact Hb]. destruct Hb as [Hg Hne]. split; [exact Hg|].
      rewrite <- (HH Hg). exact Hne.
    + right. unfold time_reason, used_restat in *. rewrite <- R.
      assert (HN : forall x, (exists i, In i (spec_ins g w e) /\ newer_than g w x i) ->
                             (exists i, In i (spec_ins g' w e) /\ newer_than g' w x i)).
      { intros x [i [Hi Hn]]. exists i. split; [rewrite <- sbg_spec_ins; exact Hi|apply sbg_newer; exact Hn]. }
      destruct Htime as [[A1 B1]|B1]; [left; split; [exact A1|apply HN; exact B1]|right].
      destruct (w_blog w o) as [[h m]|]; [apply HN; exact B1|exact B1].
  - apply (md_deps g' w n e); [rewrite <- (proj1 Hs n); exact Hp|rewrite <- sbg_spec_load; exact Hl].
Qed.
End GeneratorHash.

Lemma same_but_generator_hash_sym g g' : same_but_generator_hash g g' -> same_but_generator_hash g' g.
Proof.
  intros [A B]. split; [intros n; symmetry; apply A|].
  intros e. destruct (B e) as [B1 [B2 [B3 [B4 [B5 [B6 [B7 [B8 B9]]]]]]]].
  repeat split; try (symmetry; assumption).
  intros Hg. symmetry. apply B9. rewrite B7. exact Hg.
Qed.

Theorem must_dirty_generator_hash_indep g g' w :
  same_but_generator_hash g g' -> forall n, must_dirty g w n <-> must_dirty g' w n.
Proof.
  intros Hs n. split; [apply (sbg_must_dirty g g' w Hs)|].
  apply (sbg_must_dirty g' g w (same_but_generator_hash_sym g g' Hs)).
Qed.

(* changing only the command line of generator rules changes no dirty flag *)
Theorem C03_generator_cmdline_no_dirty g g' w targets s p s' p' :
  wf_spec g -> wf_spec g' -> same_but_generator_hash g g' ->
  scan g w targets = ScanOk s p -> scan g' w targets = ScanOk s' p' ->
  forall n, n_known (st_node s n) = true -> n_known (st_node s' n) = true ->
            ns_dirty (st_node s n) = ns_dirty (st_node s' n).
Proof.
  intros Hwf Hwf' Hs H H' n Hk Hk'.
  destruct (scan_dirty_spec g w Hwf targets s p H n Hk) as [A _].
  destruct (scan_dirty_spec g' w Hwf' targets s' p' H' n Hk') as [A' _].
  pose proof (must_dirty_generator_hash_indep g g' w Hs n) as Hiff.
  destruct (ns_dirty (st_node s n)), (ns_dirty (st_node s' n)); try reflexivity.
  - assert (false = true) by (apply A'; apply Hiff; apply A; reflexivity). congruence.
  - assert (false = true) by (apply A; apply Hiff; apply A'; reflexivity). congruence.
Qed.

(* ---- (c) C10: a recorded dep of a statement that is dirty for its own reason is not looked at *)
(*   build hdr: gen hs                      (hdr = 0, obj = 1, hs = 2, src = 3)
     build obj: cc src   (deps = gcc; the deps log says: obj read hdr, and the record is valid)
   both hs and src were edited.  Requested: obj. *)
Local Open Scope nat_scope.
Module C10Witness.
  Definition e0 := mkEdge [2] 0 0 [0] [] false false false DepsNone 7%N.
  Definition e1 := mkEdge [3] 0 0 [1] [] false false false DepsLog 8%N.
  Definition dummy := mkEdge [] 0 0 [] [] false false false DepsNone 0%N.
  Definition g := mkGraph 2 (fun e => match e with 0 => e0 | 1 => e1 | _ => dummy end)
                          (fun n => match n with 0 => Some 0 | 1 => Some 1 | _ => None end)
                          (fun _ => false).
  Definition w := mkWorld (fun n => match n with 0 => 5%Z | 1 => 6%Z | 2 => 20%Z | 3 => 21%Z | _ => 0%Z end)
                          (fun n => match n with 0 => Some (7%N, 5%Z) | 1 => Some (8%N, 6%Z) | _ => None end)
                          (fun n => match n with 1 => Some (6%Z, [0]) | _ => None end)
                          (fun _ => DfMissing).

  Lemma wf : wf_spec g.
  Proof.
    split; [|split].
    - intros e o Ho. destruct e as [|[|e]]; cbn in Ho;
        [destruct Ho as [<-|[]]; reflexivity|destruct Ho as [<-|[]]; reflexivity|destruct Ho].
    - intros n e Hp. destruct n as [|[|n]]; cbn in Hp; inversion Hp; subst; cbn; left; reflexivity.
    - intros e He. destruct e as [|[|e]]; cbn in *; try congruence. split; [reflexivity|lia].
  Qed.

  Lemma hdr_recorded_and_valid : valid_deps g w 1 = [0].
  Proof. vm_compute. reflexivity. Qed.

  Lemma hdr_must_be_remade : must_dirty g w 0.
  Proof.
    apply (md_self g w 0 0 0); [reflexivity|reflexivity|left; reflexivity|].
    right. left. split; [reflexivity|]. exists 2. split; [left; reflexivity|].
    apply nt_file; cbn; lia.
  Qed.

  (* obj is wanted, hdr's statement is neither visited nor in the plan *)
  Lemma scanned :
    match scan g w [1] with
    | ScanOk s p => p_want p 1 = Some WantToStart /\ p_want p 0 = None /\
                    es_mark (st_edge s 0) = VisitNone /\ es_ins (st_edge s 1) = [3] /\
                    ns_dirty (st_node s 1) = true /\ n_known (st_node s 1) = true
    | _ => False
    end.
  Proof. vm_compute. repeat split; reflexivity. Qed.
End C10Witness.

Definition C10_recorded_dep_built_full : Prop :=
  forall g w targets s p,
    wf_spec g -> scan g w targets = ScanOk s p ->
    forall t e i e', In t targets -> g_producer g t = Some e ->
                     In i (valid_deps g w e) -> g_producer g i = Some e' -> must_dirty g w i ->
                     p_want p e' = Some WantToStart.

Theorem C10_dirty_edge_deps_not_loaded_refuted : ~ C10_recorded_dep_built_full.
Proof.
  intros H. pose proof C10Witness.scanned as Hs.
  destruct (scan C10Witness.g C10Witness.w [1]) as [c|m d|e| |s p] eqn:Hscan; try contradiction.
  destruct Hs as [_ [Hw0 _]].
  assert (Hx : p_want p 0 = Some WantToStart).
  { apply (H C10Witness.g C10Witness.w [1] s p C10Witness.wf Hscan 1 1 0 0).
    - left; reflexivity.
    - reflexivity.
    - rewrite C10Witness.hdr_recorded_and_valid. left; reflexivity.
    - reflexivity.
    - exact C10Witness.hdr_must_be_remade. }
  congruence.
Qed.

(* ---- concrete instances of the C03 statements (non-vacuity) *)
(*   build o: r s || t          (o = 0, s = 1, t = 2); only t's mtime differs between w and w' *)
Module OrderOnlyExample.
  Definition e0 := mkEdge [1; 2] 0 1 [0] [] false false false DepsNone 7%N.
  Definition dummy := mkEdge [] 0 0 [] [] false false false DepsNone 0%N.
  Definition g := mkGraph 1 (fun e => match e with 0 => e0 | _ => dummy end)
                          (fun n => match n with 0 => Some 0 | _ => None end) (fun _ => false).
  Definition mk (t : Z) := mkWorld (fun n => match n with 0 => 10%Z | 1 => 5%Z | 2 => t | _ => 0%Z end)
                                   (fun n => match n with 0 => Some (7%N, 10%Z) | _ => None end)
                                   (fun _ => None) (fun _ => DfMissing).
  Definition w := mk 6%Z.
  Definition w' := mk 50%Z.
  Definition X (n : node) : Prop := n = 2.

  Lemma wf : wf_spec g.
  Proof.
    split; [|split].
    - intros e o Ho. destruct e as [|e]; cbn in Ho; [destruct Ho as [<-|[]]; reflexivity|destruct Ho].
    - intros n e Hp. destruct n as [|n]; cbn in Hp; inversion Hp; subst; cbn; left; reflexivity.
    - intros e He. destruct e as [|e]; cbn in *; congruence.
  Qed.
  Lemma agree : worlds_agree_except X w w'.
  Proof.
    split; [|split; [|split]]; try reflexivity.
    intros n Hn. unfold X in Hn. destruct n as [|[|[|n]]]; try reflexivity. congruence.
  Qed.
  Lemma oos t : t <> 0%Z -> order_only_sources g (mk t) X.
  Proof.
    intros Ht x Hx. unfold X in Hx. subst x. split; [reflexivity|]. split; [exact Ht|].
    intros e Hin. destruct e as [|e]; cbn in Hin; [destruct Hin as [H|[]]; discriminate|destruct Hin].
  Qed.
  Lemma scans :
    match scan g w [0], scan g w' [0] with
    | ScanOk s p, ScanOk s' p' =>
      n_known (st_node s 0) = true /\ n_known (st_node s' 0) = true /\
      ns_dirty (st_node s 0) = false /\ ns_dirty (st_node s' 0) = false /\
      ns_mtime (st_node s 2) = 6%Z /\ ns_mtime (st_node s' 2) = 50%Z
    | _, _ => False
    end.
  Proof. vm_compute. repeat split; reflexivity. Qed.
End OrderOnlyExample.

(*   build gen: r s   (generator = 1)      (gen = 0, s = 1); only the command hash differs *)
Module GeneratorExample.
  Definition mk (h : N) :=
    mkGraph 1 (fun e => match e with
                        | 0 => mkEdge [1] 0 0 [0] [] false false true DepsNone h
                        | _ => mkEdge [] 0 0 [] [] false false false DepsNone 0%N end)
            (fun n => match n with 0 => Some 0 | _ => None end) (fun _ => false).
  Definition g := mk 7%N.
  Definition g' := mk 99%N.
  Definition w := mkWorld (fun n => match n with 0 => 10%Z | 1 => 5%Z | _ => 0%Z end)
                          (fun n => match n with 0 => Some (7%N, 10%Z) | _ => None end)
                          (fun _ => None) (fun _ => DfMissing).
  Lemma wf h : wf_spec (mk h).
  Proof.
    split; [|split].
    - intros e o Ho. destruct e as [|e]; cbn in Ho; [destruct Ho as [<-|[]]; reflexivity|destruct Ho].
    - intros n e Hp. destruct n as [|n]; cbn in Hp; inversion Hp; subst; cbn; left; reflexivity.
    - intros e He. destruct e as [|e]; cbn in *; congruence.
  Qed.
  Lemma same : same_but_generator_hash g g'.
  Proof.
    split; [reflexivity|]. intros e. destruct e as [|e]; cbn; repeat split; try reflexivity; discriminate.
  Qed.
  Lemma scans :
    match scan g w [0], scan g' w [0] with
    | ScanOk s p, ScanOk s' p' =>
      n_known (st_node s 0) = true /\ n_known (st_node s' 0) = true /\
      ns_dirty (st_node s 0) = false /\ ns_dirty (st_node s' 0) = false
    | _, _ => False
    end.
  Proof. vm_compute. repeat split; reflexivity. Qed.
End GeneratorExample.

(* the graph of C10Witness with an untouched consumer source: deps_safe holds, the recorded
   header is spliced in, its statement is visited and wanted *)
Module DepsSafeExample.
  Definition g := C10Witness.g.
  Definition w := mkWorld (fun n => match n with 0 => 5%Z | 1 => 6%Z | 2 => 20%Z | 3 => 3%Z | _ => 0%Z end)
                          (w_blog C10Witness.w) (w_dlog C10Witness.w) (w_depfile C10Witness.w).

  Lemma src_clean : ~ must_dirty g w 3.
  Proof. intros H. inversion H; subst; cbn in *; try discriminate. Qed.

  Lemma not_newer_src x : (3 <= x)%Z -> ~ newer_than g w x 3.
  Proof. intros Hx H. inversion H; subst; cbn in *; try discriminate; lia. Qed.

  Lemma safe : deps_safe g w.
  Proof.
    intros e i e' Hown Hi Hp. destruct e as [|[|e]]; try (cbn in Hi; destruct Hi; fail).
    exfalso. destruct Hown as [[j [Hj Hd]]|[[Hph _]|[_ [o [Ho Hr]]]]].
    - cbn in Hj. destruct Hj as [<-|[]]. exact (src_clean Hd).
    - cbn in Hph. discriminate.
    - cbn in Ho. destruct Ho as [<-|[]]. destruct Hr as [[Hz|[_ Hh]]|[[_ [j [Hj Hn]]]|[j [Hj Hn]]]].
      + cbn in Hz. discriminate.
      + cbn in Hh. congruence.
      + cbn in Hj. destruct Hj as [<-|[]]. apply (not_newer_src 6%Z); [lia|exact Hn].
      + cbn in Hj. destruct Hj as [<-|[]]. apply (not_newer_src 6%Z); [lia|exact Hn].
  Qed.

  Lemma hdr_needed : needed g w [1] 0.
  Proof.
    apply (needed_step g w [1] 1 0 0); [apply (needed_target g w [1] 1 1); [left|]; reflexivity| |reflexivity].
    unfold need_ins. apply in_or_app. right. vm_compute. left; reflexivity.
  Qed.

  Lemma scanned :
    match scan g w [1] with
    | ScanOk s p => es_mark (st_edge s 0) = VisitDone /\ es_ins (st_edge s 1) = [3; 0] /\
                    p_want p 0 = Some WantToStart /\ p_want p 1 = Some WantToStart
    | _ => False
    end.
  Proof. vm_compute. repeat split; reflexivity. Qed.
End DepsSafeExample.
