(* A concrete, executable command function for the history-level model (HistDefs.v), so that the
   model can be RUN next to the real engine (extract/hist_run.ml, tools/histmodel.py), and the
   history theorems of HistProofs.v instantiated at it.

   HistDefs leaves   cmd : edge -> N (command hash) -> snapshot -> node -> content   abstract; the
   theorems need one fact about it for C01 ([Hgen]: the output of a generator statement does not
   depend on its command line) and none for C02.  [hcmd g] is a hash of
        (statement, command hash -- dropped for generator statements --, output,
         the MULTISET of what the non-order-only inputs contain, None = no such file)
   over N, 64 bits wide: order-insensitive in the inputs, like the reference content function of the
   engine harness (harness/run_engine.cc ContentFor, tools/engine.py Graph.content: command line
   -- "generator" for generator rules --, output name, the sorted contents of the files read,
   "<missing>" for an absent one).  It is "injective enough" for a correspondence check that
   compares STRUCTURE (which commands run, which files exist, which files hold what a clean
   build would produce), never content values.

   This file contains definitions AND their (short) proofs: it is the instance, not the model;
   HistDefs.v / HistProofs.v are untouched.  No axioms. *)
From NinjaV Require Import Engine.CrashDefs.
From NinjaV Require Import Base.Bytes Engine.ScanDefs Engine.ScanSpec Engine.ScanProofs Engine.HistDefs Engine.HistProofs.

(* ------------------------------------------------------------------ the command function *)
Section Hash.
Local Open Scope N_scope.

Definition mask64 : N := 18446744073709551615.
(* x mod 2^64, computed bitwise (linear; N.modulo is quadratic in the extracted code) *)
Definition w64 (x : N) : N := N.land x mask64.
Definition fnv_prime : N := 1099511628211.
Definition fnv_basis : N := 14695981039346656037.
Definition in_salt : N := 11400714819323198485.        (* a second basis for the inputs *)

(* multiplication by an odd constant is a bijection modulo 2^64 *)
Definition mix (a x : N) : N := w64 ((a + x + 1) * fnv_prime).

(* the 64-bit finalizer of MurmurHash3 (x ^= x >> 33; x *= c1; x ^= x >> 33; x *= c2; x ^= x >> 33):
   a bijection on 64-bit values that is far from linear, so that a SUM of finalized elements is a
   usable multiset hash (a sum of [mix]es is linear: {Some 1, Some 3} and {Some 2, Some 2} would collide) *)
Definition fmix (x : N) : N :=
  let x1 := N.lxor x (N.shiftr x 33) in
  let x2 := w64 (x1 * 18397679294719823053) in
  let x3 := N.lxor x2 (N.shiftr x2 33) in
  let x4 := w64 (x3 * 14181476777654086739) in
  N.lxor x4 (N.shiftr x4 33).

(* None (no such file; a name produced by a phony statement) and Some c are kept apart *)
Definition enc_opt (c : option content) : N := match c with None => 0 | Some c => c + 1 end.

(* order-insensitive: a sum of hashed elements *)
Definition snap_hash (S : snapshot) : N :=
  fold_right (fun x acc => w64 (fmix (w64 (in_salt + enc_opt (snd x))) + acc)) 0 S.

Definition hcmd (g : graph) (e : edge) (h : N) (S : snapshot) (o : node) : content :=
  let h0 := if ei_generator (g_edge g e) then 0 else h + 1 in
  fmix (mix (mix (mix (mix fnv_basis (N.of_nat e)) h0) (N.of_nat o)) (snap_hash S)).

End Hash.

(* ------------------------------------------------------------------ a checkable well-formedness *)
(* [wf_spec] / [wf_graph] quantify over all naturals; for a graph given by tables (statements
   0 .. g_nedges-1, nodes 0 .. nn-1, nothing else produced or listed) this boolean decides what
   the tables can get wrong: an output that does not know its producer, and a producer that is
   no statement or does not list the node.  The driver prints it next to the fragment verdicts. *)
Definition wf_b (g : graph) (nn : nat) : bool :=
  forallb (fun e => forallb (fun o => match g_producer g o with
                                      | Some e' => Nat.eqb e' e
                                      | None => false
                                      end) (ei_outs (g_edge g e)))
          (seq 0 (g_nedges g))
  && forallb (fun n => match g_producer g n with
                       | Some e => Nat.ltb e (g_nedges g) && mem_node n (ei_outs (g_edge g e))
                       | None => true
                       end) (seq 0 nn).

(* ------------------------------------------------------------------ what a driver prints per build *)
(* the statements run by the steps after [st0]: the ghost trace is most recent first and only
   grows, so the delta is its prefix; returned oldest first *)
Definition trace_delta (st0 st1 : hstate) : list edge :=
  rev (firstn (length (h_trace st1) - length (h_trace st0)) (h_trace st1)).

Definition opt_content_eqb (a b : option content) : bool :=
  match a, b with
  | None, None => true
  | Some x, Some y => N.eqb x y
  | _, _ => false
  end.

(* the C01 predicate for one node: the file holds what a from-scratch build would produce *)
Definition is_clean (g : graph) (st : hstate) (n : node) : bool :=
  opt_content_eqb (content_of st n) (clean_of (hcmd g) g st n).

(* one history step, reporting whether a Build was accepted *)
Definition step_run (g : graph) (st : hstate) (s : hstep) : bool * hstate :=
  match s with
  | Build T => match build (hcmd g) g st T with
               | Some st' => (true, st')
               | None => (false, st)
               end
  | _ => (true, apply_step (hcmd g) g st s)
  end.

(* ================================================================== proofs *)
Theorem hcmd_gen :
  forall (g : graph) (e : edge) (h h' : N) (S : snapshot) (o : node),
    ei_generator (g_edge g e) = true -> hcmd g e h S o = hcmd g e h' S o.
Proof.
  intros g e h h' S o Hg. unfold hcmd. rewrite Hg. reflexivity.
Qed.

(* [step_run] is [apply_step] *)
Lemma step_run_apply :
  forall (g : graph) (st : hstate) (s : hstep),
    snd (step_run g st s) = apply_step (hcmd g) g st s.
Proof.
  intros g st s. destruct s as [n c|n|e h|T]; try reflexivity.
  cbn [step_run apply_step]. destruct (build (hcmd g) g st T) as [st'|]; reflexivity.
Qed.

Lemma opt_content_eqb_eq :
  forall a b : option content, opt_content_eqb a b = true <-> a = b.
Proof.
  intros [x|] [y|]; cbn [opt_content_eqb]; split; intro H; try discriminate; try reflexivity.
  - apply N.eqb_eq in H. subst y. reflexivity.
  - inversion H as [H1]. apply N.eqb_refl.
Qed.

Lemma is_clean_spec :
  forall (g : graph) (st : hstate) (n : node),
    is_clean g st n = true <-> content_of st n = clean_of (hcmd g) g st n.
Proof. intros g st n. unfold is_clean. apply opt_content_eqb_eq. Qed.

(* what [wf_b] guarantees, in the range it looks at *)
Lemma wf_b_sound :
  forall (g : graph) (nn : nat), wf_b g nn = true ->
    (forall e o, (e < g_nedges g)%nat -> In o (ei_outs (g_edge g e)) -> g_producer g o = Some e) /\
    (forall n e, (n < nn)%nat -> g_producer g n = Some e ->
                 (e < g_nedges g)%nat /\ In n (ei_outs (g_edge g e))).
Proof.
  intros g nn H. unfold wf_b in H. apply andb_true_iff in H. destruct H as [H1 H2].
  rewrite forallb_forall in H1. rewrite forallb_forall in H2. split.
  - intros e o He Ho.
    assert (Hin : In e (seq 0 (g_nedges g))) by (apply in_seq; lia).
    specialize (H1 e Hin). rewrite forallb_forall in H1. specialize (H1 o Ho).
    destruct (g_producer g o) as [e'|]; [|discriminate].
    apply Nat.eqb_eq in H1. subst e'. reflexivity.
  - intros n e Hn Hp.
    assert (Hin : In n (seq 0 nn)) by (apply in_seq; lia).
    specialize (H2 n Hin). rewrite Hp in H2. apply andb_true_iff in H2. destruct H2 as [Ha Hb].
    apply Nat.ltb_lt in Ha. split; [exact Ha|].
    unfold mem_node in Hb. apply existsb_exists in Hb. destruct Hb as [x [Hx Heq]].
    apply Nat.eqb_eq in Heq. subst x. exact Hx.
Qed.

(* ---- the history theorems at the instance: no assumption about the command function is left *)
Theorem C01_history_hcmd :
  forall g : graph,
    wf_spec g -> wf_graph g -> frag_AB g = true -> topo_ordered g = true ->
  forall (h : list hstep) (T : list node) (st' : hstate),
    hist_ok g h = true ->
    build (hcmd g) g (run_hist (hcmd g) g (init_hstate g) h) T = Some st' ->
    forall n : node, reach g T n -> is_clean g st' n = true.
Proof.
  intros g Hs Hw Hf Ht h T st' Hok Hb n Hn. apply is_clean_spec.
  exact (C01_history (hcmd g) g Hs Hw Hf Ht (hcmd_gen g) h T st' Hok Hb n Hn).
Qed.
Print Assumptions C01_history_hcmd.

Theorem C02_history_hcmd :
  forall g : graph,
    wf_spec g -> wf_graph g -> frag_AB g = true -> topo_ordered g = true ->
  forall (h : list hstep) (T : list node) (st' : hstate),
    hist_ok g h = true -> no_inputless_phony g = true ->
    build (hcmd g) g (run_hist (hcmd g) g (init_hstate g) h) T = Some st' ->
    (exists (s : sstate) (p : plan),
       scan (graph_of g st') (world_of st') T = ScanOk s p /\
       (forall e : edge, p_want p e <> Some WantToStart)) /\
    build (hcmd g) g st' T = Some st' /\
    trace_delta st' (apply_step (hcmd g) g st' (Build T)) = [].
Proof.
  intros g Hs Hw Hf Ht h T st' Hok Hn Hb.
  destruct (C02_history (hcmd g) g Hs Hw Hf Ht h T st' Hok Hn Hb) as [Hscan Hidle].
  split; [exact Hscan|]. split; [exact Hidle|].
  cbn [apply_step]. rewrite Hidle. unfold trace_delta. rewrite Nat.sub_diag. reflexivity.
Qed.
Print Assumptions C02_history_hcmd.

(* ---- non-vacuity, computed: the project of HistDefs.Ex under [hcmd].  Nine steps; the last
        build is accepted, everything holds the clean-build content, a repeated build is idle.
        (Under [hcmd] the restat statement e0 is no "halving": the edit 10 -> 11 of a.src changes
        gen.h, so the second build runs all three commands again.) *)
Example hcmd_Ex_run :
  let g := Ex.g in
  let st := run_hist (hcmd g) g (init_hstate g) Ex.hist9 in
  wf_b g 6 = true /\ hist_ok g Ex.hist9 = true /\
  frag_AB g && topo_ordered g && no_inputless_phony g = true /\
  fst (step_run g st (Build [5%nat])) = true /\
  forallb (is_clean g st) (seq 0 6) = true /\
  trace_delta (init_hstate g) st = [0; 1; 2; 0; 1; 2; 0; 1; 2]%nat /\
  trace_delta st (snd (step_run g st (Build [5%nat]))) = [].
Proof. vm_compute. repeat split; reflexivity. Qed.

(* a restat statement whose output does not change prunes what depends on it, under [hcmd] too:
   a.src is written again with the SAME content (a `touch`) *)
Example hcmd_Ex_restat_prunes :
  let g := Ex.g in
  let st := run_hist (hcmd g) g (init_hstate g) (Ex.hist5 ++ [Edit 0 11; Build [5%nat]]) in
  trace_delta (init_hstate g) st = [0; 1; 2; 0; 1; 2; 0]%nat /\
  forallb (is_clean g st) (seq 0 6) = true.
Proof. vm_compute. split; reflexivity. Qed.

(* ================================================================== where HistDefs deviates from ninja *)
(* Found by the correspondence check (tools/histmodel.py), inside the fragment, only with an
   input-less phony statement ([no_inputless_phony g = false], the documented always-dirty case):
        build always : phony
        build gen    : r1 always src        restat = 1
        build out    : r2 gen
   [gen] is dirty in every run.  Second run: ninja runs the command of [gen], the restat command
   leaves [gen] as it is, Plan::CleanNode clears the dirty flag of [gen] and prunes [out]: ONE
   command.  [HistDefs.build] runs TWO: [dirty_now] judges [out] by a fresh scan, in which [gen]
   is dirty again because of [always], and a dirty input makes [out] dirty.  So below an
   always-dirty statement the model re-runs what ninja prunes (a superset of commands; the
   contents agree, C01 is not affected, C02 excludes these graphs).  Engine/HistFaithful.v has the
   loop that follows Plan::CleanNode ([build_f]); the check runs THAT loop against ninja, with
   exact rules, and counts the builds in which [build] and [build_f] differ.
   nodes: 0 src  1 always  2 gen  3 out *)
Module ExAlwaysRestat.
Definition g : graph :=
  mkGraph 3
    (fun e => match e with
              | 0%nat => mkEdge [] 0 0 [1%nat] [] true false false DepsNone 0
              | 1%nat => mkEdge [1%nat; 0%nat] 0 0 [2%nat] [] false true false DepsNone 11
              | 2%nat => mkEdge [2%nat] 0 0 [3%nat] [] false false false DepsNone 12
              | _ => Ex.dummy
              end)
    (fun n => match n with 1%nat => Some 0%nat | 2%nat => Some 1%nat | 3%nat => Some 2%nat | _ => None end)
    (fun _ => false).

Example model_reruns_below_always_dirty :
  let st1 := run_hist (hcmd g) g (init_hstate g) [Edit 0 1; Build [3%nat]] in
  let st2 := apply_step (hcmd g) g st1 (Build [3%nat]) in
  wf_b g 4 = true /\ frag_AB g && topo_ordered g = true /\ no_inputless_phony g = false /\
  trace_delta (init_hstate g) st1 = [1; 2]%nat /\
  trace_delta st1 st2 = [1; 2]%nat /\          (* ninja: [gen] only *)
  forallb (is_clean g st2) (seq 0 4) = true.
Proof. vm_compute. repeat split; reflexivity. Qed.
End ExAlwaysRestat.
