(* Proofs about the faithful build loop (HistFaithful.v).  No axioms.
   Part N: one more fact about an accepted scan: what the Nodes carry (cached mtime, existence).
   Part C: Plan::CleanNode ([clean_node]) keeps the invariant [FInv] that ties the flags and the
           want map to the current disk; fuel is never exhausted on topologically ordered graphs.
   Part T: [build_f_eq_build] (with no_inputless_phony), [build_f_trace_subset] (without). *)
From NinjaV Require Import Engine.CrashDefs.
From NinjaV Require Import Base.Bytes Engine.ScanDefs Engine.ScanSpec Engine.ScanProofs Engine.HistDefs Engine.HistProofs Engine.HistRun Engine.HistMinimal Engine.HistFaithful.
Local Open Scope Z_scope.

(* [l] is a subsequence of [l'] *)
Inductive subseq {A : Type} : list A -> list A -> Prop :=
| subseq_nil : subseq [] []
| subseq_both a l l' : subseq l l' -> subseq (a :: l) (a :: l')
| subseq_right a l l' : subseq l l' -> subseq l (a :: l').

(* ================================================================== Part N: the node states *)
Definition ex_of (m : Z) : exist_status := if Z.eqb m 0 then ExMissing else ExExists.

Lemma oda_phony_false g w e mri : ei_phony (g_edge g e) = true -> forall outs s d s',
  es_ins (st_edge s e) <> [] -> outputs_dirty_all g w e outs mri s = (d, s') -> d = false.
Proof.
  intros Hp. induction outs as [|o outs IH]; intros s d s' Hi H; cbn [outputs_dirty_all] in H.
  - inversion H; reflexivity.
  - rewrite Hp in H. destruct (phony_output_dirty g e o mri s) as [d1 s1] eqn:H1.
    destruct (phony_output_dirty_props g e o mri s d1 s1 H1) as [E1 [_ [_ [_ [C1 _]]]]].
    destruct d1.
    + exfalso. apply Hi. apply (proj1 C1 eq_refl).
    + apply (IH s1 d s'); [rewrite E1; exact Hi|exact H].
Qed.

Lemma oda_none g w e : forall outs s d s',
  outputs_dirty_all g w e outs None s = (d, s') -> s' = s.
Proof.
  induction outs as [|o outs IH]; intros s d s' H; cbn [outputs_dirty_all] in H.
  - inversion H; reflexivity.
  - destruct (ei_phony (g_edge g e)).
    + unfold phony_output_dirty in H.
      destruct (_ && _ && _)%bool; [inversion H; reflexivity|apply (IH _ _ _ H)].
    + destruct (output_dirty_first g w e o (mri_mtime s None) s); [inversion H; reflexivity|apply (IH _ _ _ H)].
Qed.

Lemma oda_exists g w e mri : forall outs s d s',
  outputs_dirty_all g w e outs mri s = (d, s') ->
  forall n, ns_exists (st_node s' n) = ns_exists (st_node s n).
Proof.
  induction outs as [|o outs IH]; intros s d s' H n; cbn [outputs_dirty_all] in H.
  - inversion H; reflexivity.
  - destruct (ei_phony (g_edge g e)).
    + destruct (phony_output_dirty g e o mri s) as [d1 s1] eqn:H1.
      destruct (phony_output_dirty_props g e o mri s d1 s1 H1) as [_ [O1 [_ [X1 _]]]].
      assert (E : ns_exists (st_node s1 n) = ns_exists (st_node s n)).
      { destruct (Nat.eq_dec n o) as [->|Hne]; [exact X1|rewrite (O1 n Hne); reflexivity]. }
      destruct d1; [inversion H; subst; exact E|]. rewrite (IH _ _ _ H n). exact E.
    + destruct (output_dirty_first g w e o (mri_mtime s mri) s); [inversion H; reflexivity|apply (IH _ _ _ H)].
Qed.

Section ScanNI.
Variable g : graph.
Variable w : world.
Hypothesis Hwf : wf_spec g.
Hypothesis Hwg : wf_graph g.
Hypothesis Hfrag : frag_AB g = true.

Notation mark_of s e := (es_mark (st_edge s e)).
Notation ins_of s e := (es_ins (st_edge s e)).
Notation rnd := (recompute_node_dirty g w).
Notation nd s n := (st_node s n).

(* existence is what Stat said; so is the mtime, except for a clean output of a phony statement
   (Node::UpdatePhonyMtime) *)
Definition NIat (s : sstate) (n : node) : Prop :=
  ns_exists (nd s n) = ex_of (w_mtime w n) /\
  (ns_dirty (nd s n) = true \/ (forall e, g_producer g n = Some e -> ei_phony (g_edge g e) = false) ->
   ns_mtime (nd s n) = w_mtime w n).
Definition NI (s : sstate) : Prop := forall n, node_final g s n -> NIat s n.

Lemma NIat_eq a b n : nd b n = nd a n -> NIat a n -> NIat b n.
Proof. intros E H. unfold NIat. rewrite E. exact H. Qed.

Lemma statted_NIat s o : statted w s o -> NIat s o.
Proof. intros [A [B C]]. split; [exact B|]. intros _. exact A. Qed.

Lemma rnd_NI : forall f stack n s vs s' vs',
  rnd f stack n (s, vs) = SOk (s', vs') -> SInv g w s -> NI s -> NI s'.
Proof.
  induction f as [|f IH]; intros stack n s vs s' vs' H HS HN; [discriminate|].
  destruct (rnd_spec g w Hwf _ _ _ _ _ _ _ H HS) as [HS' [V' F']].
  destruct (g_producer g n) as [e|] eqn:Hp.
  2:{ cbn [recompute_node_dirty] in H. rewrite Hp in H.
      destruct (n_known (st_node s n)) eqn:Hk; [inversion H; subst; exact HN|].
      inversion H; subst s' vs'. clear H. intros n' Hf.
      destruct (Nat.eq_dec n' n) as [->|Hne].
      - unfold NIat, set_dirty, stat_if_necessary. rewrite Hk. rewrite !upd_node_same.
        cbn [ns_exists ns_mtime ns_dirty]. split; [reflexivity|intros _; reflexivity].
      - assert (E : nd (set_dirty (stat_if_necessary w s n) n
                          (negb (n_exists (nd (stat_if_necessary w s n) n)))) n' = nd s n').
        { unfold set_dirty. rewrite upd_node_other by exact Hne. apply stat_other. exact Hne. }
        apply (NIat_eq s _ n' E). apply HN.
        assert (Es : st_edge (set_dirty (stat_if_necessary w s n) n
                          (negb (n_exists (nd (stat_if_necessary w s n) n)))) = st_edge s)
          by (cbn [set_dirty upd_node st_edge]; apply st_edge_stat_if_necessary).
        unfold node_final in *. destruct (g_producer g n') as [e'|]; [rewrite Es in Hf; exact Hf|]. rewrite <- E. exact Hf. }
  destruct (mark_of s e) eqn:Hm.
  2:{ cbn [recompute_node_dirty] in H. rewrite Hp, Hm in H. discriminate. }
  2:{ cbn [recompute_node_dirty] in H. rewrite Hp, Hm in H. inversion H; subst. exact HN. }
  pose proof (Hwg n e Hp) as He. destruct (frag_edge g Hfrag e He) as [Hdeps [Hvals _]].
  rewrite (rnd_none_unfold g w f stack n e s vs Hp Hm) in H.
  destruct HS as [S1 [S2 [S3 S4]]]. destruct (S3 e Hm) as [Hdl Hins]. rewrite Hdl in H.
  destruct (s2_props g w e s) as [A2 [M2 I2]].
  set (s2 := stat_outputs w (enter_edge s e) (edge_outs g e)) in *.
  assert (LS2 : lstep g e s s2).
  { split; [exact A2|]. intros n' Hn'. subst s2. rewrite stat_outputs_other by exact Hn'. reflexivity. }
  assert (HS2 : SInv g w s2).
  { apply (SInv_lstep g w Hwf e s s2 (conj S1 (conj S2 (conj S3 S4))) LS2); [rewrite Hm; discriminate|exact M2]. }
  assert (Hl : forall a b, lstep g e a b -> mark_of a e <> VisitDone -> NI a ->
                 forall n', ~ In n' (edge_outs g e) -> node_final g b n' -> NIat b n').
  { intros a b [L1 L2] Ma HNa n' Hno Hf. apply (NIat_eq a b n' (L2 n' Hno)). apply HNa.
    unfold node_final in *. destruct (g_producer g n') as [e'|] eqn:Hp'.
    - assert (Hne : e' <> e) by (intros ->; apply Hno; apply (prod_out g Hwf n' e Hp')).
      rewrite <- (L1 e' Hne). exact Hf.
    - rewrite <- (L2 n' Hno). exact Hf. }
  assert (HN2 : NI s2).
  { intros n' Hf. destruct (in_dec Nat.eq_dec n' (edge_outs g e)) as [Hin|Hno].
    - exfalso. unfold node_final in Hf. rewrite (out_prod g Hwf e n' Hin), M2 in Hf. discriminate.
    - apply (Hl s s2 LS2); [rewrite Hm; discriminate|exact HN|exact Hno|exact Hf]. }
  assert (T2 : forall o, In o (edge_outs g e) -> statted w s2 o).
  { intros o Ho. subst s2. apply stat_outputs_statted; [exact Ho|].
    intros o' Ho'. left. change (nd (enter_edge s e) o') with (nd s o').
    apply (S2 o' e (out_prod g Hwf e o' Ho') Hm). }
  set (visit := rnd f (stack ++ [n])) in *.
  destruct (visit_all visit (ins_of s2 e) (s2, vs ++ ei_vals (g_edge g e))) as [[s3 vs3]|c|e'|] eqn:V1;
    try discriminate.
  destruct (visit_all_rel (fun a : sv => SInv g w (fst a) /\ NI (fst a))
                          (fun a b : sv => vrel g (fst a) (fst b))
                          (fun (i : node) (a : sv) => node_final g (fst a) i) visit
                          (fun a => vrel_refl g (fst a))
                          (fun a b c => vrel_trans g (fst a) (fst b) (fst c))
                          (fun i a0 a1 HRel HQ => proj1 (final_vrel g (fst a0) (fst a1) i HRel HQ))
                          (ins_of s2 e))
    with (a := (s2, vs ++ ei_vals (g_edge g e))) (a' := (s3, vs3)) as [[HS3 HN3] [V23 F3]];
    [|split; assumption|exact V1|].
  { intros i [sa va] [sb vb] _ [HSa HNa] Hv. cbn [fst] in *.
    destruct (rnd_spec g w Hwf _ _ _ _ _ _ _ Hv HSa) as [HSb [Vab Fb]].
    split; [split; [exact HSb|apply (IH _ _ _ _ _ _ Hv HSa HNa)]|]. split; assumption. }
  cbn [fst] in HS3, HN3, V23, F3.
  assert (E23 : st_edge s3 e = st_edge s2 e) by (apply (ext_marked s2 s3 e (proj1 V23)); rewrite M2; discriminate).
  assert (M3 : mark_of s3 e = VisitInStack) by (rewrite E23; exact M2).
  assert (I3 : ins_of s3 e = ei_ins (g_edge g e)) by (rewrite E23, I2; exact Hins).
  rewrite (after_inputs_AB g w visit e _ _ s3 vs3 Hdeps) in H. rewrite I3 in H.
  destruct (eval_inputs g e (ei_ins (g_edge g e)) 0 s3 None false) as [[s4 mri] dirty] eqn:Hev.
  destruct (if dirty then (true, s4) else outputs_dirty_all g w e (edge_outs g e) mri s4) as [dirty1 s5] eqn:Hod.
  inversion H; subst s' vs'. clear H.
  pose proof (local_eval_inputs g e _ _ _ _ _ _ _ _ Hev) as L34.
  pose proof (st_node_eval_inputs g e _ _ _ _ _ _ _ _ Hev) as N34.
  assert (E45 : st_edge s5 = st_edge s4).
  { destruct dirty; [inversion Hod; subst; reflexivity|].
    pose proof (st_edge_outputs_dirty_all g w e mri (edge_outs g e) s4) as Hx. rewrite Hod in Hx. exact Hx. }
  assert (N45 : (forall x, ~ In x (edge_outs g e) -> nd s5 x = nd s4 x) /\
                (forall x, ns_dirty (nd s5 x) = ns_dirty (nd s4 x)) /\
                (forall x, ns_exists (nd s5 x) = ns_exists (nd s4 x))).
  { destruct dirty; [inversion Hod; subst; repeat split; reflexivity|].
    destruct (oda_nodes g w e mri _ _ _ _ Hod) as [A B]. split; [exact A|]. split; [exact B|].
    apply (oda_exists g w e mri _ _ _ _ Hod). }
  destruct N45 as [N45a [N45b N45c]].
  set (sX := if dirty1 then s5 else splice_deps g s5 e []) in *.
  assert (EX : (forall e', e' <> e -> st_edge sX e' = st_edge s5 e') /\ st_node sX = st_node s5).
  { subst sX. destruct dirty1; [split; reflexivity|].
    unfold splice_deps, set_ins. split; [intros e' Hne; apply upd_edge_other; exact Hne|reflexivity]. }
  destruct EX as [X1 X5].
  destruct (finish_edge_props g e sX dirty1) as [A9 [M9 I9]].
  destruct (st_node_finish_edge g e sX dirty1) as [N9m [N9 [N9f N9t]]].
  set (s9 := finish_edge g sX e dirty1) in *.
  assert (L39 : lstep g e s3 s9).
  { split.
    - intros e' Hne. rewrite (A9 e' Hne), (X1 e' Hne), E45. apply (proj1 L34 e' Hne).
    - intros x Hx. rewrite (N9 x Hx), X5, (N45a x Hx), N34. reflexivity. }
  intros n' Hf. destruct (in_dec Nat.eq_dec n' (edge_outs g e)) as [Hin|Hno].
  2:{ apply (Hl s3 s9 L39); [rewrite M3; discriminate|exact HN3|exact Hno|exact Hf]. }
  (* an output of the statement just finished *)
  assert (Hs : settled g s2 n') by (unfold settled; rewrite (out_prod g Hwf e n' Hin), M2; discriminate).
  pose proof (proj2 V23 n' Hs) as E3. destruct (T2 n' Hin) as [Tm [Tx Td]].
  split.
  - rewrite (proj2 (N9m n')), X5, N45c, N34, E3. exact Tx.
  - intros Hcase. rewrite (proj1 (N9m n')), X5.
    assert (Hsame : nd s5 n' = nd s4 n' -> ns_mtime (nd s5 n') = w_mtime w n').
    { intros E. rewrite E, N34, E3. exact Tm. }
    destruct dirty; [inversion Hod; subst; apply Hsame; reflexivity|].
    destruct (ei_phony (g_edge g e)) eqn:Hph.
    + destruct (ei_ins (g_edge g e)) as [|i0 l0] eqn:Hie.
      * cbn [eval_inputs] in Hev. inversion Hev; subst s4 mri.
        apply Hsame. rewrite (oda_none g w e _ _ _ _ Hod). reflexivity.
      * assert (Hd1 : dirty1 = false).
        { assert (Hne4 : ins_of s4 e <> []) by (rewrite (proj2 (proj2 L34)), I3; discriminate).
          apply (oda_phony_false g w e mri Hph _ _ _ _ Hne4 Hod). }
        exfalso. destruct Hcase as [Hd|Hnp].
        -- subst dirty1. rewrite (N9f eq_refl n'), X5, N45b, N34, E3 in Hd. congruence.
        -- specialize (Hnp e (out_prod g Hwf e n' Hin)). congruence.
    + rewrite (oda_nonphony g w e mri Hph) in Hod. inversion Hod; subst. apply Hsame. reflexivity.
Qed.

Lemma loop_NI : forall qf queue s found s' vs',
  recompute_dirty_loop g w qf queue s found = SOk (s', vs') -> SInv g w s -> NI s -> NI s'.
Proof.
  induction qf as [|qf IH]; intros queue s found s' vs' H HS HN; destruct queue as [|n queue];
    cbn [recompute_dirty_loop] in H; try discriminate.
  - inversion H; subst; exact HN.
  - inversion H; subst; exact HN.
  - destruct (rnd (scan_fuel g) [] n (s, [])) as [[s1 newv]|c|e|] eqn:Hv; try discriminate.
    apply (IH _ _ _ _ _ H); [apply (rnd_spec g w Hwf _ _ _ _ _ _ _ Hv HS)|apply (rnd_NI _ _ _ _ _ _ _ Hv HS HN)].
Qed.

Lemma add_targets_NI : forall targets s p s' p',
  add_targets g w s p targets = ScanOk s' p' -> SInv g w s -> NI s -> NI s'.
Proof.
  induction targets as [|t targets IH]; intros s p s' p' H HS HN; cbn [add_targets] in H.
  - inversion H; subst. exact HN.
  - pose proof (bat_result g w s p t) as Hb.
    destruct (builder_add_target g w s p t) as [c|m d|e| |s1 p1]; try discriminate.
    destruct Hb as [vn Hb]. unfold recompute_dirty in Hb.
    apply (IH _ _ _ _ H); [apply (loop_spec g w Hwf _ _ _ _ _ _ Hb HS)|apply (loop_NI _ _ _ _ _ _ Hb HS HN)].
Qed.

Theorem scan_NI T s p : scan g w T = ScanOk s p -> NI s.
Proof.
  intros H. apply (add_targets_NI T (init_state g) init_plan s p H (SInv_init g w)).
  intros n Hf. exfalso. unfold node_final in Hf. destruct (g_producer g n); cbn in Hf; discriminate.
Qed.

(* ---- deps_missing_ is never set without depfile/deps *)
Definition DM (s : sstate) : Prop := forall e, es_deps_missing (st_edge s e) = false.

Lemma dm_upd s e v e' : es_deps_missing v = es_deps_missing (st_edge s e) ->
  es_deps_missing (st_edge (upd_edge s e v) e') = es_deps_missing (st_edge s e').
Proof.
  intros H. destruct (Nat.eq_dec e' e) as [->|Hne]; [rewrite upd_edge_same; exact H|].
  rewrite upd_edge_other by exact Hne. reflexivity.
Qed.

Lemma dm_eval_inputs e : forall l idx s mri d s' mri' d',
  eval_inputs g e l idx s mri d = (s', mri', d') ->
  forall e', es_deps_missing (st_edge s' e') = es_deps_missing (st_edge s e').
Proof.
  induction l as [|i l IH]; intros idx s mri d s' mri' d' H e'; cbn [eval_inputs] in H.
  - inversion H; reflexivity.
  - set (s1 := match g_producer g i with
               | Some ie => if es_ready (st_edge s ie) then s else set_ready s e false
               | None => s end) in *.
    assert (E1 : es_deps_missing (st_edge s1 e') = es_deps_missing (st_edge s e')).
    { subst s1. destruct (g_producer g i) as [ie|]; [|reflexivity].
      destruct (es_ready (st_edge s ie)); [reflexivity|]. unfold set_ready. apply dm_upd. reflexivity. }
    rewrite <- E1. destruct (is_order_only _ _ _); [eapply IH; eassumption|].
    destruct (ns_dirty (st_node s1 i)); eapply IH; eassumption.
Qed.

Lemma dm_finish_edge e s d e' :
  es_deps_missing (st_edge (finish_edge g s e d) e') = es_deps_missing (st_edge s e').
Proof.
  unfold finish_edge, set_mark. rewrite dm_upd by reflexivity.
  destruct (d && negb _)%bool.
  - unfold set_ready. rewrite dm_upd by reflexivity.
    destruct d; [rewrite (st_edge_mark_outputs_dirty (edge_outs g e) s)|]; reflexivity.
  - destruct d; [rewrite (st_edge_mark_outputs_dirty (edge_outs g e) s)|]; reflexivity.
Qed.

Lemma rnd_DM : forall f stack n s vs s' vs',
  rnd f stack n (s, vs) = SOk (s', vs') -> SInv g w s -> DM s -> DM s'.
Proof.
  induction f as [|f IH]; intros stack n s vs s' vs' H HS HD; [discriminate|].
  destruct (g_producer g n) as [e|] eqn:Hp.
  2:{ cbn [recompute_node_dirty] in H. rewrite Hp in H.
      assert (E : st_edge s' = st_edge s).
      { destruct (n_known (st_node s n)); inversion H; subst; [reflexivity|].
        cbn [set_dirty upd_node st_edge]. apply st_edge_stat_if_necessary. }
      intros e. rewrite E. apply HD. }
  destruct (mark_of s e) eqn:Hm.
  2:{ cbn [recompute_node_dirty] in H. rewrite Hp, Hm in H. discriminate. }
  2:{ cbn [recompute_node_dirty] in H. rewrite Hp, Hm in H. inversion H; subst. exact HD. }
  pose proof (Hwg n e Hp) as He. destruct (frag_edge g Hfrag e He) as [Hdeps _].
  rewrite (rnd_none_unfold g w f stack n e s vs Hp Hm) in H.
  destruct HS as [S1 [S2 [S3 S4]]]. destruct (S3 e Hm) as [Hdl Hins]. rewrite Hdl in H.
  destruct (s2_props g w e s) as [A2 [M2 I2]].
  set (s2 := stat_outputs w (enter_edge s e) (edge_outs g e)) in *.
  assert (LS2 : lstep g e s s2).
  { split; [exact A2|]. intros n' Hn'. subst s2. rewrite stat_outputs_other by exact Hn'. reflexivity. }
  assert (HS2 : SInv g w s2).
  { apply (SInv_lstep g w Hwf e s s2 (conj S1 (conj S2 (conj S3 S4))) LS2); [rewrite Hm; discriminate|exact M2]. }
  assert (HD2 : DM s2).
  { intros e'. destruct (Nat.eq_dec e' e) as [->|Hne]; [|rewrite (A2 e' Hne); apply HD].
    unfold s2. rewrite st_edge_stat_outputs. unfold enter_edge. rewrite upd_edge_same. reflexivity. }
  set (visit := rnd f (stack ++ [n])) in *.
  destruct (visit_all visit (ins_of s2 e) (s2, vs ++ ei_vals (g_edge g e))) as [[s3 vs3]|c|e'|] eqn:V1;
    try discriminate.
  destruct (visit_all_rel (fun a : sv => SInv g w (fst a) /\ DM (fst a))
                          (fun a b : sv => True) (fun (i : node) (a : sv) => True) visit
                          (fun a => I) (fun a b c _ _ => I) (fun i a0 a1 _ _ => I) (ins_of s2 e))
    with (a := (s2, vs ++ ei_vals (g_edge g e))) (a' := (s3, vs3)) as [[HS3 HD3] _];
    [|split; assumption|exact V1|].
  { intros i [sa va] [sb vb] _ [HSa HDa] Hv. cbn [fst] in *.
    destruct (rnd_spec g w Hwf _ _ _ _ _ _ _ Hv HSa) as [HSb _].
    split; [split; [exact HSb|apply (IH _ _ _ _ _ _ Hv HSa HDa)]|]. split; exact I. }
  cbn [fst] in HS3, HD3.
  rewrite (after_inputs_AB g w visit e _ _ s3 vs3 Hdeps) in H.
  destruct (eval_inputs g e (ins_of s3 e) 0 s3 None false) as [[s4 mri] dirty] eqn:Hev.
  destruct (if dirty then (true, s4) else outputs_dirty_all g w e (edge_outs g e) mri s4) as [dirty1 s5] eqn:Hod.
  inversion H; subst s' vs'. clear H.
  assert (E45 : st_edge s5 = st_edge s4).
  { destruct dirty; [inversion Hod; subst; reflexivity|].
    pose proof (st_edge_outputs_dirty_all g w e mri (edge_outs g e) s4) as Hx. rewrite Hod in Hx. exact Hx. }
  intros e'. rewrite dm_finish_edge.
  assert (E5 : es_deps_missing (st_edge s5 e') = false).
  { rewrite E45, (dm_eval_inputs e _ _ _ _ _ _ _ _ Hev e'). apply HD3. }
  destruct dirty1; [exact E5|]. unfold splice_deps, set_ins. rewrite dm_upd by reflexivity. exact E5.
Qed.

Lemma loop_DM : forall qf queue s found s' vs',
  recompute_dirty_loop g w qf queue s found = SOk (s', vs') -> SInv g w s -> DM s -> DM s'.
Proof.
  induction qf as [|qf IH]; intros queue s found s' vs' H HS HD; destruct queue as [|n queue];
    cbn [recompute_dirty_loop] in H; try discriminate.
  - inversion H; subst; exact HD.
  - inversion H; subst; exact HD.
  - destruct (rnd (scan_fuel g) [] n (s, [])) as [[s1 newv]|c|e|] eqn:Hv; try discriminate.
    apply (IH _ _ _ _ _ H); [apply (rnd_spec g w Hwf _ _ _ _ _ _ _ Hv HS)|apply (rnd_DM _ _ _ _ _ _ _ Hv HS HD)].
Qed.

Lemma add_targets_DM : forall targets s p s' p',
  add_targets g w s p targets = ScanOk s' p' -> SInv g w s -> DM s -> DM s'.
Proof.
  induction targets as [|t targets IH]; intros s p s' p' H HS HD; cbn [add_targets] in H.
  - inversion H; subst. exact HD.
  - pose proof (bat_result g w s p t) as Hb.
    destruct (builder_add_target g w s p t) as [c|m d|e| |s1 p1]; try discriminate.
    destruct Hb as [vn Hb]. unfold recompute_dirty in Hb.
    apply (IH _ _ _ _ H); [apply (loop_spec g w Hwf _ _ _ _ _ _ Hb HS)|apply (loop_DM _ _ _ _ _ _ Hb HS HD)].
Qed.

Theorem scan_DM T s p : scan g w T = ScanOk s p -> DM s.
Proof.
  intros H. apply (add_targets_DM T (init_state g) init_plan s p H (SInv_init g w)).
  intros e. reflexivity.
Qed.

(* after the scan every statement has its manifest inputs (nothing is spliced in without deps) *)
Theorem scan_ins T s p : scan g w T = ScanOk s p -> forall e, ins_of s e = ei_ins (g_edge g e).
Proof.
  intros H e. destruct (accepted_facts g w Hwf Hwg Hfrag T s p H) as [[_ [_ [S3 _]]] [HR _]].
  destruct (add_targets_spec g w Hwf T _ _ _ _ H (SInv_init g w) (Inv_init g w)) as [_ [I1 _]].
  destruct (mark_of s e) eqn:Hm.
  - apply (S3 e Hm).
  - destruct (I1 e Hm) as [x [[] _]].
  - apply (HR e Hm).
Qed.

End ScanNI.

(* ================================================================== Part C: Plan::CleanNode *)
(* ---- most_recent_input *)
Lemma cn_mri_gen s : forall l mri0,
  (forall x, lt_mri s x (fold_left (fun mri i => newer s i mri) l mri0) <->
             lt_mri s x mri0 \/ exists i, In i l /\ x < ns_mtime (st_node s i)) /\
  (forall m, fold_left (fun mri i => newer s i mri) l mri0 = Some m -> mri0 = Some m \/ In m l).
Proof.
  induction l as [|i l IH]; intros mri0; cbn [fold_left].
  - split; [intros x; split; [intros H; left; exact H|intros [H|[i [[] _]]]; exact H]|intros m H; left; exact H].
  - destruct (IH (newer s i mri0)) as [A B].
    assert (Hn : forall x, lt_mri s x (newer s i mri0) <-> lt_mri s x mri0 \/ x < ns_mtime (st_node s i)).
    { intros x. unfold newer, lt_mri. destruct mri0 as [m|]; [|tauto].
      destruct (Z.gtb_spec (ns_mtime (st_node s i)) (ns_mtime (st_node s m))) as [Hg|Hg]; cbn beta iota; lia. }
    split.
    + intros x. rewrite A, Hn. split.
      * intros [[H|H]|[j [Hj H]]]; [left; exact H|right; exists i; split; [left; reflexivity|exact H]|
                                     right; exists j; split; [right; exact Hj|exact H]].
      * intros [H|[j [[<-|Hj] H]]]; [left; left; exact H|left; right; exact H|right; exists j; split; assumption].
    + intros m Hm. destruct (B m Hm) as [H|H]; [|right; right; exact H].
      unfold newer in H. destruct mri0 as [m0|].
      * destruct (Z.gtb _ _); inversion H; subst; [right; left; reflexivity|left; reflexivity].
      * inversion H; subst. right; left; reflexivity.
Qed.

Lemma cn_mri_spec s l :
  (forall x, lt_mri s x (cn_mri s l) <-> exists i, In i l /\ x < ns_mtime (st_node s i)) /\
  (forall m, cn_mri s l = Some m -> In m l).
Proof.
  destruct (cn_mri_gen s l None) as [A B]. split.
  - intros x. unfold cn_mri. rewrite A. cbn [lt_mri]. tauto.
  - intros m Hm. destruct (B m Hm) as [H|H]; [discriminate|exact H].
Qed.

(* ---- RecomputeOutputsDirty for a real statement whose inputs carry clean flags *)
Lemma own_test_real G w e s l d s' :
  ei_phony (g_edge G e) = false ->
  (forall o, In o (ei_outs (g_edge G e)) ->
     ns_mtime (st_node s o) = w_mtime w o /\ ns_exists (st_node s o) = ex_of (w_mtime w o)) ->
  (forall i, In i l -> forall z, z < ns_mtime (st_node s i) <-> newer_than G w z i) ->
  outputs_dirty_all G w e (edge_outs G e) (cn_mri s l) s = (d, s') ->
  s' = s /\
  (d = true <-> exists o, In o (ei_outs (g_edge G e)) /\
                          out_reason G w (fun z => exists i, In i l /\ newer_than G w z i) e o).
Proof.
  intros Hph Hout Hin H. rewrite (oda_nonphony G w e (cn_mri s l) Hph) in H. inversion H; subst s' d. clear H.
  split; [reflexivity|]. rewrite existsb_exists. unfold edge_outs.
  assert (HN : forall z, lt_opt z (mri_mtime s (cn_mri s l)) <-> exists i, In i l /\ newer_than G w z i).
  { intros z. rewrite lt_opt_mri, (proj1 (cn_mri_spec s l) z). split; intros [i [Hi Hz]]; exists i; (split; [exact Hi|]).
    - apply (Hin i Hi z). exact Hz.
    - apply (Hin i Hi z). exact Hz. }
  split.
  - intros [o [Ho Hd]]. exists o. split; [exact Ho|]. destruct (Hout o Ho) as [Hm Hx].
    apply (odf_spec G w e o _ s Hm Hx) in Hd. unfold out_reason. destruct Hd as [Hb|Ht]; [left; exact Hb|right].
    apply (time_reason_iff G w _ _ e o HN). exact Ht.
  - intros [o [Ho Hr]]. exists o. split; [exact Ho|]. destruct (Hout o Ho) as [Hm Hx].
    apply (odf_spec G w e o _ s Hm Hx). unfold out_reason in Hr. destruct Hr as [Hb|Ht]; [left; exact Hb|right].
    apply (time_reason_iff G w _ _ e o HN). exact Ht.
Qed.

(* newer_than only looks at the files reachable through phony statements *)
Lemma newer_agree G w w' (P : node -> Prop) :
  (forall n, P n -> w_mtime w' n = w_mtime w n) ->
  (forall n e i, P n -> w_mtime w n = 0 -> g_producer G n = Some e -> ei_phony (g_edge G e) = true ->
                 In i (nonoo_ins G e) -> P i) ->
  forall z n, newer_than G w z n -> P n -> newer_than G w' z n.
Proof.
  intros Hm Hcl z n H. induction H as [n Hnz Hlt|n Hz Hlt|n e i Hz Hp Hph Hi Hn IH]; intros HP.
  - apply nt_file; rewrite (Hm n HP); assumption.
  - apply nt_missing; [rewrite (Hm n HP)|]; assumption.
  - apply (nt_phony G w' z n e i); [rewrite (Hm n HP); exact Hz|exact Hp|exact Hph|exact Hi|].
    apply IH. apply (Hcl n e i HP Hz Hp Hph Hi).
Qed.

(* mtimes only grow, files do not vanish, aliases stay aliases: newer stays newer *)
Lemma newer_mono G w w' :
  (forall n, 0 <= w_mtime w n) -> (forall n, 0 <= w_mtime w' n) ->
  (forall n, w_mtime w n <> 0 -> w_mtime w n <= w_mtime w' n) ->
  (forall n e, w_mtime w n = 0 -> g_producer G n = Some e -> ei_phony (g_edge G e) = true -> w_mtime w' n = 0) ->
  forall z n, newer_than G w z n -> newer_than G w' z n.
Proof.
  intros Hpos0 Hpos Hge Hal z n H. induction H as [n Hnz Hlt|n Hz Hlt|n e i Hz Hp Hph Hi Hn IH].
  - specialize (Hge n Hnz). specialize (Hpos0 n). apply nt_file; lia.
  - destruct (Z.eq_dec (w_mtime w' n) 0) as [E|E]; [apply nt_missing; assumption|].
    specialize (Hpos n). apply nt_file; [exact E|lia].
  - apply (nt_phony G w' z n e i (Hal n e Hz Hp Hph) Hp Hph Hi IH).
Qed.

Section Faith.
Variable cmd : edge -> N -> snapshot -> node -> content.
Variable g : graph.
Hypothesis Hwf : wf_spec g.
Hypothesis Hwg : wf_graph g.
Hypothesis Hfrag : frag_AB g = true.
Hypothesis Htopo : topo_ordered g = true.

Notation G st := (graph_of g st).
Notation W st := (world_of st).
Notation outs e := (ei_outs (g_edge g e)).
Notation phony e := (ei_phony (g_edge g e)).
Notation nd s n := (st_node s n).
Notation Fl x n := (ns_dirty (st_node (c_s x) n)).

Lemma Gwf0 st : wf_spec (G st).
Proof. exact Hwf. Qed.
Lemma Gwg0 st : wf_graph (G st).
Proof. exact Hwg. Qed.
Lemma Gfrag0 st : frag_AB (G st) = true.
Proof. exact Hfrag. Qed.

Section Build.
Variables (st0 : hstate) (T : list node) (s0 : sstate) (p0 : plan).
Hypothesis HG0 : Good cmd g st0.
Hypothesis Hscan : scan (G st0) (W st0) T = ScanOk s0 p0.
Notation G0 := (graph_of g st0).
Notation ndd e := (needed g T e).

(* the nodes the invariant talks about: what the targets need, and every output of a needed statement *)
Definition rel (n : node) : Prop :=
  match g_producer g n with Some e => ndd e | None => reach g T n end.

Lemma ndd_lt e : ndd e -> (e < g_nedges g)%nat.
Proof. intros [n [_ Hp]]. apply (Hwg n e Hp). Qed.

Lemma rel_out e o : ndd e -> In o (outs e) -> rel o.
Proof. intros Hn Ho. unfold rel. rewrite (o_prod g Hwf e o Ho). exact Hn. Qed.

Lemma rel_in e i : ndd e -> In i (ei_ins (g_edge g e)) -> rel i.
Proof.
  intros [n [Rn Hp]] Hi.
  assert (Ri : reach g T i).
  { apply (reach_step g (manifest_ins g) T n i Rn). exists e. split; [exact Hp|exact Hi]. }
  unfold rel. destruct (g_producer g i) as [e'|] eqn:Hpi; [exists i; split; assumption|exact Ri].
Qed.

Lemma rel_nonoo e i : ndd e -> In i (nonoo_ins g e) -> rel i.
Proof. intros Hn Hi. apply (rel_in e i Hn). apply (nonoo_in g e i Hi). Qed.

Lemma rel_final n : rel n -> node_final G0 s0 n.
Proof.
  unfold rel. intros H. destruct (g_producer g n) as [e|] eqn:Hp.
  - destruct H as [n' [Rn' Hp']].
    destruct (reach_final G0 (W st0) (Gwf0 st0) (Gwg0 st0) (Gfrag0 st0) T s0 p0 Hscan n'
                (proj2 (reach_G g st0 T n') Rn')) as [Hf _].
    unfold node_final in *. change (g_producer G0 n') with (g_producer g n') in Hf. rewrite Hp' in Hf.
    change (g_producer G0 n) with (g_producer g n). rewrite Hp. exact Hf.
  - apply (reach_final G0 (W st0) (Gwf0 st0) (Gwg0 st0) (Gfrag0 st0) T s0 p0 Hscan n
             (proj2 (reach_G g st0 T n) H)).
Qed.

Lemma rel_ok n : rel n -> node_ok G0 (W st0) s0 n.
Proof.
  intros H. destruct (accepted_facts G0 (W st0) (Gwf0 st0) (Gwg0 st0) (Gfrag0 st0) T s0 p0 Hscan) as [[S1 _] _].
  apply S1. apply rel_final. exact H.
Qed.

Lemma rel_NI n : rel n -> NIat G0 (W st0) s0 n.
Proof.
  intros H. apply (scan_NI G0 (W st0) (Gwf0 st0) (Gwg0 st0) (Gfrag0 st0) T s0 p0 Hscan). apply rel_final. exact H.
Qed.

Lemma ins0 e : es_ins (st_edge s0 e) = ei_ins (g_edge g e).
Proof. apply (scan_ins G0 (W st0) (Gwf0 st0) (Gwg0 st0) (Gfrag0 st0) T s0 p0 Hscan e). Qed.

Lemma dm0 e : es_deps_missing (st_edge s0 e) = false.
Proof. apply (scan_DM G0 (W st0) (Gwf0 st0) (Gwg0 st0) (Gfrag0 st0) T s0 p0 Hscan e). Qed.

Lemma wanted_ndd e : want_start p0 e = true -> ndd e.
Proof. intros H. apply (want_sound g Hwf Hwg Hfrag st0 T s0 p0 Hscan e H). Qed.

(* which statements still have a meaningful want flag when [k] statements have had their turn *)
Definition pend (k : nat) (e : edge) : Prop :=
  (phony e = true /\ ei_ins (g_edge g e) <> []) \/ (phony e = false /\ (k <= e)%nat).

(* the statement is dirty for a reason of its own, on the world [w] *)
Definition OWN (w : world) (e : edge) : Prop :=
  exists o, In o (outs e) /\
            out_reason G0 w (fun z => exists i, In i (nonoo_ins g e) /\ newer_than G0 w z i) e o.
Definition OWNx (w : world) (e : edge) : Prop := phony e = false /\ OWN w e.

(* the semantic state while [k] statements have had their turn *)
Record HInv (k : nat) (st : hstate) : Prop := mkHInv {
  hi_good : Good cmd g st;
  hi_hash : h_hash st = h_hash st0;
  hi_clock : h_clock st0 <= h_clock st;
  hi_leaf : forall n, g_producer g n = None -> h_disk st n = h_disk st0 n;
  hi_later : forall n e, g_producer g n = Some e -> (k <= e)%nat ->
                         h_disk st n = h_disk st0 n /\ h_blog st n = h_blog st0 n;
  hi_fresh : forall n, h_disk st n = h_disk st0 n \/
                       exists m c, h_disk st n = Some (m, c) /\ h_clock st0 < m
}.

(* flags, cached mtimes and want map, tied to the current disk.  [V]: statements being pruned
   right now (their outputs are being cleaned); [U]: out-edges of a node just cleaned that have not
   been looked at yet; [Q]: outputs a restat command left untouched, not cleaned yet *)
Record CInv (k : nat) (st : hstate) (x : cst) (V U : list edge) (Q : node -> Prop) : Prop := mkCInv {
  ci_E : st_edge (c_s x) = st_edge s0;
  ci_N1 : forall n, rel n -> ns_exists (nd (c_s x) n) = ex_of (mtime_of st0 n);
  ci_N2 : forall n, rel n -> (forall e, g_producer g n = Some e -> phony e = false) ->
                    ns_mtime (nd (c_s x) n) = mtime_of st0 n;
  ci_N3 : forall n e, g_producer g n = Some e -> ndd e -> phony e = true -> ~ In e V -> Fl x n = true ->
                      ns_mtime (nd (c_s x) n) = 0;
  ci_B : forall n, rel n -> Fl x n = false ->
                   forall z, z < ns_mtime (nd (c_s x) n) <-> newer_than G0 (W st) z n;
  ci_L : forall n, rel n -> g_producer g n = None -> (Fl x n = true <-> mtime_of st0 n = 0);
  ci_Wm : forall e, c_want x e = true -> want_start p0 e = true /\ (phony e = true \/ (k <= e)%nat);
  ci_IP : forall e o, ndd e -> phony e = true -> ei_ins (g_edge g e) = [] -> In o (outs e) -> Fl x o = true;
  ci_T1 : forall e o, ndd e -> pend k e -> c_want x e = false -> In o (outs e) -> Fl x o = false;
  ci_T2 : forall e o, ndd e -> pend k e -> ~ In e V -> c_want x e = true -> In o (outs e) -> Fl x o = true;
  ci_T3 : forall e, ndd e -> pend k e -> c_want x e = false ->
                    (forall i, In i (nonoo_ins g e) -> Fl x i = false) /\ ~ OWNx (W st) e;
  ci_T4 : forall e, ndd e -> pend k e -> ~ In e V -> ~ In e U -> c_want x e = true ->
                    (exists i, In i (nonoo_ins g e) /\ Fl x i = true) \/ OWNx (W st) e;
  ci_P : forall e o, ndd e -> phony e = false -> (e < k)%nat -> In o (outs e) ->
                     (Fl x o = true -> Q o \/ h_clock st0 < mtime_of st o) /\
                     (Fl x o = false -> h_disk st o = h_disk st0 o)
}.

Definition noN : node -> Prop := fun _ => False.

Lemma own_md w e : (e < g_nedges g)%nat -> OWNx w e -> exists o, In o (outs e) /\ must_dirty G0 w o.
Proof.
  intros He [Hph [o [Ho Hr]]]. exists o. split; [exact Ho|].
  apply (md_self G0 w o e o (o_prod g Hwf e o Ho) Hph Ho).
  rewrite (spec_ins_AB g Hfrag st0 w e He). exact Hr.
Qed.

Lemma md_cases w e o : (e < g_nedges g)%nat -> In o (outs e) -> must_dirty G0 w o ->
  (exists i, In i (nonoo_ins g e) /\ must_dirty G0 w i) \/
  (phony e = true /\ ei_ins (g_edge g e) = []) \/ OWNx w e.
Proof.
  intros He Ho Hmd.
  destruct (must_dirty_out_inv G0 w o e Hmd (o_prod g Hwf e o Ho))
    as [[i [Hi Hdi]]|[[Hp [Hnil _]]|[[Hp [o' [Ho' Hr]]]|Hl]]].
  - left. rewrite (spec_ins_AB g Hfrag st0 w e He) in Hi. exists i. split; assumption.
  - right; left. split; assumption.
  - right; right. split; [exact Hp|]. exists o'. split; [exact Ho'|].
    rewrite (spec_ins_AB g Hfrag st0 w e He) in Hr. exact Hr.
  - exfalso. unfold spec_load in Hl. change (ei_deps (g_edge G0 e)) with (ei_deps (g_edge g e)) in Hl.
    rewrite (edge_frag g Hfrag e He) in Hl. discriminate.
Qed.

Lemma pend_not_ip k e : pend k e -> ~ (phony e = true /\ ei_ins (g_edge g e) = []).
Proof. intros [[_ Hi]|[Hp _]] [Hp' Hnil]; [contradiction|congruence]. Qed.

Lemma unwanted_clean e : ndd e -> ~ (phony e = true /\ ei_ins (g_edge g e) = []) ->
  want_start p0 e = false -> forall o, In o (outs e) -> ~ must_dirty G0 (W st0) o.
Proof.
  intros Hn Hnip Hw o Ho Hmd.
  destruct (want_complete g Hwf Hwg Hfrag st0 T s0 p0 Hscan e Hn (ex_intro _ o (conj Ho Hmd)) Hnip) as [Hw' _].
  congruence.
Qed.

Lemma ndd_out e : ndd e -> exists n, In n (outs e) /\ g_producer g n = Some e.
Proof. intros [n [_ Hp]]. exists n. split; [apply (p_out g Hwf n e Hp)|exact Hp]. Qed.

Lemma hinv_init : HInv 0 st0.
Proof.
  constructor; try reflexivity; try lia.
  - exact HG0.
  - intros n e _ _. split; reflexivity.
  - intros n. left; reflexivity.
Qed.

Lemma cinv_init : CInv 0 st0 (init_cst s0 p0) [] [] noN.
Proof.
  destruct HG0 as [[A [B [C [D E]]]] L].
  constructor; cbn [init_cst c_s c_want].
  - reflexivity.
  - intros n Hr. apply (proj1 (rel_NI n Hr)).
  - intros n Hr Hnp. apply (proj2 (rel_NI n Hr)). right. exact Hnp.
  - intros n e Hp Hn Hph _ Hd.
    assert (Hr : rel n) by (unfold rel; rewrite Hp; exact Hn).
    rewrite (proj2 (rel_NI n Hr) (or_introl Hd)). cbn [world_of w_mtime]. unfold mtime_of.
    rewrite (D n e Hp Hph). reflexivity.
  - intros n Hr Hd. apply (proj2 (rel_ok n Hr) Hd).
  - intros n Hr Hp. rewrite (proj1 (rel_ok n Hr)). split.
    + intros Hmd. apply (must_dirty_leaf_inv G0 (W st0) n Hmd Hp).
    + intros Hz. apply md_leaf; assumption.
  - intros e Hw. split; [exact Hw|right; lia].
  - intros e o Hn Hph Hnil Ho. apply (proj1 (rel_ok o (rel_out e o Hn Ho))).
    apply (md_phony G0 (W st0) o e o (o_prod g Hwf e o Ho) Hph Hnil); [|exact Ho|].
    + apply (frag_edge g Hfrag e (ndd_lt e Hn)).
    + cbn [world_of w_mtime]. unfold mtime_of. rewrite (D o e (o_prod g Hwf e o Ho) Hph). reflexivity.
  - intros e o Hn Hpe Hw Ho. destruct (ns_dirty (nd s0 o)) eqn:Hd; [exfalso|reflexivity].
    apply (unwanted_clean e Hn (pend_not_ip 0 e Hpe) Hw o Ho). apply (proj1 (rel_ok o (rel_out e o Hn Ho))). exact Hd.
  - intros e o Hn Hpe _ Hw Ho. apply (proj1 (rel_ok o (rel_out e o Hn Ho))).
    destruct (want_sound g Hwf Hwg Hfrag st0 T s0 p0 Hscan e Hw) as [_ [o' [Ho' Hmd]]].
    apply (must_dirty_same_prod G0 (W st0) o' o e (o_prod g Hwf e o' Ho') (o_prod g Hwf e o Ho) Hmd).
  - intros e Hn Hpe Hw. pose proof (unwanted_clean e Hn (pend_not_ip 0 e Hpe) Hw) as Hc.
    destruct (ndd_out e Hn) as [n [Hno Hpn]]. split.
    + intros i Hi. destruct (ns_dirty (nd s0 i)) eqn:Hd; [exfalso|reflexivity].
      apply (Hc n Hno). apply (md_input G0 (W st0) n e i Hpn).
      * rewrite (spec_ins_AB g Hfrag st0 (W st0) e (ndd_lt e Hn)). exact Hi.
      * apply (proj1 (rel_ok i (rel_nonoo e i Hn Hi))). exact Hd.
    + intros Ho. destruct (own_md (W st0) e (ndd_lt e Hn) Ho) as [o [Hoo Hmd]]. apply (Hc o Hoo Hmd).
  - intros e Hn Hpe _ _ Hw.
    destruct (want_sound g Hwf Hwg Hfrag st0 T s0 p0 Hscan e Hw) as [_ [o [Ho Hmd]]].
    destruct (md_cases (W st0) e o (ndd_lt e Hn) Ho Hmd) as [[i [Hi Hdi]]|[Hip|Hown]].
    + left. exists i. split; [exact Hi|]. apply (proj1 (rel_ok i (rel_nonoo e i Hn Hi))). exact Hdi.
    + exfalso. apply (pend_not_ip 0 e Hpe Hip).
    + right. exact Hown.
  - intros e o _ _ He. lia.
Qed.

(* ---- one cascade: the semantic state [st] (after the command) is fixed *)
Section Cascade.
Variables (k : nat) (st : hstate).
Hypothesis HH : HInv k st.
Notation w := (world_of st).

Lemma nonoo_eq x e : st_edge (c_s x) = st_edge s0 -> cn_nonoo G0 (c_s x) e = nonoo_ins g e.
Proof. intros E. unfold cn_nonoo, nonoo_ins. rewrite E, ins0. reflexivity. Qed.

Lemma out_edges_in x e n : st_edge (c_s x) = st_edge s0 ->
  (In e (out_edges G0 (c_s x) n) <-> (e < g_nedges g)%nat /\ In n (ei_ins (g_edge g e))).
Proof.
  intros E. unfold out_edges. rewrite filter_In, in_seq, E, ins0, mem_node_In.
  change (g_nedges G0) with (g_nedges g). split; intros [A B]; (split; [lia|exact B]).
Qed.

Lemma nd_clear_other s n m : m <> n -> nd (set_dirty s n false) m = nd s m.
Proof. intros H. unfold set_dirty. apply upd_node_other. exact H. Qed.

Lemma nd_clear_same s n :
  nd (set_dirty s n false) n = mkN false (ns_mtime (nd s n)) (ns_exists (nd s n)).
Proof. unfold set_dirty. apply upd_node_same. Qed.

Lemma cinv_weaken_U x V U U' Q :
  CInv k st x V U Q ->
  (forall e, ndd e -> pend k e -> ~ In e V -> ~ In e U' -> In e U -> c_want x e = true ->
     (exists i, In i (nonoo_ins g e) /\ Fl x i = true) \/ OWNx w e) ->
  CInv k st x V U' Q.
Proof.
  intros H HU. destruct H as [cE cN1 cN2 cN3 cB cL cWm cIP cT1 cT2 cT3 cT4 cP].
  constructor; try assumption.
  intros e Hn Hpe HV HU' Hw. destruct (in_dec Nat.eq_dec e U) as [Hu|Hnu].
  - apply (HU e Hn Hpe HV HU' Hu Hw).
  - apply (cT4 e Hn Hpe HV Hnu Hw).
Qed.

Lemma cinv_weaken_V x V V' U Q : incl V V' -> CInv k st x V U Q -> CInv k st x V' U Q.
Proof.
  intros Hi H. destruct H as [cE cN1 cN2 cN3 cB cL cWm cIP cT1 cT2 cT3 cT4 cP].
  constructor; try assumption.
  - intros n e Hp Hn Hph HV. apply (cN3 n e Hp Hn Hph). intros Hin. apply HV. apply Hi. exact Hin.
  - intros e o Hn Hpe HV. apply (cT2 e o Hn Hpe). intros Hin. apply HV. apply Hi. exact Hin.
  - intros e Hn Hpe HV. apply (cT4 e Hn Hpe). intros Hin. apply HV. apply Hi. exact Hin.
Qed.

(* the first action of CleanNode: the flag of [n] goes; its out-edges have to be looked at *)
Lemma cinv_clear x V U Q n en :
  CInv k st x V U Q -> rel n -> g_producer g n = Some en ->
  (forall z, z < ns_mtime (nd (c_s x) n) <-> newer_than G0 w z n) ->
  ((Q n /\ phony en = false /\ (en < k)%nat /\ h_disk st n = h_disk st0 n) \/ (In en V /\ pend k en)) ->
  CInv k st (mkC (set_dirty (c_s x) n false) (c_want x)) V
       (U ++ out_edges G0 (set_dirty (c_s x) n false) n) (fun m => Q m /\ m <> n).
Proof.
  intros H Hrel Hp HB Hcase. destruct H as [cE cN1 cN2 cN3 cB cL cWm cIP cT1 cT2 cT3 cT4 cP].
  set (s1 := set_dirty (c_s x) n false).
  assert (Ho : forall m, m <> n -> nd s1 m = nd (c_s x) m) by (intros m Hm; apply nd_clear_other; exact Hm).
  assert (Hs : nd s1 n = mkN false (ns_mtime (nd (c_s x) n)) (ns_exists (nd (c_s x) n))) by apply nd_clear_same.
  assert (Hfl : forall m, ns_dirty (nd s1 m) = true -> m <> n /\ Fl x m = true).
  { intros m Hm. destruct (Nat.eq_dec m n) as [->|Hne]; [rewrite Hs in Hm; discriminate|].
    split; [exact Hne|]. rewrite <- (Ho m Hne). exact Hm. }
  assert (Hfl0 : forall m, Fl x m = false -> ns_dirty (nd s1 m) = false).
  { intros m Hm. destruct (Nat.eq_dec m n) as [->|Hne]; [rewrite Hs; reflexivity|rewrite (Ho m Hne); exact Hm]. }
  assert (Hnot_out : forall e, In n (outs e) -> ndd e -> pend k e -> ~ In e V -> False).
  { intros e Hin Hn Hpe HV. rewrite (o_prod g Hwf e n Hin) in Hp. inversion Hp; subst en.
    destruct Hcase as [[_ [Hph [Hlt _]]]|[Hv _]]; [|contradiction].
    destruct Hpe as [[Hph' _]|[_ Hle]]; [congruence|lia]. }
  constructor; cbn [c_s c_want]; fold s1.
  - exact cE.
  - intros m Hm. destruct (Nat.eq_dec m n) as [->|Hne]; [rewrite Hs; apply (cN1 n Hm)|rewrite (Ho m Hne); apply (cN1 m Hm)].
  - intros m Hm Hnp. destruct (Nat.eq_dec m n) as [->|Hne]; [rewrite Hs; apply (cN2 n Hm Hnp)|rewrite (Ho m Hne); apply (cN2 m Hm Hnp)].
  - intros m e Hpm Hn Hph HV Hd. destruct (Hfl m Hd) as [Hne Hd']. rewrite (Ho m Hne). apply (cN3 m e Hpm Hn Hph HV Hd').
  - intros m Hm Hd z. destruct (Nat.eq_dec m n) as [->|Hne]; [rewrite Hs; apply HB|].
    rewrite (Ho m Hne) in *. apply (cB m Hm Hd z).
  - intros m Hm Hpm. assert (Hne : m <> n) by (intros ->; congruence). rewrite (Ho m Hne). apply (cL m Hm Hpm).
  - exact cWm.
  - intros e o Hn Hph Hnil Hin. assert (Hne : o <> n).
    { intros ->. rewrite (o_prod g Hwf e n Hin) in Hp. inversion Hp; subst en.
      destruct Hcase as [[_ [Hph' _]]|[_ Hpe]]; [congruence|apply (pend_not_ip k e Hpe); split; assumption]. }
    rewrite (Ho o Hne). apply (cIP e o Hn Hph Hnil Hin).
  - intros e o Hn Hpe Hw Hin. apply Hfl0. apply (cT1 e o Hn Hpe Hw Hin).
  - intros e o Hn Hpe HV Hw Hin. assert (Hne : o <> n) by (intros ->; apply (Hnot_out e Hin Hn Hpe HV)).
    rewrite (Ho o Hne). apply (cT2 e o Hn Hpe HV Hw Hin).
  - intros e Hn Hpe Hw. destruct (cT3 e Hn Hpe Hw) as [A B]. split; [|exact B].
    intros i Hi. apply Hfl0. apply (A i Hi).
  - intros e Hn Hpe HV HU Hw.
    assert (HU1 : ~ In e U) by (intros Hin; apply HU; apply in_or_app; left; exact Hin).
    destruct (cT4 e Hn Hpe HV HU1 Hw) as [[i [Hi Hd]]|Hown]; [|right; exact Hown].
    left. exists i. split; [exact Hi|]. destruct (Nat.eq_dec i n) as [->|Hne]; [|rewrite (Ho i Hne); exact Hd].
    exfalso. apply HU. apply in_or_app. right.
    apply (out_edges_in (mkC s1 (c_want x)) e n cE). split; [apply (ndd_lt e Hn)|apply (nonoo_in g e n Hi)].
  - intros e o Hn Hph Hlt Hin. destruct (cP e o Hn Hph Hlt Hin) as [A B]. split.
    + intros Hd. destruct (Hfl o Hd) as [Hne Hd']. destruct (A Hd') as [Hq|Hf]; [left; split; assumption|right; exact Hf].
    + intros Hd. destruct (Nat.eq_dec o n) as [->|Hne]; [|rewrite (Ho o Hne) in Hd; apply (B Hd)].
      destruct Hcase as [[_ [_ [_ Hdk]]]|[Hv Hpe]]; [exact Hdk|].
      exfalso. rewrite (o_prod g Hwf e n Hin) in Hp. inversion Hp; subst en.
      destruct Hpe as [[Hph' _]|[_ Hle]]; [congruence|lia].
Qed.

(* what a cascade may change: flags and wants only go away; the nodes in [P] are not touched *)
Definition frame (P : node -> Prop) (x x' : cst) : Prop :=
  st_edge (c_s x') = st_edge (c_s x) /\
  (forall m, Fl x' m = true -> Fl x m = true) /\
  (forall e, c_want x' e = true -> c_want x e = true) /\
  (forall m, P m -> nd (c_s x') m = nd (c_s x) m).

Lemma frame_refl P x : frame P x x.
Proof. repeat split; auto. Qed.

Lemma frame_trans (P P1 P2 : node -> Prop) a b c :
  (forall m, P m -> P1 m) -> (forall m, P m -> P2 m) -> frame P1 a b -> frame P2 b c -> frame P a c.
Proof.
  intros H1 H2 [A1 [A2 [A3 A4]]] [B1 [B2 [B3 B4]]]. split; [congruence|]. split; [auto|]. split; [auto|].
  intros m Hm. rewrite (B4 m (H2 m Hm)). apply (A4 m (H1 m Hm)).
Qed.

Definition low (en : nat) (m : node) : Prop :=
  match g_producer g m with None => True | Some e' => (e' <= en)%nat end.

Lemma frame_clear x n : frame (fun m => m <> n) x (mkC (set_dirty (c_s x) n false) (c_want x)).
Proof.
  split; [reflexivity|]. split; [|split; [auto|]].
  - intros m Hm. cbn [c_s] in Hm. destruct (Nat.eq_dec m n) as [->|Hne]; [rewrite nd_clear_same in Hm; discriminate|].
    rewrite (nd_clear_other _ n m Hne) in Hm. exact Hm.
  - intros m Hm. cbn [c_s]. apply nd_clear_other. exact Hm.
Qed.

Lemma unwant_same wt e : unwant wt e e = false.
Proof. unfold unwant. rewrite Nat.eqb_refl. reflexivity. Qed.
Lemma unwant_other wt e e' : e' <> e -> unwant wt e e' = wt e'.
Proof. intros H. unfold unwant. destruct (Nat.eqb_spec e' e); [contradiction|reflexivity]. Qed.

(* a pruned statement leaves the plan *)
Lemma cinv_prune x V U Q e :
  CInv k st x (e :: V) U Q -> ndd e -> pend k e ->
  (forall o, In o (outs e) -> Fl x o = false) ->
  (forall i, In i (nonoo_ins g e) -> Fl x i = false) -> ~ OWNx w e ->
  CInv k st (mkC (c_s x) (unwant (c_want x) e)) V U Q.
Proof.
  intros H Hn Hpe Hout Hin Hown. destruct H as [cE cN1 cN2 cN3 cB cL cWm cIP cT1 cT2 cT3 cT4 cP].
  assert (HV : forall e', e' <> e -> ~ In e' V -> ~ In e' (e :: V)).
  { intros e' Hne Hv [Heq|Hi]; [apply Hne; symmetry; exact Heq|apply Hv; exact Hi]. }
  constructor; cbn [c_s c_want]; try assumption.
  - intros n e' Hp Hn' Hph Hv Hd. destruct (Nat.eq_dec e' e) as [Heq|Hne].
    + subst e'. rewrite (Hout n (p_out g Hwf n e Hp)) in Hd. discriminate.
    + apply (cN3 n e' Hp Hn' Hph (HV e' Hne Hv) Hd).
  - intros e' Hw. destruct (Nat.eq_dec e' e) as [Heq|Hne]; [subst e'; rewrite unwant_same in Hw; discriminate|].
    rewrite (unwant_other _ _ _ Hne) in Hw. apply (cWm e' Hw).
  - intros e' o Hn' Hpe' Hw Ho. destruct (Nat.eq_dec e' e) as [Heq|Hne]; [subst e'; apply (Hout o Ho)|].
    rewrite (unwant_other _ _ _ Hne) in Hw. apply (cT1 e' o Hn' Hpe' Hw Ho).
  - intros e' o Hn' Hpe' Hv Hw Ho.
    destruct (Nat.eq_dec e' e) as [Heq|Hne]; [subst e'; rewrite unwant_same in Hw; discriminate|].
    rewrite (unwant_other _ _ _ Hne) in Hw. apply (cT2 e' o Hn' Hpe' (HV e' Hne Hv) Hw Ho).
  - intros e' Hn' Hpe' Hw. destruct (Nat.eq_dec e' e) as [Heq|Hne]; [subst e'; split; assumption|].
    rewrite (unwant_other _ _ _ Hne) in Hw. apply (cT3 e' Hn' Hpe' Hw).
  - intros e' Hn' Hpe' Hv Hu Hw.
    destruct (Nat.eq_dec e' e) as [Heq|Hne]; [subst e'; rewrite unwant_same in Hw; discriminate|].
    rewrite (unwant_other _ _ _ Hne) in Hw. apply (cT4 e' Hn' Hpe' (HV e' Hne Hv) Hu Hw).
Qed.

(* RecomputeOutputsDirty on a phony statement moves the cached mtimes of its outputs *)
Lemma cinv_phony_update x V U Q e s1 :
  CInv k st x V U Q -> ndd e -> pend k e -> ~ In e V -> c_want x e = true -> phony e = true ->
  st_edge s1 = st_edge (c_s x) ->
  (forall m, ~ In m (outs e) -> nd s1 m = nd (c_s x) m) ->
  (forall m, ns_dirty (nd s1 m) = ns_dirty (nd (c_s x) m) /\ ns_exists (nd s1 m) = ns_exists (nd (c_s x) m)) ->
  CInv k st (mkC s1 (c_want x)) (e :: V) U Q.
Proof.
  intros H Hn Hpe Hv Hw Hph HE Hno Hde. destruct H as [cE cN1 cN2 cN3 cB cL cWm cIP cT1 cT2 cT3 cT4 cP].
  assert (Hd : forall m, ns_dirty (nd s1 m) = Fl x m) by (intros m; apply (proj1 (Hde m))).
  assert (HV : forall e', ~ In e' (e :: V) -> e' <> e /\ ~ In e' V).
  { intros e' Hi. split; [intros ->; apply Hi; left; reflexivity|intros Hi'; apply Hi; right; exact Hi']. }
  constructor; cbn [c_s c_want].
  - rewrite HE. exact cE.
  - intros m Hm. rewrite (proj2 (Hde m)). apply (cN1 m Hm).
  - intros m Hm Hnp. rewrite Hno; [apply (cN2 m Hm Hnp)|].
    intros Hin. specialize (Hnp e (o_prod g Hwf e m Hin)). congruence.
  - intros m e' Hp Hn' Hph' Hv' Hdm. destruct (HV e' Hv') as [Hne Hv''].
    rewrite Hd in Hdm. rewrite Hno; [apply (cN3 m e' Hp Hn' Hph' Hv'' Hdm)|].
    intros Hin. rewrite (o_prod g Hwf e m Hin) in Hp. inversion Hp. congruence.
  - intros m Hm Hdm z. rewrite Hd in Hdm. rewrite Hno; [apply (cB m Hm Hdm z)|].
    intros Hin. rewrite (cT2 e m Hn Hpe Hv Hw Hin) in Hdm. discriminate.
  - intros m Hm Hp. rewrite Hd. apply (cL m Hm Hp).
  - exact cWm.
  - intros e' o Hn' Hph' Hnil Ho. rewrite Hd. apply (cIP e' o Hn' Hph' Hnil Ho).
  - intros e' o Hn' Hpe' Hw' Ho. rewrite Hd. apply (cT1 e' o Hn' Hpe' Hw' Ho).
  - intros e' o Hn' Hpe' Hv' Hw' Ho. rewrite Hd. apply (cT2 e' o Hn' Hpe' (proj2 (HV e' Hv')) Hw' Ho).
  - intros e' Hn' Hpe' Hw'. destruct (cT3 e' Hn' Hpe' Hw') as [A B]. split; [|exact B].
    intros i Hi. rewrite Hd. apply (A i Hi).
  - intros e' Hn' Hpe' Hv' Hu Hw'. destruct (cT4 e' Hn' Hpe' (proj2 (HV e' Hv')) Hu Hw') as [[i [Hi Hdi]]|Ho]; [|right; exact Ho].
    left. exists i. split; [exact Hi|]. rewrite Hd. exact Hdi.
  - intros e' o Hn' Hph' Hlt Ho. rewrite Hd. apply (cP e' o Hn' Hph' Hlt Ho).
Qed.

Lemma cinv_weaken_Q x V U (Q Q' : node -> Prop) :
  (forall m, Q m -> Q' m) -> CInv k st x V U Q -> CInv k st x V U Q'.
Proof.
  intros HQ H. destruct H as [cE cN1 cN2 cN3 cB cL cWm cIP cT1 cT2 cT3 cT4 cP].
  constructor; try assumption.
  intros e o Hn Hph Hlt Ho. destruct (cP e o Hn Hph Hlt Ho) as [A B]. split; [|exact B].
  intros Hd. destruct (A Hd) as [Hq|Hf]; [left; apply HQ; exact Hq|right; exact Hf].
Qed.

Lemma forallb_false {A : Type} (f : A -> bool) : forall l, forallb f l = false -> exists a, In a l /\ f a = false.
Proof.
  induction l as [|a l IH]; cbn [forallb]; [discriminate|]. intros H.
  destruct (f a) eqn:Ha; [|exists a; split; [left; reflexivity|exact Ha]].
  destruct (IH H) as [b [Hb Hfb]]. exists b. split; [right; exact Hb|exact Hfb].
Qed.

Definition Qminus (Q : node -> Prop) (n : node) : node -> Prop := fun m => Q m /\ m <> n.

(* the cached mtime a cleaned phony output gets is the one make semantics gives it *)
Lemma phony_B x V U Q e o :
  CInv k st x V U Q -> ndd e -> pend k e -> ~ In e V -> c_want x e = true -> phony e = true ->
  (forall i, In i (nonoo_ins g e) -> Fl x i = false) -> In o (outs e) ->
  forall z, z < phony_mtime (c_s x) (cn_mri (c_s x) (nonoo_ins g e)) o <-> newer_than G0 w z o.
Proof.
  intros H Hn Hpe Hv Hw Hph Hin Ho z.
  destruct HG0 as [[_ [_ [_ [D0 _]]]] _]. destruct (hi_good k st HH) as [[_ [_ [_ [D1 _]]]] _].
  pose proof (o_prod g Hwf e o Ho) as Hpo.
  assert (Hm0 : mtime_of st0 o = 0) by (unfold mtime_of; rewrite (D0 o e Hpo Hph); reflexivity).
  assert (Hm1 : w_mtime w o = 0) by (cbn [world_of w_mtime]; unfold mtime_of; rewrite (D1 o e Hpo Hph); reflexivity).
  assert (Hex : n_exists (nd (c_s x) o) = false).
  { unfold n_exists. rewrite (ci_N1 _ _ _ _ _ _ H o (rel_out e o Hn Ho)), Hm0. reflexivity. }
  assert (Hmt : ns_mtime (nd (c_s x) o) = 0).
  { apply (ci_N3 _ _ _ _ _ _ H o e Hpo Hn Hph Hv). apply (ci_T2 _ _ _ _ _ _ H e o Hn Hpe Hv Hw Ho). }
  rewrite (newer_missing_phony G0 w z o e Hm1 Hpo Hph).
  assert (HN : (exists i, In i (nonoo_ins G0 e) /\ newer_than G0 w z i) <->
               lt_mri (c_s x) z (cn_mri (c_s x) (nonoo_ins g e))).
  { rewrite (proj1 (cn_mri_spec (c_s x) (nonoo_ins g e)) z).
    split; intros [i [Hi Hz]]; exists i; (split; [exact Hi|]).
    - apply (ci_B _ _ _ _ _ _ H i (rel_nonoo e i Hn Hi) (Hin i Hi) z). exact Hz.
    - apply (ci_B _ _ _ _ _ _ H i (rel_nonoo e i Hn Hi) (Hin i Hi) z). exact Hz. }
  rewrite HN. unfold phony_mtime. rewrite Hex, Hmt.
  destruct (cn_mri (c_s x) (nonoo_ins g e)) as [m|]; cbn [lt_mri]; lia.
Qed.

Definition CN_spec (f : nat) : Prop :=
  forall n x V U Q en,
    CInv k st x V U Q -> rel n -> g_producer g n = Some en -> (g_nedges g - en <= f)%nat ->
    (forall v, In v V -> (v <= en)%nat) ->
    (forall z, z < ns_mtime (nd (c_s x) n) <-> newer_than G0 w z n) ->
    ((Q n /\ phony en = false /\ (en < k)%nat /\ h_disk st n = h_disk st0 n) \/ (In en V /\ pend k en)) ->
    exists x', clean_node G0 w f n x = Some x' /\ CInv k st x' V U (Qminus Q n) /\
               frame (fun m => m <> n /\ low en m) x x' /\ Fl x' n = false.

(* "CleanNode every output of oe" *)
Lemma outs_loop f : CN_spec f -> forall e os x V U Q,
  ndd e -> pend k e -> In e V -> (g_nedges g - e <= f)%nat -> (forall v, In v V -> (v <= e)%nat) ->
  (forall o, In o os -> In o (outs e)) ->
  CInv k st x V U Q ->
  (forall o, In o os -> forall z, z < ns_mtime (nd (c_s x) o) <-> newer_than G0 w z o) ->
  exists x', ofold (clean_node G0 w f) os x = Some x' /\ CInv k st x' V U Q /\
             frame (fun m => ~ In m os /\ low e m) x x' /\ (forall o, In o os -> Fl x' o = false).
Proof.
  intros IH e. induction os as [|o os IHos]; intros x V U Q Hn Hpe Hv Hfuel Hle Hsub HC HB.
  - exists x. split; [reflexivity|]. split; [exact HC|]. split; [apply frame_refl|intros o []].
  - cbn [ofold].
    pose proof (Hsub o (or_introl eq_refl)) as Ho. pose proof (o_prod g Hwf e o Ho) as Hpo.
    destruct (IH o x V U Q e HC (rel_out e o Hn Ho) Hpo Hfuel Hle (HB o (or_introl eq_refl))
                 (or_intror (conj Hv Hpe))) as [x1 [E1 [C1 [F1 D1]]]].
    rewrite E1.
    assert (C1' : CInv k st x1 V U Q) by (apply (cinv_weaken_Q x1 V U (Qminus Q o) Q); [intros m [Hq _]; exact Hq|exact C1]).
    destruct (IHos x1 V U Q Hn Hpe Hv Hfuel Hle (fun o' Ho' => Hsub o' (or_intror Ho')) C1') as [x2 [E2 [C2 [F2 D2]]]].
    { intros o' Ho' z. destruct (Nat.eq_dec o' o) as [->|Hne].
      - apply (ci_B _ _ _ _ _ _ C1' o (rel_out e o Hn Ho) D1 z).
      - destruct F1 as [_ [_ [_ F1n]]]. rewrite (F1n o'); [apply (HB o' (or_intror Ho') z)|].
        split; [exact Hne|]. unfold low. rewrite (o_prod g Hwf e o' (Hsub o' (or_intror Ho'))). lia. }
    exists x2. split; [exact E2|]. split; [exact C2|]. split.
    + apply (frame_trans _ (fun m => m <> o /\ low e m) (fun m => ~ In m os /\ low e m) x x1 x2); [| |exact F1|exact F2].
      * intros m [Hni Hl]. split; [intros ->; apply Hni; left; reflexivity|exact Hl].
      * intros m [Hni Hl]. split; [intros Hi; apply Hni; right; exact Hi|exact Hl].
    + intros o' [<-|Ho']; [|apply D2; exact Ho'].
      destruct (Fl x2 o) eqn:Hd; [|reflexivity]. destruct F2 as [_ [F2f _]]. rewrite (F2f o Hd) in D1. discriminate.
Qed.

(* the loop of CleanNode over the out-edges of [n] *)
Lemma edges_loop f : CN_spec f -> forall n en L x V U Q,
  g_producer g n = Some en -> (g_nedges g - en <= S f)%nat -> (forall v, In v V -> (v <= en)%nat) ->
  (forall e, In e L -> (e < g_nedges g)%nat /\ In n (ei_ins (g_edge g e))) ->
  CInv k st x V (U ++ L) Q ->
  exists x', ofold (clean_edge G0 w (clean_node G0 w f)) L x = Some x' /\ CInv k st x' V U Q /\
             frame (low en) x x'.
Proof.
  intros IH n en. induction L as [|e L IHL]; intros x V U Q Hp Hfuel Hle HL HC.
  - rewrite app_nil_r in HC. exists x. split; [reflexivity|]. split; [exact HC|apply frame_refl].
  - destruct x as [s wt]. cbn [ofold].
    destruct (HL e (or_introl eq_refl)) as [He Hnin].
    assert (Hlt : (en < e)%nat).
    { pose proof (in_below g Htopo e n He Hnin) as Hb. unfold below in Hb. rewrite Hp in Hb. exact Hb. }
    assert (HL' : forall e', In e' L -> (e' < g_nedges g)%nat /\ In n (ei_ins (g_edge g e'))) by (intros e' He'; apply HL; right; exact He').
    pose proof (ci_E _ _ _ _ _ _ HC) as cE. cbn [c_s] in cE.
    assert (Hnoo : cn_nonoo G0 s e = nonoo_ins g e) by (apply (nonoo_eq (mkC s wt) e cE)).
    (* dropping [e] from the exemption list once it has been dealt with *)
    assert (Hdrop : forall y, CInv k st y V (U ++ e :: L) Q ->
              (c_want y e = true -> ndd e -> pend k e ->
               (exists i, In i (nonoo_ins g e) /\ Fl y i = true) \/ OWNx w e) ->
              CInv k st y V (U ++ L) Q).
    { intros y Hy Hconc. apply (cinv_weaken_U y V (U ++ e :: L) (U ++ L) Q Hy).
      intros e' Hn' Hpe' _ Hnot Hin Hw'.
      assert (e' = e).
      { apply in_app_or in Hin. destruct Hin as [Hin|[Heq|Hin]]; [|symmetry; exact Heq|];
          exfalso; apply Hnot; apply in_or_app; [left|right]; exact Hin. }
      subst e'. apply (Hconc Hw' Hn' Hpe'). }
    unfold clean_edge at 1. cbn [c_s c_want].
    destruct (wt e && negb (es_deps_missing (st_edge s e))
              && forallb (fun i => negb (ns_dirty (nd s i))) (cn_nonoo G0 s e))%bool eqn:Hcond.
    2:{ (* not wanted any more, or an input still carries the flag *)
        apply (IHL (mkC s wt) V U Q Hp Hfuel Hle HL'). apply (Hdrop _ HC). intros Hw _ _. left.
        cbn [c_want] in Hw. rewrite Hw, cE, dm0 in Hcond. cbn [negb andb] in Hcond.
        destruct (forallb_false _ _ Hcond) as [i [Hi Hfi]]. rewrite Hnoo in Hi.
        exists i. split; [exact Hi|]. cbn [c_s]. apply negb_false_iff in Hfi. exact Hfi. }
    apply andb_true_iff in Hcond. destruct Hcond as [Hcond Hall]. apply andb_true_iff in Hcond. destruct Hcond as [Hw _].
    rewrite Hnoo in *. rewrite forallb_forall in Hall.
    assert (Hclean : forall i, In i (nonoo_ins g e) -> Fl (mkC s wt) i = false).
    { intros i Hi. specialize (Hall i Hi). apply negb_true_iff in Hall. exact Hall. }
    destruct (ci_Wm _ _ _ _ _ _ HC e Hw) as [Hws Hk].
    pose proof (wanted_ndd e Hws) as Hn.
    assert (Hpe : pend k e).
    { destruct (phony e) eqn:Hph; [left; split; [exact Hph|intros Hnil; rewrite Hnil in Hnin; destruct Hnin]|].
      right. split; [exact Hph|]. destruct Hk as [Hk|Hk]; [discriminate|exact Hk]. }
    assert (HnV : ~ In e V) by (intros Hin; specialize (Hle e Hin); lia).
    assert (HleV : forall v, In v (e :: V) -> (v <= e)%nat).
    { intros v [<-|Hv]; [lia|]. specialize (Hle v Hv). lia. }
    assert (Hfuel' : (g_nedges g - e <= f)%nat) by lia.
    (* after the outputs have been cleaned: leave the plan, go on with the other out-edges *)
    assert (Hfinish : forall x1, CInv k st x1 (e :: V) (U ++ e :: L) Q -> frame (fun m => ~ In m (outs e)) (mkC s wt) x1 ->
              (forall o, In o (outs e) -> forall z, z < ns_mtime (nd (c_s x1) o) <-> newer_than G0 w z o) ->
              ~ OWNx w e ->
              exists x2, ofold (clean_node G0 w f) (edge_outs G0 e) x1 = Some x2 /\
              exists x', ofold (clean_edge G0 w (clean_node G0 w f)) L (mkC (c_s x2) (unwant (c_want x2) e)) = Some x' /\
                         CInv k st x' V U Q /\ frame (low en) (mkC s wt) x').
    { intros x1 C1 F1 B1 Hnown.
      destruct (outs_loop f IH e (outs e) x1 (e :: V) (U ++ e :: L) Q Hn Hpe (or_introl eq_refl) Hfuel' HleV
                  (fun o Ho => Ho) C1 B1) as [x2 [E2 [C2 [F2 D2]]]].
      exists x2. split; [exact E2|].
      assert (Hc2 : forall i, In i (nonoo_ins g e) -> Fl x2 i = false).
      { intros i Hi. destruct (Fl x2 i) eqn:Hd; [|reflexivity].
        destruct F2 as [_ [F2f _]]. destruct F1 as [_ [F1f _]].
        pose proof (F1f i (F2f i Hd)) as Hx. pose proof (Hclean i Hi) as Hc. cbn [c_s] in Hx, Hc. congruence. }
      pose proof (cinv_prune x2 V (U ++ e :: L) Q e C2 Hn Hpe D2 Hc2 Hnown) as C3.
      set (x3 := mkC (c_s x2) (unwant (c_want x2) e)) in *.
      assert (C3' : CInv k st x3 V (U ++ L) Q).
      { apply (Hdrop x3 C3). intros Hw3 _ _. unfold x3 in Hw3. cbn [c_want] in Hw3. rewrite unwant_same in Hw3. discriminate. }
      destruct (IHL x3 V U Q Hp Hfuel Hle HL' C3') as [x' [E' [C' F']]].
      exists x'. split; [exact E'|]. split; [exact C'|].
      assert (Hlow : forall m, low en m -> ~ In m (outs e) /\ low e m).
      { intros m Hm. unfold low in *. split.
        - intros Hin. rewrite (o_prod g Hwf e m Hin) in Hm. lia.
        - destruct (g_producer g m); [lia|exact I]. }
      assert (F3 : frame (low en) (mkC s wt) x3).
      { apply (frame_trans (low en) (fun m => ~ In m (outs e)) (fun m => ~ In m (outs e) /\ low e m) (mkC s wt) x1 x3);
          [intros m Hm; apply (Hlow m Hm)|intros m Hm; exact (Hlow m Hm)|exact F1|].
        destruct F2 as [A [B [C D]]]. split; [exact A|]. split; [exact B|]. split; [|exact D].
        intros e' He'. unfold x3 in He'. cbn [c_want] in He'. apply C.
        destruct (Nat.eq_dec e' e) as [->|Hne]; [rewrite unwant_same in He'; discriminate|].
        rewrite (unwant_other _ _ _ Hne) in He'. exact He'. }
      apply (frame_trans (low en) (low en) (low en) (mkC s wt) x3 x'); auto. }
    destruct (outputs_dirty_all G0 w e (edge_outs G0 e) (cn_mri s (nonoo_ins g e)) s) as [d s1] eqn:Hod.
    destruct (phony e) eqn:Hph.
    + (* a phony statement: never dirty here, its cached mtimes are brought up to date *)
      assert (Hne : es_ins (st_edge s e) <> []) by (rewrite cE, ins0; intros E; rewrite E in Hnin; destruct Hnin).
      assert (Hd : d = false) by (apply (oda_phony_false G0 w e _ Hph _ _ _ _ Hne Hod)). subst d.
      assert (Hmri : forall m, cn_mri s (nonoo_ins g e) = Some m -> ~ In m (edge_outs G0 e)).
      { intros m Hm. pose proof (proj2 (cn_mri_spec s (nonoo_ins g e)) m Hm) as Hin.
        apply (not_out_of_below g Hwf e e m); [apply (in_below g Htopo e m He (nonoo_in g e m Hin))|lia]. }
      destruct (oda_phony G0 w e _ Hph (edge_outs G0 e) Hmri s false s1 Hod) as [E1 [O1 [DX [_ M1]]]].
      pose proof (cinv_phony_update (mkC s wt) V (U ++ e :: L) Q e s1 HC Hn Hpe HnV Hw Hph E1 O1 DX) as C1.
      destruct (Hfinish (mkC s1 wt) C1) as [x2 [E2 [x' [E' [C' F']]]]].
      * split; [exact E1|]. split; [|split; [auto|intros m Hm; apply O1; exact Hm]].
        intros m Hm. cbn [c_s] in *. rewrite <- (proj1 (DX m)). exact Hm.
      * intros o Ho z. cbn [c_s]. rewrite (M1 eq_refl o Ho).
        apply (phony_B (mkC s wt) V (U ++ e :: L) Q e o HC Hn Hpe HnV Hw Hph Hclean Ho z).
      * intros [Hf _]. congruence.
      * cbn [c_want]. rewrite E2. exists x'. split; [exact E'|]. split; assumption.
    + (* a real statement: RecomputeOutputsDirty decides *)
      assert (Hk' : (k <= e)%nat) by (destruct Hpe as [[Hp' _]|[_ Hk']]; [congruence|exact Hk']).
      assert (Hout : forall o, In o (ei_outs (g_edge G0 e)) ->
                ns_mtime (nd s o) = w_mtime w o /\ ns_exists (nd s o) = ex_of (w_mtime w o)).
      { intros o Ho. change (In o (outs e)) in Ho. pose proof (rel_out e o Hn Ho) as Hr.
        assert (Hm : w_mtime w o = mtime_of st0 o).
        { cbn [world_of w_mtime]. unfold mtime_of.
          rewrite (proj1 (hi_later k st HH o e (o_prod g Hwf e o Ho) Hk')). reflexivity. }
        rewrite Hm. split; [|apply (ci_N1 _ _ _ _ _ _ HC o Hr)].
        apply (ci_N2 _ _ _ _ _ _ HC o Hr). intros e' He'. rewrite (o_prod g Hwf e o Ho) in He'. inversion He'; subst. exact Hph. }
      destruct (own_test_real G0 w e s (nonoo_ins g e) d s1 Hph Hout) as [Es Hiff]; [|exact Hod|].
      { intros i Hi z. apply (ci_B _ _ _ _ _ _ HC i (rel_nonoo e i Hn Hi) (Hclean i Hi) z). }
      subst s1. destruct d.
      * (* still dirty: stays in the plan *)
        apply (IHL (mkC s wt) V U Q Hp Hfuel Hle HL'). apply (Hdrop _ HC). intros _ _ _. right.
        split; [exact Hph|]. apply (proj1 Hiff eq_refl).
      * assert (Hnown : ~ OWNx w e).
        { intros [_ Ho]. assert (false = true) by (apply (proj2 Hiff); exact Ho). discriminate. }
        destruct (Hfinish (mkC s wt)) as [x2 [E2 [x' [E' [C' F']]]]].
        -- apply (cinv_weaken_V (mkC s wt) V (e :: V) (U ++ e :: L) Q); [intros v Hv; right; exact Hv|exact HC].
        -- apply frame_refl.
        -- intros o Ho z. cbn [c_s]. destruct (Hout o Ho) as [Hm _]. rewrite Hm.
           assert (Hnz : w_mtime w o <> 0).
           { intros Hz. apply Hnown. split; [exact Hph|]. exists o. split; [exact Ho|]. left. left. exact Hz. }
           symmetry. apply (newer_file G0 w z o Hnz).
        -- exact Hnown.
        -- cbn [c_want]. rewrite E2. exists x'. split; [exact E'|]. split; assumption.
Qed.


(* Plan::CleanNode keeps the invariant and never runs out of fuel *)
Theorem clean_node_spec : forall f, CN_spec f.
Proof.
  induction f as [|f IHf]; intros n x V U Q en HC Hrel Hp Hfuel Hle HB Hcase.
  - pose proof (Hwg n en Hp). lia.
  - cbn [clean_node].
    pose proof (cinv_clear x V U Q n en HC Hrel Hp HB Hcase) as C1.
    set (x1 := mkC (set_dirty (c_s x) n false) (c_want x)) in *.
    change (set_dirty (c_s x) n false) with (c_s x1).
    destruct (edges_loop f IHf n en (out_edges G0 (c_s x1) n) x1 V U (Qminus Q n) Hp Hfuel Hle) as [x' [E' [C' F']]].
    + intros e He. apply (out_edges_in x1 e n (ci_E _ _ _ _ _ _ C1)). exact He.
    + exact C1.
    + exists x'. split; [exact E'|]. split; [exact C'|]. split.
      * apply (frame_trans _ (fun m => m <> n) (low en) x x1 x'); [intros m [A _]; exact A|intros m [_ B]; exact B| |exact F'].
        apply frame_clear.
      * destruct (Fl x' n) eqn:Hd; [|reflexivity]. destruct F' as [_ [Ff _]]. pose proof (Ff n Hd) as Hx.
        unfold x1 in Hx. cbn [c_s] in Hx. rewrite nd_clear_same in Hx. discriminate.
Qed.

End Cascade.

(* ---- one statement has its turn *)
Lemma hinv_skip k st : HInv k st -> HInv (S k) st.
Proof.
  intros [A B C D E F]. constructor; try assumption. intros n e Hp Hk. apply (E n e Hp). lia.
Qed.

Lemma pend_S k e : pend (S k) e -> pend k e.
Proof. intros [H|[Hp Hk]]; [left; exact H|right; split; [exact Hp|lia]]. Qed.

Lemma cinv_skip k st x : HInv k st -> CInv k st x [] [] noN ->
  c_want x k = false \/ phony k = true -> CInv (S k) st x [] [] noN.
Proof.
  intros HH H Hk. destruct H as [cE cN1 cN2 cN3 cB cL cWm cIP cT1 cT2 cT3 cT4 cP].
  constructor; try assumption.
  - intros e Hw. destruct (cWm e Hw) as [A B]. split; [exact A|].
    destruct B as [B|B]; [left; exact B|].
    destruct (Nat.eq_dec e k) as [->|Hne]; [|right; lia].
    destruct Hk as [Hk|Hk]; [congruence|left; exact Hk].
  - intros e o Hn Hpe. apply (cT1 e o Hn (pend_S k e Hpe)).
  - intros e o Hn Hpe. apply (cT2 e o Hn (pend_S k e Hpe)).
  - intros e Hn Hpe. apply (cT3 e Hn (pend_S k e Hpe)).
  - intros e Hn Hpe. apply (cT4 e Hn (pend_S k e Hpe)).
  - intros e o Hn Hph Hlt Ho. destruct (Nat.eq_dec e k) as [->|Hne]; [|apply (cP e o Hn Hph); [lia|exact Ho]].
    assert (Hw : c_want x k = false) by (destruct Hk as [Hk|Hk]; [exact Hk|congruence]).
    assert (Hpe : pend k k) by (right; split; [exact Hph|lia]).
    pose proof (cT1 k o Hn Hpe Hw Ho) as Hd. split; [intros Hd'; congruence|].
    intros _. apply (proj1 (hi_later k st HH o k (o_prod g Hwf k o Ho) (le_n k))).
Qed.

(* the outputs the command of [k] left untouched *)
Definition Qk (k : nat) (st' : hstate) : node -> Prop :=
  fun o => In o (outs k) /\ h_disk st' o = h_disk st0 o.

Lemma run_inv k st x : (k < g_nedges g)%nat -> HInv k st -> CInv k st x [] [] noN ->
  c_want x k = true -> phony k = false ->
  let st' := run_edge cmd g st k in
  HInv (S k) st' /\ CInv (S k) st' (mkC (c_s x) (unwant (c_want x) k)) [] [] (Qk k st') /\
  (forall o, In o (outs k) -> mtime_of st' o <> 0) /\
  (ei_restat (g_edge g k) = false -> forall o, In o (outs k) -> h_clock st0 < mtime_of st' o).
Proof.
  intros Hk HH HC Hw Hph. cbn zeta.
  pose proof HH as [HG Hh Hc Hleaf Hlater Hfresh].
  destruct HG as [[A [B [C [D E]]]] L].
  destruct (run_edge_spec cmd g st k A B) as [Hh' [Hc' [Hout [Hfs [Hd' [[m [Hm Hlog]] Hnr]]]]]]. cbn zeta in *.
  set (st' := run_edge cmd g st k) in *.
  destruct (ci_Wm _ _ _ _ _ _ HC k Hw) as [Hws _]. pose proof (wanted_ndd k Hws) as Hn.
  assert (Hpk : pend k k) by (right; split; [exact Hph|lia]).
  assert (Hflk : forall o, In o (outs k) -> Fl x o = true).
  { intros o Ho. apply (ci_T2 _ _ _ _ _ _ HC k o Hn Hpk (fun F => F) Hw Ho). }
  assert (HH' : HInv (S k) st').
  { constructor.
    - apply (good_run cmd g Hwf Htopo st k (conj (conj A (conj B (conj C (conj D E)))) L) Hk Hph).
    - congruence.
    - lia.
    - intros n Hp. assert (Hno : ~ In n (outs k)) by (intros Hi; rewrite (o_prod g Hwf k n Hi) in Hp; discriminate).
      rewrite (proj1 (Hout n Hno)). apply (Hleaf n Hp).
    - intros n e Hp Hle. assert (Hno : ~ In n (outs k)) by (intros Hi; rewrite (o_prod g Hwf k n Hi) in Hp; inversion Hp; lia).
      destruct (Hout n Hno) as [E1 [E2 _]]. rewrite E1, E2. apply (Hlater n e Hp). lia.
    - intros n. destruct (Hfs n) as [Hs|[mx [Hx [Hmx _]]]].
      + rewrite Hs. apply Hfresh.
      + right. exists mx. eexists. split; [exact Hx|lia]. }
  split; [exact HH'|].
  (* the flags do not change; the world does, but not under a clean flag *)
  set (Pc := fun m => rel m /\ Fl x m = false).
  assert (Hsame : forall m, ~ In m (outs k) -> w_mtime (W st') m = w_mtime (W st) m /\ w_blog (W st') m = w_blog (W st) m).
  { intros y Hy. cbn [world_of w_mtime w_blog]. unfold mtime_of. destruct (Hout y Hy) as [E1 [E2 _]]. rewrite E1, E2. split; reflexivity. }
  assert (Hpc_no : forall m, Pc m -> ~ In m (outs k)).
  { intros y [_ Hd] Hi. rewrite (Hflk y Hi) in Hd. discriminate. }
  assert (Hpc_cl : forall n e i, Pc n -> g_producer G0 n = Some e -> ei_phony (g_edge G0 e) = true ->
                     In i (nonoo_ins G0 e) -> Pc i).
  { intros n e i [Hr Hd] Hp Hphe Hi. change (g_producer g n = Some e) in Hp. change (phony e = true) in Hphe.
    change (In i (nonoo_ins g e)) in Hi.
    assert (Hne : ndd e) by (unfold rel in Hr; rewrite Hp in Hr; exact Hr).
    split; [apply (rel_nonoo e i Hne Hi)|].
    assert (Hpe : pend k e).
    { left. split; [exact Hphe|]. intros Hnil. pose proof (nonoo_in g e i Hi) as Hx. rewrite Hnil in Hx. destruct Hx. }
    destruct (c_want x e) eqn:Hwe.
    - rewrite (ci_T2 _ _ _ _ _ _ HC e n Hne Hpe (fun F => F) Hwe (p_out g Hwf n e Hp)) in Hd. discriminate.
    - apply (proj1 (ci_T3 _ _ _ _ _ _ HC e Hne Hpe Hwe) i Hi). }
  assert (Hnew1 : forall z n, Pc n -> newer_than G0 (W st) z n -> newer_than G0 (W st') z n).
  { intros z n HP Hnw. apply (newer_agree G0 (W st) (W st') Pc); [| |exact Hnw|exact HP].
    - intros n' HP'. apply (proj1 (Hsame n' (Hpc_no n' HP'))).
    - intros n' e i HP' _. apply (Hpc_cl n' e i HP'). }
  assert (Hnew2 : forall z n, Pc n -> newer_than G0 (W st') z n -> newer_than G0 (W st) z n).
  { intros z n HP Hnw. apply (newer_agree G0 (W st') (W st) Pc); [| |exact Hnw|exact HP].
    - intros n' HP'. symmetry. apply (proj1 (Hsame n' (Hpc_no n' HP'))).
    - intros n' e i HP' _. apply (Hpc_cl n' e i HP'). }
  assert (Hmono : forall z n, newer_than G0 (W st) z n -> newer_than G0 (W st') z n).
  { apply (newer_mono G0 (W st) (W st')).
    - intros n. apply (mtime_le g st n). split; [exact A|split; [exact B|split; [exact C|split; [exact D|exact E]]]].
    - intros n. cbn [world_of w_mtime]. unfold mtime_of. destruct (h_disk st' n) as [[mx c]|] eqn:Hx; [|lia].
      destruct (Hd' n mx c Hx). lia.
    - intros n Hnz. cbn [world_of w_mtime] in *. unfold mtime_of in *. destruct (Hfs n) as [Hs|[mx [Hx [Hmx _]]]].
      + rewrite Hs. lia.
      + rewrite Hx. destruct (h_disk st n) as [[m0 c0]|] eqn:H0; [|contradiction]. destruct (B n m0 c0 H0). lia.
    - intros n e Hz Hp Hphe. change (g_producer g n = Some e) in Hp. change (phony e = true) in Hphe.
      assert (Hno : ~ In n (outs k)) by (intros Hi; rewrite (o_prod g Hwf k n Hi) in Hp; inversion Hp; congruence).
      rewrite (proj1 (Hsame n Hno)). exact Hz. }
  assert (Hout_same : forall e o, e <> k -> In o (outs e) ->
            w_mtime (W st') o = w_mtime (W st) o /\ w_blog (W st') o = w_blog (W st) o).
  { intros e o Hne Ho. apply Hsame. intros Hi. pose proof (o_prod g Hwf e o Ho) as H1. rewrite (o_prod g Hwf k o Hi) in H1. congruence. }
  assert (Hpend_ne : forall e, pend (S k) e -> e <> k).
  { intros e [[Hp _]|[_ Hle]] ->; [congruence|lia]. }
  split; [|split].
  - destruct HC as [cE cN1 cN2 cN3 cB cL cWm cIP cT1 cT2 cT3 cT4 cP].
    constructor; cbn [c_s c_want]; try assumption.
    + intros n Hr Hd z. rewrite (cB n Hr Hd z). split; [apply (Hnew1 z n (conj Hr Hd))|apply (Hnew2 z n (conj Hr Hd))].
    + intros e Hwe. destruct (Nat.eq_dec e k) as [Heq|Hne]; [subst e; rewrite unwant_same in Hwe; discriminate|].
      rewrite (unwant_other _ _ _ Hne) in Hwe. destruct (cWm e Hwe) as [X Y]. split; [exact X|].
      destruct Y as [Y|Y]; [left; exact Y|right; lia].
    + intros e o Hne Hpe Hwe Ho. pose proof (Hpend_ne e Hpe) as Hek. rewrite (unwant_other _ _ _ Hek) in Hwe.
      apply (cT1 e o Hne (pend_S k e Hpe) Hwe Ho).
    + intros e o Hne Hpe Hv Hwe Ho. pose proof (Hpend_ne e Hpe) as Hek. rewrite (unwant_other _ _ _ Hek) in Hwe.
      apply (cT2 e o Hne (pend_S k e Hpe) Hv Hwe Ho).
    + intros e Hne Hpe Hwe. pose proof (Hpend_ne e Hpe) as Hek. rewrite (unwant_other _ _ _ Hek) in Hwe.
      destruct (cT3 e Hne (pend_S k e Hpe) Hwe) as [X Y]. split; [exact X|].
      intros [Hphe [o [Ho Hr]]]. apply Y. split; [exact Hphe|]. exists o. split; [exact Ho|].
      destruct (Hout_same e o Hek Ho) as [E1 E2].
      apply (out_reason_transfer g st0 (W st') (W st)
               (fun z => exists i, In i (nonoo_ins g e) /\ newer_than G0 (W st') z i)
               (fun z => exists i, In i (nonoo_ins g e) /\ newer_than G0 (W st) z i) e o (eq_sym E1) (eq_sym E2)); [|exact Hr].
      intros z [i [Hi Hz]]. exists i. split; [exact Hi|].
      apply (Hnew2 z i (conj (rel_nonoo e i Hne Hi) (X i Hi)) Hz).
    + intros e Hne Hpe Hv Hu Hwe. pose proof (Hpend_ne e Hpe) as Hek. rewrite (unwant_other _ _ _ Hek) in Hwe.
      destruct (cT4 e Hne (pend_S k e Hpe) Hv Hu Hwe) as [X|[Hphe [o [Ho Hr]]]]; [left; exact X|right].
      split; [exact Hphe|]. exists o. split; [exact Ho|]. destruct (Hout_same e o Hek Ho) as [E1 E2].
      apply (out_reason_transfer g st0 (W st) (W st')
               (fun z => exists i, In i (nonoo_ins g e) /\ newer_than G0 (W st) z i)
               (fun z => exists i, In i (nonoo_ins g e) /\ newer_than G0 (W st') z i) e o E1 E2); [|exact Hr].
      intros z [i [Hi Hz]]. exists i. split; [exact Hi|apply (Hmono z i Hz)].
    + intros e o Hne Hphe Hlt Ho. destruct (Nat.eq_dec e k) as [Heq|Hek].
      * subst e. split; [|intros Hd; rewrite (Hflk o Ho) in Hd; discriminate].
        intros _. destruct (Hfs o) as [Hs|[mx [Hx [Hmx _]]]].
        -- left. split; [exact Ho|]. rewrite Hs. apply (proj1 (Hlater o k (o_prod g Hwf k o Ho) (le_n k))).
        -- right. unfold mtime_of. rewrite Hx. lia.
      * assert (Hno : ~ In o (outs k)).
        { intros Hi. pose proof (o_prod g Hwf e o Ho) as H1. rewrite (o_prod g Hwf k o Hi) in H1. congruence. }
        destruct (cP e o Hne Hphe ltac:(lia) Ho) as [X Y]. unfold mtime_of in *. rewrite (proj1 (Hout o Hno)). split.
        -- intros Hd. destruct (X Hd) as [[]|Hf]. right. exact Hf.
        -- exact Y.
  - intros o Ho. destruct (Hlog o Ho) as [_ [_ [mo Hdo]]]. unfold mtime_of. rewrite Hdo. destruct (Hd' o mo _ Hdo). lia.
  - intros Hr o Ho. destruct (Hnr Hr o Ho) as [mo [Hdo Hlt]]. unfold mtime_of. rewrite Hdo. lia.
Qed.

(* the restat loop of FinishCommand *)
Lemma restat_inv k st' x :
  (k < g_nedges g)%nat -> HInv (S k) st' -> ndd k -> phony k = false ->
  (forall o, In o (outs k) -> mtime_of st' o <> 0) ->
  (ei_restat (g_edge g k) = false -> forall o, In o (outs k) -> h_clock st0 < mtime_of st' o) ->
  CInv (S k) st' x [] [] (Qk k st') ->
  exists x', restat_clean (G st') (W st') k x = Some x' /\ CInv (S k) st' x' [] [] noN.
Proof.
  intros Hk HH Hn Hph Hnz Hnr HC. rewrite (G_hash_eq g st0 st' (hi_hash _ _ HH)).
  destruct HG0 as [S0 _].
  assert (Hold : forall o, h_disk st' o = h_disk st0 o -> mtime_of st' o <= h_clock st0).
  { intros o Ho. unfold mtime_of. rewrite Ho. apply (mtime_le g st0 o S0). }
  unfold restat_clean. change (ei_restat (g_edge G0 k)) with (ei_restat (g_edge g k)).
  destruct (ei_restat (g_edge g k)) eqn:Hr.
  2:{ exists x. split; [reflexivity|]. apply (cinv_weaken_Q (S k) st' x [] [] (Qk k st') noN); [|exact HC].
      intros m [Hm Hd]. specialize (Hnr eq_refl m Hm). specialize (Hold m Hd). lia. }
  change (ei_outs (g_edge G0 k)) with (outs k).
  set (Qos := fun (os : list node) (o : node) => In o os /\ h_disk st' o = h_disk st0 o).
  assert (Hloop : forall os y, incl os (outs k) ->
            CInv (S k) st' y [] [] (Qos os) ->
            exists x', ofold (fun o y0 => if Z.eqb (ns_mtime (nd (c_s y0) o)) (w_mtime (W st') o)
                                          then clean_node G0 (W st') (clean_fuel G0) o y0 else Some y0) os y = Some x' /\
                       CInv (S k) st' x' [] [] noN).
  { induction os as [|o os IH]; intros y Hinc Hy.
    - exists y. split; [reflexivity|]. apply (cinv_weaken_Q (S k) st' y [] [] (Qos []) noN); [intros m [[] _]|exact Hy].
    - cbn [ofold]. assert (Ho : In o (outs k)) by (apply Hinc; left; reflexivity).
      pose proof (rel_out k o Hn Ho) as Hrel. pose proof (o_prod g Hwf k o Ho) as Hpo.
      assert (Hc : ns_mtime (nd (c_s y) o) = mtime_of st0 o).
      { apply (ci_N2 _ _ _ _ _ _ Hy o Hrel). intros e' He'. rewrite Hpo in He'. inversion He'; subst. exact Hph. }
      rewrite Hc. cbn [world_of w_mtime].
      destruct (Z.eqb_spec (mtime_of st0 o) (mtime_of st' o)) as [Heq|Hneq].
      + assert (Hsame : h_disk st' o = h_disk st0 o).
        { destruct (hi_fresh _ _ HH o) as [Hs|[mx [c [Hx Hlt]]]]; [exact Hs|].
          exfalso. pose proof (mtime_le g st0 o S0). unfold mtime_of in Heq at 2. rewrite Hx in Heq. lia. }
        destruct (clean_node_spec (S k) st' HH (clean_fuel G0) o y [] [] (Qos (o :: os)) k Hy Hrel Hpo) as [y1 [E1 [C1 _]]].
        * unfold clean_fuel. change (g_nedges G0) with (g_nedges g). lia.
        * intros v [].
        * intros z. rewrite Hc, Heq. symmetry. apply (newer_file G0 (W st') z o). exact (Hnz o Ho).
        * left. split; [split; [left; reflexivity|exact Hsame]|]. split; [exact Hph|]. split; [lia|exact Hsame].
        * rewrite E1. apply (IH y1 (fun o' Ho' => Hinc o' (or_intror Ho'))).
          apply (cinv_weaken_Q (S k) st' y1 [] [] (Qminus (Qos (o :: os)) o) (Qos os)); [|exact C1].
          intros m [[[Hm|Hm] Hd] Hne]; [exfalso; apply Hne; symmetry; exact Hm|split; assumption].
      + apply (IH y (fun o' Ho' => Hinc o' (or_intror Ho'))).
        apply (cinv_weaken_Q (S k) st' y [] [] (Qos (o :: os)) (Qos os)); [|exact Hy].
        intros m [[Hm|Hm] Hd]; [|split; assumption].
        exfalso. subst m. apply Hneq. unfold mtime_of. rewrite Hd. reflexivity. }
  apply (Hloop (outs k) x (incl_refl _)). exact HC.
Qed.

Lemma build_upto_f_S s p k st :
  build_upto_f cmd g s p (S k) st = build_step_f cmd g (build_upto_f cmd g s p k st) k.
Proof. unfold build_upto_f. rewrite seq_S, fold_left_app. reflexivity. Qed.

(* one step of the faithful loop: the statement runs iff it is still wanted (and real) *)
Lemma faithful_step k st x : (k < g_nedges g)%nat -> HInv k st -> CInv k st x [] [] noN ->
  exists x', build_step_f cmd g (Some (st, x)) k =
             Some ((if c_want x k && negb (phony k) then run_edge cmd g st k else st), x') /\
             HInv (S k) (if c_want x k && negb (phony k) then run_edge cmd g st k else st) /\
             CInv (S k) (if c_want x k && negb (phony k) then run_edge cmd g st k else st) x' [] [] noN.
Proof.
  intros Hk HH HC. unfold build_step_f, dirty_now_f.
  destruct (c_want x k && negb (phony k))%bool eqn:Hc.
  - apply andb_true_iff in Hc. destruct Hc as [Hw Hph]. apply negb_true_iff in Hph.
    destruct (run_inv k st x Hk HH HC Hw Hph) as [HH' [HC' [Hnz Hnr]]]. cbn zeta in *.
    destruct (ci_Wm _ _ _ _ _ _ HC k Hw) as [Hws _].
    destruct (restat_inv k (run_edge cmd g st k) _ Hk HH' (wanted_ndd k Hws) Hph Hnz Hnr HC') as [x' [E' C']].
    rewrite E'. exists x'. split; [reflexivity|]. split; assumption.
  - exists x. split; [reflexivity|]. split; [apply hinv_skip; exact HH|].
    apply (cinv_skip k st x HH HC). apply andb_false_iff in Hc. destruct Hc as [Hc|Hc]; [left; exact Hc|].
    right. apply negb_false_iff in Hc. exact Hc.
Qed.

Theorem faithful_inv k : (k <= g_nedges g)%nat ->
  exists st x, build_upto_f cmd g s0 p0 k st0 = Some (st, x) /\ HInv k st /\ CInv k st x [] [] noN.
Proof.
  induction k as [|k IH]; intros Hk.
  - exists st0, (init_cst s0 p0). split; [reflexivity|]. split; [apply hinv_init|apply cinv_init].
  - destruct (IH ltac:(lia)) as [st [x [E [HH HC]]]].
    destruct (faithful_step k st x ltac:(lia) HH HC) as [x' [E' [HH' HC']]].
    rewrite build_upto_f_S, E, E'. eexists. exists x'. split; [reflexivity|]. split; assumption.
Qed.

(* ---- with no input-less phony statement the faithful loop IS HistDefs' loop *)
Section Eq.
Hypothesis Hnip : no_inputless_phony g = true.
Notation stk k := (build_upto cmd g p0 k st0).

(* an input that still carries the flag when the consumer's turn comes is newer than anything
   recorded before this invocation *)
Lemma flag_hot k st x : HInv k st -> CInv k st x [] [] noN ->
  forall e, ndd e -> want_start p0 e = true ->
  forall i, In i (nonoo_ins g e) -> Fl x i = true -> below g k i ->
  forall z, z <= h_clock st0 -> newer_than G0 (W st) z i.
Proof.
  intros HH HC. induction e as [e IH] using lt_wf_ind. intros Hn Hws i Hi Hd Hb z Hz.
  pose proof (ndd_lt e Hn) as He. pose proof (rel_nonoo e i Hn Hi) as Hrel.
  destruct (g_producer g i) as [e'|] eqn:Hpi.
  - assert (Hlt : (e' < e)%nat).
    { pose proof (in_below g Htopo e i He (nonoo_in g e i Hi)) as Hx. unfold below in Hx. rewrite Hpi in Hx. exact Hx. }
    assert (Hk' : (e' < k)%nat) by (unfold below in Hb; rewrite Hpi in Hb; exact Hb).
    assert (Hn' : ndd e') by (unfold rel in Hrel; rewrite Hpi in Hrel; exact Hrel).
    destruct (phony e') eqn:Hph.
    + assert (Hne : ei_ins (g_edge g e') <> []).
      { intros Hnil. apply (nip_edge g e' Hnip (ndd_lt e' Hn')). split; assumption. }
      assert (Hpe : pend k e') by (left; split; assumption).
      assert (Hw : c_want x e' = true).
      { destruct (c_want x e') eqn:Hw; [reflexivity|].
        rewrite (ci_T1 _ _ _ _ _ _ HC e' i Hn' Hpe Hw (p_out g Hwf i e' Hpi)) in Hd. discriminate. }
      destruct (ci_T4 _ _ _ _ _ _ HC e' Hn' Hpe (fun F => F) (fun F => F) Hw) as [[i' [Hi' Hd']]|[Hf _]]; [|congruence].
      apply (nt_phony G0 (W st) z i e' i'); [| exact Hpi|exact Hph|exact Hi'|].
      * destruct (hi_good _ _ HH) as [[_ [_ [_ [D _]]]] _]. cbn [world_of w_mtime]. unfold mtime_of.
        rewrite (D i e' Hpi Hph). reflexivity.
      * apply (IH e' Hlt Hn' (proj1 (ci_Wm _ _ _ _ _ _ HC e' Hw)) i' Hi' Hd'); [|exact Hz].
        apply (below_mono g e' k i'); [lia|]. apply (in_below g Htopo e' i' (ndd_lt e' Hn') (nonoo_in g e' i' Hi')).
    + destruct (proj1 (ci_P _ _ _ _ _ _ HC e' i Hn' Hph Hk' (p_out g Hwf i e' Hpi)) Hd) as [[]|Hf].
      apply nt_file; cbn [world_of w_mtime]; [|lia].
      destruct HG0 as [[A0 _] _]. lia.
  - exfalso.
    destruct (want_sound g Hwf Hwg Hfrag st0 T s0 p0 Hscan e Hws) as [_ Hmd].
    destruct (want_complete g Hwf Hwg Hfrag st0 T s0 p0 Hscan e Hn Hmd (nip_edge g e Hnip He)) as [_ Hl].
    apply (Hl i (nonoo_in g e i Hi) Hpi). apply (ci_L _ _ _ _ _ _ HC i Hrel Hpi). exact Hd.
Qed.

Lemma decision k x : (k < g_nedges g)%nat -> HInv k (stk k) -> CInv k (stk k) x [] [] noN -> phony k = false ->
  c_want x k = (want_start p0 k && dirty_now g (stk k) k)%bool.
Proof.
  intros Hk HH HC Hph. set (st := stk k) in *.
  assert (HGeq : G st = G0) by (apply G_hash_eq; apply (hi_hash _ _ HH)).
  assert (Hpk : pend k k) by (right; split; [exact Hph|lia]).
  destruct (c_want x k) eqn:Hw.
  - destruct (ci_Wm _ _ _ _ _ _ HC k Hw) as [Hws _]. rewrite Hws. cbn [andb]. symmetry.
    pose proof (wanted_ndd k Hws) as Hn.
    assert (Hown : OWNx (W st) k).
    { destruct (ci_T4 _ _ _ _ _ _ HC k Hn Hpk (fun F => F) (fun F => F) Hw) as [[i [Hi Hd]]|Ho]; [|exact Ho].
      split; [exact Hph|]. destruct (ndd_out k Hn) as [o [Ho Hpo]]. exists o. split; [exact Ho|].
      destruct (hi_later _ _ HH o k Hpo (le_n k)) as [Ed Eb].
      destruct HG0 as [[A0 [B0 [C0 [D0 E0]]]] _].
      destruct (h_disk st0 o) as [[mo c]|] eqn:Hd0.
      - destruct (h_blog st0 o) as [[h m]|] eqn:Hb0.
        2:{ exfalso. apply (E0 o k Hpo Hph); [rewrite Hd0; discriminate|exact Hb0]. }
        right. right. cbn [world_of w_blog]. rewrite Eb. exists i. split; [exact Hi|].
        apply (flag_hot k st x HH HC k Hn Hws i Hi Hd (in_below g Htopo k i Hk (nonoo_in g k i Hi))).
        apply (C0 o h m Hb0).
      - left. left. cbn [world_of w_mtime]. unfold mtime_of. rewrite Ed. reflexivity. }
    destruct (own_md (W st) k Hk Hown) as [o [Ho Hmd]].
    unfold dirty_now. rewrite HGeq.
    destruct (scan G0 (W st) (outs k)) as [c|m d|e'| |s p] eqn:Hs; try reflexivity.
    apply existsb_exists. exists o. split; [exact Ho|].
    assert (Hr : reach G0 (outs k) o) by (apply reach_target; exact Ho).
    apply (proj1 (scan_reach_ok G0 (W st) (Gwf0 st0) (Gwg0 st0) (Gfrag0 st0) (outs k) s p Hs o Hr)). exact Hmd.
  - destruct (want_start p0 k) eqn:Hws; [|reflexivity]. cbn [andb]. symmetry.
    pose proof (wanted_ndd k Hws) as Hn.
    destruct (reeval_accepts cmd g Hwf Hwg Hfrag Htopo Hnip st0 T s0 p0 HG0 Hscan k Hk Hws) as [s [p Hs]].
    fold st in Hs. unfold dirty_now. rewrite Hs.
    destruct (existsb (fun o => ns_dirty (nd s o)) (outs k)) eqn:Hex; [exfalso|reflexivity].
    apply existsb_exists in Hex. destruct Hex as [o [Ho Hd]].
    assert (Hr : reach (G st) (outs k) o) by (apply reach_target; exact Ho).
    pose proof (proj1 (proj1 (scan_reach_ok (G st) (W st) (Gwf0 st) (Gwg0 st) (Gfrag0 st) (outs k) s p Hs o Hr)) Hd) as Hmd.
    rewrite HGeq in Hmd.
    destruct (md_cases (W st) k o Hk Ho Hmd) as [[i [Hi Hdi]]|[Hip|Hown]].
    + apply (inputs_clean cmd g Hwf Hwg Hfrag Htopo Hnip st0 T s0 p0 HG0 Hscan k Hk Hn i Hi Hdi).
    + destruct Hip as [Hp' _]. congruence.
    + apply (proj2 (ci_T3 _ _ _ _ _ _ HC k Hn Hpk Hw) Hown).
Qed.

Lemma faithful_eq k : (k <= g_nedges g)%nat ->
  exists x, build_upto_f cmd g s0 p0 k st0 = Some (stk k, x) /\ HInv k (stk k) /\ CInv k (stk k) x [] [] noN.
Proof.
  induction k as [|k IH]; intros Hk.
  - exists (init_cst s0 p0). split; [reflexivity|]. split; [apply hinv_init|apply cinv_init].
  - destruct (IH ltac:(lia)) as [x [E [HH HC]]].
    destruct (faithful_step k (stk k) x ltac:(lia) HH HC) as [x' [E' [HH' HC']]].
    assert (Hsame : (if (c_want x k && negb (phony k))%bool then run_edge cmd g (stk k) k else stk k) = stk (S k)).
    { rewrite build_upto_S. unfold build_step. destruct (phony k) eqn:Hph.
      - rewrite !andb_false_r. reflexivity.
      - rewrite (decision k x ltac:(lia) HH HC Hph). cbn [negb]. rewrite !andb_true_r. reflexivity. }
    rewrite Hsame in *. exists x'. rewrite build_upto_f_S, E, E'. split; [reflexivity|]. split; assumption.
Qed.

End Eq.

(* ---- without that hypothesis: the faithful loop runs a subsequence, the contents agree *)
Section Sub.
Hypothesis Hgen : forall e h h' S o, ei_generator (g_edge g e) = true -> cmd e h S o = cmd e h' S o.
Notation stk k := (build_upto cmd g p0 k st0).

(* the needed real statements below [k] hold the clean contents *)
Definition Bc (k : nat) (st : hstate) : Prop :=
  forall e, (e < k)%nat -> ndd e -> phony e = false -> forall o, In o (outs e) ->
    exists m c, h_disk st o = Some (m, c) /\ clean_of cmd g st0 o = Some c.

Lemma clean_out k o : (k < g_nedges g)%nat -> phony k = false -> In o (outs k) ->
  clean_of cmd g st0 o =
  Some (cmd k (h_hash st0 k) (map (fun i => (i, clean_of cmd g st0 i)) (nonoo_ins g k)) o).
Proof.
  intros Hk Hph Ho. unfold clean_of. rewrite (clean_build_out cmd g Htopo _ _ k o Hk (o_prod g Hwf k o Ho)), Hph. reflexivity.
Qed.

Lemma input_clean k st i : HInv k st -> Bc k st -> (k < g_nedges g)%nat -> ndd k -> In i (nonoo_ins g k) ->
  content_of st i = clean_of cmd g st0 i.
Proof.
  intros HH HB Hk Hn Hi. pose proof (rel_nonoo k i Hn Hi) as Hrel.
  destruct (g_producer g i) as [e'|] eqn:Hpi.
  - pose proof (in_below g Htopo k i Hk (nonoo_in g k i Hi)) as Hlt. unfold below in Hlt. rewrite Hpi in Hlt.
    assert (Hn' : ndd e') by (unfold rel in Hrel; rewrite Hpi in Hrel; exact Hrel).
    destruct (phony e') eqn:Hph'.
    + destruct (hi_good _ _ HH) as [[_ [_ [_ [D _]]]] _]. unfold content_of. rewrite (D i e' Hpi Hph').
      unfold clean_of. rewrite (clean_build_out cmd g Htopo _ _ e' i (ndd_lt e' Hn') Hpi), Hph'. reflexivity.
    + destruct (HB e' Hlt Hn' Hph' i (p_out g Hwf i e' Hpi)) as [mi [ci [Hdi Hci]]].
      unfold content_of. rewrite Hdi, Hci. reflexivity.
  - rewrite (clean_of_leaf cmd g st0 i Hpi). unfold content_of. rewrite (hi_leaf _ _ HH i Hpi). reflexivity.
Qed.

Lemma reads_clean k st : HInv k st -> Bc k st -> (k < g_nedges g)%nat -> ndd k ->
  reads g st k = map (fun i => (i, clean_of cmd g st0 i)) (nonoo_ins g k).
Proof.
  intros HH HB Hk Hn. unfold reads. apply map_ext_in. intros i Hi. f_equal. apply (input_clean k st i HH HB Hk Hn Hi).
Qed.

Lemma bc_run k st : HInv k st -> Bc k st -> (k < g_nedges g)%nat -> ndd k -> phony k = false ->
  Bc (S k) (run_edge cmd g st k).
Proof.
  intros HH HB Hk Hn Hph e He Hne Hphe o Ho.
  destruct (hi_good _ _ HH) as [[A [B _]] _].
  destruct (run_edge_spec cmd g st k A B) as [_ [_ [Hout [_ [_ [[m [_ Hlog]] _]]]]]]. cbn zeta in *.
  destruct (Nat.eq_dec e k) as [->|Hek].
  - destruct (Hlog o Ho) as [_ [_ [mo Hd]]]. exists mo. eexists. split; [exact Hd|].
    rewrite (clean_out k o Hk Hph Ho), (hi_hash _ _ HH), (reads_clean k st HH HB Hk Hn). reflexivity.
  - assert (Hno : ~ In o (outs k)).
    { intros Hi. pose proof (o_prod g Hwf e o Ho) as H1. rewrite (o_prod g Hwf k o Hi) in H1. congruence. }
    rewrite (proj1 (Hout o Hno)). apply (HB e ltac:(lia) Hne Hphe o Ho).
Qed.

(* a statement that does not run: either the scan found it clean, or CleanNode pruned it and the
   log entry vouches for the content (single-statement version of HistProofs.scan_clean_correct,
   from the FLAGS of the inputs) *)
Lemma pruned_clean k st x : HInv k st -> CInv k st x [] [] noN -> Bc k st ->
  (k < g_nedges g)%nat -> ndd k -> phony k = false -> c_want x k = false ->
  forall o, In o (outs k) -> exists m c, h_disk st o = Some (m, c) /\ clean_of cmd g st0 o = Some c.
Proof.
  intros HH HC HB Hk Hn Hph Hw o Ho.
  assert (Hpk : pend k k) by (right; split; [exact Hph|lia]).
  destruct (ci_T3 _ _ _ _ _ _ HC k Hn Hpk Hw) as [Hcl Hnown].
  destruct (hi_good _ _ HH) as [[A [B [C [D E]]]] L].
  pose proof (o_prod g Hwf k o Ho) as Hpo.
  assert (Hnr : ~ out_reason G0 (W st) (fun z => exists i, In i (nonoo_ins g k) /\ newer_than G0 (W st) z i) k o).
  { intros Hr. apply Hnown. split; [exact Hph|]. exists o. split; assumption. }
  destruct (h_disk st o) as [[mo c]|] eqn:Hdo.
  2:{ exfalso. apply Hnr. left. left. cbn [world_of w_mtime]. unfold mtime_of. rewrite Hdo. reflexivity. }
  destruct (h_blog st o) as [[h m]|] eqn:Hbo.
  2:{ exfalso. apply (E o k Hpo Hph); [rewrite Hdo; discriminate|exact Hbo]. }
  destruct (L k o h m mo c Hph Ho Hbo Hdo) as [S [HS [HmS [HcS Hf]]]].
  exists mo, c. split; [reflexivity|]. rewrite (clean_out k o Hk Hph Ho).
  assert (HSeq : S = map (fun i => (i, clean_of cmd g st0 i)) (nonoo_ins g k)).
  { apply snapshot_eq; [exact HmS|]. intros i ci Hi.
    assert (Hin : In i (nonoo_ins g k)) by (rewrite <- HmS; apply (in_map fst S (i, ci) Hi)).
    destruct (Hf i ci Hi) as [F1 F2]. rewrite <- (input_clean k st i HH HB Hk Hn Hin).
    assert (Hfresh : forall mi c', h_disk st i = Some (mi, c') -> ci = Some c').
    { intros mi c' Hdi. apply (F2 mi c' Hdi). destruct (Z_le_gt_dec mi m) as [Hle|Hgt]; [exact Hle|].
      exfalso. apply Hnr. right. right. cbn [world_of w_blog]. rewrite Hbo. exists i. split; [exact Hin|].
      apply nt_file; cbn [world_of w_mtime]; unfold mtime_of; rewrite Hdi; [|lia].
      specialize (B i mi c' Hdi). lia. }
    unfold content_of. destruct (h_disk st i) as [[mi c']|] eqn:Hdi; [apply (Hfresh mi c' eq_refl)|].
    destruct (g_producer g i) as [e'|] eqn:Hpi.
    - destruct (phony e') eqn:Hph'; [apply (F1 e' eq_refl Hph')|].
      exfalso.
      pose proof (in_below g Htopo k i Hk (nonoo_in g k i Hin)) as Hlt. unfold below in Hlt. rewrite Hpi in Hlt.
      pose proof (rel_nonoo k i Hn Hin) as Hrel. unfold rel in Hrel. rewrite Hpi in Hrel.
      destruct (HB e' Hlt Hrel Hph' i (p_out g Hwf i e' Hpi)) as [mi [c' [Hx _]]]. congruence.
    - exfalso. pose proof (rel_nonoo k i Hn Hin) as Hrel.
      pose proof (Hcl i Hin) as Hfl.
      assert (Hz : mtime_of st0 i = 0) by (unfold mtime_of; rewrite <- (hi_leaf _ _ HH i Hpi), Hdi; reflexivity).
      rewrite (proj2 (ci_L _ _ _ _ _ _ HC i Hrel Hpi) Hz) in Hfl. discriminate. }
  rewrite <- HSeq. f_equal. rewrite HcS.
  destruct (ei_generator (g_edge g k)) eqn:Hgn; [apply Hgen; exact Hgn|].
  destruct (N.eq_dec h (h_hash st0 k)) as [->|Hne]; [reflexivity|].
  exfalso. apply Hnr. left. right. cbn [world_of w_blog]. rewrite Hbo. split; [exact Hgn|exact Hne].
Qed.

Lemma bc_skip k st x : HInv k st -> CInv k st x [] [] noN -> Bc k st -> (k < g_nedges g)%nat ->
  c_want x k = false \/ phony k = true -> Bc (S k) st.
Proof.
  intros HH HC HB Hk Hskip e He Hne Hphe o Ho.
  destruct (Nat.eq_dec e k) as [->|Hek]; [|apply (HB e ltac:(lia) Hne Hphe o Ho)].
  assert (Hw : c_want x k = false) by (destruct Hskip as [H|H]; [exact H|congruence]).
  apply (pruned_clean k st x HH HC HB Hk Hne Hphe Hw o Ho).
Qed.

(* the unfaithful run satisfies the same state invariant *)
Lemma hinv_u k : (k <= g_nedges g)%nat -> HInv k (stk k).
Proof.
  intros Hk. destruct (build_inv1 cmd g Hwf Htopo st0 p0 HG0 k Hk) as [HGk [Hh Hf]].
  constructor.
  - exact HGk.
  - exact Hh.
  - apply (clock_mono cmd g Hwf Htopo st0 p0 HG0 k Hk).
  - intros n Hp. apply (frame_leaf g st0 p0 k _ n Hf Hp).
  - intros n e Hp Hle. apply (frame_later g st0 p0 k _ n e Hf Hp Hle).
  - intros n. destruct (frame2 cmd g Hwf Htopo st0 p0 HG0 k Hk n) as [Hs|[e [_ [_ [_ [m [c [Hd [Hlt _]]]]]]]]].
    + left; exact Hs.
    + right. exists m, c. split; assumption.
Qed.

Lemma bc_u k : (k <= g_nedges g)%nat -> Bc k (stk k).
Proof.
  intros Hk e He Hn Hph o Ho.
  apply (build_inv_c01 cmd g Hwf Hwg Hfrag Htopo Hgen st0 T s0 p0 HG0 Hscan k Hk e He Hn Hph o Ho).
Qed.

(* ---- the two runs side by side *)
Definition fresh (st : hstate) (n : node) : Prop := h_clock st0 < mtime_of st n.

Lemma md_dirty_now st k o : h_hash st = h_hash st0 -> In o (outs k) ->
  must_dirty G0 (W st) o -> dirty_now g st k = true.
Proof.
  intros Hh Ho Hmd. unfold dirty_now. rewrite (G_hash_eq g st0 st Hh).
  destruct (scan G0 (W st) (outs k)) as [c|m d|e'| |s p] eqn:Hs; try reflexivity.
  apply existsb_exists. exists o. split; [exact Ho|].
  assert (Hr : reach G0 (outs k) o) by (apply reach_target; exact Ho).
  apply (proj1 (scan_reach_ok G0 (W st) (Gwf0 st0) (Gwg0 st0) (Gfrag0 st0) (outs k) s p Hs o Hr)). exact Hmd.
Qed.

(* what is newer than something recorded before the invocation in the faithful run is so in the other *)
Lemma newer_fu kf ku stf stu : HInv kf stf -> HInv ku stu -> (forall n, fresh stf n -> fresh stu n) ->
  forall z n, z <= h_clock st0 -> newer_than G0 (W stf) z n -> newer_than G0 (W stu) z n.
Proof.
  intros Hf Hu Hr z n Hz H.
  destruct (hi_good _ _ Hu) as [Su _]. destruct HG0 as [S0 _].
  assert (Hpos : forall m, 0 <= mtime_of stu m) by (intros m; apply (mtime_le g stu m Su)).
  induction H as [n Hnz Hlt|n Hzero Hlt|n e i Hzero Hp Hph Hi Hn IH]; cbn [world_of w_mtime] in *.
  - assert (Hcase : mtime_of stu n = mtime_of stf n \/ h_clock st0 < mtime_of stu n).
    { destruct (hi_fresh _ _ Hf n) as [Hs|[m [c [Hd Hm]]]].
      - destruct (hi_fresh _ _ Hu n) as [Hs'|[m' [c' [Hd' Hm']]]].
        + left. unfold mtime_of. rewrite Hs, Hs'. reflexivity.
        + right. unfold mtime_of. rewrite Hd'. exact Hm'.
      - right. apply Hr. unfold fresh, mtime_of. rewrite Hd. exact Hm. }
    pose proof (hi_clock _ _ Hf). destruct S0 as [A0 _].
    apply nt_file; cbn [world_of w_mtime]; destruct Hcase as [Hc|Hc]; lia.
  - destruct (Z.eq_dec (mtime_of stu n) 0) as [E|E]; [apply nt_missing; assumption|].
    specialize (Hpos n). apply nt_file; cbn [world_of w_mtime]; [exact E|lia].
  - apply (nt_phony G0 (W stu) z n e i); [|exact Hp|exact Hph|exact Hi|exact IH].
    destruct Su as [_ [_ [_ [D _]]]]. cbn [world_of w_mtime]. unfold mtime_of. rewrite (D n e Hp Hph). reflexivity.
Qed.

Lemma hot_u k stf x ku stu : HInv k stf -> CInv k stf x [] [] noN -> HInv ku stu ->
  (forall n, fresh stf n -> fresh stu n) ->
  forall e, ndd e -> want_start p0 e = true ->
  forall i, In i (nonoo_ins g e) -> Fl x i = true -> below g k i ->
  must_dirty G0 (W stu) i \/ (forall z, z <= h_clock st0 -> newer_than G0 (W stu) z i).
Proof.
  intros HH HC Hu Hr. induction e as [e IH] using lt_wf_ind. intros Hn Hws i Hi Hd Hb.
  pose proof (ndd_lt e Hn) as He. pose proof (rel_nonoo e i Hn Hi) as Hrel.
  destruct (hi_good _ _ Hu) as [[_ [_ [_ [Du _]]]] _].
  destruct (g_producer g i) as [e'|] eqn:Hpi.
  - assert (Hlt : (e' < e)%nat).
    { pose proof (in_below g Htopo e i He (nonoo_in g e i Hi)) as Hx. unfold below in Hx. rewrite Hpi in Hx. exact Hx. }
    assert (Hk' : (e' < k)%nat) by (unfold below in Hb; rewrite Hpi in Hb; exact Hb).
    assert (Hn' : ndd e') by (unfold rel in Hrel; rewrite Hpi in Hrel; exact Hrel).
    assert (Hzi : phony e' = true -> w_mtime (W stu) i = 0).
    { intros Hph. cbn [world_of w_mtime]. unfold mtime_of. rewrite (Du i e' Hpi Hph). reflexivity. }
    destruct (phony e') eqn:Hph.
    + destruct (ei_ins (g_edge g e')) as [|i0 l0] eqn:Hins.
      * left. apply (md_phony G0 (W stu) i e' i Hpi Hph Hins); [|apply (p_out g Hwf i e' Hpi)|apply Hzi; reflexivity].
        apply (frag_edge g Hfrag e' (ndd_lt e' Hn')).
      * assert (Hpe : pend k e') by (left; split; [exact Hph|rewrite Hins; discriminate]).
        assert (Hw : c_want x e' = true).
        { destruct (c_want x e') eqn:Hw; [reflexivity|].
          rewrite (ci_T1 _ _ _ _ _ _ HC e' i Hn' Hpe Hw (p_out g Hwf i e' Hpi)) in Hd. discriminate. }
        destruct (ci_T4 _ _ _ _ _ _ HC e' Hn' Hpe (fun F => F) (fun F => F) Hw) as [[i' [Hi' Hd']]|[Hf _]]; [|congruence].
        assert (Hb' : below g k i').
        { apply (below_mono g e' k i'); [lia|]. apply (in_below g Htopo e' i' (ndd_lt e' Hn') (nonoo_in g e' i' Hi')). }
        destruct (IH e' Hlt Hn' (proj1 (ci_Wm _ _ _ _ _ _ HC e' Hw)) i' Hi' Hd' Hb') as [Hmd|Hnw].
        -- left. apply (md_input G0 (W stu) i e' i' Hpi); [|exact Hmd].
           rewrite (spec_ins_AB g Hfrag st0 (W stu) e' (ndd_lt e' Hn')). exact Hi'.
        -- right. intros z Hz. apply (nt_phony G0 (W stu) z i e' i' (Hzi eq_refl) Hpi Hph Hi' (Hnw z Hz)).
    + right. intros z Hz.
      destruct (proj1 (ci_P _ _ _ _ _ _ HC e' i Hn' Hph Hk' (p_out g Hwf i e' Hpi)) Hd) as [[]|Hf].
      pose proof (Hr i Hf) as Hfu. unfold fresh in Hfu. destruct HG0 as [[A0 _] _].
      apply nt_file; cbn [world_of w_mtime]; lia.
  - exfalso.
    destruct (want_sound g Hwf Hwg Hfrag st0 T s0 p0 Hscan e Hws) as [_ Hmd].
    destruct (want_complete g Hwf Hwg Hfrag st0 T s0 p0 Hscan e Hn Hmd) as [_ Hl].
    + intros [_ Hnil]. pose proof (nonoo_in g e i Hi) as Hx. rewrite Hnil in Hx. destruct Hx.
    + apply (Hl i (nonoo_in g e i Hi) Hpi). apply (ci_L _ _ _ _ _ _ HC i Hrel Hpi). exact Hd.
Qed.

(* the statement [k] runs in the faithful loop => it runs in HistDefs' loop *)
Lemma sub_decision k stf x : (k < g_nedges g)%nat -> HInv k stf -> CInv k stf x [] [] noN ->
  (forall n, fresh stf n -> fresh (stk k) n) ->
  c_want x k = true -> phony k = false -> ran cmd g p0 st0 k = true.
Proof.
  intros Hk HH HC Hr Hw Hph.
  pose proof (hinv_u k ltac:(lia)) as Hu. set (stu := stk k) in *.
  destruct (ci_Wm _ _ _ _ _ _ HC k Hw) as [Hws _]. pose proof (wanted_ndd k Hws) as Hn.
  assert (Hpk : pend k k) by (right; split; [exact Hph|lia]).
  unfold ran. rewrite Hws, Hph. cbn [negb andb]. fold stu.
  destruct (ndd_out k Hn) as [o0 [Ho0 Hpo0]].
  destruct HG0 as [[A0 [B0 [C0 [D0 E0]]]] _].
  (* an input newer than everything recorded before makes the statement dirty *)
  assert (Hnewer : forall i, In i (nonoo_ins g k) -> (forall z, z <= h_clock st0 -> newer_than G0 (W stu) z i) ->
                   must_dirty G0 (W stu) o0).
  { intros i Hi Hnw. apply (md_self G0 (W stu) o0 k o0 Hpo0 Hph Ho0).
    rewrite (spec_ins_AB g Hfrag st0 (W stu) k Hk).
    destruct (hi_later _ _ Hu o0 k Hpo0 (le_n k)) as [Ed Eb].
    destruct (h_disk st0 o0) as [[mo c]|] eqn:Hd0.
    - destruct (h_blog st0 o0) as [[h m]|] eqn:Hb0.
      2:{ exfalso. apply (E0 o0 k Hpo0 Hph); [rewrite Hd0; discriminate|exact Hb0]. }
      right. right. cbn [world_of w_blog]. rewrite Eb. exists i. split; [exact Hi|]. apply Hnw. apply (C0 o0 h m Hb0).
    - left. left. cbn [world_of w_mtime]. unfold mtime_of. rewrite Ed. reflexivity. }
  destruct (ci_T4 _ _ _ _ _ _ HC k Hn Hpk (fun F => F) (fun F => F) Hw) as [[i [Hi Hd]]|[_ [o [Ho Hro]]]].
  - destruct (hot_u k stf x k stu HH HC Hu Hr k Hn Hws i Hi Hd (in_below g Htopo k i Hk (nonoo_in g k i Hi))) as [Hmd|Hnw].
    + apply (md_dirty_now stu k o0 (hi_hash _ _ Hu) Ho0).
      apply (md_input G0 (W stu) o0 k i Hpo0); [|exact Hmd]. rewrite (spec_ins_AB g Hfrag st0 (W stu) k Hk). exact Hi.
    + apply (md_dirty_now stu k o0 (hi_hash _ _ Hu) Ho0). apply (Hnewer i Hi Hnw).
  - (* dirty for a reason of its own in the faithful run: the same reason holds in the other run *)
    apply (md_dirty_now stu k o (hi_hash _ _ Hu) Ho).
    apply (md_self G0 (W stu) o k o (o_prod g Hwf k o Ho) Hph Ho).
    rewrite (spec_ins_AB g Hfrag st0 (W stu) k Hk).
    destruct (hi_later _ _ HH o k (o_prod g Hwf k o Ho) (le_n k)) as [Edf Ebf].
    destruct (hi_later _ _ Hu o k (o_prod g Hwf k o Ho) (le_n k)) as [Edu Ebu].
    assert (HN : forall z, z <= h_clock st0 ->
              (exists i, In i (nonoo_ins g k) /\ newer_than G0 (W stf) z i) ->
              (exists i, In i (nonoo_ins g k) /\ newer_than G0 (W stu) z i)).
    { intros z Hz [i [Hi Hnw]]. exists i. split; [exact Hi|]. apply (newer_fu k k stf stu HH Hu Hr z i Hz Hnw). }
    unfold out_reason, base_reason, time_reason, used_restat in *.
    cbn [world_of w_mtime w_blog] in *. unfold mtime_of in *. rewrite Edf, Ebf in Hro. rewrite Edu, Ebu.
    destruct Hro as [Hb|[[Hu1 Hx]|Hx]].
    + left. exact Hb.
    + right. left. split; [exact Hu1|]. apply HN; [|exact Hx].
      destruct (h_disk st0 o) as [[mo c]|] eqn:Hd0; [destruct (B0 o mo c Hd0); lia|lia].
    + right. right. destruct (h_blog st0 o) as [[h m]|] eqn:Hb0; [|exact Hx].
      apply HN; [apply (C0 o h m Hb0)|exact Hx].
Qed.

Lemma fresh_run_u k n : (k < g_nedges g)%nat -> fresh (stk k) n -> fresh (run_edge cmd g (stk k) k) n.
Proof.
  intros Hk Hf. pose proof (hinv_u k ltac:(lia)) as Hu. destruct (hi_good _ _ Hu) as [[A [B _]] _].
  destruct (run_edge_spec cmd g (stk k) k A B) as [_ [_ [_ [Hfs _]]]]. cbn zeta in Hfs.
  unfold fresh, mtime_of in *. destruct (Hfs n) as [Hs|[m [Hx [Hm _]]]]; [rewrite Hs; exact Hf|].
  rewrite Hx. pose proof (hi_clock _ _ Hu). lia.
Qed.

Lemma sub_inv k : (k <= g_nedges g)%nat ->
  exists stf x lf lu,
    build_upto_f cmd g s0 p0 k st0 = Some (stf, x) /\ HInv k stf /\ CInv k stf x [] [] noN /\ Bc k stf /\
    (forall n, h_disk stf n = h_disk st0 n \/ exists e, g_producer g n = Some e /\ ndd e) /\
    h_trace stf = lf ++ h_trace st0 /\ h_trace (stk k) = lu ++ h_trace st0 /\ subseq lf lu /\
    (forall n, fresh stf n -> fresh (stk k) n).
Proof.
  induction k as [|k IH]; intros Hk.
  - exists st0, (init_cst s0 p0), [], []. split; [reflexivity|]. split; [apply hinv_init|]. split; [apply cinv_init|].
    split; [intros e He; lia|]. split; [intros n; left; reflexivity|]. split; [reflexivity|]. split; [reflexivity|].
    split; [apply subseq_nil|intros n Hn; exact Hn].
  - destruct (IH ltac:(lia)) as [stf [x [lf [lu [E [HH [HC [HB [Hchg [Etf [Etu [Hsub Hr]]]]]]]]]]]].
    assert (Hk' : (k < g_nedges g)%nat) by lia.
    destruct (faithful_step k stf x Hk' HH HC) as [x' [E' [HH' HC']]].
    rewrite build_upto_f_S, E, E'. rewrite (build_step_ran cmd g p0 st0 k).
    pose proof (hinv_u k ltac:(lia)) as Hu.
    destruct (c_want x k && negb (phony k))%bool eqn:Hrun.
    + (* runs in the faithful loop, hence in the other *)
      apply andb_true_iff in Hrun. destruct Hrun as [Hw Hph]. apply negb_true_iff in Hph.
      rewrite (sub_decision k stf x Hk' HH HC Hr Hw Hph).
      destruct (ci_Wm _ _ _ _ _ _ HC k Hw) as [Hws _]. pose proof (wanted_ndd k Hws) as Hn.
      exists (run_edge cmd g stf k), x', (k :: lf), (k :: lu).
      split; [reflexivity|]. split; [exact HH'|]. split; [exact HC'|].
      split; [apply (bc_run k stf HH HB Hk' Hn Hph)|].
      destruct (hi_good _ _ HH) as [[Af [Bf _]] _]. destruct (hi_good _ _ Hu) as [[Au [Bu _]] _].
      destruct (run_edge_spec cmd g stf k Af Bf) as [_ [_ [Houtf [_ [_ [[mf [_ Hlogf]] _]]]]]].
      destruct (run_edge_spec cmd g (stk k) k Au Bu) as [_ [_ [Houtu [Hfsu [_ [[mu [_ Hlogu]] Hnru]]]]]].
      cbn zeta in *.
      split; [|split; [|split; [|split]]].
      * intros n. destruct (in_dec Nat.eq_dec n (outs k)) as [Hin|Hnin].
        -- right. exists k. split; [apply (o_prod g Hwf k n Hin)|exact Hn].
        -- rewrite (proj1 (Houtf n Hnin)). apply Hchg.
      * rewrite run_edge_trace, Etf. reflexivity.
      * rewrite run_edge_trace, Etu. reflexivity.
      * apply subseq_both. exact Hsub.
      * intros n Hfr. destruct (in_dec Nat.eq_dec n (outs k)) as [Hin|Hnin].
        2:{ unfold fresh, mtime_of in *. rewrite (proj1 (Houtf n Hnin)) in Hfr. rewrite (proj1 (Houtu n Hnin)).
            apply (Hr n Hfr). }
        pose proof (o_prod g Hwf k n Hin) as Hpn.
        destruct (hi_later _ _ HH n k Hpn (le_n k)) as [Edf _]. destruct (hi_later _ _ Hu n k Hpn (le_n k)) as [Edu _].
        pose proof (hi_clock _ _ Hu) as Hcu.
        destruct (Hfsu n) as [Hs|[m [Hx [Hm _]]]].
        2:{ unfold fresh, mtime_of. rewrite Hx. lia. }
        exfalso. destruct HG0 as [S0 _].
        destruct (run_edge_changed cmd g stf k n) as [Hsf|[_ [m [c [Hdm [_ Hrs]]]]]].
        -- unfold fresh, mtime_of in Hfr. rewrite Hsf, Edf in Hfr. pose proof (mtime_le g st0 n S0) as Hle.
           unfold mtime_of in Hle. lia.
        -- destruct (ei_restat (g_edge g k)) eqn:Hre.
           ++ destruct (Hlogf n Hin) as [_ [_ [mo Hdo]]]. rewrite Hdo in Hdm. inversion Hdm; subst m c.
              destruct (Hlogu n Hin) as [_ [_ [mo' Hdo']]]. rewrite Hs in Hdo'.
              apply (Hrs eq_refl). unfold content_of. rewrite Edf, <- Edu, Hdo'.
              rewrite (hi_hash _ _ HH), (hi_hash _ _ Hu).
              rewrite (reads_clean k stf HH HB Hk' Hn), (reads_clean k (stk k) Hu (bc_u k ltac:(lia)) Hk' Hn). reflexivity.
           ++ destruct (Hnru eq_refl n Hin) as [mo' [Hdo' Hlt']]. rewrite Hs in Hdo'.
              pose proof (mtime_le g st0 n S0) as Hle. unfold mtime_of in Hle. rewrite <- Edu, Hdo' in Hle. lia.
    + (* does not run in the faithful loop *)
      assert (Hskip : c_want x k = false \/ phony k = true).
      { apply andb_false_iff in Hrun. destruct Hrun as [H|H]; [left; exact H|right; apply negb_false_iff in H; exact H]. }
      destruct (ran cmd g p0 st0 k) eqn:Hru.
      * exists stf, x', lf, (k :: lu). split; [reflexivity|]. split; [exact HH'|]. split; [exact HC'|].
        split; [apply (bc_skip k stf x HH HC HB Hk' Hskip)|]. split; [exact Hchg|]. split; [exact Etf|].
        split; [rewrite run_edge_trace, Etu; reflexivity|]. split; [apply subseq_right; exact Hsub|].
        intros n Hfr. apply (fresh_run_u k n Hk' (Hr n Hfr)).
      * exists stf, x', lf, lu. split; [reflexivity|]. split; [exact HH'|]. split; [exact HC'|].
        split; [apply (bc_skip k stf x HH HC HB Hk' Hskip)|]. split; [exact Hchg|]. split; [exact Etf|].
        split; [exact Etu|]. split; [exact Hsub|exact Hr].
Qed.

Lemma sub_final :
  exists stf x lf lu,
    build_upto_f cmd g s0 p0 (g_nedges g) st0 = Some (stf, x) /\
    h_trace stf = lf ++ h_trace st0 /\ h_trace (stk (g_nedges g)) = lu ++ h_trace st0 /\ subseq lf lu /\
    forall n, content_of stf n = content_of (stk (g_nedges g)) n.
Proof.
  destruct (sub_inv (g_nedges g) (le_n _)) as [stf [x [lf [lu [E [HH [_ [HB [Hchg [Etf [Etu [Hsub _]]]]]]]]]]]].
  exists stf, x, lf, lu. split; [exact E|]. split; [exact Etf|]. split; [exact Etu|]. split; [exact Hsub|].
  pose proof (hinv_u (g_nedges g) (le_n _)) as Hu. pose proof (bc_u (g_nedges g) (le_n _)) as HBu.
  destruct (build_inv1 cmd g Hwf Htopo st0 p0 HG0 (g_nedges g) (le_n _)) as [_ [_ Hfr]].
  intros n. unfold content_of.
  assert (Hboth : forall e, g_producer g n = Some e -> ndd e ->
            match h_disk stf n with Some (_, c) => Some c | None => None end =
            match h_disk (stk (g_nedges g)) n with Some (_, c) => Some c | None => None end).
  { intros e Hp Hn. destruct (phony e) eqn:Hph.
    - destruct (hi_good _ _ HH) as [[_ [_ [_ [Df _]]]] _]. destruct (hi_good _ _ Hu) as [[_ [_ [_ [Du _]]]] _].
      rewrite (Df n e Hp Hph), (Du n e Hp Hph). reflexivity.
    - destruct (HB e (ndd_lt e Hn) Hn Hph n (p_out g Hwf n e Hp)) as [m [c [Hd Hc]]].
      destruct (HBu e (ndd_lt e Hn) Hn Hph n (p_out g Hwf n e Hp)) as [m' [c' [Hd' Hc']]].
      rewrite Hd, Hd'. congruence. }
  destruct (Hchg n) as [Hsf|[e [Hp Hn]]]; [|apply (Hboth e Hp Hn)].
  destruct (Hfr n) as [[Hsu _]|[e [Hp [_ [Hw _]]]]]; [rewrite Hsf, Hsu; reflexivity|].
  apply (Hboth e Hp (wanted_ndd e Hw)).
Qed.

End Sub.

End Build.
(* ================================================================== Part T: the theorems *)
(* CleanNode never runs out of fuel: an accepted scan is a finished faithful build *)
Theorem build_f_never_out_of_fuel st T s p :
  Good cmd g st -> scan (G st) (W st) T = ScanOk s p -> exists st', build_f cmd g st T = Some st'.
Proof.
  intros HG Hs. unfold build_f. rewrite Hs.
  destruct (faithful_inv st T s p HG Hs (g_nedges g) (le_n _)) as [st' [x [E _]]]. rewrite E. exists st'. reflexivity.
Qed.

(* (1) without an input-less phony statement the faithful loop and HistDefs.build are the same
   function on states satisfying the invariant: same resulting state, hence same trace *)
Theorem build_f_eq_build st T :
  Good cmd g st -> no_inputless_phony g = true -> build_f cmd g st T = build cmd g st T.
Proof.
  intros HG Hnip. unfold build_f, build.
  destruct (scan (G st) (W st) T) as [c|m d|e| |s p] eqn:Hs; try reflexivity.
  destruct (faithful_eq st T s p HG Hs Hnip (g_nedges g) (le_n _)) as [x [E _]]. rewrite E. reflexivity.
Qed.

Lemma apply_step_f_eq st x :
  Good cmd g st -> no_inputless_phony g = true -> apply_step_f cmd g st x = apply_step cmd g st x.
Proof.
  intros HG Hnip. destruct x as [n c|n|e h|T]; try reflexivity.
  cbn [apply_step_f apply_step]. rewrite (build_f_eq_build st T HG Hnip). reflexivity.
Qed.

Theorem run_hist_f_eq : forall h st,
  Good cmd g st -> no_inputless_phony g = true -> hist_ok g h = true ->
  run_hist_f cmd g st h = run_hist cmd g st h.
Proof.
  induction h as [|x h IH]; intros st HG Hnip Hok; [reflexivity|].
  cbn [hist_ok forallb] in Hok. apply andb_true_iff in Hok. destruct Hok as [Hx Hh].
  change (run_hist_f cmd g st (x :: h)) with (run_hist_f cmd g (apply_step_f cmd g st x) h).
  change (run_hist cmd g st (x :: h)) with (run_hist cmd g (apply_step cmd g st x) h).
  rewrite (apply_step_f_eq st x HG Hnip). apply IH; [|exact Hnip|exact Hh].
  apply (good_step cmd g Hwf Htopo st x HG Hx).
Qed.

(* hence C01 / C02 hold verbatim for the faithful loop *)
Theorem C01_history_f h T st' :
  (forall e h1 h2 S o, ei_generator (g_edge g e) = true -> cmd e h1 S o = cmd e h2 S o) ->
  hist_ok g h = true -> no_inputless_phony g = true ->
  build_f cmd g (run_hist_f cmd g (init_hstate g) h) T = Some st' ->
  forall n, reach g T n -> content_of st' n = clean_of cmd g st' n.
Proof.
  intros Hgen Hok Hnip Hb.
  pose proof (good_hist cmd g Hwf Htopo h _ (good_init cmd g) Hok) as HG.
  rewrite (run_hist_f_eq h _ (good_init cmd g) Hnip Hok) in Hb.
  rewrite (build_f_eq_build _ T HG Hnip) in Hb.
  apply (C01_history cmd g Hwf Hwg Hfrag Htopo Hgen h T st' Hok Hb).
Qed.

Theorem C02_second_build_idle_f st T st' :
  Good cmd g st -> no_inputless_phony g = true -> build_f cmd g st T = Some st' ->
  build_f cmd g st' T = Some st'.
Proof.
  intros HG Hnip Hb. rewrite (build_f_eq_build st T HG Hnip) in Hb.
  pose proof (logsound_build cmd g Hwf Htopo st T st' HG Hb) as HG'.
  rewrite (build_f_eq_build st' T HG' Hnip).
  apply (C02_second_build_idle cmd g Hwf Hwg Hfrag Htopo st T st' HG Hnip Hb).
Qed.

(* (2) WITHOUT the hypothesis about input-less phony statements: both loops accept the same
   requests; the commands the faithful loop runs are a subsequence of those HistDefs.build runs
   (the ghost traces, most recent first, relative to the common start); and every node ends with
   the same content -- "the model re-runs a superset, the contents agree" *)
Theorem build_f_trace_subset st T :
  (forall e h1 h2 S o, ei_generator (g_edge g e) = true -> cmd e h1 S o = cmd e h2 S o) ->
  Good cmd g st ->
  (build_f cmd g st T = None <-> build cmd g st T = None) /\
  forall stf stu, build_f cmd g st T = Some stf -> build cmd g st T = Some stu ->
    (exists lf lu, h_trace stf = lf ++ h_trace st /\ h_trace stu = lu ++ h_trace st /\ subseq lf lu) /\
    (forall n, content_of stf n = content_of stu n).
Proof.
  intros Hgen HG. unfold build_f, build.
  destruct (scan (G st) (W st) T) as [c|m d|e| |s p] eqn:Hs; try (split; [tauto|intros stf stu H; discriminate]).
  destruct (sub_final st T s p HG Hs Hgen) as [stf [x [lf [lu [E [Etf [Etu [Hsub Hc]]]]]]]].
  rewrite E. split; [split; discriminate|].
  intros stf' stu' Hf Hu. inversion Hf; subst stf'. inversion Hu; subst stu'.
  split; [exists lf, lu; split; [exact Etf|split; [exact Etu|exact Hsub]]|exact Hc].
Qed.

End Faith.

(* ================================================================== the pinned deviation, faithful *)
(* HistRun.ExAlwaysRestat (found by tools/histmodel.py) under the concrete command function:
   HistDefs.build runs [gen] and [out] in the second invocation, [build_f] runs [gen] only, like ninja *)
Example faithful_ExAlwaysRestat :
  let g := ExAlwaysRestat.g in
  let st1 := run_hist_f (hcmd g) g (init_hstate g) [Edit 0 1; Build [3%nat]] in
  let st2 := apply_step_f (hcmd g) g st1 (Build [3%nat]) in
  st1 = run_hist (hcmd g) g (init_hstate g) [Edit 0 1; Build [3%nat]] /\
  HistRun.trace_delta (init_hstate g) st1 = [1; 2]%nat /\
  HistRun.trace_delta st1 st2 = [1%nat] /\
  HistRun.trace_delta st1 (apply_step (hcmd g) g st1 (Build [3%nat])) = [1; 2]%nat /\
  forallb (is_clean g st2) (seq 0 4) = true.
Proof. vm_compute. repeat split; reflexivity. Qed.


(* the example graph of HistFaithful.ExF is a model of the premises (all but no_inputless_phony) *)
Lemma ExF_wf_spec : wf_spec ExF.g.
Proof.
  split; [|split].
  - intros e o Ho. destruct e as [|[|[|e]]]; cbn in Ho; try (destruct Ho as [<-|[]]; reflexivity); destruct Ho.
  - intros n e Hp. destruct n as [|[|[|[|n]]]]; cbn in Hp; try discriminate; inversion Hp; subst; cbn; left; reflexivity.
  - intros e Hd. exfalso. apply Hd. destruct e as [|[|[|e]]]; reflexivity.
Qed.

Lemma ExF_wf_graph : wf_graph ExF.g.
Proof.
  intros n e Hp. destruct n as [|[|[|[|n]]]]; cbn in Hp; try discriminate; inversion Hp; subst; cbn; lia.
Qed.

Lemma ExF_gen : forall e h h' S o,
  ei_generator (g_edge ExF.g e) = true -> Ex.cmd e h S o = Ex.cmd e h' S o.
Proof. intros e h h' S o H. destruct e as [|[|[|e]]]; cbn in H; discriminate. Qed.
