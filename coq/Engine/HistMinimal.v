(* C03 "rebuilds are minimal: only what a change affects is re-run" at HISTORY level, in the model of
   HistDefs.v and for its fragment AB (explicit / implicit / order-only inputs, several outputs,
   phony, restat, generator; no depfile / deps / dyndep / validations, no failing commands).
   Definitions and proofs; restated in Properties/Properties_C03hist.v.  No axioms, nothing admitted.

   Setting of the theorems: [st] is a state with [Good st] in which the targets [T] are CONVERGED
   ([Converged g st T]: ScanDefs.scan accepts and wants nothing -- what C02 proves of the state after
   a successful build, [converged_after_build_proof]); then a stretch [h] of history WITHOUT an
   invocation ([nobuild h]: source edits, file removals, command-line changes; [hist_ok]: edits hit
   sources only) leads to [st1 = run_hist st h]; [build st1 T = Some st2]; the commands executed are
   [trace_delta st1 st2] (the new front of the ghost trace, [trace_delta_spec]).  The property's
   "one change" is the case [h = [x]] ([C03_after_edit_proof], [C03_after_setcmd_proof],
   [C03_after_delete_proof]).  Ninja decides by mtime, so "changed" is [touched a b n]: the mtime of
   [n] differs between [a] and [b]; [C03_rewritten_proof] translates "touched by the build" into
   "written by a statement that ran, fresh tick, and -- restat -- with a different content".
   A statement's explicit and implicit inputs are taken THROUGH phony statements ([eff_in]): the
   output of a phony statement is never a file and ninja looks at the phony statement's own
   non-order-only inputs instead (Node::UpdatePhonyMtime, [newer_than]'s nt_phony).
   Premises about the graph: wf_spec, wf_graph, frag_AB, topo_ordered, no_inputless_phony (the
   documented always-dirty case, as for C02).  The command function is arbitrary.

   Theorems (all full, Qed, closed under the global context):
     C03_runs_only_if_affected_proof  a command runs only if (a) its command line differs from the
                                      converged one and it is no generator, or (b) one of its
                                      effective non-order-only inputs was touched by the change or
                                      rewritten by this build, or (c) one of its outputs is missing;
                                      and it is needed by the targets and is no phony statement.
     C03_after_edit_proof / C03_after_setcmd_proof / C03_after_delete_proof   the one-change forms.
     C03_rewritten_proof              touched by the build => its statement ran, fresh tick, restat
                                      => content changed.
     C03_order_only_alone_proof       no effective non-order-only input touched or rewritten (whatever
                                      happens to the order-only inputs) => not run.
     C03_order_only_path_proof        after one source edit a command runs only if the source reaches
                                      it through non-order-only inputs ALL THE WAY.
     C03_restat_cutoff_proof          inputs that are unmodified files whose statement, if it ran, is
                                      a restat statement that left the content as it was => not run.
     C03_generator_cmdline_proof      SetCmd on a generator rule: the build is accepted, runs nothing
                                      and changes nothing (uses ScanProofs.must_dirty_generator_hash_indep).
     C03_unneeded_not_run_proof       (any state) what runs is needed by the targets, in the graph,
                                      not phony.
     C03_history_proof                the main theorem after any hist_ok history from the empty tree.
     reeval_accepts                   sanity of the model: [dirty_now]'s fallback "scan refused =
                                      dirty" is unreachable for the statements of an accepted plan.
     C03_content_based_refuted_proof  clause (b) read with CONTENT instead of mtime is FALSE of the
                                      model (as of ninja: rewriting a source with the same content
                                      re-runs its consumers); documented behaviour, not a finding.
   Module ExMin: a project with a restat statement, an order-only input, a phony group, a generator
   rule and an unneeded statement; the trace deltas after one change, by vm_compute.

   Part S': refusals of the scan: [scan_missing_sound] (a "missing and no known rule" refusal comes
            with a chain of non-ready statements from a target down to a missing source) and
            [chain_not_missing] (an accepted scan has looked at every such chain).
   Part H': [trace_delta], [ran], the frame of one invocation ([frame2], [later_untouched]),
            [ran_reason] (why a statement runs, relative to the converged reference state), and the
            theorems. *)
From NinjaV Require Import Engine.CrashDefs.
From NinjaV Require Import Base.Bytes Engine.ScanDefs Engine.ScanSpec Engine.ScanProofs Engine.HistDefs Engine.HistProofs.
Local Open Scope nat_scope.

(* ================================================================== Part S': refusals of the scan *)
Section ScanMissing.
Variable g : graph.
Variable w : world.
Hypothesis Hwf : wf_spec g.
Hypothesis Hwg : wf_graph g.
Hypothesis Hfrag : frag_AB g = true.
Hypothesis Htopo : topo_ordered g = true.

Notation mark_of s e := (es_mark (st_edge s e)).
Notation ready s e := (es_ready (st_edge s e)).
Notation nd s n := (st_node s n).

(* [e'] is [e] or a statement [e] depends on through inputs of every kind *)
Inductive deps : edge -> edge -> Prop :=
| deps_refl e : deps e e
| deps_step e i e1 e' :
    In i (ei_ins (g_edge g e)) -> g_producer g i = Some e1 -> deps e1 e' -> deps e e'.

(* outputs_ready_ = false, declaratively: something below must be remade *)
Definition unready (e : edge) : Prop :=
  exists e' o, deps e e' /\ In o (ei_outs (g_edge g e')) /\ must_dirty g w o.

Lemma done_out_dirty s e o :
  SInv g w s -> mark_of s e = VisitDone -> In o (ei_outs (g_edge g e)) ->
  (ns_dirty (nd s o) = true <-> must_dirty g w o).
Proof.
  intros [S1 _] Hd Ho. apply (S1 o). unfold node_final. rewrite (out_prod g Hwf e o Ho). exact Hd.
Qed.

Lemma topo_lt e i e1 :
  e < g_nedges g -> In i (ei_ins (g_edge g e)) -> g_producer g i = Some e1 -> e1 < e.
Proof.
  intros He Hi Hp. pose proof (edges_all_spec g _ e Htopo He) as H. cbn beta in H.
  rewrite forallb_forall in H. specialize (H i Hi). rewrite Hp in H. apply Nat.ltb_lt. exact H.
Qed.

Lemma notready_unready s : SInv g w s -> RI g s ->
  forall e, e < g_nedges g -> mark_of s e = VisitDone -> ready s e = false -> unready e.
Proof.
  intros HS HR. induction e as [e IH] using lt_wf_ind. intros He Hd Hr.
  destruct (HR e Hd) as [_ [Ifin [_ [_ Iun]]]].
  destruct (Iun Hr) as [[o [Ho Hdo]]|[i [e1 [Hi [Hp Hr1]]]]].
  - exists e, o. split; [apply deps_refl|]. split; [exact Ho|].
    apply (done_out_dirty s e o HS Hd Ho). exact Hdo.
  - pose proof (Ifin i Hi) as Fi. unfold node_final in Fi. rewrite Hp in Fi.
    destruct (IH e1 (topo_lt e i e1 He Hi Hp) (Hwg i e1 Hp) Fi Hr1) as [e' [o [Hde [Ho Hmd]]]].
    exists e', o. split; [apply (deps_step e i e1 e' Hi Hp Hde)|]. split; assumption.
Qed.

Lemma unready_notready s : SInv g w s -> RI g s -> no_inputless_phony g = true ->
  forall e e', deps e e' -> e < g_nedges g -> mark_of s e = VisitDone ->
  (exists o, In o (ei_outs (g_edge g e')) /\ must_dirty g w o) -> ready s e = false.
Proof.
  intros HS HR Hnip e e' Hd.
  induction Hd as [e|e i e1 e' Hi Hp Hd IH]; intros He Hm [o [Ho Hmd]].
  - destruct (HR e Hm) as [_ [_ [_ [Idirty _]]]].
    destruct (Idirty o Ho (proj2 (done_out_dirty s e o HS Hm Ho) Hmd)) as [Hph|Hr]; [|exact Hr].
    exfalso. apply (nip_edge g e Hnip He). exact Hph.
  - destruct (HR e Hm) as [_ [Ifin [Irdy _]]].
    pose proof (Ifin i Hi) as Fi. unfold node_final in Fi. rewrite Hp in Fi.
    apply (Irdy i e1 Hi Hp). apply (IH (Hwg i e1 Hp) Fi). exists o. split; assumption.
Qed.

(* a chain  n -> input of a [U]-statement -> ... -> m  (what Plan::AddSubTarget walks) *)
Inductive wch (U : edge -> Prop) : node -> node -> Prop :=
| wch_refl n : wch U n n
| wch_step n e y m :
    g_producer g n = Some e -> U e -> In y (ei_ins (g_edge g e)) -> wch U y m -> wch U n m.

Lemma ast_loop_missing (visit : node -> plan -> ast_res) : forall ins q m d q',
  ast_loop visit ins q = Some (false, Some (m, d), q') ->
  exists i q1 q2, In i ins /\ visit i q1 = Some (false, Some (m, d), q2).
Proof.
  induction ins as [|i ins IH]; intros q m d q' H; cbn [ast_loop] in H; [discriminate|].
  destruct (visit i q) as [[[b err] qi]|] eqn:Hv; [|discriminate].
  destruct b.
  - destruct (IH qi m d q' H) as [j [q1 [q2 [Hj Hq]]]].
    exists j, q1, q2. split; [right; exact Hj|exact Hq].
  - destruct err as [er|].
    + injection H as Her Hq. subst er qi. exists i, q, q'. split; [left; reflexivity|exact Hv].
    + destruct (IH qi m d q' H) as [j [q1 [q2 [Hj Hq]]]].
      exists j, q1, q2. split; [right; exact Hj|exact Hq].
Qed.

(* Plan::AddSubTarget says "missing and no known rule" only for a missing source at the end of a
   chain of non-ready statements *)
Lemma ast_missing s : SInv g w s -> RI g s -> forall f dep n p m d p',
  add_sub_target g f s dep n p = Some (false, Some (m, d), p') -> node_final g s n ->
  wch unready n m /\ g_producer g m = None /\ w_mtime w m = 0%Z.
Proof.
  intros HS HR. induction f as [|f IH]; intros dep n p m d p' H Fn; [discriminate|].
  cbn [add_sub_target] in H.
  destruct (g_producer g n) as [e|] eqn:Hp.
  - destruct (es_ready (st_edge s e)) eqn:Hr; [discriminate|].
    unfold node_final in Fn. rewrite Hp in Fn.
    destruct (p_want p e) as [v|] eqn:Wp; cbn [negb] in H; [discriminate|].
    destruct (HR e Fn) as [Iins [Ifin _]]. rewrite Iins in H.
    destruct (ast_loop_missing _ _ _ _ _ _ H) as [i [q1 [q2 [Hi Hv]]]].
    destruct (IH (Some n) i q1 m d q2 Hv (Ifin i Hi)) as [Hc [Hpm Hz]].
    split; [|split; assumption].
    apply (wch_step unready n e i m Hp); [|exact Hi|exact Hc].
    apply (notready_unready s HS HR e (Hwg n e Hp) Fn Hr).
  - destruct (ns_dirty (st_node s n) && negb (g_byloader g n))%bool eqn:Hd; [|discriminate].
    injection H as Hm Hdep Hpp. subst m. split; [apply wch_refl|]. split; [exact Hp|].
    apply andb_true_iff in Hd. destruct Hd as [Hd _].
    destruct HS as [S1 _]. apply (proj1 (S1 n Fn)) in Hd. apply (must_dirty_leaf_inv g w n Hd Hp).
Qed.

Lemma add_targets_missing T : forall rest s p m d,
  incl rest T -> add_targets g w s p rest = ScanMissing m d ->
  SInv g w s -> RI g s -> PI g T s noX p ->
  exists t, In t rest /\ wch unready t m /\ g_producer g m = None /\ w_mtime w m = 0%Z.
Proof.
  induction rest as [|t rest IH]; intros s p m d Hinc H HS HR HP; cbn [add_targets] in H; [discriminate|].
  assert (Ht : In t T) by (apply Hinc; left; reflexivity).
  destruct (builder_add_target g w s p t) as [c|m0 d0|e| |s1 p1] eqn:Hb; try discriminate.
  2:{ destruct (bat_GI g w Hwf Hwg Hfrag T s p t s1 p1 Ht Hb HS HR HP) as [HS1 [HR1 [_ [_ [HP1 _]]]]].
      destruct (IH s1 p1 m d (fun x Hx => Hinc x (or_intror Hx)) H HS1 HR1 HP1) as [t' [Ht' R]].
      exists t'. split; [right; exact Ht'|exact R]. }
  injection H as Hm Hd. subst m0 d0.
  unfold builder_add_target in Hb.
  destruct (recompute_dirty g w s t) as [[s1 vn]|c|e|] eqn:Hrd; try discriminate.
  unfold recompute_dirty in Hrd.
  destruct (loop_all g w Hwf Hwg Hfrag _ _ _ _ _ _ Hrd HS HR) as [HS1 [HR1 [V1 [F1 Hvn]]]]. subst vn.
  specialize (F1 t (or_introl eq_refl)).
  exists t. split; [left; reflexivity|].
  cbv zeta in Hb.
  destruct (match g_producer g t with Some e => negb (es_ready (st_edge s1 e)) | None => true end) eqn:Hneed.
  - unfold plan_add_target in Hb.
    destruct (add_sub_target g (plan_fuel g) s1 None t p) as [[[b err] pa]|] eqn:Ha; [|discriminate].
    destruct b; [cbn [add_validation_targets] in Hb; discriminate|].
    destruct err as [[m1 d1]|]; [|discriminate].
    injection Hb as Hm Hd. subst m1 d1.
    apply (ast_missing s1 HS1 HR1 _ _ _ _ _ _ _ Ha F1).
  - cbn [add_validation_targets] in Hb. discriminate.
Qed.

(* a refusal "missing and no known rule" of the whole scan *)
Theorem scan_missing_sound T m d : scan g w T = ScanMissing m d ->
  exists t, In t T /\ wch unready t m /\ g_producer g m = None /\ w_mtime w m = 0%Z.
Proof.
  intros H. apply (add_targets_missing T T (init_state g) init_plan m d (incl_refl T) H
                     (SInv_init g w) (RI_init g) (PI_init g T)).
Qed.

(* an accepted scan has walked every chain of non-ready statements that starts at a node it put
   into the plan: no source at the end of such a chain is missing *)
Lemma chain_not_missing T s p (U : edge -> Prop) :
  scan g w T = ScanOk s p ->
  (forall e, U e -> e < g_nedges g -> mark_of s e = VisitDone -> ready s e = true -> False) ->
  forall n m, wch U n m -> node_final g s n -> post g s n p ->
  (g_producer g n = None -> g_byloader g n = false) ->
  g_producer g m = None -> w_mtime w m = 0%Z -> False.
Proof.
  intros Hs HU.
  destruct (accepted_facts g w Hwf Hwg Hfrag T s p Hs) as [[S1 _] [HR [[P0 [P1 [P2 P3]]] HT]]].
  intros n m Hc. induction Hc as [n|n e y m Hp Hu Hy Hc IH]; intros Fn Pn Hbl Hpm Hz.
  - unfold post in Pn. rewrite Hpm in Pn. rewrite (Hbl Hpm) in Pn. cbn [negb] in Pn.
    rewrite andb_true_r in Pn.
    assert (Hd : ns_dirty (nd s n) = true) by (apply (proj1 (S1 n Fn)); apply md_leaf; assumption).
    congruence.
  - pose proof (Hwg n e Hp) as He. unfold node_final in Fn. rewrite Hp in Fn.
    destruct (ready s e) eqn:Hr; [exact (HU e Hu He Fn Hr)|].
    unfold post in Pn. rewrite Hp in Pn. destruct (Pn Hr) as [Hw _].
    destruct (HR e Fn) as [_ [Ifin _]].
    apply IH; [apply Ifin; exact Hy|apply (P3 e Hw (fun F => F) y Hy)| |exact Hpm|exact Hz].
    intros _. apply (proj2 (proj2 (frag_edge g Hfrag e He)) y Hy).
Qed.

End ScanMissing.

(* ================================================================== Part H': one invocation *)
Local Open Scope Z_scope.

(* the commands executed between two states: the new front of the ghost trace, newest first *)
Definition trace_delta (st st' : hstate) : list edge :=
  firstn (length (h_trace st') - length (h_trace st)) (h_trace st').

Lemma trace_delta_app st st' d : h_trace st' = d ++ h_trace st -> trace_delta st st' = d.
Proof.
  intros H. unfold trace_delta. rewrite H, app_length.
  replace (length d + length (h_trace st) - length (h_trace st))%nat with (length d + 0)%nat by lia.
  rewrite firstn_app_2. cbn [firstn]. apply app_nil_r.
Qed.

(* a stretch of history without an invocation of ninja *)
Definition nobuild (h : list hstep) : bool :=
  forallb (fun x => match x with Build _ => false | _ => true end) h.

(* the file's mtime differs (written, created or removed in between) *)
Definition touched (st st' : hstate) (n : node) : Prop := mtime_of st' n <> mtime_of st n.

Section Minimal.
Variable cmd : edge -> N -> snapshot -> node -> content.
Variable g : graph.
Hypothesis Hwf : wf_spec g.
Hypothesis Hwg : wf_graph g.
Hypothesis Hfrag : frag_AB g = true.
Hypothesis Htopo : topo_ordered g = true.
Hypothesis Hnip : no_inputless_phony g = true.

Notation G st := (graph_of g st).
Notation W st := (world_of st).
Notation outs e := (ei_outs (g_edge g e)).
Notation phony e := (ei_phony (g_edge g e)).

(* [j] is what ninja looks at for input [i]: [i] itself, or -- [i] being the output of a phony
   statement, never a file -- a non-order-only input of that statement, and so on
   (Node::UpdatePhonyMtime / [newer_than]'s nt_phony) *)
Inductive thru : node -> node -> Prop :=
| thru_refl i : thru i i
| thru_cons i p i' j :
    g_producer g i = Some p -> phony p = true -> In i' (nonoo_ins g p) -> thru i' j -> thru i j.

(* the explicit and implicit inputs of [e], looking through phony statements *)
Definition eff_in (e : edge) (j : node) : Prop := exists i, In i (nonoo_ins g e) /\ thru i j.

(* the scan of [T] is accepted and wants nothing (what C02 establishes after a successful build) *)
Definition Converged (st : hstate) (T : list node) : Prop :=
  exists s p, scan (G st) (W st) T = ScanOk s p /\ forall e, p_want p e <> Some WantToStart.

(* statement [k] is executed by the invocation with plan [p] started in [st0] *)
Definition ran (p : plan) (st0 : hstate) (k : nat) : bool :=
  want_start p k && negb (phony k) && dirty_now g (build_upto cmd g p k st0) k.

Lemma Gwg' st : wf_graph (G st).
Proof. exact Hwg. Qed.
Lemma Gfrag' st : frag_AB (G st) = true.
Proof. exact Hfrag. Qed.
Lemma Gtopo' st : topo_ordered (G st) = true.
Proof. exact Htopo. Qed.
Lemma Gnip' st : no_inputless_phony (G st) = true.
Proof. exact Hnip. Qed.
Lemma Gwf' st : wf_spec (G st).
Proof. exact Hwf. Qed.

(* ---- the trace *)
Lemma build_step_ran p st0 k :
  build_upto cmd g p (S k) st0 =
  if ran p st0 k then run_edge cmd g (build_upto cmd g p k st0) k else build_upto cmd g p k st0.
Proof. rewrite build_upto_S. reflexivity. Qed.

Lemma run_edge_trace st e : h_trace (run_edge cmd g st e) = e :: h_trace st.
Proof.
  unfold run_edge, finish_run, record. cbn [h_trace]. f_equal.
  destruct (write_outs_spec (ei_restat (g_edge g e)) (cmd e (h_hash st e) (reads g st e)) (outs e) (tick st))
    as [_ [_ [_ [Tr _]]]].
  cbn zeta in Tr. rewrite Tr. reflexivity.
Qed.

Lemma trace_upto p st0 k :
  h_trace (build_upto cmd g p k st0) = rev (filter (ran p st0) (seq 0 k)) ++ h_trace st0.
Proof.
  induction k as [|k IH]; [reflexivity|].
  rewrite build_step_ran, seq_S, filter_app, rev_app_distr. cbn [filter plus].
  destruct (ran p st0 k).
  - rewrite run_edge_trace, IH. reflexivity.
  - rewrite IH. reflexivity.
Qed.

Lemma in_delta p st0 n e :
  In e (trace_delta st0 (build_upto cmd g p n st0)) <-> (e < n)%nat /\ ran p st0 e = true.
Proof.
  rewrite (trace_delta_app st0 _ _ (trace_upto p st0 n)). rewrite <- in_rev, filter_In, in_seq.
  split; intros [A B]; (split; [lia|exact B]).
Qed.

Lemma build_inv st T st' : build cmd g st T = Some st' ->
  exists s p, scan (G st) (W st) T = ScanOk s p /\ st' = build_upto cmd g p (g_nedges g) st.
Proof.
  unfold build. destruct (scan (G st) (W st) T) as [c|m d|e| |s p]; try discriminate.
  intros H. injection H as H. exists s, p. split; [reflexivity|symmetry; exact H].
Qed.

(* ---- what a command writes *)
Lemma content_same st o c : content_of st o = Some c -> same_content (h_disk st o) c = true.
Proof.
  unfold content_of, same_content. destruct (h_disk st o) as [[m c']|]; [|discriminate].
  intros H. injection H as H. subst c'. apply N.eqb_refl.
Qed.

Lemma write_outs_changed restat f : forall os st n,
  let st' := write_outs restat f os st in
  h_disk st' n = h_disk st n \/
  (In n os /\ exists m, h_disk st' n = Some (m, f n) /\ h_clock st < m /\
                        (restat = true -> content_of st n <> Some (f n))).
Proof.
  induction os as [|o os IH]; intros st n; cbn zeta; [left; reflexivity|].
  change (write_outs restat f (o :: os) st) with (write_outs restat f os (write_out restat f st o)).
  specialize (IH (write_out restat f st o) n). cbn zeta in IH.
  unfold write_out in *.
  destruct (restat && same_content (h_disk st o) (f o))%bool eqn:Hc.
  - destruct IH as [IH|[Hin R]]; [left; exact IH|right; split; [right; exact Hin|exact R]].
  - assert (Hne : restat = true -> content_of st o <> Some (f o)).
    { intros Hr Hco. rewrite Hr, (content_same st o (f o) Hco) in Hc. discriminate. }
    set (st1 := write_file st o (f o)) in *.
    assert (Hd1 : forall x, x <> o -> h_disk st1 x = h_disk st x) by (intros x Hx; apply upd_other; exact Hx).
    assert (Ho1 : h_disk st1 o = Some (h_clock st + 1, f o)) by apply upd_same.
    assert (Hc1 : h_clock st1 = h_clock st + 1) by reflexivity.
    destruct (Nat.eq_dec n o) as [->|Hno].
    + right. split; [left; reflexivity|].
      destruct IH as [IH|[Hin [m [Hm [Hlt Hr]]]]].
      * exists (h_clock st + 1). rewrite IH. split; [exact Ho1|]. split; [lia|exact Hne].
      * exists m. split; [exact Hm|]. split; [lia|]. intros Hrs. exfalso. apply (Hr Hrs).
        unfold content_of. rewrite Ho1. reflexivity.
    + destruct IH as [IH|[Hin [m [Hm [Hlt Hr]]]]].
      * left. rewrite IH. apply Hd1. exact Hno.
      * right. split; [right; exact Hin|]. exists m. split; [exact Hm|]. split; [lia|].
        intros Hrs. specialize (Hr Hrs). unfold content_of in *. rewrite (Hd1 n Hno) in Hr. exact Hr.
Qed.

Lemma run_edge_changed st e n :
  h_disk (run_edge cmd g st e) n = h_disk st n \/
  (In n (outs e) /\ exists m c, h_disk (run_edge cmd g st e) n = Some (m, c) /\ h_clock st < m /\
                                (ei_restat (g_edge g e) = true -> content_of st n <> Some c)).
Proof.
  unfold run_edge, finish_run, record. cbn [h_disk].
  destruct (write_outs_changed (ei_restat (g_edge g e)) (cmd e (h_hash st e) (reads g st e)) (outs e) (tick st) n)
    as [H|[Hin [m [Hm [Hlt Hr]]]]]; cbn zeta in *.
  - left. exact H.
  - right. split; [exact Hin|]. exists m. eexists. split; [exact Hm|]. split; [cbn [tick h_clock] in Hlt; lia|exact Hr].
Qed.

(* ---- phony look-through *)
Lemma thru_below k i j : (k <= g_nedges g)%nat -> thru i j -> below g k i -> below g k j.
Proof.
  intros Hk H. induction H as [i|i p i' j Hp Hph Hi Ht IH]; intros Hb; [exact Hb|].
  apply IH. unfold below in Hb. rewrite Hp in Hb.
  apply (below_mono g p k i'); [lia|]. apply (in_below g Htopo p i'); [lia|apply nonoo_in; exact Hi].
Qed.

Lemma eff_in_below e j : (e < g_nedges g)%nat -> eff_in e j -> below g e j.
Proof.
  intros He [i [Hi Ht]]. apply (thru_below e i j); [lia|exact Ht|].
  apply (in_below g Htopo e i He). apply nonoo_in. exact Hi.
Qed.

Lemma newer_G a b w x n : newer_than (G a) w x n -> newer_than (G b) w x n.
Proof.
  intros H. induction H as [n Hnz Hlt|n Hz Hlt|n e i Hz Hp Hph Hi Hn IH].
  - apply nt_file; assumption.
  - apply nt_missing; assumption.
  - apply (nt_phony (G b) w x n e i Hz Hp Hph Hi IH).
Qed.

(* an input that is newer in [w'] and was not in [w]: some file ninja looks at for it has another mtime *)
Lemma newer_diff a w w' x : forall i,
  newer_than (G a) w' x i -> ~ newer_than (G a) w x i ->
  exists j, thru i j /\ w_mtime w' j <> w_mtime w j.
Proof.
  intros i H. induction H as [n Hnz Hlt|n Hz Hlt|n e i Hz Hp Hph Hi Hn IH]; intros Hnot.
  - destruct (Z.eq_dec (w_mtime w' n) (w_mtime w n)) as [Heq|Hne]; [|exists n; split; [apply thru_refl|exact Hne]].
    exfalso. apply Hnot. rewrite Heq in *. apply nt_file; assumption.
  - destruct (Z.eq_dec (w_mtime w' n) (w_mtime w n)) as [Heq|Hne]; [|exists n; split; [apply thru_refl|exact Hne]].
    exfalso. apply Hnot. rewrite Heq in *. apply nt_missing; assumption.
  - destruct (Z.eq_dec (w_mtime w' n) (w_mtime w n)) as [Heq|Hne]; [|exists n; split; [apply thru_refl|exact Hne]].
    rewrite Heq in Hz.
    destruct IH as [j [Ht Hj]].
    + intros Hn'. apply Hnot. apply (nt_phony (G a) w x n e i Hz Hp Hph Hi Hn').
    + exists j. split; [|exact Hj]. apply (thru_cons n e i j Hp Hph Hi Ht).
Qed.

(* ---- what [Converged] means declaratively *)
Lemma conv_clean st T : Converged st T ->
  forall e, needed g T e -> forall o, In o (outs e) -> ~ must_dirty (G st) (W st) o.
Proof.
  intros [s [p [Hs Hw]]] e Hn o Ho Hmd.
  assert (He : (e < g_nedges g)%nat) by (destruct Hn as [n [_ Hp]]; apply (Hwg n e Hp)).
  destruct (scan_want_complete (G st) (W st) (Gwf' st) (Gwg' st) (Gfrag' st) T s p Hs e
              (proj2 (needed_G g T st e) Hn) (ex_intro _ o (conj Ho Hmd)) (nip_edge g e Hnip He)) as [Hws _].
  exact (Hw e Hws).
Qed.

Lemma conv_leaf st T : Converged st T ->
  forall t, In t T -> g_producer g t = None -> mtime_of st t <> 0 \/ g_byloader g t = true.
Proof.
  intros [s [p [Hs _]]] t Ht Hp.
  apply (scan_leaf_targets (G st) (W st) (Gwf' st) (Gwg' st) (Gfrag' st) T s p Hs t Ht Hp).
Qed.

Lemma md_old st e o i : (e < g_nedges g)%nat -> In o (outs e) -> phony e = false ->
  used_restat (G st) (W st) e o = false -> In i (nonoo_ins g e) ->
  newer_than (G st) (W st) (mtime_of st o) i -> must_dirty (G st) (W st) o.
Proof.
  intros He Ho Hph Hu Hi Hn. apply (md_self (G st) (W st) o e o (o_prod g Hwf e o Ho) Hph Ho).
  right. left. split; [exact Hu|]. exists i. split; [|exact Hn].
  rewrite (spec_ins_AB g Hfrag st (W st) e He). exact Hi.
Qed.


(* ---- one accepted invocation *)
Section Build.
Variables (st0 : hstate) (T : list node) (s0 : sstate) (p0 : plan).
Hypothesis HG0 : Good cmd g st0.
Hypothesis Hscan : scan (G st0) (W st0) T = ScanOk s0 p0.
Notation stk k := (build_upto cmd g p0 k st0).

Lemma inv1 k : (k <= g_nedges g)%nat ->
  Good cmd g (stk k) /\ h_hash (stk k) = h_hash st0 /\ Frame g st0 p0 k (stk k).
Proof. apply (build_inv1 cmd g Hwf Htopo st0 p0 HG0 k). Qed.

Lemma clock_mono k : (k <= g_nedges g)%nat -> h_clock st0 <= h_clock (stk k).
Proof.
  induction k as [|k IH]; intros Hk; [apply Z.le_refl|].
  rewrite build_step_ran. specialize (IH ltac:(lia)). destruct (ran p0 st0 k); [|exact IH].
  destruct (inv1 k ltac:(lia)) as [[[A [B _]] _] _].
  destruct (run_edge_spec cmd g (stk k) k A B) as [_ [Hc _]]. cbn zeta in Hc. lia.
Qed.

(* a file that differs from the start of the invocation was written by a statement that ran: fresh
   tick, and for a restat rule a content different from the one it had *)
Lemma frame2 k : (k <= g_nedges g)%nat -> forall n,
  h_disk (stk k) n = h_disk st0 n \/
  exists e, g_producer g n = Some e /\ (e < k)%nat /\ ran p0 st0 e = true /\
    exists m c, h_disk (stk k) n = Some (m, c) /\ h_clock st0 < m /\
                (ei_restat (g_edge g e) = true -> content_of st0 n <> Some c).
Proof.
  induction k as [|k IH]; intros Hk n; [left; reflexivity|].
  specialize (IH ltac:(lia) n). rewrite build_step_ran. destruct (ran p0 st0 k) eqn:Hr.
  - destruct (run_edge_changed (stk k) k n) as [Hs|[Hin [m [c [Hm [Hlt Hrs]]]]]].
    + rewrite Hs. destruct IH as [IH|[e [Hp [He R]]]]; [left; exact IH|].
      right. exists e. split; [exact Hp|]. split; [lia|exact R].
    + right. exists k. split; [apply (o_prod g Hwf k n Hin)|]. split; [lia|]. split; [exact Hr|].
      exists m, c. split; [exact Hm|]. pose proof (clock_mono k ltac:(lia)) as Hcm. split; [lia|].
      destruct (inv1 k ltac:(lia)) as [_ [_ Hf]].
      destruct (frame_later g st0 p0 k (stk k) n k Hf (o_prod g Hwf k n Hin) (le_n k)) as [Ed _].
      intros Hre. specialize (Hrs Hre). unfold content_of in *. rewrite Ed in Hrs. exact Hrs.
  - destruct IH as [IH|[e [Hp [He R]]]]; [left; exact IH|].
    right. exists e. split; [exact Hp|]. split; [lia|exact R].
Qed.

(* the later statements do not touch what lies below *)
Lemma later_untouched k k' n : (k <= k')%nat -> (k' <= g_nedges g)%nat -> below g k n ->
  h_disk (stk k') n = h_disk (stk k) n.
Proof.
  intros Hle. induction Hle as [|k' Hle IH]; intros Hk' Hb; [reflexivity|].
  rewrite build_step_ran. specialize (IH ltac:(lia) Hb). destruct (ran p0 st0 k'); [|exact IH].
  destruct (inv1 k' ltac:(lia)) as [[[A [B _]] _] _].
  destruct (run_edge_spec cmd g (stk k') k' A B) as [_ [_ [Hout _]]]. cbn zeta in Hout.
  rewrite (proj1 (Hout n (not_out_of_below g Hwf k k' n Hb Hle))). exact IH.
Qed.

(* the re-evaluation scan of a statement of the plan is accepted *)
Lemma reeval_accepts k : (k < g_nedges g)%nat -> want_start p0 k = true ->
  exists s p, scan (G (stk k)) (W (stk k)) (outs k) = ScanOk s p.
Proof.
  intros Hk Hw. destruct (inv1 k ltac:(lia)) as [HGk [Hh Hf]].
  rewrite (G_hash_eq g st0 (stk k) Hh).
  destruct (accepted_facts (G st0) (W st0) (Gwf' st0) (Gwg' st0) (Gfrag' st0) T s0 p0 Hscan)
    as [HS0 [HR0 [[P0 [P1 [P2 P3]]] HT]]].
  apply want_start_iff in Hw.
  assert (Hwd : wantd p0 k) by (unfold wantd; rewrite Hw; discriminate).
  destruct (P1 k Hwd) as [Hdone _].
  destruct (scan (G st0) (W (stk k)) (outs k)) as [c|m d|e| |s p] eqn:H.
  - exfalso. apply (C17_no_false_positive (G st0) (W (stk k)) (outs k)
                      (topo_acyclic (G st0) (W (stk k)) (Gwg' st0) (Gfrag' st0) (Gtopo' st0)) c H).
  - exfalso.
    destruct (scan_missing_sound (G st0) (W (stk k)) (Gwf' st0) (Gwg' st0) (Gfrag' st0) (Gtopo' st0) (outs k) m d H)
      as [t [Ht [Hc [Hpm Hz]]]].
    assert (Hpt : g_producer g t = Some k) by (apply (o_prod g Hwf k t Ht)).
    apply (chain_not_missing (G st0) (W st0) (Gwf' st0) (Gwg' st0) (Gfrag' st0) T s0 p0
             (unready (G st0) (W (stk k))) Hscan) with (n := t) (m := m).
    + intros e [e' [o [Hde [Ho Hmd]]]] He Hm Hr.
      apply (clean_stable g Hwf Hwg Hfrag st0 (W st0) (W (stk k))
               (frame_clean g Hwf Hwg Hfrag st0 T s0 p0 Hscan k (stk k) Hf) o Hmd).
      intros Hmd0.
      pose proof (unready_notready (G st0) (W st0) (Gwf' st0) (Gwg' st0) s0 HS0 HR0 (Gnip' st0)
                    e e' Hde He Hm (ex_intro _ o (conj Ho Hmd0))) as Hr'.
      congruence.
    + exact Hc.
    + unfold node_final. change (g_producer (G st0) t) with (g_producer g t). rewrite Hpt. exact Hdone.
    + unfold post. change (g_producer (G st0) t) with (g_producer g t). rewrite Hpt.
      intros _. split; [exact Hwd|intros _; exact Hw].
    + change (g_producer (G st0) t) with (g_producer g t). rewrite Hpt. discriminate.
    + exact Hpm.
    + change (g_producer (G st0) m) with (g_producer g m) in Hpm.
      cbn [world_of w_mtime] in *. unfold mtime_of in *.
      rewrite <- (frame_leaf g st0 p0 k (stk k) m Hf Hpm). exact Hz.
  - exfalso. unfold scan in H.
    apply (add_targets_no_loaderr (G st0) (W (stk k)) (Gwf' st0) (Gwg' st0) (Gfrag' st0) (outs k)
             (init_state (G st0)) init_plan e H (SInv_init (G st0) (W (stk k)))).
  - exfalso. apply (scan_fuel_sufficient (G st0) (W (stk k)) (Gwg' st0) (outs k) H).
  - exists s, p. reflexivity.
Qed.

(* ... so [dirty_now] = true really means that ScanDefs judges an output out of date *)
Lemma dirty_now_md k : (k < g_nedges g)%nat -> want_start p0 k = true ->
  dirty_now g (stk k) k = true -> exists o, In o (outs k) /\ must_dirty (G st0) (W (stk k)) o.
Proof.
  intros Hk Hw Hdn. destruct (inv1 k ltac:(lia)) as [_ [Hh _]].
  destruct (reeval_accepts k Hk Hw) as [s [p Hs]].
  unfold dirty_now in Hdn. rewrite Hs in Hdn. apply existsb_exists in Hdn. destruct Hdn as [o [Ho Hd]].
  exists o. split; [exact Ho|].
  assert (Hr : reach (G (stk k)) (outs k) o) by (apply reach_target; exact Ho).
  pose proof (scan_reach_ok (G (stk k)) (W (stk k)) (Gwf' _) (Gwg' _) (Gfrag' _) (outs k) s p Hs o Hr) as [Hok _].
  rewrite <- (G_hash_eq g st0 (stk k) Hh). apply Hok. exact Hd.
Qed.

(* when the turn of a needed statement comes, its non-order-only inputs are up to date *)
Lemma inputs_clean k : (k < g_nedges g)%nat -> needed g T k ->
  forall i, In i (nonoo_ins g k) -> ~ must_dirty (G st0) (W (stk k)) i.
Proof.
  intros Hk [n [Rn Hpn]] i Hi Hmd. destruct (inv1 k ltac:(lia)) as [_ [_ Hf]].
  destruct (g_producer g i) as [e'|] eqn:Hpi.
  - pose proof (in_below g Htopo k i Hk (nonoo_in g k i Hi)) as Hlt. unfold below in Hlt. rewrite Hpi in Hlt.
    assert (Hn' : needed g T e').
    { exists i. split; [|exact Hpi]. apply (reach_step g (manifest_ins g) T n i Rn).
      exists k. split; [exact Hpn|apply nonoo_in; exact Hi]. }
    apply (build_inv_c02 cmd g Hwf Hwg Hfrag Htopo st0 T s0 p0 HG0 Hscan k Hnip ltac:(lia) e' Hlt Hn' i
             (p_out g Hwf i e' Hpi) Hmd).
  - pose proof (must_dirty_leaf_inv (G st0) (W (stk k)) i Hmd Hpi) as Hz.
    cbn [world_of w_mtime] in Hz. unfold mtime_of in Hz. rewrite (frame_leaf g st0 p0 k (stk k) i Hf Hpi) in Hz.
    assert (Hmd0 : must_dirty (G st0) (W st0) n).
    { apply (md_input (G st0) (W st0) n k i Hpn).
      - rewrite (spec_ins_AB g Hfrag st0 (W st0) k Hk). exact Hi.
      - apply md_leaf; [exact Hpi|exact Hz]. }
    destruct (want_complete g Hwf Hwg Hfrag st0 T s0 p0 Hscan k (ex_intro _ n (conj Rn Hpn))
                (ex_intro _ n (conj (p_out g Hwf n k Hpn) Hmd0)) (nip_edge g k Hnip Hk)) as [_ Hl].
    apply (Hl i (nonoo_in g k i Hi) Hpi). unfold mtime_of. exact Hz.
Qed.

(* ---- why a statement runs, relative to a reference state [st] in which everything the targets
   need was up to date, and from which [st0] differs by source edits, deletions and command lines *)
Section Ref.
Variable st : hstate.
Hypothesis HSr : StateOk g st.
Hypothesis Hconv : forall e, needed g T e -> forall o, In o (outs e) -> ~ must_dirty (G st) (W st) o.
Hypothesis Hblog : forall n, h_blog st0 n = h_blog st n.
Hypothesis Hdisk : forall n e, g_producer g n = Some e -> h_disk st0 n = h_disk st n \/ h_disk st0 n = None.

Lemma ran_reason k : (k < g_nedges g)%nat -> ran p0 st0 k = true ->
  needed g T k /\ phony k = false /\
  ((ei_generator (g_edge g k) = false /\ h_hash st0 k <> h_hash st k) \/
   (exists j, eff_in k j /\ mtime_of (stk k) j <> mtime_of st j) \/
   (exists o, In o (outs k) /\ h_disk st0 o = None)).
Proof.
  intros Hk Hr. unfold ran in Hr. apply andb_true_iff in Hr. destruct Hr as [Hr Hdn].
  apply andb_true_iff in Hr. destruct Hr as [Hw Hph]. apply negb_true_iff in Hph.
  destruct (want_sound g Hwf Hwg Hfrag st0 T s0 p0 Hscan k Hw) as [Hn _].
  split; [exact Hn|]. split; [exact Hph|].
  destruct (dirty_now_md k Hk Hw Hdn) as [o [Ho Hmd]].
  destruct (inv1 k ltac:(lia)) as [HGk [Hh Hf]].
  destruct HSr as [A [B [C [D E]]]].
  destruct (must_dirty_out_inv (G st0) (W (stk k)) o k Hmd (o_prod g Hwf k o Ho))
    as [[i [Hi Hdi]]|[[Hp _]|[[_ [o' [Ho' Hre]]]|Hl]]].
  - exfalso. rewrite (spec_ins_AB g Hfrag st0 (W (stk k)) k Hk) in Hi.
    apply (inputs_clean k Hk Hn i Hi Hdi).
  - change (phony k = true) in Hp. congruence.
  - change (In o' (outs k)) in Ho'.
    destruct (frame_later g st0 p0 k (stk k) o' k Hf (o_prod g Hwf k o' Ho') (le_n k)) as [Ed Eb].
    destruct (h_disk st0 o') as [[mo c]|] eqn:Hd0; [|right; right; exists o'; split; [exact Ho'|exact Hd0]].
    assert (Hds : h_disk st o' = Some (mo, c)).
    { destruct (Hdisk o' k (o_prod g Hwf k o' Ho')) as [H1|H1]; [rewrite <- H1; exact Hd0|].
      rewrite Hd0 in H1. discriminate. }
    destruct (h_blog st o') as [[h m]|] eqn:Hb.
    2:{ exfalso. apply (E o' k (o_prod g Hwf k o' Ho') Hph); [rewrite Hds; discriminate|exact Hb]. }
    pose proof (Hconv k Hn o' Ho') as Hc.
    assert (Hmt : mtime_of st o' = mo) by (unfold mtime_of; rewrite Hds; reflexivity).
    assert (HN : forall x, (exists i, In i (spec_ins (G st0) (W (stk k)) k) /\ newer_than (G st0) (W (stk k)) x i) ->
                (forall i, In i (nonoo_ins g k) -> ~ newer_than (G st) (W st) x i) ->
                exists j, eff_in k j /\ mtime_of (stk k) j <> mtime_of st j).
    { intros x [i [Hi Hnw]] Hnot. rewrite (spec_ins_AB g Hfrag st0 (W (stk k)) k Hk) in Hi.
      destruct (newer_diff st0 (W st) (W (stk k)) x i Hnw) as [j [Ht Hj]].
      - intros Hn'. apply (Hnot i Hi). apply (newer_G st0 st (W st) x i Hn').
      - exists j. split; [exists i; split; assumption|exact Hj]. }
    unfold out_reason, base_reason, time_reason, used_restat in Hre.
    cbn [world_of w_mtime w_blog] in Hre. unfold mtime_of in Hre. rewrite Eb, Hblog, Hb, Ed in Hre.
    destruct Hre as [[Hz|[Hgn Hneq]]|[[Hu Hx]|Hx]].
    + exfalso. specialize (B o' mo c Hds). lia.
    + left. split; [exact Hgn|].
      cbn [graph_of g_edge set_hash ei_hash] in Hneq. intros Heq. apply Hc.
      apply (md_base g Hwf st k o' Ho' Hph). right. cbn [world_of w_blog]. rewrite Hb.
      split; [exact Hgn|]. cbn [graph_of g_edge set_hash ei_hash]. congruence.
    + right. left. apply (HN mo Hx). intros i Hi Hnw. apply Hc.
      apply (md_old st k o' i Hk Ho' Hph); [|exact Hi|rewrite Hmt; exact Hnw].
      unfold used_restat. cbn [world_of w_blog]. rewrite Hb. exact Hu.
    + right. left. apply (HN m Hx). intros i Hi Hnw. apply Hc.
      apply (md_time g Hwf Hfrag st k o' h m i Hk Ho' Hph Hb Hi Hnw).
  - exfalso. unfold spec_load in Hl. change (ei_deps (g_edge (G st0) k)) with (ei_deps (g_edge g k)) in Hl.
    rewrite (edge_frag g Hfrag k Hk) in Hl. discriminate.
Qed.

End Ref.
End Build.

(* ---- the trace of one invocation *)
Lemma trace_delta_spec st T st' : build cmd g st T = Some st' ->
  h_trace st' = trace_delta st st' ++ h_trace st.
Proof.
  intros Hb. destruct (build_inv st T st' Hb) as [s [p [_ ->]]].
  rewrite (trace_delta_app st _ _ (trace_upto p st (g_nedges g))). apply trace_upto.
Qed.

(* (5) statements the targets do not need are never run; what runs is a real statement of the plan *)
Theorem C03_unneeded_not_run_proof st T st' e :
  build cmd g st T = Some st' -> In e (trace_delta st st') ->
  needed g T e /\ (e < g_nedges g)%nat /\ phony e = false.
Proof.
  intros Hb Hin. destruct (build_inv st T st' Hb) as [s [p [Hs ->]]].
  apply in_delta in Hin. destruct Hin as [He Hr]. unfold ran in Hr.
  apply andb_true_iff in Hr. destruct Hr as [Hr _]. apply andb_true_iff in Hr. destruct Hr as [Hw Hph].
  apply negb_true_iff in Hph.
  destruct (want_sound g Hwf Hwg Hfrag st T s p Hs e Hw) as [Hn _].
  split; [exact Hn|]. split; [exact He|exact Hph].
Qed.

(* a file whose mtime differs after the invocation was written by a statement that ran in it,
   with a fresh tick; a restat statement only writes what changes *)
Theorem C03_rewritten_proof st1 T st2 n :
  Good cmd g st1 -> build cmd g st1 T = Some st2 -> touched st1 st2 n ->
  exists e, g_producer g n = Some e /\ In e (trace_delta st1 st2) /\
            h_clock st1 < mtime_of st2 n /\
            (ei_restat (g_edge g e) = true -> content_of st2 n <> content_of st1 n).
Proof.
  intros HG Hb Ht. destruct (build_inv st1 T st2 Hb) as [s [p [Hs ->]]].
  destruct (frame2 st1 p HG (g_nedges g) (le_n _) n) as [Hsame|[e [Hp [He [Hr [m [c [Hd [Hlt Hrs]]]]]]]]].
  - exfalso. apply Ht. unfold mtime_of. rewrite Hsame. reflexivity.
  - exists e. split; [exact Hp|]. split; [apply in_delta; split; assumption|].
    unfold mtime_of, content_of in *. rewrite Hd. split; [exact Hlt|].
    intros Hre Heq. apply (Hrs Hre). symmetry. exact Heq.
Qed.

(* ---- a stretch without invocation: the log is untouched, outputs are at most removed *)
Definition nb_rel (st st1 : hstate) : Prop :=
  (forall n, h_blog st1 n = h_blog st n) /\
  (forall n e, g_producer g n = Some e -> h_disk st1 n = h_disk st n \/ h_disk st1 n = None).

Lemma nb_rel_step st x : step_ok g x = true -> nobuild [x] = true -> nb_rel st (apply_step cmd g st x).
Proof.
  intros Hok Hnb. destruct x as [n c|n|e h|T]; cbn [apply_step step_ok nobuild forallb] in *; try discriminate.
  - unfold is_source in Hok. destruct (g_producer g n) eqn:Hp; [discriminate|].
    split; [reflexivity|]. intros n' e' Hp'. left. cbn [write_file h_disk]. apply upd_other. intros ->. congruence.
  - split; [reflexivity|]. intros n' e' Hp'. cbn [delete_file h_disk].
    destruct (Nat.eq_dec n' n) as [->|Hne]; [right; apply upd_same|left; apply upd_other; exact Hne].
  - split; [reflexivity|]. intros n' e' Hp'. left. reflexivity.
Qed.

Lemma nb_rel_hist : forall h st, hist_ok g h = true -> nobuild h = true -> nb_rel st (run_hist cmd g st h).
Proof.
  induction h as [|x h IH]; intros st Hok Hnb.
  - split; [reflexivity|]. intros n e _. left. reflexivity.
  - cbn [hist_ok nobuild forallb] in Hok, Hnb. apply andb_true_iff in Hok. destruct Hok as [Hx Hh].
    apply andb_true_iff in Hnb. destruct Hnb as [Hbx Hbh].
    change (run_hist cmd g st (x :: h)) with (run_hist cmd g (apply_step cmd g st x) h).
    assert (Hnx : nobuild [x] = true) by (cbn [nobuild forallb]; rewrite Hbx; reflexivity).
    destruct (nb_rel_step st x Hx Hnx) as [B1 D1].
    destruct (IH (apply_step cmd g st x) Hh Hbh) as [B2 D2].
    split; [intros n; rewrite B2; apply B1|].
    intros n e Hp. destruct (D2 n e Hp) as [E2|E2]; [|right; exact E2].
    rewrite E2. apply (D1 n e Hp).
Qed.

(* ---- (1) the main theorem *)
Theorem C03_runs_only_if_affected_proof st h T st2 e :
  Good cmd g st -> Converged st T -> hist_ok g h = true -> nobuild h = true ->
  build cmd g (run_hist cmd g st h) T = Some st2 ->
  In e (trace_delta (run_hist cmd g st h) st2) ->
  needed g T e /\ (e < g_nedges g)%nat /\ phony e = false /\
  ((ei_generator (g_edge g e) = false /\ h_hash (run_hist cmd g st h) e <> h_hash st e) \/
   (exists j, eff_in e j /\
              (touched st (run_hist cmd g st h) j \/ touched (run_hist cmd g st h) st2 j)) \/
   (exists o, In o (outs e) /\ h_disk (run_hist cmd g st h) o = None)).
Proof.
  intros HG Hcv Hok Hnb Hb Hin. set (st1 := run_hist cmd g st h) in *.
  assert (HG1 : Good cmd g st1) by (apply (good_hist cmd g Hwf Htopo h st HG Hok)).
  destruct (nb_rel_hist h st Hok Hnb) as [Hblog Hdisk]. fold st1 in Hblog, Hdisk.
  destruct (build_inv st1 T st2 Hb) as [s [p [Hs Hst2]]]. subst st2.
  apply in_delta in Hin. destruct Hin as [He Hr].
  destruct (ran_reason st1 T s p HG1 Hs st (proj1 HG) (conv_clean st T Hcv) Hblog Hdisk e He Hr)
    as [Hn [Hph Hwhy]].
  split; [exact Hn|]. split; [exact He|]. split; [exact Hph|].
  destruct Hwhy as [Ha|[[j [Hj Hm]]|Hc]]; [left; exact Ha| |right; right; exact Hc].
  right. left. exists j. split; [exact Hj|].
  pose proof (later_untouched st1 p HG1 e (g_nedges g) j ltac:(lia) (le_n _) (eff_in_below e j He Hj)) as Hlu.
  unfold touched. destruct (Z.eq_dec (mtime_of st1 j) (mtime_of st j)) as [Heq|Hne]; [right|left; exact Hne].
  rewrite Heq. unfold mtime_of in *. rewrite Hlu. exact Hm.
Qed.

Lemma conv_out_exists st T e o : Converged st T -> needed g T e -> phony e = false ->
  In o (outs e) -> h_disk st o <> None.
Proof.
  intros Hcv Hn Hph Ho Hd. apply (conv_clean st T Hcv e Hn o Ho).
  apply (md_base g Hwf st e o Ho Hph). left. cbn [world_of w_mtime]. unfold mtime_of. rewrite Hd. reflexivity.
Qed.

(* ---- (1a) one source edit *)
Theorem C03_after_edit_proof st T s c st2 e :
  Good cmd g st -> Converged st T -> is_source g s = true ->
  build cmd g (write_file st s c) T = Some st2 ->
  In e (trace_delta (write_file st s c) st2) ->
  needed g T e /\ (e < g_nedges g)%nat /\ phony e = false /\
  exists j, eff_in e j /\ (j = s \/ touched (write_file st s c) st2 j).
Proof.
  intros HG Hcv Hsrc Hb Hin.
  destruct (C03_runs_only_if_affected_proof st [Edit s c] T st2 e HG Hcv) as [Hn [He [Hph Hwhy]]];
    [cbn [hist_ok forallb step_ok]; rewrite Hsrc; reflexivity|reflexivity|exact Hb|exact Hin|].
  change (run_hist cmd g st [Edit s c]) with (write_file st s c) in Hwhy.
  split; [exact Hn|]. split; [exact He|]. split; [exact Hph|].
  destruct Hwhy as [[_ Ha]|[[j [Hj Ht]]|[o [Ho Hd]]]].
  - exfalso. apply Ha. reflexivity.
  - exists j. split; [exact Hj|]. destruct Ht as [Ht|Ht]; [left|right; exact Ht].
    destruct (Nat.eq_dec j s) as [Heq|Hne]; [exact Heq|]. exfalso. apply Ht.
    unfold mtime_of. cbn [write_file h_disk]. rewrite (upd_other _ s _ j Hne). reflexivity.
  - exfalso. unfold is_source in Hsrc. destruct (g_producer g s) eqn:Hps; [discriminate|].
    assert (Hne : o <> s) by (intros ->; rewrite (o_prod g Hwf e s Ho) in Hps; discriminate).
    cbn [write_file h_disk] in Hd. rewrite (upd_other _ s _ o Hne) in Hd.
    apply (conv_out_exists st T e o Hcv Hn Hph Ho Hd).
Qed.

(* ---- (1b) one command line *)
Theorem C03_after_setcmd_proof st T e0 hh st2 e :
  Good cmd g st -> Converged st T ->
  build cmd g (set_cmd st e0 hh) T = Some st2 ->
  In e (trace_delta (set_cmd st e0 hh) st2) ->
  needed g T e /\ (e < g_nedges g)%nat /\ phony e = false /\
  ((e = e0 /\ ei_generator (g_edge g e0) = false /\ hh <> h_hash st e0) \/
   exists j, eff_in e j /\ touched (set_cmd st e0 hh) st2 j).
Proof.
  intros HG Hcv Hb Hin.
  destruct (C03_runs_only_if_affected_proof st [SetCmd e0 hh] T st2 e HG Hcv) as [Hn [He [Hph Hwhy]]];
    [reflexivity|reflexivity|exact Hb|exact Hin|].
  change (run_hist cmd g st [SetCmd e0 hh]) with (set_cmd st e0 hh) in Hwhy.
  split; [exact Hn|]. split; [exact He|]. split; [exact Hph|].
  destruct Hwhy as [[Hgn Ha]|[[j [Hj Ht]]|[o [Ho Hd]]]].
  - left. cbn [set_cmd h_hash] in Ha. destruct (Nat.eqb_spec e e0) as [->|Hne]; [|exfalso; apply Ha; reflexivity].
    split; [reflexivity|]. split; [exact Hgn|exact Ha].
  - right. exists j. split; [exact Hj|]. destruct Ht as [Ht|Ht]; [|exact Ht].
    exfalso. apply Ht. reflexivity.
  - exfalso. apply (conv_out_exists st T e o Hcv Hn Hph Ho Hd).
Qed.

(* ---- (1c) one file removed: clause (c) of the property *)
Theorem C03_after_delete_proof st T n st2 e :
  Good cmd g st -> Converged st T ->
  build cmd g (delete_file st n) T = Some st2 ->
  In e (trace_delta (delete_file st n) st2) ->
  needed g T e /\ (e < g_nedges g)%nat /\ phony e = false /\
  (In n (outs e) \/ exists j, eff_in e j /\ (j = n \/ touched (delete_file st n) st2 j)).
Proof.
  intros HG Hcv Hb Hin.
  destruct (C03_runs_only_if_affected_proof st [Delete n] T st2 e HG Hcv) as [Hn [He [Hph Hwhy]]];
    [reflexivity|reflexivity|exact Hb|exact Hin|].
  change (run_hist cmd g st [Delete n]) with (delete_file st n) in Hwhy.
  split; [exact Hn|]. split; [exact He|]. split; [exact Hph|].
  destruct Hwhy as [[_ Ha]|[[j [Hj Ht]]|[o [Ho Hd]]]].
  - exfalso. apply Ha. reflexivity.
  - right. exists j. split; [exact Hj|]. destruct Ht as [Ht|Ht]; [left|right; exact Ht].
    destruct (Nat.eq_dec j n) as [Heq|Hne]; [exact Heq|]. exfalso. apply Ht.
    unfold mtime_of. cbn [delete_file h_disk]. rewrite (upd_other _ n _ j Hne). reflexivity.
  - left. destruct (Nat.eq_dec o n) as [<-|Hne]; [exact Ho|]. exfalso.
    cbn [delete_file h_disk] in Hd. rewrite (upd_other _ n _ o Hne) in Hd.
    apply (conv_out_exists st T e o Hcv Hn Hph Ho Hd).
Qed.

(* ---- (2) order-only: whatever happens to the order-only inputs, a statement whose explicit and
   implicit inputs (through phony statements) are neither changed nor rewritten is not run *)
Theorem C03_order_only_alone_proof st h T st2 e :
  Good cmd g st -> Converged st T -> hist_ok g h = true -> nobuild h = true ->
  build cmd g (run_hist cmd g st h) T = Some st2 ->
  (ei_generator (g_edge g e) = true \/ h_hash (run_hist cmd g st h) e = h_hash st e) ->
  (forall o, In o (outs e) -> h_disk (run_hist cmd g st h) o <> None) ->
  (forall j, eff_in e j ->
     ~ touched st (run_hist cmd g st h) j /\ ~ touched (run_hist cmd g st h) st2 j) ->
  ~ In e (trace_delta (run_hist cmd g st h) st2).
Proof.
  intros HG Hcv Hok Hnb Hb Ha Hc Hj Hin.
  destruct (C03_runs_only_if_affected_proof st h T st2 e HG Hcv Hok Hnb Hb Hin) as [_ [_ [_ Hwhy]]].
  destruct Hwhy as [[Hgn Hne]|[[j [Hjj Ht]]|[o [Ho Hd]]]].
  - destruct Ha as [Ha|Ha]; congruence.
  - destruct (Hj j Hjj) as [H1 H2]. destruct Ht as [Ht|Ht]; [exact (H1 Ht)|exact (H2 Ht)].
  - exact (Hc o Ho Hd).
Qed.

(* ---- (3) restat: a statement all of whose explicit and implicit inputs are unmodified files whose
   producer, if it ran at all, is a restat statement that left the file as it was, is not run *)
Theorem C03_restat_cutoff_proof st h T st2 e :
  Good cmd g st -> Converged st T -> hist_ok g h = true -> nobuild h = true ->
  build cmd g (run_hist cmd g st h) T = Some st2 ->
  (ei_generator (g_edge g e) = true \/ h_hash (run_hist cmd g st h) e = h_hash st e) ->
  (forall o, In o (outs e) -> h_disk (run_hist cmd g st h) o <> None) ->
  (forall j, eff_in e j ->
     ~ touched st (run_hist cmd g st h) j /\
     forall e', g_producer g j = Some e' -> In e' (trace_delta (run_hist cmd g st h) st2) ->
       ei_restat (g_edge g e') = true /\ content_of st2 j = content_of (run_hist cmd g st h) j) ->
  ~ In e (trace_delta (run_hist cmd g st h) st2).
Proof.
  intros HG Hcv Hok Hnb Hb Ha Hc Hj.
  apply (C03_order_only_alone_proof st h T st2 e HG Hcv Hok Hnb Hb Ha Hc).
  intros j Hjj. destruct (Hj j Hjj) as [H1 H2]. split; [exact H1|]. intros Ht.
  destruct (C03_rewritten_proof (run_hist cmd g st h) T st2 j (good_hist cmd g Hwf Htopo h st HG Hok) Hb Ht)
    as [e' [Hp [Hin' [_ Hrs]]]].
  destruct (H2 e' Hp Hin') as [Hre Hco]. exact (Hrs Hre Hco).
Qed.

(* ---- (2') the path form: after one source edit, a statement runs only if the edited source
   reaches it through non-order-only inputs all the way *)
Inductive nonoo_path (s : node) : node -> Prop :=
| np_refl : nonoo_path s s
| np_step i e o : nonoo_path s i -> In i (nonoo_ins g e) -> In o (outs e) -> nonoo_path s o.

Lemma thru_path s i j : thru i j -> nonoo_path s j -> nonoo_path s i.
Proof.
  intros H. induction H as [i|i p i' j Hp Hph Hi Ht IH]; intros Hj; [exact Hj|].
  apply (np_step s i' p i (IH Hj) Hi (p_out g Hwf i p Hp)).
Qed.

Theorem C03_order_only_path_proof st T s c st2 :
  Good cmd g st -> Converged st T -> is_source g s = true ->
  build cmd g (write_file st s c) T = Some st2 ->
  forall e, In e (trace_delta (write_file st s c) st2) ->
  exists i, In i (nonoo_ins g e) /\ nonoo_path s i.
Proof.
  intros HG Hcv Hsrc Hb.
  assert (HG1 : Good cmd g (write_file st s c)).
  { apply (good_step cmd g Hwf Htopo st (Edit s c) HG). exact Hsrc. }
  induction e as [e IH] using lt_wf_ind. intros Hin.
  destruct (C03_after_edit_proof st T s c st2 e HG Hcv Hsrc Hb Hin) as [_ [He [_ [j [Hj Hwhy]]]]].
  assert (Hpath : nonoo_path s j).
  { destruct Hwhy as [->|Ht]; [apply np_refl|].
    destruct (C03_rewritten_proof _ T st2 j HG1 Hb Ht) as [e' [Hp [Hin' _]]].
    pose proof (eff_in_below e j He Hj) as Hlt. unfold below in Hlt. rewrite Hp in Hlt.
    destruct (IH e' Hlt Hin') as [i' [Hi' Hpi']].
    apply (np_step s i' e' j Hpi' Hi' (p_out g Hwf j e' Hp)). }
  destruct Hj as [i [Hi Ht]]. exists i. split; [exact Hi|apply (thru_path s i j Ht Hpath)].
Qed.

(* ---- (4) only the command line of a generator rule changes: nothing is run, nothing changes *)
Theorem C03_generator_cmdline_proof st T e0 hh :
  Good cmd g st -> Converged st T -> ei_generator (g_edge g e0) = true ->
  build cmd g (set_cmd st e0 hh) T = Some (set_cmd st e0 hh) /\
  forall st2, build cmd g (set_cmd st e0 hh) T = Some st2 -> trace_delta (set_cmd st e0 hh) st2 = [].
Proof.
  intros HG Hcv Hgen. set (st1 := set_cmd st e0 hh).
  assert (Hsame : same_but_generator_hash (G st) (G st1)).
  { split; [reflexivity|]. intros e. do 8 (split; [reflexivity|]).
    intros Hg. cbn [graph_of g_edge set_hash ei_hash ei_generator] in *. subst st1. cbn [set_cmd h_hash].
    destruct (Nat.eqb_spec e e0) as [->|Hne]; [congruence|reflexivity]. }
  assert (HW : W st1 = W st) by reflexivity.
  assert (Hclean : forall e, neededE (G st1) T e -> forall o, In o (ei_outs (g_edge (G st1) e)) ->
                             ~ must_dirty (G st1) (W st1) o).
  { intros e Hn o Ho Hmd. rewrite HW in Hmd.
    apply (must_dirty_generator_hash_indep (G st) (G st1) (W st) Hsame o) in Hmd.
    apply (conv_clean st T Hcv e (proj1 (needed_G g T st1 e) Hn) o Ho Hmd). }
  destruct (scan_accepts (G st1) (W st1) (Gwf' st1) (Gwg' st1) (Gfrag' st1) T (Gtopo' st1)) as [s [p Hs]].
  - intros t Ht Hp. apply (conv_leaf st T Hcv t Ht Hp).
  - exact Hclean.
  - assert (Hnone : forall e, p_want p e <> Some WantToStart).
    { intros e Hw.
      destruct (scan_want_sound (G st1) (W st1) (Gwf' st1) (Gwg' st1) (Gfrag' st1) T s p Hs e Hw)
        as [Hn [o [Ho Hmd]]].
      apply (Hclean e Hn o Ho Hmd). }
    assert (Hb : build cmd g st1 T = Some st1).
    { unfold build. rewrite Hs. f_equal. apply build_upto_idle. exact Hnone. }
    split; [exact Hb|]. intros st2 Hb2. rewrite Hb in Hb2. injection Hb2 as <-.
    unfold trace_delta. rewrite Nat.sub_diag. reflexivity.
Qed.

(* ---- the premises after a successful build, and over histories *)
Theorem converged_after_build_proof st0 T st :
  Good cmd g st0 -> build cmd g st0 T = Some st -> Good cmd g st /\ Converged st T.
Proof.
  intros HG Hb. split; [apply (logsound_build cmd g Hwf Htopo st0 T st HG Hb)|].
  apply (C02_converges cmd g Hwf Hwg Hfrag Htopo st0 T st HG Hnip Hb).
Qed.

Theorem C03_history_proof h0 T st h st2 e :
  hist_ok g h0 = true -> build cmd g (run_hist cmd g (init_hstate g) h0) T = Some st ->
  hist_ok g h = true -> nobuild h = true ->
  build cmd g (run_hist cmd g st h) T = Some st2 ->
  In e (trace_delta (run_hist cmd g st h) st2) ->
  needed g T e /\ (e < g_nedges g)%nat /\ phony e = false /\
  ((ei_generator (g_edge g e) = false /\ h_hash (run_hist cmd g st h) e <> h_hash st e) \/
   (exists j, eff_in e j /\
              (touched st (run_hist cmd g st h) j \/ touched (run_hist cmd g st h) st2 j)) \/
   (exists o, In o (outs e) /\ h_disk (run_hist cmd g st h) o = None)).
Proof.
  intros Hok0 Hb0 Hok Hnb Hb Hin.
  destruct (converged_after_build_proof _ T st
              (good_hist cmd g Hwf Htopo h0 _ (good_init cmd g) Hok0) Hb0) as [HG Hcv].
  apply (C03_runs_only_if_affected_proof st h T st2 e HG Hcv Hok Hnb Hb Hin).
Qed.


(* names for the restatements in Properties_C03hist.v *)
Definition C03_trace_delta_spec_proof := trace_delta_spec.
Definition C03_reevaluation_accepted_proof := reeval_accepts.

End Minimal.

Definition C03_scan_missing_sound_proof := scan_missing_sound.

(* ================================================================== a concrete project (non-vacuity) *)
(* nodes: 0 a.src  1 b.src  2 gen.h  3 x.o  4 objs  5 app  6 lib  7 cfg.src  8 build.ninja  9 all  10 extra
     e0  build gen.h       : halve a.src                restat = 1
     e1  build x.o         : cc b.src | gen.h
     e2  build objs        : phony x.o
     e3  build app         : link objs || gen.h         (reads x.o through the phony group)
     e4  build lib         : ar b.src || gen.h          (gen.h order-only)
     e5  build build.ninja : configure cfg.src          generator = 1
     e6  build all         : phony app lib build.ninja
     e7  build extra       : cc b.src                   (not needed by all)                      *)
Module ExMin.
Definition e0 := mkEdge [0%nat] 0 0 [2%nat] [] false true false DepsNone 100.
Definition e1 := mkEdge [1%nat; 2%nat] 1 0 [3%nat] [] false false false DepsNone 101.
Definition e2 := mkEdge [3%nat] 0 0 [4%nat] [] true false false DepsNone 0.
Definition e3 := mkEdge [4%nat; 2%nat] 0 1 [5%nat] [] false false false DepsNone 103.
Definition e4 := mkEdge [1%nat; 2%nat] 0 1 [6%nat] [] false false false DepsNone 104.
Definition e5 := mkEdge [7%nat] 0 0 [8%nat] [] false false true DepsNone 105.
Definition e6 := mkEdge [5%nat; 6%nat; 8%nat] 0 0 [9%nat] [] true false false DepsNone 0.
Definition e7 := mkEdge [1%nat] 0 0 [10%nat] [] false false false DepsNone 107.

Definition g : graph :=
  mkGraph 8
    (fun e => match e with
              | 0%nat => e0 | 1%nat => e1 | 2%nat => e2 | 3%nat => e3 | 4%nat => e4 | 5%nat => e5
              | 6%nat => e6 | 7%nat => e7 | _ => Ex.dummy end)
    (fun n => match n with
              | 2%nat => Some 0%nat | 3%nat => Some 1%nat | 4%nat => Some 2%nat | 5%nat => Some 3%nat
              | 6%nat => Some 4%nat | 8%nat => Some 5%nat | 9%nat => Some 6%nat | 10%nat => Some 7%nat
              | _ => None end)
    (fun _ => false).

Local Open Scope N_scope.
(* gen.h = a.src / 2; the generator's output does not depend on its command line *)
Definition cmd (e : edge) (h : N) (S : snapshot) (o : node) : content :=
  match e with
  | 0%nat => Ex.sum_snap S / 2
  | 5%nat => 7 + Ex.sum_snap S
  | _ => 1 + h + 3 * Ex.sum_snap S + N.of_nat o
  end.
Local Close Scope N_scope.

Definition T : list node := [9%nat].
Definition pre : hstate := run_hist cmd g (init_hstate g) [Edit 0 10; Edit 1 20; Edit 7 30].
(* the converged reference state: the tree after the first build of [all] *)
Definition base : hstate := apply_step cmd g pre (Build T).

(* one change, then ninja again: Some (commands run, newest first), None if the build is refused *)
Definition next_delta (x : hstep) : option (list edge) :=
  let st1 := apply_step cmd g base x in
  match build cmd g st1 T with
  | Some st2 => Some (trace_delta st1 st2)
  | None => None
  end.

Lemma wf : wf_spec g.
Proof.
  split; [|split].
  - intros e o Ho. destruct e as [|[|[|[|[|[|[|[|e]]]]]]]]; cbn in Ho; try (destruct Ho as [<-|[]]; reflexivity); destruct Ho.
  - intros n e Hp. destruct n as [|[|[|[|[|[|[|[|[|[|[|n]]]]]]]]]]]; cbn in Hp; try discriminate;
      inversion Hp; subst; cbn; left; reflexivity.
  - intros e Hd. exfalso. apply Hd. destruct e as [|[|[|[|[|[|[|[|e]]]]]]]]; reflexivity.
Qed.

Lemma wfg : wf_graph g.
Proof.
  intros n e Hp. destruct n as [|[|[|[|[|[|[|[|[|[|[|n]]]]]]]]]]]; cbn in Hp; try discriminate;
    inversion Hp; subst; cbn; lia.
Qed.

Example frag_ok : frag_AB g && topo_ordered g && no_inputless_phony g = true.
Proof. vm_compute. reflexivity. Qed.
Lemma frag : frag_AB g = true.
Proof. vm_compute. reflexivity. Qed.
Lemma topo : topo_ordered g = true.
Proof. vm_compute. reflexivity. Qed.
Lemma nip : no_inputless_phony g = true.
Proof. vm_compute. reflexivity. Qed.

Lemma pre_good : Good cmd g pre.
Proof. apply (good_hist cmd g wf topo _ _ (good_init cmd g)). vm_compute. reflexivity. Qed.

Lemma base_build : build cmd g pre T = Some base.
Proof.
  unfold base. cbn [apply_step]. destruct (build cmd g pre T) as [st|] eqn:Hb; [reflexivity|].
  assert (H : match build cmd g pre T with Some _ => true | None => false end = true) by (vm_compute; reflexivity).
  rewrite Hb in H. discriminate.
Qed.

(* the premises of the theorems hold of [base] *)
Example base_premises : Good cmd g base /\ Converged g base T.
Proof. apply (converged_after_build_proof cmd g wf wfg frag topo nip pre T base pre_good base_build). Qed.

(* the first build runs e0 e1 e3 e4 e5 (newest first); the phony e2, e6 and the unneeded e7 do not run *)
Example trace_base : h_trace base = [5; 4; 3; 1; 0]%nat.
Proof. vm_compute. reflexivity. Qed.

(* restat cut-off: a.src 10 -> 11 leaves gen.h = 5; e0 runs, its dependents e1 (and e3) do not *)
Example delta_restat_cutoff : next_delta (Edit 0 11) = Some [0%nat].
Proof. vm_compute. reflexivity. Qed.

(* a.src 10 -> 14, gen.h 5 -> 7: e0; e1 (implicit input gen.h rewritten); e3 (x.o rewritten, seen
   through the phony group objs).  e4 has gen.h order-only and is NOT run *)
Example delta_order_only : next_delta (Edit 0 14) = Some [3; 1; 0]%nat.
Proof. vm_compute. reflexivity. Qed.

(* b.src: e1, e3 (through x.o), e4; the unneeded e7, which also reads b.src, is not run *)
Example delta_unneeded : next_delta (Edit 1 21) = Some [4; 3; 1]%nat.
Proof. vm_compute. reflexivity. Qed.

(* ninja decides by mtime: rewriting b.src with the SAME content runs the same commands, and the
   non-restat e1 rewriting x.o with the same content still re-runs e3 *)
Example delta_same_content : next_delta (Edit 1 20) = Some [4; 3; 1]%nat.
Proof. vm_compute. reflexivity. Qed.

(* the command line of the generator rule alone: nothing *)
Example delta_generator_cmdline : next_delta (SetCmd 5 999) = Some [].
Proof. vm_compute. reflexivity. Qed.

(* ... its input: the generator runs *)
Example delta_generator_input : next_delta (Edit 7 31) = Some [5%nat].
Proof. vm_compute. reflexivity. Qed.

(* the command line of the link statement: that statement only *)
Example delta_cmdline : next_delta (SetCmd 3 203) = Some [3%nat].
Proof. vm_compute. reflexivity. Qed.

(* clause (c): x.o removed: e1 re-creates it, e3 follows *)
Example delta_missing_output : next_delta (Delete 3) = Some [3; 1]%nat.
Proof. vm_compute. reflexivity. Qed.

(* the theorem applied instead of computing: after an edit of a.src the statement e4 cannot be in
   the trace delta, because a.src has no non-order-only path to b.src, the only explicit input of e4 *)
Example e4_not_run_by_theorem c st2 :
  build cmd g (write_file base 0%nat c) T = Some st2 ->
  ~ In 4%nat (trace_delta (write_file base 0%nat c) st2).
Proof.
  intros Hb Hin. destruct base_premises as [HG Hcv].
  destruct (C03_order_only_path_proof cmd g wf wfg frag topo nip base T 0%nat c st2 HG Hcv eq_refl Hb 4%nat Hin)
    as [i [Hi Hp]].
  cbn in Hi. destruct Hi as [<-|[]].
  inversion Hp as [Heq|i e o _ _ Ho Heq].
  destruct e as [|[|[|[|[|[|[|[|e]]]]]]]]; cbn in Ho; try (destruct Ho as [Ho|[]]; discriminate); destruct Ho.
Qed.
End ExMin.

(* ================================================================== mtime, not content *)
(* Clause (b) read with CONTENT instead of mtime ("a command runs only if the content of one of its
   explicit or implicit inputs differs from the converged one") is false of the model, as it is of
   ninja: rewriting a source with the same content re-runs its consumers.  Only restat statements
   compare contents ([C03_rewritten_proof]).  This is documented behaviour, not a finding. *)
Definition C03_content_based_full : Prop :=
  forall (cmd : edge -> N -> snapshot -> node -> content) (g : graph),
    wf_spec g -> wf_graph g -> frag_AB g = true -> topo_ordered g = true ->
    no_inputless_phony g = true ->
  forall (st : hstate) (T : list node) (s : node) (c : content) (st2 : hstate) (e : edge),
    Good cmd g st -> Converged g st T -> is_source g s = true ->
    build cmd g (write_file st s c) T = Some st2 ->
    In e (trace_delta (write_file st s c) st2) ->
    exists j, eff_in g e j /\ content_of st2 j <> content_of st j.

Theorem C03_content_based_refuted_proof : ~ C03_content_based_full.
Proof.
  intros H. destruct ExMin.base_premises as [HG Hcv].
  set (st1 := write_file ExMin.base 1%nat 20%N).
  set (st2 := apply_step ExMin.cmd ExMin.g st1 (Build ExMin.T)).
  assert (Hb : build ExMin.cmd ExMin.g st1 ExMin.T = Some st2).
  { unfold st2. cbn [apply_step]. destruct (build ExMin.cmd ExMin.g st1 ExMin.T) as [x|] eqn:Hb; [reflexivity|].
    assert (Hx : match build ExMin.cmd ExMin.g st1 ExMin.T with Some _ => true | None => false end = true)
      by (vm_compute; reflexivity).
    rewrite Hb in Hx. discriminate. }
  assert (Hin : In 1%nat (trace_delta st1 st2)) by (vm_compute; right; right; left; reflexivity).
  destruct (H ExMin.cmd ExMin.g ExMin.wf ExMin.wfg ExMin.frag ExMin.topo ExMin.nip
              ExMin.base ExMin.T 1%nat 20%N st2 1%nat HG Hcv eq_refl Hb Hin) as [j [[i [Hi Ht]] Hne]].
  cbn in Hi. destruct Hi as [<-|[<-|[]]].
  - inversion Ht as [x|x p i' y Hp Hph Hi' Ht']; subst.
    + apply Hne. vm_compute. reflexivity.
    + cbn in Hp. discriminate.
  - inversion Ht as [x|x p i' y Hp Hph Hi' Ht']; subst.
    + apply Hne. vm_compute. reflexivity.
    + cbn in Hp. injection Hp as <-. cbn in Hph. discriminate.
Qed.
