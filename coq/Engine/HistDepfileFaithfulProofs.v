(* Proofs about the faithful loop of the depfile-only model (HistDepfileFaithful.v).  No axioms.
   Route: HistDepfileProofs reads a depfile-only manifest [g] as the deps-log manifest [to_log g]
   and a state [fs] as a deps-log state [ds] with [Sim fs ds] (a depfile "out0: l" = a valid
   record).  Plan::CleanNode reads neither kind of dependency information, so
     Part C  [clean_node] / [restat_clean] on [g] and on [to_log g] are the same function,
     Part L  [fbuild_upto_f] on (g, fs) and HistDepsFaithful.dbuild_upto_f on (to_log g, ds) run in
             lockstep with the SAME plan/node state,
   and the theorems of HistDepsFaithfulProofs carry over (Part T):
     [fbuild_f_never_out_of_fuel], [fbuild_f_accepts_iff]                      in full;
     [fbuild_f_eq_fbuild_partial], [frun_hist_f_eq], [C10df_equiv_f], [C10df_C01_f]
        under the extra hypothesis of HistDepsFaithfulProofs.dbuild_f_eq_dbuild_partial, read on
        [to_log g]: [no_restat_above_depfile]. *)
From NinjaV Require Import Engine.CrashDefs.
From NinjaV Require Import Base.Bytes Engine.ScanDefs Engine.ScanSpec Engine.ScanProofs Engine.HistDefs Engine.HistProofs Engine.HistFaithful Engine.HistFaithfulProofs Engine.HistDepsDefs Engine.HistDepsProofs Engine.HistDepsFaithful Engine.HistDepsFaithfulProofs Engine.HistDepfileDefs Engine.HistDepfileProofs Engine.HistDepfileFaithful.
Local Open Scope Z_scope.

(* the side condition that makes (1) partial, for depfile-only statements: no such statement has
   an input of ANY kind (order-only included) that a restat statement can reach *)
Definition no_restat_above_depfile (g : graph) (hid : edge -> list node) : bool :=
  no_restat_above_deps (to_log g) hid.

(* ================================================================== Part C: CleanNode does not look at deps kinds *)
Lemma ofold_ext {A X : Type} (f1 f2 : A -> X -> option X) (l : list A) :
  (forall a x, In a l -> f1 a x = f2 a x) -> forall x, ofold f1 l x = ofold f2 l x.
Proof.
  induction l as [|a l IH]; intros H x; cbn [ofold]; [reflexivity|].
  rewrite (H a x (or_introl eq_refl)). destruct (f2 a x) as [x'|]; [|reflexivity].
  apply IH. intros b y Hb. apply H. right. exact Hb.
Qed.

Section ToLog.
Variable G : graph.
Variables (w w' : world).
Hypothesis Hbl : forall o, w_blog w o = w_blog w' o.

Lemma oda_to_log e mri : forall os s,
  outputs_dirty_all G w e os mri s = outputs_dirty_all (to_log G) w' e os mri s.
Proof.
  induction os as [|o os IH]; intros s; cbn [outputs_dirty_all]; [reflexivity|].
  change (ei_phony (g_edge (to_log G) e)) with (ei_phony (g_edge G e)).
  destruct (ei_phony (g_edge G e)).
  - change (phony_output_dirty (to_log G) e o mri s) with (phony_output_dirty G e o mri s).
    destruct (phony_output_dirty G e o mri s) as [d s1]. destruct d; [reflexivity|apply IH].
  - assert (E : output_dirty_first G w e o (mri_mtime s mri) s = output_dirty_first (to_log G) w' e o (mri_mtime s mri) s).
    { unfold output_dirty_first. rewrite (Hbl o). reflexivity. }
    rewrite E. destruct (output_dirty_first (to_log G) w' e o (mri_mtime s mri) s); [reflexivity|apply IH].
Qed.

Lemma cn_to_log : forall f n x, clean_node G w f n x = clean_node (to_log G) w' f n x.
Proof.
  induction f as [|f IH]; intros n x; cbn [clean_node]; [reflexivity|].
  change (out_edges (to_log G) (c_s (mkC (set_dirty (c_s x) n false) (c_want x))) n)
    with (out_edges G (c_s (mkC (set_dirty (c_s x) n false) (c_want x))) n).
  apply ofold_ext. intros e y _. unfold clean_edge.
  change (cn_nonoo (to_log G) (c_s y) e) with (cn_nonoo G (c_s y) e).
  change (edge_outs (to_log G) e) with (edge_outs G e).
  destruct (c_want y e && negb (es_deps_missing (st_edge (c_s y) e))
            && forallb (fun i => negb (ns_dirty (st_node (c_s y) i))) (cn_nonoo G (c_s y) e))%bool; [|reflexivity].
  rewrite <- (oda_to_log e (cn_mri (c_s y) (cn_nonoo G (c_s y) e)) (edge_outs G e) (c_s y)).
  destruct (outputs_dirty_all G w e (edge_outs G e) (cn_mri (c_s y) (cn_nonoo G (c_s y) e)) (c_s y)) as [d s1].
  destruct d; [reflexivity|].
  rewrite (ofold_ext (clean_node G w f) (clean_node (to_log G) w' f) (edge_outs G e) (fun a z _ => IH a z)).
  reflexivity.
Qed.

Hypothesis Hmt : forall o, w_mtime w o = w_mtime w' o.

Lemma rc_to_log e x : restat_clean G w e x = restat_clean (to_log G) w' e x.
Proof.
  unfold restat_clean. change (ei_restat (g_edge (to_log G) e)) with (ei_restat (g_edge G e)).
  destruct (ei_restat (g_edge G e)); [|reflexivity].
  change (ei_outs (g_edge (to_log G) e)) with (ei_outs (g_edge G e)).
  apply ofold_ext. intros o y _. rewrite (Hmt o).
  destruct (Z.eqb (ns_mtime (st_node (c_s y) o)) (w_mtime w' o)); [|reflexivity].
  change (clean_fuel (to_log G)) with (clean_fuel G). apply cn_to_log.
Qed.

End ToLog.

(* ================================================================== Part L: lockstep with the deps-log reading *)
Section FaithF.
Variable cmd : edge -> N -> snapshot -> node -> content.
Variable g : graph.
Variable hid : edge -> list node.

Notation gl := (to_log g).
Notation phony e := (ei_phony (g_edge g e)).

Lemma fbuild_upto_f_S s p k fs :
  fbuild_upto_f cmd g hid s p (S k) fs = fbuild_step_f cmd g hid (fbuild_upto_f cmd g hid s p k fs) k.
Proof. unfold fbuild_upto_f. rewrite seq_S, fold_left_app. reflexivity. Qed.

Lemma rc_fd fs' ds' e x : d_h ds' = f_h fs' ->
  restat_clean (graph_of g (f_h fs')) (world_of_f g fs') e x =
  restat_clean (graph_of gl (d_h ds')) (world_of_d ds') e x.
Proof.
  intros Hh. rewrite Hh.
  change (graph_of gl (f_h fs')) with (to_log (graph_of g (f_h fs'))).
  apply rc_to_log; intros o; cbn [world_of_f world_of_d w_blog w_mtime]; rewrite Hh; reflexivity.
Qed.

(* the two faithful loops carry the same plan/node state; only the disk/log parts have to agree *)
Lemma lock_fd s p fs ds : d_h ds = f_h fs -> forall k,
  match fbuild_upto_f cmd g hid s p k fs, dbuild_upto_f cmd gl hid s p k ds with
  | Some (fs', x), Some (ds', x') => x = x' /\ d_h ds' = f_h fs'
  | None, None => True
  | _, _ => False
  end.
Proof.
  intros Hh. induction k as [|k IH]; [split; [reflexivity|exact Hh]|].
  rewrite fbuild_upto_f_S, (dbuild_upto_f_S cmd gl hid s p k ds).
  destruct (fbuild_upto_f cmd g hid s p k fs) as [[fs1 x]|]; destruct (dbuild_upto_f cmd gl hid s p k ds) as [[ds1 x']|];
    try contradiction; [|exact I].
  destruct IH as [<- Hh1]. unfold fbuild_step_f, dbuild_step_f.
  change (ei_phony (g_edge gl k)) with (phony k).
  destruct (dirty_now_f x k && negb (phony k))%bool; [|split; [reflexivity|exact Hh1]].
  assert (Hh2 : d_h (drun_edge cmd gl hid ds1 k) = f_h (frun_edge cmd g hid fs1 k)).
  { rewrite (frun_h cmd g hid fs1 k). symmetry. apply drun_conv. symmetry. exact Hh1. }
  rewrite (rc_fd (frun_edge cmd g hid fs1 k) (drun_edge cmd gl hid ds1 k) k _ Hh2).
  destruct (restat_clean (graph_of gl (d_h (drun_edge cmd gl hid ds1 k))) (world_of_d (drun_edge cmd gl hid ds1 k)) k
              (mkC (c_s x) (unwant (c_want x) k))) as [x2|]; [|exact I].
  split; [reflexivity|exact Hh2].
Qed.

(* ================================================================== Part T: the theorems *)
Hypothesis Hwf : wf_spec g.
Hypothesis Hwg : wf_graph g.
Hypothesis Hfrag : frag_ABF g hid = true.
Hypothesis Htopo : topo_ordered (inline g hid) = true.

Let HfL : frag_ABD gl hid = true := proj2 (andb_true_split _ _ Hfrag).
Let HwfL : wf_spec gl := wf_spec_to_log g Hwf.
Let HwgL : wf_graph gl := Hwg.
Let HtopoL : topo_ordered (inline gl hid) = true := Htopo.

(* (3) Plan::CleanNode never runs out of fuel: an accepted scan is a finished faithful build *)
Theorem fbuild_f_never_out_of_fuel fs ds T s p :
  Sim g fs ds -> GoodD cmd gl hid ds -> fscan g fs T = ScanOk s p ->
  exists fs', fbuild_f cmd g hid fs T = Some fs'.
Proof.
  intros HS HG Hs. unfold fbuild_f. rewrite Hs.
  rewrite (scan_sim g hid Hwf Hwg Hfrag fs ds T HS) in Hs.
  destruct (dbuild_f_never_out_of_fuel cmd gl hid HwfL HwgL HfL HtopoL ds T s p HG Hs) as [ds' Hd].
  unfold dbuild_f in Hd. rewrite Hs in Hd.
  pose proof (lock_fd s p fs ds (proj1 HS) (g_nedges g)) as HL.
  change (g_nedges gl) with (g_nedges g) in Hd.
  destruct (dbuild_upto_f cmd gl hid s p (g_nedges g) ds) as [[ds1 x1]|]; [|discriminate].
  destruct (fbuild_upto_f cmd g hid s p (g_nedges g) fs) as [[fs1 x]|]; [|contradiction].
  exists fs1. reflexivity.
Qed.

(* (2), first clause: both loops accept or both refuse *)
Theorem fbuild_f_accepts_iff fs ds T :
  Sim g fs ds -> GoodD cmd gl hid ds ->
  (fbuild_f cmd g hid fs T = None <-> fbuild cmd g hid fs T = None).
Proof.
  intros HS HG. destruct (fscan g fs T) as [c|m d|e| |s p] eqn:Hs.
  1-4: unfold fbuild_f, fbuild; rewrite Hs; split; reflexivity.
  destruct (fbuild_f_never_out_of_fuel fs ds T s p HS HG Hs) as [fs' E]. rewrite E.
  unfold fbuild. rewrite Hs. split; discriminate.
Qed.

(* the two ways to get a deps-log reading with the invariant *)
Corollary fbuild_f_accepts_iff_inv fs T :
  FInv cmd g hid fs -> no_udel fs ->
  (fbuild_f cmd g hid fs T = None <-> fbuild cmd g hid fs T = None).
Proof.
  intros HI Hnu. apply (fbuild_f_accepts_iff fs (tr g fs) T (sim_tr g Hwf fs)).
  apply (goodd_tr cmd g hid Hwf Hwg Hfrag fs HI Hnu).
Qed.

Corollary fbuild_f_accepts_iff_hist h T :
  hist_ok g h = true ->
  (fbuild_f cmd g hid (frun_hist cmd g hid (init_fstate g) (map FS h)) T = None <->
   fbuild cmd g hid (frun_hist cmd g hid (init_fstate g) (map FS h)) T = None).
Proof.
  intros Hok.
  destruct (hist_sim cmd g hid Hwf Hwg Hfrag Htopo h (init_fstate g) (init_dstate gl) (sim_init g) (goodd_init cmd gl hid) Hok)
    as [HS [HG _]].
  apply (fbuild_f_accepts_iff _ _ T HS HG).
Qed.

Section Equiv.
Hypothesis Hord : hidden_reads_ordered_f g hid = true.
Hypothesis Hnr : no_restat_upstream_of_depfile g hid = true.
Hypothesis Hnip : no_inputless_phony g = true.
Hypothesis Hna : no_restat_above_depfile g hid = true.

Let HnipL : no_inputless_phony gl = true := Hnip.

(* (1), PARTIAL: the two loops are the same function.  Missing for the full statement (the same
   without [Hna]): exactly what is missing for HistDepsFaithfulProofs.dbuild_f_eq_dbuild_full --
   a depfile-only statement with an order-only input below a restat statement is looked at by
   CleanNode and tested against fewer inputs than in the inlined manifest. *)
Theorem fbuild_f_eq_fbuild_partial fs ds T :
  Sim g fs ds -> GoodD cmd gl hid ds ->
  hidden_srcs_present g hid (f_h fs) = true -> targets_known g T = true ->
  fbuild_f cmd g hid fs T = fbuild cmd g hid fs T.
Proof.
  intros HS HG Hpres HT. unfold fbuild_f, fbuild.
  destruct (fscan g fs T) as [c|m d|e| |s p] eqn:Hs; try reflexivity.
  rewrite (scan_sim g hid Hwf Hwg Hfrag fs ds T HS) in Hs.
  assert (HpresL : hidden_srcs_present gl hid (d_h ds) = true) by (rewrite (proj1 HS); exact Hpres).
  destruct (proj1 (accept_equiv cmd gl hid HwfL HwgL HfL HtopoL Hord HnipL ds T HG HpresL HT)) as [si [pi Hsi]];
    [exists s, p; exact Hs|].
  assert (Hloop : forall k, (k <= g_nedges g)%nat ->
            exists x, fbuild_upto_f cmd g hid s p k fs = Some (fbuild_upto cmd g hid s p k fs, x)).
  { induction k as [|k IH]; intros Hk; [exists (init_cst s p); reflexivity|].
    destruct (IH ltac:(lia)) as [x E].
    destruct (lock cmd gl hid HwfL HwgL HfL HtopoL Hord Hnr HnipL Hna ds T s p si pi HG Hs Hsi k ltac:(cbn [to_log g_nedges]; lia))
      as [xd [_ [Ed _]]].
    destruct (lock cmd gl hid HwfL HwgL HfL HtopoL Hord Hnr HnipL Hna ds T s p si pi HG Hs Hsi (S k) Hk)
      as [xd' [_ [Ed' _]]].
    pose proof (lock_fd s p fs ds (proj1 HS) k) as HL. rewrite E, Ed in HL. destruct HL as [<- Hh].
    rewrite (dbuild_upto_f_S cmd gl hid s p k ds), Ed in Ed'. rewrite fbuild_upto_f_S, E.
    rewrite (fbuild_upto_S cmd g hid s p k fs).
    unfold dbuild_step_f in Ed'. unfold fbuild_step_f, fbuild_step.
    change (ei_phony (g_edge gl k)) with (phony k) in Ed'.
    assert (Edn : dirty_now_d g s (f_ds (fbuild_upto cmd g hid s p k fs)) k =
                  dirty_now_d gl s (dbuild_upto cmd gl hid s p k ds) k).
    { unfold dirty_now_d. change (graph_now gl s) with (graph_now g s). rewrite Hh. reflexivity. }
    rewrite Edn.
    assert (Htr : forall dsx, h_trace (d_h (drun_edge cmd gl hid dsx k)) = k :: h_trace (d_h dsx)).
    { intros dsx. rewrite (drun_edge_h cmd gl hid HfL dsx k ltac:(cbn [to_log g_nedges]; lia)). apply HistDepsProofs.run_edge_trace. }
    destruct (dirty_now_f x k && negb (phony k))%bool eqn:Hc.
    - set (fs' := frun_edge cmd g hid (fbuild_upto cmd g hid s p k fs) k).
      set (ds' := drun_edge cmd gl hid (dbuild_upto cmd gl hid s p k ds) k) in *.
      assert (Hh2 : d_h ds' = f_h fs').
      { unfold ds', fs'. rewrite (frun_h cmd g hid _ k). symmetry. apply drun_conv. symmetry. exact Hh. }
      rewrite (rc_fd fs' ds' k _ Hh2).
      destruct (restat_clean (graph_of gl (d_h ds')) (world_of_d ds') k (mkC (c_s x) (unwant (c_want x) k))) as [x2|];
        [|discriminate].
      inversion Ed' as [[Est Ex]].
      destruct (dstep_cases cmd gl hid ds s p k) as [[_ [Hw [Hph Hdn]]]|[Hs' _]].
      + change (ei_phony (g_edge gl k)) with (phony k) in Hph. rewrite Hw, Hph, Hdn. cbn [negb andb].
        eexists. reflexivity.
      + exfalso. rewrite Hs' in Est. apply (f_equal (fun d => h_trace (d_h d))) in Est. cbn beta in Est.
        unfold ds' in Est. rewrite Htr in Est. symmetry in Est. apply (cons_neq k _ Est).
    - inversion Ed' as [[Est Ex]].
      destruct (dstep_cases cmd gl hid ds s p k) as [[Hs' _]|[_ Hno]].
      + exfalso. rewrite Hs' in Est. apply (f_equal (fun d => h_trace (d_h d))) in Est. cbn beta in Est.
        rewrite Htr in Est. apply (cons_neq k _ Est).
      + change (ei_phony (g_edge gl k)) with (phony k) in Hno.
        assert (Hb : (want_start p k && negb (phony k) && dirty_now_d gl s (dbuild_upto cmd gl hid s p k ds) k)%bool = false).
        { destruct Hno as [Hp|[Hw|Hdn]]; [rewrite Hp, andb_false_r; reflexivity|rewrite Hw; reflexivity|rewrite Hdn; apply andb_false_r]. }
        rewrite Hb. eexists. reflexivity. }
  destruct (Hloop (g_nedges g) (le_n _)) as [x E]. rewrite E. reflexivity.
Qed.

Lemma fapply_step_f_eq fs ds x : Sim g fs ds -> GoodD cmd gl hid ds ->
  match x with Build T => hidden_srcs_present g hid (f_h fs) && targets_known g T | _ => true end = true ->
  fapply_step_f cmd g hid fs (FS x) = fapply_step cmd g hid fs (FS x).
Proof.
  intros HS HG Hp. destruct x as [n c|n|e h|T]; try reflexivity.
  apply andb_true_iff in Hp. destruct Hp as [Hpres HT].
  cbn [fapply_step_f fapply_step]. rewrite (fbuild_f_eq_fbuild_partial fs ds T HS HG Hpres HT). reflexivity.
Qed.

Theorem frun_hist_f_eq : forall h fs ds,
  Sim g fs ds -> GoodD cmd gl hid ds -> hist_ok g h = true -> hist_present_f cmd g hid fs h = true ->
  frun_hist_f cmd g hid fs (map FS h) = frun_hist cmd g hid fs (map FS h).
Proof.
  induction h as [|x h IH]; intros fs ds HS HG Hok Hp; [reflexivity|].
  cbn [hist_ok forallb] in Hok. apply andb_true_iff in Hok. destruct Hok as [Hx Hh].
  cbn [hist_present_f] in Hp. apply andb_true_iff in Hp. destruct Hp as [Hpx Hph].
  cbn [map].
  change (frun_hist_f cmd g hid fs (FS x :: map FS h)) with (frun_hist_f cmd g hid (fapply_step_f cmd g hid fs (FS x)) (map FS h)).
  change (frun_hist cmd g hid fs (FS x :: map FS h)) with (frun_hist cmd g hid (fapply_step cmd g hid fs (FS x)) (map FS h)).
  rewrite (fapply_step_f_eq fs ds x HS HG Hpx).
  destruct (sim_step cmd g hid Hwf Hwg Hfrag Htopo fs ds x HS HG Hx) as [HS1 HG1].
  apply (IH _ _ HS1 HG1 Hh Hph).
Qed.

(* the C10 depfile history theorems for the faithful loop *)
Theorem C10df_equiv_f h :
  hist_ok g h = true -> hist_present_f cmd g hid (init_fstate g) h = true ->
  f_h (frun_hist_f cmd g hid (init_fstate g) (map FS h)) = run_hist cmd (inline g hid) (init_hstate (inline g hid)) h.
Proof.
  intros Hok Hp.
  rewrite (frun_hist_f_eq h (init_fstate g) (init_dstate gl) (sim_init g) (goodd_init cmd gl hid) Hok Hp).
  exact (C10df_equiv_proof cmd g hid Hwf Hwg Hfrag Htopo Hord Hnr Hnip h Hok Hp).
Qed.

Theorem C10df_C01_f h T fs' :
  (forall e hh hh' S o, ei_generator (g_edge g e) = true -> cmd e hh S o = cmd e hh' S o) ->
  hist_ok g h = true -> hist_present_f cmd g hid (init_fstate g) (h ++ [Build T]) = true ->
  fbuild_f cmd g hid (frun_hist_f cmd g hid (init_fstate g) (map FS h)) T = Some fs' ->
  forall n, reach (inline g hid) T n -> content_of (f_h fs') n = clean_of_f cmd g hid fs' n.
Proof.
  intros Hgen Hok Hp Hb.
  pose proof Hp as Hp'. rewrite (hist_present_f_app cmd g hid) in Hp'. apply andb_true_iff in Hp'. destruct Hp' as [Hp1 Hp2].
  rewrite (frun_hist_f_eq h (init_fstate g) (init_dstate gl) (sim_init g) (goodd_init cmd gl hid) Hok Hp1) in Hb.
  destruct (hist_sim cmd g hid Hwf Hwg Hfrag Htopo h (init_fstate g) (init_dstate gl) (sim_init g) (goodd_init cmd gl hid) Hok)
    as [HS [HG _]].
  cbn [hist_present_f] in Hp2. rewrite andb_true_r in Hp2. apply andb_true_iff in Hp2. destruct Hp2 as [Hpres HT].
  rewrite (fbuild_f_eq_fbuild_partial _ _ T HS HG Hpres HT) in Hb.
  exact (C10df_C01_proof cmd g hid Hwf Hwg Hfrag Htopo Hord Hnr Hnip h T fs' Hgen Hok Hp Hb).
Qed.

End Equiv.

Definition fbuild_f_eq_fbuild_full : Prop :=
  hidden_reads_ordered_f g hid = true -> no_restat_upstream_of_depfile g hid = true ->
  no_inputless_phony g = true ->
  forall fs ds T, Sim g fs ds -> GoodD cmd gl hid ds ->
    hidden_srcs_present g hid (f_h fs) = true -> targets_known g T = true ->
    fbuild_f cmd g hid fs T = fbuild cmd g hid fs T.

End FaithF.

(* ================================================================== the example projects *)
Example ExF_premises :
  frag_ABF ExF.g ExF.hid && topo_ordered (inline ExF.g ExF.hid) && hidden_reads_ordered_f ExF.g ExF.hid
  && no_restat_upstream_of_depfile ExF.g ExF.hid && no_inputless_phony ExF.g
  && no_restat_above_depfile ExF.g ExF.hid = true /\
  hist_ok ExF.g ExF.hist0 = true /\ hist_present_f ExF.cmd ExF.g ExF.hid ExF.fs0 ExF.hist0 = true /\
  f_h (frun_hist_f ExF.cmd ExF.g ExF.hid ExF.fs0 ExF.hist) = f_h (frun_hist ExF.cmd ExF.g ExF.hid ExF.fs0 ExF.hist) /\
  f_df (frun_hist_f ExF.cmd ExF.g ExF.hid ExF.fs0 ExF.hist) 1%nat = f_df (frun_hist ExF.cmd ExF.g ExF.hid ExF.fs0 ExF.hist) 1%nat.
Proof. vm_compute. repeat split; reflexivity. Qed.

Lemma ExFDF_wf_spec : wf_spec ExFDF.g.
Proof.
  split; [|split].
  - intros e o Ho. destruct e as [|[|e]]; cbn in Ho; try (destruct Ho as [<-|[]]; reflexivity); destruct Ho.
  - intros n e Hp. destruct n as [|[|[|[|n]]]]; cbn in Hp; try discriminate; inversion Hp; subst; cbn; left; reflexivity.
  - intros e Hd. destruct e as [|[|e]]; cbn in *; try congruence. split; [reflexivity|lia].
Qed.

Lemma ExFDF_wf_graph : wf_graph ExFDF.g.
Proof.
  intros n e Hp. destruct n as [|[|[|[|n]]]]; cbn in Hp; try discriminate; inversion Hp; subst; cbn; lia.
Qed.

(* every premise of (1) but the presence of the hidden sources holds, and the two loops differ *)
Example ExFDF_needs_presence :
  frag_ABF ExFDF.g ExFDF.hid && topo_ordered (inline ExFDF.g ExFDF.hid) && hidden_reads_ordered_f ExFDF.g ExFDF.hid
  && no_restat_upstream_of_depfile ExFDF.g ExFDF.hid && no_inputless_phony ExFDF.g
  && no_restat_above_depfile ExFDF.g ExFDF.hid = true /\
  hist_ok ExFDF.g ExFDF.pre0 = true /\
  hidden_srcs_present ExFDF.g ExFDF.hid (f_h ExFDF.fs2) = false /\
  (exists fsf fsu, fbuild_f Ex.cmd ExFDF.g ExFDF.hid ExFDF.fs2 [3%nat] = Some fsf /\
                   fbuild Ex.cmd ExFDF.g ExFDF.hid ExFDF.fs2 [3%nat] = Some fsu /\
                   h_trace (f_h fsf) = [0%nat] ++ h_trace (f_h ExFDF.fs2) /\
                   h_trace (f_h fsu) = [1; 0]%nat ++ h_trace (f_h ExFDF.fs2) /\
                   map (content_of (f_h fsf)) [0; 1; 2; 3]%nat = map (content_of (f_h fsu)) [0; 1; 2; 3]%nat).
Proof.
  split; [vm_compute; reflexivity|]. split; [vm_compute; reflexivity|]. split; [vm_compute; reflexivity|].
  vm_compute. eexists. eexists. repeat split; reflexivity.
Qed.
