(* Proofs about the faithful build loop for the recorded-deps model ([dbuild_f], HistDepsFaithful.v).
   No axioms.
   Part N : what the Nodes carry after an accepted scan of a manifest WITH deps statements
            (HistFaithfulProofs' Part N redone for fragment D).
   Part F : Plan::CleanNode never runs out of fuel on these graphs ([dbuild_f_never_out_of_fuel]).
   Part L : under the premises of the C10 history theorems, [dbuild_f] runs in LOCKSTEP with the
            faithful loop of the inlined manifest ([build_f] on [inline g hid]); with
            HistFaithfulProofs.build_f_eq_build and HistDepsProofs.equiv_upto this gives
            [dbuild_f_eq_dbuild], and the C10 theorems for the faithful loop. *)
From NinjaV Require Import Engine.CrashDefs.
From NinjaV Require Import Base.Bytes Engine.ScanDefs Engine.ScanSpec Engine.ScanProofs Engine.HistDefs Engine.HistProofs Engine.HistRun Engine.HistMinimal Engine.HistFaithful Engine.HistFaithfulProofs Engine.HistDepsDefs Engine.HistDepsProofs Engine.HistDepsFaithful.
Local Open Scope Z_scope.

(* ================================================================== Part N: the node states, fragment D *)
Section ScanNID.
Variable g : graph.
Variable w : world.
Hypothesis Hwf : wf_spec g.
Hypothesis Hwg : wf_graph g.
Hypothesis HfD : frag_D g = true.

Notation mark_of s e := (es_mark (st_edge s e)).
Notation ins_of s e := (es_ins (st_edge s e)).
Notation rnd := (recompute_node_dirty g w).
Notation nd s n := (st_node s n).

Lemma NI_same a b : st_node b = st_node a -> (forall e, mark_of b e = mark_of a e) -> NI g w a -> NI g w b.
Proof.
  intros En Em H n Hf. unfold NIat. rewrite En. apply H.
  unfold node_final in *. destruct (g_producer g n) as [e|]; [rewrite <- Em; exact Hf|rewrite <- En; exact Hf].
Qed.

Lemma NI_lstep e a b : lstep g e a b -> mark_of a e <> VisitDone -> NI g w a ->
  forall n, ~ In n (edge_outs g e) -> node_final g b n -> NIat g w b n.
Proof.
  intros [L1 L2] Ma HNa n Hno Hf. apply (NIat_eq g w a b n (L2 n Hno)). apply HNa.
  unfold node_final in *. destruct (g_producer g n) as [e'|] eqn:Hp'.
  - assert (Hne : e' <> e) by (intros ->; apply Hno; apply (prod_out g Hwf n e Hp')).
    rewrite <- (L1 e' Hne). exact Hf.
  - rewrite <- (L2 n Hno). exact Hf.
Qed.

(* closing the frame of [e] *)
Lemma NI_finish e sX d : NI g w sX -> mark_of sX e = VisitInStack ->
  (forall o, In o (edge_outs g e) -> ns_exists (nd sX o) = ex_of (w_mtime w o) /\ ns_dirty (nd sX o) = false) ->
  (forall o, In o (edge_outs g e) -> d = true \/ ei_phony (g_edge g e) = false -> ns_mtime (nd sX o) = w_mtime w o) ->
  NI g w (finish_edge g sX e d).
Proof.
  intros HN MX Hex Hmt.
  destruct (finish_edge_props g e sX d) as [A9 [M9 I9]].
  destruct (st_node_finish_edge g e sX d) as [N9m [N9 [N9f N9t]]].
  intros n Hf. destruct (in_dec Nat.eq_dec n (edge_outs g e)) as [Hin|Hno].
  - split; [rewrite (proj2 (N9m n)); apply (proj1 (Hex n Hin))|].
    intros Hcase. rewrite (proj1 (N9m n)). apply (Hmt n Hin).
    destruct Hcase as [Hd|Hnp]; [|right; apply (Hnp e (out_prod g Hwf e n Hin))].
    left. destruct d; [reflexivity|]. rewrite (N9f eq_refl n), (proj2 (Hex n Hin)) in Hd. discriminate.
  - apply (NIat_eq g w sX _ n (N9 n Hno)). apply HN.
    unfold node_final in *. destruct (g_producer g n) as [e'|] eqn:Hp'; [|rewrite <- (N9 n Hno); exact Hf].
    assert (Hne : e' <> e) by (intros ->; apply Hno; apply (prod_out g Hwf n e Hp')).
    rewrite <- (A9 e' Hne). exact Hf.
Qed.

Lemma rnd_NID : forall f stack n s vs s' vs',
  rnd f stack n (s, vs) = SOk (s', vs') -> SInv g w s -> NI g w s -> NI g w s'.
Proof.
  induction f as [|f IH]; intros stack n s vs s' vs' H HS HN; [discriminate|].
  destruct (g_producer g n) as [e|] eqn:Hp.
  2:{ cbn [recompute_node_dirty] in H. rewrite Hp in H.
      destruct (n_known (st_node s n)) eqn:Hk; [inversion H; subst; exact HN|].
      inversion H; subst s' vs'. clear H. intros n' Hf.
      destruct (Nat.eq_dec n' n) as [->|Hne].
      - unfold NIat, set_dirty, stat_if_necessary. rewrite Hk. rewrite !upd_node_same.
        cbn [ns_exists ns_mtime ns_dirty]. split; [reflexivity|intros _; reflexivity].
      - assert (E : nd (set_dirty (stat_if_necessary w s n) n
                          (negb (n_exists (nd (stat_if_necessary w s n) n)))) n' = nd s n').
        { unfold set_dirty. rewrite upd_node_other by exact Hne. apply stat_other. exact Hne. }
        apply (NIat_eq g w s _ n' E). apply HN.
        assert (Es : st_edge (set_dirty (stat_if_necessary w s n) n
                          (negb (n_exists (nd (stat_if_necessary w s n) n)))) = st_edge s)
          by (cbn [set_dirty upd_node st_edge]; apply st_edge_stat_if_necessary).
        unfold node_final in *. destruct (g_producer g n') as [e'|]; [rewrite Es in Hf; exact Hf|]. rewrite <- E. exact Hf. }
  destruct (mark_of s e) eqn:Hm.
  2:{ cbn [recompute_node_dirty] in H. rewrite Hp, Hm in H. discriminate. }
  2:{ cbn [recompute_node_dirty] in H. rewrite Hp, Hm in H. inversion H; subst. exact HN. }
  pose proof (Hwg n e Hp) as He.
  rewrite (rnd_none_unfold g w f stack n e s vs Hp Hm) in H.
  destruct HS as [S1 [S2 [S3 S4]]]. destruct (S3 e Hm) as [Hdl Hins]. rewrite Hdl in H.
  destruct (s2_props g w e s) as [A2 [M2 I2]].
  set (s2 := stat_outputs w (enter_edge s e) (edge_outs g e)) in *.
  assert (LS2 : lstep g e s s2).
  { split; [exact A2|]. intros n' Hn'. subst s2. rewrite stat_outputs_other by exact Hn'. reflexivity. }
  assert (HS2 : SInv g w s2).
  { apply (SInv_lstep g w Hwf e s s2 (conj S1 (conj S2 (conj S3 S4))) LS2); [rewrite Hm; discriminate|exact M2]. }
  assert (Hopen : forall a, mark_of a e = VisitInStack -> (forall n', ~ In n' (edge_outs g e) -> node_final g a n' -> NIat g w a n') -> NI g w a).
  { intros a Ma Ha n' Hf. apply Ha; [|exact Hf]. intros Hin. unfold node_final in Hf.
    rewrite (out_prod g Hwf e n' Hin), Ma in Hf. discriminate. }
  assert (HN2 : NI g w s2) by (apply (Hopen s2 M2); apply (NI_lstep e s s2 LS2); [rewrite Hm; discriminate|exact HN]).
  assert (T2 : forall o, In o (edge_outs g e) -> statted w s2 o).
  { intros o Ho. subst s2. apply stat_outputs_statted; [exact Ho|].
    intros o' Ho'. left. change (nd (enter_edge s e) o') with (nd s o').
    apply (S2 o' e (out_prod g Hwf e o' Ho') Hm). }
  set (visit := rnd f (stack ++ [n])) in *.
  assert (Hvisit : forall l sa va sb vb, SInv g w sa /\ NI g w sa -> visit_all visit l (sa, va) = SOk (sb, vb) ->
            (SInv g w sb /\ NI g w sb) /\ vrel g sa sb).
  { intros l sa va sb vb Pa V.
    destruct (visit_all_rel (fun a : sv => SInv g w (fst a) /\ NI g w (fst a))
                         (fun a b : sv => vrel g (fst a) (fst b))
                         (fun (i : node) (a : sv) => True) visit
                         (fun a => vrel_refl g (fst a))
                         (fun a b c => vrel_trans g (fst a) (fst b) (fst c))
                         (fun i a0 a1 _ _ => I) l) with (a := (sa, va)) (a' := (sb, vb)) as [A [B _]]; [|exact Pa|exact V|].
    - intros i [sa0 va0] [sb0 vb0] _ [HSa HNa] Hv. cbn [fst] in *.
      destruct (rnd_spec g w Hwf _ _ _ _ _ _ _ Hv HSa) as [HSb [Vab _]].
      split; [split; [exact HSb|apply (IH _ _ _ _ _ _ Hv HSa HNa)]|]. split; [exact Vab|exact I].
    - split; [exact A|exact B]. }
  destruct (visit_all visit (ins_of s2 e) (s2, vs ++ ei_vals (g_edge g e))) as [[s3 vs3]|c|e'|] eqn:V1;
    try discriminate.
  destruct (Hvisit _ _ _ _ _ (conj HS2 HN2) V1) as [[HS3 HN3] V23].
  assert (E23 : st_edge s3 e = st_edge s2 e) by (apply (ext_marked s2 s3 e (proj1 V23)); rewrite M2; discriminate).
  assert (M3 : mark_of s3 e = VisitInStack) by (rewrite E23; exact M2).
  assert (I3 : ins_of s3 e = ei_ins (g_edge g e)) by (rewrite E23, I2; exact Hins).
  assert (T3 : forall o, In o (edge_outs g e) -> statted w s3 o).
  { intros o Ho. unfold statted. rewrite (proj2 V23 o); [apply T2; exact Ho|].
    unfold settled. rewrite (out_prod g Hwf e o Ho), M2. discriminate. }
  destruct (after_inputs_shape g w visit e _ _ s3 vs3 s' vs' H) as [s4 [mri [dirty [dirty1 [s5 [Hev [Hod Hbr]]]]]]].
  pose proof (local_eval_inputs g e _ _ _ _ _ _ _ _ Hev) as L34.
  pose proof (st_node_eval_inputs g e _ _ _ _ _ _ _ _ Hev) as N34.
  assert (E45 : st_edge s5 = st_edge s4).
  { destruct dirty; [inversion Hod; subst; reflexivity|].
    pose proof (st_edge_outputs_dirty_all g w e mri (edge_outs g e) s4) as Hx. rewrite Hod in Hx. exact Hx. }
  assert (N45 : (forall x, ~ In x (edge_outs g e) -> nd s5 x = nd s4 x) /\
                (forall x, ns_dirty (nd s5 x) = ns_dirty (nd s4 x)) /\
                (forall x, ns_exists (nd s5 x) = ns_exists (nd s4 x))).
  { destruct dirty; [inversion Hod; subst; repeat split; reflexivity|].
    destruct (oda_nodes g w e mri _ _ _ _ Hod) as [A B]. split; [exact A|]. split; [exact B|].
    apply (oda_exists g w e mri _ _ _ _ Hod). }
  destruct N45 as [N45a [N45b N45c]].
  assert (LS35 : lstep g e s3 s5).
  { split.
    - intros e' Hne. rewrite E45. apply (proj1 L34 e' Hne).
    - intros x Hx. rewrite (N45a x Hx), N34. reflexivity. }
  assert (M5 : mark_of s5 e = VisitInStack) by (rewrite E45, (proj1 (proj2 L34)); exact M3).
  assert (I5 : ins_of s5 e = ei_ins (g_edge g e)) by (rewrite E45, (proj2 (proj2 L34)); exact I3).
  assert (HN5 : NI g w s5) by (apply (Hopen s5 M5); apply (NI_lstep e s3 s5 LS35); [rewrite M3; discriminate|exact HN3]).
  assert (Hex5 : forall o, In o (edge_outs g e) -> ns_exists (nd s5 o) = ex_of (w_mtime w o) /\ ns_dirty (nd s5 o) = false).
  { intros o Ho. destruct (T3 o Ho) as [Tm [Tx Td]]. rewrite N45c, N45b, N34. split; [exact Tx|exact Td]. }
  (* the cached mtime of an output is the disk's unless a phony statement with inputs was found clean *)
  assert (Hmt5 : forall o, In o (edge_outs g e) ->
            ei_phony (g_edge g e) = false \/ dirty = true \/ ei_ins (g_edge g e) = [] ->
            ns_mtime (nd s5 o) = w_mtime w o).
  { intros o Ho Hc. destruct (T3 o Ho) as [Tm _].
    assert (Hsame : s5 = s4 -> ns_mtime (nd s5 o) = w_mtime w o) by (intros ->; rewrite N34; exact Tm).
    destruct dirty; [inversion Hod; subst; apply Hsame; reflexivity|].
    destruct Hc as [Hph|[Hc|Hnil]]; [|discriminate|].
    - rewrite (oda_nonphony g w e mri Hph) in Hod. inversion Hod; subst. apply Hsame. reflexivity.
    - rewrite I3, Hnil in Hev. cbn [eval_inputs] in Hev. inversion Hev; subst s4 mri.
      apply Hsame. apply (oda_none g w e _ _ _ _ Hod). }
  assert (Hd1 : dirty1 = true -> ei_phony (g_edge g e) = false \/ dirty = true \/ ei_ins (g_edge g e) = []).
  { intros ->. destruct dirty; [right; left; reflexivity|].
    destruct (ei_phony (g_edge g e)) eqn:Hph; [|left; reflexivity]. right; right.
    destruct (ei_ins (g_edge g e)) as [|i0 l0] eqn:Hie; [reflexivity|].
    assert (Hne4 : ins_of s4 e <> []) by (rewrite (proj2 (proj2 L34)), I3; discriminate).
    pose proof (oda_phony_false g w e mri Hph _ _ _ _ Hne4 Hod). discriminate. }
  destruct Hbr as [[Hd [_ [b [_ Hs']]]]|[[Hd [Hlf [_ Hs']]]|[Hd [l [s7 [s8 [mri2 [dirty2 [Hl [V2 [Hev2 Hs']]]]]]]]]]]; subst s'.
  - (* dirty before the deps are looked at *)
    set (sX := if b then set_deps_missing s5 e true else s5).
    assert (EX : st_node sX = st_node s5 /\ forall e', mark_of sX e' = mark_of s5 e').
    { subst sX. destruct b; [|split; reflexivity]. split; [reflexivity|]. intros e'. unfold set_deps_missing.
      destruct (Nat.eq_dec e' e) as [->|Hne]; [rewrite upd_edge_same; reflexivity|rewrite upd_edge_other by exact Hne; reflexivity]. }
    destruct EX as [EXn EXm].
    apply (NI_finish e sX true (NI_same s5 sX EXn EXm HN5)); [rewrite EXm; exact M5| |].
    + intros o Ho. rewrite EXn. apply (Hex5 o Ho).
    + intros o Ho _. rewrite EXn. apply (Hmt5 o Ho (Hd1 Hd)).
  - (* the record is unusable: only for a deps statement, which is not phony *)
    assert (Hph : ei_phony (g_edge g e) = false).
    { destruct (deps_kind_cases g e HfD He) as [Hdk|Hdk].
      - rewrite (load_deps_none g w e s5 Hdk) in Hlf. discriminate.
      - apply (frag_D_edge g e HfD He). exact Hdk. }
    set (sX := set_deps_missing s5 e true).
    assert (EXm : forall e', mark_of sX e' = mark_of s5 e').
    { intros e'. unfold sX, set_deps_missing.
      destruct (Nat.eq_dec e' e) as [->|Hne]; [rewrite upd_edge_same; reflexivity|rewrite upd_edge_other by exact Hne; reflexivity]. }
    apply (NI_finish e sX true (NI_same s5 sX eq_refl EXm HN5)); [rewrite EXm; exact M5| |].
    + intros o Ho. apply (Hex5 o Ho).
    + intros o Ho _. apply (Hmt5 o Ho (or_introl Hph)).
  - (* the record is spliced in and its nodes are visited *)
    set (s6 := splice_deps g s5 e l) in *.
    assert (E6 : st_node s6 = st_node s5 /\ forall e', mark_of s6 e' = mark_of s5 e').
    { split; [reflexivity|]. intros e'. unfold s6, splice_deps, set_ins.
      destruct (Nat.eq_dec e' e) as [->|Hne]; [rewrite upd_edge_same; reflexivity|rewrite upd_edge_other by exact Hne; reflexivity]. }
    destruct E6 as [E6n E6m].
    assert (HS6 : SInv g w s6).
    { destruct (visit_all visit l (s6, vs3)) eqn:Hx; try discriminate. clear Hx.
      (* SInv of the spliced state: as in ScanProofs, by a local step *)
      apply (SInv_lstep g w Hwf e s5 s6); [|split|rewrite M5; discriminate|rewrite E6m; exact M5].
      - apply (SInv_lstep g w Hwf e s3 s5 HS3 LS35); [rewrite M3; discriminate|exact M5].
      - intros e' Hne. unfold s6, splice_deps, set_ins. apply upd_edge_other. exact Hne.
      - intros x _. rewrite E6n. reflexivity. }
    destruct (Hvisit _ _ _ _ _ (conj HS6 (NI_same s5 s6 E6n E6m HN5)) V2) as [[HS7 HN7] V67].
    assert (M6 : mark_of s6 e = VisitInStack) by (rewrite E6m; exact M5).
    assert (E67 : st_edge s7 e = st_edge s6 e) by (apply (ext_marked s6 s7 e (proj1 V67)); rewrite M6; discriminate).
    assert (M7 : mark_of s7 e = VisitInStack) by (rewrite E67; exact M6).
    pose proof (local_eval_inputs g e _ _ _ _ _ _ _ _ Hev2) as L78.
    pose proof (st_node_eval_inputs g e _ _ _ _ _ _ _ _ Hev2) as N78.
    assert (M8 : mark_of s8 e = VisitInStack) by (rewrite (proj1 (proj2 L78)); exact M7).
    assert (LS78 : lstep g e s7 s8) by (split; [apply (proj1 L78)|intros x _; rewrite N78; reflexivity]).
    assert (HN8 : NI g w s8) by (apply (Hopen s8 M8); apply (NI_lstep e s7 s8 LS78); [rewrite M7; discriminate|exact HN7]).
    assert (Ho8 : forall o, In o (edge_outs g e) -> nd s8 o = nd s5 o).
    { intros o Ho. rewrite N78. rewrite (proj2 V67 o); [rewrite E6n; reflexivity|].
      unfold settled. rewrite (out_prod g Hwf e o Ho), M6. discriminate. }
    apply (NI_finish e s8 _ HN8 M8).
    + intros o Ho. rewrite (Ho8 o Ho). apply (Hex5 o Ho).
    + intros o Ho Hc. rewrite (Ho8 o Ho). apply (Hmt5 o Ho).
      destruct (ei_phony (g_edge g e)) eqn:Hph; [|left; reflexivity]. exfalso.
      (* a phony statement has no record: nothing is spliced, the verdict stays "clean" *)
      assert (Hdk : ei_deps (g_edge g e) = DepsNone).
      { destruct (deps_kind_cases g e HfD He) as [Hdk|Hdk]; [exact Hdk|].
        destruct (frag_D_edge g e HfD He) as [_ [_ Hlog]]. destruct (Hlog Hdk) as [Hx _]. congruence. }
      rewrite (load_deps_none g w e s5 Hdk) in Hl. inversion Hl; subst l.
      cbn [eval_inputs] in Hev2. inversion Hev2; subst s8 mri2 dirty2.
      rewrite opt_node_eqb_refl in Hc. cbn [negb andb] in Hc. destruct Hc as [Hc|Hc]; discriminate.
Qed.

Lemma loop_NID : forall qf queue s found s' vs',
  recompute_dirty_loop g w qf queue s found = SOk (s', vs') -> SInv g w s -> NI g w s -> NI g w s'.
Proof.
  induction qf as [|qf IH]; intros queue s found s' vs' H HS HN; destruct queue as [|n queue];
    cbn [recompute_dirty_loop] in H; try discriminate.
  - inversion H; subst; exact HN.
  - inversion H; subst; exact HN.
  - destruct (rnd (scan_fuel g) [] n (s, [])) as [[s1 newv]|c|e|] eqn:Hv; try discriminate.
    apply (IH _ _ _ _ _ H); [apply (rnd_spec g w Hwf _ _ _ _ _ _ _ Hv HS)|apply (rnd_NID _ _ _ _ _ _ _ Hv HS HN)].
Qed.

Lemma add_targets_NID : forall targets s p s' p',
  add_targets g w s p targets = ScanOk s' p' -> SInv g w s -> NI g w s -> NI g w s'.
Proof.
  induction targets as [|t targets IH]; intros s p s' p' H HS HN; cbn [add_targets] in H.
  - inversion H; subst. exact HN.
  - pose proof (bat_result g w s p t) as Hb.
    destruct (builder_add_target g w s p t) as [c|m d|e| |s1 p1]; try discriminate.
    destruct Hb as [vn Hb]. unfold recompute_dirty in Hb.
    apply (IH _ _ _ _ H); [apply (loop_spec g w Hwf _ _ _ _ _ _ Hb HS)|apply (loop_NID _ _ _ _ _ _ Hb HS HN)].
Qed.

Theorem scan_NID T s p : scan g w T = ScanOk s p -> NI g w s.
Proof.
  intros H. apply (add_targets_NID T (init_state g) init_plan s p H (SInv_init g w)).
  intros n Hf. exfalso. unfold node_final in Hf. destruct (g_producer g n); cbn in Hf; discriminate.
Qed.

End ScanNID.

(* ================================================================== Part F: fuel *)
Lemma ofold_total {A X : Type} (P : X -> Prop) (f : A -> X -> option X) (l : list A) :
  (forall a x, In a l -> P x -> exists x', f a x = Some x' /\ P x') ->
  forall x, P x -> exists x', ofold f l x = Some x' /\ P x'.
Proof.
  induction l as [|a l IH]; intros Hf x Hx; cbn [ofold].
  - exists x. split; [reflexivity|exact Hx].
  - destruct (Hf a x (or_introl eq_refl) Hx) as [x1 [E1 P1]]. rewrite E1.
    apply (IH (fun b y Hb Hy => Hf b y (or_intror Hb) Hy) x1 P1).
Qed.

(* CleanNode walks from an input to the outputs of a statement that has it: on a graph where every
   statement comes after the producers of its inputs the recursion is bounded by the number of
   statements, whatever the flags are *)
Section Total.
Variable g : graph.
Variable w : world.
Variable SE : edge -> estate.
Hypothesis Hprod : forall e o, In o (ei_outs (g_edge g e)) -> g_producer g o = Some e.
Hypothesis Hwg : wf_graph g.
Hypothesis Hlt : forall e n e', (e < g_nedges g)%nat -> In n (es_ins (SE e)) -> g_producer g n = Some e' -> (e' < e)%nat.

Definition lvl (n : node) : nat :=
  match g_producer g n with Some en => (g_nedges g - en)%nat | None => S (g_nedges g) end.

Lemma cn_total : forall f n x, st_edge (c_s x) = SE -> (lvl n <= f)%nat ->
  exists x', clean_node g w f n x = Some x' /\ st_edge (c_s x') = SE.
Proof.
  induction f as [|f IH]; intros n x Hx Hl.
  - exfalso. unfold lvl in Hl. destruct (g_producer g n) as [en|] eqn:Hp; [|lia]. pose proof (Hwg n en Hp). lia.
  - cbn [clean_node].
    set (x1 := mkC (set_dirty (c_s x) n false) (c_want x)).
    assert (Hx1 : st_edge (c_s x1) = SE) by exact Hx.
    apply (ofold_total (fun y => st_edge (c_s y) = SE)); [|exact Hx1].
    intros e y He Hy. unfold out_edges in He. apply filter_In in He. destruct He as [He Hmem].
    apply in_seq in He. rewrite Hx1 in Hmem. apply mem_node_In in Hmem.
    assert (Hfe : forall o, In o (ei_outs (g_edge g e)) -> (lvl o <= f)%nat).
    { intros o Ho. unfold lvl in *. rewrite (Hprod e o Ho).
      destruct (g_producer g n) as [en|] eqn:Hp; [|lia].
      pose proof (Hlt e n en ltac:(lia) Hmem Hp). lia. }
    unfold clean_edge.
    destruct (c_want y e && negb (es_deps_missing (st_edge (c_s y) e))
              && forallb (fun i => negb (ns_dirty (st_node (c_s y) i))) (cn_nonoo g (c_s y) e))%bool;
      [|exists y; split; [reflexivity|exact Hy]].
    destruct (outputs_dirty_all g w e (edge_outs g e) (cn_mri (c_s y) (cn_nonoo g (c_s y) e)) (c_s y)) as [d s1] eqn:Hod.
    assert (E1 : st_edge s1 = SE).
    { pose proof (st_edge_outputs_dirty_all g w e (cn_mri (c_s y) (cn_nonoo g (c_s y) e)) (edge_outs g e) (c_s y)) as Hs.
      rewrite Hod in Hs. cbn [snd] in Hs. rewrite Hs. exact Hy. }
    destruct d; [exists (mkC s1 (c_want y)); split; [reflexivity|exact E1]|].
    destruct (ofold_total (fun z => st_edge (c_s z) = SE) (clean_node g w f) (edge_outs g e)) with (x := mkC s1 (c_want y))
      as [z [Ez Pz]]; [|exact E1|].
    + intros o z Ho Hz. apply (IH o z Hz (Hfe o Ho)).
    + rewrite Ez. eexists. split; [reflexivity|exact Pz].
Qed.

Lemma restat_clean_total e x : st_edge (c_s x) = SE ->
  exists x', restat_clean g w e x = Some x' /\ st_edge (c_s x') = SE.
Proof.
  intros Hx. unfold restat_clean. destruct (ei_restat (g_edge g e)); [|exists x; split; [reflexivity|exact Hx]].
  apply (ofold_total (fun y => st_edge (c_s y) = SE)); [|exact Hx].
  intros o y Ho Hy. destruct (Z.eqb _ _); [|exists y; split; [reflexivity|exact Hy]].
  apply (cn_total (clean_fuel g) o y Hy). unfold lvl, clean_fuel. rewrite (Hprod e o Ho). lia.
Qed.

End Total.

(* ================================================================== Part L: lockstep with the inlined manifest *)
(* ---- "downstream of a restat statement" through inputs of ANY kind (HistDepsDefs.taint follows
   what a command READS; Plan::CleanNode's out_edges() follow every input, order-only included) *)
Fixpoint taintA (g : graph) (hid : edge -> list node) (k : nat) : list bool :=
  match k with
  | O => []
  | S k' =>
    let t := taintA g hid k' in
    t ++ [ei_restat (g_edge g k')
          || existsb (fun i => match g_producer g i with Some u => nth u t false | None => false end)
                     (ei_ins (g_edge (inline g hid) k'))]
  end.

Definition taintedA (g : graph) (hid : edge -> list node) (u : edge) : bool :=
  nth u (taintA g hid (g_nedges g)) false.

Definition below_restat (g : graph) (hid : edge -> list node) (e : edge) : bool :=
  existsb (fun i => match g_producer g i with Some u => taintedA g hid u | None => false end)
          (ei_ins (g_edge (inline g hid) e)).

(* no deps statement has an input -- explicit, implicit, order-only or hidden -- that a restat
   statement can reach.  (Stronger than [no_restat_upstream_of_deps], which only looks at what the
   commands read.) *)
Definition no_restat_above_deps (g : graph) (hid : edge -> list node) : bool :=
  edges_all g (fun e => negb (is_deps_log (ei_deps (g_edge g e))) || negb (below_restat g hid e)).

Lemma taintA_length g hid k : length (taintA g hid k) = k.
Proof. induction k as [|k IH]; [reflexivity|]. cbn [taintA]. rewrite app_length, IH. cbn [length]. lia. Qed.

Lemma taintA_prefix g hid k k' u : (u < k)%nat -> (k <= k')%nat ->
  nth u (taintA g hid k') false = nth u (taintA g hid k) false.
Proof.
  intros Hu Hk. induction Hk as [|k' Hk IH]; [reflexivity|].
  cbn [taintA]. rewrite app_nth1 by (rewrite taintA_length; lia). exact IH.
Qed.

Lemma taintedA_spec g hid u :
  topo_ordered (inline g hid) = true -> (u < g_nedges g)%nat ->
  taintedA g hid u = (ei_restat (g_edge g u) || below_restat g hid u)%bool.
Proof.
  intros Ht Hu. unfold taintedA.
  rewrite (taintA_prefix g hid (S u) (g_nedges g) u) by lia.
  cbn [taintA]. rewrite app_nth2 by (rewrite taintA_length; lia).
  rewrite taintA_length, Nat.sub_diag. cbn [nth]. f_equal.
  unfold below_restat. apply existsb_ext_in'.
  intros i Hi. destruct (g_producer g i) as [u'|] eqn:Hp; [|reflexivity].
  unfold taintedA. symmetry. apply taintA_prefix; [|lia].
  pose proof (in_below (inline g hid) Ht u i) as Hb. cbn [inline g_nedges] in Hb. specialize (Hb Hu Hi).
  unfold below in Hb. cbn [inline g_producer] in Hb. rewrite Hp in Hb. exact Hb.
Qed.

(* the new side condition implies HistDepsDefs' one *)
Lemma tainted_A g hid : topo_ordered (inline g hid) = true -> frag_ABD g hid = true ->
  forall u, (u < g_nedges g)%nat -> tainted g hid u = true -> taintedA g hid u = true.
Proof.
  intros Ht Hf. induction u as [u IH] using lt_wf_ind. intros Hu Htu.
  rewrite (tainted_spec g hid u Ht Hf Hu) in Htu. rewrite (taintedA_spec g hid u Ht Hu).
  apply orb_true_iff in Htu. destruct Htu as [Hr|Hr]; [rewrite Hr; reflexivity|].
  apply orb_true_iff. right. unfold reads_tainted in Hr. apply existsb_exists in Hr. destruct Hr as [i [Hi Hti]].
  assert (Hin : In i (ei_ins (g_edge (inline g hid) u))).
  { rewrite <- (nonoo_inline g hid u Hf Hu) in Hi. apply (nonoo_incl (inline g hid) u). exact Hi. }
  unfold below_restat. apply existsb_exists. exists i. split; [exact Hin|].
  destruct (g_producer g i) as [u'|] eqn:Hp; [|discriminate].
  pose proof (in_below (inline g hid) Ht u i) as Hb. cbn [inline g_nedges] in Hb. specialize (Hb Hu Hin).
  unfold below in Hb. cbn [inline g_producer] in Hb. rewrite Hp in Hb.
  apply (IH u' Hb ltac:(lia) Hti).
Qed.

Lemma no_restat_above_upstream g hid :
  topo_ordered (inline g hid) = true -> frag_ABD g hid = true ->
  no_restat_above_deps g hid = true -> no_restat_upstream_of_deps g hid = true.
Proof.
  intros Ht Hf Hna. unfold no_restat_upstream_of_deps, edges_all. apply forallb_forall. intros e He. apply in_seq in He.
  pose proof (edges_all_spec g _ e Hna ltac:(lia)) as H. cbn beta in H.
  destruct (is_deps_log (ei_deps (g_edge g e))); [|reflexivity]. cbn [negb orb] in *.
  destruct (reads_tainted g hid e) eqn:Hr; [|reflexivity]. exfalso.
  assert (Hb : below_restat g hid e = true); [|rewrite Hb in H; discriminate].
  unfold reads_tainted in Hr. apply existsb_exists in Hr. destruct Hr as [i [Hi Hti]].
  unfold below_restat. apply existsb_exists. exists i. split.
  - rewrite <- (nonoo_inline g hid e Hf ltac:(lia)) in Hi. apply (nonoo_incl (inline g hid) e). exact Hi.
  - destruct (g_producer g i) as [u'|] eqn:Hp; [|discriminate].
    apply (tainted_A g hid Ht Hf u'); [|exact Hti].
    pose proof (in_below (inline g hid) Ht e i) as Hb. cbn [inline g_nedges] in Hb.
    assert (Hin : In i (ei_ins (g_edge (inline g hid) e))).
    { rewrite <- (nonoo_inline g hid e Hf ltac:(lia)) in Hi. apply (nonoo_incl (inline g hid) e). exact Hi. }
    specialize (Hb ltac:(lia) Hin). unfold below in Hb. cbn [inline g_producer] in Hb. rewrite Hp in Hb. lia.
Qed.

(* ---- generic: folds and tests on states that agree where they are read *)
Lemma ofold_lock {A X Y : Type} (R : X -> Y -> Prop) (f : A -> X -> option X) (h : A -> Y -> option Y) (l : list A) :
  (forall a x y x', In a l -> R x y -> f a x = Some x' -> exists y', h a y = Some y' /\ R x' y') ->
  forall x y x', R x y -> ofold f l x = Some x' -> exists y', ofold h l y = Some y' /\ R x' y'.
Proof.
  induction l as [|a l IH]; intros Hs x y x' HR H; cbn [ofold] in *.
  - inversion H; subst. exists y. split; [reflexivity|exact HR].
  - destruct (f a x) as [x1|] eqn:E1; [|discriminate].
    destruct (Hs a x y x1 (or_introl eq_refl) HR E1) as [y1 [E2 R1]]. rewrite E2.
    apply (IH (fun b x0 y0 x0' Hb => Hs b x0 y0 x0' (or_intror Hb)) x1 y1 x' R1 H).
Qed.

Lemma forallb_ext_in' {A : Type} (f f' : A -> bool) : forall l,
  (forall a, In a l -> f a = f' a) -> forallb f l = forallb f' l.
Proof.
  induction l as [|a l IH]; intros H; [reflexivity|]. cbn [forallb].
  rewrite (H a (or_introl eq_refl)), IH; [reflexivity|]. intros b Hb. apply H. right; exact Hb.
Qed.

Lemma cn_mri_agree s1 s2 : forall l mri0,
  (forall i, In i l -> st_node s1 i = st_node s2 i) ->
  (forall m, mri0 = Some m -> st_node s1 m = st_node s2 m) ->
  fold_left (fun mri i => newer s1 i mri) l mri0 = fold_left (fun mri i => newer s2 i mri) l mri0 /\
  (forall m, fold_left (fun mri i => newer s2 i mri) l mri0 = Some m -> st_node s1 m = st_node s2 m).
Proof.
  induction l as [|i l IH]; intros mri0 Hl H0; cbn [fold_left]; [split; [reflexivity|exact H0]|].
  assert (E : newer s1 i mri0 = newer s2 i mri0).
  { unfold newer. destruct mri0 as [m|]; [|reflexivity].
    rewrite (Hl i (or_introl eq_refl)), (H0 m eq_refl). reflexivity. }
  rewrite E. apply IH; [intros j Hj; apply Hl; right; exact Hj|].
  intros m Hm. unfold newer in Hm. destruct mri0 as [m0|].
  - destruct (Z.gtb _ _); inversion Hm; subst; [apply Hl; left; reflexivity|apply H0; reflexivity].
  - inversion Hm; subst. apply Hl; left; reflexivity.
Qed.

(* RecomputeOutputsDirty only looks at the statement's flags, the log entries and node states of
   its outputs, the most recent input, and whether the statement has inputs at all *)
Lemma oda_cong G1 G2 w1 w2 e mri :
  ei_phony (g_edge G1 e) = ei_phony (g_edge G2 e) -> ei_restat (g_edge G1 e) = ei_restat (g_edge G2 e) ->
  ei_generator (g_edge G1 e) = ei_generator (g_edge G2 e) -> ei_hash (g_edge G1 e) = ei_hash (g_edge G2 e) ->
  ei_vals (g_edge G1 e) = ei_vals (g_edge G2 e) -> (forall o, w_blog w1 o = w_blog w2 o) ->
  forall os s1 s2 d s1',
    es_ins (st_edge s1 e) = es_ins (st_edge s2 e) ->
    (forall o, In o os -> st_node s1 o = st_node s2 o) ->
    (forall m, mri = Some m -> st_node s1 m = st_node s2 m /\ ~ In m os) ->
    outputs_dirty_all G1 w1 e os mri s1 = (d, s1') ->
    exists s2', outputs_dirty_all G2 w2 e os mri s2 = (d, s2') /\
                st_edge s2' = st_edge s2 /\ st_edge s1' = st_edge s1 /\
                (forall n, ~ In n os -> st_node s2' n = st_node s2 n /\ st_node s1' n = st_node s1 n) /\
                (forall o, In o os -> st_node s1' o = st_node s2' o).
Proof.
  intros Hph Hre Hge Hha Hva Hbl. induction os as [|o os IH]; intros s1 s2 d s1' Hin Hos Hm H; cbn [outputs_dirty_all] in *.
  - inversion H; subst. exists s2. repeat split; try reflexivity. intros o [].
  - rewrite <- Hph. destruct (ei_phony (g_edge G1 e)) eqn:Hp.
    + unfold phony_output_dirty in *. rewrite <- Hin, <- Hva, <- (Hos o (or_introl eq_refl)).
      destruct (match es_ins (st_edge s1 e) with [] => true | _ :: _ => false end
                && match ei_vals (g_edge G1 e) with [] => true | _ :: _ => false end
                && negb (n_exists (st_node s1 o)))%bool.
      * inversion H; subst. exists s2. split; [reflexivity|]. split; [reflexivity|]. split; [reflexivity|].
        split; [intros n _; split; reflexivity|exact Hos].
      * destruct mri as [m|].
        -- destruct (Hm m eq_refl) as [Em Hnm].
           set (t1 := update_phony_mtime s1 o (ns_mtime (st_node s1 m))) in *.
           set (t2 := update_phony_mtime s2 o (ns_mtime (st_node s2 m))).
           assert (Et : st_edge t1 = st_edge s1 /\ st_edge t2 = st_edge s2 /\
                        (forall n, n <> o -> st_node t1 n = st_node s1 n /\ st_node t2 n = st_node s2 n) /\
                        st_node t1 o = st_node t2 o).
           { unfold t1, t2, update_phony_mtime. rewrite <- (Hos o (or_introl eq_refl)), <- Em.
             destruct (n_exists (st_node s1 o)).
             - split; [reflexivity|]. split; [reflexivity|]. split; [intros n _; split; reflexivity|apply Hos; left; reflexivity].
             - split; [reflexivity|]. split; [reflexivity|]. split.
               + intros n Hn. split; apply upd_node_other; exact Hn.
               + rewrite !upd_node_same. reflexivity. }
           destruct Et as [Et1 [Et2 [Eto Ett]]].
           destruct (IH t1 t2 d s1') as [s2' [E2 [A [B [C D]]]]]; [rewrite Et1, Et2; exact Hin| | |exact H|].
           ++ intros o' Ho'. destruct (Nat.eq_dec o' o) as [->|Hne]; [exact Ett|].
              rewrite (proj1 (Eto o' Hne)), (proj2 (Eto o' Hne)). apply Hos. right; exact Ho'.
           ++ intros m' Hm'. inversion Hm'; subst m'.
              assert (Hmo : m <> o) by (intros ->; apply Hnm; left; reflexivity).
              rewrite (proj1 (Eto m Hmo)), (proj2 (Eto m Hmo)). split; [exact Em|intros Hi; apply Hnm; right; exact Hi].
           ++ exists s2'. split; [exact E2|]. split; [rewrite A; exact Et2|]. split; [rewrite B; exact Et1|]. split.
              ** intros n Hn. destruct (C n (fun Hi => Hn (or_intror Hi))) as [C1 C2].
                 assert (Hno : n <> o) by (intros ->; apply Hn; left; reflexivity).
                 rewrite C1, C2. exact (conj (proj2 (Eto n Hno)) (proj1 (Eto n Hno))).
              ** intros o' [<-|Ho']; [|apply D; exact Ho'].
                 destruct (in_dec Nat.eq_dec o os) as [Hio|Hnio]; [apply D; exact Hio|].
                 destruct (C o Hnio) as [C1 C2]. rewrite C1, C2. exact Ett.
        -- destruct (IH s1 s2 d s1' Hin (fun o' Ho' => Hos o' (or_intror Ho')) (fun m' Hm' => ltac:(discriminate)) H)
             as [s2' [E2 [A [B [C D]]]]].
           exists s2'. split; [exact E2|]. split; [exact A|]. split; [exact B|]. split.
           ++ intros n Hn. apply C. intros Hi. apply Hn. right; exact Hi.
           ++ intros o' [<-|Ho']; [|apply D; exact Ho'].
              destruct (in_dec Nat.eq_dec o os) as [Hio|Hnio]; [apply D; exact Hio|].
              destruct (C o Hnio) as [C1 C2]. rewrite C1, C2. apply Hos. left; reflexivity.
    + assert (Eo : output_dirty_first G1 w1 e o (mri_mtime s1 mri) s1 = output_dirty_first G2 w2 e o (mri_mtime s2 mri) s2).
      { unfold output_dirty_first. rewrite Hre, Hge, Hha, (Hbl o), (Hos o (or_introl eq_refl)).
        assert (Emm : mri_mtime s1 mri = mri_mtime s2 mri).
        { destruct mri as [m|]; [|reflexivity]. cbn [mri_mtime]. rewrite (proj1 (Hm m eq_refl)). reflexivity. }
        rewrite Emm. reflexivity. }
      rewrite <- Eo. destruct (output_dirty_first G1 w1 e o (mri_mtime s1 mri) s1).
      * inversion H; subst. exists s2. split; [reflexivity|]. split; [reflexivity|]. split; [reflexivity|].
        split; [intros n _; split; reflexivity|exact Hos].
      * destruct (IH s1 s2 d s1' Hin (fun o' Ho' => Hos o' (or_intror Ho'))
                    (fun m' Hm' => conj (proj1 (Hm m' Hm')) (fun Hi => proj2 (Hm m' Hm') (or_intror Hi))) H)
          as [s2' [E2 [A [B [C D]]]]].
        exists s2'. split; [exact E2|]. split; [exact A|]. split; [exact B|]. split.
        -- intros n Hn. apply C. intros Hi. apply Hn. right; exact Hi.
        -- intros o' [<-|Ho']; [|apply D; exact Ho'].
           destruct (in_dec Nat.eq_dec o os) as [Hio|Hnio]; [apply D; exact Hio|].
           destruct (C o Hnio) as [C1 C2]. rewrite C1, C2. apply Hos. left; reflexivity.
Qed.

Section DepsF.
Variable cmd : edge -> N -> snapshot -> node -> content.
Variable g : graph.
Variable hid : edge -> list node.
Hypothesis Hwf : wf_spec g.
Hypothesis Hwg : wf_graph g.
Hypothesis Hfrag : frag_ABD g hid = true.
Hypothesis Htopo : topo_ordered (inline g hid) = true.

Notation gi := (inline g hid).
Notation outs e := (ei_outs (g_edge g e)).
Notation phony e := (ei_phony (g_edge g e)).
Notation GoodD := (GoodD cmd g hid).

Lemma dbuild_upto_f_S s p k ds :
  dbuild_upto_f cmd g hid s p (S k) ds = dbuild_step_f cmd g hid (dbuild_upto_f cmd g hid s p k ds) k.
Proof. unfold dbuild_upto_f. rewrite seq_S, fold_left_app. reflexivity. Qed.

(* (3) an accepted scan is a finished faithful build *)
Theorem dbuild_f_never_out_of_fuel ds T s p :
  GoodD ds -> dscan g ds T = ScanOk s p -> exists ds', dbuild_f cmd g hid ds T = Some ds'.
Proof.
  intros HG Hs. unfold dbuild_f. rewrite Hs.
  assert (Hlt : forall st e n e', (e < g_nedges (graph_of g st))%nat -> In n (es_ins (st_edge s e)) ->
                  g_producer (graph_of g st) n = Some e' -> (e' < e)%nat).
  { intros st e n e' He Hin Hp. change (g_producer g n = Some e') in Hp. change (e < g_nedges g)%nat in He.
    pose proof (ins0_in_gi cmd g hid Hwf Hwg Hfrag ds T s p HG Hs e n Hin) as Hin'.
    pose proof (in_below gi Htopo e n He Hin') as Hb. unfold below in Hb. cbn [inline g_producer] in Hb.
    rewrite Hp in Hb. exact Hb. }
  assert (Hloop : forall k, exists ds' x, dbuild_upto_f cmd g hid s p k ds = Some (ds', x) /\ st_edge (c_s x) = st_edge s).
  { induction k as [|k [dk [x [E Hx]]]].
    - exists ds, (init_cst s p). split; reflexivity.
    - rewrite dbuild_upto_f_S, E. unfold dbuild_step_f.
      destruct (dirty_now_f x k && negb (phony k))%bool; [|exists dk, x; split; [reflexivity|exact Hx]].
      set (ds' := drun_edge cmd g hid dk k).
      destruct (restat_clean_total (graph_of g (d_h ds')) (world_of_d ds') (st_edge s)
                  (proj1 Hwf) Hwg (Hlt (d_h ds')) k (mkC (c_s x) (unwant (c_want x) k)) Hx) as [x' [E' Hx']].
      rewrite E'. exists ds', x'. split; [reflexivity|exact Hx']. }
  destruct (Hloop (g_nedges g)) as [ds' [x [E _]]]. rewrite E. exists ds'. reflexivity.
Qed.

(* ---- one accepted build of both manifests *)
Section Lock.
Hypothesis Hord : hidden_reads_ordered g hid = true.
Hypothesis Hnr : no_restat_upstream_of_deps g hid = true.
Hypothesis Hnip : no_inputless_phony g = true.
Hypothesis Hna : no_restat_above_deps g hid = true.
Variables (ds0 : dstate) (T : list node) (sd : sstate) (pd : plan) (si : sstate) (pi : plan).
Hypothesis HG0 : GoodD ds0.
Hypothesis Hsd : dscan g ds0 T = ScanOk sd pd.
Hypothesis Hsi : scan (graph_of gi (d_h ds0)) (world_of (d_h ds0)) T = ScanOk si pi.

Notation st0 := (d_h ds0).
Notation Gd0 := (graph_of g (d_h ds0)).
Notation Wd0 := (world_of_d ds0).
Notation Gi0 := (graph_of gi (d_h ds0)).
Notation Wi0 := (world_of (d_h ds0)).
Notation n_ := (g_nedges g).
Notation nd s n := (st_node s n).

Let HfD : frag_D g = true := frag_ABD_D g hid Hfrag.
Let Hwfi : wf_spec gi := wf_spec_inline g hid Hwf.
Let Hwgi : wf_graph gi := wf_graph_inline g hid Hwg.
Let Hfi : frag_AB gi = true := frag_AB_inline g hid HfD.

Lemma Gd0_wf : wf_spec Gd0. Proof. exact Hwf. Qed.
Lemma Gd0_wg : wf_graph Gd0. Proof. exact Hwg. Qed.
Lemma Gd0_fD : frag_D Gd0 = true. Proof. exact HfD. Qed.
Lemma Gi0_wf : wf_spec Gi0. Proof. exact Hwfi. Qed.
Lemma Gi0_wg : wf_graph Gi0. Proof. exact Hwgi. Qed.
Lemma Gi0_f : frag_AB Gi0 = true. Proof. exact Hfi. Qed.

(* final in both scans *)
Definition FB (n : node) : Prop := node_final Gd0 sd n /\ node_final Gi0 si n.

Lemma nstate_eq (a b : nstate) :
  ns_dirty a = ns_dirty b -> ns_mtime a = ns_mtime b -> ns_exists a = ns_exists b -> a = b.
Proof. destruct a, b; cbn. intros -> -> ->. reflexivity. Qed.

(* the two scans leave the same thing in a node both have looked at *)
Lemma scan_nd_eq n : FB n -> nd sd n = nd si n.
Proof.
  intros [Fd Fi].
  destruct (accepted_factsD Gd0 Wd0 Gd0_wf Gd0_wg Gd0_fD T sd pd Hsd) as [[S1d _] _].
  destruct (accepted_facts Gi0 Wi0 Gi0_wf Gi0_wg Gi0_f T si pi Hsi) as [[S1i _] _].
  destruct (S1d n Fd) as [Dd Md]. destruct (S1i n Fi) as [Di Mi].
  destruct (scan_NID Gd0 Wd0 Gd0_wf Gd0_wg Gd0_fD T sd pd Hsd n Fd) as [Xd Td].
  destruct (scan_NI Gi0 Wi0 Gi0_wf Gi0_wg Gi0_f T si pi Hsi n Fi) as [Xi Ti].
  assert (Hdirty : ns_dirty (nd sd n) = ns_dirty (nd si n)).
  { destruct (ns_dirty (nd sd n)) eqn:E1; destruct (ns_dirty (nd si n)) eqn:E2; try reflexivity; exfalso.
    - assert (H : false = true); [|discriminate].
      apply (proj2 Di). apply (md_d_i cmd g hid Hwf Hwg Hfrag ds0 n HG0). apply (proj1 Dd). reflexivity.
    - assert (H : false = true); [|discriminate].
      apply (proj2 Dd). apply (md_i_d cmd g hid Hwf Hwg Hfrag ds0 n HG0). apply (proj1 Di). reflexivity. }
  apply nstate_eq; [exact Hdirty| |rewrite Xd, Xi; reflexivity].
  destruct (ns_dirty (nd sd n)) eqn:E1.
  - rewrite (Td (or_introl eq_refl)), (Ti (or_introl (eq_sym Hdirty))). reflexivity.
  - assert (H : forall x, x < ns_mtime (nd sd n) <-> x < ns_mtime (nd si n)).
    { intros x. rewrite (Md eq_refl x), (Mi (eq_sym Hdirty) x). split.
      - apply (newer_d_i g hid Hwg Hfrag ds0 x n).
      - apply (newer_i_d g hid Hwg Hfrag ds0 x n). }
    destruct (Z.lt_trichotomy (ns_mtime (nd sd n)) (ns_mtime (nd si n))) as [Hlt|[Heq|Hgt]]; [|exact Heq|].
    + apply (H (ns_mtime (nd sd n))) in Hlt. lia.
    + apply (H (ns_mtime (nd si n))) in Hgt. lia.
Qed.

(* a statement of the plan is finished in both scans, with all its inputs and outputs *)
Lemma wanted_both e : want_start pd e = true ->
  (e < n_)%nat /\ es_mark (st_edge sd e) = VisitDone /\ es_mark (st_edge si e) = VisitDone /\
  (forall i, In i (es_ins (st_edge sd e)) -> node_final Gd0 sd i) /\
  (forall i, In i (ei_ins (g_edge gi e)) -> node_final Gi0 si i).
Proof.
  intros Hw.
  destruct (accepted_factsD Gd0 Wd0 Gd0_wf Gd0_wg Gd0_fD T sd pd Hsd) as [_ [HRd [[_ [P1d _]] _]]].
  destruct (accepted_facts Gi0 Wi0 Gi0_wf Gi0_wg Gi0_f T si pi Hsi) as [_ [HRi [[_ [P1i _]] _]]].
  assert (Hwi : want_start pi e = true) by (rewrite <- (want_eq cmd g hid Hwf Hwg Hfrag Hord Hnip ds0 T sd pd si pi HG0 Hsd Hsi e); exact Hw).
  apply want_start_iff in Hw. apply want_start_iff in Hwi.
  assert (Hd : wantd pd e) by (unfold wantd; rewrite Hw; discriminate).
  assert (Hi : wantd pi e) by (unfold wantd; rewrite Hwi; discriminate).
  destruct (P1d e Hd) as [Md [[n [_ Hp]] _]]. destruct (P1i e Hi) as [Mi _].
  split; [apply (Hwg n e Hp)|]. split; [exact Md|]. split; [exact Mi|]. split.
  - apply (proj1 (HRd e Md)).
  - destruct (HRi e Mi) as [_ [Ifin _]]. exact Ifin.
Qed.

Lemma final_out s (G' : graph) e o : g_producer G' o = Some e -> es_mark (st_edge s e) = VisitDone -> node_final G' s o.
Proof. intros Hp Hm. unfold node_final. rewrite Hp. exact Hm. Qed.

(* the relation kept between the two faithful loops *)
Definition Rl (xd xi : cst) : Prop :=
  st_edge (c_s xd) = st_edge sd /\ st_edge (c_s xi) = st_edge si /\
  (forall e, c_want xd e = c_want xi e) /\
  (forall e, c_want xd e = true -> want_start pd e = true) /\
  (forall n, FB n -> nd (c_s xd) n = nd (c_s xi) n).

(* produced by a statement a restat statement can reach *)
Definition clA (n : node) : Prop := exists u, g_producer g n = Some u /\ taintedA g hid u = true.

Lemma clA_edge n e : clA n -> (e < n_)%nat -> In n (ei_ins (g_edge gi e)) ->
  taintedA g hid e = true /\ ei_deps (g_edge g e) = DepsNone /\ hid e = [].
Proof.
  intros [u [Hp Ht]] He Hin.
  assert (Hb : below_restat g hid e = true).
  { unfold below_restat. apply existsb_exists. exists n. split; [exact Hin|]. rewrite Hp. exact Ht. }
  assert (Hte : taintedA g hid e = true) by (rewrite (taintedA_spec g hid e Htopo He), Hb; apply orb_true_r).
  assert (Hdk : ei_deps (g_edge g e) = DepsNone).
  { destruct (deps_kind_cases g e HfD He) as [Hd|Hd]; [exact Hd|]. exfalso.
    pose proof (edges_all_spec g _ e Hna He) as H. cbn beta in H. rewrite Hd, Hb in H. discriminate. }
  split; [exact Hte|]. split; [exact Hdk|apply (hid_none g hid Hfrag e He Hdk)].
Qed.

Lemma ins_same e : ei_deps (g_edge g e) = DepsNone -> hid e = [] ->
  es_ins (st_edge sd e) = ei_ins (g_edge gi e).
Proof.
  intros Hd Hh. rewrite (ins_now_none g hid Hwf Hwg Hfrag ds0 T sd pd Hsd e Hd).
  cbn [inline g_edge inline_edge ei_ins]. rewrite Hh. symmetry. apply splice_nil_r.
Qed.

Lemma ins_i e : es_ins (st_edge si e) = ei_ins (g_edge gi e).
Proof. apply (scan_ins Gi0 Wi0 Gi0_wf Gi0_wg Gi0_f T si pi Hsi e). Qed.

Lemma mem_node_iff a l1 l2 : (In a l1 <-> In a l2) -> mem_node a l1 = mem_node a l2.
Proof.
  intros H. destruct (mem_node a l1) eqn:E1; destruct (mem_node a l2) eqn:E2; try reflexivity.
  - apply mem_node_In in E1. apply H in E1. apply mem_node_In in E1. congruence.
  - apply mem_node_In in E2. apply H in E2. apply mem_node_In in E2. congruence.
Qed.

(* Node::out_edges() of a generated node is the same in both manifests (a generated hidden read is
   also a manifest input: hidden_reads_ordered) *)
Lemma out_edges_eq st' xd xi n u : Rl xd xi -> g_producer g n = Some u ->
  out_edges (graph_of g st') (c_s xd) n = out_edges (graph_of gi st') (c_s xi) n.
Proof.
  intros [Ed [Ei _]] Hp. unfold out_edges. change (g_nedges (graph_of gi st')) with (g_nedges (graph_of g st')).
  apply filter_ext_in. intros e He. apply in_seq in He. change (g_nedges (graph_of g st')) with n_ in He.
  rewrite Ed, Ei, ins_i. apply mem_node_iff. split.
  - apply (ins0_in_gi cmd g hid Hwf Hwg Hfrag ds0 T sd pd HG0 Hsd e n).
  - intros Hin. apply (manifest_in0 g hid Hwf Hwg Hfrag ds0 T sd pd Hsd e n).
    apply (inline_ins_in g hid e n) in Hin. destruct Hin as [Hin|Hin]; [exact Hin|].
    apply (hid_generated g hid Hord e n u ltac:(lia) Hin Hp).
Qed.

Lemma Rl_clear xd xi n : Rl xd xi ->
  Rl (mkC (set_dirty (c_s xd) n false) (c_want xd)) (mkC (set_dirty (c_s xi) n false) (c_want xi)).
Proof.
  intros [Ed [Ei [Hw [Hw0 Hn]]]]. split; [exact Ed|]. split; [exact Ei|]. split; [exact Hw|]. split; [exact Hw0|].
  intros m Hm. cbn [c_s]. unfold set_dirty. destruct (Nat.eq_dec m n) as [->|Hne].
  - rewrite !upd_node_same, (Hn n Hm). reflexivity.
  - rewrite !upd_node_other by exact Hne. apply (Hn m Hm).
Qed.

(* Plan::CleanNode in lockstep *)
Lemma cn_lock st' wd wi : (forall o, w_blog wd o = w_blog wi o) ->
  forall f n xd xi xd', Rl xd xi -> clA n ->
    clean_node (graph_of g st') wd f n xd = Some xd' ->
    exists xi', clean_node (graph_of gi st') wi f n xi = Some xi' /\ Rl xd' xi'.
Proof.
  intros Hbl. induction f as [|f IH]; intros n xd xi xd' HR Hcl H; [discriminate|].
  cbn [clean_node] in *. destruct Hcl as [u [Hpn Htu]].
  pose proof (Rl_clear xd xi n HR) as HR1.
  set (x1d := mkC (set_dirty (c_s xd) n false) (c_want xd)) in *.
  set (x1i := mkC (set_dirty (c_s xi) n false) (c_want xi)) in *.
  rewrite <- (out_edges_eq st' x1d x1i n u HR1 Hpn).
  refine (ofold_lock Rl _ _ _ (fun e yd yi yd' He HRy Hce => _) x1d x1i xd' HR1 H).
  (* one out-edge *)
  unfold out_edges in He. apply filter_In in He. destruct He as [He Hmem]. apply in_seq in He.
  change (g_nedges (graph_of g st')) with n_ in He.
  assert (Hin : In n (ei_ins (g_edge gi e))).
  { apply mem_node_In in Hmem. rewrite (proj1 HR1) in Hmem.
    apply (ins0_in_gi cmd g hid Hwf Hwg Hfrag ds0 T sd pd HG0 Hsd e n Hmem). }
  destruct (clA_edge n e (ex_intro _ u (conj Hpn Htu)) ltac:(lia) Hin) as [Hte [Hdk Hhid]].
  destruct HRy as [Ed [Ei [Hw [Hw0 Hn]]]].
  unfold clean_edge in *. rewrite <- (Hw e).
  destruct (c_want yd e) eqn:Hwe; cbn [andb] in *; [|inversion Hce; subst; exists yi; split; [reflexivity|repeat split; assumption]].
  destruct (wanted_both e (Hw0 e Hwe)) as [_ [Md [Mi [Fd Fi]]]].
  assert (Eins : es_ins (st_edge (c_s yd) e) = es_ins (st_edge (c_s yi) e)).
  { rewrite Ed, Ei, ins_i. apply (ins_same e Hdk Hhid). }
  assert (Enoo : cn_nonoo (graph_of g st') (c_s yd) e = cn_nonoo (graph_of gi st') (c_s yi) e).
  { unfold cn_nonoo. rewrite Eins. reflexivity. }
  assert (Hnoo_in : forall i, In i (cn_nonoo (graph_of gi st') (c_s yi) e) -> In i (ei_ins (g_edge gi e))).
  { intros i Hi. unfold cn_nonoo in Hi. rewrite Ei, ins_i in Hi.
    destruct (Nat.ltb _ _); [exact Hi|].
    rewrite <- (firstn_skipn (length (ei_ins (g_edge gi e)) - ei_noo (g_edge (graph_of gi st') e)) (ei_ins (g_edge gi e))).
    apply in_or_app. left. exact Hi. }
  assert (Hfb_in : forall i, In i (ei_ins (g_edge gi e)) -> FB i).
  { intros i Hi. split; [|apply Fi; exact Hi]. apply Fd. rewrite (ins_same e Hdk Hhid). exact Hi. }
  assert (Hfb_out : forall o, In o (ei_outs (g_edge g e)) -> FB o).
  { intros o Ho. split; [apply (final_out sd Gd0 e o (proj1 Hwf e o Ho) Md)|apply (final_out si Gi0 e o (proj1 Hwf e o Ho) Mi)]. }
  assert (Hdmd : es_deps_missing (st_edge (c_s yd) e) = false).
  { rewrite Ed.
    destruct (accepted_factsD Gd0 Wd0 Gd0_wf Gd0_wg Gd0_fD T sd pd Hsd) as [_ [HRd _]].
    destruct (HRd e Md) as [_ [_ [_ [_ [_ H6]]]]].
    destruct (es_deps_missing (st_edge sd e)) eqn:Hm; [|reflexivity].
    pose proof (proj2 H6 eq_refl) as Hl. rewrite (spec_load_none Gd0 Wd0 e Hdk) in Hl. discriminate. }
  assert (Hdmi : es_deps_missing (st_edge (c_s yi) e) = false).
  { rewrite Ei. apply (scan_DM Gi0 Wi0 Gi0_wf Gi0_wg Gi0_f T si pi Hsi e). }
  rewrite Hdmd in Hce. rewrite Hdmi. cbn [negb andb] in *. rewrite <- Enoo.
  assert (Efl : forallb (fun i => negb (ns_dirty (nd (c_s yd) i))) (cn_nonoo (graph_of g st') (c_s yd) e) =
                forallb (fun i => negb (ns_dirty (nd (c_s yi) i))) (cn_nonoo (graph_of g st') (c_s yd) e)).
  { apply forallb_ext_in'. intros i Hi. rewrite Enoo in Hi. rewrite (Hn i (Hfb_in i (Hnoo_in i Hi))). reflexivity. }
  rewrite <- Efl.
  destruct (forallb (fun i => negb (ns_dirty (nd (c_s yd) i))) (cn_nonoo (graph_of g st') (c_s yd) e));
    [|inversion Hce; subst; exists yi; split; [reflexivity|repeat split; assumption]].
  set (l := cn_nonoo (graph_of g st') (c_s yd) e) in *.
  destruct (cn_mri_agree (c_s yd) (c_s yi) l None) as [Emri Hmri];
    [intros i Hi; rewrite Enoo in Hi; apply (Hn i (Hfb_in i (Hnoo_in i Hi)))|discriminate|].
  change (fold_left (fun mri i => newer (c_s yd) i mri) l None) with (cn_mri (c_s yd) l) in Emri.
  change (fold_left (fun mri i => newer (c_s yi) i mri) l None) with (cn_mri (c_s yi) l) in Emri, Hmri.
  rewrite <- Emri.
  destruct (outputs_dirty_all (graph_of g st') wd e (edge_outs (graph_of g st') e) (cn_mri (c_s yd) l) (c_s yd))
    as [d s1d] eqn:Hod.
  change (edge_outs (graph_of gi st') e) with (edge_outs (graph_of g st') e).
  destruct (oda_cong (graph_of g st') (graph_of gi st') wd wi e (cn_mri (c_s yd) l)
              eq_refl eq_refl eq_refl eq_refl eq_refl Hbl
              (edge_outs (graph_of g st') e) (c_s yd) (c_s yi) d s1d Eins)
    as [s1i [Eod [A [B [C D]]]]]; [| |exact Hod|].
  { intros o Ho. apply (Hn o (Hfb_out o Ho)). }
  { intros m Hm. split; [apply Hmri; rewrite <- Emri; exact Hm|].
    pose proof (proj2 (cn_mri_spec (c_s yd) l) m Hm) as Hml. rewrite Enoo in Hml.
    assert (Hegi : (e < g_nedges gi)%nat) by (cbn [inline g_nedges]; lia).
    pose proof (in_below gi Htopo e m Hegi (Hnoo_in m Hml)) as Hb.
    intros Ho. unfold below in Hb. cbn [inline g_producer] in Hb.
    rewrite (proj1 Hwf e m Ho) in Hb. lia. }
  rewrite Eod.
  assert (HR2 : Rl (mkC s1d (c_want yd)) (mkC s1i (c_want yi))).
  { split; [cbn [c_s]; rewrite B; exact Ed|]. split; [cbn [c_s]; rewrite A; exact Ei|].
    split; [exact Hw|]. split; [exact Hw0|]. intros m Hm. cbn [c_s].
    destruct (in_dec Nat.eq_dec m (edge_outs (graph_of g st') e)) as [Hio|Hno]; [apply (D m Hio)|].
    destruct (C m Hno) as [C1 C2]. rewrite C1, C2. apply (Hn m Hm). }
  destruct d; [inversion Hce; subst; eexists; split; [reflexivity|exact HR2]|].
  destruct (ofold (clean_node (graph_of g st') wd f) (edge_outs (graph_of g st') e) (mkC s1d (c_want yd))) as [zd|] eqn:Hz;
    [|discriminate].
  destruct (ofold_lock Rl (clean_node (graph_of g st') wd f) (clean_node (graph_of gi st') wi f)
              (edge_outs (graph_of g st') e)
              (fun o a b a' Ho HRa Ha => IH o a b a' HRa (ex_intro _ e (conj (proj1 Hwf e o Ho) Hte)) Ha)
              _ _ zd HR2 Hz) as [zi [Ezi HRz]].
  rewrite Ezi. inversion Hce; subst yd'. eexists. split; [reflexivity|].
  destruct HRz as [Zd [Zi [Zw [Zw0 Zn]]]]. split; [exact Zd|]. split; [exact Zi|]. split; [|split; [|exact Zn]].
  - intros e'. unfold unwant. cbn [c_want]. destruct (Nat.eqb e' e); [reflexivity|apply Zw].
  - intros e' He'. unfold unwant in He'. cbn [c_want] in He'. destruct (Nat.eqb e' e); [discriminate|apply (Zw0 e' He')].
Qed.

(* the restat loop of FinishCommand in lockstep *)
Lemma rc_lock st' wd wi k xd xi xd' :
  (forall o, w_blog wd o = w_blog wi o) -> (forall o, w_mtime wd o = w_mtime wi o) ->
  Rl xd xi -> want_start pd k = true ->
  restat_clean (graph_of g st') wd k xd = Some xd' ->
  exists xi', restat_clean (graph_of gi st') wi k xi = Some xi' /\ Rl xd' xi'.
Proof.
  intros Hbl Hmt HR Hw H. unfold restat_clean in *.
  change (ei_restat (g_edge (graph_of gi st') k)) with (ei_restat (g_edge (graph_of g st') k)).
  destruct (ei_restat (g_edge (graph_of g st') k)) eqn:Hre; [|inversion H; subst; exists xi; split; [reflexivity|exact HR]].
  change (ei_outs (g_edge (graph_of gi st') k)) with (ei_outs (g_edge (graph_of g st') k)).
  destruct (wanted_both k Hw) as [Hk [Md [Mi _]]].
  assert (Htk : taintedA g hid k = true).
  { rewrite (taintedA_spec g hid k Htopo Hk). change (ei_restat (g_edge g k) = true) in Hre. rewrite Hre. reflexivity. }
  refine (ofold_lock Rl _ _ _ (fun o yd yi yd' Ho HRy Hco => _) xd xi xd' HR H).
  change (In o (ei_outs (g_edge g k))) in Ho.
  assert (Hfb : FB o) by (split; [apply (final_out sd Gd0 k o (proj1 Hwf k o Ho) Md)|apply (final_out si Gi0 k o (proj1 Hwf k o Ho) Mi)]).
  destruct HRy as [Ed [Ei [Hww [Hw0 Hn]]]]. cbn beta in Hco. cbn beta. rewrite <- (Hn o Hfb), <- (Hmt o).
  destruct (Z.eqb (ns_mtime (nd (c_s yd) o)) (w_mtime wd o)) eqn:Hz.
  - apply (cn_lock st' wd wi Hbl _ o yd yi yd' (conj Ed (conj Ei (conj Hww (conj Hw0 Hn))))
             (ex_intro _ k (conj (proj1 Hwf k o Ho) Htk)) Hco).
  - inversion Hco; subst. exists yi. split; [reflexivity|repeat split; assumption].
Qed.

Notation dstk k := (dbuild_upto cmd g hid sd pd k ds0).
Notation istk k := (build_upto cmd gi pi k (d_h ds0)).

Lemma cons_neq (a : edge) (l : list edge) : l <> a :: l.
Proof. intros H. apply (f_equal (@length edge)) in H. cbn [length] in H. lia. Qed.

Lemma Rl_init : Rl (init_cst sd pd) (init_cst si pi).
Proof.
  split; [reflexivity|]. split; [reflexivity|]. split; [|split].
  - intros e. cbn [init_cst c_want]. apply (want_eq cmd g hid Hwf Hwg Hfrag Hord Hnip ds0 T sd pd si pi HG0 Hsd Hsi e).
  - intros e He. exact He.
  - intros n Hn. apply (scan_nd_eq n Hn).
Qed.

(* the faithful loop of the deps manifest goes through the states of HistDepsDefs.dbuild *)
Lemma lock k : (k <= n_)%nat ->
  exists xd xi, dbuild_upto_f cmd g hid sd pd k ds0 = Some (dstk k, xd) /\
                build_upto_f cmd gi si pi k (d_h ds0) = Some (istk k, xi) /\ Rl xd xi.
Proof.
  induction k as [|k IH]; intros Hk.
  - exists (init_cst sd pd), (init_cst si pi). split; [reflexivity|]. split; [reflexivity|apply Rl_init].
  - destruct (IH ltac:(lia)) as [xd [xi [Ed [Ei HR]]]].
    pose proof (proj1 HG0) as HGi.
    destruct (faithful_eq cmd gi Hwfi Hwgi Hfi Htopo (d_h ds0) T si pi HGi Hsi
                (nip_inline g hid Hfrag Hnip) (S k) ltac:(cbn [inline g_nedges]; lia)) as [xi' [Ei' _]].
    pose proof (equiv_upto cmd g hid Hwf Hwg Hfrag Htopo ds0 T sd pd HG0 Hsd Hord Hnr Hnip si pi Hsi k ltac:(lia)) as Eqk.
    pose proof (equiv_upto cmd g hid Hwf Hwg Hfrag Htopo ds0 T sd pd HG0 Hsd Hord Hnr Hnip si pi Hsi (S k) Hk) as EqS.
    rewrite build_upto_f_S, Ei in Ei'. rewrite dbuild_upto_f_S, Ed.
    unfold build_step_f in Ei'. unfold dbuild_step_f, dirty_now_f in *.
    change (ei_phony (g_edge gi k)) with (phony k) in Ei'.
    destruct HR as [Rd [Ri [Rw [Rw0 Rn]]]]. rewrite (Rw k).
    destruct (c_want xi k && negb (phony k))%bool eqn:Hc.
    + (* the command of [k] runs *)
      apply andb_true_iff in Hc. destruct Hc as [Hwk Hph]. apply negb_true_iff in Hph.
      assert (Hws : want_start pd k = true) by (apply Rw0; rewrite (Rw k); exact Hwk).
      destruct (restat_clean (graph_of gi (run_edge cmd gi (istk k) k)) (world_of (run_edge cmd gi (istk k) k)) k
                  (mkC (c_s xi) (unwant (c_want xi) k))) as [xi2|] eqn:Hri; [|discriminate].
      inversion Ei' as [[Est Exi]]. subst xi2.
      set (ds' := drun_edge cmd g hid (dstk k) k).
      assert (Eh : d_h ds' = istk (S k)).
      { unfold ds'. rewrite (drun_edge_h cmd g hid Hfrag (dstk k) k ltac:(lia)), Eqk. exact Est. }
      assert (Eds : dstk (S k) = ds').
      { destruct (dstep_cases cmd g hid ds0 sd pd k) as [[Hs _]|[Hs _]]; [exact Hs|]. exfalso.
        rewrite Hs, Eqk in EqS. rewrite <- Est in EqS.
        apply (f_equal h_trace) in EqS. rewrite run_edge_trace in EqS. apply (cons_neq k _ EqS). }
      assert (Hlt : forall st e n e', (e < g_nedges (graph_of g st))%nat -> In n (es_ins (st_edge sd e)) ->
                      g_producer (graph_of g st) n = Some e' -> (e' < e)%nat).
      { intros st e n e' He Hin Hp. change (g_producer g n = Some e') in Hp. change (e < g_nedges g)%nat in He.
        pose proof (ins0_in_gi cmd g hid Hwf Hwg Hfrag ds0 T sd pd HG0 Hsd e n Hin) as Hin'.
        pose proof (in_below gi Htopo e n He Hin') as Hb. unfold below in Hb. cbn [inline g_producer] in Hb.
        rewrite Hp in Hb. exact Hb. }
      destruct (restat_clean_total (graph_of g (d_h ds')) (world_of_d ds') (st_edge sd)
                  (proj1 Hwf) Hwg (Hlt (d_h ds')) k (mkC (c_s xd) (unwant (c_want xd) k)) Rd) as [xd' [Erd _]].
      rewrite Erd.
      assert (HR0 : Rl (mkC (c_s xd) (unwant (c_want xd) k)) (mkC (c_s xi) (unwant (c_want xi) k))).
      { split; [exact Rd|]. split; [exact Ri|]. split; [|split; [|exact Rn]].
        - intros e. unfold unwant. cbn [c_want]. destruct (Nat.eqb e k); [reflexivity|apply Rw].
        - intros e He. unfold unwant in He. cbn [c_want] in He. destruct (Nat.eqb e k); [discriminate|apply (Rw0 e He)]. }
      rewrite Eh in Erd. rewrite Est in Hri.
      destruct (rc_lock (istk (S k)) (world_of_d ds') (world_of (istk (S k))) k _ _ xd'
                  (fun o => ltac:(cbn [world_of_d world_of w_blog]; rewrite Eh; reflexivity))
                  (fun o => ltac:(cbn [world_of_d world_of w_mtime]; rewrite Eh; reflexivity))
                  HR0 Hws Erd) as [xi2 [Hri2 HR2]].
      rewrite Hri in Hri2. inversion Hri2; subst xi2.
      exists xd', xi'. rewrite Eds. split; [reflexivity|]. split; [rewrite build_upto_f_S, Ei; unfold build_step_f, dirty_now_f;
        change (ei_phony (g_edge gi k)) with (phony k); rewrite Hwk, Hph; cbn [negb andb]; rewrite Est, Hri; reflexivity|exact HR2].
    + (* it does not *)
      inversion Ei' as [[Est Exi]]. subst xi'.
      assert (Eds : dstk (S k) = dstk k).
      { destruct (dstep_cases cmd g hid ds0 sd pd k) as [[Hs _]|[Hs _]]; [|exact Hs]. exfalso.
        rewrite Hs, (drun_edge_h cmd g hid Hfrag (dstk k) k ltac:(lia)), Eqk, <- Est in EqS.
        apply (f_equal h_trace) in EqS. rewrite run_edge_trace in EqS. symmetry in EqS. apply (cons_neq k _ EqS). }
      exists xd, xi. rewrite Eds. split; [reflexivity|]. split.
      * rewrite build_upto_f_S, Ei. unfold build_step_f, dirty_now_f.
        change (ei_phony (g_edge gi k)) with (phony k). rewrite Hc, Est. reflexivity.
      * repeat split; assumption.
Qed.

End Lock.

(* ================================================================== the theorems *)
Section Main.
Hypothesis Hord : hidden_reads_ordered g hid = true.
Hypothesis Hnr : no_restat_upstream_of_deps g hid = true.
Hypothesis Hnip : no_inputless_phony g = true.

(* (1), PARTIAL.  The full statement is [dbuild_f_eq_dbuild_full] below: the same without [Hna].
   What is missing: with a deps statement that has an ORDER-ONLY input below a restat statement
   (not read, so [no_restat_upstream_of_deps] allows it) Plan::CleanNode does look at that deps
   statement, and in the deps manifest it tests it against fewer inputs (the record is not spliced
   in when the statement was dirty at scan time) than in the inlined manifest: the two cascades
   are no longer syntactically in lockstep there, and one needs the invariant of
   HistFaithfulProofs Part C (flags versus the current disk) for fragment D to see that both leave
   the statement in the plan. *)
Section WithHna.
Hypothesis Hna : no_restat_above_deps g hid = true.

Theorem dbuild_f_eq_dbuild_partial ds T :
  GoodD ds -> hidden_srcs_present g hid (d_h ds) = true -> targets_known g T = true ->
  dbuild_f cmd g hid ds T = dbuild cmd g hid ds T.
Proof.
  intros HG Hpres HT. unfold dbuild_f, dbuild.
  destruct (dscan g ds T) as [c|m d|e| |s p] eqn:Hs; try reflexivity.
  destruct (proj1 (accept_equiv cmd g hid Hwf Hwg Hfrag Htopo Hord Hnip ds T HG Hpres HT)) as [si [pi Hsi]];
    [exists s, p; exact Hs|].
  destruct (lock Hord Hnr Hnip Hna ds T s p si pi HG Hs Hsi (g_nedges g) (le_n _)) as [xd [xi [Ed _]]].
  rewrite Ed. reflexivity.
Qed.

Lemma dapply_step_f_eq ds x : GoodD ds ->
  match x with Build T => hidden_srcs_present g hid (d_h ds) && targets_known g T | _ => true end = true ->
  dapply_step_f cmd g hid ds x = dapply_step cmd g hid ds x.
Proof.
  intros HG Hp. destruct x as [n c|n|e h|T]; try reflexivity.
  apply andb_true_iff in Hp. destruct Hp as [Hpres HT].
  cbn [dapply_step_f dapply_step]. rewrite (dbuild_f_eq_dbuild_partial ds T HG Hpres HT). reflexivity.
Qed.

Theorem drun_hist_f_eq : forall h ds,
  GoodD ds -> hist_ok g h = true -> hist_present cmd g hid ds h = true ->
  drun_hist_f cmd g hid ds h = drun_hist cmd g hid ds h.
Proof.
  induction h as [|x h IH]; intros ds HG Hok Hp; [reflexivity|].
  cbn [hist_ok forallb] in Hok. apply andb_true_iff in Hok. destruct Hok as [Hx Hh].
  cbn [hist_present] in Hp. apply andb_true_iff in Hp. destruct Hp as [Hpx Hph].
  change (drun_hist_f cmd g hid ds (x :: h)) with (drun_hist_f cmd g hid (dapply_step_f cmd g hid ds x) h).
  change (drun_hist cmd g hid ds (x :: h)) with (drun_hist cmd g hid (dapply_step cmd g hid ds x) h).
  rewrite (dapply_step_f_eq ds x HG Hpx). apply IH; [|exact Hh|exact Hph].
  apply (goodd_step cmd g hid Hwf Hfrag Htopo ds x HG Hx).
Qed.

(* the C10 history theorems for the faithful loop *)
Theorem C10_equiv_f h :
  hist_ok g h = true -> hist_present cmd g hid (init_dstate g) h = true ->
  d_h (drun_hist_f cmd g hid (init_dstate g) h) = run_hist cmd gi (init_hstate gi) h.
Proof.
  intros Hok Hp. rewrite (drun_hist_f_eq h _ (goodd_init cmd g hid) Hok Hp).
  apply (C10_equiv_present_proof cmd g hid Hwf Hwg Hfrag Htopo Hord Hnr Hnip h Hok Hp).
Qed.

Theorem C10_C01_f h T ds' :
  (forall e hh hh' S o, ei_generator (g_edge g e) = true -> cmd e hh S o = cmd e hh' S o) ->
  hist_ok g h = true -> hist_present cmd g hid (init_dstate g) (h ++ [Build T]) = true ->
  dbuild_f cmd g hid (drun_hist_f cmd g hid (init_dstate g) h) T = Some ds' ->
  forall n, reach gi T n -> content_of (d_h ds') n = clean_of_d cmd g hid ds' n.
Proof.
  intros Hgen Hok Hp Hb.
  pose proof Hp as Hp'. rewrite hist_present_app in Hp'. apply andb_true_iff in Hp'. destruct Hp' as [Hp1 Hp2].
  cbn [hist_present] in Hp2. rewrite andb_true_r in Hp2. apply andb_true_iff in Hp2. destruct Hp2 as [Hpres HT].
  rewrite (drun_hist_f_eq h _ (goodd_init cmd g hid) Hok Hp1) in Hb.
  rewrite (dbuild_f_eq_dbuild_partial _ T (goodd_hist cmd g hid Hwf Hfrag Htopo h _ (goodd_init cmd g hid) Hok) Hpres HT) in Hb.
  apply (C10_C01_present_proof cmd g hid Hwf Hwg Hfrag Htopo Hord Hnr Hnip h T ds' Hgen Hok Hp Hb).
Qed.

Lemma dbuild_upto_f_idle s p ds : (forall e, p_want p e <> Some WantToStart) ->
  forall k, dbuild_upto_f cmd g hid s p k ds = Some (ds, init_cst s p).
Proof.
  intros Hp. induction k as [|k IH]; [reflexivity|]. rewrite dbuild_upto_f_S, IH. unfold dbuild_step_f, dirty_now_f.
  assert (Hw : c_want (init_cst s p) k = false).
  { cbn [init_cst c_want]. destruct (want_start p k) eqn:E; [|reflexivity]. apply want_start_iff in E. destruct (Hp k E). }
  rewrite Hw. reflexivity.
Qed.

Theorem C10_C02_f ds T ds' :
  GoodD ds -> hidden_srcs_present g hid (d_h ds) = true -> targets_known g T = true ->
  dbuild_f cmd g hid ds T = Some ds' ->
  (forall s p, dscan g ds' T = ScanOk s p -> forall e, p_want p e <> Some WantToStart) /\
  (forall ds'', dbuild_f cmd g hid ds' T = Some ds'' -> ds'' = ds').
Proof.
  intros HG Hpres HT Hb. rewrite (dbuild_f_eq_dbuild_partial ds T HG Hpres HT) in Hb.
  destruct (proj1 (accept_equiv cmd g hid Hwf Hwg Hfrag Htopo Hord Hnip ds T HG Hpres HT)) as [si [pi Hsi]];
    [apply (proj1 (dbuild_some cmd g hid ds T)); exists ds'; exact Hb|].
  destruct (proj2 (build_some cmd g hid (d_h ds) T)) as [st' Hi]; [exists si, pi; exact Hsi|].
  destruct (C10_C02_proof cmd g hid Hwf Hwg Hfrag Htopo Hord Hnr Hnip ds T ds' st' HG Hb Hi) as [Hwant _].
  split; [exact Hwant|].
  intros ds'' Hb2. unfold dbuild_f in Hb2. destruct (dscan g ds' T) as [c|m d|e| |s p] eqn:Hs; try discriminate.
  rewrite (dbuild_upto_f_idle s p ds' (Hwant s p eq_refl) (g_nedges g)) in Hb2. inversion Hb2; reflexivity.
Qed.

Lemma subseq_refl {A : Type} (l : list A) : subseq l l.
Proof. induction l as [|a l IH]; [apply subseq_nil|apply subseq_both; exact IH]. Qed.

(* (2), PARTIAL.  What holds without any side condition is the first clause of
   [dbuild_f_trace_subset_full]: both loops accept or refuse together ([dbuild_f_accepts_iff]).
   The other clauses are only obtained here where the two loops coincide.  What is missing: a
   direct invariant for [dbuild_f] on manifests with deps statements (HistFaithfulProofs Part C --
   flags and cached mtimes versus the current disk -- redone for fragment D, with [must_dirty]'s
   deps clauses and the spliced inputs); the route through the inlined manifest used for (1) is
   closed exactly in the interesting case, because the inlined manifest REFUSES a request with a
   missing hidden source ("missing and no known rule") that the deps manifest accepts. *)
Theorem dbuild_f_trace_subset_partial ds T dsf dsu :
  GoodD ds -> hidden_srcs_present g hid (d_h ds) = true -> targets_known g T = true ->
  dbuild_f cmd g hid ds T = Some dsf -> dbuild cmd g hid ds T = Some dsu ->
  (exists lf lu, h_trace (d_h dsf) = lf ++ h_trace (d_h ds) /\ h_trace (d_h dsu) = lu ++ h_trace (d_h ds) /\ subseq lf lu) /\
  (forall n, content_of (d_h dsf) n = content_of (d_h dsu) n) /\
  (forall n, d_deps dsf n = d_deps dsu n).
Proof.
  intros HG Hpres HT Hf Hu. rewrite (dbuild_f_eq_dbuild_partial ds T HG Hpres HT), Hu in Hf. inversion Hf; subst dsf.
  split; [|split; reflexivity].
  unfold dbuild in Hu. destruct (dscan g ds T) as [c|m d|e| |s p] eqn:Hs; try discriminate. inversion Hu; subst dsu.
  destruct (dbuild_trace cmd g hid ds s p (g_nedges g)) as [l [Hl _]].
  exists l, l. split; [exact Hl|]. split; [exact Hl|apply subseq_refl].
Qed.

End WithHna.
End Main.

(* both loops accept or refuse together (no side condition) *)
Theorem dbuild_f_accepts_iff ds T : GoodD ds ->
  (dbuild_f cmd g hid ds T = None <-> dbuild cmd g hid ds T = None).
Proof.
  intros HG. unfold dbuild. destruct (dscan g ds T) as [c|m d|e| |s p] eqn:Hs;
    try (unfold dbuild_f; rewrite Hs; tauto).
  destruct (dbuild_f_never_out_of_fuel ds T s p HG Hs) as [ds' E]. rewrite E. split; discriminate.
Qed.

(* the full statements of which the [_partial] theorems above prove a part *)
Definition dbuild_f_eq_dbuild_full : Prop :=
  hidden_reads_ordered g hid = true -> no_restat_upstream_of_deps g hid = true ->
  no_inputless_phony g = true ->
  forall ds T, GoodD ds -> hidden_srcs_present g hid (d_h ds) = true -> targets_known g T = true ->
    dbuild_f cmd g hid ds T = dbuild cmd g hid ds T.

Definition dbuild_f_trace_subset_full : Prop :=
  (forall e hh hh' S o, ei_generator (g_edge g e) = true -> cmd e hh S o = cmd e hh' S o) ->
  hidden_reads_ordered g hid = true -> no_restat_upstream_of_deps g hid = true ->
  forall ds T, GoodD ds ->
    (dbuild_f cmd g hid ds T = None <-> dbuild cmd g hid ds T = None) /\
    forall dsf dsu, dbuild_f cmd g hid ds T = Some dsf -> dbuild cmd g hid ds T = Some dsu ->
      (exists lf lu, h_trace (d_h dsf) = lf ++ h_trace (d_h ds) /\
                     h_trace (d_h dsu) = lu ++ h_trace (d_h ds) /\ subseq lf lu) /\
      (forall n, content_of (d_h dsf) n = content_of (d_h dsu) n) /\
      (forall n, option_map snd (d_deps dsf n) = option_map snd (d_deps dsu n)).

End DepsF.

(* ================================================================== the example projects *)
(* HistDepsDefs.ExD (deps statement with the order-only + depfile idiom, no restat statement)
   satisfies every premise of (1), and the two loops agree on its history *)
Example ExD_premises :
  frag_ABD ExD.g ExD.hid && topo_ordered (inline ExD.g ExD.hid) && hidden_reads_ordered ExD.g ExD.hid
  && no_restat_upstream_of_deps ExD.g ExD.hid && no_inputless_phony ExD.g
  && no_restat_above_deps ExD.g ExD.hid = true /\
  hist_ok ExD.g ExD.hist = true /\ hist_present ExD.cmd ExD.g ExD.hid ExD.ds0 ExD.hist = true /\
  h_trace (d_h (drun_hist_f ExD.cmd ExD.g ExD.hid ExD.ds0 ExD.hist)) =
  h_trace (d_h (drun_hist ExD.cmd ExD.g ExD.hid ExD.ds0 ExD.hist)) /\
  ExD.contents (drun_hist_f ExD.cmd ExD.g ExD.hid ExD.ds0 ExD.hist) =
  ExD.contents (drun_hist ExD.cmd ExD.g ExD.hid ExD.ds0 ExD.hist) /\
  d_deps (drun_hist_f ExD.cmd ExD.g ExD.hid ExD.ds0 ExD.hist) 3%nat =
  d_deps (drun_hist ExD.cmd ExD.g ExD.hid ExD.ds0 ExD.hist) 3%nat.
Proof. vm_compute. repeat split; reflexivity. Qed.

(* HistDepsFaithful.ExDF: every premise of (1) but the presence of the hidden sources holds, and
   the two loops differ: that side condition cannot be dropped *)
Lemma ExDF_wf_spec : wf_spec ExDF.g.
Proof.
  split; [|split].
  - intros e o Ho. destruct e as [|[|e]]; cbn in Ho; try (destruct Ho as [<-|[]]; reflexivity); destruct Ho.
  - intros n e Hp. destruct n as [|[|[|[|n]]]]; cbn in Hp; try discriminate; inversion Hp; subst; cbn; left; reflexivity.
  - intros e Hd. destruct e as [|[|e]]; cbn in *; try congruence. split; [reflexivity|lia].
Qed.

Lemma ExDF_wf_graph : wf_graph ExDF.g.
Proof.
  intros n e Hp. destruct n as [|[|[|[|n]]]]; cbn in Hp; try discriminate; inversion Hp; subst; cbn; lia.
Qed.

Example ExDF_needs_presence :
  frag_ABD ExDF.g ExDF.hid && topo_ordered (inline ExDF.g ExDF.hid) && hidden_reads_ordered ExDF.g ExDF.hid
  && no_restat_upstream_of_deps ExDF.g ExDF.hid && no_inputless_phony ExDF.g
  && no_restat_above_deps ExDF.g ExDF.hid = true /\
  hist_ok ExDF.g ExDF.pre = true /\
  hidden_srcs_present ExDF.g ExDF.hid (d_h ExDF.ds2) = false /\
  ExDF.ds2f = ExDF.ds2 /\
  (exists dsf dsu, dbuild_f Ex.cmd ExDF.g ExDF.hid ExDF.ds2 [3%nat] = Some dsf /\
                   dbuild Ex.cmd ExDF.g ExDF.hid ExDF.ds2 [3%nat] = Some dsu /\
                   h_trace (d_h dsf) = [0%nat] ++ h_trace (d_h ExDF.ds2) /\
                   h_trace (d_h dsu) = [1; 0]%nat ++ h_trace (d_h ExDF.ds2) /\
                   map (content_of (d_h dsf)) [0; 1; 2; 3]%nat = map (content_of (d_h dsu)) [0; 1; 2; 3]%nat /\
                   option_map snd (d_deps dsf 2%nat) = option_map snd (d_deps dsu 2%nat)).
Proof.
  split; [vm_compute; reflexivity|]. split; [vm_compute; reflexivity|]. split; [vm_compute; reflexivity|].
  split; [vm_compute; reflexivity|]. vm_compute. eexists. eexists. repeat split; reflexivity.
Qed.

Lemma ExDF_good : GoodD Ex.cmd ExDF.g ExDF.hid ExDF.ds2.
Proof.
  apply (goodd_hist Ex.cmd ExDF.g ExDF.hid ExDF_wf_spec); [vm_compute; reflexivity|vm_compute; reflexivity|apply goodd_init|vm_compute; reflexivity].
Qed.
