(* Proofs about the -k N model (HistFailKDefs.v).  No axioms.
   Part 1: the loop: [stepK_cases], the structural invariant [InvK]/[invK] (state invariant GoodF,
           frame, trace, the failed list, blocked = failed or depending on a failed statement, the
           budget), [frozenK].
   Part 2: -k 1 is HistFailDefs.buildF_full ([buildFK_budget1_proof]).
   Part 3: C05 with -k N: [C05K_dependents_not_started_proof], [C05K_budget_proof],
           [C05K_failed_not_recorded_proof], [C05K_exit_failed_proof].
   Part 4: the independent part is built completely: [c01K] (clean contents), [c02K] (up to date),
           [C05K_independent_run_proof], [C05K_independent_as_fault_free_proof].
   Part 5: recovery: [goodF_buildFK_proof], [C05K_next_invocation_accepted_proof],
           [C05K_next_invocation_reruns_proof], [C01K_next_build_proof].
   After the section: the examples as theorems (non-vacuity). *)
From NinjaV Require Import Engine.CrashDefs.
From NinjaV Require Import Base.Bytes Engine.ScanDefs Engine.ScanSpec Engine.ScanProofs Engine.HistDefs Engine.HistProofs Engine.HistFailDefs Engine.HistFailProofs Engine.HistFailKDefs.
Local Open Scope Z_scope.

Section HistK.
Variable cmd : edge -> N -> snapshot -> node -> content.
Variable g : graph.
Hypothesis Hwf : wf_spec g.
Hypothesis Hwg : wf_graph g.
Hypothesis Hfrag : frag_AB g = true.
Hypothesis Htopo : topo_ordered g = true.
Hypothesis Hgen : forall e h h' S o,
  ei_generator (g_edge g e) = true -> cmd e h S o = cmd e h' S o.

Notation G st := (graph_of g st).
Notation W st := (world_of st).
Notation outs e := (ei_outs (g_edge g e)).
Notation phony e := (ei_phony (g_edge g e)).

(* ================================================================== Part 1: the loop *)
Lemma dep_inv f d : depends_on g f d ->
  exists i e', In i (ei_ins (g_edge g d)) /\ g_producer g i = Some e' /\ (e' = f \/ depends_on g f e').
Proof.
  intros H. destruct H as [d i Hi Hp|d i e' Hi Hp Hd].
  - exists i, f. split; [exact Hi|]. split; [exact Hp|left; reflexivity].
  - exists i, e'. split; [exact Hi|]. split; [exact Hp|right; exact Hd].
Qed.

Lemma dep_step f d i e' : In i (ei_ins (g_edge g d)) -> g_producer g i = Some e' ->
  (f = e' \/ depends_on g f e') -> depends_on g f d.
Proof.
  intros Hi Hp [<-|Hd]; [apply (dep_direct g f d i Hi Hp)|apply (dep_trans g f d i e' Hi Hp Hd)].
Qed.

Lemma blocked_input_spec bl e : blocked_input g bl e = true <->
  exists i e', In i (ei_ins (g_edge g e)) /\ g_producer g i = Some e' /\ In e' bl.
Proof.
  unfold blocked_input. rewrite existsb_exists. split.
  - intros [i [Hi H]]. destruct (g_producer g i) as [e'|] eqn:Hp; [|discriminate].
    exists i, e'. split; [exact Hi|]. split; [exact Hp|apply mem_node_In; exact H].
  - intros [i [e' [Hi [Hp Hin]]]]. exists i. split; [exact Hi|]. rewrite Hp. apply mem_node_In. exact Hin.
Qed.

Section Loop.
Variables (fs : faults) (p : plan) (b : option nat) (st0 : hstate).
Hypothesis HG0 : GoodF cmd g st0.

Notation acc k := (build_uptoK cmd g fs p b k st0).

Definition startedK (a : kacc) (k : edge) : bool :=
  want_start p k && negb (phony k) && dirty_now g (k_st a) k.

Lemma build_uptoK_S k : acc (S k) = build_stepK cmd g fs p (acc k) k.
Proof. unfold build_uptoK. rewrite seq_S, fold_left_app. reflexivity. Qed.

Lemma stepK_cases k :
  (blocked_input g (k_blocked (acc k)) k = true /\
   acc (S k) = mkK (k_st (acc k)) (k_failed (acc k)) (k :: k_blocked (acc k)) (k_budget (acc k))) \/
  (blocked_input g (k_blocked (acc k)) k = false /\
   ((budget_out (k_budget (acc k)) = true /\ acc (S k) = acc k) \/
    (budget_out (k_budget (acc k)) = false /\ startedK (acc k) k = false /\ acc (S k) = acc k) \/
    (budget_out (k_budget (acc k)) = false /\ startedK (acc k) k = true /\ fault_of fs k = None /\
     acc (S k) = mkK (run_edge cmd g (k_st (acc k)) k) (k_failed (acc k)) (k_blocked (acc k)) (k_budget (acc k))) \/
    (budget_out (k_budget (acc k)) = false /\ startedK (acc k) k = true /\
     exists kd, fault_of fs k = Some kd /\
       acc (S k) = mkK (fail_edge g (k_st (acc k)) k kd) ((k, kd, k_st (acc k)) :: k_failed (acc k))
                       (k :: k_blocked (acc k)) (budget_dec (k_budget (acc k)))))).
Proof.
  rewrite build_uptoK_S. unfold build_stepK. fold (startedK (acc k) k).
  destruct (blocked_input g (k_blocked (acc k)) k); [left; split; reflexivity|right; split; [reflexivity|]].
  destruct (budget_out (k_budget (acc k))); [left; split; reflexivity|right].
  destruct (startedK (acc k) k); [right|left; repeat split; reflexivity].
  destruct (fault_of fs k) as [kd|]; [right|left; repeat split; reflexivity].
  split; [reflexivity|]. split; [reflexivity|]. exists kd. split; reflexivity.
Qed.

(* everything the loop has established after the statements below [k]; [l] = commands started *)
Record InvK (k : nat) (a : kacc) (l : list edge) : Prop := {
  ik_good : GoodF cmd g (k_st a);
  ik_hash : h_hash (k_st a) = h_hash st0;
  ik_frame : Frame g st0 p k (k_st a);
  ik_clock : h_clock st0 <= h_clock (k_st a);
  ik_chg : Chg st0 (k_st a);
  ik_trace : h_trace (k_st a) = l ++ h_trace st0;
  ik_started : forall e, In e l ->
    (e < k)%nat /\ want_start p e = true /\ phony e = false /\
    (In e (failed_edges a) \/ fault_of fs e = None);
  ik_indep : forall e f, In e l -> In f (failed_edges a) -> ~ depends_on g f e;
  ik_failed_started : forall f, In f (failed_edges a) -> In f l;
  ik_head : forall f kd sf rest, k_failed a = (f, kd, sf) :: rest ->
    budget_out (k_budget a) = true -> exists lr, l = f :: lr;
  ik_failed : forall f kd sf, In (f, kd, sf) (k_failed a) ->
    (f < k)%nat /\ fault_of fs f = Some kd /\ sf = k_st (acc f) /\
    budget_out (k_budget (acc f)) = false /\ blocked_input g (k_blocked (acc f)) f = false /\
    startedK (acc f) f = true;
  ik_blk : forall e, In e (k_blocked a) <->
    (e < k)%nat /\ exists f, In f (failed_edges a) /\ (f = e \/ depends_on g f e);
  ik_budget : match b with
              | None => k_budget a = None
              | Some N => exists r, k_budget a = Some r /\ (length (k_failed a) + r = N)%nat
              end;
  ik_touched : forall n,
    (h_disk (k_st a) n = h_disk st0 n /\ h_blog (k_st a) n = h_blog st0 n /\
     h_ghost (k_st a) n = h_ghost st0 n) \/
    exists j, g_producer g n = Some j /\ In j l;
  ik_blog : forall n, h_blog (k_st a) n = h_blog st0 n \/
    exists j, g_producer g n = Some j /\ In j l /\ fault_of fs j = None;
  ik_recorded : forall e, In e l -> fault_of fs e = None -> forall o, In o (outs e) ->
    exists m, h_blog (k_st a) o = Some (h_hash st0 e, m)
}.

Lemma failed_lt k a l f : InvK k a l -> In f (failed_edges a) -> (f < k)%nat.
Proof.
  intros HI Hf. unfold failed_edges in Hf. apply in_map_iff in Hf. destruct Hf as [[[f' kd] sf] [Hx Hin]].
  cbn [fst] in Hx. subst f'. apply (ik_failed k a l HI f kd sf Hin).
Qed.

(* an unblocked statement whose turn has come does not depend on a failed one *)
Lemma unblocked_indep k a l : InvK k a l -> (k < g_nedges g)%nat ->
  blocked_input g (k_blocked a) k = false ->
  forall f, In f (failed_edges a) -> ~ depends_on g f k.
Proof.
  intros HI Hk Hbi f Hf Hd. destruct (dep_inv f k Hd) as [i [e' [Hi [Hp He']]]].
  assert (Hlt : (e' < k)%nat).
  { pose proof (in_below g Htopo k i Hk Hi) as Hb. unfold below in Hb. rewrite Hp in Hb. exact Hb. }
  assert (Hbl : In e' (k_blocked a)).
  { apply (ik_blk k a l HI). split; [exact Hlt|]. exists f. split; [exact Hf|].
    destruct He' as [->|Hd']; [left; reflexivity|right; exact Hd']. }
  assert (Ht : blocked_input g (k_blocked a) k = true).
  { apply blocked_input_spec. exists i, e'. split; [exact Hi|]. split; [exact Hp|exact Hbl]. }
  congruence.
Qed.

Lemma chg_trans st1 st2 : h_clock st0 <= h_clock st1 -> Chg st0 st1 -> Chg st1 st2 -> Chg st0 st2.
Proof.
  intros Hc H1 H2 n. destruct (H2 n) as [E|[E|[m [c [E Hm]]]]].
  - rewrite E. apply H1.
  - right; left; exact E.
  - right; right. exists m, c. split; [exact E|lia].
Qed.

(* a step that starts nothing *)
Lemma invK_idle k a l bl' :
  InvK k a l ->
  (forall e, In e bl' <->
     (e < S k)%nat /\ exists f, In f (failed_edges a) /\ (f = e \/ depends_on g f e)) ->
  InvK (S k) (mkK (k_st a) (k_failed a) bl' (k_budget a)) l.
Proof.
  intros HI Hbl. destruct HI as [I1 I2 I3 I4 I5 I6 I7 I8 I9 I10 I11 I12 I13 I14 I15 I16].
  constructor; cbn [k_st k_failed k_blocked k_budget];
    change (failed_edges (mkK (k_st a) (k_failed a) bl' (k_budget a))) with (failed_edges a);
    try assumption.
  - intros n. destruct (I3 n) as [Hs|[e [He [Hlt Hr]]]]; [left; exact Hs|].
    right. exists e. split; [exact He|]. split; [lia|exact Hr].
  - intros e He. destruct (I7 e He) as [A B]. split; [lia|exact B].
  - intros f kd sf Hin. destruct (I11 f kd sf Hin) as [A B]. split; [lia|exact B].
Qed.

Lemma invK_step k : (k < g_nedges g)%nat -> forall l, InvK k (acc k) l -> exists l', InvK (S k) (acc (S k)) l'.
Proof.
  intros Hk l HI. set (a := acc k) in *.
  assert (Hblk_same : blocked_input g (k_blocked a) k = false ->
            forall e, In e (k_blocked a) <->
              (e < S k)%nat /\ exists f, In f (failed_edges a) /\ (f = e \/ depends_on g f e)).
  { intros Hbi e. split.
    - intros He. apply (ik_blk k a l HI) in He. destruct He as [Hlt Hex]. split; [lia|exact Hex].
    - intros [Hlt [f [Hf Hfe]]]. destruct (Nat.eq_dec e k) as [->|Hne].
      + exfalso. destruct Hfe as [->|Hd].
        * pose proof (failed_lt k a l k HI Hf). lia.
        * apply (unblocked_indep k a l HI Hk Hbi f Hf Hd).
      + apply (ik_blk k a l HI). split; [lia|]. exists f. split; assumption. }
  destruct (stepK_cases k) as [[Hbi Hacc]|[Hbi [[Hout Hacc]|[[Hout [Hst Hacc]]|[[Hout [Hst [Hf Hacc]]]|[Hout [Hst [kd [Hf Hacc]]]]]]]]];
    fold a in Hbi, Hacc; rewrite Hacc.
  - (* skipped: an input's statement is blocked *)
    exists l. apply (invK_idle k a l _ HI). intros e. split.
    + intros [<-|He].
      * split; [lia|]. apply blocked_input_spec in Hbi. destruct Hbi as [i [e' [Hi [Hp Hin]]]].
        apply (ik_blk k a l HI) in Hin. destruct Hin as [_ [f [Hf Hfe]]].
        exists f. split; [exact Hf|]. right. apply (dep_step f k i e' Hi Hp Hfe).
      * apply (ik_blk k a l HI) in He. destruct He as [Hlt Hex]. split; [lia|exact Hex].
    + intros [Hlt [f [Hf Hfe]]]. destruct (Nat.eq_dec e k) as [->|Hne]; [left; reflexivity|].
      right. apply (ik_blk k a l HI). split; [lia|]. exists f. split; assumption.
  - (* the budget is used up *)
    exists l. replace a with (mkK (k_st a) (k_failed a) (k_blocked a) (k_budget a)) by (destruct a; reflexivity).
    apply (invK_idle k _ l _); [destruct a; exact HI|]. destruct a; apply Hblk_same; exact Hbi.
  - (* not wanted, phony, or clean now *)
    exists l. replace a with (mkK (k_st a) (k_failed a) (k_blocked a) (k_budget a)) by (destruct a; reflexivity).
    apply (invK_idle k _ l _); [destruct a; exact HI|]. destruct a; apply Hblk_same; exact Hbi.
  - (* the command runs and succeeds *)
    exists (k :: l). change (budget_out (k_budget a) = false) in Hout. change (startedK a k = true) in Hst.
    unfold startedK in Hst. apply andb_true_iff in Hst. destruct Hst as [Hst Hdn]. apply andb_true_iff in Hst.
    destruct Hst as [Hw Hph]. apply negb_true_iff in Hph.
    destruct HI as [I1 I2 I3 I4 I5 I6 I7 I8 I9 I10 I11 I12 I13 I14 I15 I16].
    pose proof I1 as [[A [B _]] _].
    destruct (run_edge_spec cmd g (k_st a) k A B) as [Hh' [Hc' [Hout' [Hfs _]]]]. cbn zeta in *.
    assert (HI' : InvK k a l) by (constructor; assumption).
    constructor; cbn [k_st k_failed k_blocked k_budget];
      change (failed_edges (mkK (run_edge cmd g (k_st a) k) (k_failed a) (k_blocked a) (k_budget a)))
        with (failed_edges a).
    + apply (goodF_run cmd g Hwf Htopo); [exact I1|exact Hk|exact Hph].
    + congruence.
    + intros n. destruct (in_dec Nat.eq_dec n (outs k)) as [Hin|Hnin].
      * right. exists k. split; [apply (o_prod g Hwf); exact Hin|]. split; [lia|]. split; assumption.
      * destruct (Hout' n Hnin) as [E1 [E2 E3]]. rewrite E1, E2, E3.
        destruct (I3 n) as [Hs|[e [He [Hlt Hr]]]]; [left; exact Hs|].
        right. exists e. split; [exact He|]. split; [lia|exact Hr].
    + lia.
    + apply (chg_trans (k_st a) _ I4 I5). intros n. destruct (Hfs n) as [Hs|[mx [Hx [Hmx _]]]]; [left; exact Hs|].
      right; right. exists mx, (cmd k (h_hash (k_st a) k) (reads g (k_st a) k) n). split; [exact Hx|lia].
    + rewrite (run_edge_trace cmd g), I6. reflexivity.
    + intros e [<-|He].
      * split; [lia|]. split; [exact Hw|]. split; [exact Hph|right; exact Hf].
      * destruct (I7 e He) as [X Y]. split; [lia|exact Y].
    + intros e f [<-|He] Hfin; [apply (unblocked_indep k a l HI' Hk Hbi f Hfin)|apply (I8 e f He Hfin)].
    + intros f Hfin. right. apply I9. exact Hfin.
    + intros f kd sf rest Hkf Hbo. congruence.
    + intros f kd sf Hin. destruct (I11 f kd sf Hin) as [X Y]. split; [lia|exact Y].
    + apply (Hblk_same Hbi).
    + exact I13.
    + intros n. destruct (in_dec Nat.eq_dec n (outs k)) as [Hin|Hnin].
      * right. exists k. split; [apply (o_prod g Hwf); exact Hin|left; reflexivity].
      * destruct (Hout' n Hnin) as [E1 [E2 E3]]. rewrite E1, E2, E3.
        destruct (I14 n) as [Hs|[j [Hj Hjl]]]; [left; exact Hs|]. right. exists j. split; [exact Hj|right; exact Hjl].
    + intros n. destruct (in_dec Nat.eq_dec n (outs k)) as [Hin|Hnin].
      * right. exists k. split; [apply (o_prod g Hwf); exact Hin|]. split; [left; reflexivity|exact Hf].
      * destruct (Hout' n Hnin) as [_ [E2 _]]. rewrite E2.
        destruct (I15 n) as [Hs|[j [Hj [Hjl Hjf]]]]; [left; exact Hs|].
        right. exists j. split; [exact Hj|]. split; [right; exact Hjl|exact Hjf].
    + destruct (run_edge_spec cmd g (k_st a) k A B) as [_ [_ [_ [_ [_ [[m [_ Hlog]] _]]]]]]. cbn zeta in Hlog.
      intros e [<-|He] Hfe o Ho.
      * destruct (Hlog o Ho) as [Hb0 _]. exists m. rewrite Hb0, I2. reflexivity.
      * assert (Hnin : ~ In o (outs k)).
        { intros Hin. pose proof (o_prod g Hwf k o Hin) as H1. rewrite (o_prod g Hwf e o Ho) in H1.
          inversion H1; subst. destruct (I7 k He) as [X _]. lia. }
        destruct (Hout' o Hnin) as [_ [E2 _]]. rewrite E2. apply (I16 e He Hfe o Ho).
  - (* the command is started and fails *)
    exists (k :: l). change (budget_out (k_budget a) = false) in Hout. change (startedK a k = true) in Hst.
    pose proof Hst as Hst0.
    unfold startedK in Hst. apply andb_true_iff in Hst. destruct Hst as [Hst Hdn]. apply andb_true_iff in Hst.
    destruct Hst as [Hw Hph]. apply negb_true_iff in Hph.
    destruct HI as [I1 I2 I3 I4 I5 I6 I7 I8 I9 I10 I11 I12 I13 I14 I15 I16].
    pose proof I1 as [[A [B _]] _].
    destruct (fail_edge_spec g (k_st a) k kd A B) as [Hb' [Hh' [Htr' [Hc' [_ [Hout' [Hchg' _]]]]]]]. cbn zeta in *.
    assert (HI' : InvK k a l) by (constructor; assumption).
    assert (Hfeq : failed_edges (mkK (fail_edge g (k_st a) k kd) ((k, kd, k_st a) :: k_failed a)
                                    (k :: k_blocked a) (budget_dec (k_budget a))) = k :: failed_edges a) by reflexivity.
    constructor; cbn [k_st k_failed k_blocked k_budget]; try rewrite Hfeq.
    + apply (goodF_fail cmd g Hwf); [exact I1|exact Hph].
    + congruence.
    + intros n. destruct (in_dec Nat.eq_dec n (outs k)) as [Hin|Hnin].
      * right. exists k. split; [apply (o_prod g Hwf); exact Hin|]. split; [lia|]. split; assumption.
      * destruct (Hout' n Hnin) as [E1 E3]. rewrite E1, E3, Hb'.
        destruct (I3 n) as [Hs|[e [He [Hlt Hr]]]]; [left; exact Hs|].
        right. exists e. split; [exact He|]. split; [lia|exact Hr].
    + lia.
    + apply (chg_trans (k_st a) _ I4 I5 Hchg').
    + rewrite Htr', I6. reflexivity.
    + intros e [<-|He].
      * split; [lia|]. split; [exact Hw|]. split; [exact Hph|left; left; reflexivity].
      * destruct (I7 e He) as [X [Y [Z [V|V]]]]; (split; [lia|]); (split; [exact Y|]); (split; [exact Z|]);
          [left; right; exact V|right; exact V].
    + intros e f [<-|He] [<-|Hfin].
      * intros Hd. pose proof (dep_lt g Htopo k k Hd Hk). lia.
      * apply (unblocked_indep k a l HI' Hk Hbi f Hfin).
      * intros Hd. destruct (I7 e He) as [X _]. pose proof (dep_lt g Htopo k e Hd ltac:(lia)). lia.
      * apply (I8 e f He Hfin).
    + intros f [<-|Hfin]; [left; reflexivity|right; apply I9; exact Hfin].
    + intros f kd0 sf rest Hkf _. inversion Hkf; subst. exists l. reflexivity.
    + intros f kd0 sf [Hx|Hin].
      * inversion Hx; subst f kd0 sf. split; [lia|]. split; [exact Hf|]. split; [reflexivity|].
        split; [exact Hout|]. split; [exact Hbi|exact Hst0].
      * destruct (I11 f kd0 sf Hin) as [X Y]. split; [lia|exact Y].
    + intros e. split.
      * intros [<-|He].
        -- split; [lia|]. exists k. split; [left; reflexivity|left; reflexivity].
        -- apply I12 in He. destruct He as [Hlt [f [Hfin Hfe]]]. split; [lia|]. exists f. split; [right; exact Hfin|exact Hfe].
      * intros [Hlt [f [[<-|Hfin] Hfe]]].
        -- destruct Hfe as [Heq|Hd]; [left; exact Heq|].
           pose proof (dep_lt g Htopo k e Hd ltac:(lia)). lia.
        -- destruct (Nat.eq_dec e k) as [->|Hne]; [left; reflexivity|].
           right. apply I12. split; [lia|]. exists f. split; assumption.
    + destruct b as [N|].
      * destruct I13 as [r [Hr Hlen]]. rewrite Hr in Hout |- *. destruct r as [|r]; [discriminate|].
        exists r. split; [reflexivity|]. cbn [length]. lia.
      * rewrite I13. reflexivity.
    + intros n. destruct (in_dec Nat.eq_dec n (outs k)) as [Hin|Hnin].
      * right. exists k. split; [apply (o_prod g Hwf); exact Hin|left; reflexivity].
      * destruct (Hout' n Hnin) as [E1 E3]. rewrite E1, E3, Hb'.
        destruct (I14 n) as [Hs|[j [Hj Hjl]]]; [left; exact Hs|]. right. exists j. split; [exact Hj|right; exact Hjl].
    + intros n. rewrite Hb'. destruct (I15 n) as [Hs|[j [Hj [Hjl Hjf]]]]; [left; exact Hs|].
      right. exists j. split; [exact Hj|]. split; [right; exact Hjl|exact Hjf].
    + intros e [<-|He] Hfe o Ho; [congruence|]. rewrite Hb'. apply (I16 e He Hfe o Ho).
Qed.

Lemma invK_0 : InvK 0 (acc 0) [].
Proof.
  constructor; cbn [build_uptoK seq fold_left k_st k_failed k_blocked k_budget failed_edges map length app].
  - exact HG0.
  - reflexivity.
  - intros n. left. repeat split; reflexivity.
  - lia.
  - intros n. left; reflexivity.
  - reflexivity.
  - intros e [].
  - intros e f [].
  - intros f [].
  - intros f kd sf rest H. discriminate.
  - intros f kd sf [].
  - intros e. split; [intros []|intros [H _]; lia].
  - destruct b as [N|]; [exists N; split; [reflexivity|reflexivity]|reflexivity].
  - intros n. left. repeat split; reflexivity.
  - intros n. left; reflexivity.
  - intros e [].
Qed.

Lemma invK k : (k <= g_nedges g)%nat -> exists l, InvK k (acc k) l.
Proof.
  induction k as [|k IH]; intros Hk; [exists []; exact invK_0|].
  destruct (IH ltac:(lia)) as [l HI]. apply (invK_step k ltac:(lia) l HI).
Qed.

End Loop.
(* ---- what later steps leave alone: the sources and the outputs of the statements below [k] *)
Lemma frozenK fs p b st0 : GoodF cmd g st0 -> forall k k', (k <= k')%nat -> (k' <= g_nedges g)%nat ->
  forall n, (forall j, g_producer g n = Some j -> (j < k)%nat) ->
  h_disk (k_st (build_uptoK cmd g fs p b k' st0)) n = h_disk (k_st (build_uptoK cmd g fs p b k st0)) n /\
  h_blog (k_st (build_uptoK cmd g fs p b k' st0)) n = h_blog (k_st (build_uptoK cmd g fs p b k st0)) n /\
  h_ghost (k_st (build_uptoK cmd g fs p b k' st0)) n = h_ghost (k_st (build_uptoK cmd g fs p b k st0)) n.
Proof.
  intros HG k k' Hle. induction Hle as [|k' Hle IH]; intros Hk' n Hn; [repeat split; reflexivity|].
  destruct (IH ltac:(lia) n Hn) as [E1 [E2 E3]]. rewrite <- E1, <- E2, <- E3.
  destruct (invK fs p b st0 HG k' ltac:(lia)) as [l HI]. pose proof (ik_good _ _ _ _ _ _ _ HI) as [[A [B _]] _].
  assert (Hnin : ~ In n (outs k')).
  { intros Hin. specialize (Hn k' (o_prod g Hwf k' n Hin)). lia. }
  destruct (stepK_cases fs p b st0 k') as [[_ Hacc]|[_ [[_ Hacc]|[[_ [_ Hacc]]|[[_ [_ [_ Hacc]]]|[_ [_ [kd [_ Hacc]]]]]]]]];
    rewrite Hacc; cbn [k_st]; try (repeat split; reflexivity).
  - destruct (run_edge_spec cmd g _ k' A B) as [_ [_ [Hout _]]]. cbn zeta in Hout. apply (Hout n Hnin).
  - destruct (fail_edge_spec g _ k' kd A B) as [Hb [_ [_ [_ [_ [Hout _]]]]]]. cbn zeta in Hb, Hout.
    destruct (Hout n Hnin) as [X Y]. rewrite Hb. repeat split; assumption.
Qed.

(* ================================================================== Part 2: -k 1 *)
Lemma blocked_input_nil e : blocked_input g [] e = false.
Proof.
  unfold blocked_input. destruct (existsb _ _) eqn:H; [|reflexivity].
  apply existsb_exists in H. destruct H as [i [_ H]]. destruct (g_producer g i); discriminate.
Qed.

Lemma uptoK_budget1 fs p st k :
  let a := build_uptoK cmd g fs p (Some 1%nat) k st in
  facc_of a = build_uptoF cmd g fs p k st /\
  match k_failed a with
  | [] => k_blocked a = [] /\ k_budget a = Some 1%nat
  | _ :: _ => k_budget a = Some 0%nat
  end.
Proof.
  induction k as [|k IH]; cbn zeta in *; [split; [reflexivity|split; reflexivity]|].
  destruct IH as [IH1 IH2]. rewrite build_uptoK_S, build_uptoF_S, <- IH1. set (a := build_uptoK cmd g fs p (Some 1%nat) k st) in *.
  unfold build_stepK, build_stepF, facc_of. destruct (k_failed a) as [|x rest] eqn:Hkf.
  - destruct IH2 as [Hbl Hbu]. rewrite Hbl, blocked_input_nil, Hbu. cbn [budget_out].
    destruct (want_start p k && negb (phony k) && dirty_now g (k_st a) k)%bool.
    + destruct (fault_of fs k) as [kd|]; cbn [k_st k_failed k_blocked k_budget budget_dec].
      * split; [reflexivity|reflexivity].
      * try rewrite Hkf. split; [reflexivity|split; reflexivity].
    + try rewrite Hkf. split; [reflexivity|split; assumption].
  - rewrite IH2. cbn [budget_out]. destruct (blocked_input g (k_blocked a) k); cbn [k_st k_failed k_budget]; try rewrite Hkf.
    + split; [reflexivity|first [exact IH2|reflexivity]].
    + split; [reflexivity|first [exact IH2|reflexivity]].
Qed.

(* -k 1 is the model of HistFailDefs: same state, same (only) failure *)
Theorem buildFK_budget1_proof st T fs :
  match buildFK cmd g st T fs (Some 1%nat) with Some a => Some (facc_of a) | None => None end =
  buildF_full cmd g st T fs.
Proof.
  unfold buildFK, buildF_full. destruct (scan (G st) (W st) T) as [c|m d|e| |s p]; try reflexivity.
  f_equal. apply (uptoK_budget1 fs p st (g_nedges g)).
Qed.

(* ================================================================== Part 3: C05 with -k N *)
Lemma buildFK_inv st T fs b a : GoodF cmd g st -> buildFK cmd g st T fs b = Some a ->
  exists s p l, scan (G st) (W st) T = ScanOk s p /\ a = build_uptoK cmd g fs p b (g_nedges g) st /\
                InvK fs p b st (g_nedges g) a l /\ trace_delta st (k_st a) = l.
Proof.
  intros HG H. unfold buildFK in H.
  destruct (scan (G st) (W st) T) as [c|m d|e| |s p] eqn:Hs; try discriminate. inversion H as [Ha].
  destruct (invK fs p b st HG (g_nedges g) (le_n _)) as [l HI]. exists s, p, l.
  split; [reflexivity|]. split; [reflexivity|]. split; [exact HI|].
  apply trace_delta_app. apply (ik_trace _ _ _ _ _ _ _ HI).
Qed.

(* C05 (a) with -k N: no statement that depends on ANY failed one is started; its outputs and their
   log entries are as before the invocation *)
Theorem C05K_dependents_not_started_proof st T fs b a :
  GoodF cmd g st -> buildFK cmd g st T fs b = Some a ->
  forall f d, In f (failed_edges a) -> depends_on g f d ->
    ~ In d (trace_delta st (k_st a)) /\
    forall o, In o (outs d) -> h_disk (k_st a) o = h_disk st o /\ h_blog (k_st a) o = h_blog st o.
Proof.
  intros HG H f d Hf Hd. destruct (buildFK_inv st T fs b a HG H) as [s [p [l [_ [_ [HI Hl]]]]]]. rewrite Hl.
  assert (Hnl : ~ In d l) by (intros Hin; apply (ik_indep _ _ _ _ _ _ _ HI d f Hin Hf Hd)).
  split; [exact Hnl|]. intros o Ho.
  destruct (ik_touched _ _ _ _ _ _ _ HI o) as [[E1 [E2 _]]|[j [Hj Hjl]]]; [split; assumption|].
  rewrite (o_prod g Hwf d o Ho) in Hj. inversion Hj; subst j. contradiction.
Qed.

(* the budget: with -k N at most N commands fail, and the N-th failure is the LAST command started *)
Theorem C05K_budget_proof st T fs N a :
  GoodF cmd g st -> buildFK cmd g st T fs (Some N) = Some a ->
  (length (k_failed a) <= N)%nat /\
  k_budget a = Some (N - length (k_failed a))%nat /\
  (length (k_failed a) = N -> forall f kd sf rest, k_failed a = (f, kd, sf) :: rest ->
     exists lr, trace_delta st (k_st a) = f :: lr).
Proof.
  intros HG H. destruct (buildFK_inv st T fs (Some N) a HG H) as [s [p [l [_ [_ [HI Hl]]]]]]. rewrite Hl.
  destruct (ik_budget _ _ _ _ _ _ _ HI) as [r [Hr Hlen]].
  split; [lia|]. split; [rewrite Hr; f_equal; lia|].
  intros HN f kd sf rest Hkf. apply (ik_head _ _ _ _ _ _ _ HI f kd sf rest Hkf).
  rewrite Hr. assert (r = 0)%nat by lia. subst r. reflexivity.
Qed.

(* unlimited: the budget stays unlimited *)
Theorem C05K_unlimited_proof st T fs a :
  GoodF cmd g st -> buildFK cmd g st T fs None = Some a -> k_budget a = None.
Proof.
  intros HG H. destruct (buildFK_inv st T fs None a HG H) as [s [p [l [_ [_ [HI _]]]]]].
  apply (ik_budget _ _ _ _ _ _ _ HI).
Qed.

(* C05 (c) with -k N: every failed command leaves the log entries of its outputs as they were before
   the invocation; the entries that changed belong to outputs of commands that succeeded in it *)
Theorem C05K_failed_not_recorded_proof st T fs b a :
  GoodF cmd g st -> buildFK cmd g st T fs b = Some a ->
  (forall f, In f (failed_edges a) ->
     In f (trace_delta st (k_st a)) /\ fault_of fs f <> None /\
     forall o, In o (outs f) -> h_blog (k_st a) o = h_blog st o) /\
  (forall n, h_blog (k_st a) n = h_blog st n \/
     exists j, g_producer g n = Some j /\ In j (trace_delta st (k_st a)) /\ fault_of fs j = None).
Proof.
  intros HG H. destruct (buildFK_inv st T fs b a HG H) as [s [p [l [_ [_ [HI Hl]]]]]]. rewrite Hl.
  split; [|apply (ik_blog _ _ _ _ _ _ _ HI)].
  intros f Hf. split; [apply (ik_failed_started _ _ _ _ _ _ _ HI f Hf)|].
  assert (Hfault : fault_of fs f <> None).
  { unfold failed_edges in Hf. apply in_map_iff in Hf. destruct Hf as [[[f' kd] sf] [Hx Hin]]. cbn [fst] in Hx. subst f'.
    destruct (ik_failed _ _ _ _ _ _ _ HI f kd sf Hin) as [_ [Hfo _]]. rewrite Hfo. discriminate. }
  split; [exact Hfault|]. intros o Ho.
  destruct (ik_blog _ _ _ _ _ _ _ HI o) as [E|[j [Hj [_ Hjf]]]]; [exact E|].
  rewrite (o_prod g Hwf f o Ho) in Hj. inversion Hj; subst j. contradiction.
Qed.

(* no failure (and a budget that allows to start at all): the loop is the one of [build] *)
Lemma uptoK_nofail fs p b st k : budget_out b = false ->
  k_failed (build_uptoK cmd g fs p b k st) = [] ->
  build_uptoK cmd g fs p b k st = mkK (build_upto cmd g p k st) [] [] b.
Proof.
  intros Hb. induction k as [|k IH]; intros Hnf; [reflexivity|].
  rewrite build_uptoK_S in Hnf |- *. rewrite build_upto_S.
  assert (Hk : k_failed (build_uptoK cmd g fs p b k st) = []).
  { unfold build_stepK in Hnf.
    destruct (blocked_input g (k_blocked (build_uptoK cmd g fs p b k st)) k); [exact Hnf|].
    destruct (budget_out (k_budget (build_uptoK cmd g fs p b k st))); [exact Hnf|].
    destruct (want_start p k && negb (phony k) && dirty_now g (k_st (build_uptoK cmd g fs p b k st)) k)%bool; [|exact Hnf].
    destruct (fault_of fs k); [discriminate|exact Hnf]. }
  rewrite (IH Hk) in Hnf |- *. unfold build_stepK, build_step in *. cbn [k_st k_failed k_blocked k_budget] in *.
  rewrite blocked_input_nil, Hb in *.
  destruct (want_start p k && negb (phony k) && dirty_now g (build_upto cmd g p k st) k)%bool; [|reflexivity].
  destruct (fault_of fs k); [discriminate|reflexivity].
Qed.

(* C05 (b) with -k N: the exit flag is "failed" iff a command with a fault was started; without one
   the invocation is the successful [build] *)
Theorem C05K_exit_failed_proof st T fs b a :
  GoodF cmd g st -> buildFK cmd g st T fs b = Some a ->
  (exit_failedK a = true <-> exists e, In e (trace_delta st (k_st a)) /\ fault_of fs e <> None) /\
  (exit_failedK a = false -> budget_out b = false -> build cmd g st T = Some (k_st a)).
Proof.
  intros HG H. destruct (buildFK_inv st T fs b a HG H) as [s [p [l [Hs [Ha [HI Hl]]]]]]. rewrite Hl. split; [split|].
  - intros Hx. unfold exit_failedK in Hx. destruct (k_failed a) as [|[[f kd] sf] rest] eqn:Hkf; [discriminate|].
    assert (Hf : In f (failed_edges a)) by (unfold failed_edges; rewrite Hkf; left; reflexivity).
    exists f. split; [apply (ik_failed_started _ _ _ _ _ _ _ HI f Hf)|].
    destruct (ik_failed _ _ _ _ _ _ _ HI f kd sf) as [_ [Hfo _]]; [rewrite Hkf; left; reflexivity|].
    rewrite Hfo. discriminate.
  - intros [e [He Hfo]]. destruct (ik_started _ _ _ _ _ _ _ HI e He) as [_ [_ [_ [Hin|Hn]]]]; [|contradiction].
    unfold exit_failedK, failed_edges in *. destruct (k_failed a); [destruct Hin|reflexivity].
  - intros Hx Hb. unfold exit_failedK in Hx. destruct (k_failed a) as [|x rest] eqn:Hkf; [|discriminate].
    rewrite Ha in Hkf. pose proof (uptoK_nofail fs p b st (g_nedges g) Hb Hkf) as Heq.
    unfold build. rewrite Hs. f_equal. rewrite Ha, Heq. reflexivity.
Qed.

(* ================================================================== Part 4: the independent part *)
Lemma mtime_leF st n : StateOkF g st -> 0 <= mtime_of st n <= h_clock st.
Proof.
  intros [A [B _]]. unfold mtime_of. destruct (h_disk st n) as [[m c]|] eqn:Hd; [|lia].
  specialize (B n m c Hd). lia.
Qed.

(* HistFailProofs.scan_clean_correctF for a set [P] of statements that is closed under "produces a
   non-order-only input of": the hypothesis about tainted outputs is only needed inside [P] *)
Theorem scan_clean_correct_on (P : edge -> Prop) st :
  GoodF cmd g st ->
  (forall e o, P e -> phony e = false -> In o (outs e) -> tainted st o = true -> StaleEntry g true st e o) ->
  (forall e i e', P e -> In i (nonoo_ins g e) -> g_producer g i = Some e' -> P e') ->
  forall e, (e < g_nedges g)%nat -> phony e = false -> P e ->
  forall o, In o (outs e) -> ~ must_dirty (G st) (W st) o ->
  exists m c, h_disk st o = Some (m, c) /\ clean_of cmd g st o = Some c.
Proof.
  intros HG HT Hcl. pose proof HG as [[A [B [C [D E]]]] L].
  induction e as [e IH] using lt_wf_ind. intros He Hph HP o Ho Hc.
  destruct (h_disk st o) as [[mo c]|] eqn:Hdo.
  2:{ exfalso. apply Hc. apply (md_base g Hwf st e o Ho Hph). left. cbn [world_of w_mtime]. unfold mtime_of. rewrite Hdo. reflexivity. }
  destruct (h_ghost st o) as [S|] eqn:Hgo.
  2:{ exfalso. apply Hc. apply (stale_md g Hwf Hwg Hfrag st e o (proj1 HG) Hph Ho). apply (HT e o HP Hph Ho).
      unfold tainted. rewrite Hdo, Hgo. reflexivity. }
  destruct (h_blog st o) as [[h m]|] eqn:Hbo.
  2:{ exfalso. apply (E o e (o_prod g Hwf e o Ho) Hph); [rewrite Hdo; discriminate|rewrite Hgo; discriminate|exact Hbo]. }
  destruct (L e o h m mo c S Hph Ho Hbo Hdo Hgo) as [HmS [HcS Hf]].
  exists mo, c. split; [reflexivity|].
  unfold clean_of. rewrite (clean_build_out cmd g Htopo (h_hash st) (sources_of g st) e o He (o_prod g Hwf e o Ho)). rewrite Hph.
  change (clean_build cmd g (h_hash st) (sources_of g st)) with (clean_of cmd g st).
  assert (HSeq : S = map (fun i => (i, clean_of cmd g st i)) (nonoo_ins g e)).
  { apply snapshot_eq; [exact HmS|]. intros i ci Hi.
    assert (Hin : In i (nonoo_ins g e)) by (rewrite <- HmS; apply (in_map fst S (i, ci) Hi)).
    destruct (Hf i ci Hi) as [F1 F2].
    assert (Hci : ~ must_dirty (G st) (W st) i) by (apply (clean_input g Hwg Hfrag st (W st) o e i (o_prod g Hwf e o Ho) Hin Hc)).
    assert (Hfresh : forall mi c', h_disk st i = Some (mi, c') -> ci = Some c').
    { intros mi c' Hdi. apply (F2 mi c' Hdi). destruct (Z_le_gt_dec mi m) as [Hle|Hgt]; [exact Hle|].
      exfalso. apply Hc. apply (md_time g Hwf Hfrag st e o h m i He Ho Hph Hbo Hin).
      apply nt_file; cbn [world_of w_mtime]; unfold mtime_of; rewrite Hdi; [|lia].
      specialize (B i mi c' Hdi). lia. }
    destruct (g_producer g i) as [e'|] eqn:Hpi.
    - pose proof (in_below g Htopo e i He (nonoo_in g e i Hin)) as Hlt. unfold below in Hlt. rewrite Hpi in Hlt.
      assert (He' : (e' < g_nedges g)%nat) by lia.
      destruct (phony e') eqn:Hph'.
      + rewrite (F1 e' eq_refl Hph'). unfold clean_of.
        rewrite (clean_build_out cmd g Htopo _ _ e' i He' Hpi), Hph'. reflexivity.
      + destruct (IH e' Hlt He' Hph' (Hcl e i e' HP Hin Hpi) i (p_out g Hwf i e' Hpi) Hci) as [mi [c' [Hdi Hcl']]].
        rewrite Hcl'. apply (Hfresh mi c' Hdi).
    - rewrite (clean_of_leaf cmd g st i Hpi). unfold content_of.
      destruct (h_disk st i) as [[mi c']|] eqn:Hdi; [apply (Hfresh mi c' eq_refl)|].
      exfalso. apply Hci. apply md_leaf; [exact Hpi|]. cbn [world_of w_mtime]. unfold mtime_of. rewrite Hdi. reflexivity. }
  rewrite <- HSeq. f_equal. rewrite HcS.
  destruct (ei_generator (g_edge g e)) eqn:Hgn; [apply Hgen; exact Hgn|].
  destruct (N.eq_dec h (h_hash st e)) as [->|Hne]; [reflexivity|].
  exfalso. apply Hc. apply (md_base g Hwf st e o Ho Hph). right. cbn [world_of w_blog]. rewrite Hbo.
  split; [exact Hgn|exact Hne].
Qed.

Section LoopSem.
Variables (fs : faults) (p : plan) (b : option nat) (st0 : hstate) (T : list node) (s0 : sstate).
Hypothesis HG0 : GoodF cmd g st0.
Hypothesis Hscan : scan (G st0) (W st0) T = ScanOk s0 p.

Notation acc k := (build_uptoK cmd g fs p b k st0).
Notation stk k := (k_st (build_uptoK cmd g fs p b k st0)).
Notation blk k := (k_blocked (build_uptoK cmd g fs p b k st0)).

Lemma budget_out_S k : budget_out (k_budget (acc k)) = true -> budget_out (k_budget (acc (S k))) = true.
Proof.
  intros H.
  destruct (stepK_cases fs p b st0 k) as [[_ Hacc]|[_ [[_ Hacc]|[[Hout _]|[[Hout _]|[Hout _]]]]]];
    try congruence; rewrite Hacc; exact H.
Qed.

Lemma budget_not_out_le k k' : (k <= k')%nat ->
  budget_out (k_budget (acc k')) = false -> budget_out (k_budget (acc k)) = false.
Proof.
  intros Hle. induction Hle as [|k' Hle IH]; intros H; [exact H|]. apply IH.
  destruct (budget_out (k_budget (acc k'))) eqn:E; [|reflexivity]. rewrite (budget_out_S k' E) in H. discriminate.
Qed.

Lemma blocked_S k e : In e (blk k) -> In e (blk (S k)).
Proof.
  intros H.
  destruct (stepK_cases fs p b st0 k) as [[_ Hacc]|[_ [[_ Hacc]|[[_ [_ Hacc]]|[[_ [_ [_ Hacc]]]|[_ [_ [kd [_ Hacc]]]]]]]]];
    rewrite Hacc; cbn [k_blocked]; try exact H; right; exact H.
Qed.

(* the unblocked statements up to [k] (when [k] itself is unblocked) are closed under inputs *)
Lemma closedK k l : InvK fs p b st0 k (acc k) l -> (k < g_nedges g)%nat ->
  blocked_input g (blk k) k = false ->
  forall e i e', ((e <= k)%nat /\ ~ In e (blk k)) -> In i (ei_ins (g_edge g e)) -> g_producer g i = Some e' ->
                 ((e' <= k)%nat /\ ~ In e' (blk k)).
Proof.
  intros HI Hk Hbi e i e' [Hle Hnb] Hi Hp.
  pose proof (in_below g Htopo e i ltac:(lia) Hi) as Hb. unfold below in Hb. rewrite Hp in Hb.
  split; [lia|]. intros Hin. destruct (Nat.eq_dec e k) as [->|Hne].
  - assert (Ht : blocked_input g (blk k) k = true).
    { apply blocked_input_spec. exists i, e'. split; [exact Hi|]. split; [exact Hp|exact Hin]. }
    congruence.
  - apply Hnb. apply (ik_blk _ _ _ _ _ _ _ HI) in Hin. destruct Hin as [_ [f [Hf Hfe]]].
    apply (ik_blk _ _ _ _ _ _ _ HI). split; [lia|]. exists f. split; [exact Hf|]. right.
    apply (dep_step f e i e' Hi Hp Hfe).
Qed.

(* no tainted output of an unblocked statement is validated by an old log entry *)
Lemma taintK : TaintOk g true st0 -> forall k, (k <= g_nedges g)%nat ->
  forall e o, ~ In e (blk k) -> phony e = false -> In o (outs e) -> tainted (stk k) o = true ->
              StaleEntry g true (stk k) e o.
Proof.
  intros HT. induction k as [|k IH]; intros Hk e o Hnb Hph Ho Ht; [apply (HT e o Hph Ho Ht)|].
  specialize (IH ltac:(lia)).
  destruct (invK fs p b st0 HG0 k ltac:(lia)) as [l HI]. pose proof (ik_good _ _ _ _ _ _ _ HI) as HGk.
  pose proof HGk as [[A [B _]] _].
  assert (Hnb0 : ~ In e (blk k)) by (intros Hin; apply Hnb; apply blocked_S; exact Hin).
  destruct (stepK_cases fs p b st0 k) as [[_ Hacc]|[_ [[_ Hacc]|[[_ [_ Hacc]]|[[_ [_ [_ Hacc]]]|[_ [_ [kd [_ Hacc]]]]]]]]];
    rewrite Hacc in Ht, Hnb |- *; cbn [k_st k_blocked] in Ht, Hnb |- *; try (apply (IH e o Hnb0 Hph Ho Ht)).
  - destruct (run_edge_spec cmd g (stk k) k A B) as [Hh [_ [Hout [Hfs [_ [[m [_ Hlog]] _]]]]]]. cbn zeta in *.
    destruct (in_dec Nat.eq_dec o (outs k)) as [Hin|Hnin].
    + exfalso. destruct (Hlog o Hin) as [_ [Hg' _]]. unfold tainted in Ht. rewrite Hg' in Ht.
      destruct (h_disk (run_edge cmd g (stk k) k) o); discriminate.
    + destruct (Hout o Hnin) as [E1 [E2 E3]].
      apply (stale_mono g true (stk k) _ e o (proj1 HGk)); [|exact E2|intros _; rewrite Hh; reflexivity|].
      * intros n. destruct (Hfs n) as [Hs|[mx [Hx [Hmx _]]]]; [left; exact Hs|].
        right; right. exists mx, (cmd k (h_hash (stk k) k) (reads g (stk k) k) n). split; [exact Hx|lia].
      * apply (IH e o Hnb0 Hph Ho). rewrite <- Ht. symmetry. apply tainted_eq; assumption.
  - destruct (fail_edge_spec g (stk k) k kd A B) as [Hb [Hh [_ [_ [_ [Hout [Hchg _]]]]]]]. cbn zeta in *.
    assert (Hnin : ~ In o (outs k)).
    { intros Hin. apply Hnb. left. pose proof (o_prod g Hwf k o Hin) as H1. rewrite (o_prod g Hwf e o Ho) in H1. congruence. }
    destruct (Hout o Hnin) as [E1 E3].
    apply (stale_mono g true (stk k) _ e o (proj1 HGk) Hchg); [rewrite Hb; reflexivity|intros _; rewrite Hh; reflexivity|].
    apply (IH e o Hnb0 Hph Ho). rewrite <- Ht. symmetry. apply tainted_eq; assumption.
Qed.

(* C01 restricted to the statements that do not depend on a failed one, while the budget lasts *)
Lemma c01K : TaintOk g true st0 -> forall k, (k <= g_nedges g)%nat ->
  budget_out (k_budget (acc k)) = false ->
  forall e, (e < k)%nat -> needed g T e -> phony e = false -> ~ In e (blk k) ->
  forall o, In o (outs e) ->
    exists m c, h_disk (stk k) o = Some (m, c) /\ clean_of cmd g st0 o = Some c.
Proof.
  intros HT. induction k as [|k IH]; intros Hk Hbud e He Hn Hph Hnb o Ho; [lia|].
  assert (Hbud0 : budget_out (k_budget (acc k)) = false) by (apply (budget_not_out_le k (S k)); [lia|exact Hbud]).
  assert (IHk : forall e', (e' < k)%nat -> needed g T e' -> phony e' = false -> ~ In e' (blk k) ->
            forall o', In o' (outs e') ->
            exists m c, h_disk (stk k) o' = Some (m, c) /\ clean_of cmd g st0 o' = Some c)
    by (apply IH; [lia|exact Hbud0]).
  destruct (invK fs p b st0 HG0 k ltac:(lia)) as [l HI]. pose proof (ik_good _ _ _ _ _ _ _ HI) as HGk.
  pose proof (ik_hash _ _ _ _ _ _ _ HI) as Hh. pose proof (ik_frame _ _ _ _ _ _ _ HI) as Hf.
  pose proof HGk as [[A [B [C [D E]]]] L].
  assert (Hnb0 : ~ In e (blk k)) by (intros Hin; apply Hnb; apply blocked_S; exact Hin).
  destruct (Nat.eq_dec e k) as [->|Hne].
  2:{ (* an earlier statement: its outputs are not touched by step [k] *)
      destruct (IHk e ltac:(lia) Hn Hph Hnb0 o Ho) as [m [c [Hd Hcl]]]. exists m, c. split; [|exact Hcl].
      rewrite <- Hd. apply (frozenK fs p b st0 HG0 k (S k) ltac:(lia) Hk o).
      intros j Hj. rewrite (o_prod g Hwf e o Ho) in Hj. inversion Hj; subst j. lia. }
  assert (Hcl : clean_of cmd g st0 o =
                Some (cmd k (h_hash st0 k) (map (fun i => (i, clean_of cmd g st0 i)) (nonoo_ins g k)) o)).
  { unfold clean_of. rewrite (clean_build_out cmd g Htopo _ _ k o Hk (o_prod g Hwf k o Ho)), Hph. reflexivity. }
  destruct (stepK_cases fs p b st0 k) as [[_ Hacc]|[Hbi [[Hout _]|[[_ [Hst Hacc]]|[[_ [Hst [Hfo Hacc]]]|[_ [_ [kd [_ Hacc]]]]]]]]].
  - exfalso. apply Hnb. rewrite Hacc. left; reflexivity.
  - congruence.
  - (* not started: not wanted, or clean when its turn came *)
    rewrite Hacc. unfold startedK in Hst. rewrite Hph in Hst. cbn [negb] in Hst. rewrite andb_true_r in Hst.
    destruct (want_start p k) eqn:Hw; cbn [andb] in Hst.
    + pose proof (dirty_now_spec g Hwf Hwg Hfrag (stk k) k Hst o Ho) as Hc.
      destruct (scan_clean_correct_on (fun e0 => (e0 <= k)%nat /\ ~ In e0 (blk k)) (stk k) HGk) with (e := k) (o := o)
        as [m [c [Hd Hcc]]]; try assumption.
      * intros e0 o0 [_ Hnb1] Hph0 Ho0 Ht0. apply (taintK HT k ltac:(lia) e0 o0 Hnb1 Hph0 Ho0 Ht0).
      * intros e0 i e' HP Hi Hp. apply (closedK k l HI Hk Hbi e0 i e' HP (nonoo_in g e0 i Hi) Hp).
      * split; [lia|exact Hnb0].
      * exists m, c. split; [exact Hd|]. rewrite <- Hcc. symmetry. apply clean_of_ext; [exact Hh|].
        intros x Hx. unfold content_of. rewrite (frame_leaf g st0 p k (stk k) x Hf Hx). reflexivity.
    + assert (Hc0 : ~ must_dirty (G st0) (W st0) o).
      { intros Hmd.
        destruct (want_complete g Hwf Hwg Hfrag st0 T s0 p Hscan k Hn (ex_intro _ o (conj Ho Hmd))) as [Hw' _]; [|congruence].
        intros [Hp _]. congruence. }
      destruct (scan_clean_correctF cmd g Hwf Hwg Hfrag Htopo Hgen st0 HG0 HT k Hk Hph o Ho Hc0) as [m [c [Hd Hc]]].
      exists m, c. split; [|exact Hc].
      rewrite (proj1 (frame_later g st0 p k (stk k) o k Hf (o_prod g Hwf k o Ho) (le_n k))). exact Hd.
  - (* the command runs: it reads clean contents *)
    rewrite Hacc. cbn [k_st].
    destruct (run_edge_spec cmd g (stk k) k A B) as [_ [_ [_ [_ [_ [[m [_ Hlog]] _]]]]]]. cbn zeta in Hlog.
    destruct (Hlog o Ho) as [_ [_ [mo Hd]]]. exists mo. eexists. split; [exact Hd|].
    rewrite Hcl, Hh. f_equal. f_equal. unfold reads. apply map_ext_in. intros i Hi. f_equal.
    destruct Hn as [n [Rn Hpn]].
    destruct (g_producer g i) as [e'|] eqn:Hpi.
    + destruct (closedK k l HI Hk Hbi k i e' (conj (le_n k) Hnb0) (nonoo_in g k i Hi) Hpi) as [_ Hnb'].
      pose proof (in_below g Htopo k i Hk (nonoo_in g k i Hi)) as Hlt. unfold below in Hlt. rewrite Hpi in Hlt.
      destruct (phony e') eqn:Hph'.
      * unfold content_of. rewrite (D i e' Hpi Hph'). unfold clean_of.
        rewrite (clean_build_out cmd g Htopo _ _ e' i ltac:(lia) Hpi), Hph'. reflexivity.
      * assert (Hn' : needed g T e').
        { exists i. split; [|exact Hpi]. apply (reach_step g (manifest_ins g) T n i Rn).
          exists k. split; [exact Hpn|apply nonoo_in; exact Hi]. }
        destruct (IHk e' Hlt Hn' Hph' Hnb' i (p_out g Hwf i e' Hpi)) as [mi [ci [Hdi Hci]]].
        unfold content_of. rewrite Hdi, Hci. reflexivity.
    + rewrite (clean_of_leaf cmd g st0 i Hpi). unfold content_of. rewrite (frame_leaf g st0 p k (stk k) i Hf Hpi). reflexivity.
  - exfalso. apply Hnb. rewrite Hacc. left; reflexivity.
Qed.

(* C02 restricted in the same way: what the unblocked statements produce is up to date *)
Lemma c02K : no_inputless_phony g = true -> forall k, (k <= g_nedges g)%nat ->
  budget_out (k_budget (acc k)) = false ->
  forall e, (e < k)%nat -> needed g T e -> ~ In e (blk k) ->
  forall o, In o (outs e) -> ~ must_dirty (G st0) (W (stk k)) o.
Proof.
  intros Hnip. induction k as [|k IH]; intros Hk Hbud e He Hn Hnb o Ho; [lia|].
  assert (Hbud0 : budget_out (k_budget (acc k)) = false) by (apply (budget_not_out_le k (S k)); [lia|exact Hbud]).
  assert (IHk : forall e', (e' < k)%nat -> needed g T e' -> ~ In e' (blk k) ->
            forall o', In o' (outs e') -> ~ must_dirty (G st0) (W (stk k)) o') by (apply IH; [lia|exact Hbud0]).
  destruct (invK fs p b st0 HG0 k ltac:(lia)) as [l HI]. pose proof (ik_good _ _ _ _ _ _ _ HI) as HGk.
  pose proof (ik_hash _ _ _ _ _ _ _ HI) as Hh. pose proof (ik_frame _ _ _ _ _ _ _ HI) as Hf.
  assert (HGeq : G (stk k) = G st0) by (apply G_hash_eq; exact Hh).
  assert (Hnb0 : ~ In e (blk k)) by (intros Hin; apply Hnb; apply blocked_S; exact Hin).
  assert (Hag : agree_below g k (W (stk (S k))) (W (stk k))).
  { intros n Hb. destruct (frozenK fs p b st0 HG0 k (S k) ltac:(lia) Hk n) as [E1 [E2 _]].
    - intros j Hj. unfold below in Hb. rewrite Hj in Hb. exact Hb.
    - cbn [world_of w_mtime w_blog]. unfold mtime_of. rewrite E1, E2. split; reflexivity. }
  destruct (Nat.eq_dec e k) as [->|Hne].
  2:{ intros Hmd. apply (IHk e ltac:(lia) Hn Hnb0 o Ho).
      apply (md_below g Hwf Hwg Hfrag Htopo st0 k (W (stk (S k))) (W (stk k)) ltac:(lia) Hag o Hmd).
      unfold below. rewrite (o_prod g Hwf e o Ho). lia. }
  destruct (stepK_cases fs p b st0 k) as [[_ Hacc]|[Hbi [[Hout _]|[[_ [Hst Hacc]]|[[_ [Hst [Hfo Hacc]]]|[_ [_ [kd [_ Hacc]]]]]]]]].
  - exfalso. apply Hnb. rewrite Hacc. left; reflexivity.
  - congruence.
  - (* not started *)
    assert (Hins : forall i, In i (nonoo_ins g k) -> ~ must_dirty (G st0) (W (stk k)) i).
    { destruct Hn as [n [Rn Hpn]]. intros i Hi Hmd. destruct (g_producer g i) as [e'|] eqn:Hpi.
      - destruct (closedK k l HI Hk Hbi k i e' (conj (le_n k) Hnb0) (nonoo_in g k i Hi) Hpi) as [_ Hnb'].
        pose proof (in_below g Htopo k i Hk (nonoo_in g k i Hi)) as Hlt. unfold below in Hlt. rewrite Hpi in Hlt.
        assert (Hn' : needed g T e').
        { exists i. split; [|exact Hpi]. apply (reach_step g (manifest_ins g) T n i Rn).
          exists k. split; [exact Hpn|apply nonoo_in; exact Hi]. }
        apply (IHk e' Hlt Hn' Hnb' i (p_out g Hwf i e' Hpi) Hmd).
      - pose proof (must_dirty_leaf_inv (G st0) (W (stk k)) i Hmd Hpi) as Hz.
        cbn [world_of w_mtime] in Hz. unfold mtime_of in Hz. rewrite (frame_leaf g st0 p k (stk k) i Hf Hpi) in Hz.
        assert (Hmd0 : must_dirty (G st0) (W st0) n).
        { apply (md_input (G st0) (W st0) n k i Hpn).
          - rewrite (spec_ins_AB g Hfrag st0 (W st0) k Hk). exact Hi.
          - apply md_leaf; [exact Hpi|exact Hz]. }
        destruct (want_complete g Hwf Hwg Hfrag st0 T s0 p Hscan k (ex_intro _ n (conj Rn Hpn))
                    (ex_intro _ n (conj (p_out g Hwf n k Hpn) Hmd0))) as [_ Hl].
        + intros [_ Hnil]. pose proof (nonoo_in g k i Hi) as Hin. rewrite Hnil in Hin. destruct Hin.
        + apply (Hl i (nonoo_in g k i Hi) Hpi). unfold mtime_of. exact Hz. }
    rewrite Hacc. destruct (phony k) eqn:Hph.
    + intros Hmd.
      destruct (must_dirty_out_inv (G st0) (W (stk k)) o k Hmd (o_prod g Hwf k o Ho))
        as [[i [Hi Hdi]]|[[_ [Hnil _]]|[[Hp _]|Hl]]].
      * rewrite (spec_ins_AB g Hfrag st0 (W (stk k)) k Hk) in Hi. apply (Hins i Hi Hdi).
      * apply (nip_edge g k Hnip Hk). split; [exact Hph|exact Hnil].
      * change (phony k = false) in Hp. congruence.
      * unfold spec_load in Hl. change (ei_deps (g_edge (G st0) k)) with (ei_deps (g_edge g k)) in Hl.
        rewrite (edge_frag g Hfrag k Hk) in Hl. discriminate.
    + unfold startedK in Hst. rewrite Hph in Hst. cbn [negb] in Hst. rewrite andb_true_r in Hst.
      destruct (want_start p k) eqn:Hw; cbn [andb] in Hst.
      * rewrite <- HGeq. apply (dirty_now_spec g Hwf Hwg Hfrag (stk k) k Hst o Ho).
      * assert (Hc0 : ~ must_dirty (G st0) (W st0) o).
        { intros Hmd.
          destruct (want_complete g Hwf Hwg Hfrag st0 T s0 p Hscan k Hn (ex_intro _ o (conj Ho Hmd))) as [Hw' _]; [|congruence].
          intros [Hp _]. congruence. }
        intros Hmd.
        apply (clean_stable g Hwf Hwg Hfrag st0 (W st0) (W (stk k))
                 (frame_clean g Hwf Hwg Hfrag st0 T s0 p Hscan k (stk k) Hf) o Hmd Hc0).
  - (* the command of [k] runs *)
    assert (Hph : phony k = false).
    { unfold startedK in Hst. apply andb_true_iff in Hst. destruct Hst as [Hst _]. apply andb_true_iff in Hst.
      destruct Hst as [_ Hx]. apply negb_true_iff in Hx. exact Hx. }
    pose proof HGk as [[A [B [C [D E]]]] L].
    destruct (run_edge_spec cmd g (stk k) k A B) as [Hh' [Hc' [Hout' [_ [Hd' [[m [Hm Hlog]] Hnr]]]]]]. cbn zeta in *.
    assert (Hst' : stk (S k) = run_edge cmd g (stk k) k) by (rewrite Hacc; reflexivity).
    rewrite Hst' in Hag |- *. set (st' := run_edge cmd g (stk k) k) in *.
    assert (Hins : forall i, In i (nonoo_ins g k) -> ~ must_dirty (G st0) (W (stk k)) i).
    { destruct Hn as [n [Rn Hpn]]. intros i Hi Hmd. destruct (g_producer g i) as [e'|] eqn:Hpi.
      - destruct (closedK k l HI Hk Hbi k i e' (conj (le_n k) Hnb0) (nonoo_in g k i Hi) Hpi) as [_ Hnb'].
        pose proof (in_below g Htopo k i Hk (nonoo_in g k i Hi)) as Hlt. unfold below in Hlt. rewrite Hpi in Hlt.
        assert (Hn' : needed g T e').
        { exists i. split; [|exact Hpi]. apply (reach_step g (manifest_ins g) T n i Rn).
          exists k. split; [exact Hpn|apply nonoo_in; exact Hi]. }
        apply (IHk e' Hlt Hn' Hnb' i (p_out g Hwf i e' Hpi) Hmd).
      - pose proof (must_dirty_leaf_inv (G st0) (W (stk k)) i Hmd Hpi) as Hz.
        cbn [world_of w_mtime] in Hz. unfold mtime_of in Hz. rewrite (frame_leaf g st0 p k (stk k) i Hf Hpi) in Hz.
        assert (Hmd0 : must_dirty (G st0) (W st0) n).
        { apply (md_input (G st0) (W st0) n k i Hpn).
          - rewrite (spec_ins_AB g Hfrag st0 (W st0) k Hk). exact Hi.
          - apply md_leaf; [exact Hpi|exact Hz]. }
        destruct (want_complete g Hwf Hwg Hfrag st0 T s0 p Hscan k (ex_intro _ n (conj Rn Hpn))
                    (ex_intro _ n (conj (p_out g Hwf n k Hpn) Hmd0))) as [_ Hl].
        + intros [_ Hnil]. pose proof (nonoo_in g k i Hi) as Hin. rewrite Hnil in Hin. destruct Hin.
        + apply (Hl i (nonoo_in g k i Hi) Hpi). unfold mtime_of. exact Hz. }
    intros Hmd.
    destruct (must_dirty_out_inv (G st0) (W st') o k Hmd (o_prod g Hwf k o Ho))
      as [[i [Hi Hdi]]|[[Hp _]|[[_ [o' [Ho' Hr]]]|Hl]]].
    + rewrite (spec_ins_AB g Hfrag st0 (W st') k Hk) in Hi. apply (Hins i Hi).
      apply (md_below g Hwf Hwg Hfrag Htopo st0 k (W st') (W (stk k)) ltac:(lia) Hag i Hdi).
      apply (in_below g Htopo k i Hk (nonoo_in g k i Hi)).
    + change (phony k = true) in Hp. congruence.
    + change (In o' (outs k)) in Ho'.
      destruct (Hlog o' Ho') as [Hb' [_ [mo Hdo]]].
      assert (HN : forall x, (exists i, In i (spec_ins (G st0) (W st') k) /\ newer_than (G st0) (W st') x i) ->
                             x < h_clock (stk k)).
      { intros x [i [Hi Hnt]]. rewrite (spec_ins_AB g Hfrag st0 (W st') k Hk) in Hi.
        apply (newer_bound g Htopo st0 k (W st') (h_clock (stk k)) ltac:(lia) A) with (n := i); [|exact Hnt|].
        - intros n Hb. destruct (Hag n Hb) as [E1 _]. cbn [world_of w_mtime] in *. rewrite <- E1.
          apply (mtime_leF (stk k) n (proj1 HGk)).
        - apply (in_below g Htopo k i Hk (nonoo_in g k i Hi)). }
      unfold out_reason, base_reason, time_reason, used_restat in Hr.
      cbn [world_of w_mtime w_blog] in Hr. unfold mtime_of in Hr. rewrite Hdo, Hb' in Hr.
      destruct (Hd' o' mo _ Hdo) as [Hmo _].
      destruct Hr as [[Hz|[_ Hneq]]|[[Hu Hx]|Hx]].
      * lia.
      * apply Hneq. cbn [graph_of g_edge set_hash ei_hash]. rewrite Hh. reflexivity.
      * change (ei_restat (g_edge (G st0) k)) with (ei_restat (g_edge g k)) in Hu.
        rewrite andb_true_r in Hu. destruct (Hnr Hu o' Ho') as [mo' [Hdo' Hlt]].
        rewrite Hdo in Hdo'. inversion Hdo'; subst mo'. specialize (HN mo Hx). lia.
      * specialize (HN m Hx). lia.
    + unfold spec_load in Hl. change (ei_deps (g_edge (G st0) k)) with (ei_deps (g_edge g k)) in Hl.
      rewrite (edge_frag g Hfrag k Hk) in Hl. discriminate.
  - exfalso. apply Hnb. rewrite Hacc. left; reflexivity.
Qed.

End LoopSem.

(* ---- the theorems about the independent part *)
Lemma indep_unblocked fs p b st0 k a l e :
  InvK fs p b st0 k a l -> independent g a e -> ~ In e (k_blocked a).
Proof.
  intros HI Hind Hin. apply (ik_blk _ _ _ _ _ _ _ HI) in Hin. destruct Hin as [_ [f [Hf Hfe]]].
  destruct (Hind f Hf) as [Hne Hnd]. destruct Hfe as [Heq|Hd]; [apply Hne; exact Heq|apply Hnd; exact Hd].
Qed.

Lemma taintok_of_good st : Good cmd g st -> TaintOk g true st.
Proof.
  intros [[A [B [C [D E]]]] L] e o Hph Ho Ht. exfalso. unfold tainted in Ht.
  destruct (h_disk st o) as [[mo c]|] eqn:Hd; [|discriminate].
  destruct (h_ghost st o) as [S|] eqn:Hg; [discriminate|].
  destruct (h_blog st o) as [[h m]|] eqn:Hb.
  - destruct (L e o h m mo c Hph Ho Hb Hd) as [S [HS _]]. congruence.
  - apply (E o e (o_prod g Hwf e o Ho) Hph); [rewrite Hd; discriminate|exact Hb].
Qed.

Lemma clean_of_buildFK st T fs b a : GoodF cmd g st -> buildFK cmd g st T fs b = Some a ->
  forall n, clean_of cmd g (k_st a) n = clean_of cmd g st n.
Proof.
  intros HG H. destruct (buildFK_inv st T fs b a HG H) as [s [p [l [_ [_ [HI _]]]]]].
  apply clean_of_ext; [apply (ik_hash _ _ _ _ _ _ _ HI)|].
  intros x Hx. unfold content_of. rewrite (frame_leaf g st p _ (k_st a) x (ik_frame _ _ _ _ _ _ _ HI) Hx). reflexivity.
Qed.

(* C05 with -k N, "keeps starting commands that do not depend on a failed one", semantically: while
   the budget lasts (always with -k 0) every node the targets need whose statement neither failed nor
   depends on a failed one ends up with the content of a from-scratch build ... *)
Theorem C05K_independent_run_proof st T fs b a :
  GoodF cmd g st -> TaintOk g true st -> buildFK cmd g st T fs b = Some a ->
  budget_out (k_budget a) = false ->
  forall n, reach g T n -> (forall e, g_producer g n = Some e -> independent g a e) ->
            content_of (k_st a) n = clean_of cmd g (k_st a) n.
Proof.
  intros HG HT H Hbud n Rn Hind. rewrite (clean_of_buildFK st T fs b a HG H).
  destruct (buildFK_inv st T fs b a HG H) as [s [p [l [Hs [Ha [HI _]]]]]].
  destruct (g_producer g n) as [e|] eqn:Hp.
  2:{ rewrite (clean_of_leaf cmd g st n Hp). unfold content_of.
      rewrite (frame_leaf g st p _ (k_st a) n (ik_frame _ _ _ _ _ _ _ HI) Hp). reflexivity. }
  pose proof (Hwg n e Hp) as He. destruct (phony e) eqn:Hph.
  - pose proof (ik_good _ _ _ _ _ _ _ HI) as [[_ [_ [_ [D _]]]] _]. unfold content_of. rewrite (D n e Hp Hph).
    unfold clean_of. rewrite (clean_build_out cmd g Htopo _ _ e n He Hp), Hph. reflexivity.
  - pose proof (indep_unblocked fs p b st _ a l e HI (Hind e eq_refl)) as Hnb. rewrite Ha in Hnb, Hbud.
    destruct (c01K fs p b st T s HG Hs HT (g_nedges g) (le_n _) Hbud e He (ex_intro _ n (conj Rn Hp)) Hph Hnb n
                (p_out g Hwf n e Hp)) as [m [c [Hd Hc]]].
    unfold content_of. rewrite Ha, Hd, Hc. reflexivity.
Qed.

(* ... and is up to date: the scan of the state after the invocation does not find it dirty *)
Theorem C05K_independent_uptodate_proof st T fs b a :
  GoodF cmd g st -> no_inputless_phony g = true -> buildFK cmd g st T fs b = Some a ->
  budget_out (k_budget a) = false ->
  forall e, needed g T e -> independent g a e ->
  forall o, In o (outs e) -> ~ must_dirty (G (k_st a)) (W (k_st a)) o.
Proof.
  intros HG Hnip H Hbud e Hn Hind o Ho.
  destruct (buildFK_inv st T fs b a HG H) as [s [p [l [Hs [Ha [HI _]]]]]].
  rewrite (G_hash_eq g st (k_st a) (ik_hash _ _ _ _ _ _ _ HI)).
  pose proof (indep_unblocked fs p b st _ a l e HI Hind) as Hnb. rewrite Ha in Hnb, Hbud |- *.
  apply (c02K fs p b st T s HG Hs Hnip (g_nedges g) (le_n _) Hbud e (out_lt g Hwf Hwg e o Ho) Hn Hnb o Ho).
Qed.

(* ... in other words it holds what the FAULT-FREE invocation leaves there *)
Theorem C05K_independent_as_fault_free_proof st T fs b a ok :
  Good cmd g st -> buildFK cmd g st T fs b = Some a -> budget_out (k_budget a) = false ->
  build cmd g st T = Some ok ->
  forall n, reach g T n -> (forall e, g_producer g n = Some e -> independent g a e) ->
            content_of (k_st a) n = content_of ok n.
Proof.
  intros HGood H Hbud Hok n Rn Hind. pose proof (goodF_of_good cmd g st HGood) as HG.
  rewrite (C05K_independent_run_proof st T fs b a HG (taintok_of_good st HGood) H Hbud n Rn Hind).
  rewrite (C01_build_equals_clean cmd g Hwf Hwg Hfrag Htopo Hgen st T ok HGood Hok n Rn).
  rewrite (clean_of_buildFK st T fs b a HG H). symmetry.
  destruct (build_sources cmd g Hwf Htopo st T ok HGood Hok) as [Hh Hsrc].
  apply clean_of_ext; [exact Hh|]. intros x Hx. unfold content_of. rewrite (Hsrc x Hx). reflexivity.
Qed.

(* a command that was started and did not fail has its log entry (current command hash) *)
Theorem C05K_succeeded_recorded_proof st T fs b a :
  GoodF cmd g st -> buildFK cmd g st T fs b = Some a ->
  forall e, In e (trace_delta st (k_st a)) -> fault_of fs e = None ->
  forall o, In o (outs e) -> exists m, h_blog (k_st a) o = Some (h_hash st e, m).
Proof.
  intros HG H. destruct (buildFK_inv st T fs b a HG H) as [s [p [l [_ [_ [HI Hl]]]]]]. rewrite Hl.
  apply (ik_recorded _ _ _ _ _ _ _ HI).
Qed.

(* ================================================================== Part 5: recovery *)
Theorem goodF_buildFK_proof st T fs b a :
  GoodF cmd g st -> buildFK cmd g st T fs b = Some a -> GoodF cmd g (k_st a).
Proof.
  intros HG H. destruct (buildFK_inv st T fs b a HG H) as [s [p [l [_ [_ [HI _]]]]]].
  apply (ik_good _ _ _ _ _ _ _ HI).
Qed.

Theorem goodF_khist_proof : forall h st,
  GoodF cmd g st -> khist_ok g h = true -> GoodF cmd g (run_khist cmd g st h).
Proof.
  induction h as [|x h IH]; intros st HG Hok; [exact HG|].
  cbn [khist_ok forallb] in Hok. apply andb_true_iff in Hok. destruct Hok as [Hx Hh].
  change (run_khist cmd g st (x :: h)) with (run_khist cmd g (apply_kstep cmd g st x) h).
  apply IH; [|exact Hh]. destruct x as [s|T fs b]; cbn [apply_kstep kstep_ok] in *.
  - apply (goodF_step_proof cmd g Hwf Htopo st (Plain s) HG Hx).
  - destruct (buildFK cmd g st T fs b) as [a|] eqn:Hb; [|exact HG]. apply (goodF_buildFK_proof st T fs b a HG Hb).
Qed.

(* C01 for the next successful invocation, under the boolean hypothesis on the state it starts in *)
Theorem C01K_next_build_proof st T fs b a T' st2 :
  GoodF cmd g st -> buildFK cmd g st T fs b = Some a ->
  taint_safe g (k_st a) = true -> build cmd g (k_st a) T' = Some st2 ->
  forall n, reach g T' n -> content_of st2 n = clean_of cmd g st2 n.
Proof.
  intros HG H Hts Hb.
  apply (C01F_build_bool_proof cmd g Hwf Hwg Hfrag Htopo Hgen (k_st a) T' st2 (goodF_buildFK_proof st T fs b a HG H) Hts Hb).
Qed.

(* the next invocation is accepted *)
Theorem C05K_next_invocation_accepted_proof st T fs b a :
  GoodF cmd g st -> no_inputless_phony g = true -> buildFK cmd g st T fs b = Some a ->
  exists st2, build cmd g (k_st a) T = Some st2.
Proof.
  intros HG Hnip H. destruct (buildFK_inv st T fs b a HG H) as [s [p [l [Hs [_ [HI _]]]]]].
  pose proof (ik_frame _ _ _ _ _ _ _ HI) as Hfr.
  assert (HGr : G (k_st a) = G st) by (apply G_hash_eq; apply (ik_hash _ _ _ _ _ _ _ HI)).
  destruct (scan_accepts_mono (G st) Hwf Hwg Hfrag Htopo Hnip T T (W st) (W (k_st a)) s p Hs (fun e0 H0 => H0) (fun t H0 _ => H0))
    as [s' [p' Hs']].
  - intros n Hc Hmd.
    apply (clean_stable g Hwf Hwg Hfrag st (W st) (W (k_st a)) (frame_clean g Hwf Hwg Hfrag st T s p Hs _ (k_st a) Hfr) n Hmd Hc).
  - intros n Hp. change (g_producer g n = None) in Hp. cbn [world_of w_mtime]. unfold mtime_of.
    rewrite (frame_leaf g st p _ (k_st a) n Hfr Hp). reflexivity.
  - unfold build. rewrite HGr, Hs'. eexists. reflexivity.
Qed.

(* ---- must_dirty only looks at the statements below a node *)
Definition DN (D : edge -> Prop) (n : node) : Prop := forall e, g_producer g n = Some e -> D e.
Definition agree_on (D : edge -> Prop) (w w' : world) : Prop :=
  forall n, DN D n -> w_mtime w' n = w_mtime w n /\ w_blog w' n = w_blog w n.

Section Closed.
Variable D : edge -> Prop.
Hypothesis Dcl : forall e i e', D e -> In i (nonoo_ins g e) -> g_producer g i = Some e' -> D e'.

Lemma DN_input n e i : DN D n -> g_producer g n = Some e -> In i (nonoo_ins g e) -> DN D i.
Proof. intros Hn Hp Hi e' He'. apply (Dcl e i e' (Hn e Hp) Hi He'). Qed.

Lemma DN_out e o : D e -> In o (outs e) -> DN D o.
Proof. intros He Ho e' He'. rewrite (o_prod g Hwf e o Ho) in He'. inversion He'; subst. exact He. Qed.

Lemma newer_closed st w w' : agree_on D w w' ->
  forall x n, newer_than (G st) w x n -> DN D n -> newer_than (G st) w' x n.
Proof.
  intros Ha x n H. induction H as [n Hnz Hlt|n Hz Hlt|n e i Hz Hp Hph Hi Hn IH]; intros Hb.
  - destruct (Ha n Hb) as [Hm _]. apply nt_file; rewrite Hm; assumption.
  - apply nt_missing; [rewrite (proj1 (Ha n Hb))|]; assumption.
  - apply (nt_phony (G st) w' x n e i); [rewrite (proj1 (Ha n Hb)); exact Hz|exact Hp|exact Hph|exact Hi|].
    apply IH. apply (DN_input n e i Hb Hp Hi).
Qed.

Lemma md_closed st w w' : agree_on D w w' ->
  forall n, must_dirty (G st) w n -> DN D n -> must_dirty (G st) w' n.
Proof.
  intros Ha n H.
  induction H as [n Hp Hz|n e i Hp Hi Hd IH|n e o Hp Hph Hin Hv Ho Hz|n e o Hp Hph Ho Hr|n e Hp Hl]; intros Hb.
  - apply md_leaf; [exact Hp|]. rewrite (proj1 (Ha n Hb)). exact Hz.
  - assert (He : (e < g_nedges g)%nat) by (apply (Hwg n e Hp)).
    rewrite (spec_ins_AB g Hfrag st w e He) in Hi.
    apply (md_input (G st) w' n e i Hp); [rewrite (spec_ins_AB g Hfrag st w' e He); exact Hi|].
    apply IH. apply (DN_input n e i Hb Hp Hi).
  - assert (Hbo : DN D o) by (apply (DN_out e o (Hb e Hp) Ho)).
    apply (md_phony (G st) w' n e o Hp Hph Hin Hv Ho). rewrite (proj1 (Ha o Hbo)). exact Hz.
  - assert (He : (e < g_nedges g)%nat) by (apply (Hwg n e Hp)).
    assert (Hbo : DN D o) by (apply (DN_out e o (Hb e Hp) Ho)).
    apply (md_self (G st) w' n e o Hp Hph Ho).
    destruct (Ha o Hbo) as [Hm Hbl].
    apply (out_reason_transfer g st w w'
             (fun x => exists i, In i (spec_ins (G st) w e) /\ newer_than (G st) w x i)
             (fun x => exists i, In i (spec_ins (G st) w' e) /\ newer_than (G st) w' x i) e o Hm Hbl); [|exact Hr].
    intros x [i [Hi Hn]]. rewrite (spec_ins_AB g Hfrag st w e He) in Hi. exists i.
    split; [rewrite (spec_ins_AB g Hfrag st w' e He); exact Hi|].
    apply (newer_closed st w w' Ha x i Hn). apply (DN_input n e i Hb Hp Hi).
  - exfalso. unfold spec_load in Hl. change (ei_deps (g_edge (G st) e)) with (ei_deps (g_edge g e)) in Hl.
    rewrite (edge_frag g Hfrag e (Hwg n e Hp)) in Hl. discriminate.
Qed.
End Closed.

Lemma dep_trans_low x y z : depends_on g x y -> depends_on g y z -> depends_on g x z.
Proof.
  intros Hxy Hyz. induction Hyz as [z i Hi Hp|z i e' Hi Hp Hd IH].
  - apply (dep_trans g x z i y Hi Hp Hxy).
  - apply (dep_trans g x z i e' Hi Hp IH).
Qed.

(* the states of the loop only move forward *)
Lemma chgK fs p b st0 : GoodF cmd g st0 -> forall k k', (k <= k')%nat -> (k' <= g_nedges g)%nat ->
  Chg (k_st (build_uptoK cmd g fs p b k st0)) (k_st (build_uptoK cmd g fs p b k' st0)) /\
  h_clock (k_st (build_uptoK cmd g fs p b k st0)) <= h_clock (k_st (build_uptoK cmd g fs p b k' st0)).
Proof.
  intros HG k k' Hle. induction Hle as [|k' Hle IH]; intros Hk'; [split; [intros n; left; reflexivity|lia]|].
  destruct (IH ltac:(lia)) as [IH1 IH2].
  destruct (invK fs p b st0 HG k' ltac:(lia)) as [l HI]. pose proof (ik_good _ _ _ _ _ _ _ HI) as [[A [B _]] _].
  destruct (stepK_cases fs p b st0 k') as [[_ Hacc]|[_ [[_ Hacc]|[[_ [_ Hacc]]|[[_ [_ [_ Hacc]]]|[_ [_ [kd [_ Hacc]]]]]]]]];
    rewrite Hacc; cbn [k_st]; try (split; assumption).
  - destruct (run_edge_spec cmd g _ k' A B) as [_ [Hc [_ [Hfs _]]]]. cbn zeta in *. split; [|lia].
    apply (chg_trans _ _ _ IH2 IH1). intros n. destruct (Hfs n) as [Hs|[mx [Hx [Hmx _]]]]; [left; exact Hs|].
    right; right. eexists. eexists. split; [exact Hx|lia].
  - destruct (fail_edge_spec g _ k' kd A B) as [_ [_ [_ [Hc [_ [_ [Hchg _]]]]]]]. cbn zeta in *. split; [|lia].
    apply (chg_trans _ _ _ IH2 IH1 Hchg).
Qed.

(* the step at which [f] failed *)
Lemma failed_step fs p b st0 k l f kd sf :
  InvK fs p b st0 k (build_uptoK cmd g fs p b k st0) l ->
  In (f, kd, sf) (k_failed (build_uptoK cmd g fs p b k st0)) ->
  (f < k)%nat /\ sf = k_st (build_uptoK cmd g fs p b f st0) /\
  k_st (build_uptoK cmd g fs p b (S f) st0) = fail_edge g sf f kd /\
  want_start p f = true /\ phony f = false /\ dirty_now g sf f = true /\
  budget_out (k_budget (build_uptoK cmd g fs p b f st0)) = false /\
  blocked_input g (k_blocked (build_uptoK cmd g fs p b f st0)) f = false /\ fault_of fs f = Some kd.
Proof.
  intros HI Hin. destruct (ik_failed _ _ _ _ _ _ _ HI f kd sf Hin) as [Hlt [Hfo [Hsf [Hout [Hbi Hst]]]]].
  split; [exact Hlt|]. split; [exact Hsf|].
  assert (Hstep : k_st (build_uptoK cmd g fs p b (S f) st0) = fail_edge g sf f kd).
  { rewrite build_uptoK_S. unfold build_stepK. rewrite Hbi, Hout. fold (startedK p (build_uptoK cmd g fs p b f st0) f).
    rewrite Hst, Hfo. cbn [k_st]. rewrite Hsf. reflexivity. }
  split; [exact Hstep|].
  unfold startedK in Hst. apply andb_true_iff in Hst. destruct Hst as [Hst Hdn]. apply andb_true_iff in Hst.
  destruct Hst as [Hw Hph]. apply negb_true_iff in Hph. rewrite <- Hsf in Hdn.
  repeat split; assumption.
Qed.

(* C05 "so the next invocation runs it again", after a -k N invocation with several failures: each
   failed command [f] is started again by the next invocation for the same targets (which is
   accepted, [C05K_next_invocation_accepted_proof]) -- FailUntouched and FailDeleted without further
   premise, FailWrote when the log gives a reason ([rerun_reason], as for -k 1) *)
Theorem C05K_next_invocation_reruns_proof st T fs b a f kd sf st2 :
  GoodF cmd g st -> no_inputless_phony g = true -> buildFK cmd g st T fs b = Some a ->
  In (f, kd, sf) (k_failed a) ->
  (forall fw, kd = FailWrote fw -> rerun_reason g sf f kd) ->
  build cmd g (k_st a) T = Some st2 ->
  In f (trace_delta (k_st a) st2).
Proof.
  intros HG Hnip H Hin Hreason Hb.
  destruct (buildFK_inv st T fs b a HG H) as [s [p [l [Hs [Ha [HI _]]]]]]. subst a.
  destruct (failed_step fs p b st _ l f kd sf HI Hin) as [Hf [Hsf [Hstep [Hw [Hph [Hdn [Hbud [Hbi Hfo]]]]]]]].
  destruct (want_sound g Hwf Hwg Hfrag st T s p Hs f Hw) as [Hn [o0 [Ho0 _]]].
  destruct (invK fs p b st HG f ltac:(lia)) as [lf HIf].
  pose proof (ik_good _ _ _ _ _ _ _ HIf) as HGf. pose proof (ik_frame _ _ _ _ _ _ _ HIf) as Hfrf.
  pose proof (ik_hash _ _ _ _ _ _ _ HIf) as Hhf. rewrite <- Hsf in HGf, Hfrf, Hhf.
  pose proof (ik_good _ _ _ _ _ _ _ HI) as HG'. pose proof (ik_hash _ _ _ _ _ _ _ HI) as Hh'.
  destruct (invK fs p b st HG (S f) ltac:(lia)) as [lf1 HIf1]. pose proof (ik_good _ _ _ _ _ _ _ HIf1) as HGf1.
  pose proof (ik_hash _ _ _ _ _ _ _ HIf1) as Hhf1.
  set (st' := k_st (build_uptoK cmd g fs p b (g_nedges g) st)) in *.
  set (sf1 := k_st (build_uptoK cmd g fs p b (S f) st)) in *.
  pose proof HGf as [[A [B _]] _].
  destruct (fail_edge_spec g sf f kd A B) as [Hb1 [Hh1 [_ [_ [_ [Hout1 [Hchg1 [_ Hkind]]]]]]]]. cbn zeta in *.
  rewrite <- Hstep in Hb1, Hh1, Hout1, Hchg1, Hkind.
  assert (Hfz : forall n0, (forall j, g_producer g n0 = Some j -> (j < S f)%nat) ->
                  h_disk st' n0 = h_disk sf1 n0 /\ h_blog st' n0 = h_blog sf1 n0 /\ h_ghost st' n0 = h_ghost sf1 n0).
  { intros n0 Hn0. apply (frozenK fs p b st HG (S f) (g_nedges g) ltac:(lia) (le_n _) n0 Hn0). }
  assert (Hfzo : forall o, In o (outs f) ->
                  h_disk st' o = h_disk sf1 o /\ h_blog st' o = h_blog sf1 o /\ h_ghost st' o = h_ghost sf1 o).
  { intros o Ho. apply Hfz. intros j Hj. rewrite (o_prod g Hwf f o Ho) in Hj. inversion Hj; subst j. lia. }
  assert (HGr' : G st' = G st) by (apply G_hash_eq; exact Hh').
  apply (rerun_core cmd g Hwf Hwg Hfrag Htopo st' T st2 f HG' Hn Hf Hph); [|exact Hb].
  intros s1 p1 Hs1.
  destruct (build_inv1F cmd g Hwf Htopo st' p1 HG' f ltac:(lia)) as [HGk' [Hhk' [Hf' [_ Hch']]]].
  set (stk' := build_upto cmd g p1 f st') in *.
  destruct kd as [| |fw].
  - (* FailUntouched *)
    destruct Hkind as [K1 K2].
    assert (HGrf : G sf = G st) by (apply G_hash_eq; exact Hhf).
    assert (Hmd_sf : exists o, In o (outs f) /\ must_dirty (G st) (W sf) o).
    { rewrite <- HGrf. apply (dirty_now_md g Hwf Hwg Hfrag sf f Hdn). rewrite HGrf.
      apply (scan_accepts_mono (G st) Hwf Hwg Hfrag Htopo Hnip (outs f) T (W st) (W sf) s p Hs).
      - intros e' He'. apply (needed_outs g Hwf st T f e' Hn He').
      - intros t Ht Hp. change (g_producer g t = None) in Hp. rewrite (o_prod g Hwf f t Ht) in Hp. discriminate.
      - intros n0 Hc Hmd.
        apply (clean_stable g Hwf Hwg Hfrag st (W st) (W sf) (frame_clean g Hwf Hwg Hfrag st T s p Hs f sf Hfrf) n0 Hmd Hc).
      - intros n0 Hp. change (g_producer g n0 = None) in Hp. cbn [world_of w_mtime]. unfold mtime_of.
        rewrite (frame_leaf g st p f sf n0 Hfrf Hp). reflexivity. }
    destruct Hmd_sf as [o [Ho Hmd]].
    assert (Hag : agree_below g (S f) (W sf) (W st')).
    { intros n0 Hb0. destruct (Hfz n0) as [E1 [E2 _]].
      - intros j Hj. unfold below in Hb0. rewrite Hj in Hb0. exact Hb0.
      - cbn [world_of w_mtime w_blog]. unfold mtime_of. rewrite E1, E2, (K1 n0), Hb1. split; reflexivity. }
    assert (Hag' : agree_below g (S f) (W st') (W sf)).
    { intros n0 Hb0. destruct (Hag n0 Hb0) as [X Y]. split; symmetry; assumption. }
    assert (Hmd' : must_dirty (G st) (W st') o).
    { apply (md_below g Hwf Hwg Hfrag Htopo st (S f) (W sf) (W st') ltac:(lia) Hag o Hmd).
      unfold below. rewrite (o_prod g Hwf f o Ho). lia. }
    set (D := fun e : edge => e = f \/ depends_on g e f).
    assert (Dcl : forall e i e', D e -> In i (nonoo_ins g e) -> g_producer g i = Some e' -> D e').
    { intros e i e' He Hi Hp. right. pose proof (dep_direct g e' e i (nonoo_in g e i Hi) Hp) as Hd.
      destruct He as [->|He]; [exact Hd|apply (dep_trans_low e' e f Hd He)]. }
    assert (Hagree : agree_on D (W st') (W stk')).
    { intros n0 HDn.
      destruct (touched_build_upto cmd g Hwf Htopo p1 st' f HG' ltac:(lia) n0) as [[E1 [E2 _]]|[j [Hj [Hjf Hran]]]].
      - cbn [world_of w_mtime w_blog]. unfold mtime_of. fold stk' in E1, E2. rewrite E1, E2. split; reflexivity.
      - exfalso. specialize (HDn j Hj). destruct HDn as [->|Hdj]; [lia|].
        unfold ran in Hran. apply andb_true_iff in Hran. destruct Hran as [Hran _]. apply andb_true_iff in Hran.
        destruct Hran as [Hwj _].
        destruct (want_sound g Hwf Hwg Hfrag st' T s1 p1 Hs1 j Hwj) as [Hnj [o' [Ho' Hmd'']]].
        rewrite HGr' in Hmd''.
        assert (Hnbj : ~ In j (k_blocked (build_uptoK cmd g fs p b f st))).
        { intros Hinb. apply (ik_blk _ _ _ _ _ _ _ HIf) in Hinb. destruct Hinb as [_ [f' [Hff' Hfe']]].
          apply (unblocked_indep fs p b st f _ lf HIf Hf Hbi f' Hff').
          destruct Hfe' as [->|Hd']; [exact Hdj|apply (dep_trans_low f' j f Hd' Hdj)]. }
        apply (c02K fs p b st T s HG Hs Hnip f ltac:(lia) Hbud j Hjf Hnj Hnbj o' Ho').
        rewrite <- Hsf.
        apply (md_below g Hwf Hwg Hfrag Htopo st (S f) (W st') (W sf) ltac:(lia) Hag' o' Hmd'').
        unfold below. rewrite (o_prod g Hwf j o' Ho'). lia. }
    split; exists o; (split; [exact Ho|]); rewrite HGr'; [exact Hmd'|].
    apply (md_closed D Dcl st (W st') (W stk') Hagree o Hmd'). apply (DN_out D f o (or_introl eq_refl) Ho).
  - (* FailDeleted: the outputs are missing, and stay so until the turn of [f] *)
    destruct Hkind as [K1 _].
    assert (Hmiss : h_disk st' o0 = None) by (rewrite (proj1 (Hfzo o0 Ho0)); apply K1; exact Ho0).
    split; exists o0; (split; [exact Ho0|]).
    + apply (md_base g Hwf st' f o0 Ho0 Hph). left. cbn [world_of w_mtime]. unfold mtime_of. rewrite Hmiss. reflexivity.
    + rewrite <- (G_hash_eq g st' stk' Hhk'). apply (md_base g Hwf stk' f o0 Ho0 Hph). left.
      cbn [world_of w_mtime]. unfold mtime_of.
      rewrite (proj1 (frame_later g st' p1 f stk' o0 f Hf' (o_prod g Hwf f o0 Ho0) (le_n f))), Hmiss. reflexivity.
  - (* FailWrote: the log entry is stale, and stays so *)
    destruct (Hreason fw eq_refl) as [o [Ho Hst]].
    assert (Hst1 : StaleEntry g true sf1 f o).
    { apply (stale_mono g true sf sf1 f o (proj1 HGf) Hchg1); [rewrite Hb1; reflexivity| |exact Hst].
      intros _. rewrite Hh1. reflexivity. }
    destruct (chgK fs p b st HG (S f) (g_nedges g) ltac:(lia) (le_n _)) as [HchgK _]. fold sf1 st' in HchgK.
    assert (Hst' : StaleEntry g true st' f o).
    { apply (stale_mono g true sf1 st' f o (proj1 HGf1) HchgK); [exact (proj1 (proj2 (Hfzo o Ho)))| |exact Hst1].
      intros _. rewrite Hh', Hhf1. reflexivity. }
    split; exists o; (split; [exact Ho|]).
    + apply (stale_md g Hwf Hwg Hfrag st' f o (proj1 HG') Hph Ho Hst').
    + rewrite <- (G_hash_eq g st' stk' Hhk'). apply (stale_md g Hwf Hwg Hfrag stk' f o (proj1 HGk') Hph Ho).
      apply (stale_mono g true st' stk' f o (proj1 HG') (chg0_chg st' stk' Hch')); [| |exact Hst'].
      * apply (proj2 (frame_later g st' p1 f stk' o f Hf' (o_prod g Hwf f o Ho) (le_n f))).
      * intros _. rewrite Hhk'. reflexivity.
Qed.

(* what the loop marks as blocked: exactly the failed statements and those that depend on one *)
Theorem C05K_blocked_spec_proof st T fs b a :
  GoodF cmd g st -> buildFK cmd g st T fs b = Some a ->
  forall e, In e (k_blocked a) <->
    (e < g_nedges g)%nat /\ exists f, In f (failed_edges a) /\ (f = e \/ depends_on g f e).
Proof.
  intros HG H. destruct (buildFK_inv st T fs b a HG H) as [s [p [l [_ [_ [HI _]]]]]].
  apply (ik_blk _ _ _ _ _ _ _ HI).
Qed.

End HistK.

(* ================================================================== the examples are models *)
Lemma ExChains_wf_spec : wf_spec ExChains.g.
Proof.
  split; [|split].
  - intros e o Ho. destruct e as [|[|[|[|[|e]]]]]; cbn in Ho; try (destruct Ho as [<-|[]]; reflexivity); destruct Ho.
  - intros n e Hp. destruct n as [|[|[|[|[|[|[|n]]]]]]]; cbn in Hp; try discriminate; inversion Hp; subst; cbn; left; reflexivity.
  - intros e Hd. exfalso. apply Hd. destruct e as [|[|[|[|[|e]]]]]; reflexivity.
Qed.

Lemma ExChains_wf_graph : wf_graph ExChains.g.
Proof.
  intros n e Hp. destruct n as [|[|[|[|[|[|[|n]]]]]]]; cbn in Hp; try discriminate; inversion Hp; subst; cbn; lia.
Qed.

Lemma ExChains_gen : forall e h h' S o,
  ei_generator (g_edge ExChains.g e) = true -> ExChains.cmd e h S o = ExChains.cmd e h' S o.
Proof. intros e h h' S o H. destruct e as [|[|[|[|[|e]]]]]; cbn in H; discriminate. Qed.

Lemma ExDiamond_wf_spec : wf_spec ExDiamond.g.
Proof.
  split; [|split].
  - intros e o Ho. destruct e as [|[|[|[|e]]]]; cbn in Ho; try (destruct Ho as [<-|[]]; reflexivity); destruct Ho.
  - intros n e Hp. destruct n as [|[|[|[|[|n]]]]]; cbn in Hp; try discriminate; inversion Hp; subst; cbn; left; reflexivity.
  - intros e Hd. exfalso. apply Hd. destruct e as [|[|[|[|e]]]]; reflexivity.
Qed.

Lemma ExDiamond_wf_graph : wf_graph ExDiamond.g.
Proof.
  intros n e Hp. destruct n as [|[|[|[|[|n]]]]]; cbn in Hp; try discriminate; inversion Hp; subst; cbn; lia.
Qed.

Lemma ExChains_st2_good : Good ExChains.cmd ExChains.g ExChains.st2.
Proof. apply (good_hist ExChains.cmd ExChains.g ExChains_wf_spec eq_refl); [apply good_init|reflexivity]. Qed.

Lemma ExChains_indep_2 : ~ depends_on ExChains.g 0%nat 2%nat.
Proof.
  intros H. inversion H as [d i Hi Hp|d i e' Hi Hp Hd]; subst; cbn in Hi; destruct Hi as [<-|[]]; cbn in Hp; discriminate.
Qed.

Lemma ExChains_indep_3 : ~ depends_on ExChains.g 0%nat 3%nat.
Proof.
  intros H. inversion H as [d i Hi Hp|d i e' Hi Hp Hd]; subst; cbn in Hi; destruct Hi as [<-|[]]; cbn in Hp; [discriminate|].
  inversion Hp; subst e'. apply (ExChains_indep_2 Hd).
Qed.

(* ================================================================== non-vacuity *)
(* the premises of the -k N theorems: two chains, the first statement of one chain fails, unlimited
   budget: e1 and the alias e4 depend on the failure, e2 and e3 are independent and needed *)
Theorem C05K_nonvacuous_proof :
  exists a,
    GoodF ExChains.cmd ExChains.g ExChains.st2 /\ TaintOk ExChains.g true ExChains.st2 /\
    frag_AB ExChains.g && topo_ordered ExChains.g && no_inputless_phony ExChains.g = true /\
    buildFK ExChains.cmd ExChains.g ExChains.st2 [6%nat] ExChains.fs None = Some a /\
    budget_out (k_budget a) = false /\ exit_failedK a = true /\ failed_edges a = [0%nat] /\
    trace_delta ExChains.st2 (k_st a) = [3; 2; 0]%nat /\
    depends_on ExChains.g 0%nat 1%nat /\ depends_on ExChains.g 0%nat 4%nat /\
    independent ExChains.g a 2%nat /\ independent ExChains.g a 3%nat /\
    needed ExChains.g [6%nat] 3%nat /\ reach ExChains.g [6%nat] 5%nat.
Proof.
  eexists. split; [apply goodF_of_good; exact ExChains_st2_good|].
  split; [apply (taintok_of_good ExChains.cmd ExChains.g ExChains_wf_spec); exact ExChains_st2_good|].
  split; [vm_compute; reflexivity|]. split; [vm_compute; reflexivity|].
  split; [vm_compute; reflexivity|]. split; [vm_compute; reflexivity|]. split; [vm_compute; reflexivity|].
  split; [vm_compute; reflexivity|].
  assert (D01 : depends_on ExChains.g 0%nat 1%nat)
    by (apply (dep_direct ExChains.g 0%nat 1%nat 1%nat); [left; reflexivity|reflexivity]).
  assert (R5 : reach ExChains.g [6%nat] 5%nat).
  { apply (reach_step ExChains.g (manifest_ins ExChains.g) [6%nat] 6%nat 5%nat).
    - apply reach_target. left; reflexivity.
    - exists 4%nat. split; [reflexivity|right; left; reflexivity]. }
  split; [exact D01|].
  split; [apply (dep_trans ExChains.g 0%nat 4%nat 2%nat 1%nat); [left; reflexivity|reflexivity|exact D01]|].
  split; [intros f Hf; vm_compute in Hf; destruct Hf as [<-|[]]; split; [discriminate|exact ExChains_indep_2]|].
  split; [intros f Hf; vm_compute in Hf; destruct Hf as [<-|[]]; split; [discriminate|exact ExChains_indep_3]|].
  split; [exists 5%nat; split; [exact R5|reflexivity]|exact R5].
Qed.

(* a budget that is used up: -k 2 with faults in both chains *)
Theorem C05K_budget_nonvacuous_proof :
  exists a,
    buildFK ExChains.cmd ExChains.g ExChains.st2 [6%nat] ExChains.fs2 (budget_of_k 2) = Some a /\
    length (k_failed a) = 2%nat /\ k_budget a = Some 0%nat /\ failed_edges a = [2; 0]%nat /\
    trace_delta ExChains.st2 (k_st a) = [2; 0]%nat.
Proof. eexists. split; [vm_compute; reflexivity|]. repeat split; vm_compute; reflexivity. Qed.

(* the recovery: the diamond, e1 fails with its output removed, the join is skipped; the next
   invocation is accepted and starts e1 again *)
Theorem C05K_reruns_nonvacuous_proof :
  exists a sf st2,
    GoodF ExChains.cmd ExDiamond.g ExDiamond.st1 /\ no_inputless_phony ExDiamond.g = true /\
    buildFK ExChains.cmd ExDiamond.g ExDiamond.st1 [4%nat] [(1%nat, FailDeleted)] None = Some a /\
    k_failed a = [(1%nat, FailDeleted, sf)] /\ k_blocked a = [3; 1]%nat /\
    build ExChains.cmd ExDiamond.g (k_st a) [4%nat] = Some st2 /\
    trace_delta (k_st a) st2 = [3; 1]%nat /\ taint_safe ExDiamond.g (k_st a) = true.
Proof.
  eexists. eexists. eexists.
  split; [apply goodF_of_good; apply (good_hist ExChains.cmd ExDiamond.g ExDiamond_wf_spec eq_refl); [apply good_init|reflexivity]|].
  split; [vm_compute; reflexivity|]. split; [vm_compute; reflexivity|]. split; [vm_compute; reflexivity|].
  split; [vm_compute; reflexivity|]. split; [vm_compute; reflexivity|]. split; vm_compute; reflexivity.
Qed.
