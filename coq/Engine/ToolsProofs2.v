(* CommandCollector (`-t compdb-targets`) and InputsCollector (`-t inputs`) of ToolsDefs.v:
     compdb_targets_eq_commands   the collector visits exactly the statements PrintCommands visits, same order
     tool_compdb_targets_total    the collector never runs out of fuel on a well-formed graph
     tool_compdb_targets_nodup/_exact/_order/_order_acyclic   corollaries of ToolsProofs
     tool_inputs_nodup/_nonphony   InputsCollector lists no input twice and no output of a phony statement
   No axioms. *)
From NinjaV Require Import Base.Bytes Engine.ScanDefs Engine.ToolsDefs Engine.ToolsProofs.
Require Import Lia.

(* ------------------------------------------------------------------ unfolding *)
Lemma cc_from_S g f n s :
  cc_from g (S f) n s =
  if mem_nat n (c_vnodes s) then Some s
  else match g_producer g n with
       | None => Some (mkC (n :: c_vnodes s) (c_vedges s) (c_done s))
       | Some e =>
           if mem_nat e (c_vedges s) then Some (mkC (n :: c_vnodes s) (c_vedges s) (c_done s))
           else match cc_over g f (ei_ins (g_edge g e)) (mkC (n :: c_vnodes s) (e :: c_vedges s) (c_done s)) with
                | Some s2 => Some (mkC (c_vnodes s2) (c_vedges s2) (c_done s2 ++ [e]))
                | None => None
                end
       end.
Proof.
  cbn [cc_from c_vnodes c_vedges c_done]. destruct (mem_nat n (c_vnodes s)); [reflexivity|].
  destruct (g_producer g n) as [e|]; [|reflexivity].
  destruct (mem_nat e (c_vedges s)); [reflexivity|].
  match goal with |- match ?F _ _ with _ => _ end = _ => assert (HF : forall l s0, F l s0 = cc_over g f l s0) end.
  { induction l as [|d l IH]; intros s0; [reflexivity|]. cbn [cc_over]. destruct (cc_from g f d s0); [apply IH | reflexivity]. }
  rewrite HF. reflexivity.
Qed.

Definition prodl (g : graph) (n : node) : list edge :=
  match g_producer g n with Some p => [p] | None => [] end.

Lemma pc_over_app g f a : forall b w,
  pc_over g f (a ++ b) w = match pc_over g f a w with Some w' => pc_over g f b w' | None => None end.
Proof.
  induction a as [|x a IH]; intros b w; [reflexivity|].
  cbn [app pc_over]. destruct (pc_visit g f x w) as [w1|]; [apply IH | reflexivity].
Qed.

(* ------------------------------------------------------------------ the simulation *)
(* every visited node's producer is a visited edge *)
Definition cinv (g : graph) (s : cstate) : Prop :=
  forall n p, In n (c_vnodes s) -> g_producer g n = Some p -> In p (c_vedges s).

Definition from_sim_at (g : graph) (f : nat) : Prop := forall n s s',
  cinv g s -> cc_from g f n s = Some s' ->
  cinv g s' /\ (forall x, In x (c_vedges s) -> In x (c_vedges s')) /\
  pc_over g f (prodl g n) (c_vedges s, c_done s) = Some (c_vedges s', c_done s').

Lemma cc_over_sim_gen g f (Hf : from_sim_at g f) : forall l s s',
  cinv g s -> cc_over g f l s = Some s' ->
  cinv g s' /\ (forall x, In x (c_vedges s) -> In x (c_vedges s')) /\
  pc_over g f (flat_map (prodl g) l) (c_vedges s, c_done s) = Some (c_vedges s', c_done s').
Proof.
  induction l as [|n l IH]; intros s s' Hinv H.
  - injection H as <-. split; [exact Hinv|]. split; [auto | reflexivity].
  - cbn [cc_over] in H. destruct (cc_from g f n s) as [s1|] eqn:Hv; [|discriminate].
    destruct (Hf n s s1 Hinv Hv) as (I1 & M1 & P1).
    destruct (IH s1 s' I1 H) as (I2 & M2 & P2).
    split; [exact I2|]. split; [intros x Hx; apply M2, M1; exact Hx|].
    cbn [flat_map]. rewrite pc_over_app, P1. exact P2.
Qed.

Lemma cc_from_sim g : forall f, from_sim_at g f.
Proof.
  induction f as [|f IHf]; intros n s s' Hinv H; [discriminate|].
  rewrite cc_from_S in H. destruct (mem_nat n (c_vnodes s)) eqn:Hm.
  - injection H as <-. split; [exact Hinv|]. split; [auto|].
    unfold prodl. destruct (g_producer g n) as [e|] eqn:Hp; [|reflexivity].
    cbn [pc_over]. rewrite pc_visit_S. cbn [fst].
    apply mem_nat_In in Hm. pose proof (Hinv n e Hm Hp) as Hin. apply mem_nat_In in Hin. rewrite Hin. reflexivity.
  - destruct (g_producer g n) as [e|] eqn:Hp.
    + destruct (mem_nat e (c_vedges s)) eqn:Hme.
      * injection H as <-. cbn [c_vnodes c_vedges c_done]. split; [|split; [auto|]].
        -- intros n0 p [<-|Hn0] Hp0; cbn [c_vedges].
           ++ rewrite Hp in Hp0. injection Hp0 as <-. apply mem_nat_In. exact Hme.
           ++ exact (Hinv n0 p Hn0 Hp0).
        -- unfold prodl. rewrite Hp. cbn [pc_over]. rewrite pc_visit_S. cbn [fst]. rewrite Hme. reflexivity.
      * destruct (cc_over g f (ei_ins (g_edge g e)) (mkC (n :: c_vnodes s) (e :: c_vedges s) (c_done s))) as [s2|] eqn:Ho; [|discriminate].
        injection H as <-.
        assert (Hinv1 : cinv g (mkC (n :: c_vnodes s) (e :: c_vedges s) (c_done s))).
        { intros n0 p [<-|Hn0] Hp0; cbn [c_vedges].
          - rewrite Hp in Hp0. injection Hp0 as <-. left. reflexivity.
          - right. exact (Hinv n0 p Hn0 Hp0). }
        destruct (cc_over_sim_gen g f IHf _ _ _ Hinv1 Ho) as (I2 & M2 & P2).
        cbn [c_vnodes c_vedges c_done] in *.
        split; [exact I2|]. split; [intros x Hx; apply M2; right; exact Hx|].
        unfold prodl at 1. rewrite Hp. cbn [pc_over]. rewrite pc_visit_S. cbn [fst snd]. rewrite Hme.
        change (flat_map (prodl g) (ei_ins (g_edge g e))) with (dep_edges g e) in P2.
        rewrite P2. reflexivity.
    + injection H as <-. cbn [c_vnodes c_vedges c_done]. split; [|split; [auto|]].
      * intros n0 p [<-|Hn0] Hp0; cbn [c_vedges]; [congruence | exact (Hinv n0 p Hn0 Hp0)].
      * unfold prodl. rewrite Hp. reflexivity.
Qed.

Lemma cinv_nil g : cinv g (mkC [] [] []).
Proof. intros n p []. Qed.

Theorem compdb_targets_eq_commands g fuel targets s :
  cc_over g fuel targets (mkC [] [] []) = Some s ->
  pc_over g fuel (target_edges g targets) ([], []) = Some (c_vedges s, c_done s).
Proof.
  intros H. destruct (cc_over_sim_gen g fuel (cc_from_sim g fuel) _ _ _ (cinv_nil g) H) as (_ & _ & P).
  exact P.
Qed.

Theorem tool_compdb_targets_commands g targets l :
  tool_compdb_targets g targets = Some l -> tool_commands g targets = Some l.
Proof.
  unfold tool_compdb_targets, tool_commands. intros H.
  destruct (cc_over g (tool_fuel g) targets (mkC [] [] [])) as [s|] eqn:Ho; [|discriminate].
  rewrite (compdb_targets_eq_commands g _ _ _ Ho). exact H.
Qed.

(* ------------------------------------------------------------------ the fuel suffices *)
Definition from_total_at (g : graph) (f : nat) : Prop := forall n s,
  cinv g s -> unseen (g_nedges g) (c_vedges s) < f -> cc_from g f n s <> None.

Lemma cc_over_total_gen g f (Hf : from_total_at g f) : forall l s,
  cinv g s -> unseen (g_nedges g) (c_vedges s) < f -> cc_over g f l s <> None.
Proof.
  induction l as [|n l IH]; intros s Hinv Hu; [discriminate|].
  cbn [cc_over]. destruct (cc_from g f n s) as [s1|] eqn:Hv.
  - destruct (cc_from_sim g f n s s1 Hinv Hv) as (I1 & M1 & _).
    apply IH; [exact I1|]. pose proof (unseen_mono (g_nedges g) _ _ M1). lia.
  - exfalso. exact (Hf n s Hinv Hu Hv).
Qed.

Lemma cc_from_total g (Hwf : wf_graph g) : forall f, from_total_at g f.
Proof.
  induction f as [|f IHf]; intros n s Hinv Hu; [lia|].
  rewrite cc_from_S. destruct (mem_nat n (c_vnodes s)); [discriminate|].
  destruct (g_producer g n) as [e|] eqn:Hp; [|discriminate].
  destruct (mem_nat e (c_vedges s)) eqn:Hme; [discriminate|].
  apply mem_nat_nIn in Hme.
  destruct (cc_over g f _ _) as [s2|] eqn:Ho; [discriminate|].
  exfalso. revert Ho. apply (cc_over_total_gen g f IHf).
  - intros n0 p [<-|Hn0] Hp0; cbn [c_vedges].
    + rewrite Hp in Hp0. injection Hp0 as <-. left. reflexivity.
    + right. exact (Hinv n0 p Hn0 Hp0).
  - cbn [c_vedges]. pose proof (unseen_add (g_nedges g) (c_vedges s) e (Hwf n e Hp) Hme) as HH. exact (Nat.le_trans _ _ _ HH (proj1 (Nat.lt_succ_r _ _) Hu)).
Qed.

Theorem cc_walk_total g targets : wf_graph g ->
  cc_over g (tool_fuel g) targets (mkC [] [] []) <> None.
Proof.
  intros Hwf. apply (cc_over_total_gen g _ (cc_from_total g Hwf (tool_fuel g))).
  - apply cinv_nil.
  - cbn [c_vedges]. rewrite unseen_nil. unfold tool_fuel. lia.
Qed.

Theorem tool_compdb_targets_total g targets : wf_graph g -> tool_compdb_targets g targets <> None.
Proof.
  intros Hwf. unfold tool_compdb_targets. pose proof (cc_walk_total g targets Hwf) as H.
  destruct (cc_over g (tool_fuel g) targets (mkC [] [] [])); [discriminate | congruence].
Qed.

(* on a well-formed graph the two tools agree completely *)
Theorem tool_compdb_targets_is_commands g targets : wf_graph g ->
  tool_compdb_targets g targets = tool_commands g targets.
Proof.
  intros Hwf. destruct (tool_compdb_targets g targets) as [l|] eqn:H.
  - symmetry. apply tool_compdb_targets_commands. exact H.
  - exfalso. exact (tool_compdb_targets_total g targets Hwf H).
Qed.

(* ------------------------------------------------------------------ corollaries for `-t compdb-targets` *)
Theorem tool_compdb_targets_nodup g targets l :
  tool_compdb_targets g targets = Some l -> NoDup l.
Proof. intros H. exact (tool_commands_nodup g targets l (tool_compdb_targets_commands g targets l H)). Qed.

Theorem tool_compdb_targets_exact g targets l :
  tool_compdb_targets g targets = Some l ->
  forall x, In x l <-> (target_reach g targets x /\ ei_phony (g_edge g x) = false).
Proof. intros H. exact (tool_commands_exact g targets l (tool_compdb_targets_commands g targets l H)). Qed.

Theorem tool_compdb_targets_order g targets l :
  tool_compdb_targets g targets = Some l ->
  forall d d', In d l -> dep g d d' -> ei_phony (g_edge g d') = false -> before d' d l \/ reach g d' d.
Proof. intros H. exact (tool_commands_order g targets l (tool_compdb_targets_commands g targets l H)). Qed.

Theorem tool_compdb_targets_order_acyclic g targets l :
  tool_compdb_targets g targets = Some l -> acyclic g ->
  forall d x, In d l -> reach g d x -> x <> d -> ei_phony (g_edge g x) = false -> before x d l.
Proof. intros H. exact (tool_commands_order_acyclic g targets l (tool_compdb_targets_commands g targets l H)). Qed.

(* ------------------------------------------------------------------ InputsCollector (`-t inputs`) *)
Fixpoint ic_ins (g : graph) (f : nat) (l : list node) (s : istate) : option istate :=
  match l with
  | [] => Some s
  | i :: l' =>
      if mem_nat i (fst s) then ic_ins g f l' s
      else match ic_visit g f i (i :: fst s, snd s) with
           | Some (vn, ins) => ic_ins g f l' (vn, if phony_output g i then ins else ins ++ [i])
           | None => None
           end
  end.

Lemma ic_visit_S g f n s :
  ic_visit g (S f) n s =
  match g_producer g n with None => Some s | Some e => ic_ins g f (ei_ins (g_edge g e)) s end.
Proof.
  cbn [ic_visit]. destruct (g_producer g n) as [e|]; [|reflexivity].
  generalize (ei_ins (g_edge g e)) as l. intros l. revert s.
  induction l as [|i l IH]; intros s; [reflexivity|].
  cbn [ic_ins]. destruct (mem_nat i (fst s)); [apply IH|].
  destruct (ic_visit g f i (i :: fst s, snd s)) as [[vn ins]|]; [apply IH | reflexivity].
Qed.

(* what a walk adds: [new] is appended to inputs_, every new input was unvisited before and is visited after *)
Definition ipost (g : graph) (s s' : istate) (new : list node) : Prop :=
  snd s' = snd s ++ new /\
  (forall x, In x (fst s) -> In x (fst s')) /\
  (forall x, In x new -> ~ In x (fst s)) /\
  (forall x, In x new -> In x (fst s')) /\
  NoDup new /\
  (forall x, In x new -> phony_output g x = false).

Lemma ipost_refl g s : ipost g s s [].
Proof.
  split; [rewrite app_nil_r; reflexivity|]. split; [auto|]. split; [intros x []|]. split; [intros x []|].
  split; [constructor | intros x []].
Qed.

Lemma ipost_trans g s s1 s2 n1 n2 : ipost g s s1 n1 -> ipost g s1 s2 n2 -> ipost g s s2 (n1 ++ n2).
Proof.
  intros (Hd1 & Hm1 & Hf1 & Hi1 & Hn1 & Hp1) (Hd2 & Hm2 & Hf2 & Hi2 & Hn2 & Hp2).
  split; [rewrite Hd2, Hd1, app_assoc; reflexivity|].
  split; [intros x Hx; apply Hm2, Hm1; exact Hx|].
  split. { intros x Hx Hs. apply in_app_iff in Hx as [Hx|Hx]; [exact (Hf1 x Hx Hs) | exact (Hf2 x Hx (Hm1 x Hs))]. }
  split. { intros x Hx. apply in_app_iff in Hx as [Hx|Hx]; [exact (Hm2 x (Hi1 x Hx)) | exact (Hi2 x Hx)]. }
  split. { apply NoDup_app_iff_local; [exact Hn1 | exact Hn2 |]. intros x H1 H2. exact (Hf2 x H2 (Hi1 x H1)). }
  intros x Hx. apply in_app_iff in Hx as [Hx|Hx]; [exact (Hp1 x Hx) | exact (Hp2 x Hx)].
Qed.

Lemma ipost_step g i s vn ins n1 :
  ~ In i (fst s) -> ipost g (i :: fst s, snd s) (vn, ins) n1 ->
  ipost g s (vn, if phony_output g i then ins else ins ++ [i]) (n1 ++ if phony_output g i then [] else [i]).
Proof.
  intros Hm (Hd & Hmono & Hfr & Hin & Hnd & Hph). cbn [fst snd] in *.
  destruct (phony_output g i) eqn:Hpi.
  - rewrite app_nil_r. split; [exact Hd|]. split; [intros x Hx; apply Hmono; right; exact Hx|].
    split; [intros x Hx Hs; apply (Hfr x Hx); right; exact Hs|].
    split; [exact Hin|]. split; [exact Hnd | exact Hph].
  - split; [cbn [snd]; rewrite Hd, app_assoc; reflexivity|].
    split; [intros x Hx; apply Hmono; right; exact Hx|].
    split. { intros x Hx Hs. apply in_app_iff in Hx as [Hx|[<-|[]]]; [apply (Hfr x Hx); right; exact Hs | exact (Hm Hs)]. }
    split. { intros x Hx. apply in_app_iff in Hx as [Hx|[<-|[]]]; [exact (Hin x Hx) | apply Hmono; left; reflexivity]. }
    split. { apply NoDup_app_iff_local; [exact Hnd | constructor; [intros []|constructor] |].
             intros x H1 [<-|[]]. apply (Hfr _ H1). left. reflexivity. }
    intros x Hx. apply in_app_iff in Hx as [Hx|[<-|[]]]; [exact (Hph x Hx) | exact Hpi].
Qed.

Definition ic_post_at (g : graph) (f : nat) : Prop := forall n s s',
  ic_visit g f n s = Some s' -> exists new, ipost g s s' new.

Lemma ic_ins_post_gen g f (Hf : ic_post_at g f) : forall l s s',
  ic_ins g f l s = Some s' -> exists new, ipost g s s' new.
Proof.
  induction l as [|i l IH]; intros s s' H.
  - injection H as <-. exists []. apply ipost_refl.
  - cbn [ic_ins] in H. destruct (mem_nat i (fst s)) eqn:Hm; [exact (IH s s' H)|].
    apply mem_nat_nIn in Hm.
    destruct (ic_visit g f i (i :: fst s, snd s)) as [[vn ins]|] eqn:Hv; [|discriminate].
    destruct (Hf _ _ _ Hv) as (n1 & P1).
    destruct (IH _ _ H) as (n2 & P2).
    eexists. eapply ipost_trans; [exact (ipost_step g i s vn ins n1 Hm P1) | exact P2].
Qed.

Lemma ic_visit_post g : forall f, ic_post_at g f.
Proof.
  induction f as [|f IHf]; intros n s s' H; [discriminate|].
  rewrite ic_visit_S in H. destruct (g_producer g n) as [e|].
  - exact (ic_ins_post_gen g f IHf _ _ _ H).
  - injection H as <-. exists []. apply ipost_refl.
Qed.

Lemma ic_over_post g f : forall l s s', ic_over g f l s = Some s' -> exists new, ipost g s s' new.
Proof.
  induction l as [|n l IH]; intros s s' H.
  - injection H as <-. exists []. apply ipost_refl.
  - cbn [ic_over] in H. destruct (ic_visit g f n s) as [s1|] eqn:Hv; [|discriminate].
    destruct (ic_visit_post g f _ _ _ Hv) as (n1 & P1). destruct (IH _ _ H) as (n2 & P2).
    eexists. eapply ipost_trans; eassumption.
Qed.

Lemma tool_inputs_inv g nn targets l :
  tool_inputs g nn targets = Some l -> exists vn, ipost g ([], []) (vn, l) l.
Proof.
  unfold tool_inputs. intros H.
  destruct (ic_over g (S (S nn)) targets ([], [])) as [[vn ins]|] eqn:Ho; [|discriminate].
  injection H as <-. destruct (ic_over_post g _ _ _ _ Ho) as (new & P). exists vn.
  pose proof (proj1 P) as Hd. cbn [snd app] in Hd. rewrite <- Hd in P. exact P.
Qed.

(* no input is listed twice, and no output of a phony statement is listed *)
Theorem tool_inputs_nodup g nn targets l : tool_inputs g nn targets = Some l -> NoDup l.
Proof. intros H. destruct (tool_inputs_inv g nn targets l H) as (vn & _ & _ & _ & _ & Hn & _). exact Hn. Qed.

Theorem tool_inputs_nonphony g nn targets l :
  tool_inputs g nn targets = Some l -> forall n, In n l -> phony_output g n = false.
Proof. intros H. destruct (tool_inputs_inv g nn targets l H) as (vn & _ & _ & _ & _ & _ & Hp). exact Hp. Qed.
