(* Theorems about the tool walks of ToolsDefs.v (PrintCommands = `ninja -t commands`):
     tool_commands_total      the walk never runs out of fuel on a well-formed graph (the C++ recursion ends)
     tool_commands_nodup      no command is printed twice
     tool_commands_exact      printed = exactly the non-phony statements the targets depend on (transitively,
                              through explicit, implicit and order-only inputs), i.e. what a from-scratch build runs
     tool_commands_order      a statement is printed after every statement it depends on -- or the two lie on a
                              dependency cycle (the tool does not diagnose cycles); on acyclic graphs: always after
   No axioms. *)
From NinjaV Require Import Base.Bytes Engine.ScanDefs Engine.ToolsDefs.
Require Import Lia.

(* ------------------------------------------------------------------ basics *)
Lemma mem_nat_In x l : mem_nat x l = true <-> In x l.
Proof.
  unfold mem_nat. rewrite existsb_exists. split.
  - intros [y [Hy He]]. apply Nat.eqb_eq in He. subst. exact Hy.
  - intros H. exists x. split; [exact H | apply Nat.eqb_refl].
Qed.
Lemma mem_nat_nIn x l : mem_nat x l = false <-> ~ In x l.
Proof. rewrite <- mem_nat_In. destruct (mem_nat x l); split; intros H; congruence. Qed.

Definition dep (g : graph) (e d : edge) : Prop := In d (dep_edges g e).

Inductive reach (g : graph) : edge -> edge -> Prop :=
| reach_refl e : reach g e e
| reach_step e d x : dep g e d -> reach g d x -> reach g e x.

Lemma reach_trans g a b c : reach g a b -> reach g b c -> reach g a c.
Proof. intros H; induction H as [e|e d x Hd Hr IH]; intros Hc; [exact Hc|]. eapply reach_step; eauto. Qed.
Lemma reach_dep g a b : dep g a b -> reach g a b.
Proof. intros H. eapply reach_step; [exact H | apply reach_refl]. Qed.

(* [before a b l]: a occurs in l strictly before an occurrence of b *)
Definition before (a b : edge) (l : list edge) : Prop := exists l1 l2 l3, l = l1 ++ a :: l2 ++ b :: l3.

Lemma before_app_l a b l r : before a b l -> before a b (l ++ r).
Proof. intros (l1 & l2 & l3 & ->). exists l1, l2, (l3 ++ r). repeat (rewrite <- app_assoc; cbn [app]). reflexivity. Qed.
Lemma before_app_r a b l r : before a b r -> before a b (l ++ r).
Proof. intros (l1 & l2 & l3 & ->). exists (l ++ l1), l2, l3. rewrite <- app_assoc. reflexivity. Qed.
Lemma before_last a b l : In a l -> before a b (l ++ [b]).
Proof. intros H. apply in_split in H as (l1 & l2 & ->). exists l1, l2, []. rewrite <- app_assoc. reflexivity. Qed.
Lemma before_In a b l : before a b l -> In a l /\ In b l.
Proof. intros (l1 & l2 & l3 & ->). split; rewrite in_app_iff; right; [left; reflexivity|]. right. rewrite in_app_iff. right. left. reflexivity. Qed.

Lemma NoDup_app_iff_local (a b : list edge) :
  NoDup a -> NoDup b -> (forall x, In x a -> In x b -> False) -> NoDup (a ++ b).
Proof.
  induction a as [|x a IH]; intros Ha Hb Hd; [exact Hb|].
  cbn [app]. inversion Ha as [|y l Hx Ha']; subst. constructor.
  - rewrite in_app_iff. intros [H|H]; [exact (Hx H) | exact (Hd x (or_introl eq_refl) H)].
  - apply IH; [exact Ha' | exact Hb |]. intros z Hz1 Hz2. exact (Hd z (or_intror Hz1) Hz2).
Qed.

Lemma NoDup_app_unique_local (b : edge) (p q p' q' : list edge) :
  NoDup (p ++ b :: q) -> p ++ b :: q = p' ++ b :: q' -> p = p' /\ q = q'.
Proof.
  revert p'. induction p as [|x p IH]; intros p' Hnd He.
  - destruct p' as [|y p']; cbn [app] in He.
    + injection He as ->. split; reflexivity.
    + injection He as -> ->. cbn [app] in Hnd. inversion Hnd as [|z l Hn _]; subst.
      exfalso. apply Hn. rewrite in_app_iff. right. left. reflexivity.
  - destruct p' as [|y p']; cbn [app] in He.
    + injection He as -> <-. cbn [app] in Hnd. inversion Hnd as [|z l Hn _]; subst.
      exfalso. apply Hn. rewrite in_app_iff. right. left. reflexivity.
    + injection He as -> He. cbn [app] in Hnd. inversion Hnd as [|z l _ Hnd']; subst.
      destruct (IH p' Hnd' He) as [-> ->]. split; reflexivity.
Qed.

(* ------------------------------------------------------------------ unfolding *)
Lemma pc_visit_S g f e s :
  pc_visit g (S f) e s =
  if mem_nat e (fst s) then Some s
  else match pc_over g f (dep_edges g e) (e :: fst s, snd s) with
       | Some (seen', done') => Some (seen', done' ++ [e])
       | None => None
       end.
Proof.
  cbn [pc_visit]. destruct (mem_nat e (fst s)); [reflexivity|].
  match goal with |- match ?F _ _ with _ => _ end = _ => assert (HF : forall l s0, F l s0 = pc_over g f l s0) end.
  { induction l as [|d l IH]; intros s0; [reflexivity|]. cbn [pc_over]. destruct (pc_visit g f d s0); [apply IH | reflexivity]. }
  rewrite HF. reflexivity.
Qed.

(* ------------------------------------------------------------------ the invariant *)
(* what one walk from the roots [l] adds: [new] is appended to done, seen grows by exactly new *)
Record post (g : graph) (roots : list edge) (s s' : wstate) (new : list edge) : Prop := mkPost {
  p_done : snd s' = snd s ++ new;
  p_seen : forall x, In x (fst s') <-> In x (fst s) \/ In x new;
  p_fresh : forall x, In x new -> ~ In x (fst s);
  p_nodup : NoDup new;
  p_roots : forall r, In r roots -> In r (fst s');
  p_reach : forall x, In x new -> exists r, In r roots /\ reach g r x;
  p_closed : forall d d', In d new -> dep g d d' -> In d' (fst s');
  p_order : forall d d', In d new -> dep g d d' ->
              before d' d (snd s') \/ (In d' (fst s) /\ ~ In d' (snd s)) \/ reach g d' d
}.

Lemma post_nil g s : post g [] s s [].
Proof.
  constructor; cbn; try (intros; contradiction); try tauto.
  - rewrite app_nil_r. reflexivity.
  - constructor.
Qed.

Lemma post_seen_mono g roots s s' new : post g roots s s' new -> forall x, In x (fst s) -> In x (fst s').
Proof. intros P x H. apply (p_seen _ _ _ _ _ P). left. exact H. Qed.

(* composition: first walk from [r], then from [l] *)
Lemma post_cons g r l s s1 s2 n1 n2 :
  post g [r] s s1 n1 -> post g l s1 s2 n2 -> post g (r :: l) s s2 (n1 ++ n2).
Proof.
  intros P1 P2. constructor.
  - rewrite (p_done _ _ _ _ _ P2), (p_done _ _ _ _ _ P1), app_assoc. reflexivity.
  - intros x. rewrite (p_seen _ _ _ _ _ P2), (p_seen _ _ _ _ _ P1), in_app_iff. tauto.
  - intros x Hx. apply in_app_iff in Hx as [Hx|Hx]; [exact (p_fresh _ _ _ _ _ P1 x Hx)|].
    intros Hs. apply (p_fresh _ _ _ _ _ P2 x Hx). apply (post_seen_mono _ _ _ _ _ P1). exact Hs.
  - apply NoDup_app_iff_local.
    + exact (p_nodup _ _ _ _ _ P1).
    + exact (p_nodup _ _ _ _ _ P2).
    + intros x H1 H2. apply (p_fresh _ _ _ _ _ P2 x H2). apply (p_seen _ _ _ _ _ P1). right. exact H1.
  - intros x [<-|Hx].
    + apply (post_seen_mono _ _ _ _ _ P2). apply (p_roots _ _ _ _ _ P1). left. reflexivity.
    + apply (p_roots _ _ _ _ _ P2). exact Hx.
  - intros x Hx. apply in_app_iff in Hx as [Hx|Hx].
    + destruct (p_reach _ _ _ _ _ P1 x Hx) as (r0 & Hi & Hr). destruct Hi as [Hi|[]]. subst r0. exists r. split; [left; reflexivity | exact Hr].
    + destruct (p_reach _ _ _ _ _ P2 x Hx) as (r0 & Hi & Hr). exists r0. split; [right; exact Hi | exact Hr].
  - intros d d' Hd Hdd. apply in_app_iff in Hd as [Hd|Hd].
    + apply (post_seen_mono _ _ _ _ _ P2). exact (p_closed _ _ _ _ _ P1 d d' Hd Hdd).
    + exact (p_closed _ _ _ _ _ P2 d d' Hd Hdd).
  - intros d d' Hd Hdd. apply in_app_iff in Hd as [Hd|Hd].
    + destruct (p_order _ _ _ _ _ P1 d d' Hd Hdd) as [Hb|[Hg|Hr]].
      * left. rewrite (p_done _ _ _ _ _ P2). apply before_app_l. exact Hb.
      * right. left. exact Hg.
      * right. right. exact Hr.
    + destruct (p_order _ _ _ _ _ P2 d d' Hd Hdd) as [Hb|[[Hg1 Hg2]|Hr]].
      * left. exact Hb.
      * (* d' was seen but not done when the second walk began: seen before the first walk (same status) or
           added by the first walk -- impossible, everything the first walk adds to seen it adds to done *)
        apply (p_seen _ _ _ _ _ P1) in Hg1 as [Hg1|Hg1].
        -- right. left. split; [exact Hg1|]. intros Hn. apply Hg2. rewrite (p_done _ _ _ _ _ P1), in_app_iff. left. exact Hn.
        -- exfalso. apply Hg2. rewrite (p_done _ _ _ _ _ P1), in_app_iff. right. exact Hg1.
      * right. right. exact Hr.
Qed.

(* the main induction: whatever the fuel, a walk that returns satisfies [post]; it needs done <= seen *)
Definition visit_post_at (g : graph) (fuel : nat) : Prop := forall e s s',
  (forall x, In x (snd s) -> In x (fst s)) ->
  pc_visit g fuel e s = Some s' -> exists new, post g [e] s s' new.

Lemma pc_over_post_gen g fuel (pc_visit_post : visit_post_at g fuel) : forall l s s',
  (forall x, In x (snd s) -> In x (fst s)) ->
  pc_over g fuel l s = Some s' -> exists new, post g l s s' new.
Proof.
  induction l as [|d l IH]; intros s s' Hinv H.
  - injection H as <-. exists []. apply post_nil.
  - cbn [pc_over] in H. destruct (pc_visit g fuel d s) as [s1|] eqn:Hv; [|discriminate].
    destruct (pc_visit_post d s s1 Hinv Hv) as (n1 & P1).
    assert (Hinv1 : forall x, In x (snd s1) -> In x (fst s1)).
    { intros x Hx. rewrite (p_done _ _ _ _ _ P1) in Hx. apply (p_seen _ _ _ _ _ P1).
      apply in_app_iff in Hx as [Hx|Hx]; [left; apply Hinv; exact Hx | right; exact Hx]. }
    destruct (IH s1 s' Hinv1 H) as (n2 & P2).
    exists (n1 ++ n2). eapply post_cons; eassumption.
Qed.

Lemma pc_visit_post g : forall fuel, visit_post_at g fuel.
Proof.
  induction fuel as [|f IHf]; intros e s s' Hinv H; [discriminate|].
  pose proof (pc_over_post_gen g f IHf) as pc_over_post.
  rewrite pc_visit_S in H. destruct (mem_nat e (fst s)) eqn:Hm.
  + injection H as <-. exists []. apply mem_nat_In in Hm.
    destruct (post_nil g s) as [A B C D _ F G I]. constructor; auto.
    * intros r [<-|[]]. exact Hm.
    * intros x [].
  + apply mem_nat_nIn in Hm.
    destruct (pc_over g f (dep_edges g e) (e :: fst s, snd s)) as [[seen' done']|] eqn:Ho; [|discriminate].
    injection H as <-.
    assert (Hinv1 : forall x, In x (snd (e :: fst s, snd s)) -> In x (fst (e :: fst s, snd s))).
    { cbn [fst snd]. intros x Hx. right. apply Hinv. exact Hx. }
    destruct (pc_over_post _ _ _ Hinv1 Ho) as (nc & P). cbn [fst snd] in *.
    exists (nc ++ [e]).
    assert (Hdone : done' = snd s ++ nc) by exact (p_done _ _ _ _ _ P).
    assert (Hseen : forall x, In x seen' <-> (e = x \/ In x (fst s)) \/ In x nc) by exact (p_seen _ _ _ _ _ P).
    assert (He_nc : ~ In e nc). { intros Hi. apply (p_fresh _ _ _ _ _ P e Hi). left. reflexivity. }
    constructor; cbn [fst snd].
    * rewrite Hdone, app_assoc. reflexivity.
    * intros x. rewrite Hseen, in_app_iff. cbn [In]. tauto.
    * intros x Hx. apply in_app_iff in Hx as [Hx|[<-|[]]]; [|exact Hm].
      intros Hs. apply (p_fresh _ _ _ _ _ P x Hx). right. exact Hs.
    * apply NoDup_app_iff_local; [exact (p_nodup _ _ _ _ _ P) | constructor; [intros []|constructor] |].
      intros x H1 [<-|[]]. exact (He_nc H1).
    * intros r [<-|[]]. apply Hseen. left. left. reflexivity.
    * intros x Hx. exists e. split; [left; reflexivity|]. apply in_app_iff in Hx as [Hx|[<-|[]]]; [|apply reach_refl].
      destruct (p_reach _ _ _ _ _ P x Hx) as (r & Hr & Hrx). eapply reach_step; [exact Hr | exact Hrx].
    * intros d d' Hd Hdd. apply in_app_iff in Hd as [Hd|[<-|[]]].
      -- exact (p_closed _ _ _ _ _ P d d' Hd Hdd).
      -- exact (p_roots _ _ _ _ _ P d' Hdd).
    * intros d d' Hd Hdd. apply in_app_iff in Hd as [Hd|[<-|[]]].
      -- destruct (p_order _ _ _ _ _ P d d' Hd Hdd) as [Hb|[[Hg1 Hg2]|Hr]].
         ++ left. apply before_app_l. exact Hb.
         ++ destruct Hg1 as [<-|Hg1].
            ** (* d' = e: e is printed after d, and e reaches d *)
               right. right. destruct (p_reach _ _ _ _ _ P d Hd) as (r & Hr & Hrd). eapply reach_step; [exact Hr | exact Hrd].
            ** right. left. split; assumption.
         ++ right. right. exact Hr.
      -- (* d = e: every dependency is seen after the children walk *)
         assert (Hs' : In d' seen') by exact (p_roots _ _ _ _ _ P d' Hdd).
         apply Hseen in Hs' as [[<-|Hs']|Hs'].
         ++ right. right. apply reach_refl.
         ++ destruct (in_dec Nat.eq_dec d' (snd s)) as [Hin|Hnin].
            ** left. rewrite Hdone. apply before_last. rewrite in_app_iff. left. exact Hin.
            ** right. left. split; assumption.
         ++ left. rewrite Hdone. apply before_last. rewrite in_app_iff. right. exact Hs'.
Qed.

(* ------------------------------------------------------------------ the fuel suffices *)
Definition unseen (n : nat) (seen : list edge) : nat :=
  length (filter (fun e => negb (mem_nat e seen)) (seq 0 n)).

Lemma filter_length_le (f h : nat -> bool) l :
  (forall x, In x l -> f x = true -> h x = true) -> length (filter f l) <= length (filter h l).
Proof.
  induction l as [|x l IH]; intros H; [cbn; lia|]. cbn [filter].
  assert (IH' := IH (fun y Hy => H y (or_intror Hy))).
  destruct (f x) eqn:Hf.
  - rewrite (H x (or_introl eq_refl) Hf). cbn [length]. lia.
  - destruct (h x); cbn [length]; lia.
Qed.

Lemma filter_length_lt (f h : nat -> bool) l x :
  (forall y, In y l -> f y = true -> h y = true) -> In x l -> f x = false -> h x = true ->
  length (filter f l) < length (filter h l).
Proof.
  induction l as [|y l IH]; intros H Hin Hf Hh; [destruct Hin|]. cbn [filter].
  destruct Hin as [->|Hin].
  - rewrite Hf, Hh. cbn [length].
    pose proof (filter_length_le f h l (fun z Hz => H z (or_intror Hz))). lia.
  - assert (IH' := IH (fun z Hz => H z (or_intror Hz)) Hin Hf Hh).
    destruct (f y) eqn:Hfy.
    + rewrite (H y (or_introl eq_refl) Hfy). cbn [length]. lia.
    + destruct (h y); cbn [length]; lia.
Qed.

Lemma unseen_mono n seen seen' : (forall x, In x seen -> In x seen') -> unseen n seen' <= unseen n seen.
Proof.
  intros H. apply filter_length_le. intros x _ Hx.
  apply negb_true_iff in Hx. apply mem_nat_nIn in Hx. apply negb_true_iff. apply mem_nat_nIn.
  intros Hi. apply Hx. apply H. exact Hi.
Qed.

Lemma unseen_add n seen e : e < n -> ~ In e seen -> unseen n (e :: seen) < unseen n seen.
Proof.
  intros Hlt Hn. apply filter_length_lt with (x := e).
  - intros y _ Hy. apply negb_true_iff in Hy. apply mem_nat_nIn in Hy. apply negb_true_iff. apply mem_nat_nIn.
    intros Hi. apply Hy. right. exact Hi.
  - apply in_seq. lia.
  - apply negb_false_iff. apply mem_nat_In. left. reflexivity.
  - apply negb_true_iff. apply mem_nat_nIn. exact Hn.
Qed.

Lemma wf_dep g e d : wf_graph g -> dep g e d -> d < g_nedges g.
Proof.
  intros Hwf Hd. unfold dep, dep_edges in Hd. apply in_flat_map in Hd as (n & _ & Hn).
  destruct (g_producer g n) as [p|] eqn:Hp; [|destruct Hn]. destruct Hn as [<-|[]]. exact (Hwf n p Hp).
Qed.

Definition visit_total_at (g : graph) (fuel : nat) : Prop := forall e s,
  (forall x, In x (snd s) -> In x (fst s)) ->
  e < g_nedges g -> unseen (g_nedges g) (fst s) < fuel -> pc_visit g fuel e s <> None.

Lemma pc_over_total_gen g fuel (Hwf : wf_graph g) (Hv : visit_total_at g fuel) : forall l s,
  (forall x, In x (snd s) -> In x (fst s)) ->
  (forall d, In d l -> d < g_nedges g) -> unseen (g_nedges g) (fst s) < fuel -> pc_over g fuel l s <> None.
Proof.
  induction l as [|d l IH]; intros s Hinv Hl Hu; [discriminate|].
  cbn [pc_over]. destruct (pc_visit g fuel d s) as [s1|] eqn:Hd.
  - destruct (pc_visit_post g fuel d s s1 Hinv Hd) as (n1 & P1).
    apply IH.
    + intros x Hx. rewrite (p_done _ _ _ _ _ P1) in Hx. apply (p_seen _ _ _ _ _ P1).
      apply in_app_iff in Hx as [Hx|Hx]; [left; apply Hinv; exact Hx | right; exact Hx].
    + intros d0 Hd0. apply Hl. right. exact Hd0.
    + pose proof (unseen_mono (g_nedges g) (fst s) (fst s1) (post_seen_mono _ _ _ _ _ P1)). lia.
  - exfalso. exact (Hv d s Hinv (Hl d (or_introl eq_refl)) Hu Hd).
Qed.

Lemma pc_visit_total g (Hwf : wf_graph g) : forall fuel, visit_total_at g fuel.
Proof.
  induction fuel as [|f IHf]; intros e s Hinv He Hu; [lia|].
  rewrite pc_visit_S. destruct (mem_nat e (fst s)) eqn:Hm; [intros Hx; discriminate Hx|].
  apply mem_nat_nIn in Hm.
  destruct (pc_over g f _ _) as [[seen' done']|] eqn:Ho; [intros Hx; discriminate Hx|].
  exfalso. revert Ho. apply (pc_over_total_gen g f Hwf IHf).
  - cbn [fst snd]. intros x Hx. right. apply Hinv. exact Hx.
  - intros d Hd. exact (wf_dep g e d Hwf Hd).
  - change (unseen (g_nedges g) (e :: fst s) < f). pose proof (unseen_add (g_nedges g) (fst s) e He Hm). lia.
Qed.

Lemma filter_all_true (l : list nat) : filter (fun e => negb (mem_nat e [])) l = l.
Proof. induction l as [|x l IH]; [reflexivity|]. cbn [filter]. unfold mem_nat at 1. cbn [existsb negb]. f_equal. exact IH. Qed.
Lemma unseen_nil n : unseen n [] = n.
Proof. unfold unseen. rewrite filter_all_true. apply seq_length. Qed.

(* ------------------------------------------------------------------ the theorems about `-t commands` *)
Definition acyclic (g : graph) : Prop := forall d d', dep g d d' -> ~ reach g d' d.

Definition target_reach (g : graph) (targets : list node) (x : edge) : Prop :=
  exists r, In r (target_edges g targets) /\ reach g r x.

Lemma target_edges_wf g targets : wf_graph g -> forall d, In d (target_edges g targets) -> d < g_nedges g.
Proof.
  intros Hwf d Hd. unfold target_edges in Hd. apply in_flat_map in Hd as (n & _ & Hn).
  destruct (g_producer g n) as [p|] eqn:Hp; [|destruct Hn]. destruct Hn as [<-|[]]. exact (Hwf n p Hp).
Qed.

(* the walk as a whole, from the empty state *)
Lemma walk_post g targets s' :
  pc_over g (tool_fuel g) (target_edges g targets) ([], []) = Some s' ->
  post g (target_edges g targets) ([], []) s' (snd s').
Proof.
  intros H.
  destruct (pc_over_post_gen g _ (pc_visit_post g (tool_fuel g)) _ _ _ (fun x (Hx : In x (snd (@nil edge, @nil edge))) => Hx) H) as (new & P).
  pose proof (p_done _ _ _ _ _ P) as Hd. cbn [snd app] in Hd. rewrite Hd. exact P.
Qed.

Theorem walk_total g targets : wf_graph g ->
  pc_over g (tool_fuel g) (target_edges g targets) ([], []) <> None.
Proof.
  intros Hwf. apply (pc_over_total_gen g _ Hwf (pc_visit_total g Hwf (tool_fuel g))).
  - intros x [].
  - apply target_edges_wf. exact Hwf.
  - cbn [fst]. rewrite unseen_nil. unfold tool_fuel. lia.
Qed.

Lemma walk_done_exact g targets s' :
  pc_over g (tool_fuel g) (target_edges g targets) ([], []) = Some s' ->
  forall x, In x (snd s') <-> target_reach g targets x.
Proof.
  intros H. pose proof (walk_post g targets s' H) as P. intros x. split.
  - intros Hx. exact (p_reach _ _ _ _ _ P x Hx).
  - intros (r & Hr & Hrx).
    assert (Hseen : forall y, In y (fst s') -> In y (snd s')).
    { intros y Hy. apply (p_seen _ _ _ _ _ P) in Hy as [[]|Hy]. exact Hy. }
    assert (Hr' : In r (snd s')) by (apply Hseen; exact (p_roots _ _ _ _ _ P r Hr)).
    clear Hr. induction Hrx as [e|e d x0 Hd Hdx IH]; [exact Hr'|].
    apply IH. apply Hseen. exact (p_closed _ _ _ _ _ P e d Hr' Hd).
Qed.

Lemma walk_done_order g targets s' :
  pc_over g (tool_fuel g) (target_edges g targets) ([], []) = Some s' ->
  forall d d', In d (snd s') -> dep g d d' -> before d' d (snd s') \/ reach g d' d.
Proof.
  intros H d d' Hd Hdd. pose proof (walk_post g targets s' H) as P.
  destruct (p_order _ _ _ _ _ P d d' Hd Hdd) as [Hb|[[[] _]|Hr]]; [left; exact Hb | right; exact Hr].
Qed.

Lemma before_trans_nodup a b c l : NoDup l -> before a b l -> before b c l -> before a c l.
Proof.
  intros Hnd (l1 & l2 & l3 & H1) (m1 & m2 & m3 & H2).
  (* b occurs once: the two decompositions around b coincide *)
  assert (E : (l1 ++ a :: l2) ++ b :: l3 = m1 ++ b :: (m2 ++ c :: m3)).
  { rewrite <- app_assoc. cbn [app]. rewrite <- H1. exact H2. }
  assert (Hnd' : NoDup ((l1 ++ a :: l2) ++ b :: l3)).
  { rewrite <- app_assoc. cbn [app]. rewrite <- H1. exact Hnd. }
  assert (Hb : l1 ++ a :: l2 = m1 /\ l3 = m2 ++ c :: m3) by exact (NoDup_app_unique_local b _ _ _ _ Hnd' E).
  destruct Hb as [<- ->]. exists l1, (l2 ++ b :: m2), m3. rewrite H1.
  f_equal. f_equal. rewrite <- app_assoc. reflexivity.
Qed.

Lemma before_filter (f : edge -> bool) a b l :
  before a b l -> f a = true -> f b = true -> before a b (filter f l).
Proof.
  intros (l1 & l2 & l3 & ->) Ha Hb. exists (filter f l1), (filter f l2), (filter f l3).
  rewrite filter_app. cbn [filter]. rewrite Ha, filter_app. cbn [filter]. rewrite Hb. reflexivity.
Qed.

Lemma done_order_trans g done :
  acyclic g -> NoDup done ->
  (forall d d', In d done -> dep g d d' -> before d' d done \/ reach g d' d) ->
  forall d x, reach g d x -> In d done -> x <> d -> before x d done.
Proof.
  intros Hac Hnd Hord d x Hr. induction Hr as [e|e d x Hd Hr IH]; intros Hin Hne; [congruence|].
  destruct (Hord e d Hin Hd) as [Hb|Hc]; [|exfalso; exact (Hac e d Hd Hc)].
  destruct (Nat.eq_dec x d) as [->|Hxd]; [exact Hb|].
  eapply before_trans_nodup; [exact Hnd | | exact Hb].
  apply IH; [exact (proj1 (before_In _ _ _ Hb)) | exact Hxd].
Qed.

Section Commands.
Variable g : graph.
Variable targets : list node.
Variable l : list edge.
Hypothesis Hrun : tool_commands g targets = Some l.

Lemma commands_inv : exists s', pc_over g (tool_fuel g) (target_edges g targets) ([], []) = Some s' /\ l = printed g (snd s').
Proof.
  unfold tool_commands in Hrun.
  destruct (pc_over g (tool_fuel g) (target_edges g targets) ([], [])) as [[seen done]|] eqn:Ho; [|discriminate].
  injection Hrun as <-. exists (seen, done). split; reflexivity.
Qed.

Theorem tool_commands_nodup : NoDup l.
Proof.
  destruct commands_inv as (s' & Ho & ->). apply NoDup_filter.
  exact (p_nodup _ _ _ _ _ (walk_post g targets s' Ho)).
Qed.

Theorem tool_commands_exact :
  forall x, In x l <-> (target_reach g targets x /\ ei_phony (g_edge g x) = false).
Proof.
  destruct commands_inv as (s' & Ho & ->). intros x. unfold printed. rewrite filter_In.
  rewrite (walk_done_exact g targets s' Ho x), negb_true_iff. tauto.
Qed.

Theorem tool_commands_order :
  forall d d', In d l -> dep g d d' -> ei_phony (g_edge g d') = false -> before d' d l \/ reach g d' d.
Proof.
  destruct commands_inv as (s' & Ho & ->). intros d d' Hd Hdd Hph.
  unfold printed in Hd. apply filter_In in Hd as [Hd Hpd].
  destruct (walk_done_order g targets s' Ho d d' Hd Hdd) as [Hb|Hr]; [left|right; exact Hr].
  apply before_filter; [exact Hb | rewrite Hph; reflexivity | exact Hpd].
Qed.

Theorem tool_commands_order_acyclic :
  acyclic g ->
  forall d x, In d l -> reach g d x -> x <> d -> ei_phony (g_edge g x) = false -> before x d l.
Proof.
  intros Hac. destruct commands_inv as (s' & Ho & ->). intros d x Hd Hr Hne Hph.
  unfold printed in Hd. apply filter_In in Hd as [Hd Hpd].
  apply before_filter; [| rewrite Hph; reflexivity | exact Hpd].
  apply (done_order_trans g (snd s') Hac).
  - exact (p_nodup _ _ _ _ _ (walk_post g targets s' Ho)).
  - intros d0 d' H0 H1. exact (walk_done_order g targets s' Ho d0 d' H0 H1).
  - exact Hr.
  - exact Hd.
  - exact Hne.
Qed.
End Commands.

Theorem tool_commands_total g targets : wf_graph g -> tool_commands g targets <> None.
Proof.
  intros Hwf. unfold tool_commands. pose proof (walk_total g targets Hwf) as H.
  destruct (pc_over g (tool_fuel g) (target_edges g targets) ([], [])) as [[seen done]|]; [discriminate | congruence].
Qed.

(* `-t commands -s`: exactly the non-phony producers of the targets, each once, in argument order *)
Lemma single_go_In g : forall l seen x,
  In x (tool_commands_single_go g l seen) <-> (In x l /\ ~ In x seen /\ ei_phony (g_edge g x) = false).
Proof.
  induction l as [|e l IH]; intros seen x; cbn [tool_commands_single_go In]; [tauto|].
  destruct (mem_nat e seen) eqn:Hm.
  - apply mem_nat_In in Hm. rewrite IH. split; [tauto|]. intros ([<-|H] & Hn & Hp); [contradiction | tauto].
  - apply mem_nat_nIn in Hm. rewrite in_app_iff, IH. cbn [In].
    destruct (ei_phony (g_edge g e)) eqn:Hp; cbn [In].
    + split; [intros [[]|(H1 & H2 & H3)]; tauto|]. intros ([<-|H] & Hn & Hpx); [congruence|].
      right. split; [exact H|]. split; [|exact Hpx]. intros [<-|H2]; [congruence | exact (Hn H2)].
    + split.
      * intros [[<-|[]]|(H1 & H2 & H3)]; [tauto|]. tauto.
      * intros ([<-|H] & Hn & Hpx); [left; left; reflexivity|].
        destruct (Nat.eq_dec e x) as [<-|Hne]; [left; left; reflexivity|]. right. split; [exact H|]. split; [|exact Hpx]. intros [He|H2]; [exact (Hne He) | exact (Hn H2)].
Qed.

Theorem tool_commands_single_exact g targets x :
  In x (tool_commands_single g targets) <-> (In x (target_edges g targets) /\ ei_phony (g_edge g x) = false).
Proof. unfold tool_commands_single. rewrite single_go_In. cbn [In]. tauto. Qed.
