(* History-level model for property C10, the OTHER way ninja learns discovered dependencies:
   statements with [depfile = X] and NO [deps =] binding ("depfile-only", deps kind
   [DepsDepfile]).  Extends HistDepsDefs.v.  ONLY definitions and vm_compute Examples; theorems
   are in HistDepfileProofs.v.

   What the real code does (graph.cc ImplicitDepLoader::LoadDeps -> LoadDepFile / LoadDepFileTry;
   DependencyScan::RecomputeNodeDirty; build.cc Builder::FinishCommand): the depfile is read from
   DISK at every scan, it must name the statement's first output, a missing (or empty) depfile
   makes the statement dirty ("depfile is missing"); nothing goes to the deps log and ninja does
   NOT delete the depfile after the command (only [deps = gcc] does, in ExtractDeps).  As for the
   deps log, a statement that is ALREADY dirty has its depfile only probed (LoadDepsTry ->
   LoadDepFileTry: does the file exist?), its inputs are not spliced in.

   State ([fstate]): HistDeps' [dstate] plus the depfiles on disk, as written by the last
   successful run of each depfile-only statement: [f_df e = Some l] is the file "out0: l"
   ([DfParsed [out0] l] for the scan), [None] = no such file ([DfMissing]).  GHOST field [f_udel]:
   the user removed the depfile since the statement last ran (never read by the algorithm).

   One command ([frun_edge]) = HistDeps' [drun_edge] (the same disk writes, log entries, and a deps
   record for a [deps = gcc] statement); a depfile-only statement (re)writes its depfile with its
   hidden reads.  History steps: the four steps of HistDefs ([FS x]) and [DeleteDepfile e].
   One invocation ([fbuild]): [ScanDefs.scan] on the world that contains the deps log AND the
   depfiles ([world_of_f]); restat pruning as in HistDepsDefs ([dirty_now_d] on [graph_now]: the
   inputs the scan left in the edge, never for a statement whose deps_missing_ flag is set).

   [to_log g]: the same manifest with every depfile-only statement turned into a [deps = gcc]
   statement.  It is only a proof device (HistDepfileProofs shows that the scan cannot tell the
   two apart when every depfile that exists corresponds to a valid record) and the way the side
   conditions of HistDepsDefs are reused: [frag_ABF g hid] etc. *)
From NinjaV Require Import Engine.CrashDefs.
From NinjaV Require Import Base.Bytes Engine.ScanDefs Engine.ScanSpec Engine.HistDefs Engine.HistDepsDefs.
Local Open Scope Z_scope.

(* ------------------------------------------------------------------ depfile-only as deps log *)
Definition to_log_kind (k : deps_kind) : deps_kind :=
  match k with DepsDepfile => DepsLog | k' => k' end.

Definition to_log_edge (ei : edge_info) : edge_info :=
  mkEdge (ei_ins ei) (ei_nimp ei) (ei_noo ei) (ei_outs ei) (ei_vals ei) (ei_phony ei)
         (ei_restat ei) (ei_generator ei) (to_log_kind (ei_deps ei)) (ei_hash ei).

Definition to_log (g : graph) : graph :=
  mkGraph (g_nedges g) (fun e => to_log_edge (g_edge g e)) (g_producer g) (g_byloader g).

Definition is_depfile (k : deps_kind) : bool := match k with DepsDepfile => true | _ => false end.

(* ------------------------------------------------------------------ the fragment (checkable) *)
(* fragment ABF = fragment AB + depfile-only statements: no [deps = gcc] statement (HistDepsDefs
   covers those), and the manifest with depfile-only read as deps log is in fragment ABD *)
Definition frag_ABF (g : graph) (hid : edge -> list node) : bool :=
  edges_all g (fun e => negb (is_deps_log (ei_deps (g_edge g e)))) && frag_ABD (to_log g) hid.

(* the side conditions of HistDepsDefs, for depfile-only statements *)
Definition hidden_reads_ordered_f (g : graph) (hid : edge -> list node) : bool :=
  hidden_reads_ordered (to_log g) hid.
Definition no_restat_upstream_of_depfile (g : graph) (hid : edge -> list node) : bool :=
  no_restat_upstream_of_deps (to_log g) hid.

(* ------------------------------------------------------------------ the semantic state *)
Record fstate := mkF {
  f_ds : dstate;                          (* disk, clock, build log, ... and the deps log *)
  f_df : edge -> option (list node);      (* the depfile of a statement: the inputs it lists *)
  f_udel : edge -> bool                   (* GHOST: removed by the user since the last run *)
}.

Definition f_h (fs : fstate) : hstate := d_h (f_ds fs).

Definition init_fstate (g : graph) : fstate := mkF (init_dstate g) (fun _ => None) (fun _ => false).

Section ModelF.
Variable cmd : edge -> N -> snapshot -> node -> content.
Variable g : graph.
Variable hid : edge -> list node.

(* what LoadDepFile sees: "out0: l" *)
Definition depfile_of (fs : fstate) (e : edge) : depfile_state :=
  match f_df fs e with
  | None => DfMissing
  | Some l => match ei_outs (g_edge g e) with
              | o0 :: _ => DfParsed [o0] l
              | [] => DfParsed [] l         (* a statement without output: rejected by the parser *)
              end
  end.

(* what ninja sees: the disk, the build log, the deps log and the depfiles *)
Definition world_of_f (fs : fstate) : world :=
  mkWorld (mtime_of (f_h fs)) (h_blog (f_h fs)) (d_deps (f_ds fs)) (depfile_of fs).

(* one successful command; a depfile-only statement writes its depfile *)
Definition frun_edge (fs : fstate) (e : edge) : fstate :=
  let ds' := drun_edge cmd g hid (f_ds fs) e in
  if is_depfile (ei_deps (g_edge g e))
  then mkF ds' (fun e' => if Nat.eqb e' e then Some (hid e) else f_df fs e')
               (fun e' => if Nat.eqb e' e then false else f_udel fs e')
  else mkF ds' (f_df fs) (f_udel fs).

(* ------------------------------------------------------------------ one invocation of ninja *)
Definition fscan (fs : fstate) (targets : list node) : scan_result :=
  scan (graph_of g (f_h fs)) (world_of_f fs) targets.

Definition fbuild_step (s : sstate) (p : plan) (fs : fstate) (e : edge) : fstate :=
  if want_start p e && negb (ei_phony (g_edge g e)) && dirty_now_d g s (f_ds fs) e
  then frun_edge fs e else fs.

Definition fbuild_upto (s : sstate) (p : plan) (k : nat) (fs : fstate) : fstate :=
  fold_left (fbuild_step s p) (seq 0 k) fs.

Definition fbuild (fs : fstate) (targets : list node) : option fstate :=
  match fscan fs targets with
  | ScanOk s p => Some (fbuild_upto s p (g_nedges g) fs)
  | _ => None
  end.

(* ------------------------------------------------------------------ histories *)
Inductive fstep :=
| FS (x : hstep)                 (* Edit / Delete / SetCmd / Build *)
| DeleteDepfile (e : edge).      (* the user removes the depfile of a statement *)

Definition flift (f : dstate -> dstate) (fs : fstate) : fstate := mkF (f (f_ds fs)) (f_df fs) (f_udel fs).

Definition delete_depfile (fs : fstate) (e : edge) : fstate :=
  mkF (f_ds fs) (fun e' => if Nat.eqb e' e then None else f_df fs e')
      (fun e' => if Nat.eqb e' e then true else f_udel fs e').

Definition fapply_step (fs : fstate) (x : fstep) : fstate :=
  match x with
  | FS (Build targets) => match fbuild fs targets with Some fs' => fs' | None => fs end
  | FS (Edit n c) => flift (dlift (fun st => write_file st n c)) fs
  | FS (Delete n) => flift (dlift (fun st => delete_file st n)) fs
  | FS (SetCmd e h) => flift (dlift (fun st => set_cmd st e h)) fs
  | DeleteDepfile e => delete_depfile fs e
  end.

Definition frun_hist (fs : fstate) (h : list fstep) : fstate := fold_left fapply_step h fs.

Definition fstep_ok (x : fstep) : bool :=
  match x with
  | FS y => step_ok g y
  | DeleteDepfile e => Nat.ltb e (g_nedges g) && is_depfile (ei_deps (g_edge g e))
  end.
Definition fhist_ok (h : list fstep) : bool := forallb fstep_ok h.

(* the reference: a clean build of the ground truth (hidden reads included) *)
Definition clean_of_f (fs : fstate) : node -> option content :=
  clean_of cmd (inline g hid) (f_h fs).

(* whenever a build is requested: the hidden reads that are sources exist, the targets are
   manifest nodes *)
Fixpoint hist_present_f (fs : fstate) (h : list hstep) : bool :=
  match h with
  | [] => true
  | x :: h' =>
    match x with
    | Build targets => hidden_srcs_present g hid (f_h fs) && targets_known g targets
    | _ => true
    end
    && hist_present_f (fapply_step fs (FS x)) h'
  end.

(* ------------------------------------------------------------------ the invariant about depfiles *)
(* (i) a depfile that exists lists exactly the hidden reads of its statement; the depfile of a
   depfile-only statement that has a build-log entry exists, unless the user removed it *)
Definition DepfileOk (fs : fstate) : Prop :=
  (forall e l, f_df fs e = Some l ->
     (e < g_nedges g)%nat /\ ei_deps (g_edge g e) = DepsDepfile /\ l = hid e) /\
  (forall e o, (e < g_nedges g)%nat -> ei_deps (g_edge g e) = DepsDepfile ->
     In o (ei_outs (g_edge g e)) -> h_blog (f_h fs) o <> None ->
     f_df fs e = Some (hid e) \/ f_udel fs e = true) /\
  (forall e, f_udel fs e = true -> f_df fs e = None).

End ModelF.

(* ================================================================== a project with the idiom *)
(* HistDepsDefs.ExD with a depfile-only compile statement:
   nodes: 0 a.src   1 b.c   2 gen.h   3 b.o   4 app   5 util.h (a source header)
     e0  build gen.h : gen a.src
     e1  build b.o   : cc b.c || gen.h          depfile = b.o.d; reads gen.h and util.h
     e2  build app   : link b.o                                                          *)
Module ExF.
Definition e1 := mkEdge [1%nat; 2%nat] 0 1 [3%nat] [] false false false DepsDepfile 101.
Definition g : graph :=
  mkGraph 3
    (fun e => match e with 0%nat => ExD.e0 | 1%nat => e1 | 2%nat => ExD.e2 | _ => Ex.dummy end)
    (g_producer ExD.g) (g_byloader ExD.g).
Definition hid := ExD.hid.
Definition cmd := Ex.cmd.
Definition fs0 := init_fstate g.
Definition gi := inline g hid.

Definition contents (fs : fstate) : list (option content) :=
  map (content_of (f_h fs)) [0; 1; 2; 3; 4; 5]%nat.
Definition cleans (fs : fstate) : list (option content) :=
  map (clean_of_f cmd g hid fs) [0; 1; 2; 3; 4; 5]%nat.

Example frag_ok :
  frag_ABF g hid && topo_ordered (inline g hid) && hidden_reads_ordered_f g hid
  && no_restat_upstream_of_depfile g hid && no_inputless_phony g = true.
Proof. vm_compute. reflexivity. Qed.

Definition hist0 : list hstep :=
  [Edit 0 10; Edit 1 20; Edit 5 30; Build [4%nat]; Edit 5 31; Build [4%nat];
   Edit 0 12; Build [4%nat]; Build [4%nat]].
Definition hist : list fstep := map FS hist0.

(* the same commands as the deps-log variant and the inlined manifest *)
Example trace : h_trace (f_h (frun_hist cmd g hid fs0 hist)) = [2; 1; 0; 2; 1; 2; 1; 0]%nat.
Proof. vm_compute. reflexivity. Qed.
Example contents_clean :
  contents (frun_hist cmd g hid fs0 hist) = cleans (frun_hist cmd g hid fs0 hist).
Proof. vm_compute. reflexivity. Qed.
Example depfile_written :
  f_df (frun_hist cmd g hid fs0 hist) 1%nat = Some [2%nat; 5%nat] /\
  d_deps (f_ds (frun_hist cmd g hid fs0 hist)) 3%nat = None.
Proof. vm_compute. split; reflexivity. Qed.
Example same_as_inlined :
  f_h (frun_hist cmd g hid fs0 hist) = run_hist cmd gi (init_hstate gi) hist0 /\
  fhist_ok g hist = true /\ hist_present_f cmd g hid fs0 hist0 = true.
Proof. vm_compute. repeat split; reflexivity. Qed.

Definition built := frun_hist cmd g hid fs0 (map FS [Edit 0 10; Edit 1 20; Edit 5 30; Build [4%nat]]).

(* a listed file that is missing and has no rule: dirty, not an error; the inlined manifest refuses *)
Example missing_dep_dirty :
  let fs := fapply_step cmd g hid built (FS (Delete 5)) in
  match fbuild cmd g hid fs [4%nat] with
  | Some fs' => ran_since (f_h fs) (f_h fs') = [2; 1]%nat
  | None => False
  end /\
  scan (graph_of gi (f_h fs)) (world_of (f_h fs)) [4%nat] = ScanMissing 5%nat (Some 3%nat).
Proof. vm_compute. split; reflexivity. Qed.

(* the depfile is removed by the user: "depfile is missing", the statement is re-run and the
   depfile is back *)
Example missing_depfile_reruns :
  let fs := fapply_step cmd g hid built (DeleteDepfile 1%nat) in
  f_df fs 1%nat = None /\
  match fbuild cmd g hid fs [4%nat] with
  | Some fs' => ran_since (f_h fs) (f_h fs') = [2; 1]%nat /\ f_df fs' 1%nat = Some [2%nat; 5%nat] /\
                f_udel fs' 1%nat = false
  | None => False
  end.
Proof. vm_compute. repeat split; reflexivity. Qed.

Example built_converged :
  match fbuild cmd g hid built [4%nat] with
  | Some fs' => ran_since (f_h built) (f_h fs') = []
  | None => False
  end.
Proof. vm_compute. reflexivity. Qed.
End ExF.

(* ================================================================== finding: restat-prune-ignores-recorded-deps, depfile-only form *)
(* HistDepsDefs.ExRestatPrune with a depfile-only compile statement: e1 is dirty at scan time through
   gen.h, so its depfile is only probed (it exists); the restat statement leaves gen.h untouched;
   CleanNode re-evaluates e1 against [gen.h] only and prunes it although util.h is newer. *)
Module ExRestatPruneF.
Definition e1 := mkEdge [2%nat] 0 0 [3%nat] [] false false false DepsDepfile 101.
Definition g : graph :=
  mkGraph 2 (fun e => match e with 0%nat => ExRestatPrune.e0 | 1%nat => e1 | _ => Ex.dummy end)
    (g_producer ExRestatPrune.g) (g_byloader ExRestatPrune.g).
Definition hid := ExRestatPrune.hid.
Definition gi := inline g hid.
Definition cmd := Ex.cmd.

Definition hist0 : list hstep :=
  [Edit 0 10; Edit 1 5; Build [3%nat]; Edit 0 11; Edit 1 6; Build [3%nat]].
Definition fs_before := frun_hist cmd g hid (init_fstate g) (map FS (firstn 5 hist0)).
Definition fs_end := frun_hist cmd g hid (init_fstate g) (map FS hist0).
Definition st_end := run_hist cmd gi (init_hstate gi) hist0.

Example conditions :
  frag_ABF g hid && topo_ordered gi && hidden_reads_ordered_f g hid && no_inputless_phony g
  && hist_ok g hist0 && hist_present_f cmd g hid (init_fstate g) hist0 = true
  /\ no_restat_upstream_of_depfile g hid = false.
Proof. vm_compute. split; reflexivity. Qed.

Example depfile_variant_stale :
  fbuild cmd g hid fs_before [3%nat] = Some fs_end /\
  ran_since (f_h fs_before) (f_h fs_end) = [0%nat] /\
  content_of (f_h fs_end) 3%nat <> clean_of_f cmd g hid fs_end 3%nat.
Proof. vm_compute. split; [reflexivity|split; [reflexivity|discriminate]]. Qed.
Example depfile_not_loaded :
  match fscan g fs_before [3%nat] with
  | ScanOk s p => es_ins (st_edge s 1%nat) = [2%nat] /\ es_deps_missing (st_edge s 1%nat) = false /\
                  p_want p 1%nat = Some WantToStart /\ f_df fs_before 1%nat = Some [1%nat]
  | _ => False
  end.
Proof. vm_compute. repeat split; reflexivity. Qed.
Example inlined_variant_right :
  h_trace st_end = [1; 0; 1; 0]%nat /\ content_of st_end 3%nat = clean_of cmd gi st_end 3%nat.
Proof. vm_compute. split; reflexivity. Qed.
Example next_build_reruns :
  match fbuild cmd g hid fs_end [3%nat] with
  | Some fs' => ran_since (f_h fs_end) (f_h fs') = [1%nat]
  | None => False
  end.
Proof. vm_compute. reflexivity. Qed.
End ExRestatPruneF.

(* ================================================================== finding: dirty-edge-deps-not-loaded, depfile-only form *)
(* HistDepsDefs.ExNotLoaded with a depfile-only compile statement (this is the situation the unit test
   GraphTest.ManifestInputDirtyNoDepfileLoad pins): e1 is dirty for its own reason (b.c), its depfile
   is only probed, gen.h's statement is neither visited nor wanted. *)
Module ExNotLoadedF.
Definition e1 := mkEdge [1%nat] 0 0 [3%nat] [] false false false DepsDepfile 101.
Definition g : graph :=
  mkGraph 2 (fun e => match e with 0%nat => ExNotLoaded.e0 | 1%nat => e1 | _ => Ex.dummy end)
    (g_producer ExNotLoaded.g) (g_byloader ExNotLoaded.g).
Definition hid := ExNotLoaded.hid.
Definition gi := inline g hid.
Definition cmd := Ex.cmd.

Definition hist0 : list hstep :=
  [Edit 0 10; Edit 1 20; Build [2%nat; 3%nat]; Edit 0 12; Edit 1 21; Build [3%nat]].
Definition fs_before := frun_hist cmd g hid (init_fstate g) (map FS (firstn 5 hist0)).
Definition fs_end := frun_hist cmd g hid (init_fstate g) (map FS hist0).
Definition st_end := run_hist cmd gi (init_hstate gi) hist0.

Example conditions :
  frag_ABF g hid && topo_ordered gi && no_restat_upstream_of_depfile g hid && no_inputless_phony g
  && hist_ok g hist0 && hist_present_f cmd g hid (init_fstate g) hist0 = true
  /\ hidden_reads_ordered_f g hid = false.
Proof. vm_compute. split; reflexivity. Qed.

Example depfile_variant_stale :
  fbuild cmd g hid fs_before [3%nat] = Some fs_end /\
  ran_since (f_h fs_before) (f_h fs_end) = [1%nat] /\
  content_of (f_h fs_end) 3%nat <> clean_of_f cmd g hid fs_end 3%nat.
Proof. vm_compute. split; [reflexivity|split; [reflexivity|discriminate]]. Qed.
Example producer_not_visited :
  match fscan g fs_before [3%nat] with
  | ScanOk s p => es_mark (st_edge s 0%nat) = VisitNone /\ p_want p 0%nat = None /\
                  p_want p 1%nat = Some WantToStart /\ es_ins (st_edge s 1%nat) = [1%nat]
  | _ => False
  end.
Proof. vm_compute. repeat split; reflexivity. Qed.
Example inlined_variant_right :
  h_trace st_end = [1; 0; 1; 0]%nat /\ content_of st_end 3%nat = clean_of cmd gi st_end 3%nat.
Proof. vm_compute. split; reflexivity. Qed.
End ExNotLoadedF.
