(* Executable model of what ninja PERSISTS around one command, for ONE build statement in isolation:
     Builder::StartEdge      lock-file tick (= command_start_time_), rspfile            (src/build.cc)
     Builder::FinishCommand  ExtractDeps (depfile removal for deps=gcc), restat re-stat and the
                             record_mtime rule, rspfile removal, DepsLog::RecordDeps per output,
                             THEN BuildLog::RecordCommand (ONE flushed line PER OUTPUT)  (src/build.cc)
     Builder::Cleanup        interrupt                                                   (src/build.cc)
     RecomputeOutputDirty<FIRSTRUN>, ImplicitDepLoader::LoadDeps*, the tail of
     RecomputeNodeDirty      the dirty test of the NEXT run                              (src/graph.cc)
   ONLY definitions (conventions); theorems are in CrashProofs.v.

   The per-output test below is the single-statement copy of [ScanDefs.output_dirty_first] /
   [output_dirty_again] / [load_deps] (same branches in the same order).

   Clock: mtimes are [Z], 0 = missing (ninja's convention); every write takes a tick. *)
From NinjaV Require Import Base.Bytes.
Local Open Scope Z_scope.

(* deps binding / depfile binding of the statement:
   DNone     neither;            DDepfile  depfile = ..., no deps (depfile read by every scan);
   DGcc      deps = gcc + depfile (read once by ExtractDeps, then REMOVED, deps go to the deps log);
   DMsvc     deps = msvc (deps come from the command's stdout, no file). *)
Inductive deps_kind := DNone | DDepfile | DGcc | DMsvc.
Definition deps := list nat.               (* discovered inputs ("headers"), by id *)

(* the statement *)
Record cfg := mkCfg {
  c_hash : N;                (* HashCommand(EvaluateCommand(true)) *)
  c_restat : bool;
  c_generator : bool;
  c_deps : deps_kind;
  c_rspfile : bool           (* rspfile binding non-empty *)
}.

(* one successful execution of the command *)
Record run := mkRun {
  r_start : Z;               (* tick of the lock file written by StartEdge = command_start_time_ *)
  r_writes : list (N * Z);   (* per output: content the command produces, tick of that write *)
  r_deps : deps;             (* the discovered inputs the command reports *)
  r_depfile_at : nat         (* the command writes its depfile after that many of its output writes *)
}.

(* the inputs as the NEXT scan sees them: mtimes of the manifest inputs (explicit + implicit, no
   order-only), and the mtime of every header id.  0 = missing (a missing source is a dirty leaf). *)
Record inputs := mkIn { i_explicit : list Z; i_hdr : nat -> Z }.

(* one output: the file (mtime, content) or missing, and its build-log entry (hash, mtime) *)
Record orec := mkO { o_file : option (Z * N); o_log : option (N * Z) }.

(* persistent state of the statement.  [p_dlog] is the deps-log record of outputs_[0], the only one
   ImplicitDepLoader::LoadDepsFromLog consults ("deps are only supported for single-target edges");
   the records FinishCommand writes for the other outputs are actions without effect on it. *)
Record pstate := mkP {
  p_outs : list orec;
  p_dlog : option (Z * deps);
  p_depfile : option deps;       (* Some d: a well-formed depfile naming outputs_[0]; None: missing *)
  p_rsp : bool;
  p_lock : bool
}.

Inductive action :=
| AWriteLock (t : Z)
| AWriteRsp
| ACmdWrite (i : nat) (c : N) (t : Z)      (* the command replaces output i atomically *)
| ACmdWriteDepfile (d : deps)
| ARemoveDepfile
| ARemoveRsp
| ALogAppend (i : nat) (h : N) (m : Z)     (* build-log line of output i, complete on disk *)
| ALogAppendTorn (i : nat)                 (* ... reached the disk partially: not loaded (C08) *)
| ADepsAppend (i : nat) (m : Z) (d : deps) (* deps-log record of output i *)
| ADepsAppendTorn (i : nat).               (* ... partially: not loaded (C09) *)

Fixpoint upd_nth {A : Type} (i : nat) (f : A -> A) (l : list A) : list A :=
  match l, i with
  | [], _ => []
  | x :: r, O => f x :: r
  | x :: r, S i' => x :: upd_nth i' f r
  end.

Definition set_file (v : option (Z * N)) (o : orec) : orec := mkO v (o_log o).
Definition set_log (v : option (N * Z)) (o : orec) : orec := mkO (o_file o) v.

Definition apply (st : pstate) (a : action) : pstate :=
  match a with
  | AWriteLock _ => mkP (p_outs st) (p_dlog st) (p_depfile st) (p_rsp st) true
  | AWriteRsp => mkP (p_outs st) (p_dlog st) (p_depfile st) true (p_lock st)
  | ACmdWrite i c t =>
    mkP (upd_nth i (set_file (Some (t, c))) (p_outs st)) (p_dlog st) (p_depfile st) (p_rsp st) (p_lock st)
  | ACmdWriteDepfile d => mkP (p_outs st) (p_dlog st) (Some d) (p_rsp st) (p_lock st)
  | ARemoveDepfile => mkP (p_outs st) (p_dlog st) None (p_rsp st) (p_lock st)
  | ARemoveRsp => mkP (p_outs st) (p_dlog st) (p_depfile st) false (p_lock st)
  | ALogAppend i h m =>
    mkP (upd_nth i (set_log (Some (h, m))) (p_outs st)) (p_dlog st) (p_depfile st) (p_rsp st) (p_lock st)
  | ALogAppendTorn _ => st
  | ADepsAppend i m d =>
    if Nat.eqb i 0 then mkP (p_outs st) (Some (m, d)) (p_depfile st) (p_rsp st) (p_lock st) else st
  | ADepsAppendTorn _ => st
  end.

Definition apply_all (st : pstate) (acts : list action) : pstate := fold_left apply acts st.

(* DiskInterface::Stat *)
Definition stat (o : orec) : Z := match o_file o with Some (m, _) => m | None => 0 end.

(* ------------------------------------------------------------------ one successful command *)
Definition has_depfile (c : cfg) : bool :=
  match c_deps c with DDepfile | DGcc => true | _ => false end.
Definition uses_depslog (c : cfg) : bool :=
  match c_deps c with DGcc | DMsvc => true | _ => false end.

(* a restat command leaves an output alone when it already has the content it would write *)
Definition same_content (o : orec) (c : N) : bool :=
  match o_file o with Some (m, c') => negb (Z.eqb m 0) && N.eqb c' c | None => false end.

(* the command's writes of its outputs, in output order *)
Fixpoint cmd_writes (restat : bool) (i : nat) (outs : list orec) (ws : list (N * Z)) : list action :=
  match outs, ws with
  | o :: outs', (c, t) :: ws' =>
    (if restat && same_content o c then [] else [ACmdWrite i c t]) ++ cmd_writes restat (S i) outs' ws'
  | _, _ => []
  end.

(* the outputs once the command has exited *)
Fixpoint written (restat : bool) (outs : list orec) (ws : list (N * Z)) : list orec :=
  match outs, ws with
  | o :: outs', (c, t) :: ws' =>
    (if restat && same_content o c then o else set_file (Some (t, c)) o) :: written restat outs' ws'
  | _, _ => outs
  end.

Definition cmd_actions (c : cfg) (r : run) (st0 : pstate) : list action :=
  let ws := cmd_writes (c_restat c) 0 (p_outs st0) (r_writes r) in
  firstn (r_depfile_at r) ws
  ++ (if has_depfile c then [ACmdWriteDepfile (r_deps r)] else [])
  ++ skipn (r_depfile_at r) ws.

(* the restat loop of FinishCommand: [scan] = Node::mtime() of the scan, [after] = Stat now *)
Fixpoint restat_loop (restat : bool) (scan after : list orec) (rm : Z) (cleaned : bool) : Z * bool :=
  match scan, after with
  | s :: scan', a :: after' =>
    let nm := stat a in
    restat_loop restat scan' after' (if Z.gtb nm rm then nm else rm)
                (cleaned || (Z.eqb (stat s) nm && restat))
  | _, _ => (rm, cleaned)
  end.

(* record_mtime: the start tick; for restat/generator (or when the lock could not be stat'ed) the
   newest output -- but the start tick again as soon as one output was "cleaned" *)
Definition record_mtime (c : cfg) (start : Z) (scan after : list orec) : Z :=
  if Z.eqb start 0 || c_restat c || c_generator c then
    let '(rm, cleaned) := restat_loop (c_restat c) scan after start false in
    if cleaned then start else rm
  else start.

Fixpoint log_appends (i : nat) (after : list orec) (h : N) (m : Z) : list action :=
  match after with
  | [] => []
  | _ :: rest => ALogAppend i h m :: log_appends (S i) rest h m
  end.

Fixpoint deps_appends (i : nat) (after : list orec) (d : deps) : list action :=
  match after with
  | [] => []
  | a :: rest => ADepsAppend i (stat a) d :: deps_appends (S i) rest d
  end.

Definition start_actions (c : cfg) (r : run) : list action :=
  AWriteLock (r_start r) :: (if c_rspfile c then [AWriteRsp] else []).

(* FinishCommand up to (excluding) RecordCommand *)
Definition finish_actions (c : cfg) : list action :=
  (match c_deps c with DGcc => [ARemoveDepfile] | _ => [] end)
  ++ (if c_rspfile c then [ARemoveRsp] else []).

Definition log_actions (c : cfg) (r : run) (st0 : pstate) : list action :=
  let after := written (c_restat c) (p_outs st0) (r_writes r) in
  log_appends 0 after (c_hash c) (record_mtime c (r_start r) (p_outs st0) after).

Definition deps_actions (c : cfg) (r : run) (st0 : pstate) : list action :=
  if uses_depslog c
  then deps_appends 0 (written (c_restat c) (p_outs st0) (r_writes r)) (r_deps r)
  else [].

(* THE ORDER OF THE CODE (after the fix "record deps before the build log entry in
   Builder::FinishCommand"): ... rspfile removal, RecordDeps for every output, THEN RecordCommand *)
Definition run_actions (c : cfg) (r : run) (st0 : pstate) : list action :=
  start_actions c r ++ cmd_actions c r st0 ++ finish_actions c
  ++ deps_actions c r st0 ++ log_actions c r st0.

(* the order of the code BEFORE that fix: RecordCommand, then RecordDeps.  Kept to document why the
   order was changed (CrashProofs.restat_deps_lost_old_order_refuted). *)
Definition run_actions_old_order (c : cfg) (r : run) (st0 : pstate) : list action :=
  start_actions c r ++ cmd_actions c r st0 ++ finish_actions c
  ++ log_actions c r st0 ++ deps_actions c r st0.

(* an order the code never used (for C07_order_matters): log lines before the command's writes *)
Definition run_actions_log_first (c : cfg) (r : run) (st0 : pstate) : list action :=
  start_actions c r ++ log_actions c r st0 ++ cmd_actions c r st0 ++ finish_actions c
  ++ deps_actions c r st0.

(* a crash: the first k actions happened; optionally action k is an append that reached the disk
   only partially *)
Definition tear (a : action) : list action :=
  match a with
  | ALogAppend i _ _ => [ALogAppendTorn i]
  | ADepsAppend i _ _ => [ADepsAppendTorn i]
  | _ => []
  end.
Definition crash (acts : list action) (k : nat) (torn : bool) : list action :=
  firstn k acts ++ (if torn then flat_map tear (firstn 1 (skipn k acts)) else []).

(* the prefix lengths that matter *)
Definition cmd_done_len (c : cfg) (r : run) (st0 : pstate) : nat :=
  length (start_actions c r ++ cmd_actions c r st0).
(* number of actions before the first build-log line: everything else, all deps records included *)
Definition pre_len (c : cfg) (r : run) (st0 : pstate) : nat :=
  length (start_actions c r ++ cmd_actions c r st0 ++ finish_actions c ++ deps_actions c r st0).
(* the commit point: the LAST build-log line, which is the last action *)
Definition commit_len (c : cfg) (r : run) (st0 : pstate) : nat := length (run_actions c r st0).

(* ------------------------------------------------------------------ the next run's dirty test *)
(* the "most_recent_input" update of RecomputeEdgesInputsDirty (strictly newer replaces) *)
Definition newer (mri : option Z) (m : Z) : option Z :=
  match mri with
  | None => Some m
  | Some x => if Z.gtb m x then Some m else mri
  end.
Definition mri_of (l : list Z) (mri0 : option Z) : option Z := fold_left newer l mri0.
Definition lt_mri (x : Z) (mri : option Z) : bool :=
  match mri with Some m => Z.ltb x m | None => false end.
Definition opt_eqb (a b : option Z) : bool :=
  match a, b with
  | None, None => true
  | Some x, Some y => Z.eqb x y
  | _, _ => false
  end.

(* RecomputeOutputDirty<true> *)
Definition output_dirty_first (c : cfg) (mri : option Z) (o : orec) : bool :=
  if Z.eqb (stat o) 0 then true                                  (* output doesn't exist *)
  else
    let entry := o_log o in
    let used_restat := c_restat c && match entry with Some _ => true | None => false end in
    if negb used_restat && lt_mri (stat o) mri then true         (* older than most recent input *)
    else match entry with
         | Some (h, lm) =>
           if negb (c_generator c) && negb (N.eqb (c_hash c) h) then true   (* command line changed *)
           else lt_mri lm mri                                    (* recorded mtime older than input *)
         | None => negb (c_generator c)                          (* command line not found in log *)
         end.

(* RecomputeOutputDirty<false> *)
Definition output_dirty_again (c : cfg) (mri : option Z) (o : orec) : bool :=
  let entry := o_log o in
  let used_restat := c_restat c && match entry with Some _ => true | None => false end in
  if negb used_restat && lt_mri (stat o) mri then true
  else match entry with
       | Some (_, lm) => lt_mri lm mri
       | None => false
       end.

(* ImplicitDepLoader::LoadDeps.  (Hard scan errors -- unparsable depfile, undeclared output -- are
   outside this model; an edge with deps and no output is rejected by the parser: LdFail there.) *)
Inductive load_res := LdFail | LdOk (d : deps).
Definition load_deps (c : cfg) (st : pstate) : load_res :=
  match c_deps c with
  | DNone => LdOk []
  | DGcc | DMsvc =>
    match p_outs st with
    | [] => LdFail
    | o0 :: _ =>
      match p_dlog st with
      | None => LdFail                                           (* deps for 'o0' are missing *)
      | Some (dm, d) => if Z.gtb (stat o0) dm then LdFail        (* stored deps info out of date *)
                        else LdOk d
      end
    end
  | DDepfile =>
    match p_depfile st with
    | None => LdFail                                             (* depfile is missing *)
    | Some d => LdOk d
    end
  end.

(* a source file is dirty iff it is missing *)
Definition any_missing (l : list Z) : bool := existsb (Z.eqb 0) l.

(* RecomputeNodeDirty for this statement (first visit, no dyndep) *)
Definition next_run_dirty (c : cfg) (ins : inputs) (st : pstate) : bool :=
  if any_missing (i_explicit ins) then true
  else
    let mri := mri_of (i_explicit ins) None in
    if existsb (output_dirty_first c mri) (p_outs st) then true
    else match load_deps c st with
         | LdFail => true
         | LdOk d =>
           let hm := map (i_hdr ins) d in
           if any_missing hm then true
           else let mri2 := mri_of hm mri in
                if opt_eqb mri mri2 then false
                else existsb (output_dirty_again c mri2) (p_outs st)
         end.

(* the reasons of dirtiness that ONLY a recorded run can remove: a missing source, or a build-log
   entry of output [o] that is absent / has another command hash / is older than an input *)
Definition log_stale (c : cfg) (mri : option Z) (o : orec) : bool :=
  match o_log o with
  | Some (h, lm) => (negb (c_generator c) && negb (N.eqb (c_hash c) h)) || lt_mri lm mri
  | None => negb (c_generator c)
  end.

(* ------------------------------------------------------------------ Builder::Cleanup *)
Fixpoint cleanup_outs (dep : bool) (scan cur : list orec) : list orec :=
  match scan, cur with
  | s :: scan', o :: cur' =>
    (if dep || negb (Z.eqb (stat s) (stat o)) then set_file None o else o) :: cleanup_outs dep scan' cur'
  | _, _ => cur
  end.

(* [scan] = the state the scan of the interrupted run saw (Node::mtime()) *)
Definition cleanup (c : cfg) (scan st : pstate) : pstate :=
  mkP (cleanup_outs (has_depfile c) (p_outs scan) (p_outs st))
      (p_dlog st)
      (if has_depfile c then None else p_depfile st)
      (p_rsp st)
      false.

(* ------------------------------------------------------------------ a concrete statement *)
(* build a.o a.d2 : cc a.c   with depfile, deps=gcc; never built; a.c at tick 3, header 7 at 2 *)
Definition ex_cfg : cfg := mkCfg 77 false false DGcc true.
Definition ex_ins : inputs := mkIn [3] (fun _ => 2).
Definition ex_run : run := mkRun 10 [(100%N, 11); (101%N, 12)] [7%nat] 1.
Definition ex_st0 : pstate := mkP [mkO None None; mkO None None] None None false false.

Example ex_actions : run_actions ex_cfg ex_run ex_st0 =
  [AWriteLock 10; AWriteRsp; ACmdWrite 0 100 11; ACmdWriteDepfile [7%nat]; ACmdWrite 1 101 12;
   ARemoveDepfile; ARemoveRsp; ADepsAppend 0 11 [7%nat]; ADepsAppend 1 12 [7%nat];
   ALogAppend 0 77 10; ALogAppend 1 77 10].
Proof. vm_compute. reflexivity. Qed.
