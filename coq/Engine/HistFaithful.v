(* A build loop for the history-level model (HistDefs.v) that is FAITHFUL to the way ninja prunes
   the plan after a restat command: Plan::CleanNode + the restat loop of Builder::FinishCommand
   (src/build.cc), instead of HistDefs.dirty_now's re-scan of the current world.
   ONLY definitions and vm_compute Examples; theorems are in HistFaithfulProofs.v.
   HistDefs.v / HistProofs.v are untouched: [build_f] is a second build function over the same
   state, steps and reference; HistFaithfulProofs.build_f_eq_build says where the two coincide.

   What ninja does.  The scan leaves a dirty flag, an mtime and an existence status in every Node
   it looked at ([ScanDefs.sstate], node part) and a want map in the Plan.  While the build runs
   NOTHING re-stats a node or recomputes a flag, with one exception: when a command of a `restat`
   rule has finished, FinishCommand stats each output, and for an output whose mtime is the one the
   Node still carries ("the rule command did not change the output") it calls
        Plan::CleanNode(scan, output):
          output->set_dirty(false);
          for every out-edge oe of the node (statements that list it as an input of ANY kind):
            skip it if it is not in the plan or kWantNothing; skip it if deps_missing_;
            if NO non-order-only input of oe carries the dirty flag:
              most_recent_input := the newest of them by the mtimes the NODES carry (strict >);
              if RecomputeOutputsDirty(oe, most_recent_input) says "not dirty"
                 -- RecomputeOutputsDirtyCache::all, i.e. [ScanDefs.outputs_dirty_all], on the node
                    states as they are and the build log as it is --
              then CleanNode every output of oe (recursion), and oe := kWantNothing.
   A command that rewrites an output leaves the flag of that output alone (dirty), so whatever
   depends on it stays wanted.  A wanted statement runs iff it is still wanted when its turn
   comes ([dirty_now_f]).

   The model keeps, next to the semantic state, the scan's [sstate] (flags, cached mtimes -- the
   phony pass-through mtimes included --, the inputs each edge has after the scan) and the want
   map as [edge -> bool] (true = kWantToStart); [clean_node] is CleanNode, [restat_clean] the loop
   of FinishCommand.  Sequential, in edge order, like HistDefs.build.

   The recursion of CleanNode follows input -> output edges, so its depth is bounded by the number
   of statements on acyclic graphs; [clean_node] takes that as fuel and returns None when it runs
   out (unreachable for [topo_ordered] graphs: HistFaithfulProofs.clean_node_spec,
   build_f_never_out_of_fuel). *)
From NinjaV Require Import Engine.CrashDefs.
From NinjaV Require Import Base.Bytes Engine.ScanDefs Engine.ScanSpec Engine.HistDefs.
Local Open Scope Z_scope.

(* a fold that stops at the first None *)
Fixpoint ofold {A X : Type} (f : A -> X -> option X) (l : list A) (x : X) : option X :=
  match l with
  | [] => Some x
  | a :: l' => match f a x with Some x' => ofold f l' x' | None => None end
  end.

(* what the Plan and the Nodes carry while the build runs *)
Record cst := mkC {
  c_s : sstate;              (* Node::dirty_/mtime_/exists_, Edge::inputs_/deps_missing_ after the scan *)
  c_want : edge -> bool      (* Plan::want_: true = kWantToStart *)
}.

Definition unwant (wt : edge -> bool) (e : edge) : edge -> bool :=
  fun e' => if Nat.eqb e' e then false else wt e'.

Section Clean.
Variable g : graph.          (* the manifest as it is now *)
Variable w : world.          (* the build log as it is now (BuildLog::LookupByOutput); its mtimes are NOT used *)

(* Node::out_edges(): the statements that have the node among their inputs (any kind) *)
Definition out_edges (s : sstate) (n : node) : list edge :=
  filter (fun e => mem_node n (es_ins (st_edge s e))) (seq 0 (g_nedges g)).

(* inputs_.begin() .. inputs_.end() - order_only_deps_ ; for a counter larger than the vector
   (pointer arithmetic undefined in the C++) the convention of Edge::is_order_only / ScanSpec.nonoo_ins *)
Definition cn_nonoo (s : sstate) (e : edge) : list node :=
  let ins := es_ins (st_edge s e) in
  let noo := ei_noo (g_edge g e) in
  if Nat.ltb (length ins) noo then ins else firstn (length ins - noo) ins.

(* "if (!most_recent_input || (*i)->mtime() > most_recent_input->mtime()) most_recent_input = *i" *)
Definition cn_mri (s : sstate) (l : list node) : option node :=
  fold_left (fun mri i => newer s i mri) l None.

(* the body of CleanNode's loop for one out-edge; [rec] = CleanNode itself *)
Definition clean_edge (rec : node -> cst -> option cst) (e : edge) (x : cst) : option cst :=
  let s := c_s x in
  if c_want x e && negb (es_deps_missing (st_edge s e))
     && forallb (fun i => negb (ns_dirty (st_node s i))) (cn_nonoo s e)
  then
    let '(d, s1) := outputs_dirty_all g w e (edge_outs g e) (cn_mri s (cn_nonoo s e)) s in
    if d then Some (mkC s1 (c_want x))
    else match ofold rec (edge_outs g e) (mkC s1 (c_want x)) with
         | Some x' => Some (mkC (c_s x') (unwant (c_want x') e))
         | None => None
         end
  else Some x.

(* Plan::CleanNode *)
Fixpoint clean_node (fuel : nat) (n : node) (x : cst) : option cst :=
  match fuel with
  | O => None
  | S f =>
    let x1 := mkC (set_dirty (c_s x) n false) (c_want x) in
    ofold (clean_edge (clean_node f)) (out_edges (c_s x1) n) x1
  end.

Definition clean_fuel : nat := S (g_nedges g).

(* the restat loop of Builder::FinishCommand, after the command of [e] has finished:
   "if ((*o)->mtime() == new_mtime && restat) plan_.CleanNode(&scan_, *o)" *)
Definition restat_clean (e : edge) (x : cst) : option cst :=
  if ei_restat (g_edge g e) then
    ofold (fun o x => if Z.eqb (ns_mtime (st_node (c_s x) o)) (w_mtime w o)
                      then clean_node clean_fuel o x else Some x)
          (ei_outs (g_edge g e)) x
  else Some x.

End Clean.

Section ModelF.
Variable cmd : edge -> N -> snapshot -> node -> content.
Variable g : graph.

(* is the statement still wanted when its turn comes *)
Definition dirty_now_f (x : cst) (e : edge) : bool := c_want x e.

Definition build_step_f (fs : option (hstate * cst)) (e : edge) : option (hstate * cst) :=
  match fs with
  | None => None
  | Some (st, x) =>
    if dirty_now_f x e && negb (ei_phony (g_edge g e)) then
      let st' := run_edge cmd g st e in
      (* Plan::EdgeFinished erases [e] from want_ (after the restat loop, which never looks at [e]
         itself: CleanNode only walks to statements that have an output of [e] as input) *)
      match restat_clean (graph_of g st') (world_of st') e (mkC (c_s x) (unwant (c_want x) e)) with
      | Some x' => Some (st', x')
      | None => None
      end
    else Some (st, x)
  end.

Definition init_cst (s : sstate) (p : plan) : cst := mkC s (want_start p).

Definition build_upto_f (s : sstate) (p : plan) (k : nat) (st : hstate) : option (hstate * cst) :=
  fold_left build_step_f (seq 0 k) (Some (st, init_cst s p)).

(* None: ninja refuses (or, unreachable on acyclic graphs, CleanNode ran out of fuel) *)
Definition build_f (st : hstate) (targets : list node) : option hstate :=
  match scan (graph_of g st) (world_of st) targets with
  | ScanOk s p =>
    match build_upto_f s p (g_nedges g) st with
    | Some (st', _) => Some st'
    | None => None
    end
  | _ => None
  end.

Definition apply_step_f (st : hstate) (s : hstep) : hstate :=
  match s with
  | Build targets => match build_f st targets with Some st' => st' | None => st end
  | _ => apply_step cmd g st s
  end.

Definition run_hist_f (st : hstate) (h : list hstep) : hstate := fold_left apply_step_f h st.

End ModelF.

(* ================================================================== the case the tie tool found *)
(*   e0  build always : phony
     e1  build gen    : r1 always src       restat = 1
     e2  build out    : r2 gen
   nodes: 0 src  1 always  2 gen  3 out.  [gen] is dirty in every run; from the second run on its
   command leaves it untouched.  ninja: CleanNode(gen) prunes [out]: ONE command.
   HistDefs.build: [dirty_now] re-scans, finds [gen] dirty again (because of [always]): TWO. *)
Module ExF.
Definition g : graph :=
  mkGraph 3
    (fun e => match e with
              | 0%nat => mkEdge [] 0 0 [1%nat] [] true false false DepsNone 0
              | 1%nat => mkEdge [1%nat; 0%nat] 0 0 [2%nat] [] false true false DepsNone 11
              | 2%nat => mkEdge [2%nat] 0 0 [3%nat] [] false false false DepsNone 12
              | _ => Ex.dummy
              end)
    (fun n => match n with 1%nat => Some 0%nat | 2%nat => Some 1%nat | 3%nat => Some 2%nat | _ => None end)
    (fun _ => false).

Definition st1 := run_hist Ex.cmd g (init_hstate g) [Edit 0 1; Build [3%nat]].
Definition st1f := run_hist_f Ex.cmd g (init_hstate g) [Edit 0 1; Build [3%nat]].

Example faithful_prunes_below_always_dirty :
  frag_AB g && topo_ordered g = true /\ no_inputless_phony g = false /\
  h_trace st1 = [2; 1]%nat /\ h_trace st1f = [2; 1]%nat /\
  (* second run: most recent first *)
  h_trace (apply_step Ex.cmd g st1 (Build [3%nat])) = [2; 1; 2; 1]%nat /\
  h_trace (apply_step_f Ex.cmd g st1f (Build [3%nat])) = [1; 2; 1]%nat /\
  map (content_of (apply_step Ex.cmd g st1 (Build [3%nat]))) [0; 1; 2; 3]%nat
  = map (content_of (apply_step_f Ex.cmd g st1f (Build [3%nat]))) [0; 1; 2; 3]%nat.
Proof. vm_compute. repeat split; reflexivity. Qed.

(* on the project of HistDefs.Ex (no input-less phony) the two loops do the same *)
Example same_trace_on_Ex :
  h_trace (run_hist_f Ex.cmd Ex.g Ex.st0 Ex.hist9) = h_trace (run_hist Ex.cmd Ex.g Ex.st0 Ex.hist9) /\
  Ex.contents (run_hist_f Ex.cmd Ex.g Ex.st0 Ex.hist9) = Ex.contents (run_hist Ex.cmd Ex.g Ex.st0 Ex.hist9) /\
  h_trace (run_hist_f Ex.cmd Ex.g Ex.st0 Ex.hist5) = [0; 2; 1; 0]%nat.
Proof. vm_compute. repeat split; reflexivity. Qed.
End ExF.
