(* Parallel schedules (`ninja -j N`) for the history-level model: a small-step semantics of ONE
   invocation on the state of HistDefs.v, with the per-build bookkeeping of HistFaithful.v
   ([cst]: the scan's node/edge states and the want map; restat pruning = Plan::CleanNode).
   ONLY definitions and vm_compute Examples; theorems are in HistParProofs.v.

   What ninja does (src/build.cc Builder::Build / StartEdge / FinishCommand, Plan::FindWork /
   EdgeFinished / NodeFinished / EdgeMaybeReady).  A command is STARTED -- lock-file tick =
   command_start_time_, the process reads its inputs as they are at that moment -- only when the
   producers of all its inputs (explicit, implicit AND order-only) are ready; between its start and
   its finish other commands start and finish; at FINISH ninja stats the outputs, runs the restat
   loop (Plan::CleanNode cascade) and appends the log entries, whose recorded mtime is computed
   from the START tick (CrashDefs.record_mtime).

   The model.  A configuration [pcfg] = the semantic state [hstate], the bookkeeping [cst], the set
   of running commands, each with its start tick, the command hash and the snapshot of the
   non-order-only inputs it read when it started, and the list of commands finished so far.
     Start e   allowed iff [e] is a statement of the graph, still wanted ([c_want], which also
               excludes what has finished or was pruned), not phony, not running, below the job
               limit if there is one, and every input of EVERY kind is ready ([node_ready]): it is
               a source, or its producer is neither wanted nor running -- never was wanted, has
               finished, was pruned --, or its producer is a wanted phony statement all of whose
               inputs are ready (a phony statement completes without running anything, as in the sequential
               loop; the want flag of a phony statement is never reset).
               This is the side condition Properties_C04.C04_start_after_producers proves of the
               plan model.  (The real Plan is stricter: a clean or pruned statement becomes ready
               only when all ITS inputs are; every schedule of ninja satisfies [node_ready].)
               Effect: lock tick ([tick]), the snapshot [reads] is taken.
     Finish e  allowed iff [e] is running.  Effect, exactly HistDefs.finish_run from the CURRENT
               state: the output writes with fresh ticks (restat: write-if-changed), one log entry
               per output with CrashDefs.record_mtime computed from the START tick, ghost snapshot =
               what was read at the start; then Plan::EdgeFinished ([unwant]) and the restat cascade
               [HistFaithful.restat_clean] on the state as it is now.
   Output files are written at Finish (in reality: some time between start and finish; nothing
   reads them before the finish, since their consumers are not started before).
   A SCHEDULE is a list of events.  [par_run lim st T sched] scans (not ScanOk: refused), runs the
   schedule and requires a COMPLETE execution: nothing running and no real statement wanted at the
   end.  [lim = Some N] additionally enforces at most N running commands (-j N); a schedule valid
   with a limit is valid without ([par_build_j_sound] in the proofs), so theorems about
   [par_build] (no limit) cover every N.
   The events are the `ev start` / `ev finish` events of the engine harness' -j N traces. *)
From NinjaV Require Import Engine.CrashDefs.
From NinjaV Require Import Base.Bytes Engine.ScanDefs Engine.ScanSpec Engine.HistDefs Engine.HistFaithful.
Local Open Scope Z_scope.

Inductive pevent :=
| Start (e : edge)
| Finish (e : edge).
Arguments Start e%nat_scope.
Arguments Finish e%nat_scope.

(* a running command *)
Record prun := mkR {
  r_edge : edge;
  r_t0 : Z;              (* the lock tick: Edge::command_start_time_ *)
  r_hash : N;            (* the command line it was started with *)
  r_snap : snapshot      (* what it read: the non-order-only inputs at the start *)
}.

Record pcfg := mkP {
  p_st : hstate;
  p_x : cst;             (* Node flags / cached mtimes, Plan::want_ *)
  p_run : list prun;     (* Builder::running_edges_, most recently started first *)
  p_done : list edge     (* commands finished in this invocation, most recent first *)
}.

Inductive pres :=
| POk (c : pcfg)
| PBad                   (* the event is not allowed in this configuration *)
| PFuel.                 (* CleanNode ran out of fuel (unreachable on acyclic graphs) *)

Inductive presult :=
| PDone (c : pcfg)       (* a complete execution *)
| PRefused               (* the scan does not accept the request: nothing runs *)
| PInvalid               (* some event was not allowed *)
| PIncomplete (c : pcfg) (* the schedule ends with commands running or wanted *)
| POutOfFuel.

Section ModelP.
Variable cmd : edge -> N -> snapshot -> node -> content.
Variable g : graph.

(* Node "ready" for a consumer to start.  [bl e'] = the statement e' is still to come: wanted, or
   running (Edge::outputs_ready_ is set by Plan::EdgeFinished only).  Fuel: the depth of a chain of
   phony statements, bounded by the number of statements on acyclic graphs; exhausted fuel answers
   "not ready" (the event is refused). *)
Fixpoint node_ready (f : nat) (bl : edge -> bool) (n : node) : bool :=
  match g_producer g n with
  | None => true
  | Some e' =>
    if bl e' then
      if ei_phony (g_edge g e') then
        match f with
        | O => false
        | S f' => forallb (node_ready f' bl) (ei_ins (g_edge g e'))
        end
      else false
    else true
  end.

Definition ready_fuel : nat := S (g_nedges g).

Definition running (R : list prun) (e : edge) : bool :=
  existsb (fun r => Nat.eqb (r_edge r) e) R.

(* still to come: in the plan as kWantToStart, or started and not finished *)
Definition blocked (c : pcfg) (e : edge) : bool := c_want (p_x c) e || running (p_run c) e.

Definition inputs_ready (c : pcfg) (e : edge) : bool :=
  forallb (node_ready ready_fuel (blocked c)) (ei_ins (g_edge g e)).

Definition jobs_ok (lim : option nat) (R : list prun) : bool :=
  match lim with None => true | Some n => Nat.ltb (length R) n end.

Definition start_ok (lim : option nat) (c : pcfg) (e : edge) : bool :=
  Nat.ltb e (g_nedges g) && c_want (p_x c) e && negb (ei_phony (g_edge g e))
  && negb (running (p_run c) e) && jobs_ok lim (p_run c)
  && inputs_ready c e.

(* Builder::StartEdge *)
Definition do_start (c : pcfg) (e : edge) : pcfg :=
  let st := p_st c in
  let st1 := tick st in
  mkP st1 (p_x c) (mkR e (h_clock st1) (h_hash st e) (reads g st e) :: p_run c) (p_done c).

Fixpoint take_run (e : edge) (R : list prun) : option (prun * list prun) :=
  match R with
  | [] => None
  | r :: R' =>
    if Nat.eqb (r_edge r) e then Some (r, R')
    else match take_run e R' with
         | Some (r', R'') => Some (r', r :: R'')
         | None => None
         end
  end.

(* the command's writes and Builder::FinishCommand *)
Definition do_finish (c : pcfg) (e : edge) : pres :=
  match take_run e (p_run c) with
  | None => PBad
  | Some (r, R') =>
    let st := p_st c in
    let st' := finish_run cmd g st st e (r_hash r) (r_snap r) (r_t0 r) in
    match restat_clean (graph_of g st') (world_of st') e
                       (mkC (c_s (p_x c)) (unwant (c_want (p_x c)) e)) with
    | Some x' => POk (mkP st' x' R' (e :: p_done c))
    | None => PFuel
    end
  end.

Definition par_step (lim : option nat) (c : pcfg) (ev : pevent) : pres :=
  match ev with
  | Start e => if start_ok lim c e then POk (do_start c e) else PBad
  | Finish e => do_finish c e
  end.

Fixpoint par_exec (lim : option nat) (sched : list pevent) (c : pcfg) : pres :=
  match sched with
  | [] => POk c
  | ev :: rest =>
    match par_step lim c ev with
    | POk c' => par_exec lim rest c'
    | err => err
    end
  end.

(* diagnostics for a trace tie: how many events of the schedule are accepted *)
Fixpoint par_accepted (lim : option nat) (sched : list pevent) (c : pcfg) : nat :=
  match sched with
  | [] => O
  | ev :: rest =>
    match par_step lim c ev with
    | POk c' => S (par_accepted lim rest c')
    | _ => O
    end
  end.

(* nothing running, no real statement wanted *)
Definition complete (c : pcfg) : bool :=
  is_nil (p_run c)
  && forallb (fun e => negb (c_want (p_x c) e) || ei_phony (g_edge g e)) (seq 0 (g_nedges g)).

Definition init_pcfg (st : hstate) (s : sstate) (p : plan) : pcfg := mkP st (init_cst s p) [] [].

Definition par_run (lim : option nat) (st : hstate) (targets : list node) (sched : list pevent)
  : presult :=
  match scan (graph_of g st) (world_of st) targets with
  | ScanOk s p =>
    match par_exec lim sched (init_pcfg st s p) with
    | POk c => if complete c then PDone c else PIncomplete c
    | PBad => PInvalid
    | PFuel => POutOfFuel
    end
  | _ => PRefused
  end.

(* one successful invocation under a schedule; None: refused, or not a valid complete schedule *)
Definition par_build_j (lim : option nat) (st : hstate) (targets : list node) (sched : list pevent)
  : option hstate :=
  match par_run lim st targets sched with
  | PDone c => Some (p_st c)
  | _ => None
  end.

Definition par_build : hstate -> list node -> list pevent -> option hstate := par_build_j None.

(* ------------------------------------------------------------------ the sequential schedule *)
(* Start e; Finish e for every statement the sequential faithful loop runs, in its order *)
Fixpoint seq_events (l : list edge) (fs : option (hstate * cst)) : list pevent :=
  match l with
  | [] => []
  | e :: l' =>
    match fs with
    | None => []
    | Some (_, x) =>
      (if dirty_now_f x e && negb (ei_phony (g_edge g e)) then [Start e; Finish e] else [])
      ++ seq_events l' (build_step_f cmd g fs e)
    end
  end.

Definition seq_sched (st : hstate) (targets : list node) : list pevent :=
  match scan (graph_of g st) (world_of st) targets with
  | ScanOk s p => seq_events (seq 0 (g_nedges g)) (Some (st, init_cst s p))
  | _ => []
  end.

(* ------------------------------------------------------------------ histories *)
(* a history step with the schedule its Build takes (ignored by the other steps); a Build whose
   schedule is refused / not valid / not complete is a no-op, like a refused Build in HistDefs *)
Definition phstep := (hstep * list pevent)%type.

Definition apply_pstep (st : hstate) (s : phstep) : hstate :=
  match fst s with
  | Build targets => match par_build st targets (snd s) with Some st' => st' | None => st end
  | other => apply_step cmd g st other
  end.

Definition run_phist (st : hstate) (h : list phstep) : hstate := fold_left apply_pstep h st.

Definition phist_ok (h : list phstep) : bool := hist_ok g (map fst h).

End ModelP.

(* ================================================================== a project with independent statements *)
(* HistDefs.Ex with a second compile:
   nodes: 0 a.src   1 b.src   2 gen.h   3 x.o   4 app   5 all   6 c.src   7 y.o
     e0  build gen.h : halve a.src          restat = 1
     e1  build x.o   : cc b.src | gen.h
     e2  build y.o   : cc c.src | gen.h
     e3  build app   : link x.o y.o || gen.h
     e4  build all   : phony app
   e1 and e2 are independent: with -j 2 both run at the same time.                            *)
Module ExP.
Definition e0 := mkEdge [0%nat] 0 0 [2%nat] [] false true false DepsNone 100.
Definition e1 := mkEdge [1%nat; 2%nat] 1 0 [3%nat] [] false false false DepsNone 101.
Definition e2 := mkEdge [6%nat; 2%nat] 1 0 [7%nat] [] false false false DepsNone 103.
Definition e3 := mkEdge [3%nat; 7%nat; 2%nat] 0 1 [4%nat] [] false false false DepsNone 102.
Definition e4 := mkEdge [4%nat] 0 0 [5%nat] [] true false false DepsNone 0.

Definition g : graph :=
  mkGraph 5
    (fun e => match e with 0%nat => e0 | 1%nat => e1 | 2%nat => e2 | 3%nat => e3 | 4%nat => e4
                         | _ => Ex.dummy end)
    (fun n => match n with 2%nat => Some 0%nat | 3%nat => Some 1%nat | 7%nat => Some 2%nat
                         | 4%nat => Some 3%nat | 5%nat => Some 4%nat | _ => None end)
    (fun _ => false).

Definition cmd := Ex.cmd.
Definition nodes : list node := [0; 1; 2; 3; 4; 5; 6; 7]%nat.
Definition contents (st : hstate) : list (option content) := map (content_of st) nodes.
Definition cleans (st : hstate) : list (option content) := map (clean_of cmd g st) nodes.
Definition mtimes (st : hstate) : list Z := map (mtime_of st) nodes.

(* the sources appear *)
Definition st1 : hstate :=
  run_hist cmd g (init_hstate g) [Edit 0 10; Edit 1 20; Edit 6 30].

Example frag_ok : frag_AB g && topo_ordered g && no_inputless_phony g = true.
Proof. vm_compute. reflexivity. Qed.

(* the sequential schedule of the first build *)
Example seq_first : seq_sched cmd g st1 [5%nat]
  = [Start 0; Finish 0; Start 1; Finish 1; Start 2; Finish 2; Start 3; Finish 3].
Proof. vm_compute. reflexivity. Qed.

(* a genuinely interleaved one: e1 and e2 are both started before either finishes, and they
   finish in the other order *)
Definition inter : list pevent :=
  [Start 0; Finish 0; Start 1; Start 2; Finish 2; Finish 1; Start 3; Finish 3].

Definition st_seq : option hstate := par_build cmd g st1 [5%nat] (seq_sched cmd g st1 [5%nat]).
Definition st_par : option hstate := par_build_j cmd g (Some 2%nat) st1 [5%nat] inter.

(* the sequential schedule is the sequential faithful loop *)
Example seq_is_build_f : st_seq = build_f cmd g st1 [5%nat].
Proof. vm_compute. reflexivity. Qed.

(* both are complete; same contents (the clean ones), same set of commands, the same final clock
   (the same number of ticks is taken), but different mtimes and different recorded mtimes:
   y.o is started at tick 8 in the sequential schedule and at tick 7 in the interleaved one *)
Example interleaved_same_contents :
  match st_seq, st_par with
  | Some a, Some b =>
    contents a = contents b /\ contents b = cleans b /\
    h_trace a = [3; 2; 1; 0]%nat /\ h_trace b = [3; 1; 2; 0]%nat /\
    h_clock a = 11 /\ h_clock b = 11 /\
    mtimes a <> mtimes b /\
    h_blog a 7%nat = Some (103%N, 8) /\ h_blog b 7%nat = Some (103%N, 7)
  | _, _ => False
  end.
Proof. vm_compute. repeat split; try reflexivity. intros H; discriminate H. Qed.

(* -j 1 refuses the interleaved schedule, no limit accepts it *)
Example interleaved_needs_two_jobs :
  par_run cmd g (Some 1%nat) st1 [5%nat] inter = PInvalid /\
  par_build cmd g st1 [5%nat] inter = st_par.
Proof. vm_compute. split; reflexivity. Qed.

(* a consumer may not start before its producer has finished; a schedule may not stop early *)
Example start_before_producer_refused :
  par_run cmd g None st1 [5%nat] [Start 0; Start 1] = PInvalid /\
  par_accepted cmd g None [Start 0; Start 1]
     (match scan (graph_of g st1) (world_of st1) [5%nat] with
      | ScanOk s p => init_pcfg st1 s p | _ => init_pcfg st1 (init_state g) init_plan end) = 1%nat /\
  match par_run cmd g None st1 [5%nat] [Start 0; Finish 0; Start 1; Start 2; Finish 1] with
  | PIncomplete _ => True | _ => False end.
Proof. vm_compute. repeat split; reflexivity. Qed.

(* the next scan wants nothing *)
Example interleaved_converged :
  match st_par with
  | Some b =>
    match scan (graph_of g b) (world_of b) [5%nat] with
    | ScanOk _ p => forallb (fun e => negb (want_start p e)) (seq 0 5) = true
    | _ => False
    end
  | None => False
  end.
Proof. vm_compute. reflexivity. Qed.

(* a.src 10 -> 11 leaves gen.h = 5: the restat cascade prunes e1, e2, e3, and [Start 0; Finish 0]
   is a complete schedule; c.src changes as well: e2 and e3 stay, e1 is pruned, and e2 may run
   WHILE e0 runs only if ... it may not: gen.h is an input of e2 *)
Example restat_prunes_in_parallel :
  match st_par with
  | Some b =>
    let b1 := write_file b 0%nat 11%N in
    let b2 := write_file b1 6%nat 31%N in
    match par_build cmd g b1 [5%nat] [Start 0; Finish 0] with
    | Some c => h_trace c = 0%nat :: h_trace b /\ contents c = cleans c
    | None => False
    end /\
    par_run cmd g None b2 [5%nat] [Start 0; Start 2] = PInvalid /\
    match par_build cmd g b2 [5%nat] [Start 0; Finish 0; Start 2; Finish 2; Start 3; Finish 3] with
    | Some c => h_trace c = [3; 2; 0]%nat ++ h_trace b /\ contents c = cleans c
    | None => False
    end
  | None => False
  end.
Proof. vm_compute. repeat split; reflexivity. Qed.
End ExP.

(* ================================================================== two independent chains *)
(*   e0  build a.o : cc a.c        e1  build b.o : cc b.c  (restat)     e2  build all : phony a.o b.o
     nodes: 0 a.c  1 b.c  2 a.o  3 b.o  4 all.  Every interleaving of e0 and e1 is a schedule. *)
Module ExI.
Definition g : graph :=
  mkGraph 3
    (fun e => match e with
              | 0%nat => mkEdge [0%nat] 0 0 [2%nat] [] false false false DepsNone 7
              | 1%nat => mkEdge [1%nat] 0 0 [3%nat] [] false true false DepsNone 8
              | 2%nat => mkEdge [2%nat; 3%nat] 0 0 [4%nat] [] true false false DepsNone 0
              | _ => Ex.dummy
              end)
    (fun n => match n with 2%nat => Some 0%nat | 3%nat => Some 1%nat | 4%nat => Some 2%nat | _ => None end)
    (fun _ => false).
Definition st1 : hstate := run_hist Ex.cmd g (init_hstate g) [Edit 0 1; Edit 1 2].
Definition scheds : list (list pevent) :=
  [ [Start 0; Finish 0; Start 1; Finish 1]; [Start 1; Finish 1; Start 0; Finish 0];
    [Start 0; Start 1; Finish 0; Finish 1]; [Start 0; Start 1; Finish 1; Finish 0];
    [Start 1; Start 0; Finish 0; Finish 1]; [Start 1; Start 0; Finish 1; Finish 0] ].
Definition conts (st : hstate) : list (option content) := map (content_of st) [0; 1; 2; 3; 4]%nat.

Example all_interleavings_agree :
  forallb (fun sc => match par_build Ex.cmd g st1 [4%nat] sc, build_f Ex.cmd g st1 [4%nat] with
                     | Some a, Some b =>
                       forallb (fun n => match content_of a n, content_of b n with
                                         | Some x, Some y => N.eqb x y
                                         | None, None => true
                                         | _, _ => false end) [0; 1; 2; 3; 4]%nat
                     | _, _ => false end) scheds = true.
Proof. vm_compute. reflexivity. Qed.
End ExI.

(* ================================================================== a cascade while another command runs *)
(*   e0  build gen.h : halve a.src   restat = 1      e1  build x.o : cc gen.h
     e2  build y.o   : cc b.src                      e3  build all : phony x.o y.o
     nodes: 0 a.src  1 b.src  2 gen.h  3 x.o  4 y.o  5 all.
   After a first build, a.src 10 -> 11 (gen.h stays 5) and b.src changes.  Second build with -j 2:
   e2 and e0 are started; e0 finishes first, leaves gen.h alone, and CleanNode prunes e1 WHILE e2 is
   running; then e2 finishes: [Start 2; Start 0; Finish 0; Finish 2] is complete, e1 never runs. *)
Module ExR.
Definition g : graph :=
  mkGraph 4
    (fun e => match e with
              | 0%nat => mkEdge [0%nat] 0 0 [2%nat] [] false true false DepsNone 100
              | 1%nat => mkEdge [2%nat] 0 0 [3%nat] [] false false false DepsNone 101
              | 2%nat => mkEdge [1%nat] 0 0 [4%nat] [] false false false DepsNone 102
              | 3%nat => mkEdge [3%nat; 4%nat] 0 0 [5%nat] [] true false false DepsNone 0
              | _ => Ex.dummy
              end)
    (fun n => match n with 2%nat => Some 0%nat | 3%nat => Some 1%nat | 4%nat => Some 2%nat
                         | 5%nat => Some 3%nat | _ => None end)
    (fun _ => false).
Definition nodes : list node := [0; 1; 2; 3; 4; 5]%nat.
Definition st1 : hstate :=
  run_hist_f Ex.cmd g (init_hstate g) [Edit 0 10; Edit 1 20; Build [5%nat]; Edit 0 11; Edit 1 21].
Definition sched : list pevent := [Start 2; Start 0; Finish 0; Finish 2].

Example cascade_while_running :
  frag_AB g && topo_ordered g && no_inputless_phony g = true /\
  h_trace st1 = [2; 1; 0]%nat /\
  seq_sched Ex.cmd g st1 [5%nat] = [Start 0; Finish 0; Start 2; Finish 2] /\
  match par_build_j Ex.cmd g (Some 2%nat) st1 [5%nat] sched, build_f Ex.cmd g st1 [5%nat] with
  | Some a, Some b =>
    h_trace a = [2; 0; 2; 1; 0]%nat /\ h_trace b = [2; 0; 2; 1; 0]%nat /\
    map (content_of a) nodes = map (content_of b) nodes /\
    map (content_of a) nodes = map (clean_of Ex.cmd g a) nodes /\
    (* the recorded mtimes are the start ticks, which differ *)
    h_blog a 4%nat = Some (102%N, 11) /\ h_blog b 4%nat = Some (102%N, 12)
  | _, _ => False
  end /\
  (* e1 may not be started while e0, the producer of its input, is running *)
  par_run Ex.cmd g None st1 [5%nat] [Start 2; Start 0; Start 1] = PInvalid /\
  (* after the cascade e1 is not wanted any more: starting it is refused *)
  par_run Ex.cmd g None st1 [5%nat] [Start 2; Start 0; Finish 0; Start 1] = PInvalid.
Proof. vm_compute. repeat split; reflexivity. Qed.
End ExR.
