(* Declarative side of the scan: the dependency relation cycles are about (C17) and the
   specification of the dirty flags (C03/C01/C02/C10 at scan level).  Definitions only. *)
From NinjaV Require Import Base.Bytes Engine.ScanDefs.
Local Open Scope Z_scope.

Section Spec.
Variable g : graph.
Variable w : world.

(* ------------------------------------------------------------------ the relation of C17 *)
(* what the deps log / the depfile records for an edge (whether or not the scan loads it) *)
Definition recorded_deps (e : edge) : list node :=
  match ei_deps (g_edge g e) with
  | DepsNone => []
  | DepsLog =>
    match ei_outs (g_edge g e) with
    | [] => []
    | o0 :: _ => match w_dlog w o0 with Some (_, l) => l | None => [] end
    end
  | DepsDepfile =>
    match w_depfile w e with DfParsed _ dins => dins | _ => [] end
  end.

(* every input ninja could know: manifest inputs (all three kinds) and recorded deps *)
Definition pot_ins (e : edge) : list node := ei_ins (g_edge g e) ++ recorded_deps e.

(* x -> y : y is an input of the statement producing x *)
Definition step_via (ins : edge -> list node) (x y : node) : Prop :=
  exists e, g_producer g x = Some e /\ In y (ins e).

Inductive walk_via (ins : edge -> list node) : list node -> Prop :=
| walk_one x : walk_via ins [x]
| walk_cons x y l : step_via ins x y -> walk_via ins (y :: l) -> walk_via ins (x :: y :: l).

(* "dependency cycle: p0 -> p1 -> ... -> p0": at least one hop, every hop real, first = last *)
Definition closed_walk_via (ins : edge -> list node) (p : list node) : Prop :=
  walk_via ins p /\ (2 <= length p)%nat /\ hd_error p = Some (last p 0%nat).

Definition closed_walk := closed_walk_via pot_ins.
Definition manifest_ins (e : edge) : list node := ei_ins (g_edge g e).

(* acyclicity of the relation built from [ins] *)
Definition acyclic_via (ins : edge -> list node) : Prop := forall p, ~ closed_walk_via ins p.
Definition acyclic := acyclic_via pot_ins.

(* a ranking of the edges that strictly decreases along the relation (a sufficient, checkable
   witness of acyclicity) *)
Definition ranked_via (ins : edge -> list node) (rank : edge -> nat) : Prop :=
  forall e i e', In i (ins e) -> g_producer g i = Some e' -> (rank e' < rank e)%nat.

(* nodes reachable from the targets through inputs (NOT through validations) *)
Inductive reach_via (ins : edge -> list node) (targets : list node) : node -> Prop :=
| reach_target t : In t targets -> reach_via ins targets t
| reach_step x y : reach_via ins targets x -> step_via ins x y -> reach_via ins targets y.

End Spec.
