(* Declarative side of the scan: the dependency relation cycles are about (C17) and the
   specification of the dirty flags (C03/C01/C02/C10 at scan level).  Definitions only. *)
From NinjaV Require Import Base.Bytes Engine.ScanDefs.
Local Open Scope Z_scope.

Section Spec.
Variable g : graph.
Variable w : world.

(* ------------------------------------------------------------------ the relation of C17 *)
(* what the deps log / the depfile records for an edge (whether or not the scan loads it) *)
Definition recorded_deps (e : edge) : list node :=
  match ei_deps (g_edge g e) with
  | DepsNone => []
  | DepsLog =>
    match ei_outs (g_edge g e) with
    | [] => []
    | o0 :: _ => match w_dlog w o0 with Some (_, l) => l | None => [] end
    end
  | DepsDepfile =>
    match w_depfile w e with DfParsed _ dins => dins | _ => [] end
  end.

(* every input ninja could know: manifest inputs (all three kinds) and recorded deps *)
Definition pot_ins (e : edge) : list node := ei_ins (g_edge g e) ++ recorded_deps e.

(* x -> y : y is an input of the statement producing x *)
Definition step_via (ins : edge -> list node) (x y : node) : Prop :=
  exists e, g_producer g x = Some e /\ In y (ins e).

Inductive walk_via (ins : edge -> list node) : list node -> Prop :=
| walk_one x : walk_via ins [x]
| walk_cons x y l : step_via ins x y -> walk_via ins (y :: l) -> walk_via ins (x :: y :: l).

(* "dependency cycle: p0 -> p1 -> ... -> p0": at least one hop, every hop real, first = last *)
Definition closed_walk_via (ins : edge -> list node) (p : list node) : Prop :=
  walk_via ins p /\ (2 <= length p)%nat /\ hd_error p = Some (last p 0%nat).

Definition closed_walk := closed_walk_via pot_ins.
Definition manifest_ins (e : edge) : list node := ei_ins (g_edge g e).

(* acyclicity of the relation built from [ins] *)
Definition acyclic_via (ins : edge -> list node) : Prop := forall p, ~ closed_walk_via ins p.
Definition acyclic := acyclic_via pot_ins.

(* a ranking of the edges that strictly decreases along the relation (a sufficient, checkable
   witness of acyclicity) *)
Definition ranked_via (ins : edge -> list node) (rank : edge -> nat) : Prop :=
  forall e i e', In i (ins e) -> g_producer g i = Some e' -> (rank e' < rank e)%nat.

(* nodes reachable from the targets through inputs (NOT through validations) *)
Inductive reach_via (ins : edge -> list node) (targets : list node) : node -> Prop :=
| reach_target t : In t targets -> reach_via ins targets t
| reach_step x y : reach_via ins targets x -> step_via ins x y -> reach_via ins targets y.

(* ... and also through validations: the validation targets of every statement met are scanned
   as additional roots (a validation edge itself is NOT part of the cycle relation) *)
Inductive reach_val (targets : list node) : node -> Prop :=
| rv_target t : In t targets -> reach_val targets t
| rv_input x y : reach_val targets x -> step_via manifest_ins x y -> reach_val targets y
| rv_validation x e v :
    reach_val targets x -> g_producer g x = Some e -> In v (ei_vals (g_edge g e)) ->
    reach_val targets v.

(* ------------------------------------------------------------------ the dirty flags *)
(* the inputs that matter for dirtiness: the manifest inputs before the order-only block
   (Edge::is_order_only, with its size_t wrap-around for a stale counter) ... *)
Definition nonoo_ins (e : edge) : list node :=
  let ins := ei_ins (g_edge g e) in
  let noo := ei_noo (g_edge g e) in
  if Nat.ltb (length ins) noo then ins else firstn (length ins - noo) ins.

(* ... and the recorded deps when they are usable: ImplicitDepLoader::LoadDeps decided from the
   files alone (the first output's mtime is the one on disk) *)
Definition spec_load (e : edge) : load_res :=
  match ei_deps (g_edge g e) with
  | DepsNone => LdOk []
  | DepsLog =>
    match ei_outs (g_edge g e) with
    | [] => LdErr
    | o0 :: _ =>
      match w_dlog w o0 with
      | None => LdFail
      | Some (dm, nodes) => if Z.gtb (w_mtime w o0) dm then LdFail else LdOk nodes
      end
    end
  | DepsDepfile =>
    match ei_outs (g_edge g e) with
    | [] => LdErr
    | o0 :: _ =>
      match w_depfile w e with
      | DfMissing | DfEmpty => LdFail
      | DfUnparsable => LdErr
      | DfParsed [] _ => LdErr
      | DfParsed (p :: douts) dins =>
        if negb (Nat.eqb p o0) then LdFail
        else if forallb (fun o => mem_node o (ei_outs (g_edge g e))) (p :: douts) then LdOk dins
        else LdErr
      end
    end
  end.

Definition valid_deps (e : edge) : list node :=
  match spec_load e with LdOk l => l | _ => [] end.
Definition spec_ins (e : edge) : list node := nonoo_ins e ++ valid_deps e.

(* "n is newer than x": the file's mtime, a missing file counting as 0, looking through phony
   statements whose output does not exist (Node::UpdatePhonyMtime).  Least fixed point. *)
Inductive newer_than (x : Z) : node -> Prop :=
| nt_file n : w_mtime w n <> 0 -> x < w_mtime w n -> newer_than x n
| nt_missing n : w_mtime w n = 0 -> x < 0 -> newer_than x n
| nt_phony n e i :
    w_mtime w n = 0 -> g_producer g n = Some e -> ei_phony (g_edge g e) = true ->
    In i (nonoo_ins e) -> newer_than x i -> newer_than x n.

Definition used_restat (e : edge) (o : node) : bool :=
  ei_restat (g_edge g e) && match w_blog w o with Some _ => true | None => false end.

(* why output [o] of a non-phony statement [e] is out of date.
   Independent of the inputs: missing; command line changed (not for generator rules); never
   recorded (not for generator rules). *)
Definition base_reason (e : edge) (o : node) : Prop :=
  w_mtime w o = 0 \/
  match w_blog w o with
  | Some (h, _) => ei_generator (g_edge g e) = false /\ h <> ei_hash (g_edge g e)
  | None => ei_generator (g_edge g e) = false
  end.
(* Given "some input is newer than": the output is older than an input (unless a restat rule
   with a log entry); the recorded mtime is older than an input. *)
Definition time_reason (N : Z -> Prop) (e : edge) (o : node) : Prop :=
  (used_restat e o = false /\ N (w_mtime w o)) \/
  match w_blog w o with
  | Some (_, m) => N m
  | None => False
  end.
Definition out_reason (N : Z -> Prop) (e : edge) (o : node) : Prop :=
  base_reason e o \/ time_reason N e o.

(* the least set of nodes that have to be (re)made *)
Inductive must_dirty : node -> Prop :=
| md_leaf n :
    g_producer g n = None -> w_mtime w n = 0 -> must_dirty n
| md_input n e i :
    g_producer g n = Some e -> In i (spec_ins e) -> must_dirty i -> must_dirty n
| md_phony n e o :
    g_producer g n = Some e -> ei_phony (g_edge g e) = true ->
    ei_ins (g_edge g e) = [] -> ei_vals (g_edge g e) = [] ->
    In o (ei_outs (g_edge g e)) -> w_mtime w o = 0 -> must_dirty n
| md_self n e o :
    g_producer g n = Some e -> ei_phony (g_edge g e) = false ->
    In o (ei_outs (g_edge g e)) ->
    out_reason (fun x => exists i, In i (spec_ins e) /\ newer_than x i) e o -> must_dirty n
| md_deps n e :
    g_producer g n = Some e -> spec_load e = LdFail -> must_dirty n.

(* dirty before the recorded deps are looked at (then ninja only probes them: LoadDepsTry) *)
Definition own_dirty (e : edge) : Prop :=
  (exists i, In i (nonoo_ins e) /\ must_dirty i) \/
  (ei_phony (g_edge g e) = true /\ ei_ins (g_edge g e) = [] /\ ei_vals (g_edge g e) = [] /\
   exists o, In o (ei_outs (g_edge g e)) /\ w_mtime w o = 0) \/
  (ei_phony (g_edge g e) = false /\
   exists o, In o (ei_outs (g_edge g e)) /\
             out_reason (fun x => exists i, In i (nonoo_ins e) /\ newer_than x i) e o).

(* no statement that is dirty for its own reason has a usable recorded dep that is generated and
   has no manifest path (explicit, implicit or order-only) from that statement *)
Definition deps_safe : Prop :=
  forall e i e', own_dirty e -> In i (valid_deps e) -> g_producer g i = Some e' ->
                 In i (ei_ins (g_edge g e)).

(* what a statement needs: its manifest inputs (every kind) and its usable recorded deps *)
Definition need_ins (e : edge) : list node := ei_ins (g_edge g e) ++ valid_deps e.

(* the statements the targets need *)
Inductive needed (targets : list node) : edge -> Prop :=
| needed_target t e : In t targets -> g_producer g t = Some e -> needed targets e
| needed_step e i e' :
    needed targets e -> In i (need_ins e) -> g_producer g i = Some e' -> needed targets e'.

(* well-formedness the specification theorem needs (true of every parsed manifest):
   outputs know their producer and vice versa; statements with deps are not phony and their order-only
   counter is within the vector *)
Definition wf_spec : Prop :=
  (forall e o, In o (ei_outs (g_edge g e)) -> g_producer g o = Some e) /\
  (forall n e, g_producer g n = Some e -> In n (ei_outs (g_edge g e))) /\
  (forall e, ei_deps (g_edge g e) <> DepsNone ->
             ei_phony (g_edge g e) = false /\
             (ei_noo (g_edge g e) <= length (ei_ins (g_edge g e)))%nat).

End Spec.
