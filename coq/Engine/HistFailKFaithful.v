(* The FAITHFUL build loop of HistFaithful.v (want map + Plan::CleanNode after restat commands
   instead of HistDefs.dirty_now's re-scan) for the keep-going invocations of HistFailKDefs.v
   (ninja -k N): [build_stepK_f], [buildFK_f], [apply_kstep_f], [run_khist_f] next to the functions
   without _f.  ONLY definitions and vm_compute Examples; the theorems are in
   HistFailKFaithfulProofs.v.  HistFailKDefs.v is untouched; loop state [kacc], steps [kstep],
   faults and budgets are its own.

   The blocked / budget logic is that of HistFailKDefs.build_stepK, unchanged (Edge::AllInputsReady
   and failures_allowed do not look at the want map).  What changes is case 3, "is the statement
   started": it is started iff it is still wanted when its turn comes and it is real
   ([HistFaithful.dirty_now_f]); a command that succeeds is followed by the restat loop of
   Builder::FinishCommand ([HistFaithful.build_step_f]: restat_clean = Plan::CleanNode); a command
   that fails is not (FinishCommand returns after Plan::EdgeFinished(kEdgeFailed), which returns
   before want_.erase): its want entry stays, the flags of its outputs stay.  The cascade of a later
   restat command may well walk into statements that are blocked (CleanNode does not know about
   failures); they are never started anyway. *)
From NinjaV Require Import Engine.CrashDefs.
From NinjaV Require Import Base.Bytes Engine.ScanDefs Engine.ScanSpec Engine.HistDefs Engine.HistFaithful Engine.HistFailDefs Engine.HistFailKDefs.
Local Open Scope Z_scope.

Section ModelKF.
Variable cmd : edge -> N -> snapshot -> node -> content.
Variable g : graph.

(* the loop state: HistFailKDefs.kacc and what the Plan and the Nodes carry *)
Definition kaccf := (kacc * cst)%type.

Definition build_stepK_f (fs : faults) (af : option kaccf) (e : edge) : option kaccf :=
  match af with
  | None => None
  | Some (a, x) =>
    if blocked_input g (k_blocked a) e
    then Some (mkK (k_st a) (k_failed a) (e :: k_blocked a) (k_budget a), x)
    else if budget_out (k_budget a) then Some (a, x)
    else if dirty_now_f x e && negb (ei_phony (g_edge g e))
    then match fault_of fs e with
         | Some kd => Some (mkK (fail_edge g (k_st a) e kd) ((e, kd, k_st a) :: k_failed a)
                                (e :: k_blocked a) (budget_dec (k_budget a)), x)
         | None =>
           match build_step_f cmd g (Some (k_st a, x)) e with
           | Some (st', x') => Some (mkK st' (k_failed a) (k_blocked a) (k_budget a), x')
           | None => None
           end
         end
    else Some (a, x)
  end.

Definition build_uptoK_f (fs : faults) (s : sstate) (p : plan) (b : option nat) (k : nat) (st : hstate)
  : option kaccf :=
  fold_left (build_stepK_f fs) (seq 0 k) (Some (mkK st [] [] b, init_cst s p)).

(* None: ninja refuses (or, unreachable on acyclic graphs, CleanNode ran out of fuel) *)
Definition buildFK_f (st : hstate) (targets : list node) (fs : faults) (b : option nat) : option kacc :=
  match scan (graph_of g st) (world_of st) targets with
  | ScanOk s p =>
    match build_uptoK_f fs s p b (g_nedges g) st with
    | Some (a, _) => Some a
    | None => None
    end
  | _ => None
  end.

Definition apply_kstep_f (st : hstate) (s : kstep) : hstate :=
  match s with
  | KPlain s => apply_step_f cmd g st s
  | KBuildF targets fs b => match buildFK_f st targets fs b with Some a => k_st a | None => st end
  end.
Definition run_khist_f (st : hstate) (h : list kstep) : hstate := fold_left apply_kstep_f h st.

End ModelKF.

(* ================================================================== the example projects of
   HistFailKDefs (no input-less phony statement): the two loops do the same *)
Module ExKF.
Example same_on_ExChains :
  buildFK_f ExChains.cmd ExChains.g ExChains.st2 [6%nat] ExChains.fs (budget_of_k 0) =
  buildFK ExChains.cmd ExChains.g ExChains.st2 [6%nat] ExChains.fs (budget_of_k 0) /\
  buildFK_f ExChains.cmd ExChains.g ExChains.st2 [6%nat] ExChains.fs (budget_of_k 1) =
  buildFK ExChains.cmd ExChains.g ExChains.st2 [6%nat] ExChains.fs (budget_of_k 1) /\
  buildFK_f ExChains.cmd ExChains.g ExChains.st2 [6%nat] ExChains.fs2 (budget_of_k 2) =
  buildFK ExChains.cmd ExChains.g ExChains.st2 [6%nat] ExChains.fs2 (budget_of_k 2) /\
  ExChains.summary (buildFK_f ExChains.cmd ExChains.g ExChains.st2 [6%nat] ExChains.fs (budget_of_k 0)) =
  Some ([3; 2; 0]%nat, [0%nat], [4; 1; 0]%nat, None, true, [Some 999%N; None; Some 77%N; Some 250%N]).
Proof. vm_compute. repeat split; reflexivity. Qed.

Example same_on_ExDiamond :
  buildFK_f ExChains.cmd ExDiamond.g ExDiamond.st1 [4%nat] [(1%nat, FailDeleted)] None =
  buildFK ExChains.cmd ExDiamond.g ExDiamond.st1 [4%nat] [(1%nat, FailDeleted)] None /\
  match buildFK_f ExChains.cmd ExDiamond.g ExDiamond.st1 [4%nat] [(1%nat, FailDeleted)] None with
  | Some a => h_trace (k_st a) = [2; 1; 0]%nat /\ k_blocked a = [3; 1]%nat /\
              run_khist_f ExChains.cmd ExDiamond.g (k_st a) [KPlain (Build [4%nat])] =
              run_khist ExChains.cmd ExDiamond.g (k_st a) [KPlain (Build [4%nat])]
  | None => False
  end.
Proof. vm_compute. repeat split; reflexivity. Qed.
End ExKF.

(* ================================================================== a restat statement next to a
   failing chain: the cascade of the restat command walks INTO a blocked statement *)
(* nodes: 0 a.src  1 gen  2 b.src  3 x  4 out  5 side
     e0  build gen  : halve a.src          restat = 1   (Ex.cmd: statement 0 halves its input)
     e1  build x    : cc b.src
     e2  build out  : link gen || x        (order-only on x)
     e3  build side : cc gen
   second build after a.src 10 -> 11 (gen unchanged) and an edit of b.src; x fails, -k 0:
   out is blocked (input x), gen's command leaves gen alone, CleanNode(gen) prunes side and -- x being
   order-only -- also walks into the blocked out.  Both loops: e0 runs, e1 fails, nothing else. *)
Module ExKFrestat.
Definition g : graph :=
  mkGraph 4
    (fun e => match e with
              | 0%nat => mkEdge [0%nat] 0 0 [1%nat] [] false true false DepsNone 100
              | 1%nat => mkEdge [2%nat] 0 0 [3%nat] [] false false false DepsNone 101
              | 2%nat => mkEdge [1%nat; 3%nat] 0 1 [4%nat] [] false false false DepsNone 102
              | 3%nat => mkEdge [1%nat] 0 0 [5%nat] [] false false false DepsNone 103
              | _ => Ex.dummy
              end)
    (fun n => match n with 1%nat => Some 0%nat | 3%nat => Some 1%nat | 4%nat => Some 2%nat
                         | 5%nat => Some 3%nat | _ => None end)
    (fun _ => false).
Definition T : list node := [4%nat; 5%nat].
Definition st1 := run_hist Ex.cmd g (init_hstate g) [Edit 0 10; Edit 2 20; Build T; Edit 0 11; Edit 2 21].

Example premises : frag_AB g && topo_ordered g && no_inputless_phony g = true.
Proof. vm_compute. reflexivity. Qed.

Example cascade_into_blocked :
  buildFK_f Ex.cmd g st1 T [(1%nat, FailUntouched)] None = buildFK Ex.cmd g st1 T [(1%nat, FailUntouched)] None /\
  match buildFK_f Ex.cmd g st1 T [(1%nat, FailUntouched)] None with
  | Some a => trace_delta st1 (k_st a) = [1; 0]%nat /\ failed_edges a = [1%nat] /\ k_blocked a = [2; 1]%nat
  | None => False
  end /\
  (* without the fault: e0 and e1 run, side and out (x is order-only) are pruned *)
  match build_f Ex.cmd g st1 T with
  | Some st' => trace_delta st1 st' = [1; 0]%nat
  | None => False
  end.
Proof. vm_compute. repeat split; reflexivity. Qed.
End ExKFrestat.

(* ================================================================== with an input-less phony
   statement the loops differ: HistFaithful.ExF
     e0  build always : phony          e1  build gen : r1 always src   (restat)
     e2  build out    : r2 gen         nodes: 0 src  1 always  2 gen  3 out
   second build, a fault on [out], -k 0: the original loop starts out and fails; ninja prunes out
   after gen's command left gen untouched and never starts it: no failure, exit status 0 *)
Module ExKFdiff.
Definition g := HistFaithful.ExF.g.
Definition st1 := HistFaithful.ExF.st1.

Example keep_going_differs_with_inputless_phony :
  frag_AB g && topo_ordered g = true /\ no_inputless_phony g = false /\
  match buildFK Ex.cmd g st1 [3%nat] [(2%nat, FailUntouched)] None with
  | Some a => trace_delta st1 (k_st a) = [2; 1]%nat /\ failed_edges a = [2%nat] /\ exit_failedK a = true
  | None => False
  end /\
  match buildFK_f Ex.cmd g st1 [3%nat] [(2%nat, FailUntouched)] None with
  | Some a => trace_delta st1 (k_st a) = [1%nat] /\ failed_edges a = [] /\ exit_failedK a = false
  | None => False
  end.
Proof. vm_compute. repeat split; reflexivity. Qed.
End ExKFdiff.
