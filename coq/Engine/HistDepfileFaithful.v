(* The faithful build loop of HistFaithful.v (want map + Plan::CleanNode from the restat loop of
   Builder::FinishCommand) for the depfile-only model HistDepfileDefs.v: [fbuild_f] next to
   [fbuild].  ONLY definitions and vm_compute Examples; theorems are in
   HistDepfileFaithfulProofs.v.  HistDepfileDefs.v / HistDepfileProofs.v are untouched.

   The scheme is that of HistDepsFaithful.dbuild_step_f: [HistFaithful.clean_node] works on what
   the scan left in memory ([es_ins]: the manifest inputs plus the depfile's inputs iff the scan
   loaded the depfile; [es_deps_missing]) and on the build log; it reads neither the deps log nor
   a depfile.  One command is [HistDepfileDefs.frun_edge]; the scan is [fscan]; the build log the
   cascade consults is that of [world_of_f]. *)
From NinjaV Require Import Engine.CrashDefs.
From NinjaV Require Import Base.Bytes Engine.ScanDefs Engine.ScanSpec Engine.HistDefs Engine.HistFaithful Engine.HistDepsDefs Engine.HistDepfileDefs.
Local Open Scope Z_scope.

Section ModelFFd.
Variable cmd : edge -> N -> snapshot -> node -> content.
Variable g : graph.
Variable hid : edge -> list node.

Definition fbuild_step_f (a : option (fstate * cst)) (e : edge) : option (fstate * cst) :=
  match a with
  | None => None
  | Some (fs, x) =>
    if dirty_now_f x e && negb (ei_phony (g_edge g e)) then
      let fs' := frun_edge cmd g hid fs e in
      match restat_clean (graph_of g (f_h fs')) (world_of_f g fs') e (mkC (c_s x) (unwant (c_want x) e)) with
      | Some x' => Some (fs', x')
      | None => None
      end
    else Some (fs, x)
  end.

Definition fbuild_upto_f (s : sstate) (p : plan) (k : nat) (fs : fstate) : option (fstate * cst) :=
  fold_left fbuild_step_f (seq 0 k) (Some (fs, init_cst s p)).

(* None: ninja refuses (or, unreachable on acyclic graphs, CleanNode ran out of fuel) *)
Definition fbuild_f (fs : fstate) (targets : list node) : option fstate :=
  match fscan g fs targets with
  | ScanOk s p =>
    match fbuild_upto_f s p (g_nedges g) fs with
    | Some (fs', _) => Some fs'
    | None => None
    end
  | _ => None
  end.

Definition fapply_step_f (fs : fstate) (x : fstep) : fstate :=
  match x with
  | FS (Build targets) => match fbuild_f fs targets with Some fs' => fs' | None => fs end
  | _ => fapply_step cmd g hid fs x
  end.

Definition frun_hist_f (fs : fstate) (h : list fstep) : fstate := fold_left fapply_step_f h fs.

End ModelFFd.

(* ================================================================== HistDepsFaithful.ExDF with a depfile-only statement *)
(*   e0  build gen : r0 src        restat = 1, depfile = gen.d; the command also reads h (a source header)
     e1  build out : r1 gen
   nodes: 0 src  1 h  2 gen  3 out.  Build; remove h; build (gen changes, out follows); build again:
   the depfile lists h, a missing file without a rule, so [gen] is dirty in every scan; its command
   leaves it untouched now.  ninja: CleanNode(gen) prunes [out]: ONE command.
   HistDepfileDefs.fbuild re-scans, finds [gen] dirty again and re-runs [out] too: TWO. *)
Module ExFDF.
Definition g : graph :=
  mkGraph 2
    (fun e => match e with
              | 0%nat => mkEdge [0%nat] 0 0 [2%nat] [] false true false DepsDepfile 100
              | 1%nat => mkEdge [2%nat] 0 0 [3%nat] [] false false false DepsNone 101
              | _ => Ex.dummy
              end)
    (fun n => match n with 2%nat => Some 0%nat | 3%nat => Some 1%nat | _ => None end)
    (fun n => match n with 1%nat => true | _ => false end).
Definition hid (e : edge) : list node := match e with 0%nat => [1%nat] | _ => [] end.

Definition pre0 : list hstep := [Edit 0 1; Edit 1 2; Build [3%nat]; Delete 1; Build [3%nat]].
Definition pre : list fstep := map FS pre0.
Definition fs2 := frun_hist Ex.cmd g hid (init_fstate g) pre.
Definition fs2f := frun_hist_f Ex.cmd g hid (init_fstate g) pre.

Example faithful_prunes_below_missing_dep :
  frag_ABF g hid = true /\ fs2f = fs2 /\
  (* up to here the two loops agree: gen out | gen out *)
  h_trace (f_h fs2) = [1; 0; 1; 0]%nat /\ f_df fs2 0%nat = Some [1%nat] /\
  hidden_srcs_present g hid (f_h fs2) = false /\
  (* the third build, most recent first *)
  h_trace (f_h (fapply_step Ex.cmd g hid fs2 (FS (Build [3%nat])))) = [1; 0; 1; 0; 1; 0]%nat /\
  h_trace (f_h (fapply_step_f Ex.cmd g hid fs2 (FS (Build [3%nat])))) = [0; 1; 0; 1; 0]%nat /\
  map (content_of (f_h (fapply_step Ex.cmd g hid fs2 (FS (Build [3%nat]))))) [0; 1; 2; 3]%nat
  = map (content_of (f_h (fapply_step_f Ex.cmd g hid fs2 (FS (Build [3%nat]))))) [0; 1; 2; 3]%nat /\
  f_df (fapply_step Ex.cmd g hid fs2 (FS (Build [3%nat]))) 0%nat
  = f_df (fapply_step_f Ex.cmd g hid fs2 (FS (Build [3%nat]))) 0%nat.
Proof. vm_compute. repeat split; reflexivity. Qed.

(* on the projects of HistDepfileDefs the two loops do the same (the user removes a depfile in the
   second history) *)
Example same_on_ExF :
  f_h (frun_hist_f ExF.cmd ExF.g ExF.hid ExF.fs0 ExF.hist) = f_h (frun_hist ExF.cmd ExF.g ExF.hid ExF.fs0 ExF.hist) /\
  f_df (frun_hist_f ExF.cmd ExF.g ExF.hid ExF.fs0 ExF.hist) 1%nat = Some [2%nat; 5%nat] /\
  f_h (frun_hist_f ExF.cmd ExF.g ExF.hid ExF.built [DeleteDepfile 1%nat; FS (Build [4%nat])]) =
  f_h (frun_hist ExF.cmd ExF.g ExF.hid ExF.built [DeleteDepfile 1%nat; FS (Build [4%nat])]) /\
  f_h (frun_hist_f ExRestatPruneF.cmd ExRestatPruneF.g ExRestatPruneF.hid (init_fstate ExRestatPruneF.g) (map FS ExRestatPruneF.hist0)) =
  f_h ExRestatPruneF.fs_end.
Proof. vm_compute. repeat split; reflexivity. Qed.
End ExFDF.
