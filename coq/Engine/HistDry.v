(* C19, the dry-run clause, on the history model of HistDefs.v (fragment AB).

   `ninja -n` runs the same scan and builds the same plan as a real invocation, then "executes" it
   with DryRunCommandRunner: every wanted command is reported and finishes at once, nothing is
   written (no output, no lock file, no directory, no response file), the logs are not opened for
   writing (ninja.cc OpenBuildLog/OpenDepsLog) and Builder::FinishCommand skips the restat block
   (`if (!config_.dry_run)`), so no statement is pruned: the listing is the set of wanted non-phony
   statements, in an order that respects dependencies (here: the edge order, [topo_ordered]).

   [dry_build] is that invocation.  Proved here:
     - the state is untouched, hence any later step behaves as if the dry run had not happened;
     - a dry run is accepted exactly when the real build is (same scan);
     - the commands a real build runs are a SUBSEQUENCE of the dry-run listing (superset clause,
       restat pruning is the only source of difference: [dry_list_split]);
     - the listing mentions wanted, non-phony statements only, each once, in edge order.
   Exactness without restat pruning is proved in HistMinimal/… (it needs the LogSound invariant). *)
From NinjaV Require Import Engine.CrashDefs.
From NinjaV Require Import Base.Bytes Engine.ScanDefs Engine.ScanSpec Engine.HistDefs Engine.HistProofs.
From Coq Require Import Sorting.Sorted.
Local Open Scope Z_scope.

Section Dry.
Variable cmd : edge -> N -> snapshot -> node -> content.
Variable g : graph.

Definition listed (p : plan) (e : edge) : bool :=
  want_start p e && negb (ei_phony (g_edge g e)).

Definition dry_list (p : plan) : list edge := filter (listed p) (seq 0 (g_nedges g)).

(* one `ninja -n targets`: the new state (unchanged) and the commands it prints *)
Definition dry_build (st : hstate) (targets : list node) : option (hstate * list edge) :=
  match scan (graph_of g st) (world_of st) targets with
  | ScanOk _ p => Some (st, dry_list p)
  | _ => None
  end.

(* subsequence *)
Inductive subseq {A : Type} : list A -> list A -> Prop :=
| subseq_nil : subseq [] []
| subseq_skip : forall x l1 l2, subseq l1 l2 -> subseq l1 (x :: l2)
| subseq_take : forall x l1 l2, subseq l1 l2 -> subseq (x :: l1) (x :: l2).

Lemma subseq_refl {A : Type} (l : list A) : subseq l l.
Proof. induction l as [|x l IH]; [constructor|apply subseq_take; exact IH]. Qed.

Lemma subseq_app {A : Type} (a1 a2 b1 b2 : list A) :
  subseq a1 a2 -> subseq b1 b2 -> subseq (a1 ++ b1) (a2 ++ b2).
Proof.
  intros Ha Hb. induction Ha as [|x l1 l2 Ha IH|x l1 l2 Ha IH]; cbn [app].
  - exact Hb.
  - apply subseq_skip. exact IH.
  - apply subseq_take. exact IH.
Qed.

Lemma subseq_In {A : Type} (l1 l2 : list A) x : subseq l1 l2 -> In x l1 -> In x l2.
Proof.
  intros H. induction H as [|y l1 l2 H IH|y l1 l2 H IH]; intros Hin.
  - exact Hin.
  - right. apply IH. exact Hin.
  - destruct Hin as [->|Hin]; [left; reflexivity|right; apply IH; exact Hin].
Qed.

(* ---- the trace of one command *)
Lemma run_edge_trace st e : h_trace (run_edge cmd g st e) = e :: h_trace st.
Proof.
  unfold run_edge, finish_run, record. cbn [h_trace].
  f_equal.
  pose proof (write_outs_spec (ei_restat (g_edge g e))
                (cmd e (h_hash st e) (reads g st e)) (ei_outs (g_edge g e)) (tick st)) as H.
  cbn zeta in H. destruct H as [_ [_ [_ [Ht _]]]]. rewrite Ht. reflexivity.
Qed.

Lemma build_step_trace p st e :
  h_trace (build_step cmd g p st e) = h_trace st \/
  (listed p e = true /\ h_trace (build_step cmd g p st e) = e :: h_trace st).
Proof.
  unfold build_step, listed.
  destruct (want_start p e && negb (ei_phony (g_edge g e)) && dirty_now g st e)%bool eqn:E.
  - right. apply andb_true_iff in E. destruct E as [E _]. split; [exact E|apply run_edge_trace].
  - left. reflexivity.
Qed.

(* the commands run over the edges [l], oldest first *)
Lemma fold_build_trace p : forall l st,
  exists run, h_trace (fold_left (build_step cmd g p) l st) = rev run ++ h_trace st /\
              subseq run (filter (listed p) l).
Proof.
  induction l as [|e l IH]; intros st; cbn [fold_left filter].
  - exists []. split; [reflexivity|constructor].
  - destruct (IH (build_step cmd g p st e)) as [run [Ht Hs]].
    destruct (build_step_trace p st e) as [Hsame|[Hl Hrun]].
    + exists run. split; [rewrite Ht, Hsame; reflexivity|].
      destruct (listed p e); [apply subseq_skip; exact Hs|exact Hs].
    + exists (e :: run). split.
      * rewrite Ht, Hrun. cbn [rev]. rewrite <- app_assoc. reflexivity.
      * rewrite Hl. apply subseq_take. exact Hs.
Qed.

(* ---- the theorems *)

(* the dry run leaves the state (disk, clock, both logs, ghost fields) as it found it *)
Theorem dry_undisturbed_proof st T st' l : dry_build st T = Some (st', l) -> st' = st.
Proof.
  unfold dry_build. destruct (scan (graph_of g st) (world_of st) T); intros H; try discriminate.
  inversion H. reflexivity.
Qed.

(* so whatever follows behaves as if it had not run: for every continuation of the history *)
Theorem dry_then_history_proof st T st' l h :
  dry_build st T = Some (st', l) -> run_hist cmd g st' h = run_hist cmd g st h.
Proof. intros H. rewrite (dry_undisturbed_proof _ _ _ _ H). reflexivity. Qed.

(* accepted by -n iff accepted by the real build *)
Theorem dry_accepts_iff_proof st T :
  (exists r, dry_build st T = Some r) <-> (exists st', build cmd g st T = Some st').
Proof.
  unfold dry_build, build. destruct (scan (graph_of g st) (world_of st) T); split; intros [r H];
    try discriminate; eexists; reflexivity.
Qed.

(* superset clause: the commands of the real build, oldest first, are a subsequence of the listing *)
Theorem dry_superset_proof st T st' :
  build cmd g st T = Some st' ->
  exists l run, dry_build st T = Some (st, l) /\
                h_trace st' = rev run ++ h_trace st /\ subseq run l.
Proof.
  unfold build, dry_build. destruct (scan (graph_of g st) (world_of st) T) as [c|n d|e0| |s p] eqn:E;
    intros H; try discriminate.
  inversion H as [H1]. unfold build_upto.
  destruct (fold_build_trace p (seq 0 (g_nedges g)) st) as [run [Ht Hs]].
  exists (dry_list p), run. split; [reflexivity|]. split; [exact Ht|exact Hs].
Qed.

(* every listed statement is wanted and not phony; the listing is strictly increasing in the edge
   order, which [topo_ordered] makes a dependency order *)
Theorem dry_list_sound_proof p e : In e (dry_list p) -> want_start p e = true /\ ei_phony (g_edge g e) = false.
Proof.
  unfold dry_list. intros H. apply filter_In in H. destruct H as [_ H]. unfold listed in H.
  apply andb_true_iff in H. destruct H as [H1 H2]. split; [exact H1|].
  destruct (ei_phony (g_edge g e)); [discriminate|reflexivity].
Qed.

Lemma filter_seq_sorted (f : nat -> bool) : forall n a, StronglySorted lt (filter f (seq a n)).
Proof.
  induction n as [|n IH]; intros a; cbn [seq filter]; [constructor|].
  destruct (f a).
  - constructor; [apply IH|]. apply Forall_forall. intros x Hx. apply filter_In in Hx.
    destruct Hx as [Hx _]. apply in_seq in Hx. lia.
  - apply IH.
Qed.

Theorem dry_list_ordered_proof p : StronglySorted lt (dry_list p).
Proof. apply filter_seq_sorted. Qed.

(* where the two differ, exactly: statement [e] is run iff it is listed AND the restat re-evaluation
   (its dirty test on the world at its turn) still says dirty *)
Definition ran (p : plan) (st : hstate) (e : edge) : bool :=
  listed p e && dirty_now g (build_upto cmd g p e st) e.

Lemma build_upto_S p k st :
  build_upto cmd g p (S k) st = build_step cmd g p (build_upto cmd g p k st) k.
Proof. unfold build_upto. rewrite seq_S, fold_left_app. reflexivity. Qed.

Lemma build_upto_trace_exact p st : forall k,
  h_trace (build_upto cmd g p k st) = rev (filter (ran p st) (seq 0 k)) ++ h_trace st.
Proof.
  induction k as [|k IH]; [reflexivity|].
  rewrite build_upto_S, seq_S, filter_app, rev_app_distr. cbn [filter Nat.add].
  unfold build_step. unfold ran at 1. unfold listed.
  destruct (want_start p k && negb (ei_phony (g_edge g k)) && dirty_now g (build_upto cmd g p k st) k)%bool.
  - rewrite run_edge_trace, IH. reflexivity.
  - rewrite IH. reflexivity.
Qed.

Lemma filter_subseq {A : Type} (f h : A -> bool) :
  (forall x, f x = true -> h x = true) -> forall l, subseq (filter f l) (filter h l).
Proof.
  intros Hfh. induction l as [|x l IH]; cbn [filter]; [constructor|].
  destruct (f x) eqn:Ef.
  - rewrite (Hfh x Ef). apply subseq_take. exact IH.
  - destruct (h x); [apply subseq_skip; exact IH|exact IH].
Qed.

Theorem dry_difference_exact_proof st T st' :
  build cmd g st T = Some st' ->
  exists s p, scan (graph_of g st) (world_of st) T = ScanOk s p /\
    dry_build st T = Some (st, dry_list p) /\
    h_trace st' = rev (filter (ran p st) (seq 0 (g_nedges g))) ++ h_trace st /\
    (forall e, In e (dry_list p) ->
       In e (filter (ran p st) (seq 0 (g_nedges g))) \/
       dirty_now g (build_upto cmd g p e st) e = false).
Proof.
  unfold build, dry_build. destruct (scan (graph_of g st) (world_of st) T) as [c|n d|e0| |s p] eqn:E;
    intros H; try discriminate.
  inversion H as [H1]. exists s, p. split; [reflexivity|]. split; [reflexivity|].
  split; [apply build_upto_trace_exact|].
  intros e He. unfold dry_list in He. apply filter_In in He. destruct He as [Hin Hl].
  destruct (dirty_now g (build_upto cmd g p e st) e) eqn:Ed; [left|right; reflexivity].
  apply filter_In. split; [exact Hin|]. unfold ran. rewrite Hl, Ed. reflexivity.
Qed.

End Dry.

(* ---- non-vacuity on the example of HistDefs: after `a.src` changes, the restat statement e0 leaves
   its output alone; the dry run lists e0, e1, e2, the real build runs e0 only *)
Module ExDry.
Import HistDefs.Ex.
Definition st5 := run_hist cmd g st0 (firstn 4 hist5).
Example dry_lists_more_than_runs :
  match dry_build g st5 [5%nat], build cmd g st5 [5%nat] with
  | Some (st', l), Some st'' =>
      (l, firstn (length (h_trace st'') - length (h_trace st5)) (h_trace st''))
  | _, _ => ([], [])
  end = ([0%nat; 1%nat; 2%nat], [0%nat]).
Proof. vm_compute. reflexivity. Qed.
End ExDry.
