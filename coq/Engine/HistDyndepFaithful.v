(* The dyndep invocation of HistDyndepDefs.v with the mid-build load done the way ninja does it.
   ONLY definitions and vm_compute Examples; theorems are in HistDyndepFaithfulProofs.v.
   HistDyndepDefs.v / HistDyndepProofs.v are untouched: [ybuild_ff] is a third invocation over the same
   state, steps and ground truth, next to [ybuild] (re-evaluation, theorems) and [ybuild_f] (CleanNode
   machinery, but a FRESH scan from the targets at a mid-build load).

   The tie against the engine (tools/histmodel.py --dyndep) found two places where [ybuild_f] is not ninja:
   (1) its re-scan at a mid-build load judges every statement again; ninja re-scans only the dependents of
       the dyndep node;  (2) when the load fails, the command that produced the file is not logged.

   What ninja does (src/build.cc, line numbers of the pinned tree):
   * Plan::EdgeFinished(edge, kEdgeSucceeded) (202-237) erases the edge from want_, sets outputs_ready_,
     calls Builder::LoadDyndeps(edge) (226; 1101-1120) and then NodeFinished for every output.  It is
     called for a command that succeeded (Builder::FinishCommand, 1000), for a phony edge that was started
     (Builder::Build, 763-764), AND for an edge that is in want_ with kWantNothing as soon as all its inputs
     are ready (Plan::EdgeMaybeReady, 257-268: "we do not need to build this edge, but we might need to
     build one of its dependents").  So a dyndep file is loaded mid-build exactly when its producer is IN
     THE PLAN and is finished: it ran, or it was clean / was pruned by Plan::CleanNode and its inputs became
     ready.  A producer that is not in want_ is never finished and loads nothing.  [ff_plan] is the domain
     of want_; [ffstep] finishes statement [k] at its turn iff [ff_plan c k].
   * Builder::LoadDyndeps: DyndepLoader::UpdateEdge for every statement bound to a pending file among the
     outputs ([update_edges]: Edge::inputs_ of the live graph), then Plan::DyndepsLoaded (327-402):
     - RefreshDyndepDependents (404-455): UnmarkDependents (457-475) from the dyndep nodes: the out-edges
       that are in want_ get mark_ = VisitNone, transitively through their outputs ([unmark]); every
       dependent node is re-scanned with DependencyScan::RecomputeDirty on the LIVE node and edge states
       ([ScanDefs.recompute_dirty] on the kept [sstate]: a statement visited before keeps a dirty verdict,
       [was_loaded] / [rev_dirty]; statements that were not unmarked are not looked at again; finished
       statements are outputs_ready_, [apply_fin]); a dependent found dirty whose statement is kWantNothing
       becomes kWantToStart ([refresh]).  Nothing else is touched.
     - the statements that got information, are in want_ and are not ready: Plan::AddSubTarget for each of
       their dyndep inputs ([add_roots]: [ScanDefs.add_sub_target] on a plan rebuilt from [ff_plan] and
       the want flags; the dyndep_walk argument only matters for kWantToFinish entries, which a sequential
       run does not have at that moment).
     - EdgeMaybeReady for the walk: the pass is restarted from statement 0, as in HistDyndepDefs.
   * A failing load (a cycle; "missing and no known rule" for an input the file names) makes
     Plan::EdgeFinished return false: Builder::FinishCommand returns at line 1000, BEFORE
     BuildLog::RecordCommand (1026): the outputs of the command are written, its log entry is not
     ([run_unlogged]); the build fails.
   Not modelled: validations met by the re-scan (outside the fragment); a statement visited for the FIRST
   time by the re-scan that is itself bound to another pending file whose producer is ready (ninja would
   load that file inside RecomputeNodeDirty; here it is scanned without it).  Plan::CleanNode skips edges
   erased from want_; here a finished phony statement keeps its want flag in the [cst] (so that the state
   is literally HistFaithful's when nothing is loaded mid-build), which CleanNode cannot reach any more:
   all its inputs were ready when it finished.  [ff_plan] is the authority wherever want_ is consulted. *)
From NinjaV Require Import Engine.CrashDefs.
From NinjaV Require Import Base.Bytes Engine.ScanDefs Engine.ScanSpec Engine.HistDefs Engine.HistFaithful Engine.HistDyndepDefs.
Local Open Scope Z_scope.

Inductive fres :=
| FRefused                    (* nothing was run *)
| FFailed (st : hstate)       (* a mid-build load failed: the build stops with an error *)
| FDone (st : hstate)
| FOutOfFuel (st : hstate).   (* CleanNode / UnmarkDependents / AddSubTarget / the passes ran out of fuel *)

Definition yres_of (r : fres) : yres :=
  match r with
  | FRefused => YRefused
  | FFailed st => YFailed st
  | FDone st => YDone st
  | FOutOfFuel st => YFailed st
  end.

Record ffst := mkFF {
  ff_st : hstate;
  ff_L : list node;            (* dyndep files loaded so far *)
  ff_x : cst;                  (* Node / Edge states and the kWantToStart flags *)
  ff_plan : edge -> bool;      (* the domain of Plan::want_ *)
  ff_fin : edge -> bool;       (* outputs_ready_ set by Plan::EdgeFinished in this invocation *)
  ff_stop : bool
}.
Inductive ffrun := FFRun (c : ffst) | FFFail (st : hstate) | FFFuel (st : hstate).

Inductive ldres := LdDone (x : cst) (plan : edge -> bool) | LdFailed | LdFuel.

Definition mark_none (m : mark) : bool := match m with VisitNone => true | _ => false end.

Section ModelFF.
Variable cmd : edge -> N -> snapshot -> node -> content.
Variable g : graph.
Variable y : dyninfo.

(* ------------------------------------------------------------------ the pieces of a load *)
Definition bound_new (new : list node) (e : edge) : bool :=
  match y_bind y e with Some dd => mem_node dd new | None => false end.

(* outputs_ready_ = true for the statements Plan::EdgeFinished has finished *)
Definition apply_fin (s : sstate) (fin : edge -> bool) : sstate :=
  fold_left (fun s e => if fin e then set_ready s e true else s) (seq 0 (g_nedges g)) s.

(* DyndepLoader::UpdateEdge on the live edges: inputs spliced in before the order-only block *)
Definition update_edges (s : sstate) (new : list node) : sstate :=
  fold_left (fun s e =>
    if bound_new new e
    then set_ins s e (splice (es_ins (st_edge s e)) (ei_noo (g_edge g e)) (y_ins y e))
                 (es_nimp (st_edge s e) + length (y_ins y e))%nat
    else s) (seq 0 (g_nedges g)) s.

(* Plan::UnmarkDependents *)
Fixpoint unmark (fuel : nat) (G : graph) (inplan : edge -> bool) (n : node) (a : sstate * list node)
  : option (sstate * list node) :=
  match fuel with
  | O => None
  | S f =>
    ofold (fun e (a1 : sstate * list node) =>
      if inplan e && negb (mark_none (es_mark (st_edge (fst a1) e))) then
        ofold (fun o (a2 : sstate * list node) =>
                 if mem_node o (snd a2) then Some a2
                 else unmark f G inplan o (fst a2, snd a2 ++ [o]))
              (ei_outs (g_edge G e)) (set_mark (fst a1) e VisitNone, snd a1)
      else Some a1)
      (out_edges G (fst a) n) a
  end.

(* the loop of RefreshDyndepDependents over the dependents; [wt] = kWantToStart *)
Inductive rfres := RfOk (s : sstate) (wt : edge -> bool) | RfErr | RfFuel.

Fixpoint refresh (G : graph) (w : world) (inplan : edge -> bool) (deps : list node)
         (s : sstate) (wt : edge -> bool) : rfres :=
  match deps with
  | [] => RfOk s wt
  | n :: deps' =>
    match recompute_dirty G w s n with
    | SOk (s', _) =>
      let wt' := if ns_dirty (st_node s' n)
                 then match g_producer G n with
                      | Some e => if inplan e then (fun e' => if Nat.eqb e' e then true else wt e') else wt
                      | None => wt
                      end
                 else wt in
      refresh G w inplan deps' s' wt'
    | SOutOfFuel => RfFuel
    | _ => RfErr
    end
  end.

(* Plan::want_ as a ScanDefs.plan, and back *)
Definition plan_of (inplan wt : edge -> bool) : plan :=
  mkP (fun e => if inplan e then Some (if wt e then WantToStart else WantNothing) else None) 0 0.

(* the walk over the dyndep-discovered inputs of the statements that got information *)
Inductive arres := ArOk (p : plan) | ArErr | ArFuel.

Fixpoint add_ins (G : graph) (s : sstate) (dependent : node) (ins : list node) (p : plan) : arres :=
  match ins with
  | [] => ArOk p
  | i :: ins' =>
    match add_sub_target G (plan_fuel G) s (Some dependent) i p with
    | None => ArFuel
    | Some (false, Some _, _) => ArErr
    | Some (_, _, p') => add_ins G s dependent ins' p'
    end
  end.

Fixpoint add_roots (G : graph) (s : sstate) (roots : list edge) (p : plan) : arres :=
  match roots with
  | [] => ArOk p
  | e :: es' =>
    match add_ins G s (hd 0%nat (ei_outs (g_edge G e))) (y_ins y e) p with
    | ArOk p' => add_roots G s es' p'
    | r => r
    end
  end.

(* dyndep_roots: the statements that got information, are in want_ and are not ready (computed BEFORE the walk) *)
Definition dd_roots (s : sstate) (inplan : edge -> bool) (new : list node) : list edge :=
  filter (fun e => bound_new new e && negb (es_ready (st_edge s e)) && inplan e) (seq 0 (g_nedges g)).

Definition unmark_fuel : nat := S (S (g_nedges g)).

(* Builder::LoadDyndeps + Plan::DyndepsLoaded; [G] is the graph after the load, [w] the current world *)
Definition load_ff (G : graph) (w : world) (x : cst) (inplan fin : edge -> bool) (new : list node) : ldres :=
  let s1 := update_edges (apply_fin (c_s x) fin) new in
  match ofold (fun dd a => unmark unmark_fuel G inplan dd a) new (s1, []) with
  | None => LdFuel
  | Some (s2, deps) =>
    match refresh G w inplan deps s2 (fun e => inplan e && c_want x e) with
    | RfFuel => LdFuel
    | RfErr => LdFailed
    | RfOk s3 wt =>
      match add_roots G s3 (dd_roots s3 inplan new) (plan_of inplan wt) with
      | ArFuel => LdFuel
      | ArErr => LdFailed
      | ArOk p => LdDone (mkC s3 (want_start p))
                         (fun e => match p_want p e with Some _ => true | None => false end)
      end
    end
  end.

(* the command ran and wrote its outputs; FinishCommand returned before the log entry was written *)
Definition run_unlogged (G : graph) (st : hstate) (e : edge) : hstate :=
  let st2 := write_outs (ei_restat (g_edge G e)) (cmd e (h_hash st e) (reads G st e))
                        (ei_outs (g_edge G e)) (tick st) in
  mkH (h_disk st2) (h_clock st2) (h_blog st2) (h_hash st2) (h_ghost st2) (e :: h_trace st2).

(* ------------------------------------------------------------------ the loop *)
Definition ffstep (T : list node) (r : ffrun) (k : edge) : ffrun :=
  match r with
  | FFRun c =>
    if ff_stop c || negb (ff_plan c k) then r
    else
      let st := ff_st c in
      let L := ff_L c in
      let G := gl g y L in
      let x := ff_x c in
      let run := c_want x k && negb (ei_phony (g_edge G k)) in
      let st1 := if run then run_edge cmd G st k else st in
      match (if run then restat_clean (graph_of G st1) (world_of st1) k (mkC (c_s x) (unwant (c_want x) k))
             else Some x) with
      | None => FFFuel st1
      | Some x1 =>
        (* Plan::EdgeFinished: erased from want_, outputs_ready_ = true, then the loads *)
        let plan1 := unwant (ff_plan c) k in
        let fin1 := fun e => Nat.eqb e k || ff_fin c e in
        match pending_of g y L k with
        | [] => FFRun (mkFF st1 L x1 plan1 fin1 false)
        | new =>
          let L' := L ++ new in
          match load_ff (graph_of (gl g y L') st1) (world_of st1) x1 plan1 fin1 new with
          | LdDone x2 plan2 => FFRun (mkFF st1 L' x2 plan2 fin1 true)
          | LdFailed => FFFail (if run then run_unlogged G st k else st)
          | LdFuel => FFFuel st1
          end
        end
      end
  | _ => r
  end.

Definition ffpass (T : list node) (c : ffst) : ffrun :=
  fold_left (ffstep T) (seq 0 (g_nedges g))
            (FFRun (mkFF (ff_st c) (ff_L c) (ff_x c) (ff_plan c) (ff_fin c) false)).

Fixpoint ffpasses (T : list node) (fuel : nat) (c : ffst) : ffrun :=
  match fuel with
  | O => FFRun c
  | S f =>
    match ffpass T c with
    | FFRun c' => if ff_stop c' then ffpasses T f c' else FFRun c'
    | r => r
    end
  end.

Definition ybuild_ff (st : hstate) (T : list node) : fres :=
  let L0 := scan_loads g y st in
  match scan (graph_of (gl g y L0) st) (world_of st) T with
  | ScanOk s p =>
    if dd_src_missing g y st s then FRefused
    else match ffpasses T (pass_fuel y)
                 (mkFF st L0 (init_cst s p)
                       (fun e => match p_want p e with Some _ => true | None => false end)
                       (fun _ => false) false) with
         | FFRun c => if ff_stop c then FOutOfFuel (ff_st c) else FDone (ff_st c)
         | FFFail st' => FFailed st'
         | FFFuel st' => FOutOfFuel st'
         end
  | _ => FRefused
  end.

Definition yapply_step_ff (st : hstate) (x : hstep) : hstate :=
  match x with
  | Build T => match ybuild_ff st T with
               | FDone st' => st' | FFailed st' => st' | FOutOfFuel st' => st' | FRefused => st
               end
  | _ => apply_step cmd g st x
  end.

Definition yrun_hist_ff (st : hstate) (h : list hstep) : hstate := fold_left yapply_step_ff h st.

End ModelFF.

(* ================================================================== the projects of HistDyndepDefs *)
Module ExFF.
Definition runs := ExReplay.runs.

Example replay_ff :
  runs (yapply_step_ff ExReplay.cmd ExReplay.g ExReplay.y) (init_hstate ExReplay.g) ExReplay.hist
  = [[0]; [2; 1; 0]; []; [1; 0]; [1; 0]; [1; 0]; []; []; []]%nat.
Proof. vm_compute. reflexivity. Qed.

Example exy_ff :
  let sf := yrun_hist_ff ExY.cmd ExY.g ExY.y (init_hstate ExY.g) ExY.hist in
  let sy := yrun_hist ExY.cmd ExY.g ExY.y (init_hstate ExY.g) ExY.hist in
  h_trace sf = h_trace sy /\ ExY.contents sf = ExY.contents sy /\ h_clock sf = h_clock sy /\
  map (h_blog sf) ExY.nodes = map (h_blog sy) ExY.nodes.
Proof. vm_compute. repeat split; reflexivity. Qed.

Example exy_source_ff :
  let sf := yrun_hist_ff ExY.cmd ExY.gs ExY.y (init_hstate ExY.gs) ExY.hist_s in
  let sy := yrun_hist ExY.cmd ExY.gs ExY.y (init_hstate ExY.gs) ExY.hist_s in
  h_trace sf = h_trace sy /\ ExY.contents sf = ExY.contents sy /\ h_clock sf = h_clock sy.
Proof. vm_compute. repeat split; reflexivity. Qed.

Example exlate_ff :
  runs (yapply_step_ff ExLate.cmd ExLate.g ExLate.y) (init_hstate ExLate.g) ExLate.hist
  = [[1; 0]; [1]; [1; 0]]%nat.
Proof. vm_compute. reflexivity. Qed.
End ExFF.

(* ================================================================== deviation (1), first form *)
(* nodes: 0 src  1 always  2 dd  3 out
     e0  build always : phony
     e1  build dd     : mkdd always        restat = 1
     e2  build out    : cc src | dd        dyndep = dd (the file adds nothing)
   [dd] is dirty in every scan.  From the second build on its command leaves dd alone, CleanNode prunes
   [out], then dd is loaded: ninja re-scans [out] only (clean) and runs ONE command; [ybuild_f] re-scans from
   the targets, finds dd (which has already run) dirty again and re-wants [out]: TWO commands. *)
Module ExAlwaysDD.
Definition g : graph :=
  mkGraph 3
    (fun e => match e with
              | 0%nat => mkEdge [] 0 0 [1%nat] [] true false false DepsNone 0
              | 1%nat => mkEdge [1%nat] 0 0 [2%nat] [] false true false DepsNone 11
              | 2%nat => mkEdge [0%nat; 2%nat] 1 0 [3%nat] [] false false false DepsNone 12
              | _ => Ex.dummy
              end)
    (fun n => match n with 1%nat => Some 0%nat | 2%nat => Some 1%nat | 3%nat => Some 2%nat | _ => None end)
    (fun _ => false).
Definition y : dyninfo :=
  mkY [2%nat] (fun e => match e with 2%nat => Some 2%nat | _ => None end)
      (fun _ => []) (fun _ => []) (fun _ => false) (fun _ => None).
Definition cmd := Ex.cmd.
Definition hist : list hstep := [Edit 0 5; Build [3%nat]; Build [3%nat]; Build [3%nat]].

Example ninja_runs_dd_only :
  frag_ABY g y = true /\ no_inputless_phony (inline_y g y) = false /\
  ExReplay.runs (yapply_step_ff cmd g y) (init_hstate g) hist = [[2; 1]; [1]; [1]]%nat /\
  ExReplay.runs (yapply_step_f cmd g y) (init_hstate g) hist = [[2; 1]; [2; 1]; [2; 1]]%nat /\
  map (content_of (yrun_hist_ff cmd g y (init_hstate g) hist)) [0; 1; 2; 3]%nat
  = map (content_of (yrun_hist_f cmd g y (init_hstate g) hist)) [0; 1; 2; 3]%nat.
Proof. vm_compute. repeat split; reflexivity. Qed.
End ExAlwaysDD.

(* ================================================================== deviation (1), second form *)
(* nodes: 0 src  1 always  2 gen  3 dd  4 out
     e0  build always : phony
     e1  build gen    : r always           restat = 1
     e2  build dd     : mkdd gen
     e3  build out    : cc src | dd        dyndep = dd
   From the second build on [gen] leaves its output alone and CleanNode prunes [dd] AND [out].  [dd]'s
   statement stays in want_ with kWantNothing; when [gen] is finished its inputs are ready and
   Plan::EdgeMaybeReady finishes it (build.cc 257-268 -> EdgeFinished 202 -> LoadDyndeps 226): the file IS
   loaded mid-build, [out] is re-scanned, found clean, nothing more runs: ONE command.  [ybuild_f] loads at
   the same place but re-scans from the targets: [gen] looks dirty again, [dd] and [out] are re-wanted. *)
Module ExPrunedProducer.
Definition g : graph :=
  mkGraph 4
    (fun e => match e with
              | 0%nat => mkEdge [] 0 0 [1%nat] [] true false false DepsNone 0
              | 1%nat => mkEdge [1%nat] 0 0 [2%nat] [] false true false DepsNone 11
              | 2%nat => mkEdge [2%nat] 0 0 [3%nat] [] false false false DepsNone 12
              | 3%nat => mkEdge [0%nat; 3%nat] 1 0 [4%nat] [] false false false DepsNone 13
              | _ => Ex.dummy
              end)
    (fun n => match n with 1%nat => Some 0%nat | 2%nat => Some 1%nat | 3%nat => Some 2%nat
                         | 4%nat => Some 3%nat | _ => None end)
    (fun _ => false).
Definition y : dyninfo :=
  mkY [3%nat] (fun e => match e with 3%nat => Some 3%nat | _ => None end)
      (fun _ => []) (fun _ => []) (fun _ => false) (fun _ => None).
Definition cmd := Ex.cmd.
Definition hist : list hstep := [Edit 0 5; Build [4%nat]; Build [4%nat]; Build [4%nat]].

Example ninja_runs_gen_only :
  frag_ABY g y = true /\ no_inputless_phony (inline_y g y) = false /\
  ExReplay.runs (yapply_step_ff cmd g y) (init_hstate g) hist = [[3; 2; 1]; [1]; [1]]%nat /\
  ExReplay.runs (yapply_step_f cmd g y) (init_hstate g) hist = [[3; 2; 1]; [3; 2; 1]; [3; 2; 1]]%nat.
Proof. vm_compute. repeat split; reflexivity. Qed.

(* the file IS loaded in the second build: the pass is restarted (ff_stop) at dd's statement *)
Example loaded_mid_build :
  let st := yrun_hist_ff cmd g y (init_hstate g) (firstn 2 hist) in
  scan_loads g y st = [] /\
  match scan (graph_of (gl g y []) st) (world_of st) [4%nat] with
  | ScanOk s p =>
    match ffpass cmd g y [4%nat]
            (mkFF st [] (init_cst s p) (fun e => match p_want p e with Some _ => true | None => false end)
                  (fun _ => false) false) with
    | FFRun c => ff_stop c = true /\ ff_L c = [3%nat] /\ h_trace (ff_st c) = [1; 3; 2; 1]%nat /\
                 map (ff_plan c) [0; 1; 2; 3]%nat = [false; false; false; true] /\
                 map (c_want (ff_x c)) [0; 1; 2; 3]%nat = [false; false; false; false]
    | _ => False
    end
  | _ => False
  end.
Proof. vm_compute. repeat split; reflexivity. Qed.
End ExPrunedProducer.

(* ================================================================== deviation (2): a failing load *)
(* nodes: 0 src  1 dd  2 out  3 hdr  4 other
     e0  build dd    : mkdd src
     e1  build out   : cc src || dd        dyndep = dd; the file says: | hdr
     e2  build other : cc hdr              (so hdr is a node of the manifest)
   hdr does not exist and has no rule.  ninja: dd's command runs, the load re-scans [out], AddSubTarget says
   "'hdr', needed by 'out', missing and no known rule to make it", Plan::EdgeFinished fails,
   Builder::FinishCommand returns BEFORE BuildLog::RecordCommand: dd is written, NOT logged; the build
   fails.  When hdr appears, dd's command runs again.  [ybuild_f] has logged it and does not. *)
Module ExFailingLoad.
Definition g : graph :=
  mkGraph 3
    (fun e => match e with
              | 0%nat => mkEdge [0%nat] 0 0 [1%nat] [] false false false DepsNone 10
              | 1%nat => mkEdge [0%nat; 1%nat] 0 1 [2%nat] [] false false false DepsNone 11
              | 2%nat => mkEdge [3%nat] 0 0 [4%nat] [] false false false DepsNone 12
              | _ => Ex.dummy
              end)
    (fun n => match n with 1%nat => Some 0%nat | 2%nat => Some 1%nat | 4%nat => Some 2%nat | _ => None end)
    (fun _ => false).
Definition y : dyninfo :=
  mkY [1%nat] (fun e => match e with 1%nat => Some 1%nat | _ => None end)
      (fun e => match e with 1%nat => [3%nat] | _ => [] end) (fun _ => []) (fun _ => false) (fun _ => None).
Definition cmd := Ex.cmd.
Definition st0 := run_hist cmd g (init_hstate g) [Edit 0 5].

Example failing_load_unlogged :
  frag_ABY g y && frag_AB (inline_y g y) && topo_ordered (inline_y g y) && dd_ins_ordered g y = true /\
  match ybuild_ff cmd g y st0 [2%nat], ybuild_f cmd g y st0 [2%nat] with
  | FFailed sf, YFailed sy =>
    h_trace sf = [0%nat] /\ h_trace sy = [0%nat] /\
    content_of sf 1%nat = content_of sy 1%nat /\ content_of sf 1%nat <> None /\
    h_blog sf 1%nat = None /\ h_blog sy 1%nat <> None /\ content_of sf 2%nat = None
  | _, _ => False
  end.
Proof. vm_compute. repeat split; try reflexivity; discriminate. Qed.

(* hdr appears: ninja runs dd's command again (it has no log entry), then out; ybuild_f runs out only *)
Definition hist : list hstep := [Edit 0 5; Build [2%nat]; Edit 3 7; Build [2%nat]; Build [2%nat]].
Example producer_runs_again :
  ExReplay.runs (yapply_step_ff cmd g y) (init_hstate g) hist = [[0]; [1; 0]; []]%nat /\
  ExReplay.runs (yapply_step_f cmd g y) (init_hstate g) hist = [[0]; [1]; []]%nat.
Proof. vm_compute. repeat split; reflexivity. Qed.
End ExFailingLoad.

(* ================================================================== bounded exhaustive comparison *)
(* For the case that has no general theorem (a dyndep file produced and loaded in the middle of a build):
   [check ... A n a b] runs two step functions side by side over EVERY history of at most [n] steps drawn from
   the alphabet [A] and compares the observable state after every prefix: trace, clock, contents and log
   entries of the listed nodes.  (HistDyndepFaithfulProofs.check_sound; used with vm_compute.) *)
Fixpoint list_eqb {A : Type} (f : A -> A -> bool) (a b : list A) : bool :=
  match a, b with
  | [], [] => true
  | x :: a', z :: b' => f x z && list_eqb f a' b'
  | _, _ => false
  end.
Definition optN_eqb (a b : option N) : bool :=
  match a, b with Some x, Some z => N.eqb x z | None, None => true | _, _ => false end.
Definition blog_eqb (a b : option (N * Z)) : bool :=
  match a, b with
  | Some (x, m), Some (z, m') => N.eqb x z && Z.eqb m m'
  | None, None => true
  | _, _ => false
  end.

Definition agree (nodes : list node) (a b : hstate) : bool :=
  list_eqb Nat.eqb (h_trace a) (h_trace b) && Z.eqb (h_clock a) (h_clock b)
  && list_eqb optN_eqb (map (content_of a) nodes) (map (content_of b) nodes)
  && list_eqb blog_eqb (map (h_blog a) nodes) (map (h_blog b) nodes).

Fixpoint check (nodes : list node) (sa sb : hstate -> hstep -> hstate) (A : list hstep) (n : nat)
         (a b : hstate) : bool :=
  agree nodes a b &&
  match n with
  | O => true
  | S n' => forallb (fun x => check nodes sa sb A n' (sa a x) (sb b x)) A
  end.

(* the alphabets: edits of every source (two contents each, so that "touch" and real changes occur), command-line
   changes of the dyndep file's producer and of a bound statement, deletions of an output and of the dyndep file,
   builds *)
Definition alpha_ExY : list hstep :=
  [Edit 0 10; Edit 0 12; Edit 1 20; Edit 1 21; SetCmd 0 77; SetCmd 2 78; Delete 3; Delete 2; Build [6%nat]].
Definition alpha_ExLate : list hstep :=
  [Edit 0 10; Edit 0 11; Edit 1 5; SetCmd 0 77; SetCmd 0 78; Build [3%nat]].
Definition alpha_ExReplay : list hstep :=
  [Edit 0 7; Edit 0 35; Edit 1 7; Edit 2 20; SetCmd 0 901; SetCmd 1 902; Build [3%nat]; Build [5%nat]].
