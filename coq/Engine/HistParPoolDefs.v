(* Pools for the parallel history-level semantics (property C06).  ONLY definitions and vm_compute
   Examples; the theorems are in HistParPoolProofs.v.

   What ninja does (src/state.h, src/state.cc Pool; src/build.cc Plan::ScheduleWork / EdgeFinished).
   Every statement belongs to one pool: the default pool (depth 0), the console pool (depth 1) or a
   `pool` declared in the manifest with a depth >= 0.  Pool::ShouldDelayEdge is `depth_ != 0`:
   depth 0 means UNLIMITED (Pool::EdgeScheduled / EdgeFinished do not even count then).  A
   statement of a pool with depth != 0 takes one unit (Edge::weight() is 1) of the pool from the
   moment it enters Plan::ready_ (Pool::EdgeScheduled, via Pool::RetrieveReadyEdges, which only
   hands out an edge while `current_use_ + weight <= depth_`) until Plan::EdgeFinished
   (Pool::EdgeFinished).  The commands that RUN are a subset of the scheduled ones, so at every
   instant, for every pool with depth != 0: #running statements of the pool <= depth.

   The model.  [pool_of e = None]: the default pool; [Some p]: pool number p (the console pool is
   just a pool whose depth is 1); [depth p = 0]: unlimited, as in ninja.  A pooled schedule is a
   schedule of HistParDefs with ONE more side condition on [Start e] ([pool_ok]): the pool of [e]
   is unlimited, or fewer than [depth] statements of that pool are running.  [Finish] is
   unchanged.  Phony statements never run (HistParDefs.start_ok refuses them; they are complete as
   soon as their inputs are), so they never occupy a slot; in ninja they pass through the pool
   for an instant (ScheduleWork; Builder::Build finishes them at once without starting anything). *)
From NinjaV Require Import Engine.CrashDefs.
From NinjaV Require Import Base.Bytes Engine.ScanDefs Engine.ScanSpec Engine.HistDefs Engine.HistFaithful Engine.HistParDefs.
Local Open Scope Z_scope.

Section PoolP.
Variable cmd : edge -> N -> snapshot -> node -> content.
Variable g : graph.
Variable pool_of : edge -> option nat.
Variable depth : nat -> nat.

Definition in_pool (p : nat) (e : edge) : bool :=
  match pool_of e with Some q => Nat.eqb q p | None => false end.

(* the number of running statements of pool [p] *)
Definition pool_use (R : list prun) (p : nat) : nat :=
  length (filter (fun r => in_pool p (r_edge r)) R).

Definition pool_ok (R : list prun) (e : edge) : bool :=
  match pool_of e with
  | None => true
  | Some p => Nat.eqb (depth p) 0 || Nat.ltb (pool_use R p) (depth p)
  end.

Definition par_step_pool (lim : option nat) (c : pcfg) (ev : pevent) : pres :=
  match ev with
  | Start e => if pool_ok (p_run c) e then par_step cmd g lim c ev else PBad
  | Finish _ => par_step cmd g lim c ev
  end.

Fixpoint par_exec_pool (lim : option nat) (sched : list pevent) (c : pcfg) : pres :=
  match sched with
  | [] => POk c
  | ev :: rest =>
    match par_step_pool lim c ev with
    | POk c' => par_exec_pool lim rest c'
    | err => err
    end
  end.

(* diagnostics for a trace tie: how many events of the schedule are accepted *)
Fixpoint par_accepted_pool (lim : option nat) (sched : list pevent) (c : pcfg) : nat :=
  match sched with
  | [] => O
  | ev :: rest =>
    match par_step_pool lim c ev with
    | POk c' => S (par_accepted_pool lim rest c')
    | _ => O
    end
  end.

Definition par_run_pool (lim : option nat) (st : hstate) (targets : list node) (sched : list pevent)
  : presult :=
  match scan (graph_of g st) (world_of st) targets with
  | ScanOk s p =>
    match par_exec_pool lim sched (init_pcfg st s p) with
    | POk c => if complete g c then PDone c else PIncomplete c
    | PBad => PInvalid
    | PFuel => POutOfFuel
    end
  | _ => PRefused
  end.

Definition par_build_pool (lim : option nat) (st : hstate) (targets : list node) (sched : list pevent)
  : option hstate :=
  match par_run_pool lim st targets sched with
  | PDone c => Some (p_st c)
  | _ => None
  end.

(* the events of a schedule *)
Fixpoint starts_of (sched : list pevent) : list edge :=
  match sched with
  | [] => []
  | Start e :: rest => e :: starts_of rest
  | Finish _ :: rest => starts_of rest
  end.

Fixpoint finishes_of (sched : list pevent) : list edge :=
  match sched with
  | [] => []
  | Start _ :: rest => finishes_of rest
  | Finish e :: rest => e :: finishes_of rest
  end.

(* the events enabled in a configuration (for the work-conservation statements and for drivers) *)
Definition start_enabled (lim : option nat) (c : pcfg) (e : edge) : bool :=
  pool_ok (p_run c) e && start_ok g lim c e.

(* -j 0 does not exist (ninja maps it to "infinite"): a limit, when there is one, is at least 1 *)
Definition jobs_pos (lim : option nat) : Prop :=
  match lim with Some O => False | _ => True end.

End PoolP.

(* pool tables as association lists, for the extracted driver *)
Definition pool_of_list (l : list (edge * nat)) (e : edge) : option nat :=
  match find (fun x => Nat.eqb (fst x) e) l with Some x => Some (snd x) | None => None end.
Definition depth_of_list (l : list (nat * nat)) (p : nat) : nat :=
  match find (fun x => Nat.eqb (fst x) p) l with Some x => snd x | None => O end.

(* ================================================================== HistParDefs.ExP with two pools *)
(*   e0  build gen.h : halve a.src   (pool 1)      e1  build x.o : cc b.src | gen.h   (pool 0)
     e2  build y.o : cc c.src | gen.h (pool 0)     e3  build app : link x.o y.o       (pool 1)
     e4  build all : phony app
     pool 0: depth 1 (the two compiles exclude each other)     pool 1: depth 2;    -j 2 *)
Module ExPool.
Definition pool_of (e : edge) : option nat :=
  match e with 1%nat | 2%nat => Some 0%nat | 0%nat | 3%nat => Some 1%nat | _ => None end.
Definition depth (p : nat) : nat := match p with 0%nat => 1%nat | 1%nat => 2%nat | _ => 0%nat end.

Definition one_by_one : list pevent :=
  [Start 0; Finish 0; Start 2; Finish 2; Start 1; Finish 1; Start 3; Finish 3].

(* the interleaved schedule of ExP (x.o and y.o compiled at the same time) is a schedule for -j 2
   but exceeds pool 0; compiling them one after the other respects the pools *)
Example pools_order_differently :
  par_run_pool ExP.cmd ExP.g pool_of depth (Some 2%nat) ExP.st1 [5%nat] ExP.inter = PInvalid /\
  par_accepted_pool ExP.cmd ExP.g pool_of depth (Some 2%nat) ExP.inter
     (match scan (graph_of ExP.g ExP.st1) (world_of ExP.st1) [5%nat] with
      | ScanOk s p => init_pcfg ExP.st1 s p | _ => init_pcfg ExP.st1 (init_state ExP.g) init_plan end) = 3%nat /\
  (match par_run ExP.cmd ExP.g (Some 2%nat) ExP.st1 [5%nat] ExP.inter with PDone _ => True | _ => False end) /\
  (match par_run_pool ExP.cmd ExP.g pool_of depth (Some 2%nat) ExP.st1 [5%nat] one_by_one with
   | PDone _ => True | _ => False end).
Proof. vm_compute. repeat split; reflexivity. Qed.

(* depth 0 is unlimited: with pool 0 of depth 0 the interleaved schedule is accepted *)
Example depth_zero_unlimited :
  match par_run_pool ExP.cmd ExP.g pool_of (fun _ => 0%nat) (Some 2%nat) ExP.st1 [5%nat] ExP.inter with
  | PDone _ => True | _ => False end.
Proof. vm_compute. exact I. Qed.
End ExPool.
