(* The history model with failing commands (HistFailDefs.v, ninja -k 1) extended to  -k N :
   "with -k N ninja keeps starting commands that do not depend on a failed one until N commands
   have failed (N = 0: no limit), and still exits non-zero; dependents of failed commands are never
   started".  ONLY definitions and vm_compute Examples; proofs are in HistFailKProofs.v.

   What the code does.  ninja.cc: -k N sets config.failures_allowed = N, and INT_MAX for N <= 0.
   build.cc, Builder::Build: the loop starts work only  if (failures_allowed) ; every failed command
   decrements it (never below 0); with 0 left nothing is started, what is running is reaped (-j1:
   nothing) and the loop ends with "subcommand(s) failed", exit status non-zero; when work remains
   but nothing can be started although failures are still allowed it ends with "cannot make
   progress due to previous errors", also non-zero.  Builder::FinishCommand for a failed command
   returns after Plan::EdgeFinished(edge, kEdgeFailed), which returns BEFORE  outputs_ready_ = true
   and before NodeFinished: the dependents of the failed edge are never offered to EdgeMaybeReady by
   it, and Edge::AllInputsReady (ALL inputs_: explicit, implicit, order-only) stays false for them
   for the rest of the invocation.  This goes through statements that need no command of their own
   (kWantNothing, phony): they "finish" only once all their inputs are ready.

   Model.  [buildFK st targets faults budget], budget : option nat (None = unlimited = -k 0,
   Some N = -k N): the statements in the edge order (ninja's own order is its priority order; every
   topological numbering is a legal instance of it); when the turn of statement [e] comes
     1. some input of [e] (any kind) is produced by a BLOCKED statement: [e] is skipped and blocked
        itself (blocked = failed in this invocation, or skipped for this reason);
     2. otherwise, the budget is used up (Some 0): nothing is started;
     3. otherwise [e] is treated as [HistDefs.build_step] treats it (wanted, not phony, dirty now),
        and if it is started and has a fault it fails ([HistFailDefs.fail_edge]: no log entry), is
        blocked, and the budget is decremented.
   The exit flag is "failed" iff at least one command failed.  Everything is computable. *)
From NinjaV Require Import Engine.CrashDefs.
From NinjaV Require Import Base.Bytes Engine.ScanDefs Engine.ScanSpec Engine.HistDefs Engine.HistFailDefs.
Local Open Scope Z_scope.

(* -k N on the command line *)
Definition budget_of_k (k : nat) : option nat := match k with O => None | S _ => Some k end.

Definition budget_out (b : option nat) : bool := match b with Some O => true | _ => false end.
(* one more failure: failures_allowed-- (unlimited stays unlimited) *)
Definition budget_dec (b : option nat) : option nat := match b with Some (S n) => Some n | _ => b end.

(* the loop state of one invocation *)
Record kacc := mkK {
  k_st : hstate;
  k_failed : list (edge * fail_kind * hstate);  (* newest first: statement, fault, GHOST: state it was started in *)
  k_blocked : list edge;                        (* failed, or skipped because an input's statement is blocked *)
  k_budget : option nat                         (* failures still allowed; None = unlimited *)
}.

Definition failed_edges (a : kacc) : list edge := map (fun x => fst (fst x)) (k_failed a).
Definition exit_failedK (a : kacc) : bool := match k_failed a with [] => false | _ => true end.

(* a history step with the -k budget of the invocation *)
Inductive kstep :=
| KPlain (s : hstep)
| KBuildF (targets : list node) (fs : faults) (budget : option nat).

Section ModelK.
Variable cmd : edge -> N -> snapshot -> node -> content.
Variable g : graph.

(* Edge::AllInputsReady can never become true: an input (any kind) is produced by a blocked statement *)
Definition blocked_input (blocked : list edge) (e : edge) : bool :=
  existsb (fun i => match g_producer g i with Some e' => mem_node e' blocked | None => false end)
          (ei_ins (g_edge g e)).

Definition build_stepK (fs : faults) (p : plan) (a : kacc) (e : edge) : kacc :=
  if blocked_input (k_blocked a) e
  then mkK (k_st a) (k_failed a) (e :: k_blocked a) (k_budget a)
  else if budget_out (k_budget a) then a
  else if want_start p e && negb (ei_phony (g_edge g e)) && dirty_now g (k_st a) e
  then match fault_of fs e with
       | Some kd => mkK (fail_edge g (k_st a) e kd) ((e, kd, k_st a) :: k_failed a)
                        (e :: k_blocked a) (budget_dec (k_budget a))
       | None => mkK (run_edge cmd g (k_st a) e) (k_failed a) (k_blocked a) (k_budget a)
       end
  else a.

Definition build_uptoK (fs : faults) (p : plan) (b : option nat) (k : nat) (st : hstate) : kacc :=
  fold_left (build_stepK fs p) (seq 0 k) (mkK st [] [] b).

(* None: ninja refuses (missing source, cycle): nothing is run *)
Definition buildFK (st : hstate) (targets : list node) (fs : faults) (b : option nat) : option kacc :=
  match scan (graph_of g st) (world_of st) targets with
  | ScanOk _ p => Some (build_uptoK fs p b (g_nedges g) st)
  | _ => None
  end.

(* the shape of HistFailDefs.buildF_full: the state and the (only) failure *)
Definition facc_of (a : kacc) : facc :=
  (k_st a, match k_failed a with [] => None | x :: _ => Some x end).

(* histories *)
Definition kstep_ok (s : kstep) : bool :=
  match s with KPlain s => step_ok g s | KBuildF _ _ _ => true end.
Definition khist_ok (h : list kstep) : bool := forallb kstep_ok h.

Definition apply_kstep (st : hstate) (s : kstep) : hstate :=
  match s with
  | KPlain s => apply_step cmd g st s
  | KBuildF targets fs b => match buildFK st targets fs b with Some a => k_st a | None => st end
  end.
Definition run_khist (st : hstate) (h : list kstep) : hstate := fold_left apply_kstep h st.

(* [e] neither failed nor depends on a failed statement *)
Definition independent (a : kacc) (e : edge) : Prop :=
  forall f, In f (failed_edges a) -> f <> e /\ ~ depends_on g f e.

End ModelK.

(* ================================================================== two independent chains *)
(* nodes: 0 a.src  1 a1  2 a2     3 b.src  4 b1  5 b2     6 all
     e0  build a1 : cc a.src        e1  build a2 : cc a1
     e2  build b1 : cc b.src        e3  build b2 : cc b1
     e4  build all : phony a2 b2                                                              *)
Module ExChains.
Definition e0 := mkEdge [0%nat] 0 0 [1%nat] [] false false false DepsNone 10.
Definition e1 := mkEdge [1%nat] 0 0 [2%nat] [] false false false DepsNone 11.
Definition e2 := mkEdge [3%nat] 0 0 [4%nat] [] false false false DepsNone 12.
Definition e3 := mkEdge [4%nat] 0 0 [5%nat] [] false false false DepsNone 13.
Definition e4 := mkEdge [2%nat; 5%nat] 0 0 [6%nat] [] true false false DepsNone 0.
Definition g : graph :=
  mkGraph 5
    (fun e => match e with 0%nat => e0 | 1%nat => e1 | 2%nat => e2 | 3%nat => e3 | 4%nat => e4
                         | _ => Ex.dummy end)
    (fun n => match n with 1%nat => Some 0%nat | 2%nat => Some 1%nat | 4%nat => Some 2%nat
                         | 5%nat => Some 3%nat | 6%nat => Some 4%nat | _ => None end)
    (fun _ => false).

Definition cmd (e : edge) (h : N) (S : snapshot) (o : node) : content :=
  (1 + h + 3 * Ex.sum_snap S + N.of_nat o)%N.

Definition st2 := run_hist cmd g (init_hstate g) [Edit 0 10; Edit 3 20].
Definition fs : faults := [(0%nat, FailWrote ExFail.garbage)].

Definition summary (r : option kacc) :=
  match r with
  | Some a => Some (h_trace (k_st a), failed_edges a, k_blocked a, k_budget a, exit_failedK a,
                    map (content_of (k_st a)) [1; 2; 4; 5]%nat)
  | None => None
  end.

Example frag_ok : frag_AB g && topo_ordered g && no_inputless_phony g = true.
Proof. vm_compute. reflexivity. Qed.

(* -k 0: e0 fails, e1 and the alias e4 are skipped, the other chain e2 e3 is run to the end *)
Example keep_going_unlimited :
  summary (buildFK cmd g st2 [6%nat] fs (budget_of_k 0)) =
  Some ([3; 2; 0]%nat, [0%nat], [4; 1; 0]%nat, None, true,
        [Some 999%N; None; Some 77%N; Some 250%N]).
Proof. vm_compute. reflexivity. Qed.

(* -k 1: nothing is started after the failure of e0 *)
Example keep_going_1 :
  summary (buildFK cmd g st2 [6%nat] fs (budget_of_k 1)) =
  Some ([0%nat], [0%nat], [4; 1; 0]%nat, Some 0%nat, true, [Some 999%N; None; None; None]).
Proof. vm_compute. reflexivity. Qed.

(* -k 2 with faults in both chains: the second failure uses the budget up; -k 3 would go on *)
Definition fs2 : faults := [(0%nat, FailUntouched); (2%nat, FailDeleted)].
Example keep_going_2 :
  summary (buildFK cmd g st2 [6%nat] fs2 (budget_of_k 2)) =
  Some ([2; 0]%nat, [2; 0]%nat, [4; 3; 2; 1; 0]%nat, Some 0%nat, true, [None; None; None; None]).
Proof. vm_compute. reflexivity. Qed.

(* the contents of the chain that was built are those of the fault-free build *)
Example independent_chain_as_fault_free :
  match buildFK cmd g st2 [6%nat] fs None, build cmd g st2 [6%nat] with
  | Some a, Some ok => map (content_of (k_st a)) [4; 5]%nat = map (content_of ok) [4; 5]%nat /\
                       h_blog (k_st a) 1%nat = None /\ h_blog (k_st a) 5%nat = Some (13%N, 7)
  | _, _ => False
  end.
Proof. vm_compute. repeat split; reflexivity. Qed.
End ExChains.

(* ================================================================== a diamond *)
(* nodes: 0 src  1 x  2 y  3 z  4 j
     e0  build x : cc src      e1  build y : cc x      e2  build z : cc x     e3  build j : cc y z   *)
Module ExDiamond.
Definition e0 := mkEdge [0%nat] 0 0 [1%nat] [] false false false DepsNone 10.
Definition e1 := mkEdge [1%nat] 0 0 [2%nat] [] false false false DepsNone 11.
Definition e2 := mkEdge [1%nat] 0 0 [3%nat] [] false false false DepsNone 12.
Definition e3 := mkEdge [2%nat; 3%nat] 0 0 [4%nat] [] false false false DepsNone 13.
Definition g : graph :=
  mkGraph 4
    (fun e => match e with 0%nat => e0 | 1%nat => e1 | 2%nat => e2 | 3%nat => e3 | _ => Ex.dummy end)
    (fun n => match n with 1%nat => Some 0%nat | 2%nat => Some 1%nat | 3%nat => Some 2%nat
                         | 4%nat => Some 3%nat | _ => None end)
    (fun _ => false).
Definition st1 := run_hist ExChains.cmd g (init_hstate g) [Edit 0 10].

(* e0 runs, e1 fails, e2 (independent of e1) runs, the join e3 is skipped; the next plain build
   runs e1 and e3 only and everything is clean *)
Example join_skipped :
  match buildFK ExChains.cmd g st1 [4%nat] [(1%nat, FailDeleted)] None with
  | Some a =>
    h_trace (k_st a) = [2; 1; 0]%nat /\ failed_edges a = [1%nat] /\ k_blocked a = [3; 1]%nat /\
    exit_failedK a = true /\ content_of (k_st a) 4%nat = None /\
    match build ExChains.cmd g (k_st a) [4%nat] with
    | Some st' => h_trace st' = [3; 1; 2; 1; 0]%nat /\
                  map (content_of st') [1; 2; 3; 4]%nat = map (clean_of ExChains.cmd g st') [1; 2; 3; 4]%nat
    | None => False
    end
  | None => False
  end.
Proof. vm_compute. repeat split; reflexivity. Qed.
End ExDiamond.
