(* Executable model of ninja's dependency scan:
     DependencyScan::{RecomputeDirty, RecomputeNodeDirty, RecomputeEdgesInputsDirty, VerifyDAG},
     RecomputeOutputsDirtyCache::{all, depfile, RecomputeOutputDirty<FIRSTRUN>, Phony},
     Node::{Stat, UpdatePhonyMtime}, ImplicitDepLoader::{LoadDeps, LoadDepsTry, ...}   (src/graph.cc)
     Builder::AddTarget, Plan::{AddTarget, AddSubTarget, EdgeWanted}                  (src/build.cc)
   Faithful transliteration, quirks included.  ONLY definitions (conventions): proofs are in
   ScanProofs.v, the declarative specification in ScanSpec.v.  Dyndep is out of scope.

   Nodes and edges are [nat] ids.  Maps are functions; the OCaml driver builds them from tables. *)
From NinjaV Require Import Base.Bytes.
Local Open Scope Z_scope.

Definition node := nat.
Definition edge := nat.

(* ------------------------------------------------------------------ the manifest graph *)
(* deps binding non-empty => DepsLog (it wins over depfile, ImplicitDepLoader::LoadDeps);
   otherwise depfile binding non-empty => DepsDepfile; otherwise DepsNone. *)
Inductive deps_kind := DepsNone | DepsDepfile | DepsLog.

Record edge_info := mkEdge {
  ei_ins : list node;        (* Edge::inputs_ as parsed: explicit ++ implicit ++ order-only *)
  ei_nimp : nat;             (* implicit_deps_ *)
  ei_noo : nat;              (* order_only_deps_ *)
  ei_outs : list node;       (* outputs_ (explicit ++ implicit) *)
  ei_vals : list node;       (* validations_ *)
  ei_phony : bool;
  ei_restat : bool;
  ei_generator : bool;
  ei_deps : deps_kind;
  ei_hash : N                (* HashCommand(EvaluateCommand(true)), opaque *)
}.

Record graph := mkGraph {
  g_nedges : nat;                       (* edges are 0 .. g_nedges-1 *)
  g_edge : edge -> edge_info;
  g_producer : node -> option edge;     (* Node::in_edge() *)
  g_byloader : node -> bool             (* Node::generated_by_dep_loader(): not mentioned in the manifest *)
}.

(* ------------------------------------------------------------------ disk and logs *)
(* What LoadDepFile / LoadDepFileTry can see of an edge's depfile:
   DfMissing     no such file (ReadFile NotFound, Stat = 0)
   DfEmpty       file exists with empty content  (LoadDepFile: "missing"; LoadDepFileTry: present!)
   DfUnparsable  DepfileParser::Parse fails                         (hard error of the scan)
   DfParsed outs ins   parsed; outs = [] is the "no outputs declared" hard error *)
Inductive depfile_state :=
| DfMissing | DfEmpty | DfUnparsable
| DfParsed (outs ins : list node).

Record world := mkWorld {
  w_mtime : node -> Z;                          (* DiskInterface::Stat: 0 = missing *)
  w_blog : node -> option (N * Z);              (* BuildLog::LookupByOutput: (command_hash, mtime) *)
  w_dlog : node -> option (Z * list node);      (* DepsLog::GetDeps: (mtime, nodes) *)
  w_depfile : edge -> depfile_state
}.

(* ------------------------------------------------------------------ scan state *)
Inductive exist_status := ExUnknown | ExMissing | ExExists.
Record nstate := mkN {
  ns_dirty : bool;           (* Node::dirty_ *)
  ns_mtime : Z;              (* Node::mtime_ (-1 = not examined) *)
  ns_exists : exist_status   (* Node::exists_ *)
}.

Inductive mark := VisitNone | VisitInStack | VisitDone.
Record estate := mkE {
  es_mark : mark;
  es_ready : bool;           (* outputs_ready_ *)
  es_deps_loaded : bool;
  es_deps_missing : bool;
  es_ins : list node;        (* current inputs_ (deps are spliced in before the order-only block) *)
  es_nimp : nat              (* current implicit_deps_ *)
}.

Record sstate := mkS {
  st_node : node -> nstate;
  st_edge : edge -> estate
}.

Definition init_nstate : nstate := mkN false (-1) ExUnknown.
Definition init_estate (ei : edge_info) : estate :=
  mkE VisitNone false false false (ei_ins ei) (ei_nimp ei).
Definition init_state (g : graph) : sstate :=
  mkS (fun _ => init_nstate) (fun e => init_estate (g_edge g e)).

Definition upd_node (s : sstate) (n : node) (v : nstate) : sstate :=
  mkS (fun n' => if Nat.eqb n' n then v else st_node s n') (st_edge s).
Definition upd_edge (s : sstate) (e : edge) (v : estate) : sstate :=
  mkS (st_node s) (fun e' => if Nat.eqb e' e then v else st_edge s e').

Definition n_known (ns : nstate) : bool :=
  match ns_exists ns with ExUnknown => false | _ => true end.
Definition n_exists (ns : nstate) : bool :=
  match ns_exists ns with ExExists => true | _ => false end.

(* Node::StatIfNecessary + Node::Stat (the virtual disk never returns -1) *)
Definition stat_if_necessary (w : world) (s : sstate) (n : node) : sstate :=
  let ns := st_node s n in
  if n_known ns then s
  else let m := w_mtime w n in
       upd_node s n (mkN (ns_dirty ns) m (if Z.eqb m 0 then ExMissing else ExExists)).

(* Node::UpdatePhonyMtime *)
Definition update_phony_mtime (s : sstate) (n : node) (m : Z) : sstate :=
  let ns := st_node s n in
  if n_exists ns then s
  else upd_node s n (mkN (ns_dirty ns) (Z.max (ns_mtime ns) m) (ns_exists ns)).

Definition set_dirty (s : sstate) (n : node) (d : bool) : sstate :=
  let ns := st_node s n in upd_node s n (mkN d (ns_mtime ns) (ns_exists ns)).

Definition set_mark (s : sstate) (e : edge) (m : mark) : sstate :=
  let es := st_edge s e in
  upd_edge s e (mkE m (es_ready es) (es_deps_loaded es) (es_deps_missing es) (es_ins es) (es_nimp es)).
Definition set_ready (s : sstate) (e : edge) (r : bool) : sstate :=
  let es := st_edge s e in
  upd_edge s e (mkE (es_mark es) r (es_deps_loaded es) (es_deps_missing es) (es_ins es) (es_nimp es)).
Definition set_deps_missing (s : sstate) (e : edge) (b : bool) : sstate :=
  let es := st_edge s e in
  upd_edge s e (mkE (es_mark es) (es_ready es) (es_deps_loaded es) b (es_ins es) (es_nimp es)).
Definition set_ins (s : sstate) (e : edge) (ins : list node) (nimp : nat) : sstate :=
  let es := st_edge s e in
  upd_edge s e (mkE (es_mark es) (es_ready es) (es_deps_loaded es) (es_deps_missing es) ins nimp).

(* ------------------------------------------------------------------ results *)
Inductive sres (A : Type) :=
| SOk (a : A)
| SCycle (p : list node)     (* "dependency cycle: p0 -> p1 -> ... -> p0" *)
| SLoadErr (e : edge)        (* depfile of e: parse error / no outputs / undeclared output *)
| SOutOfFuel.
Arguments SOk {A} a.
Arguments SCycle {A} p.
Arguments SLoadErr {A} e.
Arguments SOutOfFuel {A}.

(* first loop of RecomputeEdgesInputsDirty: visit every input of the range, stop at first error *)
Fixpoint visit_all {A : Type} (visit : node -> A -> sres A) (l : list node) (a : A) : sres A :=
  match l with
  | [] => SOk a
  | n :: l' =>
    match visit n a with
    | SOk a' => visit_all visit l' a'
    | err => err
    end
  end.

Section Scan.
Variable g : graph.
Variable w : world.

Definition edge_outs (e : edge) : list node := ei_outs (g_edge g e).

(* Edge::is_order_only(index): index >= inputs_.size() - order_only_deps_ in size_t arithmetic
   (a stale counter larger than the vector wraps around: then nothing is order-only) *)
Definition is_order_only (len noo idx : nat) : bool :=
  if Nat.ltb len noo then false else Nat.leb (len - noo) idx.

(* VerifyDAG's error path: the stack from the first node produced by [e], that node replaced by
   [n], then [n] again at the end.  (The [[]] case is the C++ assert(start != stack->end()).) *)
Fixpoint drop_until_edge (e : edge) (stack : list node) : list node :=
  match stack with
  | [] => []
  | x :: rest =>
    match g_producer g x with
    | Some e' => if Nat.eqb e' e then stack else drop_until_edge e rest
    | None => drop_until_edge e rest
    end
  end.
Definition cycle_path (stack : list node) (n : node) (e : edge) : list node :=
  match drop_until_edge e stack with
  | [] => [n; n]
  | _ :: rest => n :: rest ++ [n]
  end.

(* second loop of RecomputeEdgesInputsDirty over the range [l] whose first element has index
   [idx] in the edge's current inputs_ *)
Definition newer (s : sstate) (i : node) (mri : option node) : option node :=
  match mri with
  | None => Some i
  | Some m => if Z.gtb (ns_mtime (st_node s i)) (ns_mtime (st_node s m)) then Some i else mri
  end.

Fixpoint eval_inputs (e : edge) (l : list node) (idx : nat) (s : sstate) (mri : option node)
         (dirty : bool) : sstate * option node * bool :=
  match l with
  | [] => (s, mri, dirty)
  | i :: l' =>
    let s1 := match g_producer g i with
              | Some ie => if es_ready (st_edge s ie) then s else set_ready s e false
              | None => s
              end in
    if is_order_only (length (es_ins (st_edge s1 e))) (ei_noo (g_edge g e)) idx
    then eval_inputs e l' (S idx) s1 mri dirty
    else if ns_dirty (st_node s1 i)
         then eval_inputs e l' (S idx) s1 mri true
         else eval_inputs e l' (S idx) s1 (newer s1 i mri) dirty
  end.

Definition mri_mtime (s : sstate) (mri : option node) : option Z :=
  match mri with None => None | Some m => Some (ns_mtime (st_node s m)) end.

(* RecomputeOutputsDirtyCache::Phony *)
Definition phony_output_dirty (e : edge) (o : node) (mri : option node) (s : sstate)
  : bool * sstate :=
  if match es_ins (st_edge s e) with [] => true | _ => false end
     && match ei_vals (g_edge g e) with [] => true | _ => false end
     && negb (n_exists (st_node s o))
  then (true, s)
  else match mri with
       | Some m => (false, update_phony_mtime s o (ns_mtime (st_node s m)))
       | None => (false, s)
       end.

(* RecomputeOutputDirty<true> (build log always present) *)
Definition output_dirty_first (e : edge) (o : node) (mri : option Z) (s : sstate) : bool :=
  let ei := g_edge g e in
  let ns := st_node s o in
  if negb (n_exists ns) then true
  else
    let entry := w_blog w o in
    let used_restat := ei_restat ei && match entry with Some _ => true | None => false end in
    if negb used_restat && match mri with Some m => Z.ltb (ns_mtime ns) m | None => false end
    then true
    else match entry with
         | Some (h, lm) =>
           if negb (ei_generator ei) && negb (N.eqb (ei_hash ei) h) then true
           else match mri with Some m => Z.ltb lm m | None => false end
         | None => negb (ei_generator ei)
         end.

(* RecomputeOutputDirty<false> *)
Definition output_dirty_again (e : edge) (o : node) (mri : option Z) (s : sstate) : bool :=
  let ei := g_edge g e in
  let ns := st_node s o in
  let entry := w_blog w o in
  let used_restat := ei_restat ei && match entry with Some _ => true | None => false end in
  if negb used_restat && match mri with Some m => Z.ltb (ns_mtime ns) m | None => false end
  then true
  else match entry with
       | Some (_, lm) => match mri with Some m => Z.ltb lm m | None => false end
       | None => false
       end.

(* RecomputeOutputsDirtyCache::all: stops at the first dirty output (phony outputs before it
   have had their mtime updated) *)
Fixpoint outputs_dirty_all (e : edge) (outs : list node) (mri : option node) (s : sstate)
  : bool * sstate :=
  match outs with
  | [] => (false, s)
  | o :: outs' =>
    if ei_phony (g_edge g e)
    then let '(d, s1) := phony_output_dirty e o mri s in
         if d then (true, s1) else outputs_dirty_all e outs' mri s1
    else if output_dirty_first e o (mri_mtime s mri) s then (true, s)
         else outputs_dirty_all e outs' mri s
  end.

(* RecomputeOutputsDirtyCache::depfile *)
Definition outputs_dirty_depfile (e : edge) (mri : option node) (s : sstate) : bool :=
  existsb (fun o => output_dirty_again e o (mri_mtime s mri) s) (edge_outs e).

(* ImplicitDepLoader::LoadDeps *)
Inductive load_res := LdFail | LdErr | LdOk (new_ins : list node).

Definition mem_node (n : node) (l : list node) : bool := existsb (Nat.eqb n) l.

Definition load_deps (s : sstate) (e : edge) : load_res :=
  match ei_deps (g_edge g e) with
  | DepsNone => LdOk []
  | DepsLog =>
    match edge_outs e with
    | [] => LdErr
    | o0 :: _ =>
      match w_dlog w o0 with
      | None => LdFail                                            (* deps for 'o0' are missing *)
      | Some (dm, nodes) =>
        if Z.gtb (ns_mtime (st_node s o0)) dm then LdFail         (* stored deps info out of date *)
        else LdOk nodes
      end
    end
  | DepsDepfile =>
    match edge_outs e with
    | [] => LdErr
    | o0 :: _ =>
      match w_depfile w e with
      | DfMissing | DfEmpty => LdFail                              (* depfile is missing *)
      | DfUnparsable => LdErr
      | DfParsed [] _ => LdErr                                     (* no outputs declared *)
      | DfParsed (p :: douts) dins =>
        if negb (Nat.eqb p o0) then LdFail                         (* expected depfile to mention o0 *)
        else if forallb (fun o => mem_node o (edge_outs e)) (p :: douts) then LdOk dins
        else LdErr                                                 (* undeclared output *)
      end
    end
  end.

(* ImplicitDepLoader::LoadDepsTry: probes only *)
Definition load_deps_try (s : sstate) (e : edge) : bool :=
  match ei_deps (g_edge g e) with
  | DepsNone => true
  | DepsLog =>
    match edge_outs e with
    | [] => false
    | o0 :: _ =>
      match w_dlog w o0 with
      | None => false
      | Some (dm, _) => negb (Z.gtb (ns_mtime (st_node s o0)) dm)
      end
    end
  | DepsDepfile =>
    match w_depfile w e with
    | DfMissing => false
    | _ => true
    end
  end.

(* vector::insert(inputs_.end() - order_only_deps_, ...) and implicit_deps_ += count *)
Definition splice (ins : list node) (noo : nat) (new_ins : list node) : list node :=
  let k := (length ins - noo)%nat in firstn k ins ++ new_ins ++ skipn k ins.

Definition splice_deps (s : sstate) (e : edge) (new_ins : list node) : sstate :=
  let es := st_edge s e in
  set_ins s e (splice (es_ins es) (ei_noo (g_edge g e)) new_ins) (es_nimp es + length new_ins)%nat.

Definition mark_outputs_dirty (s : sstate) (outs : list node) : sstate :=
  fold_left (fun s o => set_dirty s o true) outs s.

Definition stat_outputs (s : sstate) (outs : list node) : sstate :=
  fold_left (stat_if_necessary w) outs s.

(* entry of RecomputeNodeDirty for an unmarked edge: mark_ = VisitInStack, outputs_ready_ = true,
   deps_missing_ = false, deps_loaded_ = true (the old value is returned) *)
Definition enter_edge (s : sstate) (e : edge) : sstate :=
  let es := st_edge s e in
  upd_edge s e (mkE VisitInStack true true false (es_ins es) (es_nimp es)).

Definition opt_node_eqb (a b : option node) : bool :=
  match a, b with
  | None, None => true
  | Some x, Some y => Nat.eqb x y
  | _, _ => false
  end.

(* tail of RecomputeNodeDirty: MarkDirty, the outputs_ready_ rule, mark_ = VisitDone *)
Definition finish_edge (s : sstate) (e : edge) (dirty : bool) : sstate :=
  let s1 := if dirty then mark_outputs_dirty s (edge_outs e) else s in
  let s2 := if dirty && negb (ei_phony (g_edge g e)
                              && match es_ins (st_edge s1 e) with [] => true | _ => false end)
            then set_ready s1 e false else s1 in
  set_mark s2 e VisitDone.

Definition sv := (sstate * list node)%type.   (* state, pending validation nodes *)

(* the part of RecomputeNodeDirty after the first RecomputeEdgesInputsDirty call;
   [visit] is the recursive call with the stack of this frame.
   [was_loaded] = deps_loaded_ at entry: the edge is being visited a second time (only possible
   after Plan::UnmarkDependents, i.e. dyndep; never in a fresh scan).  Then the deps are not
   looked at again and the verdict of the first visit is kept: [rev_missing] = deps_loaded_ &&
   deps_missing_ at entry, [rev_dirty] = deps_loaded_ && some output dirty at entry; the final
   "if (revisit_deps_missing) deps_missing_ = true; if (revisit_dirty || revisit_deps_missing)
   dirty = true" is a no-op on a first visit (both are false), so it only appears in that branch. *)
Definition after_inputs (visit : node -> sv -> sres sv) (e : edge)
           (was_loaded rev_missing rev_dirty : bool)
           (s3 : sstate) (vs : list node) : sres sv :=
  let ins0 := es_ins (st_edge s3 e) in
  let '(s4, mri, dirty) := eval_inputs e ins0 0 s3 None false in
  let '(dirty1, s5) := if dirty then (true, s4) else outputs_dirty_all e (edge_outs e) mri s4 in
  if was_loaded then
    SOk (finish_edge (if rev_missing then set_deps_missing s5 e true else s5) e
                     (dirty1 || rev_dirty || rev_missing), vs)
  else if dirty1 then
    if load_deps_try s5 e then SOk (finish_edge s5 e true, vs)
    else SOk (finish_edge (set_deps_missing s5 e true) e true, vs)
  else
    match load_deps s5 e with
    | LdErr => SLoadErr e
    | LdFail => SOk (finish_edge (set_deps_missing s5 e true) e true, vs)
    | LdOk new_ins =>
      let first_idx := (length (es_ins (st_edge s5 e)) - ei_noo (g_edge g e))%nat in
      let s6 := splice_deps s5 e new_ins in
      match visit_all visit new_ins (s6, vs) with
      | SOk (s7, vs7) =>
        let '(s8, mri2, dirty2) := eval_inputs e new_ins first_idx s7 mri false in
        let dirty3 := if negb dirty2 && negb (opt_node_eqb mri mri2)
                      then outputs_dirty_depfile e mri2 s8 else dirty2 in
        SOk (finish_edge s8 e dirty3, vs7)
      | SCycle p => SCycle p
      | SLoadErr e' => SLoadErr e'
      | SOutOfFuel => SOutOfFuel
      end
    end.

(* DependencyScan::RecomputeNodeDirty.  [stack] is oldest-first like the C++ vector. *)
Fixpoint recompute_node_dirty (fuel : nat) (stack : list node) (n : node) (x : sv) : sres sv :=
  match fuel with
  | O => SOutOfFuel
  | S fuel' =>
    let '(s, vs) := x in
    match g_producer g n with
    | None =>
      if n_known (st_node s n) then SOk x
      else let s1 := stat_if_necessary w s n in
           SOk (set_dirty s1 n (negb (n_exists (st_node s1 n))), vs)
    | Some e =>
      match es_mark (st_edge s e) with
      | VisitDone => SOk x
      | VisitInStack => SCycle (cycle_path stack n e)
      | VisitNone =>
        let vs1 := vs ++ ei_vals (g_edge g e) in
        let was_loaded := es_deps_loaded (st_edge s e) in
        let rev_missing := was_loaded && es_deps_missing (st_edge s e) in
        let rev_dirty := was_loaded && existsb (fun o => ns_dirty (st_node s o)) (edge_outs e) in
        let s1 := enter_edge s e in
        let stack1 := stack ++ [n] in
        let s2 := stat_outputs s1 (edge_outs e) in
        let visit := recompute_node_dirty fuel' stack1 in
        match visit_all visit (es_ins (st_edge s2 e)) (s2, vs1) with
        | SOk (s3, vs3) => after_inputs visit e was_loaded rev_missing rev_dirty s3 vs3
        | err => err
        end
      end
    end
  end.

Definition scan_fuel : nat := (g_nedges g + 2)%nat.

(* DependencyScan::RecomputeDirty: the deque of the initial node and the validation nodes found
   on the way.  Returns the state and all validation nodes in discovery order. *)
Fixpoint recompute_dirty_loop (qfuel : nat) (queue : list node) (s : sstate) (found : list node)
  : sres sv :=
  match queue with
  | [] => SOk (s, found)
  | n :: queue' =>
    match qfuel with
    | O => SOutOfFuel
    | S qfuel' =>
      match recompute_node_dirty scan_fuel [] n (s, []) with
      | SOk (s', newv) => recompute_dirty_loop qfuel' (queue' ++ newv) s' (found ++ newv)
      | err => err
      end
    end
  end.

Fixpoint total_vals (k : nat) : nat :=
  match k with
  | O => O
  | S k' => (total_vals k' + length (ei_vals (g_edge g k')))%nat
  end.
Definition queue_fuel : nat := S (total_vals (g_nedges g)).

Definition recompute_dirty (s : sstate) (n : node) : sres sv :=
  recompute_dirty_loop queue_fuel [n] s [].

(* ------------------------------------------------------------------ the plan *)
Inductive want := WantNothing | WantToStart | WantToFinish.
Record plan := mkP {
  p_want : edge -> option want;       (* Plan::want_ (None = no entry) *)
  p_wanted : nat;                     (* wanted_edges_ *)
  p_commands : nat                    (* command_edges_ *)
}.
Definition init_plan : plan := mkP (fun _ => None) 0 0.

Definition set_want (p : plan) (e : edge) (v : want) : plan :=
  mkP (fun e' => if Nat.eqb e' e then Some v else p_want p e') (p_wanted p) (p_commands p).
(* Plan::EdgeWanted *)
Definition edge_wanted (p : plan) (e : edge) : plan :=
  mkP (p_want p) (S (p_wanted p)) (if ei_phony (g_edge g e) then p_commands p else S (p_commands p)).

Definition missing_err := (node * option node)%type.   (* 'n', needed by 'dependent', missing ... *)

(* the loop over edge->inputs_ in Plan::AddSubTarget: stops only at a [false] WITH a message *)
Definition ast_res := option (bool * option missing_err * plan).
Fixpoint ast_loop (visit : node -> plan -> ast_res) (ins : list node) (p : plan) : ast_res :=
  match ins with
  | [] => Some (true, None, p)
  | i :: ins' =>
    match visit i p with
    | None => None
    | Some (false, Some err, p') => Some (false, Some err, p')
    | Some (_, _, p') => ast_loop visit ins' p'
    end
  end.

(* Plan::AddSubTarget with dyndep_walk = NULL.  Result: None = out of fuel, otherwise
   (return value, err (None = empty string), plan). *)
Fixpoint add_sub_target (fuel : nat) (s : sstate) (dependent : option node) (n : node) (p : plan)
  : ast_res :=
  match fuel with
  | O => None
  | S fuel' =>
    match g_producer g n with
    | None =>
      if ns_dirty (st_node s n) && negb (g_byloader g n)
      then Some (false, Some (n, dependent), p)
      else Some (false, None, p)
    | Some e =>
      if es_ready (st_edge s e) then Some (false, None, p)
      else
        let inserted := match p_want p e with None => true | Some _ => false end in
        let w0 := match p_want p e with None => WantNothing | Some v => v end in
        let p1 := set_want p e w0 in
        let p2 := if ns_dirty (st_node s n) && match w0 with WantNothing => true | _ => false end
                  then edge_wanted (set_want p1 e WantToStart) e else p1 in
        if negb inserted then Some (true, None, p2)
        else ast_loop (add_sub_target fuel' s (Some n)) (es_ins (st_edge s e)) p2
    end
  end.

Definition plan_fuel : nat := (g_nedges g + 2)%nat.
(* Plan::AddTarget *)
Definition plan_add_target (s : sstate) (n : node) (p : plan) :=
  add_sub_target plan_fuel s None n p.

(* ------------------------------------------------------------------ Builder::AddTarget *)
Inductive scan_result :=
| ScanCycle (p : list node)
| ScanMissing (n : node) (dependent : option node)
| ScanLoadErr (e : edge)
| ScanOutOfFuel
| ScanOk (s : sstate) (p : plan).

(* the loop over the validation nodes; a [false] return without message ends the loop
   (Builder::AddTarget returns false, the caller goes on with the next target) *)
Fixpoint add_validation_targets (s : sstate) (vnodes : list node) (p : plan) : scan_result :=
  match vnodes with
  | [] => ScanOk s p
  | v :: vnodes' =>
    match g_producer g v with
    | None => add_validation_targets s vnodes' p
    | Some ve =>
      if es_ready (st_edge s ve) then add_validation_targets s vnodes' p
      else match plan_add_target s v p with
           | None => ScanOutOfFuel
           | Some (true, _, p') => add_validation_targets s vnodes' p'
           | Some (false, Some (m, d), _) => ScanMissing m d
           | Some (false, None, p') => ScanOk s p'
           end
    end
  end.

Definition builder_add_target (s : sstate) (p : plan) (t : node) : scan_result :=
  match recompute_dirty s t with
  | SCycle c => ScanCycle c
  | SLoadErr e => ScanLoadErr e
  | SOutOfFuel => ScanOutOfFuel
  | SOk (s', vnodes) =>
    let need := match g_producer g t with
                | None => true
                | Some e => negb (es_ready (st_edge s' e))
                end in
    if need then
      match plan_add_target s' t p with
      | None => ScanOutOfFuel
      | Some (true, _, p') => add_validation_targets s' vnodes p'
      | Some (false, Some (m, d), _) => ScanMissing m d
      | Some (false, None, p') => ScanOk s' p'
      end
    else add_validation_targets s' vnodes p
  end.

(* the loop over the targets in NinjaMain::RunBuild (one Builder, one State) *)
Fixpoint add_targets (s : sstate) (p : plan) (targets : list node) : scan_result :=
  match targets with
  | [] => ScanOk s p
  | t :: targets' =>
    match builder_add_target s p t with
    | ScanOk s' p' => add_targets s' p' targets'
    | err => err
    end
  end.

Definition scan (targets : list node) : scan_result :=
  add_targets (init_state g) init_plan targets.

End Scan.

(* Well-formedness used for fuel sufficiency: producers are edges of the graph. *)
Definition wf_graph (g : graph) : Prop :=
  forall n e, g_producer g n = Some e -> (e < g_nedges g)%nat.
