(* Theorems about Engine/CrashDefs.v (logic part of property C07).  No axioms.
   Overview, theorem list and findings: Engine/README_crash.md. *)
From NinjaV Require Import Base.Bytes Engine.CrashDefs.
Local Open Scope Z_scope.

(* ------------------------------------------------------------------ lists *)
Lemma nth_error_upd_nth {A : Type} (f : A -> A) : forall l i j,
  nth_error (upd_nth i f l) j
  = if Nat.eqb i j then option_map f (nth_error l j) else nth_error l j.
Proof.
  induction l as [|x l IH]; intros i j.
  - destruct i, j; cbn; try reflexivity; destruct (Nat.eqb _ _); reflexivity.
  - destruct i as [|i], j as [|j]; cbn [upd_nth nth_error Nat.eqb option_map]; try reflexivity.
    apply IH.
Qed.

Lemma upd_nth_length {A : Type} (f : A -> A) : forall l i, length (upd_nth i f l) = length l.
Proof.
  induction l as [|x l IH]; intros [|i]; cbn [upd_nth length]; try reflexivity.
  now rewrite IH.
Qed.

Lemma upd_nth_app_len {A : Type} (f : A -> A) : forall done x r,
  upd_nth (length done) f (done ++ x :: r) = done ++ f x :: r.
Proof.
  induction done as [|d done IH]; intros x r; cbn [length app upd_nth]; [reflexivity|].
  now rewrite IH.
Qed.

Lemma existsb_firstn_false {A : Type} (f : A -> bool) : forall l k,
  existsb f l = false -> existsb f (firstn k l) = false.
Proof.
  induction l as [|x l IH]; intros [|k] H; cbn [firstn existsb] in *; try reflexivity.
  apply orb_false_iff in H. destruct H as [Hx Hl]. rewrite Hx. cbn [orb]. now apply IH.
Qed.

Lemma existsb_skipn_false {A : Type} (f : A -> bool) : forall l k,
  existsb f l = false -> existsb f (skipn k l) = false.
Proof.
  induction l as [|x l IH]; intros [|k] H; cbn [skipn existsb] in *; try assumption.
  apply orb_false_iff in H. destruct H as [_ Hl]. now apply IH.
Qed.

(* ------------------------------------------------------------------ apply_all, crash *)
Lemma apply_all_app st a b : apply_all st (a ++ b) = apply_all (apply_all st a) b.
Proof. unfold apply_all. apply fold_left_app. Qed.

Lemma apply_tear st a : apply_all st (tear a) = st.
Proof. destruct a; reflexivity. Qed.

(* a torn last append leaves exactly the state of the prefix *)
Lemma crash_state st acts k torn :
  apply_all st (crash acts k torn) = apply_all st (firstn k acts).
Proof.
  unfold crash. rewrite apply_all_app. destruct torn; [|reflexivity].
  destruct (skipn k acts) as [|a rest]; [reflexivity|].
  cbn [firstn flat_map]. rewrite app_nil_r. apply apply_tear.
Qed.

(* ------------------------------------------------------------------ field-wise view of [apply] *)
Definition apply_outs (l : list orec) (a : action) : list orec :=
  match a with
  | ACmdWrite i c t => upd_nth i (set_file (Some (t, c))) l
  | ALogAppend i h m => upd_nth i (set_log (Some (h, m))) l
  | _ => l
  end.
Definition apply_dlog (x : option (Z * deps)) (a : action) : option (Z * deps) :=
  match a with
  | ADepsAppend i m d => if Nat.eqb i 0 then Some (m, d) else x
  | _ => x
  end.
Definition apply_depfile (x : option deps) (a : action) : option deps :=
  match a with
  | ACmdWriteDepfile d => Some d
  | ARemoveDepfile => None
  | _ => x
  end.

Lemma p_outs_apply st a : p_outs (apply st a) = apply_outs (p_outs st) a.
Proof. destruct a as [| | | | | | | |i m d|]; try reflexivity. cbn. destruct (Nat.eqb i 0); reflexivity. Qed.
Lemma p_dlog_apply st a : p_dlog (apply st a) = apply_dlog (p_dlog st) a.
Proof. destruct a as [| | | | | | | |i m d|]; try reflexivity. cbn. destruct (Nat.eqb i 0); reflexivity. Qed.
Lemma p_depfile_apply st a : p_depfile (apply st a) = apply_depfile (p_depfile st) a.
Proof. destruct a as [| | | | | | | |i m d|]; try reflexivity. cbn. destruct (Nat.eqb i 0); reflexivity. Qed.

Lemma p_outs_apply_all acts : forall st,
  p_outs (apply_all st acts) = fold_left apply_outs acts (p_outs st).
Proof.
  induction acts as [|a acts IH]; intros st; [reflexivity|].
  cbn [apply_all fold_left]. fold (apply_all (apply st a) acts). now rewrite IH, p_outs_apply.
Qed.
Lemma p_dlog_apply_all acts : forall st,
  p_dlog (apply_all st acts) = fold_left apply_dlog acts (p_dlog st).
Proof.
  induction acts as [|a acts IH]; intros st; [reflexivity|].
  cbn [apply_all fold_left]. fold (apply_all (apply st a) acts). now rewrite IH, p_dlog_apply.
Qed.
Lemma p_depfile_apply_all acts : forall st,
  p_depfile (apply_all st acts) = fold_left apply_depfile acts (p_depfile st).
Proof.
  induction acts as [|a acts IH]; intros st; [reflexivity|].
  cbn [apply_all fold_left]. fold (apply_all (apply st a) acts). now rewrite IH, p_depfile_apply.
Qed.

(* which actions touch which field *)
Definition t_outs (a : action) : bool :=
  match a with ACmdWrite _ _ _ | ALogAppend _ _ _ => true | _ => false end.
Definition t_file (a : action) : bool :=
  match a with ACmdWrite _ _ _ => true | _ => false end.
Definition t_dlog (a : action) : bool :=
  match a with ADepsAppend _ _ _ => true | _ => false end.
Definition t_depfile (a : action) : bool :=
  match a with ACmdWriteDepfile _ | ARemoveDepfile => true | _ => false end.
Definition is_log (i : nat) (a : action) : bool :=
  match a with ALogAppend j _ _ => Nat.eqb j i | _ => false end.

Lemma outs_untouched acts : forall l, existsb t_outs acts = false -> fold_left apply_outs acts l = l.
Proof.
  induction acts as [|a acts IH]; intros l H; [reflexivity|].
  cbn [existsb] in H. apply orb_false_iff in H. destruct H as [Ha H].
  cbn [fold_left]. rewrite IH by assumption. destruct a; try reflexivity; discriminate.
Qed.
Lemma dlog_untouched acts : forall x, existsb t_dlog acts = false -> fold_left apply_dlog acts x = x.
Proof.
  induction acts as [|a acts IH]; intros x H; [reflexivity|].
  cbn [existsb] in H. apply orb_false_iff in H. destruct H as [Ha H].
  cbn [fold_left]. rewrite IH by assumption. destruct a; try reflexivity; discriminate.
Qed.
Lemma depfile_untouched acts : forall x,
  existsb t_depfile acts = false -> fold_left apply_depfile acts x = x.
Proof.
  induction acts as [|a acts IH]; intros x H; [reflexivity|].
  cbn [existsb] in H. apply orb_false_iff in H. destruct H as [Ha H].
  cbn [fold_left]. rewrite IH by assumption. destruct a; try reflexivity; discriminate.
Qed.

(* the build-log entry of output i only changes through ITS log line *)
Lemma log_kept i acts : forall l, existsb (is_log i) acts = false ->
  option_map o_log (nth_error (fold_left apply_outs acts l) i) = option_map o_log (nth_error l i).
Proof.
  induction acts as [|a acts IH]; intros l H; [reflexivity|].
  cbn [existsb] in H. apply orb_false_iff in H. destruct H as [Ha H].
  cbn [fold_left]. rewrite IH by assumption.
  destruct a as [| |j c t| | | |j h m| | |]; cbn [apply_outs]; try reflexivity.
  - rewrite nth_error_upd_nth. destruct (Nat.eqb j i); [|reflexivity].
    destruct (nth_error l i) as [o|]; reflexivity.
  - cbn [is_log] in Ha. rewrite nth_error_upd_nth, Ha. reflexivity.
Qed.

Lemma outs_length acts : forall l, length (fold_left apply_outs acts l) = length l.
Proof.
  induction acts as [|a acts IH]; intros l; [reflexivity|].
  cbn [fold_left]. rewrite IH. destruct a; cbn [apply_outs]; try reflexivity; apply upd_nth_length.
Qed.

(* ------------------------------------------------------------------ durable reasons of dirtiness *)
Lemma stale_dirty_first c mri o : log_stale c mri o = true -> output_dirty_first c mri o = true.
Proof.
  unfold log_stale, output_dirty_first. intros H.
  destruct (Z.eqb (stat o) 0); [reflexivity|].
  destruct (o_log o) as [[h lm]|].
  - destruct (negb (c_restat c && true) && lt_mri (stat o) mri); [reflexivity|].
    destruct (negb (c_generator c) && negb (N.eqb (c_hash c) h)); [reflexivity|exact H].
  - destruct (negb (c_restat c && false) && lt_mri (stat o) mri); [reflexivity|exact H].
Qed.

Lemma log_stale_ext c mri o o' : o_log o = o_log o' -> log_stale c mri o = log_stale c mri o'.
Proof. unfold log_stale. intros ->. reflexivity. Qed.

Lemma existsb_nth_error {A : Type} (f : A -> bool) l i x :
  nth_error l i = Some x -> f x = true -> existsb f l = true.
Proof. intros Hn Hf. apply existsb_exists. exists x. split; [eapply nth_error_In; eassumption|assumption]. Qed.

Lemma stale_dirty c ins st i o :
  nth_error (p_outs st) i = Some o -> log_stale c (mri_of (i_explicit ins) None) o = true ->
  next_run_dirty c ins st = true.
Proof.
  intros Hn Hs. unfold next_run_dirty.
  destruct (any_missing (i_explicit ins)); [reflexivity|].
  rewrite (existsb_nth_error _ _ _ _ Hn (stale_dirty_first _ _ _ Hs)). reflexivity.
Qed.

Lemma missing_input_dirty c ins st : any_missing (i_explicit ins) = true -> next_run_dirty c ins st = true.
Proof. intros H. unfold next_run_dirty. now rewrite H. Qed.

(* ORDER-INDEPENDENT CORE: whatever happened, as long as the log line of output i was not appended,
   a stale entry of output i keeps the statement dirty *)
Lemma no_log_keeps_dirty c ins st0 acts i o :
  nth_error (p_outs st0) i = Some o -> log_stale c (mri_of (i_explicit ins) None) o = true ->
  existsb (is_log i) acts = false ->
  next_run_dirty c ins (apply_all st0 acts) = true.
Proof.
  intros Hn Hs Hno.
  pose proof (log_kept i acts (p_outs st0) Hno) as Hk. rewrite Hn in Hk. cbn [option_map] in Hk.
  rewrite <- p_outs_apply_all in Hk.
  destruct (nth_error (p_outs (apply_all st0 acts)) i) as [o'|] eqn:Hn'; [|discriminate].
  cbn [option_map] in Hk. injection Hk as Hk.
  apply (stale_dirty c ins _ i o' Hn'). rewrite (log_stale_ext c _ o' o Hk). exact Hs.
Qed.

(* ------------------------------------------------------------------ where the log lines are *)
Lemma cmd_writes_no_log f (Hf : forall i c t, f (ACmdWrite i c t) = false) restat :
  forall outs i ws, existsb f (cmd_writes restat i outs ws) = false.
Proof.
  induction outs as [|o outs IH]; intros i ws; [reflexivity|].
  destruct ws as [|[cc t] ws]; [reflexivity|]. cbn [cmd_writes].
  rewrite existsb_app, IH, orb_false_r.
  destruct (restat && same_content o cc); [reflexivity|]. cbn [existsb]. now rewrite Hf.
Qed.

Lemma start_no f (Hl : forall t, f (AWriteLock t) = false) (Hr : f AWriteRsp = false) c r :
  existsb f (start_actions c r) = false.
Proof. unfold start_actions. cbn [existsb]. rewrite Hl. destruct (c_rspfile c); cbn [existsb orb]; [now rewrite Hr|reflexivity]. Qed.

Lemma finish_no f (Hd : f ARemoveDepfile = false) (Hr : f ARemoveRsp = false) c :
  existsb f (finish_actions c) = false.
Proof.
  unfold finish_actions. rewrite existsb_app.
  destruct (c_deps c), (c_rspfile c); cbn [existsb orb]; rewrite ?Hd, ?Hr; reflexivity.
Qed.

Lemma cmd_actions_no f (Hw : forall i c t, f (ACmdWrite i c t) = false)
      (Hd : forall d, f (ACmdWriteDepfile d) = false) c r st0 :
  existsb f (cmd_actions c r st0) = false.
Proof.
  unfold cmd_actions. rewrite !existsb_app.
  rewrite existsb_firstn_false, existsb_skipn_false by (apply cmd_writes_no_log; exact Hw).
  destruct (has_depfile c); cbn [existsb orb]; rewrite ?Hd; reflexivity.
Qed.

Lemma deps_appends_no f (Hf : forall i m d, f (ADepsAppend i m d) = false) d :
  forall after i, existsb f (deps_appends i after d) = false.
Proof.
  induction after as [|a after IH]; intros i; [reflexivity|].
  cbn [deps_appends existsb]. now rewrite Hf, IH.
Qed.

Lemma deps_actions_no f (Hf : forall i m d, f (ADepsAppend i m d) = false) c r st0 :
  existsb f (deps_actions c r st0) = false.
Proof. unfold deps_actions. destruct (uses_depslog c); [now apply deps_appends_no|reflexivity]. Qed.

Lemma log_appends_no f (Hf : forall i h m, f (ALogAppend i h m) = false) h m :
  forall after i, existsb f (log_appends i after h m) = false.
Proof.
  induction after as [|a after IH]; intros i; [reflexivity|].
  cbn [log_appends existsb]. now rewrite Hf, IH.
Qed.

(* the first j log lines starting at index s are those of outputs s .. s+j-1 *)
Lemma log_appends_firstn i h m : forall after s j, (s + j <= i)%nat ->
  existsb (is_log i) (firstn j (log_appends s after h m)) = false.
Proof.
  induction after as [|a after IH]; intros s j Hj.
  - cbn [log_appends]. now rewrite firstn_nil.
  - destruct j as [|j]; [reflexivity|]. cbn [log_appends firstn existsb is_log].
    rewrite IH by lia. destruct (Nat.eqb_spec s i) as [E|E]; [lia|reflexivity].
Qed.

Lemma existsb_firstn_app {A : Type} (f : A -> bool) k a b :
  existsb f (firstn k (a ++ b)) = existsb f (firstn k a) || existsb f (firstn (k - length a) b).
Proof. now rewrite firstn_app, existsb_app. Qed.

Lemma no_log_in_prefix c r st0 i k : (k <= pre_len c r st0 + i)%nat ->
  existsb (is_log i) (firstn k (run_actions c r st0)) = false.
Proof.
  intros Hk. unfold run_actions, pre_len in *. rewrite !app_length in Hk.
  rewrite !existsb_firstn_app.
  rewrite (existsb_firstn_false _ (start_actions c r)) by (apply start_no; reflexivity).
  rewrite (existsb_firstn_false _ (cmd_actions c r st0)) by (apply cmd_actions_no; reflexivity).
  rewrite (existsb_firstn_false _ (finish_actions c)) by (apply finish_no; reflexivity).
  rewrite (existsb_firstn_false _ (deps_actions c r st0)) by (apply deps_actions_no; reflexivity).
  unfold log_actions. rewrite log_appends_firstn by lia. reflexivity.
Qed.

(* ================================================================== C07_prefix_redone *)
(* No hypothesis on ticks, on what the command writes, or on atomicity is needed here: the reason of
   dirtiness is in a durable record that only the log line of THIS run replaces. *)
Theorem prefix_redone : forall c r ins st0 i o k torn,
  nth_error (p_outs st0) i = Some o ->
  log_stale c (mri_of (i_explicit ins) None) o = true ->
  (k <= pre_len c r st0 + i)%nat ->
  next_run_dirty c ins (apply_all st0 (crash (run_actions c r st0) k torn)) = true.
Proof.
  intros c r ins st0 i o k torn Hn Hs Hk. rewrite crash_state.
  eapply no_log_keeps_dirty; [exact Hn|exact Hs|]. now apply no_log_in_prefix.
Qed.

Lemma written_length restat : forall outs ws, length (written restat outs ws) = length outs.
Proof.
  induction outs as [|o outs IH]; intros ws; [reflexivity|].
  destruct ws as [|[cc t] ws]; [reflexivity|]. cbn [written length]. now rewrite IH.
Qed.
Lemma log_appends_length h m : forall after i, length (log_appends i after h m) = length after.
Proof. induction after as [|a after IH]; intros i; [reflexivity|]. cbn [log_appends length]. now rewrite IH. Qed.
Lemma deps_appends_length d : forall after i, length (deps_appends i after d) = length after.
Proof. induction after as [|a after IH]; intros i; [reflexivity|]. cbn [deps_appends length]. now rewrite IH. Qed.

Lemma commit_len_eq c r st0 : commit_len c r st0 = (pre_len c r st0 + length (p_outs st0))%nat.
Proof.
  unfold commit_len, run_actions, pre_len, log_actions.
  rewrite !app_length, log_appends_length, written_length. lia.
Qed.

(* all entries stale (never built / an input edited since the last record / command changed):
   dirty until the LAST log line -- the last action of the run -- is on disk: EVERY strict prefix *)
Theorem prefix_redone_all : forall c r ins st0 k torn,
  p_outs st0 <> [] ->
  forallb (log_stale c (mri_of (i_explicit ins) None)) (p_outs st0) = true ->
  (k < commit_len c r st0)%nat ->
  next_run_dirty c ins (apply_all st0 (crash (run_actions c r st0) k torn)) = true.
Proof.
  intros c r ins st0 k torn Hne Hall Hk. rewrite commit_len_eq in Hk.
  set (i := (k - pre_len c r st0)%nat).
  assert (Hi : (i < length (p_outs st0))%nat).
  { unfold i. destruct (p_outs st0); [congruence|]. cbn [length] in *. lia. }
  destruct (nth_error (p_outs st0) i) as [o|] eqn:Hn; [|apply nth_error_None in Hn; lia].
  apply (prefix_redone c r ins st0 i o k torn Hn).
  - rewrite forallb_forall in Hall. apply Hall. eapply nth_error_In; eassumption.
  - unfold i. lia.
Qed.

(* ------------------------------------------------------------------ the state after the command / the run *)
Lemma cmd_writes_outs restat : forall outs ws done,
  fold_left apply_outs (cmd_writes restat (length done) outs ws) (done ++ outs)
  = done ++ written restat outs ws.
Proof.
  induction outs as [|o outs IH]; intros ws done; [reflexivity|].
  destruct ws as [|[cc t] ws]; [reflexivity|]. cbn [cmd_writes written].
  rewrite fold_left_app.
  destruct (restat && same_content o cc).
  - cbn [fold_left].
    replace (done ++ o :: outs) with ((done ++ [o]) ++ outs) by (now rewrite <- app_assoc).
    replace (S (length done)) with (length (done ++ [o])) by (rewrite app_length; cbn; lia).
    rewrite IH. now rewrite <- app_assoc.
  - cbn [fold_left apply_outs]. rewrite upd_nth_app_len.
    replace (done ++ set_file (Some (t, cc)) o :: outs)
      with ((done ++ [set_file (Some (t, cc)) o]) ++ outs) by (now rewrite <- app_assoc).
    replace (S (length done)) with (length (done ++ [set_file (Some (t, cc)) o]))
      by (rewrite app_length; cbn; lia).
    rewrite IH. now rewrite <- app_assoc.
Qed.

Lemma cmd_actions_outs c r st0 :
  fold_left apply_outs (cmd_actions c r st0) (p_outs st0)
  = written (c_restat c) (p_outs st0) (r_writes r).
Proof.
  unfold cmd_actions. rewrite !fold_left_app.
  assert (Hd : forall l, fold_left apply_outs
            (if has_depfile c then [ACmdWriteDepfile (r_deps r)] else []) l = l)
    by (intros l; destruct (has_depfile c); reflexivity).
  rewrite Hd, <- fold_left_app, firstn_skipn.
  exact (cmd_writes_outs (c_restat c) (p_outs st0) (r_writes r) []).
Qed.

Lemma log_appends_outs h m : forall after cur done, length after = length cur ->
  fold_left apply_outs (log_appends (length done) after h m) (done ++ cur)
  = done ++ map (set_log (Some (h, m))) cur.
Proof.
  induction after as [|a after IH]; intros cur done Hl.
  - destruct cur; [reflexivity|discriminate].
  - destruct cur as [|o cur]; [discriminate|]. cbn [length] in Hl.
    cbn [log_appends fold_left apply_outs map]. rewrite upd_nth_app_len.
    replace (done ++ set_log (Some (h, m)) o :: cur)
      with ((done ++ [set_log (Some (h, m)) o]) ++ cur) by (now rewrite <- app_assoc).
    replace (S (length done)) with (length (done ++ [set_log (Some (h, m)) o]))
      by (rewrite app_length; cbn; lia).
    rewrite IH by lia. now rewrite <- app_assoc.
Qed.

Definition after_cmd (c : cfg) (r : run) (st0 : pstate) : list orec :=
  written (c_restat c) (p_outs st0) (r_writes r).
Definition rec_mtime (c : cfg) (r : run) (st0 : pstate) : Z :=
  record_mtime c (r_start r) (p_outs st0) (after_cmd c r st0).

Lemma final_outs c r st0 :
  p_outs (apply_all st0 (run_actions c r st0))
  = map (set_log (Some (c_hash c, rec_mtime c r st0))) (after_cmd c r st0).
Proof.
  rewrite p_outs_apply_all. unfold run_actions. rewrite !fold_left_app.
  rewrite (outs_untouched (start_actions c r)) by (apply start_no; reflexivity).
  rewrite cmd_actions_outs.
  rewrite (outs_untouched (finish_actions c)) by (apply finish_no; reflexivity).
  rewrite (outs_untouched (deps_actions c r st0)) by (apply deps_actions_no; reflexivity).
  unfold log_actions. fold (after_cmd c r st0). fold (rec_mtime c r st0).
  exact (log_appends_outs _ _ (after_cmd c r st0) (after_cmd c r st0) [] eq_refl).
Qed.

Lemma deps_appends_dlog_tail d : forall after i x, (0 < i)%nat ->
  fold_left apply_dlog (deps_appends i after d) x = x.
Proof.
  induction after as [|a after IH]; intros i x Hi; [reflexivity|].
  cbn [deps_appends fold_left apply_dlog].
  destruct (Nat.eqb_spec i 0) as [E|E]; [lia|]. apply IH. lia.
Qed.

Lemma final_dlog c r st0 :
  p_dlog (apply_all st0 (run_actions c r st0))
  = if uses_depslog c
    then match after_cmd c r st0 with a :: _ => Some (stat a, r_deps r) | [] => p_dlog st0 end
    else p_dlog st0.
Proof.
  rewrite p_dlog_apply_all. unfold run_actions. rewrite !fold_left_app.
  rewrite (dlog_untouched (start_actions c r)) by (apply start_no; reflexivity).
  rewrite (dlog_untouched (cmd_actions c r st0)) by (apply cmd_actions_no; reflexivity).
  rewrite (dlog_untouched (finish_actions c)) by (apply finish_no; reflexivity).
  rewrite (dlog_untouched (log_actions c r st0)) by (apply log_appends_no; reflexivity).
  unfold deps_actions. fold (after_cmd c r st0). destruct (uses_depslog c); [|reflexivity].
  destruct (after_cmd c r st0) as [|a rest]; [reflexivity|].
  cbn [deps_appends fold_left apply_dlog Nat.eqb]. apply deps_appends_dlog_tail. lia.
Qed.

Lemma final_depfile c r st0 :
  p_depfile (apply_all st0 (run_actions c r st0))
  = match c_deps c with DDepfile => Some (r_deps r) | DGcc => None | _ => p_depfile st0 end.
Proof.
  rewrite p_depfile_apply_all. unfold run_actions. rewrite !fold_left_app.
  rewrite (depfile_untouched (start_actions c r)) by (apply start_no; reflexivity).
  rewrite (depfile_untouched (deps_actions c r st0)) by (apply deps_actions_no; reflexivity).
  rewrite (depfile_untouched (log_actions c r st0)) by (apply log_appends_no; reflexivity).
  unfold cmd_actions, finish_actions, has_depfile. rewrite !fold_left_app.
  rewrite (depfile_untouched (firstn _ _))
    by (apply existsb_firstn_false, cmd_writes_no_log; reflexivity).
  rewrite (depfile_untouched (skipn _ _))
    by (apply existsb_skipn_false, cmd_writes_no_log; reflexivity).
  destruct (c_deps c), (c_rspfile c); reflexivity.
Qed.

(* ------------------------------------------------------------------ most-recent-input arithmetic *)
Lemma lt_mri_of_bound x : forall l mri0, Forall (fun m => m <= x) l -> lt_mri x mri0 = false ->
  lt_mri x (mri_of l mri0) = false.
Proof.
  unfold mri_of. induction l as [|m l IH]; intros mri0 Hl H0; [exact H0|].
  inversion Hl as [|m' l' Hm Hl']; subst. cbn [fold_left]. apply IH; [assumption|].
  destruct mri0 as [y|]; cbn [newer lt_mri] in *.
  - destruct (Z.gtb m y); cbn [lt_mri]; [apply Z.ltb_ge; lia|exact H0].
  - apply Z.ltb_ge; lia.
Qed.

Lemma lt_mri_mono x y mri : x <= y -> lt_mri x mri = false -> lt_mri y mri = false.
Proof. destruct mri as [m|]; cbn [lt_mri]; [|reflexivity]. rewrite !Z.ltb_ge. lia. Qed.

Lemma opt_eqb_eq a b : opt_eqb a b = true -> a = b.
Proof. destruct a, b; cbn [opt_eqb]; try discriminate; try reflexivity. intros H. apply Z.eqb_eq in H. now subst. Qed.

Lemma any_missing_false l : Forall (fun m => 0 < m) l -> any_missing l = false.
Proof.
  unfold any_missing. induction 1 as [|m l Hm Hl IH]; [reflexivity|].
  cbn [existsb]. rewrite IH, orb_false_r. apply Z.eqb_neq. lia.
Qed.

Lemma existsb_map_false {A B : Type} (P : A -> Prop) (f : B -> bool) (g : A -> B) l :
  Forall P l -> (forall a, P a -> f (g a) = false) -> existsb f (map g l) = false.
Proof.
  intros Hl Hf. induction Hl as [|a l Ha Hl IH]; [reflexivity|].
  cbn [map existsb]. now rewrite (Hf a Ha), IH.
Qed.

(* ------------------------------------------------------------------ record_mtime >= start tick *)
Lemma restat_loop_ge restat : forall scan after rm cl, rm <= fst (restat_loop restat scan after rm cl).
Proof.
  induction scan as [|s scan IH]; intros after rm cl; [cbn; lia|].
  destruct after as [|a after]; [cbn; lia|]. cbn [restat_loop].
  etransitivity; [|apply IH]. destruct (Z.gtb_spec (stat a) rm); lia.
Qed.

Lemma record_mtime_ge c start scan after : start <= record_mtime c start scan after.
Proof.
  unfold record_mtime. destruct (Z.eqb start 0 || c_restat c || c_generator c); [|lia].
  pose proof (restat_loop_ge (c_restat c) scan after start false) as H.
  destruct (restat_loop (c_restat c) scan after start false) as [rm cl]. cbn [fst] in H.
  destruct cl; lia.
Qed.

(* ------------------------------------------------------------------ what the command leaves *)
(* hypotheses on one execution: the lock tick is a real tick, the command writes every output of
   the statement, and not before the lock tick *)
Definition run_ok (r : run) (st0 : pstate) : Prop :=
  0 < r_start r /\ length (r_writes r) = length (p_outs st0)
  /\ Forall (fun w => r_start r <= snd w) (r_writes r).

Lemma written_ok restat start : 0 < start -> forall outs ws,
  length ws = length outs -> Forall (fun w => start <= snd w) ws ->
  Forall (fun o => stat o <> 0 /\ (restat = false -> start <= stat o)) (written restat outs ws).
Proof.
  intros Hs. induction outs as [|o outs IH]; intros ws Hl Hw; [constructor|].
  destruct ws as [|[cc t] ws]; [discriminate|]. cbn [length] in Hl.
  inversion Hw as [|w ws' Ht Hw']; subst. cbn [snd] in Ht.
  cbn [written]. constructor; [|apply IH; [lia|assumption]].
  destruct restat; cbn [andb].
  - destruct (same_content o cc) eqn:Hsc.
    + split; [|discriminate]. unfold same_content in Hsc. unfold stat.
      destruct (o_file o) as [[m c']|]; [|discriminate].
      apply andb_true_iff in Hsc. destruct Hsc as [Hm _]. apply negb_true_iff, Z.eqb_neq in Hm. exact Hm.
    + unfold stat, set_file. cbn [o_file]. split; [lia|discriminate].
  - unfold stat, set_file. cbn [o_file]. split; [lia|intros _; lia].
Qed.

Lemma stat_set_log v o : stat (set_log v o) = stat o.
Proof. reflexivity. Qed.

(* an output left by the command and carrying this run's log line passes both per-output tests *)
Lemma recorded_output_clean c start rm mri o :
  stat o <> 0 -> (c_restat c = false -> start <= stat o) -> start <= rm ->
  lt_mri start mri = false ->
  output_dirty_first c mri (set_log (Some (c_hash c, rm)) o) = false
  /\ output_dirty_again c mri (set_log (Some (c_hash c, rm)) o) = false.
Proof.
  intros Hex Hnew Hrm Hmri.
  assert (Hlm : lt_mri rm mri = false) by (eapply lt_mri_mono; eassumption).
  unfold output_dirty_first, output_dirty_again. rewrite stat_set_log. cbn [set_log o_log].
  apply Z.eqb_neq in Hex. rewrite Hex, N.eqb_refl, Hlm. cbn [negb]. rewrite andb_false_r.
  destruct (c_restat c) eqn:Hr; cbn [andb negb]; [split; reflexivity|].
  rewrite (lt_mri_mono start (stat o) mri (Hnew eq_refl) Hmri). split; reflexivity.
Qed.

(* ================================================================== C07_complete_clean *)
Definition inputs_old (ins : inputs) (r : run) : Prop :=
  Forall (fun m => 0 < m <= r_start r) (i_explicit ins)
  /\ Forall (fun m => 0 < m <= r_start r) (map (i_hdr ins) (r_deps r)).

Lemma Forall_lt_le (x : Z) l : Forall (fun m => 0 < m <= x) l ->
  Forall (fun m => 0 < m) l /\ Forall (fun m => m <= x) l.
Proof. induction 1 as [|m l Hm Hl [IH1 IH2]]; split; constructor; try assumption; lia. Qed.

Theorem complete_clean : forall c r ins st0,
  p_outs st0 <> [] -> run_ok r st0 -> inputs_old ins r ->
  next_run_dirty c ins (apply_all st0 (run_actions c r st0)) = false.
Proof.
  intros c r ins st0 Hne [Hs [Hlen Hw]] [Hex Hhd].
  apply Forall_lt_le in Hex. destruct Hex as [Hex0 Hex1].
  apply Forall_lt_le in Hhd. destruct Hhd as [Hhd0 Hhd1].
  pose proof (written_ok (c_restat c) (r_start r) Hs (p_outs st0) (r_writes r) Hlen Hw) as Hwr.
  fold (after_cmd c r st0) in Hwr.
  pose proof (record_mtime_ge c (r_start r) (p_outs st0) (after_cmd c r st0)) as Hrm.
  fold (rec_mtime c r st0) in Hrm.
  set (mri := mri_of (i_explicit ins) None).
  assert (Hmri : lt_mri (r_start r) mri = false) by (apply lt_mri_of_bound; [assumption|reflexivity]).
  unfold next_run_dirty. rewrite (any_missing_false _ Hex0). fold mri.
  rewrite final_outs.
  rewrite (existsb_map_false _ (output_dirty_first c mri) _ _ Hwr)
    by (intros a [Ha1 Ha2]; now apply (recorded_output_clean c (r_start r))).
  (* the deps the next scan loads are [] or exactly the ones this run reported *)
  assert (Hld : load_deps c (apply_all st0 (run_actions c r st0)) = LdOk []
                \/ load_deps c (apply_all st0 (run_actions c r st0)) = LdOk (r_deps r)).
  { unfold load_deps. rewrite final_outs, final_dlog, final_depfile. unfold uses_depslog.
    assert (Hac : after_cmd c r st0 <> []).
    { intros E. apply Hne. apply length_zero_iff_nil.
      unfold after_cmd in E. now rewrite <- (written_length (c_restat c) _ (r_writes r)), E. }
    destruct (after_cmd c r st0) as [|a rest]; [congruence|]. cbn [map].
    rewrite stat_set_log.
    assert (Hg : Z.gtb (stat a) (stat a) = false) by (destruct (Z.gtb_spec (stat a) (stat a)); [lia|reflexivity]).
    destruct (c_deps c); rewrite ?Hg; auto. }
  assert (Htail : forall d, Forall (fun m => 0 < m) (map (i_hdr ins) d) ->
            Forall (fun m => m <= r_start r) (map (i_hdr ins) d) ->
            (if any_missing (map (i_hdr ins) d) then true
             else if opt_eqb mri (mri_of (map (i_hdr ins) d) mri) then false
                  else existsb (output_dirty_again c (mri_of (map (i_hdr ins) d) mri))
                         (map (set_log (Some (c_hash c, rec_mtime c r st0))) (after_cmd c r st0))) = false).
  { intros d Hd0 Hd1. rewrite (any_missing_false _ Hd0).
    destruct (opt_eqb mri (mri_of (map (i_hdr ins) d) mri)); [reflexivity|].
    apply (existsb_map_false _ _ _ _ Hwr). intros a [Ha1 Ha2].
    apply (recorded_output_clean c (r_start r)); try assumption.
    now apply lt_mri_of_bound. }
  destruct Hld as [Hld|Hld]; rewrite Hld.
  - apply (Htail []); constructor.
  - now apply Htail.
Qed.

(* ================================================================== C07_edit_during_run_picked_up *)
Lemma lt_mri_of_keep x : forall l mri0, lt_mri x mri0 = true -> lt_mri x (mri_of l mri0) = true.
Proof.
  unfold mri_of. induction l as [|m l IH]; intros mri0 H0; [exact H0|].
  cbn [fold_left]. apply IH. destruct mri0 as [y|]; [|discriminate]. cbn [newer lt_mri] in *.
  destruct (Z.gtb_spec m y); cbn [lt_mri]; [|exact H0]. apply Z.ltb_lt in H0. apply Z.ltb_lt. lia.
Qed.

Lemma lt_mri_of_in x m : forall l mri0, In m l -> x < m -> lt_mri x (mri_of l mri0) = true.
Proof.
  induction l as [|y l IH]; intros mri0 Hin Hx; [destruct Hin|].
  destruct Hin as [->|Hin].
  - change (mri_of (m :: l) mri0) with (mri_of l (newer mri0 m)). apply lt_mri_of_keep.
    destruct mri0 as [z|]; cbn [newer lt_mri]; [|apply Z.ltb_lt; lia].
    destruct (Z.gtb_spec m z); cbn [lt_mri]; apply Z.ltb_lt; lia.
  - change (mri_of (y :: l) mri0) with (mri_of l (newer mri0 y)). now apply IH.
Qed.

Lemma record_mtime_plain c start scan after :
  c_restat c = false -> c_generator c = false -> start <> 0 -> record_mtime c start scan after = start.
Proof. intros Hr Hg Hs. unfold record_mtime. rewrite Hr, Hg. apply Z.eqb_neq in Hs. now rewrite Hs. Qed.

Lemma after_cmd_nonempty c r st0 : p_outs st0 <> [] -> after_cmd c r st0 <> [].
Proof.
  intros Hne E. apply Hne, length_zero_iff_nil.
  unfold after_cmd in E. now rewrite <- (written_length (c_restat c) _ (r_writes r)), E.
Qed.

Definition loaded_deps (c : cfg) (r : run) : deps :=
  match c_deps c with DNone => [] | _ => r_deps r end.

Lemma final_load_deps c r st0 : p_outs st0 <> [] ->
  load_deps c (apply_all st0 (run_actions c r st0)) = LdOk (loaded_deps c r).
Proof.
  intros Hne. unfold load_deps, loaded_deps. rewrite final_outs, final_dlog, final_depfile. unfold uses_depslog.
  pose proof (after_cmd_nonempty c r st0 Hne) as Hac.
  destruct (after_cmd c r st0) as [|a rest]; [congruence|]. cbn [map]. rewrite stat_set_log.
  assert (Hg : Z.gtb (stat a) (stat a) = false) by (destruct (Z.gtb_spec (stat a) (stat a)); [lia|reflexivity]).
  destruct (c_deps c); rewrite ?Hg; reflexivity.
Qed.

(* a manifest input modified after the start tick: the recorded mtime (= start tick) is older *)
Theorem edit_during_run_picked_up : forall c r ins st0 m,
  c_restat c = false -> c_generator c = false -> r_start r <> 0 -> p_outs st0 <> [] ->
  In m (i_explicit ins) -> r_start r < m ->
  next_run_dirty c ins (apply_all st0 (run_actions c r st0)) = true.
Proof.
  intros c r ins st0 m Hr Hg Hs Hne Hin Hm.
  pose proof (after_cmd_nonempty c r st0 Hne) as Hac.
  destruct (after_cmd c r st0) as [|a rest] eqn:Ea; [congruence|].
  apply (stale_dirty c ins _ 0%nat (set_log (Some (c_hash c, rec_mtime c r st0)) a)).
  - rewrite final_outs, Ea. reflexivity.
  - unfold log_stale. cbn [set_log o_log]. unfold rec_mtime.
    rewrite record_mtime_plain by assumption.
    rewrite (lt_mri_of_in (r_start r) m _ None Hin Hm). apply orb_true_r.
Qed.

(* the same for a discovered input (header) the command reported *)
Theorem edit_header_during_run_picked_up : forall c r ins st0 h,
  c_restat c = false -> c_generator c = false -> r_start r <> 0 -> p_outs st0 <> [] ->
  c_deps c <> DNone -> In h (r_deps r) -> r_start r < i_hdr ins h ->
  next_run_dirty c ins (apply_all st0 (run_actions c r st0)) = true.
Proof.
  intros c r ins st0 h Hr Hg Hs Hne Hdk Hin Hm.
  pose proof (after_cmd_nonempty c r st0 Hne) as Hac.
  destruct (after_cmd c r st0) as [|a rest] eqn:Ea; [congruence|].
  set (mri := mri_of (i_explicit ins) None).
  destruct (lt_mri (r_start r) mri) eqn:Hlt.
  - apply (stale_dirty c ins _ 0%nat (set_log (Some (c_hash c, rec_mtime c r st0)) a)).
    + rewrite final_outs, Ea. reflexivity.
    + unfold log_stale. cbn [set_log o_log]. unfold rec_mtime.
      rewrite record_mtime_plain by assumption. fold mri. rewrite Hlt. apply orb_true_r.
  - unfold next_run_dirty. fold mri.
    destruct (any_missing (i_explicit ins)); [reflexivity|].
    destruct (existsb (output_dirty_first c mri) _); [reflexivity|].
    rewrite final_load_deps by assumption.
    assert (Ed : loaded_deps c r = r_deps r)
      by (unfold loaded_deps; destruct (c_deps c); congruence).
    rewrite Ed.
    destruct (any_missing (map (i_hdr ins) (r_deps r))); [reflexivity|].
    assert (Hlt2 : lt_mri (r_start r) (mri_of (map (i_hdr ins) (r_deps r)) mri) = true)
      by (apply (lt_mri_of_in _ (i_hdr ins h)); [now apply in_map|assumption]).
    destruct (opt_eqb mri (mri_of (map (i_hdr ins) (r_deps r)) mri)) eqn:He.
    + apply opt_eqb_eq in He. rewrite <- He in Hlt2. congruence.
    + rewrite final_outs, Ea. cbn [map existsb]. apply orb_true_iff. left.
      unfold output_dirty_again. cbn [set_log o_log]. unfold rec_mtime.
      rewrite record_mtime_plain by assumption. rewrite Hlt2.
      destruct (negb (c_restat c && true) && lt_mri _ _); reflexivity.
Qed.

(* the exception for restat / generator statements: they record the newest OUTPUT mtime, so an
   input edited between the start tick and the command's last write is NOT picked up *)
Example edit_during_run_restat_generator_exception :
  let ins := mkIn [11] (fun _ => 2) in            (* a.c edited at tick 11 > start tick 10 *)
  let r := mkRun 10 [(100%N, 12)] [] 0 in         (* ... before the command wrote out at 12 *)
  let st0 := mkP [mkO None None] None None false false in
  next_run_dirty (mkCfg 77 true false DNone false) ins
     (apply_all st0 (run_actions (mkCfg 77 true false DNone false) r st0)) = false
  /\ next_run_dirty (mkCfg 77 false true DNone false) ins
     (apply_all st0 (run_actions (mkCfg 77 false true DNone false) r st0)) = false
  /\ next_run_dirty (mkCfg 77 false false DNone false) ins
     (apply_all st0 (run_actions (mkCfg 77 false false DNone false) r st0)) = true.
Proof. vm_compute. repeat split; reflexivity. Qed.

(* ================================================================== deps records before log lines *)
Lemma map_upd_nth_same {A B : Type} (g : A -> B) (f : A -> A) (Hg : forall x, g (f x) = g x) :
  forall l i, map g (upd_nth i f l) = map g l.
Proof.
  induction l as [|x l IH]; intros [|i]; cbn [upd_nth map]; try reflexivity.
  - now rewrite Hg.
  - now rewrite IH.
Qed.

Lemma file_kept acts : forall l, existsb t_file acts = false ->
  map o_file (fold_left apply_outs acts l) = map o_file l.
Proof.
  induction acts as [|a acts IH]; intros l H; [reflexivity|].
  cbn [existsb] in H. apply orb_false_iff in H. destruct H as [Ha H].
  cbn [fold_left]. rewrite IH by assumption.
  destruct a; cbn [apply_outs]; try reflexivity; [discriminate|].
  apply map_upd_nth_same. reflexivity.
Qed.

Lemma firstn_app_ge {A : Type} (a b : list A) k : (length a <= k)%nat ->
  firstn k (a ++ b) = a ++ firstn (k - length a) b.
Proof. intros H. rewrite firstn_app. now rewrite firstn_all2 by assumption. Qed.

(* From the first build-log line on (crash point >= pre_len) everything else this run persists is
   already final: the deps record, the depfile (removed for deps=gcc), the output files. *)
Theorem deps_before_log_commit : forall c r st0 k torn, (pre_len c r st0 <= k)%nat ->
  let st := apply_all st0 (crash (run_actions c r st0) k torn) in
  let fin := apply_all st0 (run_actions c r st0) in
  p_dlog st = p_dlog fin /\ p_depfile st = p_depfile fin
  /\ map o_file (p_outs st) = map o_file (p_outs fin).
Proof.
  intros c r st0 k torn Hk. cbv zeta. rewrite crash_state. unfold pre_len in Hk.
  set (Pre := start_actions c r ++ cmd_actions c r st0 ++ finish_actions c ++ deps_actions c r st0) in *.
  assert (Erun : run_actions c r st0 = Pre ++ log_actions c r st0).
  { unfold run_actions, Pre. now rewrite <- !app_assoc. }
  rewrite Erun, firstn_app_ge by assumption.
  set (X := firstn (k - length Pre) (log_actions c r st0)).
  assert (HL : forall f, (forall i h m, f (ALogAppend i h m) = false) ->
                         existsb f X = false /\ existsb f (log_actions c r st0) = false).
  { intros f Hf. split; [apply existsb_firstn_false|]; now apply log_appends_no. }
  destruct (HL t_dlog (fun _ _ _ => eq_refl)) as [Hd1 Hd2].
  destruct (HL t_depfile (fun _ _ _ => eq_refl)) as [Hf1 Hf2].
  destruct (HL t_file (fun _ _ _ => eq_refl)) as [Ho1 Ho2].
  rewrite !p_dlog_apply_all, !p_depfile_apply_all, !p_outs_apply_all, !fold_left_app.
  rewrite (dlog_untouched X), (dlog_untouched (log_actions c r st0)) by assumption.
  rewrite (depfile_untouched X), (depfile_untouched (log_actions c r st0)) by assumption.
  rewrite (file_kept X), (file_kept (log_actions c r st0)) by assumption.
  repeat split; reflexivity.
Qed.

(* a log line of this run is durable => the crash point is past all deps records *)
Lemma log_line_after_deps c r st0 i k :
  existsb (is_log i) (firstn k (run_actions c r st0)) = true -> (pre_len c r st0 + i < k)%nat.
Proof.
  intros H. destruct (Nat.ltb_spec (pre_len c r st0 + i) k) as [Hlt|Hge]; [exact Hlt|].
  rewrite no_log_in_prefix in H by assumption. discriminate.
Qed.

(* THE POSITIVE THEOREM OF THE NEW ORDER.  If a crashed run leaves the statement clean although the
   entry of some output was stale before it (so the verdict does rest on this run), then what the
   run learned is on disk: the deps record is the one this run reported, the depfile and the output
   files are the final ones. *)
Theorem clean_implies_deps_recorded : forall c r ins st0 i o k torn,
  nth_error (p_outs st0) i = Some o ->
  log_stale c (mri_of (i_explicit ins) None) o = true ->
  let st := apply_all st0 (crash (run_actions c r st0) k torn) in
  next_run_dirty c ins st = false ->
  p_dlog st = (if uses_depslog c
               then match after_cmd c r st0 with a :: _ => Some (stat a, r_deps r) | [] => p_dlog st0 end
               else p_dlog st0)
  /\ p_depfile st = p_depfile (apply_all st0 (run_actions c r st0))
  /\ map o_file (p_outs st) = map o_file (after_cmd c r st0).
Proof.
  intros c r ins st0 i o k torn Hn Hs st Hc.
  assert (Hk : (pre_len c r st0 <= k)%nat).
  { destruct (Nat.leb_spec k (pre_len c r st0 + i)) as [Hle|Hgt]; [|lia].
    unfold st in Hc. rewrite (prefix_redone c r ins st0 i o k torn Hn Hs Hle) in Hc. discriminate. }
  destruct (deps_before_log_commit c r st0 k torn Hk) as [H1 [H2 H3]]. fold st in H1, H2, H3.
  rewrite H1, H2, H3, final_dlog, final_outs, map_map. repeat split; reflexivity.
Qed.

(* ================================================================== C07_interrupt_cleanup *)
(* Unconditional postcondition of Cleanup: every output that survives has its scan-time mtime;
   nothing survives for depfile statements; the lock is gone; no log is touched. *)
Lemma cleanup_outs_mtime dep : forall scan cur, length scan = length cur ->
  Forall2 (fun s o' => o_file o' = None \/ (dep = false /\ stat o' = stat s))
          scan (cleanup_outs dep scan cur).
Proof.
  induction scan as [|s scan IH]; intros [|o cur] Hl; try discriminate; [constructor|].
  cbn [cleanup_outs]. cbn [length] in Hl. constructor; [|apply IH; lia].
  destruct dep; cbn [orb]; [left; reflexivity|].
  destruct (Z.eqb_spec (stat s) (stat o)) as [E|E]; cbn [negb]; [right; split; congruence|left; reflexivity].
Qed.

Theorem interrupt_cleanup : forall c scan st, length (p_outs scan) = length (p_outs st) ->
  let st' := cleanup c scan st in
  Forall2 (fun s o' => o_file o' = None \/ stat o' = stat s) (p_outs scan) (p_outs st')
  /\ (has_depfile c = true ->
      Forall (fun o' => o_file o' = None) (p_outs st') /\ p_depfile st' = None)
  /\ p_lock st' = false
  /\ p_dlog st' = p_dlog st /\ map o_log (p_outs st') = map o_log (p_outs st).
Proof.
  intros c scan st Hl st'. unfold st', cleanup. cbn [p_outs p_depfile p_lock p_dlog].
  pose proof (cleanup_outs_mtime (has_depfile c) _ _ Hl) as H.
  split; [|split; [|split; [reflexivity|split; [reflexivity|]]]].
  - clear Hl. induction H as [|s o' ls lo [E|[_ E]] _ IH]; constructor; auto.
  - intros Hd. rewrite Hd in *. split; [|reflexivity].
    clear Hl. induction H as [|s o' ls lo [E|[E _]] _ IH]; constructor; try assumption; discriminate.
  - clear H. revert Hl. generalize (p_outs st) as cur. generalize (p_outs scan) as sc.
    induction sc as [|s sc IH]; intros [|o cur] Hl; try discriminate; [reflexivity|].
    cbn [cleanup_outs map]. cbn [length] in Hl. rewrite IH by lia.
    destruct (has_depfile c || negb (Z.eqb (stat s) (stat o))); reflexivity.
Qed.

(* ---- what an interrupted run can have done before Cleanup: the command phase *)
Definition act_pre (c : cfg) (start : Z) (a : action) : Prop :=
  match a with
  | ACmdWrite _ _ t => start < t
  | ACmdWriteDepfile _ | ARemoveDepfile => has_depfile c = true
  | ALogAppend _ _ _ | ADepsAppend _ _ _ => False
  | _ => True
  end.

Definition rel_run (start : Z) (o0 o : orec) : Prop :=
  o_log o = o_log o0 /\ (o = o0 \/ start < stat o).
Definition rel_clean (o0 o' : orec) : Prop := o' = o0 \/ o' = mkO None (o_log o0).

Lemma Forall2_upd_nth {A : Type} (R : A -> A -> Prop) (f : A -> A)
      (Hf : forall x0 x, R x0 x -> R x0 (f x)) :
  forall l0 l, Forall2 R l0 l -> forall i, Forall2 R l0 (upd_nth i f l).
Proof.
  induction 1 as [|x0 x l0 l Hx Hl IH]; intros [|i]; cbn [upd_nth]; constructor; auto.
Qed.

Lemma pre_rel c start acts : Forall (act_pre c start) acts ->
  forall l0 l, Forall2 (rel_run start) l0 l -> Forall2 (rel_run start) l0 (fold_left apply_outs acts l).
Proof.
  induction 1 as [|a acts Ha Hacts IH]; intros l0 l Hl; [exact Hl|].
  cbn [fold_left]. apply IH.
  destruct a as [| |i cc t| | | |i h m| | |]; cbn [apply_outs]; try exact Hl.
  - cbn [act_pre] in Ha. apply Forall2_upd_nth; [|exact Hl].
    intros x0 x [H1 H2]. split; [exact H1|]. right. unfold stat, set_file. cbn [o_file]. exact Ha.
  - destruct Ha.
Qed.

Lemma pre_dlog c start acts : Forall (act_pre c start) acts -> existsb t_dlog acts = false.
Proof.
  induction 1 as [|a acts Ha Hacts IH]; [reflexivity|].
  cbn [existsb]. rewrite IH, orb_false_r. destruct a; try reflexivity. destruct Ha.
Qed.

Lemma rel_run_refl start l : Forall2 (rel_run start) l l.
Proof. induction l as [|o l IH]; constructor; [split; auto|exact IH]. Qed.

Lemma cleanup_rel dep start : forall l0 l,
  Forall (fun o0 => stat o0 <= start) l0 -> Forall2 (rel_run start) l0 l ->
  Forall2 rel_clean l0 (cleanup_outs dep l0 l).
Proof.
  intros l0 l Hold H. induction H as [|o0 o l0 l [Hlog Ho] Hl IH]; [constructor|].
  inversion Hold as [|x xs Ho0 Hold']; subst.
  cbn [cleanup_outs]. constructor; [|now apply IH].
  unfold rel_clean, set_file. rewrite Hlog.
  destruct dep; cbn [orb]; [right; reflexivity|].
  destruct (Z.eqb_spec (stat o0) (stat o)) as [E|E]; cbn [negb]; [|right; reflexivity].
  destruct Ho as [->|Hgt]; [left; reflexivity|lia].
Qed.

Lemma removed_dirty c mri o : o_file o = None -> output_dirty_first c mri o = true.
Proof. intros H. unfold output_dirty_first, stat. now rewrite H. Qed.

Lemma rel_clean_dirty c mri : forall l0 l', Forall2 rel_clean l0 l' ->
  existsb (output_dirty_first c mri) l0 = true -> existsb (output_dirty_first c mri) l' = true.
Proof.
  induction 1 as [|o0 o' l0 l' Ho Hl IH]; intros H; [exact H|].
  cbn [existsb] in *. apply orb_true_iff in H. apply orb_true_iff.
  destruct H as [H|H]; [|right; now apply IH]. left.
  destruct Ho as [->| ->]; [exact H|]. now apply removed_dirty.
Qed.

Lemma rel_clean_same c mri : forall l0 l', Forall2 rel_clean l0 l' ->
  existsb (output_dirty_first c mri) l' = false -> l' = l0.
Proof.
  induction 1 as [|o0 o' l0 l' Ho Hl IH]; intros H; [reflexivity|].
  cbn [existsb] in H. apply orb_false_iff in H. destruct H as [H1 H2].
  rewrite (IH H2). destruct Ho as [->| ->]; [reflexivity|].
  rewrite removed_dirty in H1 by reflexivity. discriminate.
Qed.

Lemma next_run_dirty_ext c ins st st' :
  p_outs st = p_outs st' -> p_dlog st = p_dlog st' ->
  (c_deps c = DDepfile -> p_depfile st = p_depfile st') ->
  next_run_dirty c ins st = next_run_dirty c ins st'.
Proof.
  intros Ho Hd Hf. unfold next_run_dirty, load_deps. rewrite Ho, Hd.
  destruct (c_deps c); try reflexivity. now rewrite Hf.
Qed.

(* ================================================================== C07_interrupt_redone *)
(* ANY reason of dirtiness survives an interrupt + Cleanup, provided the interrupted run only got as
   far as the command phase (no log line yet), the outputs seen by the scan are not newer than the
   lock tick and the command's writes are. *)
Theorem interrupt_redone_gen : forall c ins st0 start acts,
  Forall (act_pre c start) acts ->
  Forall (fun o0 => stat o0 <= start) (p_outs st0) ->
  next_run_dirty c ins st0 = true ->
  next_run_dirty c ins (cleanup c st0 (apply_all st0 acts)) = true.
Proof.
  intros c ins st0 start acts Hacts Hold Hd.
  set (st' := cleanup c st0 (apply_all st0 acts)).
  assert (Hrel : Forall2 rel_clean (p_outs st0) (p_outs st')).
  { unfold st', cleanup. cbn [p_outs]. apply (cleanup_rel _ start); [assumption|].
    rewrite p_outs_apply_all. apply (pre_rel c start); [assumption|apply rel_run_refl]. }
  assert (Hdl : p_dlog st' = p_dlog st0).
  { unfold st', cleanup. cbn [p_dlog]. rewrite p_dlog_apply_all.
    apply dlog_untouched. eapply pre_dlog; eassumption. }
  assert (Hdf : has_depfile c = true -> p_depfile st' = None).
  { intros H. unfold st', cleanup. cbn [p_depfile]. now rewrite H. }
  destruct (any_missing (i_explicit ins)) eqn:Hm; [now apply missing_input_dirty|].
  set (mri := mri_of (i_explicit ins) None).
  destruct (existsb (output_dirty_first c mri) (p_outs st')) eqn:He.
  - unfold next_run_dirty. rewrite Hm. fold mri. now rewrite He.
  - pose proof (rel_clean_same c mri _ _ Hrel He) as Hsame.
    destruct (c_deps c) eqn:Ek.
    + rewrite <- Hd. apply next_run_dirty_ext; [assumption|assumption|congruence].
    + unfold next_run_dirty. rewrite Hm. fold mri. rewrite He. unfold load_deps. rewrite Ek.
      rewrite Hdf by (unfold has_depfile; now rewrite Ek). reflexivity.
    + rewrite <- Hd. apply next_run_dirty_ext; [assumption|assumption|congruence].
    + rewrite <- Hd. apply next_run_dirty_ext; [assumption|assumption|congruence].
Qed.

(* prefixes of the real action list up to the end of the command are such command phases *)
Lemma Forall_firstn {A : Type} (P : A -> Prop) : forall l k, Forall P l -> Forall P (firstn k l).
Proof.
  induction l as [|x l IH]; intros [|k] H; cbn [firstn]; try constructor.
  - inversion H; assumption.
  - inversion H; auto.
Qed.
Lemma Forall_skipn {A : Type} (P : A -> Prop) : forall l k, Forall P l -> Forall P (skipn k l).
Proof.
  induction l as [|x l IH]; intros [|k] H; cbn [skipn]; try assumption.
  inversion H; auto.
Qed.

Lemma cmd_writes_pre c start restat : forall outs ws i,
  Forall (fun w => start < snd w) ws -> Forall (act_pre c start) (cmd_writes restat i outs ws).
Proof.
  induction outs as [|o outs IH]; intros ws i Hw; [constructor|].
  destruct ws as [|[cc t] ws]; [constructor|]. inversion Hw as [|w ws' Ht Hw']; subst.
  cbn [cmd_writes]. apply Forall_app. split; [|now apply IH].
  destruct (restat && same_content o cc); constructor; [exact Ht|constructor].
Qed.

Lemma prefix_is_cmd_phase c r st0 k :
  Forall (fun w => r_start r < snd w) (r_writes r) -> (k <= cmd_done_len c r st0)%nat ->
  Forall (act_pre c (r_start r)) (firstn k (run_actions c r st0)).
Proof.
  intros Hw Hk. unfold cmd_done_len in Hk. unfold run_actions.
  rewrite app_assoc, firstn_app.
  replace (k - length (start_actions c r ++ cmd_actions c r st0))%nat with 0%nat by lia.
  rewrite firstn_O, app_nil_r. apply Forall_firstn, Forall_app. split.
  - unfold start_actions. constructor; [exact I|]. destruct (c_rspfile c); repeat constructor.
  - unfold cmd_actions. apply Forall_app. split; [|apply Forall_app; split].
    + now apply Forall_firstn, cmd_writes_pre.
    + destruct (has_depfile c) eqn:Hd; constructor; [exact Hd|constructor].
    + now apply Forall_skipn, cmd_writes_pre.
Qed.

Theorem interrupt_redone : forall c r ins st0 k,
  Forall (fun w => r_start r < snd w) (r_writes r) ->
  Forall (fun o0 => stat o0 <= r_start r) (p_outs st0) ->
  (k <= cmd_done_len c r st0)%nat ->
  next_run_dirty c ins st0 = true ->
  next_run_dirty c ins (cleanup c st0 (apply_all st0 (firstn k (run_actions c r st0)))) = true.
Proof.
  intros c r ins st0 k Hw Hold Hk Hd.
  eapply interrupt_redone_gen; [now apply prefix_is_cmd_phase|exact Hold|exact Hd].
Qed.

(* ================================================================== what a clean verdict after a crash rests on *)
(* Contrapositive of [prefix_redone]: if a crashed run (log line of output i not yet durable)
   leaves the statement clean, then the OLD entry of output i already vouched for it: same command
   hash, not older than any manifest input, and no input is missing.  The unfinished run contributes
   nothing to the trust. *)
Theorem prefix_trust_is_old : forall c r ins st0 i o k torn,
  nth_error (p_outs st0) i = Some o -> (k <= pre_len c r st0 + i)%nat ->
  next_run_dirty c ins (apply_all st0 (crash (run_actions c r st0) k torn)) = false ->
  log_stale c (mri_of (i_explicit ins) None) o = false /\ any_missing (i_explicit ins) = false.
Proof.
  intros c r ins st0 i o k torn Hn Hk Hc. split.
  - destruct (log_stale c _ o) eqn:Hs; [|reflexivity].
    rewrite (prefix_redone c r ins st0 i o k torn Hn Hs Hk) in Hc. discriminate.
  - destruct (any_missing (i_explicit ins)) eqn:Hm; [|reflexivity].
    rewrite missing_input_dirty in Hc by assumption. discriminate.
Qed.

(* ================================================================== Examples *)
Definition dirty_upto (c : cfg) (ins : inputs) (st0 : pstate) (acts : list action) (n : nat) : bool :=
  forallb (fun k => next_run_dirty c ins (apply_all st0 (firstn k acts))
                    && next_run_dirty c ins (apply_all st0 (crash acts k true))) (seq 0 n).

(* ---- the literal "dirty before => dirty after every strict prefix" is FALSE (benign):
   a.o was deleted by hand, b.o and both log entries are valid; the command recreates a.o and is
   killed before it touches b.o.  The next run is clean -- on the strength of the old entries. *)
Example prefix_redone_literal_refuted :
  exists c r ins st0 k,
    next_run_dirty c ins st0 = true /\ (k < cmd_done_len c r st0)%nat /\
    next_run_dirty c ins (apply_all st0 (firstn k (run_actions c r st0))) = false.
Proof.
  exists (mkCfg 77 false false DNone false), (mkRun 10 [(100%N, 11); (101%N, 12)] [] 0),
         (mkIn [3] (fun _ => 2)),
         (mkP [mkO None (Some (77%N, 5)); mkO (Some (6, 101%N)) (Some (77%N, 5))] None None false false),
         2%nat.
  vm_compute. repeat split; reflexivity.
Qed.

(* ---- "commands replace their outputs atomically" is needed in exactly that situation: a
   half-written a.o (content 999) is trusted *)
Example atomic_replace_needed :
  let c := mkCfg 77 false false DNone false in
  let ins := mkIn [3] (fun _ => 2) in
  let st0 := mkP [mkO None (Some (77%N, 5))] None None false false in
  next_run_dirty c ins st0 = true /\
  next_run_dirty c ins (apply st0 (ACmdWrite 0 999 11)) = false.
Proof. vm_compute. split; reflexivity. Qed.

(* ---- "the command line is the same in the killed run and in the next run" is needed: command
   changed (hash 88), run killed after it rewrote out, command reverted (hash 77): the old entry
   validates an output written by the OTHER command *)
Example hash_revert_escape :
  let c77 := mkCfg 77 false false DNone false in
  let c88 := mkCfg 88 false false DNone false in
  let ins := mkIn [3] (fun _ => 2) in
  let st0 := mkP [mkO (Some (5, 100%N)) (Some (77%N, 5))] None None false false in
  let r88 := mkRun 10 [(200%N, 11)] [] 0 in
  let st := apply_all st0 (firstn 2 (run_actions c88 r88 st0)) in
  next_run_dirty c88 ins st0 = true /\ next_run_dirty c88 ins st = true /\
  next_run_dirty c77 ins st = false /\ map o_file (p_outs st) = [Some (11, 200%N)].
Proof. vm_compute. repeat split; reflexivity. Qed.

(* ================================================================== C07_order_matters *)
(* (1) log line BEFORE the command's writes: command changed (66 -> 77), inputs untouched.
   Code order: dirty after every strict prefix.  Swapped: after [lock; log line] the statement is
   clean with the OLD content. *)
Example order_matters_log_first :
  let c := mkCfg 77 false false DNone false in
  let ins := mkIn [3] (fun _ => 2) in
  let st0 := mkP [mkO (Some (5, 1%N)) (Some (66%N, 5))] None None false false in
  let r := mkRun 10 [(100%N, 11)] [] 0 in
  next_run_dirty c ins st0 = true /\
  dirty_upto c ins st0 (run_actions c r st0) (length (run_actions c r st0)) = true /\
  (2 < length (run_actions_log_first c r st0))%nat /\
  next_run_dirty c ins (apply_all st0 (firstn 2 (run_actions_log_first c r st0))) = false /\
  map o_file (p_outs (apply_all st0 (firstn 2 (run_actions_log_first c r st0)))) = [Some (5, 1%N)].
Proof. vm_compute. repeat split; try reflexivity; lia. Qed.

(* (2) the order of the code BEFORE the fix (log lines, then deps records): restat + deps=gcc,
   a.c edited (tick 8) and now also including header 9, object reproduced identically and left alone.
   Code order: dirty after EVERY strict prefix (torn or not), so the new deps [7; 9] are durable
   before anything is trusted.  Old order: after [lock; depfile; rm depfile; log line] the statement
   is clean with the old deps record [7] -- header 9 is recorded nowhere. *)
Example order_matters_old_order_loses_deps :
  let c := mkCfg 77 true false DGcc false in
  let ins := mkIn [8] (fun _ => 2) in
  let st0 := mkP [mkO (Some (5, 100%N)) (Some (77%N, 5))] (Some (5, [7%nat])) None false false in
  let r := mkRun 10 [(100%N, 11)] [7%nat; 9%nat] 0 in
  next_run_dirty c ins st0 = true /\
  dirty_upto c ins st0 (run_actions c r st0) (length (run_actions c r st0)) = true /\
  p_dlog (apply_all st0 (run_actions c r st0)) = Some (5, [7%nat; 9%nat]) /\
  (4 < length (run_actions_old_order c r st0))%nat /\
  next_run_dirty c ins (apply_all st0 (firstn 4 (run_actions_old_order c r st0))) = false /\
  p_dlog (apply_all st0 (firstn 4 (run_actions_old_order c r st0))) = Some (5, [7%nat]).
Proof. vm_compute. repeat split; try reflexivity; lia. Qed.

(* The order the code uses now has a benign counterpart of the literal counterexample above: deps
   log lost, build log valid -- the statement is clean as soon as the deps record is rewritten, before
   the log lines; the verdict rests on the old valid entries ([prefix_trust_is_old]) and on deps this
   run did report. *)
Example deps_first_benign :
  let c := mkCfg 77 false false DGcc false in
  let ins := mkIn [3] (fun _ => 2) in
  let st0 := mkP [mkO (Some (5, 100%N)) (Some (77%N, 5))] None None false false in
  let r := mkRun 10 [(100%N, 11)] [7%nat] 0 in
  next_run_dirty c ins st0 = true /\ (5 < length (run_actions c r st0))%nat /\
  next_run_dirty c ins (apply_all st0 (firstn 5 (run_actions c r st0))) = false /\
  p_dlog (apply_all st0 (firstn 5 (run_actions c r st0))) = Some (11, [7%nat]).
Proof. vm_compute. repeat split; try reflexivity; lia. Qed.

(* ================================================================== FINDING (fixed in the code; about the OLD order) *)
(* restat + deps=gcc: a.c was edited (tick 8) and now includes header 9 as well; the command
   reproduces the same a.o, so it leaves it alone (restat).  With the old order FinishCommand had
   removed the depfile and written the build-log line (hash, start tick) when the process died BEFORE
   RecordDeps.  The next run found the statement clean with the OLD deps record [7]: the discovered
   input 9 was recorded nowhere (depfile removed, deps record not written), and a later edit of
   header 9 was never seen.  This is why FinishCommand now records the deps BEFORE the build-log
   lines; under [run_actions] the same witness is dirty at every crash point
   ([order_matters_old_order_loses_deps], [clean_implies_deps_recorded]). *)
Example restat_deps_lost_old_order_refuted :
  exists c r ins st0 k,
    forallb (log_stale c (mri_of (i_explicit ins) None)) (p_outs st0) = true /\
    run_ok r st0 /\ inputs_old ins r /\
    (k < length (run_actions_old_order c r st0))%nat /\
    let st := apply_all st0 (firstn k (run_actions_old_order c r st0)) in
    next_run_dirty c ins st = false /\
    p_dlog st = Some (5, [7%nat]) /\ p_depfile st = None /\ r_deps r = [7%nat; 9%nat] /\
    (* header 9 edited later: still clean after the crash, dirty after the complete run *)
    let ins' := mkIn (i_explicit ins) (fun h => if Nat.eqb h 9 then 50 else i_hdr ins h) in
    next_run_dirty c ins' st = false /\
    next_run_dirty c ins' (apply_all st0 (run_actions_old_order c r st0)) = true.
Proof.
  exists (mkCfg 77 true false DGcc false), (mkRun 10 [(100%N, 11)] [7%nat; 9%nat] 0),
         (mkIn [8] (fun _ => 2)),
         (mkP [mkO (Some (5, 100%N)) (Some (77%N, 5))] (Some (5, [7%nat])) None false false),
         4%nat.
  split; [vm_compute; reflexivity|]. split.
  { unfold run_ok. cbn. repeat split; try lia. repeat constructor. cbn. lia. }
  split.
  { unfold inputs_old. cbn. split; repeat constructor; lia. }
  vm_compute. repeat split; try reflexivity; lia.
Qed.

(* ================================================================== non-vacuity on CrashDefs.ex_* *)
Example ex_hyps :
  next_run_dirty ex_cfg ex_ins ex_st0 = true /\
  forallb (log_stale ex_cfg (mri_of (i_explicit ex_ins) None)) (p_outs ex_st0) = true /\
  p_outs ex_st0 <> [] /\ run_ok ex_run ex_st0 /\ inputs_old ex_ins ex_run /\
  uses_depslog ex_cfg = true /\
  Forall (fun w => r_start ex_run < snd w) (r_writes ex_run) /\
  Forall (fun o0 => stat o0 <= r_start ex_run) (p_outs ex_st0).
Proof.
  split; [vm_compute; reflexivity|]. split; [vm_compute; reflexivity|].
  split; [discriminate|]. split.
  { unfold run_ok. cbn. repeat split; try lia. repeat constructor; cbn; lia. }
  split. { unfold inputs_old. cbn. split; repeat constructor; lia. }
  split; [reflexivity|]. split; repeat constructor; cbn; lia.
Qed.

(* every strict prefix of the concrete statement's 11 actions (torn or not) is dirty, the
   complete run is clean *)
Example ex_all_crash_points :
  length (run_actions ex_cfg ex_run ex_st0) = 11%nat /\
  commit_len ex_cfg ex_run ex_st0 = 11%nat /\ pre_len ex_cfg ex_run ex_st0 = 9%nat /\
  dirty_upto ex_cfg ex_ins ex_st0 (run_actions ex_cfg ex_run ex_st0) 11 = true /\
  next_run_dirty ex_cfg ex_ins (apply_all ex_st0 (run_actions ex_cfg ex_run ex_st0)) = false.
Proof. vm_compute. repeat split; reflexivity. Qed.

(* the interrupted concrete statement: whatever the command had done, Cleanup leaves no output, no
   depfile, no lock, and the statement dirty *)
Example ex_interrupt :
  forallb (fun k =>
    let st := cleanup ex_cfg ex_st0 (apply_all ex_st0 (firstn k (run_actions ex_cfg ex_run ex_st0))) in
    forallb (fun o => match o_file o with None => true | Some _ => false end) (p_outs st)
    && match p_depfile st with None => true | Some _ => false end
    && negb (p_lock st) && next_run_dirty ex_cfg ex_ins st) (seq 0 6) = true
  /\ cmd_done_len ex_cfg ex_run ex_st0 = 5%nat.
Proof. vm_compute. split; reflexivity. Qed.

(* ================================================================== the commit point *)
(* [commit_len] = length of the action list: the last build-log line is the last action, so
   [prefix_redone_all] covers every strict prefix and nothing is left after the commit point. *)
Theorem commit_exact : forall c r st0 k, (commit_len c r st0 <= k)%nat ->
  apply_all st0 (firstn k (run_actions c r st0)) = apply_all st0 (run_actions c r st0).
Proof. intros c r st0 k Hk. unfold commit_len in Hk. now rewrite firstn_all2. Qed.

(* ================================================================== tie to the validated scan model *)
(* The per-output tests of this file ARE the ones of Engine/ScanDefs.v (validated against the C++ by
   the scan correspondence check), read on a node whose scan state is the output's file. *)
From NinjaV Require Engine.ScanDefs.

Section ScanTie.
Variables (c : cfg) (o : orec) (g : ScanDefs.graph) (w : ScanDefs.world) (e : ScanDefs.edge)
          (n : ScanDefs.node) (s : ScanDefs.sstate).
Hypothesis Hrestat : ScanDefs.ei_restat (ScanDefs.g_edge g e) = c_restat c.
Hypothesis Hgen : ScanDefs.ei_generator (ScanDefs.g_edge g e) = c_generator c.
Hypothesis Hhash : ScanDefs.ei_hash (ScanDefs.g_edge g e) = c_hash c.
Hypothesis Hlog : ScanDefs.w_blog w n = o_log o.
Hypothesis Hmtime : ScanDefs.ns_mtime (ScanDefs.st_node s n) = stat o.
Hypothesis Hexists : ScanDefs.n_exists (ScanDefs.st_node s n) = negb (Z.eqb (stat o) 0).

Lemma output_dirty_first_is_scan mri :
  ScanDefs.output_dirty_first g w e n mri s = output_dirty_first c mri o.
Proof.
  unfold ScanDefs.output_dirty_first, output_dirty_first, lt_mri.
  rewrite Hrestat, Hgen, Hhash, Hlog, Hmtime, Hexists, negb_involutive. reflexivity.
Qed.

Lemma output_dirty_again_is_scan mri :
  ScanDefs.output_dirty_again g w e n mri s = output_dirty_again c mri o.
Proof.
  unfold ScanDefs.output_dirty_again, output_dirty_again, lt_mri.
  rewrite Hrestat, Hlog, Hmtime. reflexivity.
Qed.
End ScanTie.
